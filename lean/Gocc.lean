import Gocc.Model.Range
import Gocc.Spec.Range
import Gocc.Proofs.Range
import Gocc.Props.C18
