import Gocc.Model.Grammar
/-
Model of the parser generator:
  internal/ast/syntaxpart.go      augment
  internal/parser/symbols         NewSymbols / Add / ListTerminals / NTList
  internal/token/tokenmap.go      NewTokenMap
  internal/parser/first           GetFirstSets / FirstS
  internal/parser/lr1/items       Item, ItemSet.Closure / Goto / Action, GetItemSets
  internal/parser/lr1/action      ResolveConflict
  internal/parser/gen/golang      getActionRowData / getGotoRowData / getProdsTab (table contents)
Symbols are compared by spelling (`String`), as in the Go code.  Go panics are `Except.error`.
-/
namespace Gocc

def addNoDup (l : List String) (s : String) : List String := if l.contains s then l else l ++ [s]

/-- `ast.SyntaxPart.augment`: production 0 is `S' : <first head>` -/
def augment (syn : List SProd) : List SProd :=
  match syn with
  | [] => []
  | p :: _ => { head := "S'", body := [⟨.prodId, p.head⟩] } :: syn

structure PSymbols where
  typeMap : List String := []       -- all symbols, first-use order
  ntList : List String := []        -- heads, first-use order
  strLits : List String := []       -- string literal terminals, first-use order
deriving Repr, Inhabited

/-- `symbols.NewSymbols(g)`; the panic for a string literal that is also an (already seen)
    production name is `Except.error`. -/
def symAddSym (s : PSymbols) (sym : SSym) : Except String PSymbols :=
  let s := { s with typeMap := addNoDup s.typeMap sym.name }
  if sym.kind == .strLit then
    if s.ntList.contains sym.name then
      .error s!"string_lit conflicts with production name {sym.name}"
    else .ok { s with strLits := addNoDup s.strLits sym.name }
  else .ok s

def symAddProd (s : PSymbols) (p : SProd) : Except String PSymbols :=
  p.body.foldlM symAddSym
    { s with ntList := addNoDup s.ntList p.head, typeMap := addNoDup s.typeMap p.head }

def newSymbols (prods : List SProd) : Except String PSymbols :=
  prods.foldlM symAddProd { typeMap := ["INVALID", "␚"] }

def PSymbols.isTerminal (s : PSymbols) (x : String) : Bool := !s.ntList.contains x

/-- `gSymbols.Add(g.LexPart.TokenIds()...)`: sorted token ids appended -/
def PSymbols.addTokens (s : PSymbols) (ids : List String) : PSymbols :=
  { s with typeMap := ids.foldl addNoDup s.typeMap }

/-- `ListTerminals()` = `TokenMap.TypeMap` -/
def PSymbols.terminals (s : PSymbols) : List String := s.typeMap.filter s.isTerminal

def sortStrings (l : List String) : List String := l.mergeSort (fun a b => a ≤ b)

/-! ### FIRST sets -/

abbrev FirstSets := List (String × List String)     -- prod name ↦ set (as list without duplicates)

def FirstSets.get (fs : FirstSets) (n : String) : List String :=
  match fs.find? (·.1 == n) with
  | some (_, s) => s
  | none => []

def FirstSets.addTok (fs : FirstSets) (n t : String) : FirstSets × Bool :=
  match fs.find? (·.1 == n) with
  | some (_, s) =>
    if s.contains t then (fs, false)
    else (fs.map fun (m, s') => if m == n then (m, s' ++ [t]) else (m, s'), true)
  | none => (fs ++ [(n, [t])], true)

def FirstSets.addSet (fs : FirstSets) (n : String) (ts : List String) : FirstSets × Bool :=
  ts.foldl (fun (acc : FirstSets × Bool) t => let r := acc.1.addTok n t; (r.1, acc.2 || r.2)) (fs, false)

/-- `First(fs, sym)` -/
def first (S : PSymbols) (fs : FirstSets) (sym : String) : List String :=
  if S.isTerminal sym then [sym] else fs.get sym

/-- `FirstS(firstSets, symbols)` (result as duplicate-free list) -/
def firstS (S : PSymbols) (fs : FirstSets) (syms : List String) : List String :=
  match syms with
  | [] => []
  | x :: rest =>
    let fst := first S fs x
    let rec go (acc : List String) (containEmpty : Bool) : List String → List String × Bool
      | [] => (acc, containEmpty)
      | y :: ys =>
        if containEmpty then
          let f := first S fs y
          go (f.foldl addNoDup acc) (f.contains "empty") ys
        else (acc, containEmpty)
    let r := go (fst.foldl addNoDup []) (fst.contains "empty") rest
    if r.2 then r.1 else r.1.filter (· != "empty")

def sameSet (a b : List String) : Bool := a.length == b.length && a.all b.contains

/-- one pass of the `for _, prod := range ProdList` loop of `GetFirstSets` -/
def firstPass (S : PSymbols) (prods : List SProd) (fs : FirstSets) : FirstSets × Bool :=
  prods.foldl (fun (acc : FirstSets × Bool) p =>
    let fs := acc.1
    match p.body with
    | [] => let r := fs.addTok p.head "empty"; (r.1, acc.2 || r.2)
    | s0 :: _ =>
      if S.isTerminal s0.name then
        let r := fs.addTok p.head s0.name; (r.1, acc.2 || r.2)
      else
        let f := firstS S fs (p.body.map (·.name))
        if !sameSet f (fs.get p.head) then
          let r := fs.addSet p.head f; (r.1, acc.2 || r.2)
        else acc) (fs, false)

/-- `GetFirstSets`: repeat passes until nothing is added.  Every productive pass adds at least
    one (head, terminal) pair, so `|heads| * (|symbols|+1) + 1` passes always suffice. -/
def firstSetsFuel (S : PSymbols) (prods : List SProd) : Nat → FirstSets → FirstSets
  | 0, fs => fs
  | n + 1, fs =>
    let r := firstPass S prods fs
    if r.2 then firstSetsFuel S prods n r.1 else r.1

def firstSets (S : PSymbols) (prods : List SProd) : FirstSets :=
  firstSetsFuel S prods (S.ntList.length * (S.typeMap.length + 2) + 2) []

/-! ### LR(1) items -/

structure Item where
  p : Nat          -- production index (0 = S')
  d : Nat          -- dot position
  la : String      -- following symbol
deriving DecidableEq, Repr, Inhabited, BEq

structure LRCtx where
  prods : Array SProd
  S : PSymbols
  fs : FirstSets

/-- `Item.Len`: 0 for an alternative whose first symbol is spelled `empty` -/
def prodLen (p : SProd) : Nat :=
  match p.body with
  | s :: _ => if s.name == "empty" then 0 else p.body.length
  | [] => 0

def LRCtx.len (C : LRCtx) (i : Item) : Nat := prodLen C.prods[i.p]!
def LRCtx.body (C : LRCtx) (i : Item) : List String :=
  let p := C.prods[i.p]!
  if prodLen p == 0 then [] else p.body.map (·.name)
/-- `ExpectedSymbol` ("" for a reduce item) -/
def LRCtx.expected (C : LRCtx) (i : Item) : String :=
  if i.d < C.len i then (C.body i)[i.d]! else ""

def addItem (l : List Item) (i : Item) : List Item := if l.contains i then l else l ++ [i]

/-- `first1(FS, body[pos+1:], following)`: sorted look-aheads -/
def first1 (C : LRCtx) (i : Item) : List String :=
  sortStrings (firstS C.S C.fs ((C.body i).drop (i.d + 1) ++ [i.la]))

/-- the items one item contributes to the closure -/
def closureStep (C : LRCtx) (i : Item) : List Item :=
  if i.d ≥ C.len i || C.S.isTerminal (C.expected i) then []
  else
    let exp := C.expected i
    let f := first1 C i
    (List.range C.prods.size).flatMap fun pi =>
      if C.prods[pi]!.head == exp then f.map fun t => ⟨pi, 0, t⟩ else []

/-- `ItemSet.Closure`: work-list in item order; `k` is the index of the next item to process.
    Fuel bounds the number of processed items by the number of possible items. -/
def closureLoop (C : LRCtx) : Nat → Nat → List Item → List Item
  | 0, _, c => c
  | fuel + 1, k, c =>
    match c[k]? with
    | none => c
    | some i => closureLoop C fuel (k + 1) ((closureStep C i).foldl addItem c)

def LRCtx.maxItems (C : LRCtx) : Nat :=
  (C.prods.toList.map fun p => p.body.length + 1).sum * (C.S.typeMap.length + 1) + 1

def closure (C : LRCtx) (items : List Item) : List Item :=
  closureLoop C (C.maxItems + items.length + 1) 0 (items.foldl addItem [])

/-- `ItemSet.Goto(X)` -/
def goto (C : LRCtx) (I : List Item) (X : String) : List Item :=
  let J := (I.filter fun i => i.d < C.len i && C.expected i == X).map fun i => { i with d := i.d + 1 }
  if J.isEmpty then [] else closure C J

def sameItems (a b : List Item) : Bool := a.length == b.length && a.all b.contains

structure LRState where
  items : List Item
  trans : List (String × Nat) := []
deriving Repr, Inhabited

def LRState.next (s : LRState) (X : String) : Option Nat := (s.trans.find? (·.1 == X)).map (·.2)

/-- process state `i`: compute `Goto(X)` for every symbol in `symbols.List()` order -/
def lrExpand (C : LRCtx) (sets : Array LRState) (i : Nat) : Array LRState :=
  C.S.typeMap.foldl (fun (sets : Array LRState) X =>
    let gto := goto C sets[i]!.items X
    if gto.isEmpty then sets
    else
      match sets.findIdx? (fun s => sameItems s.items gto) with
      | some idx => sets.modify i fun s => { s with trans := s.trans ++ [(X, idx)] }
      | none =>
        let sets := sets.push { items := gto }
        sets.modify i fun s => { s with trans := s.trans ++ [(X, sets.size - 1)] }) sets

/-- `GetItemSets`: states are processed in index order -/
def lrLoop (C : LRCtx) : Nat → Nat → Array LRState → Array LRState
  | 0, _, sets => sets
  | fuel + 1, i, sets => if i < sets.size then lrLoop C fuel (i + 1) (lrExpand C sets i) else sets

/-! ### Actions -/

inductive Act where
  | shift (s : Nat) | reduce (p : Nat) | accept
deriving DecidableEq, Repr, Inhabited, BEq

/-- `Item.action(sym, nextState)`; `none` = action.ERROR -/
def itemAction (C : LRCtx) (i : Item) (sym : String) (next : Nat) : Option Act :=
  let len := C.len i
  if sym == "INVALID" then none
  else if i.p == 0 && i.d ≥ len && i.la == "␚" && sym == "␚" then some .accept
  else if (len == 0 || i.d ≥ len) && i.la == sym then some (.reduce i.p)
  else if sym == C.expected i then some (.shift next)
  else none

/-- `act1.ResolveConflict(act2)` for two different non-error actions -/
def resolve (a b : Act) : Except String Act :=
  match a, b with
  | .accept, _ => .error "Cannot have LR1 conflict with Accept."
  | .shift _, .accept => .error "Impossible conflict: Shift/Accept"
  | .shift _, .shift _ => .error "Cannot have Shift/Shift"
  | .shift s, .reduce _ => .ok (.shift s)
  | .reduce _, .accept => .error "Impossible conflict: Reduce/Accept"
  | .reduce _, .shift s => .ok (.shift s)
  | .reduce p, .reduce q => .ok (.reduce (if p < q then p else q))

/-- `ItemSet.Action(symbol)`: resulting action and whether a conflict was recorded -/
def setAction (C : LRCtx) (st : LRState) (sym : String) : Except String (Option Act × Bool) :=
  let next := (st.next sym).getD 0
  st.items.foldlM (fun (acc : Option Act × Bool) i =>
    match itemAction C i sym next, acc.1 with
    | none, _ => pure acc
    | some a2, none => pure (some a2, acc.2)
    | some a2, some a1 =>
      if a1 == a2 then pure acc
      else do
        let r ← resolve a1 a2
        pure (some r, true)) (none, false)

inductive RKind where
  | dflt            -- `return X[0], nil`
  | nilEmpty        -- `return nil, nil`
  | user (shape id : Nat)
deriving DecidableEq, Repr, Inhabited

structure PTables where
  terminals : List String
  nts : List String
  action : Array (Array (Option Act))
  goto_ : Array (Array Int)
  canRecover : Array Bool
  prodNT : Array Nat
  prodLen : Array Nat
  prodKind : Array RKind
  conflictStates : Nat
  nStates : Nat
  numSymbols : Nat          -- `symbols.NumSymbols()`: width of an action row in the generated code
deriving Repr, Inhabited

/-- `Item.canRecover` (after fix D19): the error symbol stands right after the dot, `X : v •error w` -/
def itemCanRecover (C : LRCtx) (i : Item) : Bool :=
  i.d < C.len i && (C.body i)[i.d]? == some "error"

structure LRResult where
  ctx : LRCtx
  states : Array LRState
  tables : PTables

/-- the whole parser-generator pipeline of `main` for the syntax part:
    symbols, token ids, FIRST, item sets, tables.  `tokIds` = sorted `LexPart.TokenIds()`. -/
def genParser (syn : List SProd) (tokIds : List String) : Except String LRResult := do
  let prods := augment syn
  let S0 ← newSymbols prods
  let S := S0.addTokens tokIds
  let fs := firstSets S prods
  let C : LRCtx := { prods := prods.toArray, S := S, fs := fs }
  let init := closure C [⟨0, 0, "␚"⟩]
  let maxStates := 4096
  let states := lrLoop C maxStates 0 #[{ items := init }]
  let terms := S.terminals
  -- one action row per state: `getActionRowData` calls `set.Action(sym)` for every terminal; a panic in any of them aborts gocc
  let rows ← states.toList.mapM fun st => terms.mapM (setAction C st)
  let action : Array (Array (Option Act)) := (rows.map fun row => (row.map (·.1)).toArray).toArray
  let conflicts := (rows.filter fun row => row.any (·.2)).length
  let gotoT := states.map fun st => (S.ntList.map fun nt => match st.next nt with
    | some n => (n : Int)
    | none => -1).toArray
  let canRec := states.map fun st => st.items.any (itemCanRecover C)
  let prodNT := prods.toArray.map fun p => (S.ntList.idxOf p.head)
  let prodLenA := prods.toArray.map prodLen
  let prodKind := prods.toArray.map fun p =>
    if p.act != 0 then RKind.user p.act p.actId
    else if prodLen p == 0 then RKind.nilEmpty else RKind.dflt
  return { ctx := C, states := states,
           tables := { terminals := terms, nts := S.ntList, action := action, goto_ := gotoT,
                       canRecover := canRec, prodNT := prodNT, prodLen := prodLenA,
                       prodKind := prodKind, conflictStates := conflicts, nStates := states.size,
                       numSymbols := S.typeMap.length } }

end Gocc
