import Gocc.Model.Utf8
/-
Model of the hand-written scanner of the gocc front end,
`internal/frontend/scanner/scanner.go` (`next`, `Init`, `error`, `expect`, `scanComment`,
`isLetter`, `isDigit`, `digitVal`, `scanEscape`, `scanChar`, `scanIdentifier`, `scanSDTLit`,
`scanString`, `scanRawString`, `skipWhitespace`, `Scan`) with the token numbering of
`internal/frontend/token/tokens.go`.

Representation.  Bytes are `Nat`, runes are `Int` (`-1` = end of file).  The immutable `src` of the
Go scanner is not stored; instead the state holds `cur = src[pos.Offset:]`, the input from the
first byte of the look-ahead rune `ch` on.  Hence `src[offset:] = cur.drop (offset - pos)`, and
a slice `src[p.Offset : q]` of a saved position `p` is `(p.tail.drop ..).take ..` (`slice`).

Every Go `for` loop is a function with a fuel argument; the fuel `cur.length + 2` given at the
loop entry always suffices (every iteration that does not leave the loop consumes one rune).
`goto scanAgain` is the recursion of `scanLoop` (same fuel; every comment consumes two bytes).

`next` is modelled as: end of input ⇒ `ch = -1`; NUL ⇒ rune 0, width 1, one error; a byte `≥ 80`
(decimal, as in the Go source) ⇒ `decodeRune` (`Gocc/Model/Utf8.lean`), `RuneError` of width 1 counting
one error; any other byte is its own rune (`look`).  `Init` is modelled for a new `Scanner`
(`S.ch = 0`; `Init` does not reset `S.ch`).  `S.error` only counts.  The `//line` directive
(`lineDirective`) includes the part of `strconv.Atoi` that matters (`atoiPos`).

Correspondence: `fscanShow` prints exactly the format of the Go helper behind the driver op
`fescan`; the two agree on all inputs tried (ASCII, NUL, ill-formed and non-letter UTF-8).

`unicode.IsLetter/IsDigit/IsUpper` on runes `≥ 0x80` are parameters (`UnicodeOracle`).
-/
namespace Gocc

/-- `unicode.IsLetter`, `unicode.IsDigit`, `unicode.IsUpper` (only consulted for runes ≥ 0x80) -/
structure UnicodeOracle where
  isLetter : Int → Bool
  isDigit : Int → Bool
  isUpper : Int → Bool

/-- the oracle used by the correspondence driver: no letters / digits / upper case beyond ASCII -/
def UnicodeOracle.ascii : UnicodeOracle := ⟨fun _ => false, fun _ => false, fun _ => false⟩

/-- `Scanner`: `cur = src[pos.Offset:]`, `pos = pos.Offset`, `line = pos.Line`, `col = pos.Column`,
    `errs = ErrorCount` -/
structure FSt where
  cur : List Nat
  ch : Int
  pos : Nat
  offset : Nat
  line : Nat
  col : Nat
  errs : Nat
deriving Repr, DecidableEq

/-- a saved `token.Position` together with `tail = src[offset:]` -/
structure FPos where
  offset : Nat
  line : Nat
  col : Nat
  tail : List Nat
deriving Repr, DecidableEq

/-- token: type (`-1` = ILLEGAL), literal `src[start:stop]` (`lit` are its bytes) and position of
    its first character -/
structure FTok where
  type : Int
  start : Nat
  stop : Nat
  lit : List Nat
  line : Nat
  col : Nat
deriving Repr, DecidableEq

namespace FScan

/-! token types: `tokenMap.Type(name)` -/
def tILLEGAL : Int := -1
def tEOF : Int := 0
def tTokId : Int := 2
def tColon : Int := 3
def tSemi : Int := 4
def tRegDefId : Int := 5
def tIgnoredTokId : Int := 6
def tBar : Int := 7
def tDot : Int := 8
def tCharLit : Int := 9
def tMinus : Int := 10
def tLBrack : Int := 11
def tRBrack : Int := 12
def tLBrace : Int := 13
def tRBrace : Int := 14
def tLParen : Int := 15
def tRParen : Int := 16
def tProdId : Int := 17
def tSdtLit : Int := 18
def tStringLit : Int := 21

/-- `S.pos` -/
def position (s : FSt) : FPos := ⟨s.pos, s.line, s.col, s.cur⟩

/-- `src[a:b]` for `p.offset ≤ a` -/
def slice (p : FPos) (a b : Nat) : List Nat := (p.tail.drop (a - p.offset)).take (b - a)

/-- `S.error(pos, msg)` -/
def error (s : FSt) : FSt := { s with errs := s.errs + 1 }

/-- the `r, w` that `next` computes for the rune at the head of `x = src[S.offset:]`
    (`(-1, 0)` at end of input): NUL is `(0, 1)`, `r >= 80` goes through `utf8.DecodeRune` -/
def look : List Nat → Int × Nat
  | [] => (-1, 0)
  | b :: rest =>
    if b = 0 then (0, 1) else if b ≥ 80 then decodeRune (b :: rest) else ((b : Int), 1)

/-- `S.next()` -/
def next (s : FSt) : FSt :=
  match s.cur.drop (s.offset - s.pos) with
  | [] => { s with cur := [], pos := s.pos + s.cur.length, ch := -1 }
  | b :: rest =>
    -- S.pos.Column++; if S.ch == '\n' { S.pos.Line++; S.pos.Column = 1 }
    let line := if s.ch = 10 then s.line + 1 else s.line
    let col := if s.ch = 10 then 1 else s.col + 1
    let rw := look (b :: rest)
    -- "illegal character NUL" / "illegal UTF-8 encoding"
    let err : Bool := b == 0 || (b ≥ 80 && rw.1 == runeError && rw.2 == 1)
    { cur := b :: rest, ch := rw.1, pos := s.offset, offset := s.offset + rw.2,
      line := line, col := col, errs := if err then s.errs + 1 else s.errs }

/-- `S.Init(src, tokenMap)` on a new scanner (`S.ch` is 0) -/
def init (src : List Nat) : FSt :=
  next { cur := src, ch := 0, pos := 0, offset := 0, line := 1, col := 0, errs := 0 }

/-- fuel for a loop entered in state `s` -/
def fuel (s : FSt) : Nat := s.cur.length + 2

/-- `S.expect(ch)` -/
def expect (c : Int) (s : FSt) : FSt :=
  next (if s.ch ≠ c then error s else s)

/-- `strconv.Atoi(t)` restricted to what the scanner uses: `some n` iff no error and `n > 0` -/
def atoiPos (t : List Nat) : Option Nat :=
  let digs := match t with
    | 43 :: r => some r
    | 45 :: _ => none          -- negative or error: never `> 0`
    | r => some r
  match digs with
  | none => none
  | some [] => none
  | some r =>
    if r.all (fun b => 48 ≤ b && b ≤ 57) then
      let n := r.foldl (fun a b => a * 10 + (b - 48)) 0
      if 0 < n ∧ n ≤ 9223372036854775807 then some n else none
    else none

/-- `bytes.Index(text, []byte{':'})` and the slice after it -/
def afterColon : List Nat → Option (List Nat)
  | [] => none
  | b :: r => if b = 58 then some r else afterColon r

/-- `bytes.HasPrefix(text, []byte("line "))` -/
def hasLinePrefix (t : List Nat) : Bool := t.take 5 == [108, 105, 110, 101, 32]

/-- the `//line` directive: executed when `S.ch == '\n'` in a `//` comment -/
def lineDirective (p : FPos) (s : FSt) : FSt :=
  if p.col = 1 then
    let text := slice p (p.offset + 2) s.pos
    if hasLinePrefix text then
      match afterColon text with
      | some t =>
        match atoiPos t with
        | some line => { s with line := line - 1 }
        | none => s
      | none => s
    else s
  else s

/-- `for S.ch >= 0 { S.next(); if S.ch == '\n' { ...; return } }` -/
def lineCommentLoop (p : FPos) : Nat → FSt → FSt
  | 0, s => s
  | f + 1, s =>
    if s.ch ≥ 0 then
      let s1 := next s
      if s1.ch = 10 then lineDirective p s1
      else lineCommentLoop p f s1
    else s

/-- `for S.ch >= 0 { ch := S.ch; S.next(); if ch == '*' && S.ch == '/' { S.next(); return } }`;
    `true` = returned from inside the loop -/
def blockCommentLoop : Nat → FSt → Bool × FSt
  | 0, s => (false, s)
  | f + 1, s =>
    if s.ch ≥ 0 then
      let ch := s.ch
      let s1 := next s
      if ch = 42 ∧ s1.ch = 47 then (true, next s1)
      else blockCommentLoop f s1
    else (false, s)

/-- `S.scanComment(pos)` -/
def scanComment (p : FPos) (s : FSt) : FSt :=
  if s.ch = 47 then
    lineCommentLoop p (fuel s) s
  else
    let s1 := expect 42 s
    match blockCommentLoop (fuel s1) s1 with
    | (true, s2) => s2
    | (false, s2) => error s2

def isLetter (u : UnicodeOracle) (ch : Int) : Bool :=
  (97 ≤ ch && ch ≤ 122) || (65 ≤ ch && ch ≤ 90) || (ch ≥ 0x80 && u.isLetter ch) || ch == 95

def isDigit (u : UnicodeOracle) (ch : Int) : Bool :=
  (48 ≤ ch && ch ≤ 57) || (ch ≥ 0x80 && u.isDigit ch)

/-- `unicode.IsUpper(ch)` -/
def isUpper (u : UnicodeOracle) (ch : Int) : Bool :=
  if ch < 0x80 then 65 ≤ ch && ch ≤ 90 else u.isUpper ch

def digitVal (ch : Int) : Nat :=
  if 48 ≤ ch ∧ ch ≤ 57 then (ch - 48).toNat
  else if 97 ≤ ch ∧ ch ≤ 102 then (ch - 97 + 10).toNat
  else if 65 ≤ ch ∧ ch ≤ 70 then (ch - 65 + 10).toNat
  else 16

/-- `for ; i > 0; i-- { ... }` of `scanEscape` (`uint32` arithmetic); `none` = returned from
    inside the loop -/
def escDigits (base : Nat) : Nat → Nat → FSt → Option Nat × FSt
  | 0, x, s => (some x, s)
  | i + 1, x, s =>
    let d := digitVal s.ch
    if d > base then (none, error s)
    else escDigits base i ((x * base + d) % 4294967296) (next s)

/-- the part of `scanEscape` after the `switch` -/
def escTail (i base max : Nat) (s : FSt) : FSt :=
  match escDigits base i 0 s with
  | (none, s1) => s1
  | (some x, s1) => if x > max ∨ (0xd800 ≤ x ∧ x < 0xe000) then error s1 else s1

/-- `S.scanEscape(quote)` -/
def scanEscape (s : FSt) : FSt :=
  let ch := s.ch
  if ch = 97 ∨ ch = 98 ∨ ch = 102 ∨ ch = 110 ∨ ch = 114 ∨ ch = 116 ∨ ch = 118 ∨ ch = 92 ∨
      ch = 39 ∨ ch = 34 then next s
  else if 48 ≤ ch ∧ ch ≤ 55 then escTail 3 8 255 s
  else if ch = 120 then escTail 2 16 255 (next s)
  else if ch = 117 then escTail 4 16 0x10FFFF (next s)
  else if ch = 85 then escTail 8 16 0x10FFFF (next s)
  else error (next s)

/-- the `for S.ch != '\''` loop of `scanChar`; returns `n` -/
def charLoop : Nat → Nat → FSt → Nat × FSt
  | 0, n, s => (n, s)
  | f + 1, n, s =>
    if s.ch ≠ 39 then
      let ch := s.ch
      let s1 := next s
      if ch = 10 ∨ ch < 0 then (1, error s1)
      else if ch = 92 then charLoop f (n + 1) (scanEscape s1)
      else charLoop f (n + 1) s1
    else (n, s)

/-- `S.scanChar(pos)` -/
def scanChar (s : FSt) : FSt :=
  let r := charLoop (fuel s) 0 s
  let s1 := next r.2
  if r.1 ≠ 1 then error s1 else s1

/-- the loop of `scanIdentifier` -/
def identLoop (u : UnicodeOracle) : Nat → FSt → FSt
  | 0, s => s
  | f + 1, s =>
    if isLetter u s.ch || isDigit u s.ch || s.ch == 33 then identLoop u f (next s) else s

/-- `S.scanIdentifier(pos)` -/
def scanIdentifier (u : UnicodeOracle) (p : FPos) (s : FSt) : Int × FSt :=
  let ch0 := s.ch
  let s1 := identLoop u (fuel s) s
  let ty :=
    if slice p p.offset s1.pos = [105, 109, 112, 111, 114, 116] then tILLEGAL   -- "import"
    else if ch0 = 33 then tIgnoredTokId
    else if ch0 = 95 then tRegDefId
    else if isUpper u ch0 then tProdId
    else tTokId
  (ty, s1)

/-- the `for cmp := false; !cmp; { ... }` loop of `scanSDTLit` -/
def sdtLoop : Nat → FSt → FSt
  | 0, s => s
  | f + 1, s =>
    if s.ch < 0 then error s
    else if s.ch = 62 then
      let s1 := next s
      if s1.ch = 62 then s1 else sdtLoop f (next s1)
    else sdtLoop f (next s)

/-- `S.scanSDTLit(pos)` -/
def scanSDTLit (s : FSt) : FSt :=
  let s1 := next s
  next (sdtLoop (fuel s1) s1)

/-- the loop of `scanString` -/
def stringLoop : Nat → FSt → FSt
  | 0, s => s
  | f + 1, s =>
    if s.ch ≠ 34 then
      let ch := s.ch
      let s1 := next s
      if ch = 10 ∨ ch < 0 then error s1
      else if ch = 92 then stringLoop f (scanEscape s1)
      else stringLoop f s1
    else s

/-- `S.scanString(pos)` -/
def scanString (s : FSt) : FSt := next (stringLoop (fuel s) s)

/-- the loop of `scanRawString` -/
def rawLoop : Nat → FSt → FSt
  | 0, s => s
  | f + 1, s =>
    if s.ch ≠ 96 then
      let ch := s.ch
      let s1 := next s
      if ch < 0 then error s1 else rawLoop f s1
    else s

/-- `S.scanRawString(pos)` -/
def scanRawString (s : FSt) : FSt := next (rawLoop (fuel s) s)

def isWs (ch : Int) : Bool := ch == 32 || ch == 9 || ch == 10 || ch == 13

def wsLoop : Nat → FSt → FSt
  | 0, s => s
  | f + 1, s => if isWs s.ch then wsLoop f (next s) else s

/-- `S.skipWhitespace()` -/
def skipWhitespace (s : FSt) : FSt := wsLoop (fuel s) s

/-- `token.NewToken(tok, S.src[pos.Offset:S.pos.Offset]), pos` -/
def mkTok (ty : Int) (p : FPos) (s : FSt) : FTok :=
  { type := ty, start := p.offset, stop := s.pos, lit := slice p p.offset s.pos,
    line := p.line, col := p.col }

/-- The body of `Scan` after `S.skipWhitespace()`: `(none, s')` stands for `goto scanAgain`. -/
def scanOnce (u : UnicodeOracle) (s : FSt) : Option FTok × FSt :=
  let p := position s
  let ch := s.ch
  if ch = 33 ∨ isLetter u ch then
    let r := scanIdentifier u p s
    (some (mkTok r.1 p r.2), r.2)
  else
    let s1 := next s
    let ret (ty : Int) (s2 : FSt) : Option FTok × FSt := (some (mkTok ty p s2), s2)
    if ch = -1 then ret tEOF s1
    else if ch = 34 then ret tStringLit (scanString s1)
    else if ch = 39 then ret tCharLit (scanChar s1)
    else if ch = 96 then ret tStringLit (scanRawString s1)
    else if ch = 45 then ret tMinus s1
    else if ch = 123 then ret tLBrace s1
    else if ch = 125 then ret tRBrace s1
    else if ch = 58 then ret tColon s1
    else if ch = 59 then ret tSemi s1
    else if ch = 44 then ret tILLEGAL s1            -- ","
    else if ch = 91 then ret tLBrack s1
    else if ch = 93 then ret tRBrack s1
    else if ch = 40 then ret tLParen s1
    else if ch = 41 then ret tRParen s1
    else if ch = 124 then ret tBar s1
    else if ch = 47 then
      if s1.ch = 47 ∨ s1.ch = 42 then (none, scanComment p s1)
      else ret tILLEGAL s1                          -- "/"
    else if ch = 60 then
      if s1.ch = 60 then ret tSdtLit (scanSDTLit s1)
      else if s1.ch = 61 then ret tILLEGAL (next s1)  -- "<="
      else ret tILLEGAL s1                          -- "<"
    else if ch = 46 then ret tDot s1
    else ret tILLEGAL (error s1)

/-- `Scan` with a bound on the number of `goto scanAgain` -/
def scanLoop (u : UnicodeOracle) : Nat → FSt → FTok × FSt
  | 0, s => (mkTok tILLEGAL (position s) s, s)
  | f + 1, s =>
    let s1 := skipWhitespace s
    match scanOnce u s1 with
    | (some t, s2) => (t, s2)
    | (none, s2) => scanLoop u f s2

end FScan

open FScan

/-- one call of `S.Scan()` -/
def fscan (u : UnicodeOracle) (s : FSt) : FTok × FSt := scanLoop u (fuel s) s

/-- calls of `Scan` until the first EOF token (at most `n`) -/
def fscanN (u : UnicodeOracle) : Nat → FSt → List FTok × Nat
  | 0, s => ([], s.errs)
  | n + 1, s =>
    let r := fscan u s
    if r.1.type = tEOF then ([r.1], r.2.errs)
    else
      let rest := fscanN u n r.2
      (r.1 :: rest.1, rest.2)

/-- all tokens of `src` up to and including the first end-of-input token, and `ErrorCount` -/
def fscanAll (u : UnicodeOracle) (src : List Nat) : List FTok × Nat :=
  fscanN u (src.length + 2) (init src)

namespace FScan

def hexDigit (n : Nat) : Char := (Nat.toDigits 16 n).getD 0 '0'

def hexBytes (l : List Nat) : String :=
  String.ofList (l.flatMap fun b => [hexDigit (b / 16 % 16), hexDigit (b % 16)])

def showTok (t : FTok) : String :=
  toString t.type ++ ":" ++ hexBytes t.lit ++ "@" ++ toString t.start ++ ":" ++
    toString t.line ++ ":" ++ toString t.col

end FScan

/-- `type:hexlit@offset:line:col` for all tokens, then ` errs=N` (ASCII oracle) -/
def fscanShow (src : List Nat) : String :=
  let r := fscanAll UnicodeOracle.ascii src
  " ".intercalate (r.1.map showTok) ++ " errs=" ++ toString r.2

end Gocc
