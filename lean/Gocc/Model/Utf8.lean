/-
Model of Go's `unicode/utf8.DecodeRune` (not part of goccmack/gocc; trusted base, tied by
differential runs against the Go standard library) and of `utf8.EncodeRune` for valid scalars.
Bytes are `Nat` (< 256), runes are `Int`.
-/
namespace Gocc

def runeError : Int := 0xFFFD

def isCont (b : Nat) : Bool := 0x80 ≤ b && b ≤ 0xBF

/-- `utf8.DecodeRune(p)`: rune and width; `(RuneError, 0)` on empty input,
    `(RuneError, 1)` on any ill-formed or truncated sequence. -/
def decodeRune : List Nat → Int × Nat
  | [] => (runeError, 0)
  | b0 :: rest =>
    if b0 < 0x80 then (b0, 1)
    else if b0 < 0xC2 then (runeError, 1)
    else if b0 < 0xE0 then
      match rest with
      | b1 :: _ => if isCont b1 then (((b0 % 32) * 64 + (b1 % 64) : Nat), 2) else (runeError, 1)
      | _ => (runeError, 1)
    else if b0 < 0xF0 then
      match rest with
      | b1 :: b2 :: _ =>
        let lo := if b0 = 0xE0 then 0xA0 else 0x80
        let hi := if b0 = 0xED then 0x9F else 0xBF
        if lo ≤ b1 && b1 ≤ hi && isCont b2 then
          (((b0 % 16) * 4096 + (b1 % 64) * 64 + (b2 % 64) : Nat), 3)
        else (runeError, 1)
      | _ => (runeError, 1)
    else if b0 < 0xF5 then
      match rest with
      | b1 :: b2 :: b3 :: _ =>
        let lo := if b0 = 0xF0 then 0x90 else 0x80
        let hi := if b0 = 0xF4 then 0x8F else 0xBF
        if lo ≤ b1 && b1 ≤ hi && isCont b2 && isCont b3 then
          (((b0 % 8) * 262144 + (b1 % 64) * 4096 + (b2 % 64) * 64 + (b3 % 64) : Nat), 4)
        else (runeError, 1)
      | _ => (runeError, 1)
    else (runeError, 1)

/-- UTF-8 encoding of a scalar value `c` (`c < 0x110000`, not a surrogate). -/
def encodeRune (c : Nat) : List Nat :=
  if c < 0x80 then [c]
  else if c < 0x800 then [0xC0 + c / 64, 0x80 + c % 64]
  else if c < 0x10000 then [0xE0 + c / 4096, 0x80 + (c / 64) % 64, 0x80 + c % 64]
  else [0xF0 + c / 262144, 0x80 + (c / 4096) % 64, 0x80 + (c / 64) % 64, 0x80 + c % 64]

def isScalar (c : Nat) : Bool := c < 0x110000 && !(0xD800 ≤ c && c < 0xE000)

end Gocc
