/-
Abstract syntax of a gocc grammar as produced by the front end (`internal/ast`), in the
shape the generator models consume.  Names are the `SymbolString()`s of the Go AST.
-/
namespace Gocc

/-! ### Lexical part (`ast.LexPart`) -/

mutual
  inductive LTerm where
    | dot                              -- `.`
    | lit (c : Int)                    -- `'a'`
    | rng (lo hi : Int)                -- `'a'-'z'`
    | ref (name : String)              -- `_regdef`
    | opt (p : LPat)                   -- `[ ... ]`
    | rep (p : LPat)                   -- `{ ... }`
    | grp (p : LPat)                   -- `( ... )`
  inductive LPat where                 -- alternatives
    | mk (alts : List LAlt)
  inductive LAlt where                 -- sequence of terms
    | mk (terms : List LTerm)
end

instance : Inhabited LTerm := ⟨.dot⟩
instance : Inhabited LPat := ⟨.mk []⟩
instance : Inhabited LAlt := ⟨.mk []⟩

def LPat.alts : LPat → List LAlt | .mk a => a
def LAlt.terms : LAlt → List LTerm | .mk t => t

inductive LKind where
  | tok | ign | reg
deriving DecidableEq, Repr, Inhabited

structure LProd where
  kind : LKind
  id : String
  pat : LPat
  strLit : Bool := false      -- added by `UpdateStringLitTokens`
deriving Inhabited

/-! ### Syntax part (`ast.SyntaxPart`, before augmentation) -/

inductive SKind where
  | prodId | tokId | strLit
deriving DecidableEq, Repr, Inhabited

structure SSym where
  kind : SKind
  name : String
deriving DecidableEq, Repr, Inhabited

/-- how the harness' action text of an alternative behaves (0 = no action text) -/
structure SProd where
  head : String
  body : List SSym          -- never empty (`consistent` rejects it); `empty` is a tokId named "empty"
  act : Nat := 0            -- 0: no SDT; k>0: harness action shape (see Model/Parse.lean)
  actId : Nat := 0
deriving DecidableEq, Repr, Inhabited

structure Grammar where
  lex : List LProd
  syn : List SProd          -- [] = no syntax part
deriving Inhabited

end Gocc
