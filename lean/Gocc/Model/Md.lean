/-
Model of `internal/util/md/md.go`: `loadMd(input []rune)` (in-place blanking of everything
outside ``` fences).  The Go index loop is a structural recursion over the remaining runes:
at a fence the three back-quotes are blanked, `text` is toggled, and — exactly as the Go code
does (`if i < len(input)` directly after `i += 3`) — the rune after the fence is processed
under the new mode *without* being tested for the start of another fence.
-/
namespace Gocc

def mdBlank (c : Int) : Int := if c = 10 then 10 else 32

def mdKeep (text : Bool) (c : Int) : Int := if text then mdBlank c else c

/-- `text`: current mode; `skip`: runes of the current fence still to blank;
    `nocheck`: this rune directly follows a fence (Go: `if i < len(input)` after `i += 3`). -/
def loadMdAux : Bool → Nat → Bool → List Int → List Int
  | _, _, _, [] => []
  | text, k + 1, _, _ :: rest => 32 :: loadMdAux text k (k == 0) rest
  | text, 0, nocheck, c :: rest =>
    if !nocheck && (c :: rest).take 3 == [96, 96, 96] then 32 :: loadMdAux (!text) 2 false rest
    else mdKeep text c :: loadMdAux text 0 false rest

def loadMd (input : List Int) : List Int := loadMdAux true 0 false input

end Gocc
