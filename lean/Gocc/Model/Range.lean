/-
Model of `internal/lexer/items/disjunctrangeset.go`: `DisjunctRangeSet.AddRange`.

The Go code walks `this.set` with an index `i`, rewrites `set[i]` and inserts up to two
ranges behind it, then advances `i` past everything it touched and continues with
`from = rng.To + 1`.  Nothing before `i` is ever touched again, so the loop is a
structural recursion on the suffix `set[i:]`; the eleven numbered cases of the Go
`switch` are kept one-to-one (numbers in comments).  Runes are modelled as `Int`
(Go: int32; all values handled are ≤ 0x10FFFF+1, so no wrap-around can occur).
-/
namespace Gocc

structure CR where
  lo : Int
  hi : Int
deriving DecidableEq, Repr, Inhabited

def addRange : List CR → Int → Int → List CR
  | [], f, t => if f ≤ t then [⟨f, t⟩] else []
  | r :: rest, f, t =>
    if ¬ (f ≤ t) then r :: rest
    else if f < r.lo then
      if t < r.lo then            -- (1)
        ⟨f, t⟩ :: r :: addRange rest (r.hi + 1) t
      else if t < r.hi then       -- (2)
        ⟨f, r.lo - 1⟩ :: ⟨r.lo, t⟩ :: ⟨t + 1, r.hi⟩ :: addRange rest (r.hi + 1) t
      else if t = r.hi then       -- (3)
        ⟨f, r.lo - 1⟩ :: r :: addRange rest (r.hi + 1) t
      else                        -- (4)
        ⟨f, r.lo - 1⟩ :: r :: addRange rest (r.hi + 1) t
    else if f = r.lo then
      if t < r.hi then            -- (5)
        ⟨r.lo, t⟩ :: ⟨t + 1, r.hi⟩ :: addRange rest (r.hi + 1) t
      else                        -- (6), (7)
        r :: addRange rest (r.hi + 1) t
    else if f > r.hi then         -- (8)
      r :: addRange rest f t
    else                          -- r.lo < f ≤ r.hi
      if t < r.hi then            -- (9)
        ⟨r.lo, f - 1⟩ :: ⟨f, t⟩ :: ⟨t + 1, r.hi⟩ :: addRange rest (r.hi + 1) t
      else if t = r.hi then       -- (10)
        ⟨r.lo, f - 1⟩ :: ⟨f, t⟩ :: addRange rest (r.hi + 1) t
      else                        -- (11)
        ⟨r.lo, f - 1⟩ :: ⟨f, r.hi⟩ :: addRange rest (r.hi + 1) t

/-- `getSymbolClasses`: fold `AddRange` over the expected literals / ranges of a state. -/
def classesOf (rs : List CR) : List CR :=
  rs.foldl (fun l r => addRange l r.lo r.hi) []

/-- `Item.match` for a character range `[f,t]` against a class `c`
    (`rng.From >= t.From.Val && rng.From <= t.To.Val && rng.To <= t.To.Val`). -/
def matchRange (f t : Int) (c : CR) : Bool :=
  decide (c.lo ≥ f) && decide (c.lo ≤ t) && decide (c.hi ≤ t)

/-- `Item.match` for a character literal. -/
def matchLit (v : Int) (c : CR) : Bool :=
  decide (c.lo = v) && decide (c.hi = v)

end Gocc
