import Gocc.Model.ValidateV
/-
The derivation certificate `VCert` with which the validity validator (`validItems`,
Model/ValidateV.lean) is run on the output of the generator model — as TOTAL functions of the
numbered grammar (they replace the fuel-less, non-total recursions `genProd` / `genNull` / `genFirst`
of the driver, which are opaque to proofs).

All three lists are computed by the same loop `grow`: as long as there is a candidate fact whose
key is not yet in the list, PREPEND the first such candidate.  A candidate is a fact that is
justified by the facts already in the list, so every entry is justified by the entries after it
(what `prodListOk` / `nullListOk` / `firstListOk` check).  The loop runs on fuel; the fuel is the
length of a list that contains every possible key, plus one, so the loop always stops because no
candidate is new (Proofs/GenValidCert.lean: `grow_closed`) — the lists are closed under the
grammar rules, i.e. they hold ALL productive non-terminals, ALL nullable non-terminals and ALL
FIRST pairs.

  * `prodCands G acc`   `(head p, p)` for every production `p` whose body non-terminals are in `acc`;
  * `nullCands G acc`   the same for bodies that consist of non-terminals of `acc` only;
  * `firstCands G null acc`   `(head p, b, p, i)` for every production `p` and body position `i`
        behind a prefix of nullable non-terminals, where symbol `i` is the terminal `b` or a
        non-terminal `B` with an entry `(B, b, _, _)` in `acc`;
  * `vcertOf G`          the certificate.

Cost: one step computes the candidates once (`O(|G| · |acc|)`); there are at most as many steps
as facts.
-/
namespace Gocc

/-- the first candidate whose key is not yet present -/
def growStep {α κ : Type} [BEq κ] (cands : List α → List α) (key : α → κ) (acc : List α) :
    Option α :=
  (cands acc).find? fun x => !(acc.any fun y => key y == key x)

/-- prepend new candidates until there is none (or the fuel is used up) -/
def grow {α κ : Type} [BEq κ] (cands : List α → List α) (key : α → κ) : Nat → List α → List α
  | 0, acc => acc
  | n + 1, acc =>
    match growStep cands key acc with
    | some x => grow cands key n (x :: acc)
    | none => acc

/-- a terminal, or a non-terminal with an entry in `l` -/
def prodSym (l : List (Nat × Nat)) : Sym → Bool
  | .t _ => true
  | .nt B => hasNT l B

/-- a non-terminal with an entry in `l` -/
def nullSym (l : List (Nat × Nat)) : Sym → Bool
  | .t _ => false
  | .nt B => hasNT l B

def prodCands (G : NGrammar) (acc : List (Nat × Nat)) : List (Nat × Nat) :=
  (List.range G.prods.size).filterMap fun p =>
    if (G.body p).all (prodSym acc) then some (G.head p, p) else none

def nullCands (G : NGrammar) (acc : List (Nat × Nat)) : List (Nat × Nat) :=
  (List.range G.prods.size).filterMap fun p =>
    if (G.body p).all (nullSym acc) then some (G.head p, p) else none

def firstCands (G : NGrammar) (null : List (Nat × Nat)) (acc : List (Nat × Nat × Nat × Nat)) :
    List (Nat × Nat × Nat × Nat) :=
  (List.range G.prods.size).flatMap fun p =>
    (List.range (G.body p).length).flatMap fun i =>
      if ((G.body p).take i).all (nullSym null) then
        match (G.body p)[i]? with
        | some (.t b) => [(G.head p, b, p, i)]
        | some (.nt B) => (acc.filter fun x => x.1 == B).map fun x => (G.head p, x.2.1, p, i)
        | none => []
      else []

def symTerm : Sym → Option Nat
  | .t b => some b
  | .nt _ => none

/-- the terminals that occur in bodies -/
def bodyTerms (G : NGrammar) : List Nat :=
  (List.range G.prods.size).flatMap fun p => (G.body p).filterMap symTerm

/-- every possible key of a `(non-terminal, production)` fact -/
def headKeys (G : NGrammar) : List Nat := (List.range G.prods.size).map G.head

/-- every possible key `(non-terminal, terminal)` of a FIRST fact -/
def firstKeys (G : NGrammar) : List (Nat × Nat) :=
  (headKeys G).flatMap fun A => (bodyTerms G).map fun b => (A, b)

def prodListOf (G : NGrammar) : List (Nat × Nat) :=
  grow (prodCands G) (fun x => x.1) ((headKeys G).length + 1) []

def nullListOf (G : NGrammar) : List (Nat × Nat) :=
  grow (nullCands G) (fun x => x.1) ((headKeys G).length + 1) []

def firstListOf (G : NGrammar) (null : List (Nat × Nat)) : List (Nat × Nat × Nat × Nat) :=
  grow (firstCands G null) (fun x => (x.1, x.2.1)) ((firstKeys G).length + 1) []

/-- the derivation certificate of a numbered grammar -/
def vcertOf (G : NGrammar) : VCert :=
  { prod := prodListOf G, null := nullListOf G, first := firstListOf G (nullListOf G) }

/-- (hypothesis `hp` of the validity theorem, the (V4) check) every non-terminal that occurs in a
    body is productive -/
def bodyNTsProductive (G : NGrammar) : Bool :=
  (List.range G.prods.size).all fun p => (G.body p).all (prodSym (vcertOf G).prod)

/-- every non-terminal that heads a production is productive -/
def headsProductive (G : NGrammar) : Bool :=
  (List.range G.prods.size).all fun p => hasNT (vcertOf G).prod (G.head p)

end Gocc
