import Gocc.Model.LR1
import Gocc.Model.ValidateC
/-
The certificates with which the completeness validator (`firstOk` / `complete`,
Model/ValidateC.lean) is run on the output of the generator model: they are read off the generator's
own item sets (`claOf`) and FIRST sets (`fcOf`).  Nothing is recomputed.

  * `tIdxOf T s`  token type of the terminal spelled `s` (0 = INVALID when `s` is no terminal);
  * `claOf r`     for every LR(1) state the items `(production, dot, look-ahead token type)`;
  * `fcOf r`      nullable non-terminals = those whose FIRST set holds the marker `empty`;
                  FIRST pairs `(non-terminal index, token type)` for every other element.

The theorem "for every grammar without conflict these certificates pass the validator" is
Props/C02GenComplete.lean (proof: Proofs/GenComplete.lean).
-/
namespace Gocc

/-- token type of a terminal name in the generated tables (`0` if it is not a terminal) -/
def tIdxOf (T : PTables) (s : String) : Nat := (T.terminals.idxOf? s).getD 0

/-- LR(1) certificate: the generator's item sets, look-aheads numbered -/
def claOf (r : LRResult) : CertLA :=
  r.states.map fun st => (st.items.map fun i => (i.p, i.d, tIdxOf r.tables i.la)).eraseDups

/-- nullable / FIRST certificate: the generator's FIRST sets, numbered -/
def fcOf (r : LRResult) : FirstCert :=
  { nullable := (List.range r.tables.nts.length).filter fun k =>
      (r.ctx.fs.get r.tables.nts[k]!).contains "empty"
    first := (List.range r.tables.nts.length).flatMap fun k =>
      ((r.ctx.fs.get r.tables.nts[k]!).filter (· != "empty")).map fun t =>
        (k, tIdxOf r.tables t) }

end Gocc
