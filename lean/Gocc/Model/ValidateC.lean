import Gocc.Model.Parse
import Gocc.Spec.NCfg
/-
A second table validator, for the COMPLETENESS direction (every sentence is accepted).

`complete G T fc c` is a finite, executable check of parser tables `T` against a grammar `G`,
given
  * `c : CertLA`   for every state a list of LR(1) items `(p, d, a)`: production, dot position,
                   look-ahead terminal type (1 = end of input);
  * `fc : FirstCert` a certificate for the nullable / FIRST relations of `G`; `firstOk G fc`
                   checks that it is closed under the grammar rules (a pre-fixed point, hence a
                   superset of the true relations).
It checks that the item sets are closed (K1), that every item with a symbol after the dot has the
matching shift / goto edge into a state holding the advanced item (K2), and that every complete
item has its reduce (or accept) entry on its look-ahead (K3).  Nothing is constructed.

The theorem `firstOk … → complete … → (w sentence of G → Parse accepts w)` is in
Props/C02Complete.lean (proof: Proofs/ValidateC.lean).
-/
namespace Gocc

abbrev CertLA := Array (List (Nat × Nat × Nat))

def CertLA.has (c : CertLA) (s p d a : Nat) : Bool := (c[s]?.getD []).contains (p, d, a)

/-- certificate for nullable / FIRST: the nullable non-terminals and pairs (non-terminal `A`,
    terminal type `a`) meaning "`a` may begin a string derived from `A`" -/
structure FirstCert where
  nullable : List Nat
  first : List (Nat × Nat)
deriving Repr, Inhabited

def FirstCert.isNullable (fc : FirstCert) (A : Nat) : Bool := fc.nullable.contains A
def FirstCert.hasFirst (fc : FirstCert) (A a : Nat) : Bool := fc.first.contains (A, a)
/-- terminals are never nullable -/
def FirstCert.symNullable (fc : FirstCert) : Sym → Bool
  | .t _ => false
  | .nt A => fc.isNullable A

/-- the rules of nullable / FIRST for one production `A : β₀ β`, where `β` is what is left of the
    body after a nullable prefix `β₀` -/
def firstOkProd (fc : FirstCert) (A : Nat) : List Sym → Bool
  | [] => fc.isNullable A
  | .t a :: _ => fc.hasFirst A a
  | .nt B :: rest =>
    (fc.first.all fun (B', a) => B' != B || fc.hasFirst A a) &&
    (!fc.isNullable B || firstOkProd fc A rest)

/-- `fc` is closed under the grammar rules -/
def firstOk (G : NGrammar) (fc : FirstCert) : Bool :=
  (List.range G.prods.size).all fun p => firstOkProd fc (G.head p) (G.body p)

/-- the terminals that may begin `β a` according to `fc` -/
def firstOfSeq (fc : FirstCert) : List Sym → Nat → List Nat
  | [], a => [a]
  | .t b :: _, _ => [b]
  | .nt B :: rest, a =>
    ((fc.first.filter fun x => x.1 == B).map (·.2)) ++
      (if fc.isNullable B then firstOfSeq fc rest a else [])

/-- the goto entry of state `s` for non-terminal `A` (as read by the generated parser) -/
def PTables.gotoOf (T : PTables) (s A : Nat) : Option Int := (T.goto_[s]?).bind (·[A]?)

def complete (G : NGrammar) (T : PTables) (fc : FirstCert) (c : CertLA) : Bool :=
  -- shape: end of input is a symbol; no action row is wider than `numSymbols`
  -- (the generated parser indexes `actions[numSymbols]` with the token type)
  decide (T.numSymbols > 1) &&
  T.action.toList.all (fun row => decide (row.size ≤ T.numSymbols)) &&
  -- production table = grammar
  (List.range G.prods.size).all (fun p =>
    T.prodNT[p]? == some (G.head p) && T.prodLen[p]? == some (G.body p).length) &&
  -- production 0 is S' : Start
  (match G.body 0 with | [Sym.nt _] => true | _ => false) &&
  -- terminals of `G` are token types of the tables; `S'` occurs in no body
  (List.range G.prods.size).all (fun p => (G.body p).all fun X =>
    match X with
    | .t a => decide (a < T.numSymbols)
    | .nt B => B != G.head 0) &&
  -- (K0) the start item
  c.has 0 0 0 1 &&
  -- items
  (List.range c.size).all fun s => (c[s]?.getD []).all fun (p, d, a) =>
    match (G.body p)[d]? with
    | some (.t t') =>
      -- (K2) shift edge
      (match T.act s t' with
       | some (.shift s') => c.has s' p (d + 1) a
       | _ => false)
    | some (.nt B) =>
      -- (K2) goto edge
      (match T.gotoOf s B with
       | some g => decide (0 ≤ g) && c.has g.toNat p (d + 1) a
       | none => false) &&
      -- (K1) closure
      (List.range G.prods.size).all (fun q => G.head q != B ||
        (firstOfSeq fc ((G.body p).drop (d + 1)) a).all fun b => c.has s q 0 b)
    | none =>
      -- (K3) complete item: reduce on the look-ahead, accept for the start production
      d != (G.body p).length ||
        (if p == 0 then a == 1 && decide (T.act s 1 = some .accept)
         else decide (T.act s a = some (.reduce p)))

/-- the reduce function of kind `k` neither fails nor panics on the attributes `X` -/
def kindOk (k : RKind) (X : List Attr) : Prop :=
  match k with
  | .dflt => X ≠ []
  | .nilEmpty => True
  | .user shape id => ∃ a, userAction shape id X = .ok a

/-- the semantic actions never fail or panic: the harness failure injection is off, and every
    reduce function succeeds on every attribute list of the length of its production -/
def ActsOk (cfg : PCfg) : Prop :=
  cfg.failAt = 0 ∧
  ∀ (p n : Nat), cfg.T.prodLen[p]? = some n → ∀ X : List Attr, X.length = n →
    kindOk (cfg.T.prodKind[p]?.getD .dflt) X

/-- a decidable sufficient condition for the second half of `ActsOk`: every production has an
    `Mk`/`WithCtx` action (shapes 1, 5), a `nil` action, or — on a non-empty body — a default
    action or a `Sel`/`Last` action (shapes 2, 3) -/
def kindsTotal (T : PTables) : Bool :=
  (List.range T.prodLen.size).all fun p =>
    match T.prodKind[p]?.getD .dflt with
    | .dflt => T.prodLen[p]?.getD 0 != 0
    | .nilEmpty => true
    | .user shape _ =>
      shape == 1 || shape == 5 || shape == 6 || ((shape == 2 || shape == 3) && T.prodLen[p]?.getD 0 != 0)

end Gocc
