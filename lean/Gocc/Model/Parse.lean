import Gocc.Model.LR1
/-
Model of the generated parser: template `internal/parser/gen/golang/parser.go`
(`Reset`, `Parse`, `Error`, `popNonRecoveryStates`, `firstRecoveryState`, `newError`)
over arbitrary tables (`PTables`).

Attributes: a terminal's attribute is the token object itself (`tok i` = the i-th token the
scanner returned), user actions build `node`s, the error attribute pushed by recovery is `err`.
The scanner is a list of token types followed by end-of-input (type 1) for ever; `ntok` counts
`Scan` calls.  Harness action shapes (`RKind.user shape id`, the action texts the check writes
into its grammars):
  1  `<< vh.Mk(C, id, X) >>`              node id [X...]          (all attributes)
  2  `<< vh.Sel(C, id, $0) >>`            node id [X[0]]          (`$n` substitution)
  3  `<< vh.Last(C, id, $k) >>`, k = n-1  node id [X[n-1]]
  4  `<< vh.TokOf(C, id, $T0) >>`         node id [X[0]]          (`$Tn`: X[0] must be a token)
  5  `<< vh.WithCtx($Context, id, X) >>`  node id [X...]          (`$Context`)
  7  `<< vh.Sel(C, id, $10) >>`           node id [X[10]]        (two-digit index)
  6  `<< vh.Pct(C, id, "%s|%d|%%|%v|%!", X) >>`  node id [X...]   (printf verbs in the action text arrive verbatim)
Every harness action first appends `id` to the call log and fails (returns an error) when the
call counter reaches `failAt`.
-/
namespace Gocc

inductive Attr where
  | nil
  | tok (i : Nat) (typ : Nat)
  | node (id : Nat) (kids : List Attr)
  | err (tokIdx : Nat) (tokTyp : Nat) (syms : List Attr) (expected : List Nat)
deriving Repr, Inhabited

partial def Attr.show : Attr → String
  | .nil => "nil"
  | .tok i t => s!"t{i}:{t}"
  | .node id kids => s!"(n{id}" ++ String.join (kids.map fun k => " " ++ k.show) ++ ")"
  | .err i t syms exp =>
    s!"(err t{i}:{t} [" ++ " ".intercalate (syms.map Attr.show) ++ "] [" ++
      " ".intercalate (exp.map toString) ++ "])"

structure PState where
  states : List Nat        -- stack, top first
  attrs : List Attr        -- same length
  next : Nat × Nat         -- current look-ahead: (index of the token, type)
  ntok : Nat               -- number of Scan calls so far
  log : List Nat           -- action ids called, most recent first
  calls : Nat
deriving Inhabited

inductive Outcome where
  | accept (r : Attr)
  | synErr (tokIdx tokTyp : Nat) (expected : List Nat) (stackTop : Nat)
  | actErr (id : Nat) (tokIdx tokTyp : Nat) (expected : List Nat) (stackTop : Nat)
  | panic (why : String)
  | outOfFuel
deriving Inhabited

/-- `scanner.Scan()`: the k-th call returns token k of the input, or EOF -/
def scanTok (input : List Nat) (k : Nat) : Nat × Nat :=
  match input[k]? with
  | some t => (k, t)
  | none => (k, 1)

def PTables.act (T : PTables) (s t : Nat) : Option Act := ((T.action[s]?).bind (·[t]?)).join
def PTables.rowExpected (T : PTables) (s : Nat) : List Nat :=
  match T.action[s]? with
  | some row => (List.range row.size).filter fun t => (row[t]?).join.isSome
  | none => []

/-- `firstRecoveryState`: number of entries to pop (`topIndex - rs`) if some state can recover -/
def firstRecovery (T : PTables) : List Nat → Nat → Option Nat
  | [], _ => none
  | [s], k => if T.canRecover[s]?.getD false then some k else none   -- index 0: loop stops
  | s :: rest, k => if T.canRecover[s]?.getD false then some k else firstRecovery T rest (k + 1)

/-- skip loop of `Error`: `for !recovered && nextToken.Type != EOF { nextToken = Scan() ... }` -/
def skipLoop (T : PTables) (input : List Nat) (top : Nat) : Nat → Nat × Nat → Nat → (Bool × (Nat × Nat) × Nat)
  | 0, nt, ntok => (false, nt, ntok)
  | fuel + 1, nt, ntok =>
    if nt.2 == 1 then (false, nt, ntok)
    else
      let nt' := scanTok input ntok
      if (T.act top nt'.2).isSome then (true, nt', ntok + 1)
      else skipLoop T input top fuel nt' (ntok + 1)

/-- `Parser.Error(nil, scanner)`; returns (recovered, errorToken, new state) or a panic -/
def recover (T : PTables) (errTerm : Nat) (input : List Nat) (ps : PState) :
    Except String (Bool × (Nat × Nat) × PState) :=
  let errTok := ps.next
  -- popNonRecoveryStates
  let (states, attrs, removed) :=
    match firstRecovery T ps.states 0 with
    | some k => (ps.states.drop k, ps.attrs.drop k, (ps.attrs.take k).reverse)
    | none => (ps.states, ps.attrs, [])
  match states with
  | [] => .error "empty stack"
  | top :: _ =>
    let expected := T.rowExpected top
    let errAttr := Attr.err errTok.1 errTok.2 removed expected
    let ps1 := { ps with states := states, attrs := attrs }
    if !(T.canRecover[top]?.getD false) then .ok (false, errTok, ps1)
    else
      match T.act top errTerm with
      | none => .ok (false, errTok, ps1)
      | some (.shift s) =>
        let ps2 := { ps1 with states := s :: states, attrs := errAttr :: attrs }
        if (T.act s ps.next.2).isSome then .ok (true, errTok, ps2)
        else
          let r := skipLoop T input s (input.length + 2) ps.next ps.ntok
          .ok (r.1, errTok, { ps2 with next := r.2.1, ntok := r.2.2 })
      | some _ => .error "interface conversion: parser.action is not parser.shift"

/-- the harness action shapes (see header) -/
def userAction (shape id : Nat) (X : List Attr) : Except String Attr :=
  match shape with
  | 1 | 5 | 6 => .ok (.node id X)
  | 2 => match X with
    | x :: _ => .ok (.node id [x])
    | [] => .error "index out of range"
  | 3 => match X.getLast? with
    | some x => .ok (.node id [x])
    | none => .error "index out of range"
  | 7 => match X[10]? with
    | some x => .ok (.node id [x])
    | none => .error "index out of range"
  | 4 => match X with
    | (.tok i t) :: _ => .ok (.node id [.tok i t])
    | _ :: _ => .error "interface conversion: not *token.Token"
    | [] => .error "index out of range"
  | _ => .error "unknown shape"

structure PCfg where
  T : PTables
  errTerm : Nat          -- `token.TokMap.Type("error")` (0 = INVALID when there is no such terminal)
  failAt : Nat           -- harness: the action call with this (1-based) number fails; 0 = never

/-- the loop of `Parse` -/
def parseLoop (cfg : PCfg) (input : List Nat) : Nat → PState → Outcome × PState
  | 0, ps => (.outOfFuel, ps)
  | fuel + 1, ps =>
    let T := cfg.T
    match ps.states with
    | [] => (.panic "empty stack", ps)
    | top :: _ =>
      if ps.next.2 ≥ T.numSymbols then (.panic "index out of range (token type)", ps) else
      -- action lookup, with error recovery when it is nil
      let lookup : Except (Outcome × PState) (Act × PState) :=
        match T.act top ps.next.2 with
        | some a => .ok (a, ps)
        | none =>
          match recover T cfg.errTerm input ps with
          | .error why => .error (.panic why, ps)
          | .ok (false, errTok, ps') =>
            match ps'.states with
            | t' :: _ => .error (.synErr errTok.1 errTok.2 (T.rowExpected t') t', ps')
            | [] => .error (.panic "empty stack", ps')
          | .ok (true, _, ps') =>
            match ps'.states with
            | t' :: _ =>
              match T.act t' ps'.next.2 with
              | some a => .ok (a, ps')
              | none => .error (.panic "Error recovery led to invalid action", ps')
            | [] => .error (.panic "empty stack", ps')
      match lookup with
      | .error o => o
      | .ok (a, ps) =>
        match a with
        | .accept =>
          match ps.attrs with
          | r :: rest => (.accept r, { ps with states := ps.states.drop 1, attrs := rest })
          | [] => (.panic "empty stack", ps)
        | .shift s =>
          let nt := scanTok input ps.ntok
          parseLoop cfg input fuel
            { ps with states := s :: ps.states, attrs := Attr.tok ps.next.1 ps.next.2 :: ps.attrs,
                      next := nt, ntok := ps.ntok + 1 }
        | .reduce p =>
          let n := T.prodLen[p]?.getD 0
          if n > ps.states.length then (.panic "slice bounds out of range", ps) else
          let X := (ps.attrs.take n).reverse
          let states := ps.states.drop n
          let attrs := ps.attrs.drop n
          -- call the reduce function
          let res : Except (Option String) (Attr × PState) :=
            match T.prodKind[p]?.getD .dflt with
            | .dflt => match X with
              | x :: _ => .ok (x, ps)
              | [] => .error (some "index out of range")
            | .nilEmpty => .ok (.nil, ps)
            | .user shape id =>
              let ps := { ps with log := id :: ps.log, calls := ps.calls + 1 }
              if cfg.failAt != 0 && ps.calls == cfg.failAt then .error none
              else match userAction shape id X with
                | .ok a => .ok (a, ps)
                | .error why => .error (some why)
          match res with
          | .error (some why) => (.panic why, ps)
          | .error none =>
            let ps := { ps with states := states, attrs := attrs, log := (match T.prodKind[p]?.getD .dflt with | .user _ id => id :: ps.log | _ => ps.log), calls := ps.calls + 1 }
            match states with
            | t' :: _ =>
              let id := match T.prodKind[p]?.getD .dflt with | .user _ id => id | _ => 0
              (.actErr id ps.next.1 ps.next.2 (T.rowExpected t') t', ps)
            | [] => (.panic "empty stack", ps)
          | .ok (a, ps) =>
            match states with
            | t' :: _ =>
              let g := ((T.goto_[t']?).bind (·[T.prodNT[p]?.getD 0]?)).getD (-1)
              if g < 0 then (.panic "index out of range [-1]", ps)
              else parseLoop cfg input fuel { ps with states := g.toNat :: states, attrs := a :: attrs }
            | [] => (.panic "empty stack", ps)

/-- `Parser.Parse(scanner)`: starts with `Reset()` — the previous stack is discarded — and one `Scan` -/
def parse (cfg : PCfg) (input : List Nat) (fuel : Nat) (_old : PState) : Outcome × PState :=
  parseLoop cfg input fuel
    { states := [0], attrs := [.nil], next := scanTok input 0, ntok := 1, log := [], calls := 0 }

def showNats (l : List Nat) : String := " ".intercalate (l.map toString)

def Outcome.show : Outcome → String
  | .accept r => "ok " ++ r.show
  | .synErr i t exp top => s!"synerr t{i}:{t} top={top} exp=[{showNats exp}]"
  | .actErr id i t exp top => s!"acterr id={id} t{i}:{t} top={top} exp=[{showNats exp}]"
  | .panic _ => "panic"
  | .outOfFuel => "fuel"

end Gocc
