import Gocc.Model.Utf8
/-
Models of `internal/util/litconv.go` (`LitToRune`, used by gocc when it reads a grammar) and of
the template `internal/util/gen/golang/litconv.go` (`RuneValue`, shipped in every generated
`util` package).  The two Go texts are ported separately (`litToRune`, `runeValue`).
A Go panic is `Except.error`.  Index expressions `lit[k]` that would panic with
"index out of range" are `error "index"`.
-/
namespace Gocc

def digitVal (ch : Int) : Nat :=
  if 48 ≤ ch ∧ ch ≤ 57 then (ch - 48).toNat
  else if 97 ≤ ch ∧ ch ≤ 102 then (ch - 97).toNat + 10
  else if 65 ≤ ch ∧ ch ≤ 70 then (ch - 65).toNat + 10
  else 16

/-- the digit loop `for ; i > 0 && offset < len(lit)-1; i--` of `escapeCharVal`;
    `rest` is `lit[offset:]`, `avail` is `len(lit)-1-offset` (bytes before the closing quote). -/
def escDigits (base : Nat) : Nat → List Nat → Int → Nat → Except String Nat
  | 0, _, _, x => .ok x
  | i + 1, rest, avail, x =>
    if avail ≤ 0 then .ok x
    else
      let (ch, size) := decodeRune rest
      let d := digitVal ch
      if d ≥ base then .error "illegal digit"
      else escDigits base i (rest.drop size) (avail - size) (x * base + d)

def escFinish (x max : Nat) : Except String Int :=
  -- x is uint32 in Go; with at most 8 hex digits it cannot wrap
  if x > max ∨ (0xD800 ≤ x ∧ x < 0xE000) then .error "invalid code point" else .ok x

/-- `escapeCharVal(lit)` of internal/util/litconv.go -/
def escapeCharVal (lit : List Nat) : Except String Int :=
  match lit with
  | _ :: _ :: c :: rest =>
    let n : Int := lit.length
    if c = 97 then .ok 7            -- 'a'
    else if c = 98 then .ok 8       -- 'b'
    else if c = 102 then .ok 12     -- 'f'
    else if c = 110 then .ok 10     -- 'n'
    else if c = 114 then .ok 13     -- 'r'
    else if c = 116 then .ok 9      -- 't'
    else if c = 118 then .ok 11     -- 'v'
    else if c = 92 then .ok 92      -- '\\'
    else if c = 39 then .ok 39      -- '\''
    else if 48 ≤ c ∧ c ≤ 55 then    -- octal: offset stays 2
      (escDigits 8 3 (c :: rest) (n - 1 - 2) 0) >>= fun x => escFinish x 255
    else if c = 120 then            -- 'x'
      (escDigits 16 2 rest (n - 1 - 3) 0) >>= fun x => escFinish x 255
    else if c = 117 then            -- 'u'
      (escDigits 16 4 rest (n - 1 - 3) 0) >>= fun x => escFinish x 0x10FFFF
    else if c = 85 then             -- 'U'
      (escDigits 16 8 rest (n - 1 - 3) 0) >>= fun x => escFinish x 0x10FFFF
    else .error "unknown escape"
  | _ => .error "index"

/-- `util.LitToRune(lit)` — the generator's copy -/
def litToRune (lit : List Nat) : Except String Int :=
  match lit with
  | _ :: b1 :: _ =>
    if b1 = 92 then escapeCharVal lit
    else
      let (r, size) := decodeRune (lit.drop 1)
      if (size : Int) ≠ (lit.length : Int) - 2 then .error "size" else .ok r
  | _ => .error "index"

/-! The generated copy (template text of internal/util/gen/golang/litconv.go), ported separately. -/

def gDigitVal (ch : Int) : Nat :=
  if 48 ≤ ch ∧ ch ≤ 57 then (ch - 48).toNat
  else if 97 ≤ ch ∧ ch ≤ 102 then (ch - 97).toNat + 10
  else if 65 ≤ ch ∧ ch ≤ 70 then (ch - 65).toNat + 10
  else 16

def gEscDigits (base : Nat) : Nat → List Nat → Int → Nat → Except String Nat
  | 0, _, _, x => .ok x
  | i + 1, rest, avail, x =>
    if avail ≤ 0 then .ok x
    else
      let (ch, size) := decodeRune rest
      let d := gDigitVal ch
      if d ≥ base then .error "illegal digit"
      else gEscDigits base i (rest.drop size) (avail - size) (x * base + d)

def gEscapeCharVal (lit : List Nat) : Except String Int :=
  match lit with
  | _ :: _ :: c :: rest =>
    let n : Int := lit.length
    if c = 97 then .ok 7
    else if c = 98 then .ok 8
    else if c = 102 then .ok 12
    else if c = 110 then .ok 10
    else if c = 114 then .ok 13
    else if c = 116 then .ok 9
    else if c = 118 then .ok 11
    else if c = 92 then .ok 92
    else if c = 39 then .ok 39
    else if 48 ≤ c ∧ c ≤ 55 then
      (gEscDigits 8 3 (c :: rest) (n - 1 - 2) 0) >>= fun x => escFinish x 255
    else if c = 120 then
      (gEscDigits 16 2 rest (n - 1 - 3) 0) >>= fun x => escFinish x 255
    else if c = 117 then
      (gEscDigits 16 4 rest (n - 1 - 3) 0) >>= fun x => escFinish x 0x10FFFF
    else if c = 85 then
      (gEscDigits 16 8 rest (n - 1 - 3) 0) >>= fun x => escFinish x 0x10FFFF
    else .error "unknown escape"
  | _ => .error "index"

/-- `util.RuneValue(lit)` — the copy shipped in generated packages -/
def runeValue (lit : List Nat) : Except String Int :=
  match lit with
  | _ :: b1 :: _ =>
    if b1 = 92 then gEscapeCharVal lit
    else
      let (r, size) := decodeRune (lit.drop 1)
      if (size : Int) ≠ (lit.length : Int) - 2 then .error "size" else .ok r
  | _ => .error "index"

end Gocc
