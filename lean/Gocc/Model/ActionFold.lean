import Gocc.Model.LR1
/-
The conflict fold of `ItemSet.Action(symbol)` (internal/parser/lr1/items/itemset.go:53) isolated
from the item machinery: `foldActs` folds `ResolveConflict` over the list of actions the items of
a state propose for one terminal (`none` = action.ERROR).  `setAction` (Model/LR1.lean) is this
fold applied to `itemAction` of every item (lemma `setAction_eq_foldActs` in Proofs/ActionFold).
Also: the zip encoding of a table row (`GenCompActionTable` / generated `init()`).
-/
namespace Gocc

/-- one step of the fold: current action, conflict flag, next proposed action -/
def foldStep (acc : Option Act × Bool) (a2 : Option Act) : Except String (Option Act × Bool) :=
  match a2, acc.1 with
  | none, _ => pure acc
  | some a2, none => pure (some a2, acc.2)
  | some a2, some a1 =>
    if a1 == a2 then pure acc
    else do
      let r ← resolve a1 a2
      pure (some r, true)

def foldActs (acts : List (Option Act)) : Except String (Option Act × Bool) :=
  acts.foldlM foldStep (none, false)

/-- what the property says the fold must produce (no mention of order):
    the shift if one is proposed, otherwise the reduce with the smallest production index -/
def specResolve (acts : List (Option Act)) : Option Act :=
  let as := acts.filterMap id
  match as.find? (fun a => match a with | .shift _ => true | _ => false) with
  | some sh => some sh
  | none =>
    let rs := as.filterMap fun a => match a with | .reduce p => some p | _ => none
    match rs with
    | [] => if as.contains .accept then some .accept else none
    | r :: rest => some (.reduce (rest.foldl min r))

/-- two different non-error actions are proposed -/
def competing (acts : List (Option Act)) : Bool :=
  let as := (acts.filterMap id).eraseDups
  as.length > 1

/-! ### `-zip`: sparse row encoding (actiontable.go `GenCompActionTable`, generated `init()`) -/

structure ZEntry where
  index : Nat
  action : Nat     -- 0 accept, 1 reduce, 2 shift
  amount : Nat
deriving DecidableEq, Repr, Inhabited

/-- generator side: one entry per non-nil action, in column order -/
def encodeRowFrom : Nat → List (Option Act) → List ZEntry
  | _, [] => []
  | j, none :: rest => encodeRowFrom (j + 1) rest
  | j, some .accept :: rest => ⟨j, 0, 0⟩ :: encodeRowFrom (j + 1) rest
  | j, some (.reduce p) :: rest => ⟨j, 1, p⟩ :: encodeRowFrom (j + 1) rest
  | j, some (.shift s) :: rest => ⟨j, 2, s⟩ :: encodeRowFrom (j + 1) rest

def encodeRow (row : List (Option Act)) : List ZEntry := encodeRowFrom 0 row

/-- generated side: `actionTab[i].actions[a.Index] = ...` over a zero (all nil) row of width `n` -/
def decodeRow (n : Nat) (es : List ZEntry) : List (Option Act) :=
  es.foldl (fun row e =>
    if e.index < row.length then
      match e.action with
      | 0 => row.set e.index (some .accept)
      | 1 => row.set e.index (some (.reduce e.amount))
      | 2 => row.set e.index (some (.shift e.amount))
      | _ => row
    else row) (List.replicate n none)

/-! ### `-zip`: whole tables as the two `init()` functions leave them -/

/-- the goto `init()` (gototable.go `gotoTableCompSrc`): cell-by-cell copy
    `for i < numStates { for j < numNTSymbols { gotoTab[i][j] = tab[i][j] } }` into a zero table;
    a cell outside the decoded slice would be an index panic in Go and is modelled by `-2`, a value
    no generated table contains, so that a theorem about it cannot hold by accident for short tables -/
def copyGoto (nStates nNT : Nat) (tab : Array (Array Int)) : Array (Array Int) :=
  ((List.range nStates).map fun i =>
    ((List.range nNT).map fun j => ((tab[i]?).bind (·[j]?)).getD (-2)).toArray).toArray

/-- tables after the `-zip` round trip: `GenCompActionTable` encodes every row with `encodeRow`
    and carries `CanRecover` over; the generated `init()` decodes into `[numSymbols]action` -/
def zipTables (T : PTables) : PTables :=
  { T with
    action := T.action.map fun row => (decodeRow row.size (encodeRow row.toList)).toArray
    goto_ := copyGoto T.nStates T.nts.length T.goto_ }

end Gocc
