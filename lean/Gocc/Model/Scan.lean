import Gocc.Model.Utf8
/-
Model of the generated lexer: template `internal/lexer/gen/golang/lexer.go`
(`NewLexer`, `Scan`, `Reset`), over arbitrary tables.

`LexTables` abstracts `TransTab` (`trans s r`, `-1` = NoState) and `ActTab`
(`accept s` = `ActTab[s].Accept`, `ignore s` = `ActTab[s].Ignore != ""`).
Generated tables have `Accept = -1` exactly for ignore states and `Accept = 0` (INVALID)
for states without action; the model does not assume this.

`Loop` holds the variables of `Scan`; `iter` is one pass of `for state != -1 { ... }`;
`loop` iterates it (well-founded on the number of unread bytes: every pass that does not
end the loop consumes at least one byte).
-/
namespace Gocc

structure LexTables where
  trans : Nat → Int → Int
  accept : Nat → Int
  ignore : Nat → Bool

def tokINVALID : Int := 0
def tokEOF : Int := 1

/-- cursor of the lexer between `Scan` calls: `l.pos`, `l.line`, `l.column` -/
structure LexSt where
  pos : Nat
  line : Nat
  col : Nat
deriving DecidableEq, Repr, Inhabited

def newLexer : LexSt := ⟨0, 1, 1⟩

/-- `Lexer.Reset` (after the D4 fix) -/
def LexSt.reset (_ : LexSt) : LexSt := ⟨0, 1, 1⟩

structure Tok where
  typ : Int
  litStart : Nat
  litEnd : Nat        -- `tok.Lit = src[litStart:litEnd]`, empty if `litEnd ≤ litStart`
  offset : Nat
  line : Nat
  col : Nat
deriving DecidableEq, Repr, Inhabited

structure Loop where
  pos : Nat
  line : Nat
  col : Nat
  start : Nat
  startLine : Nat
  startCol : Nat
  end_ : Nat
  typ : Int
  state : Int
deriving DecidableEq, Repr, Inhabited

/-- the `switch rune1 { case '\n' ... }` position update -/
def advLC (r : Int) (line col : Nat) : Nat × Nat :=
  if r = 10 then (line + 1, 1)
  else if r = 13 then (line, 1)
  else if r = 9 then (line, col + 4)
  else (line, col + 1)

/-- one pass of the loop body; precondition `L.state ≠ -1` -/
def iter (T : LexTables) (src : List Nat) (L : Loop) : Loop :=
  let len := src.length
  -- decode
  let dr : Int × Nat := if L.pos ≥ len then (-1, 0) else decodeRune (src.drop L.pos)
  let rune1 := dr.1
  let pos := if L.pos ≥ len then L.pos else L.pos + dr.2
  let next : Int := if rune1 ≠ -1 then T.trans L.state.toNat rune1 else -1
  if next ≠ -1 then
    let lc := advLC rune1 L.line L.col
    if T.accept next.toNat ≠ -1 then
      { L with pos := pos, line := lc.1, col := lc.2, typ := T.accept next.toNat, end_ := pos, state := next }
    else if T.ignore next.toNat then
      { L with pos := pos, line := lc.1, col := lc.2, start := pos, startLine := lc.1, startCol := lc.2,
               state := 0, typ := if pos ≥ len then tokEOF else tokINVALID }
    else
      { L with pos := pos, line := lc.1, col := lc.2, state := next }
  else
    if L.typ = tokINVALID then
      let lc := if rune1 = -1 then (L.line, L.col) else advLC rune1 L.line L.col
      { L with pos := pos, line := lc.1, col := lc.2, end_ := pos, state := -1 }
    else
      { L with pos := pos, state := -1 }

theorem decodeRune_size_pos (l : List Nat) (h : l ≠ []) : 1 ≤ (decodeRune l).2 := by
  cases l with
  | nil => exact absurd rfl h
  | cons b0 rest =>
    unfold decodeRune
    repeat' split
    all_goals (try dsimp only)
    all_goals (try (simp; done))
    all_goals (try (split <;> simp; done))
    all_goals simp_all

theorem iter_pos_lt (T : LexTables) (src : List Nat) (L : Loop) (h : L.pos < src.length) :
    L.pos < (iter T src L).pos := by
  have hne : src.drop L.pos ≠ [] := by
    intro h0; have := congrArg List.length h0; simp at this; omega
  have hs := decodeRune_size_pos _ hne
  unfold iter
  have hge : ¬ (L.pos ≥ src.length) := by omega
  simp only [hge, if_false]
  repeat' split
  all_goals simp only [] 
  all_goals omega

/-- `for state != -1 { body }` -/
def loop (T : LexTables) (src : List Nat) (L : Loop) : Loop :=
  if L.state = -1 then L
  else if h : L.pos < src.length then
    loop T src (iter T src L)
  else
    -- at end of input the pass sets `state = -1` (rune1 = -1): the loop ends after it
    iter T src L
termination_by src.length - L.pos
decreasing_by
  have := iter_pos_lt T src L h
  omega

/-- `Scan()`: the returned token and the lexer cursor afterwards -/
def scan (T : LexTables) (src : List Nat) (st : LexSt) : Tok × LexSt :=
  if st.pos ≥ src.length then
    ({ typ := tokEOF, litStart := 0, litEnd := 0, offset := st.pos, line := st.line, col := st.col }, st)
  else
    let L0 : Loop := { pos := st.pos, line := st.line, col := st.col, start := st.pos,
                       startLine := st.line, startCol := st.col, end_ := 0, typ := tokINVALID, state := 0 }
    let L := loop T src L0
    if L.end_ > L.start then
      ({ typ := L.typ, litStart := L.start, litEnd := L.end_, offset := L.start, line := L.startLine, col := L.startCol },
       ⟨L.end_, L.line, L.col⟩)
    else
      ({ typ := L.typ, litStart := 0, litEnd := 0, offset := L.start, line := L.startLine, col := L.startCol },
       ⟨L.pos, L.line, L.col⟩)

/-- the first `k` tokens of a lexer started in state `st` -/
def scanN (T : LexTables) (src : List Nat) : Nat → LexSt → List Tok
  | 0, _ => []
  | k + 1, st => let r := scan T src st; r.1 :: scanN T src k r.2

end Gocc
