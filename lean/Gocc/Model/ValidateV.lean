import Gocc.Model.ValidateC
/-
A third table validator, for the VALIDITY of the LR(1) items (the tables contain no action that is
not justified by a derivation).  Together with `safe`/`safeEnds` (soundness) and `complete`
(completeness) it gives the error-reporting property C06 (Props/C06.lean): an existing action on
look-ahead `a` implies that the consumed input followed by `a` is a prefix of a sentence.

`validItems G T c vc` is a finite, executable check of parser tables `T` against a grammar `G`,
given
  * `c : CertLA`   for every state the list of its LR(1) items `(p, d, a)` — the same certificate
                   as for `complete`, but here the ORDER of every list matters: an item with the
                   dot at the start must be preceded (earlier in the list) by the item whose
                   closure step contributes it.  The work-list order of `ItemSet.Closure` (kernel
                   items first, every closure item appended when first discovered) has this
                   property; `eraseDups` keeps it.
  * `vc : VCert`   three "derivation" certificates, each a list whose every entry is justified by
                   the entries AFTER it (its tail), so that all justifications are well-founded:
       - `vc.prod`  : entries `(A, p)`:  non-terminal `A` is productive, by production `p`
                      (head `A`) all of whose body non-terminals occur later in the list;
       - `vc.null`  : entries `(A, p)`:  `A` derives the empty string, by production `p` whose
                      body consists of non-terminals that occur later in the list;
       - `vc.first` : entries `(A, b, p, i)`: terminal `b` begins a string derived from `A`, by
                      production `p` (head `A`) whose first `i` body symbols are non-terminals of
                      `vc.null` and whose symbol `i` is the terminal `b` or a non-terminal `B` with
                      an entry `(B, b, _, _)` later in the list.
     (Generator: run the usual fixpoints and PREPEND each newly found fact — or append and reverse
      at the end — remembering the production, and for FIRST the body position, that produced it.)

The checks:
  (V4) `prodListOk`, and every non-terminal in every body has an entry in `vc.prod`;
  (V5) no body contains the terminals 0 (INVALID) or 1 (end of input);
  (VF) `nullListOk`, `firstListOk`: the nullable / FIRST facts used below are EXACT (derivable);
       `vc.fc` is the `FirstCert` they induce, `firstOfSeq vc.fc β a` the exact FIRST set of `β a`;
  (V0/V1) `itemsJust`: every item `(q, 0, b)` of state `s` is the start item `(0, 0, 1)` of
       state 0, or is justified by an EARLIER item `(p, d, a)` of the same state with
       `nt (head q)` after the dot and `b ∈ firstOfSeq vc.fc ((body p).drop (d+1)) a`;
       moreover `q` is a production of `G`; state 0 holds no item with the dot not at the start;
  (V2) `edgeOkLA`: for every shift entry `s --t--> s'` and every goto entry `s --A--> s'`:
       `s' ≠ 0` and every item `(p, d+1, a)` of `s'` has the edge symbol at position `d` and its
       predecessor `(p, d, a)` in `s`;
  (V3) every action entry is justified by an item of its state: shift on `t` by an item with
       `t t` after the dot, reduce `p` on `a` by the complete item `(p, |body p|, a)`, accept by
       the complete item of production 0 with look-ahead 1, and only in column 1.
Nothing is constructed.  Canonical LR(1) tables (also after gocc's conflict resolution, which only
removes actions) of a grammar whose non-terminals are all productive pass the check.
-/
namespace Gocc

structure VCert where
  prod : List (Nat × Nat)
  null : List (Nat × Nat)
  first : List (Nat × Nat × Nat × Nat)
deriving Repr, Inhabited

/-- non-terminal `B` has an entry in the list -/
def hasNT (l : List (Nat × Nat)) (B : Nat) : Bool := l.any fun x => x.1 == B

/-- (V4) every entry `(A, p)` is justified by the entries after it -/
def prodListOk (G : NGrammar) : List (Nat × Nat) → Bool
  | [] => true
  | (A, p) :: rest =>
    decide (p < G.prods.size) && G.head p == A &&
    (G.body p).all (fun X => match X with
      | .t _ => true
      | .nt B => hasNT rest B) &&
    prodListOk G rest

/-- (VF) nullable certificate -/
def nullListOk (G : NGrammar) : List (Nat × Nat) → Bool
  | [] => true
  | (A, p) :: rest =>
    decide (p < G.prods.size) && G.head p == A &&
    (G.body p).all (fun X => match X with
      | .t _ => false
      | .nt B => hasNT rest B) &&
    nullListOk G rest

/-- (VF) FIRST certificate -/
def firstListOk (G : NGrammar) (null : List (Nat × Nat)) : List (Nat × Nat × Nat × Nat) → Bool
  | [] => true
  | (A, b, p, i) :: rest =>
    decide (p < G.prods.size) && G.head p == A &&
    ((G.body p).take i).all (fun X => match X with
      | .t _ => false
      | .nt B => hasNT null B) &&
    (match (G.body p)[i]? with
     | some (.t c) => c == b
     | some (.nt B) => rest.any fun x => x.1 == B && x.2.1 == b
     | none => false) &&
    firstListOk G null rest

/-- the nullable / FIRST relations certified by `vc` -/
def VCert.fc (vc : VCert) : FirstCert :=
  { nullable := vc.null.map (·.1), first := vc.first.map fun x => (x.1, x.2.1) }

/-- (V1) the closure item `(q, 0, b)` is contributed by one of the items `earlier` -/
def closureJust (G : NGrammar) (fc : FirstCert) (earlier : List (Nat × Nat × Nat)) (q b : Nat) : Bool :=
  earlier.any fun (p, d, a) =>
    (G.body p)[d]? == some (Sym.nt (G.head q)) &&
    (firstOfSeq fc ((G.body p).drop (d + 1)) a).contains b

/-- (V0/V1) on the REVERSED item list of state `s`: every item with the dot at the start is the
    start item (state 0 only) or is justified by the items after it (= before it in `c[s]`);
    state 0 has no item with the dot not at the start -/
def itemsJust (G : NGrammar) (fc : FirstCert) (s : Nat) : List (Nat × Nat × Nat) → Bool
  | [] => true
  | (q, d, b) :: earlier =>
    (if d == 0 then
        decide (q < G.prods.size) &&
          ((s == 0 && q == 0 && b == 1) || closureJust G fc earlier q b)
      else s != 0) &&
    itemsJust G fc s earlier

/-- (V2) items of `s'` with the dot not at the start are justified by the edge `s --X--> s'` -/
def edgeOkLA (G : NGrammar) (c : CertLA) (s : Nat) (X : Sym) (s' : Nat) : Bool :=
  s' != 0 &&
  (c[s']?.getD []).all fun (p, d, a) =>
    d == 0 || ((G.body p)[d - 1]? == some X && c.has s p (d - 1) a)

def validItems (G : NGrammar) (T : PTables) (c : CertLA) (vc : VCert) : Bool :=
  -- (V4) productivity
  prodListOk G vc.prod &&
  (List.range G.prods.size).all (fun p => (G.body p).all fun X =>
    match X with
    | .t a => a != 0 && a != 1            -- (V5)
    | .nt B => hasNT vc.prod B) &&
  -- (VF) exact nullable / FIRST
  nullListOk G vc.null && firstListOk G vc.null vc.first &&
  -- (V0/V1) closure items
  (List.range c.size).all (fun s => itemsJust G vc.fc s (c[s]?.getD []).reverse) &&
  -- (V2/V3) action entries
  (List.range T.action.size).all (fun s =>
    let row := T.action[s]?.getD #[]
    (List.range row.size).all fun t =>
      match (row[t]?).join with
      | none => true
      | some (.shift s') =>
        edgeOkLA G c s (Sym.t t) s' &&
        (c[s]?.getD []).any fun (p, d, _) => (G.body p)[d]? == some (Sym.t t)
      | some (.reduce p) => c.has s p (G.body p).length t
      | some .accept => t == 1 && c.has s 0 (G.body 0).length 1) &&
  -- (V2) goto entries
  (List.range T.goto_.size).all (fun s =>
    let row := T.goto_[s]?.getD #[]
    (List.range row.size).all fun A =>
      match row[A]? with
      | some g => g < 0 || edgeOkLA G c s (Sym.nt A) g.toNat
      | none => true)

end Gocc
