import Gocc.Model.Parse
import Gocc.Spec.NCfg
/-
A table validator.  `safe G T cert` is a finite, executable check of parser tables `T` against a
grammar `G`, given for every state a certificate `cert[s]`: a list of dotted items `(p, d)`
(production, dot position).  It does not construct anything; it only checks local consistency:

  * the production table describes `G` (head and length of every production);
  * every shift / goto edge `s --X--> s'` is justified: each item of `s'` with the dot not at the
    start has `X` before the dot and its predecessor item in `s`;
  * every reduce entry is justified by a complete item of the state, every accept entry by the
    complete start item and only on end of input;
  * state 0 holds only items with the dot at the start.

The theorem `safe … = true → (Parse accepts w → w is a sentence of G)` (Props/C02.lean) makes
this a *verified* validator: for any tables that pass — in particular the ones gocc generated,
with the generator model's item sets as certificate — acceptance implies derivability for
every token sequence.
-/
namespace Gocc

abbrev Cert := Array (List (Nat × Nat))

def Cert.has (c : Cert) (s p d : Nat) : Bool := (c[s]?.getD []).contains (p, d)

/-- items of `s'` are justified by the edge `s --X--> s'` -/
def edgeOk (G : NGrammar) (c : Cert) (s : Nat) (X : Sym) (s' : Nat) : Bool :=
  (c[s']?.getD []).all fun (p, d) =>
    d == 0 || ((G.body p)[d - 1]? == some X && c.has s p (d - 1))

def safe (G : NGrammar) (T : PTables) (c : Cert) : Bool :=
  let n := T.nStates
  -- tables have the advertised shape
  T.action.size == n && T.goto_.size == n && c.size == n && n > 0 &&
  T.prodNT.size == G.prods.size && T.prodLen.size == G.prods.size &&
  -- production table = grammar
  (List.range G.prods.size).all (fun p => T.prodNT[p]? == some (G.head p) && T.prodLen[p]? == some (G.body p).length) &&
  -- production 0 is S' : Start
  (match G.body 0 with | [Sym.nt _] => true | _ => false) &&
  -- state 0: dots at the start only
  (c[0]?.getD []).all (fun (_, d) => d == 0) &&
  -- action entries
  (List.range n).all (fun s =>
    let row := T.action[s]?.getD #[]
    (List.range row.size).all fun t =>
      match (row[t]?).join with
      | none => true
      | some (.shift s') => s' < n && edgeOk G c s (Sym.t t) s'
      | some (.reduce p) => p < G.prods.size && c.has s p (G.body p).length
      | some .accept => t == 1 && c.has s 0 1) &&
  -- goto entries
  (List.range n).all (fun s =>
    let row := T.goto_[s]?.getD #[]
    (List.range row.size).all fun A =>
      match row[A]? with
      | some g => g < 0 || (g.toNat < n && edgeOk G c s (Sym.nt A) g.toNat)
      | none => true)

/-- numbered grammar of a gocc grammar, using the numbering of the generated tables -/
def ngrammarOf (prods : List SProd) (terminals nts : List String) : NGrammar :=
  { prods := (prods.map fun p =>
      ((nts.idxOf? p.head).getD 0,
       if prodLen p == 0 then [] else p.body.map fun s =>
         match nts.idxOf? s.name with
         | some k => Sym.nt k
         | none => Sym.t ((terminals.idxOf? s.name).getD 0))).toArray }

/-- certificate from the generator model's item sets (look-aheads dropped) -/
def certOf (states : Array LRState) : Cert :=
  states.map fun st => (st.items.map fun i => (i.p, i.d)).eraseDups

end Gocc
