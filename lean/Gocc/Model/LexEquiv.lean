import Gocc.Model.LexGen
import Gocc.Model.Scan
import Gocc.Spec.LexRef
/-
Verified equivalence checker "generated lexer automaton ≈ reference automaton" (C01, tie between
the two halves).

`MDfa` is the automaton the generator model produces (`genLexer`) together with the
(Accept, isIgnore) pair of every state; `RDfa` is the reference automaton (`refDfa`) with the
pairs of its states.  `MDfa.tables` / `RDfa.tables` are the `LexTables` the `Scan` model is run
with; they are the functions the driver's `lexTablesOf` / `refTablesOf` compute.

`equivCheck M R` is an executable product walk over the elementary rune intervals of `R`.
Its soundness (`Gocc/Props/C01Equiv.lean`): if it returns `true`, `scan M.tables` and
`scan R.tables` are the same function.

Core Lean only, no `partial`, structural recursion only (so closed instances reduce by `decide`).
-/
namespace Gocc

/-! ### the two automata as `LexTables` -/

/-- model automaton with its per-state `(Accept, isIgnore)` pairs -/
structure MDfa where
  states : Array LState
  acts : Array (Int × Bool)

/-- reference automaton with its per-state `(Accept, isIgnore)` pairs -/
structure RDfa where
  dfa : RefDfa
  acts : Array (Int × Bool)

/-- transition of one generated state on rune `r`: the first class containing `r`, otherwise the
    `.` transition if the state has one, otherwise none (`-1`) -/
def LState.step (st : LState) (r : Int) : Int :=
  match (st.classes.zip st.trans).find? (fun p => decide (p.1.lo ≤ r) && decide (r ≤ p.1.hi)) with
  | some p => p.2
  | none => if st.matchAny then st.dotTrans else -1

def MDfa.tables (M : MDfa) : LexTables where
  trans s r :=
    match M.states[s]? with
    | none => -1
    | some st => st.step r
  accept s := (M.acts[s]?.map (·.1)).getD 0
  ignore s := (M.acts[s]?.map (·.2)).getD false

def RDfa.tables (R : RDfa) : LexTables where
  trans s r := R.dfa.step s r
  accept s := (R.acts[s]?.map (·.1)).getD 0
  ignore s := (R.acts[s]?.map (·.2)).getD false

/-! ### bisimulation restricted to the runes that can occur -/

/-- what `utf8.DecodeRune` can return (`decodeRune_isRune`) -/
def IsRune (r : Int) : Prop := 0 ≤ r ∧ r ≤ 0x10FFFF

/-- `Bisim` (Gocc/Spec/ScanSpec.lean) with the transition clauses only for runes satisfying `P` -/
structure BisimOn (P : Int → Prop) (T1 T2 : LexTables) (R : Nat → Nat → Prop) : Prop where
  start : R 0 0
  act : ∀ a b, R a b → T1.accept a = T2.accept b ∧ T1.ignore a = T2.ignore b
  dead : ∀ a b r, P r → R a b → (T1.trans a r = -1 ↔ T2.trans b r = -1)
  live : ∀ a b r, P r → R a b → T1.trans a r ≠ -1 → R (T1.trans a r).toNat (T2.trans b r).toNat

/-! ### the classes of the generated automaton respect the elementary intervals -/

/-- strictly increasing -/
def strictInc : List Int → Bool
  | a :: b :: rest => decide (a < b) && strictInc (b :: rest)
  | _ => true

/-- non-empty, begins with `0`, strictly increasing: every rune `r ≥ 0` lies in exactly one
    elementary interval `[starts[k], starts[k+1])` (the last one is unbounded) -/
def startsOk : List Int → Bool
  | [] => false
  | a :: rest => a == 0 && strictInc (a :: rest)

/-- the class begins at an interval start and ends just before one (or at/after the last rune) -/
def classOk (starts : List Int) (c : CR) : Bool :=
  decide (0 ≤ c.lo) && decide (c.lo ≤ c.hi) && starts.contains c.lo &&
    (starts.contains (c.hi + 1) || decide (0x10FFFF ≤ c.hi))

def boundsOk (M : MDfa) (starts : List Int) : Bool :=
  startsOk starts && M.states.toList.all fun st => st.classes.all (classOk starts)

/-! ### the product walk -/

/-- the pair `(m, r)` on every elementary start `c` of `cs`: `none` if exactly one side is dead on
    `c` or a live target is negative, otherwise the list of target pairs -/
def pairSucc (TM TR : LexTables) (m r : Nat) : List Int → Option (List (Nat × Nat))
  | [] => some []
  | c :: cs =>
    if TM.trans m c = -1 then
      if TR.trans r c = -1 then pairSucc TM TR m r cs else none
    else if TR.trans r c = -1 then none
    else if TM.trans m c < 0 ∨ TR.trans r c < 0 then none
    else (pairSucc TM TR m r cs).map fun l => ((TM.trans m c).toNat, (TR.trans r c).toNat) :: l

def actsEq (TM TR : LexTables) (m r : Nat) : Bool :=
  TM.accept m == TR.accept r && TM.ignore m == TR.ignore r

/-- work-list walk; one unit of fuel per work item taken; `false` when the fuel runs out.
    Invariant: every pair of `seen` has equal acts and all its successors are in `seen ∪ work`. -/
def eqWalk (TM TR : LexTables) (starts : List Int) :
    Nat → List (Nat × Nat) → List (Nat × Nat) → Bool
  | 0, _, _ => false
  | _ + 1, [], _ => true
  | fuel + 1, p :: rest, seen =>
    if seen.contains p then eqWalk TM TR starts fuel rest seen
    else if !actsEq TM TR p.1 p.2 then false
    else
      match pairSucc TM TR p.1 p.2 starts with
      | none => false
      | some succ => eqWalk TM TR starts fuel (succ ++ rest) (p :: seen)

/-- at most `M.states.size * R.dfa.states.size + 1` pairs are expanded, each pushes at most one
    work item per elementary interval; `+ 1` for the initial item -/
def equivFuel (M : MDfa) (R : RDfa) : Nat :=
  (M.states.size * R.dfa.states.size + 1) * (R.dfa.starts.length + 1) + 1

/-- `true` iff the classes of `M` respect the elementary intervals of `R` and the product walk
    from `(0, 0)` closes without finding a difference -/
def equivCheck (M : MDfa) (R : RDfa) : Bool :=
  boundsOk M R.dfa.starts &&
    eqWalk M.tables R.tables R.dfa.starts (equivFuel M R) [(0, 0)] []

end Gocc
