import Gocc.Model.Grammar
import Gocc.Model.Range
/-
Model of the lexer generator:
  internal/lexer/items/item.go       Item (path of positions), Emoves (with the visited set of
                                     the D5 fix), Move / MoveDot / MoveRegDefId, match, Reduce
  internal/lexer/items/itemlist.go   AddNoDuplicate, Closure (ContainShift on the *original* list)
  internal/lexer/items/itemset.go    ItemsSet0, getSymbolClasses, Next, NextDot, dependentsClosure, Action
  internal/lexer/items/itemsets.go   GetItemSets / Closure / Add / Contain
  internal/util/rune.go              RuneToString (before fix D13 dependentsClosure compared the *rendered*
                                     expected symbol with a production id; now only regular-definition
                                     references are compared; `termString` is kept for diagnostics)
An item is identified, exactly as by the Go `hashKey`, by its production index and the list of
positions on its stack (bottom first); the nodes on the stack are determined by those positions.
Item lists are kept in the order the Go code produces them only where it is cheap; every
consumer of an item list (set equality, classes, action) is order-independent.
-/
namespace Gocc

inductive LNode where
  | pat (p : LPat)        -- the production's pattern (level 0)
  | alt (a : LAlt)
  | grp (p : LPat)
  | opt (p : LPat)
  | rep (p : LPat)
deriving Inhabited

def LNode.len : LNode → Nat
  | .pat p | .grp p | .opt p | .rep p => p.alts.length
  | .alt a => a.terms.length

/-- the node pushed on top of `n` when `n` is at position `i` -/
def LNode.child (n : LNode) (i : Nat) : Option LNode :=
  match n with
  | .pat p | .grp p | .opt p | .rep p => (p.alts[i]?).map .alt
  | .alt a =>
    match a.terms[i]? with
    | some (.grp p) => some (.grp p)
    | some (.opt p) => some (.opt p)
    | some (.rep p) => some (.rep p)
    | _ => none

/-- terminal term at position `i` of an alternative -/
def LNode.termAt (n : LNode) (i : Nat) : Option LTerm :=
  match n with
  | .alt a =>
    match a.terms[i]? with
    | some .dot => some .dot
    | some (.lit c) => some (.lit c)
    | some (.rng a b) => some (.rng a b)
    | some (.ref r) => some (.ref r)
    | _ => none
  | _ => none

structure LItem where
  prod : Nat
  path : List Nat
deriving DecidableEq, Repr, Inhabited, BEq

/-- walk the path: the node on top of the stack and its position -/
def walk : LNode → List Nat → Option (LNode × Nat)
  | _, [] => none
  | n, [p] => some (n, p)
  | n, p :: rest => (n.child p).bind fun c => walk c rest

structure LexCtx where
  prods : Array LProd

def LexCtx.top (C : LexCtx) (i : LItem) : Option (LNode × Nat) :=
  (C.prods[i.prod]?).bind fun p => walk (.pat p.pat) i.path

/-- `Item.Reduce()` -/
def LexCtx.isReduce (C : LexCtx) (i : LItem) : Bool :=
  match i.path, C.top i with
  | [_], some (n, pos) => pos ≥ n.len
  | _, _ => false

/-- `ExpectedSymbol()` of a basic item -/
def LexCtx.expected (C : LexCtx) (i : LItem) : Option LTerm :=
  match C.top i with
  | some (n, pos) => n.termAt pos
  | none => none

def setLast (l : List Nat) (v : Nat) : List Nat := l.dropLast ++ [v]
def incLast (l : List Nat) : List Nat :=
  match l.getLast? with
  | some v => l.dropLast ++ [v + 1]
  | none => l

/-- successors of a non-basic item (one step of the `switch` in `Emoves`) -/
def emoveStep (C : LexCtx) (i : LItem) : List LItem :=
  match C.top i with
  | none => []
  | some (n, pos) =>
    let enter := (List.range n.len).map fun k => { i with path := setLast i.path k ++ [0] }
    let post : LItem := { i with path := incLast i.path.dropLast }       -- pop; inc
    match n with
    | .pat _ =>
      if pos == 0 then enter
      else if i.path.length == 1 then [{ i with path := [n.len] }] else [post]
    | .grp _ => if pos == 0 then enter else [post]
    | .opt _ => if pos == 0 then enter ++ [post] else [post]
    | .rep _ => enter ++ [post]
    | .alt _ =>
      if pos ≥ n.len then
        -- pop; setToEnd: the parent's position becomes its length
        match walk (.pat (C.prods[i.prod]!.pat)) i.path.dropLast with
        | some (pn, _) => [{ i with path := setLast i.path.dropLast pn.len }]
        | none => []
      else [{ i with path := i.path ++ [0] }]

def LexCtx.isBasic (C : LexCtx) (i : LItem) : Bool :=
  C.isReduce i || (C.expected i).isSome

/-- `Item.Emoves()`: depth-first work list with a visited set -/
def emovesLoop (C : LexCtx) : Nat → List LItem → List LItem → List LItem → List LItem
  | 0, _, _, out => out
  | _ + 1, [], _, out => out
  | fuel + 1, i :: work, visited, out =>
    if visited.contains i then emovesLoop C fuel work visited out
    else if C.isBasic i then emovesLoop C fuel work (i :: visited) (out ++ [i])
    else emovesLoop C fuel ((emoveStep C i).reverse ++ work) (i :: visited) out

def LPat.size : LPat → Nat
  | .mk alts => 1 + sizeAlts alts
where
  sizeAlts : List LAlt → Nat
    | [] => 0
    | (.mk ts) :: rest => 1 + sizeTerms ts + sizeAlts rest
  sizeTerms : List LTerm → Nat
    | [] => 0
    | t :: rest => (match t with
        | .opt p | .rep p | .grp p => 1 + LPat.size p
        | _ => 1) + sizeTerms rest

def LexCtx.fuel (C : LexCtx) : Nat := (C.prods.toList.map fun p => 4 * p.pat.size + 4).sum + 8

def emoves (C : LexCtx) (i : LItem) : List LItem :=
  emovesLoop C ((C.fuel + 2) * (C.fuel + 2)) [i] [] []

def addL (l : List LItem) (i : LItem) : List LItem := if l.contains i then l else l ++ [i]
def addAll (l : List LItem) (is : List LItem) : List LItem := is.foldl addL l

/-- `Item.match(rng)` -/
def termMatch (t : LTerm) (c : CR) : Bool :=
  match t with
  | .lit v => matchLit v c
  | .rng a b => matchRange a b c
  | _ => false

def moved (C : LexCtx) (i : LItem) : List LItem := emoves C { i with path := incLast i.path }

def moveOn (C : LexCtx) (i : LItem) (c : CR) : List LItem :=
  match C.expected i with
  | some t => if termMatch t c then moved C i else []
  | none => []

def moveDot (C : LexCtx) (i : LItem) : List LItem :=
  match C.expected i with
  | some .dot => moved C i
  | _ => []

def moveRef (C : LexCtx) (i : LItem) (id : String) : List LItem :=
  match C.expected i with
  | some (.ref r) => if r == id then moved C i else []
  | _ => []

def LexCtx.prodIndex (C : LexCtx) (id : String) : Option Nat := C.prods.findIdx? (·.id == id)
def LexCtx.idOf (C : LexCtx) (i : LItem) : String := (C.prods[i.prod]?).map (·.id) |>.getD ""

/-- `NewItem(id).Emoves()`; an unknown id is the Go panic "Unknown production" -/
def initialItems (C : LexCtx) (id : String) : Except String (List LItem) :=
  match C.prodIndex id with
  | some k => .ok (emoves C ⟨k, [0]⟩)
  | none => .error s!"Unknown production: {id}"

/-- `ItemList.ContainShift(id)` -/
def containShift (C : LexCtx) (l : List LItem) (id : String) : Bool :=
  l.any fun i => C.idOf i == id && !C.isReduce i

/-- `ItemList.Closure` -/
def closureLoopL (C : LexCtx) (orig : List LItem) : Nat → Nat → List LItem → Except String (List LItem)
  | 0, _, cl => .ok cl
  | fuel + 1, k, cl =>
    match cl[k]? with
    | none => .ok cl
    | some i =>
      match C.expected i with
      | some (.ref r) =>
        if !containShift C orig r then do
          let init ← initialItems C r
          closureLoopL C orig fuel (k + 1) (addAll cl init)
        else closureLoopL C orig fuel (k + 1) cl
      | _ => closureLoopL C orig fuel (k + 1) cl

def closureL (C : LexCtx) (l : List LItem) : Except String (List LItem) :=
  closureLoopL C l (l.length + C.fuel * C.fuel + 8) 0 l

/-! `util.RuneToString` and `LexTNode.String()` -/

def hexDigitChar (d : Nat) : Char := if d < 10 then Char.ofNat (48 + d) else Char.ofNat (87 + d)
def hexPad (n width : Nat) : String :=
  String.ofList ((List.range width).reverse.map fun k => hexDigitChar ((n / 16 ^ k) % 16))

def runeToString (r : Int) : String :=
  if r ≥ 0x20 ∧ r < 0x7f then "'" ++ String.singleton (Char.ofNat r.toNat) ++ "'"
  else if r = 7 then "'\\a'" else if r = 8 then "'\\b'" else if r = 12 then "'\\f'"
  else if r = 10 then "'\\n'" else if r = 13 then "'\\r'" else if r = 9 then "'\\t'"
  else if r = 11 then "'\\v'"
  else if r < 0x10000 then "\\u" ++ hexPad r.toNat 4
  else "\\U" ++ hexPad r.toNat 8

def termString : LTerm → String
  | .dot => "."
  | .lit c => runeToString c
  | .rng a b => runeToString a ++ "-" ++ runeToString b
  | .ref r => r
  | _ => ""

/-- `ItemSet.dependentsClosure(items)` where `prev` are the items of the current set -/
def depLoop (C : LexCtx) (prev : List LItem) : Nat → Nat → List LItem → List LItem
  | 0, _, items => items
  | fuel + 1, k, items =>
    match items[k]? with
    | none => items
    | some it =>
      let id := C.idOf it
      let items' := prev.foldl (fun acc th =>
        match C.expected th with
        | some (.ref r) =>
          if r == id then
            if C.isReduce it then addAll acc (moveRef C th id) else addL acc th
          else acc
        | _ => acc) items
      depLoop C prev fuel (k + 1) items'

def depClosure (C : LexCtx) (prev items : List LItem) : List LItem :=
  if items.isEmpty then items else depLoop C prev (items.length + prev.length + C.fuel * C.fuel + 8) 0 items

/-- `ItemSet.Next(rng)` -/
def nextSet (C : LexCtx) (prev : List LItem) (c : CR) : Except String (List LItem) :=
  closureL C (depClosure C prev (prev.foldl (fun acc i => addAll acc (moveOn C i c)) []))

/-- `ItemSet.NextDot()` -/
def nextDot (C : LexCtx) (prev : List LItem) : Except String (List LItem) :=
  closureL C (depClosure C prev (prev.foldl (fun acc i => addAll acc (moveDot C i)) []))

/-- `getSymbolClasses`: classes and MatchAny -/
def symbolClasses (C : LexCtx) (items : List LItem) : List CR × Bool :=
  items.foldl (fun (acc : List CR × Bool) i =>
    if C.isReduce i then acc
    else match C.expected i with
      | some (.lit v) => (addRange acc.1 v v, acc.2)
      | some (.rng a b) => (addRange acc.1 a b, acc.2)
      | some .dot => (acc.1, true)
      | _ => acc) ([], false)

inductive LAct where
  | none | accept (id : String) | ignore (id : String)
deriving DecidableEq, Repr, Inhabited

/-- `ItemSet.Action()` -/
def lexAction (C : LexCtx) (items : List LItem) : LAct :=
  let isStr (i : LItem) : Bool := (C.prods[i.prod]?).map (·.strLit) |>.getD false
  let best := items.foldl (fun (acc : Option LItem) i =>
    match C.prods[i.prod]? with
    | some p =>
      if p.kind != .reg && C.isReduce i then
        match acc with
        | none => some i
        | some a => if isStr i || (!isStr a && i.prod < a.prod) then some i else some a
      else acc
    | none => acc) none
  match best with
  | none => .none
  | some i =>
    match C.prods[i.prod]? with
    | some p => if p.kind == .tok then .accept p.id else if p.kind == .ign then .ignore p.id else .none
    | none => .none

structure LState where
  items : List LItem
  classes : List CR
  matchAny : Bool
  trans : List Int            -- one per class, -1 if none
  dotTrans : Int := -1
deriving Inhabited

def sameLItems (a b : List LItem) : Bool := a.length == b.length && a.all b.contains

def newLState (C : LexCtx) (items : List LItem) : Except String LState := do
  let cl ← closureL C items
  let (classes, any) := symbolClasses C cl
  pure { items := cl, classes := classes, matchAny := any, trans := classes.map fun _ => -1 }

/-- `ItemSets.Add(items)` -/
def addSet (C : LexCtx) (sets : Array LState) (items : List LItem) : Except String (Array LState × Nat) :=
  match sets.findIdx? (fun s => sameLItems s.items items) with
  | some k => .ok (sets, k)
  | none => do
    let s ← newLState C items
    pure (sets.push s, sets.size)

/-- process set `i` of `ItemSets.Closure` -/
def expandSet (C : LexCtx) (sets : Array LState) (i : Nat) : Except String (Array LState) := do
  let mut sets := sets
  let cur := sets[i]!
  let mut k := 0
  for c in cur.classes do
    let items ← nextSet C cur.items c
    if !items.isEmpty then
      let (s', no) ← addSet C sets items
      sets := s'.modify i fun st => { st with trans := st.trans.set k no }
    k := k + 1
  let items ← nextDot C cur.items
  if !items.isEmpty then
    let (s', no) ← addSet C sets items
    sets := s'.modify i fun st => { st with dotTrans := no }
  return sets

def lexLoop (C : LexCtx) : Nat → Nat → Array LState → Except String (Array LState)
  | 0, _, sets => .ok sets
  | fuel + 1, i, sets =>
    if i < sets.size then do
      let s ← expandSet C sets i
      lexLoop C fuel (i + 1) s
    else .ok sets

/-- `ItemsSet0` -/
def itemsSet0 (C : LexCtx) : List LItem :=
  (List.range C.prods.size).foldl (fun acc k =>
    match C.prods[k]? with
    | some p => if p.kind != .reg then addAll acc (emoves C ⟨k, [0]⟩) else acc
    | none => acc) []

/-- `UpdateStringLitTokens` + `GetItemSets` -/
def lexProdsWithStrLits (lex : List LProd) (strLits : List String) : List LProd :=
  lex ++ strLits.map fun s =>
    { kind := .tok, id := s, strLit := true,
      pat := .mk [.mk (s.toList.map fun ch => LTerm.lit ch.toNat)] }

def genLexer (prods : List LProd) : Except String (Array LState) := do
  let C : LexCtx := { prods := prods.toArray }
  let s0 ← newLState C (itemsSet0 C)
  lexLoop C 100000 0 #[s0]

end Gocc
