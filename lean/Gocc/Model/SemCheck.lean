import Gocc.Model.Grammar
/-
Model of the semantic checks gocc performs on a parsed grammar before any generator runs:
  internal/ast/lexprodmap.go:63  LexProdMap.Add      panic "Production … already exists"
  internal/ast/lexpart.go:60-84  NewLexPart          "duplicate token def" / "duplicate ignored token def"
  internal/ast/grammar.go:47     consistent          "empty production alternative", "undefined symbol used in production"
  internal/ast/lexpart.go:97     UndefinedRegDef     (called from main.go, fix D12)
Every failure makes gocc exit with a non-zero status; which message comes first is the order below.
Lexical ids carry their kind in their spelling (`tok`, `!ign`, `_reg`), exactly as `LexProduction.Id()`.
`lexImports` (the `import` section of the lexical part) are names a pattern may refer to without a definition.
-/
namespace Gocc

inductive SemErr where
  | dupDef (id : String)
  | emptyAlt (head : String)
  | undefinedProd (sym : String)
  | undefinedRegDef (id user : String)
  | reserved (name : String)          -- fix D15: a reserved spelling used as a production name or string literal
deriving DecidableEq, Repr, Inhabited

/-- the first element that occurs again later in the list -/
def firstDup : List String → Option String
  | [] => none
  | x :: rest => if rest.contains x then some x else firstDup rest

mutual
  /-- the `LexRegDefId`s of a pattern, in `Walk` order -/
  def LTerm.refs : LTerm → List String
    | .ref r => [r]
    | .opt p | .rep p | .grp p => p.refs
    | _ => []
  def LPat.refs : LPat → List String
    | .mk alts => altsRefs alts
  def LAlt.refs : LAlt → List String
    | .mk ts => termsRefs ts
  def altsRefs : List LAlt → List String
    | [] => []
    | a :: rest => a.refs ++ altsRefs rest
  def termsRefs : List LTerm → List String
    | [] => []
    | t :: rest => t.refs ++ termsRefs rest
end

/-- `consistent`: `defs` = token ids (not ignored tokens, not regular definitions) and production heads -/
def synDefs (g : Grammar) : List String :=
  ((g.lex.filter fun p => p.kind == .tok).map (·.id)) ++ g.syn.map (·.head)

/-- is the use of symbol `s` in a body an error (not merely a warning)?  `consistent` re-derives "is a
    production name" from the spelling with the scanner's own predicate (`unicode.IsUpper` of the first
    rune, fix D14; before it used the ASCII range); that is exactly how `s.kind` was assigned -/
def undefinedUse (g : Grammar) (s : SSym) : Bool :=
  s.kind == .prodId && !(synDefs g).contains s.name && s.name != "empty" && s.name != "error"

/-- the spellings of the two terminals every token map starts with (`empty` and `error` are NOT refused as string
    literals: gocc's own grammar spec/gocc2.ebnf uses them; see known finding D16) -/
def reservedNames : List String := ["INVALID", "␚"]

/-- fix D15 (`consistent`): the first reserved-name clash of the syntax part, in the order the Go code looks:
    per production: its name (`INVALID`); per body symbol: a string literal spelled like a pseudo symbol or like
    ANY production name of the grammar (wherever that production is declared) or like a token id (a lexical
    production or a `.tokId` symbol of the syntax part), `empty` next to other symbols; before all that: a lexical
    production called `error` or `empty` -/
def reservedUse (g : Grammar) : Option String :=
  let heads := g.syn.map (·.head)
  g.syn.findSome? fun p =>
    if reservedNames.contains p.head then some p.head
    else p.body.findSome? fun s =>
      if s.kind == .strLit && (reservedNames.contains s.name || heads.contains s.name) then some s.name
      else if s.kind != .strLit && s.name == "empty" && p.body.length > 1 then some "empty"
      else none

/-- token ids: every lexical production id and every `.tokId` symbol of the syntax part except the two keywords -/
def tokenIds (g : Grammar) : List String :=
  g.lex.map (·.id) ++
    ((g.syn.flatMap (·.body)).filter fun s => s.kind == .tokId && s.name != "error" && s.name != "empty").map (·.name)

/-- second part of the reserved-name check of `consistent` (fix D21): a lexical production called `error` or
    `empty`; a string literal spelled like a token id (they would share one token number) -/
def reservedTok (g : Grammar) : Option String :=
  match g.lex.find? (fun p => p.id == "error" || p.id == "empty") with
  | some p => some p.id
  | none => ((g.syn.flatMap (·.body)).find? fun s => s.kind == .strLit && (tokenIds g).contains s.name).map (·.name)

def regDefIds (g : Grammar) : List String := (g.lex.filter fun p => p.kind == .reg).map (·.id)

def semCheck (g : Grammar) (lexImports : List String := []) : Except SemErr Unit := do
  -- NewLexProdMap / NewLexPart
  match firstDup (g.lex.map (·.id)) with
  | some id => throw (.dupDef id)
  | none => pure ()
  -- consistent (only when there is a syntax part)
  match g.syn.find? (fun p => p.body.isEmpty) with
  | some p => throw (.emptyAlt p.head)
  | none => pure ()
  match reservedUse g with
  | some n => throw (.reserved n)
  | none => pure ()
  match reservedTok g with
  | some n => throw (.reserved n)
  | none => pure ()
  match (g.syn.flatMap (·.body)).find? (undefinedUse g) with
  | some s => throw (.undefinedProd s.name)
  | none => pure ()
  -- UndefinedRegDef
  match (g.lex.flatMap fun p => p.pat.refs.map fun r => (r, p.id)).find?
      (fun x => !(regDefIds g).contains x.1 && !lexImports.contains x.1) with
  | some x => throw (.undefinedRegDef x.1 x.2)
  | none => pure ()

end Gocc
