/- Line protocol helpers for the model driver (core only). -/
namespace Gocc.Driver

def toks (line : String) : List String :=
  (line.trimAscii.toString.splitOn " ").filter (· ≠ "")

def ints (l : List String) : Option (List Int) := l.mapM String.toInt?
def nats (l : List String) : Option (List Nat) := l.mapM String.toNat?

def showInts (l : List Int) : String := " ".intercalate (l.map toString)
def showNats (l : List Nat) : String := " ".intercalate (l.map toString)

def pairs : List Int → Option (List (Int × Int))
  | [] => some []
  | a :: b :: rest => (pairs rest).map ((a, b) :: ·)
  | _ => none

/-- split a token list at the first `|` -/
def splitBar (l : List String) : List String × List String :=
  let a := l.takeWhile (· ≠ "|")
  (a, (l.drop (a.length + 1)))

end Gocc.Driver
