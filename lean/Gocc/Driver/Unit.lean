import Gocc.Driver.Proto
import Gocc.Spec.Range
import Gocc.Model.LitConv
import Gocc.Model.Md
/- Unit ops: addrange / c18oracle / loadmd / lit2rune / runeval / decoderune -/
namespace Gocc.Driver
open Gocc

def crs (l : List Int) : Option (List CR) := (pairs l).map (·.map fun (a, b) => ⟨a, b⟩)
def showCRs (l : List CR) : String := showInts (l.flatMap fun c => [c.lo, c.hi])

/-- sort by lo and merge overlapping / adjacent intervals (executable spec helper) -/
def insertCR (c : CR) : List CR → List CR
  | [] => [c]
  | d :: rest => if c.lo ≤ d.lo then c :: d :: rest else d :: insertCR c rest
def sortCR (l : List CR) : List CR := l.foldr insertCR []
def mergeCR : List CR → List CR
  | [] => []
  | [c] => [c]
  | c :: d :: rest =>
    if d.lo ≤ c.hi + 1 then mergeCR (⟨c.lo, max c.hi d.hi⟩ :: rest) else c :: mergeCR (d :: rest)
termination_by l => l.length
def normCR (l : List CR) : List CR := mergeCR (sortCR (l.filter fun c => c.lo ≤ c.hi))

/-- oracle on the implementation's class list for the added ranges -/
def c18Oracle (classes ranges : List CR) : String :=
  let wf := match classes with
    | [] => true
    | c :: _ => wfB (c.lo - 1) classes
  let un := normCR classes == normCR ranges
  let rf := ranges.all fun r => !(r.lo ≤ r.hi) || refinesB classes r.lo r.hi
  if wf && un && rf then "ok" else s!"bad wf={wf} union={un} refines={rf}"

def showExcept : Except String Int → String
  | .ok v => s!"ok {v}"
  | .error _ => "panic"

def unitOp (op : String) (args : List String) : Option String :=
  match op with
  | "addrange" => do
    let rs ← crs (← ints args)
    pure (showCRs (classesOf rs))
  | "c18oracle" => do
    let (a, b) := splitBar args
    let cl ← crs (← ints a)
    let rs ← crs (← ints b)
    pure (c18Oracle cl rs)
  | "loadmd" => do
    let l ← ints args
    pure (showInts (loadMd l))
  | "lit2rune" => do
    let l ← nats args
    pure (showExcept (litToRune l))
  | "runeval" => do
    let l ← nats args
    pure (showExcept (runeValue l))
  | "decoderune" => do
    let l ← nats args
    let (r, n) := decodeRune l
    pure s!"{r} {n}"
  | _ => none

end Gocc.Driver
