import Gocc.Model.ActionFold
import Gocc.Driver.Proto
import Gocc.Model.SemCheck
import Gocc.Spec.SemWF
import Gocc.Model.GenCert
import Gocc.Model.GenVCert
import Gocc.Model.LexGen
import Gocc.Model.Parse
import Gocc.Model.Scan
import Gocc.Spec.LexRef
import Gocc.Spec.Pos
import Gocc.Spec.Cfg
import Gocc.Model.Validate
import Gocc.Proofs.Validate
import Gocc.Gen.Frontend
import Gocc.Model.ValidateC
import Gocc.Model.LexEquiv
import Gocc.Model.ValidateV
import Gocc.Spec.Recover
/- Grammar-level ops of the model driver: decode a grammar line, run the generator models,
   print tables, scan and parse with them. -/
namespace Gocc.Driver
open Gocc

def hexVal (c : Char) : Nat :=
  if '0' ≤ c ∧ c ≤ '9' then c.toNat - 48 else if 'a' ≤ c ∧ c ≤ 'f' then c.toNat - 87 else 0

/-- "x" ++ hex of the UTF-8 bytes -/
def unhex (s : String) : String :=
  let cs := (s.drop 1).toString.toList
  let rec go : List Char → List UInt8
    | a :: b :: rest => (hexVal a * 16 + hexVal b).toUInt8 :: go rest
    | _ => []
  match String.fromUTF8? (ByteArray.mk (go cs).toArray) with
  | some str => str
  | none => "?"

abbrev P := StateT (List String) Option

def tk : P String := do
  match (← get) with
  | [] => failure
  | t :: rest => set rest; pure t
def tnat : P Nat := do let t ← tk; match t.toNat? with | some n => pure n | none => failure
def tint : P Int := do let t ← tk; match t.toInt? with | some n => pure n | none => failure
def rep (n : Nat) (p : P α) : P (List α) := (List.range n).mapM fun _ => p

mutual
  partial def pPat : P LPat := do
    let n ← tnat
    let alts ← rep n pAlt
    pure (.mk alts)
  partial def pAlt : P LAlt := do
    let n ← tnat
    let ts ← rep n pTerm
    pure (.mk ts)
  partial def pTerm : P LTerm := do
    let t ← tk
    match t with
    | "d" => pure .dot
    | "l" => return .lit (← tint)
    | "r" => do let a ← tint; let b ← tint; pure (.rng a b)
    | "f" => return .ref (unhex (← tk))
    | "o" => return .opt (← pPat)
    | "p" => return .rep (← pPat)
    | "g" => return .grp (← pPat)
    | _ => failure
end

def pLProd : P LProd := do
  let k ← tnat
  let name ← tk
  let pat ← pPat
  pure { kind := if k == 0 then .tok else if k == 1 then .ign else .reg, id := unhex name, pat := pat }

def pSSym : P SSym := do
  let k ← tnat
  let name ← tk
  pure ⟨if k == 0 then .prodId else if k == 1 then .tokId else .strLit, unhex name⟩

def pSProd : P SProd := do
  let head ← tk
  let n ← tnat
  let body ← rep n pSSym
  let act ← tnat
  let actId ← tnat
  pure { head := unhex head, body := body, act := act, actId := actId }

def pGrammar : P Grammar := do
  let l ← tk
  if l != "L" then failure
  let n ← tnat
  let lex ← rep n pLProd
  let s ← tk
  if s != "S" then failure
  let m ← tnat
  let syn ← rep m pSProd
  pure { lex := lex, syn := syn }

/-- everything the generator model computes for one grammar -/
structure Art where
  g : Grammar
  terminals : List String := []
  lexProds : List LProd := []
  dfa : Except String (Array LState) := .error "none"
  lr : Option (Except String LRResult) := none
  ref : Thunk RefDfa := Thunk.mk fun _ => default

def tokenIdsSorted (lex : List LProd) : List String :=
  sortStrings ((lex.filter (·.kind == .tok)).map (·.id))

/-- the part of `main` between parsing and emission -/
def mkArt (g : Grammar) : Art :=
  let tokIds := tokenIdsSorted g.lex
  if g.syn.isEmpty then
    let S : PSymbols := ({ typeMap := ["INVALID", "␚"] } : PSymbols).addTokens tokIds
    { g := g, terminals := S.terminals, lexProds := g.lex, dfa := genLexer g.lex,
      ref := Thunk.mk fun _ => refDfa g.lex }
  else
    match Gocc.semCheck g with
    | .error _ => { g := g, lr := some (.error "refused"), dfa := .error "refused" }     -- `consistent` / `UndefinedRegDef`: exit status 1
    | .ok () =>
    match newSymbols (augment g.syn) with
    | .error e => { g := g, lr := some (.error e), dfa := .error e }
    | .ok S0 =>
      -- `UpdateStringLitTokens` -> `LexProdMap.Add` panics when a string literal is spelled like
      -- an existing lexical production (or when the same literal is added twice: impossible, the list has no duplicates)
      if S0.strLits.any (fun l => g.lex.any (·.id == l)) then
        { g := g, lr := some (.error "Production already exists"), dfa := .error "Production already exists" }
      else
      let lexProds := lexProdsWithStrLits g.lex S0.strLits
      let lr := genParser g.syn tokIds
      let terms := (S0.addTokens tokIds).terminals
      { g := g, terminals := terms, lexProds := lexProds, dfa := genLexer lexProds, lr := some lr,
        ref := Thunk.mk fun _ => refDfa lexProds }

def typeOf (terms : List String) (id : String) : Int :=
  match terms.idxOf? id with
  | some k => k
  | none => 0

def showLexTab (a : Art) : String :=
  match a.dfa with
  | .error _ => "panic"
  | .ok sets =>
    let C : LexCtx := { prods := a.lexProds.toArray }
    let rows := sets.toList.map fun s =>
      let (acc, ign) : Int × Nat := match lexAction C s.items with
        | .none => (0, 0)
        | .accept id => (typeOf a.terminals id, 0)
        | .ignore _ => (-1, 1)
      let tr := (s.classes.zip s.trans).flatMap fun (c, t) => [c.lo, c.hi, t]
      s!"a={acc} i={ign} d={if s.matchAny then s.dotTrans else -2} [{showInts tr}]"
    s!"n={sets.size} ; " ++ " ; ".intercalate rows

def showAct : Option Act → String
  | none => "."
  | some (.shift s) => s!"s{s}"
  | some (.reduce p) => s!"r{p}"
  | some .accept => "a"

def showLRTabWith (f : PTables → PTables) (a : Art) : String :=
  match a.lr with
  | none => "nosyntax"
  | some (.error e) => if e == "refused" then "refused" else "panic"
  | some (.ok r) =>
    let T := f r.tables
    let rows := (List.range T.nStates).map fun s =>
      let acts := (T.action[s]!.toList.map showAct)
      let gts := T.goto_[s]!.toList.map toString
      s!"{if T.canRecover[s]! then 1 else 0} {" ".intercalate acts} / {" ".intercalate gts}"
    let prods := (List.range T.prodLen.size).map fun p =>
      s!"{T.prodNT[p]!}:{T.prodLen[p]!}"
    s!"n={T.nStates} c={T.conflictStates} prods=[{" ".intercalate prods}] ; " ++ " ; ".intercalate rows

def showLRTab (a : Art) : String := showLRTabWith id a
/-- the tables a `-zip` build holds after its `init()` functions have run (Model/ActionFold `zipTables`) -/
def showLRTabZip (a : Art) : String := showLRTabWith zipTables a

def lexTablesOf (a : Art) (sets : Array LState) : LexTables :=
  let C : LexCtx := { prods := a.lexProds.toArray }
  let acts : Array (Int × Bool) := sets.map fun s => match lexAction C s.items with
    | .none => (0, false)
    | .accept id => (typeOf a.terminals id, false)
    | .ignore _ => (-1, true)
  { trans := fun s r =>
      match sets[s]? with
      | none => -1
      | some st =>
        match (st.classes.zip st.trans).find? (fun (c, _) => c.lo ≤ r && r ≤ c.hi) with
        | some (_, t) => t
        | none => if st.matchAny then st.dotTrans else -1
    accept := fun s => (acts[s]?.map (·.1)).getD 0
    ignore := fun s => (acts[s]?.map (·.2)).getD false }

def showTok0 (t : Tok) : String := s!"{t.typ}@{t.offset}:{t.line}:{t.col}[{t.litStart},{t.litEnd})"

def scanWith0 (T : LexTables) (args : List String) : Option String := do
  let v ← ints args
  match v with
  | ncalls :: resetAt :: bytes =>
    let src := bytes.map Int.toNat
    let rec go (k : Nat) (n : Nat) (st : LexSt) (acc : List String) : List String :=
      match n with
      | 0 => acc.reverse
      | n + 1 =>
        let st := if (k : Int) == resetAt then st.reset else st
        let r := scan T src st
        go (k + 1) n r.2 (showTok0 r.1 :: acc)
    pure (" ".intercalate (go 0 ncalls.toNat newLexer []))
  | _ => none

/-- `scan id ncalls resetAt b0 b1 ...`: `resetAt` = call index before which Reset() is called (-1 none) -/
def opScan (a : Art) (args : List String) : Option String :=
  match a.dfa with
  | .ok sets => scanWith0 (lexTablesOf a sets) args
  | _ => some "panic"

/-- `parse id failAt t0 t1 ...` -/
def opParse (a : Art) (args : List String) : Option String := do
  let v ← nats args
  match v, a.lr with
  | failAt :: toks, some (.ok r) =>
    let T := r.tables
    let errTerm := (T.terminals.idxOf? "error").getD 0
    let cfg : PCfg := { T := T, errTerm := errTerm, failAt := failAt }
    let (o, ps) := parse cfg toks (20000 + 200 * toks.length) default
    pure s!"{o.show} | log=[{showNats ps.log.reverse}] scans={ps.ntok}"
  | _, _ => pure "panic"

def actPair (a : Art) (act : LAct) : Int × Bool :=
  match act with
  | .none => (0, false)
  | .accept id => (typeOf a.terminals id, false)
  | .ignore _ => (-1, true)

def refTablesOf (a : Art) : LexTables :=
  let d := a.ref.get
  let C : LexCtx := { prods := a.lexProds.toArray }
  let acts : Array (Int × Bool) := d.states.map fun S => actPair a (xVerdict C S)
  { trans := fun s r => d.step s r
    accept := fun s => (acts[s]?.map (·.1)).getD 0
    ignore := fun s => (acts[s]?.map (·.2)).getD false }

def scanWith (T : LexTables) (args : List String) : Option String := do
  let v ← ints args
  match v with
  | ncalls :: resetAt :: bytes =>
    let src := bytes.map Int.toNat
    let rec go (k : Nat) (n : Nat) (st : LexSt) (acc : List String) : List String :=
      match n with
      | 0 => acc.reverse
      | n + 1 =>
        let st := if (k : Int) == resetAt then st.reset else st
        let r := scan T src st
        go (k + 1) n r.2 (showTok0 r.1 :: acc)
    pure (" ".intercalate (go 0 ncalls.toNat newLexer []))
  | _ => none

/-- `refscan id ncalls resetAt bytes...`: the reference automaton driven by the `Scan` model -/
def opRefScan (a : Art) (args : List String) : Option String :=
  if !acyclicDefs a.lexProds then some "cyclic" else scanWith (refTablesOf a) args

/-- the two automata as data for the verified checker (`Gocc.equivCheck`, theorem `C01_equivCheck_sound`) -/
def mdfaOf (a : Art) (sets : Array LState) : MDfa :=
  let C : LexCtx := { prods := a.lexProds.toArray }
  { states := sets, acts := sets.map fun s => actPair a (lexAction C s.items) }

def rdfaOf (a : Art) : RDfa :=
  let d := a.ref.get
  let C : LexCtx := { prods := a.lexProds.toArray }
  { dfa := d, acts := d.states.map fun S => actPair a (xVerdict C S) }

/-- `lexeq id`: the VERIFIED equivalence checker on (generator-model automaton, reference automaton);
    when it rejects, an (unverified) product walk looks for the rune path to the first difference -/
def opLexEq (a : Art) : String :=
  if !acyclicDefs a.lexProds then "cyclic" else
  match a.dfa with
  | .error _ => "panic"
  | .ok sets =>
    let MD := mdfaOf a sets
    let RD := rdfaOf a
    if equivCheck MD RD then s!"eq verified refstates={a.ref.get.states.size}" else
    let M := MD.tables
    let R := RD.tables
    let starts := a.ref.get.starts
    let rec walk (fuel : Nat) (work : List (Nat × Nat × List Int)) (seen : List (Nat × Nat)) : String :=
      match fuel, work with
      | 0, _ => "diff fuel"
      | _, [] => "diff bounds"
      | fuel + 1, (m, r, path) :: rest =>
        if seen.contains (m, r) then walk fuel rest seen
        else if M.accept m != R.accept r || M.ignore m != R.ignore r then
          s!"diff act {showInts path.reverse}"
        else
          let res := starts.foldl (fun (acc : Option String × List (Nat × Nat × List Int)) c =>
            match acc.1 with
            | some _ => acc
            | none =>
              let tm := M.trans m c
              let tr := R.trans r c
              if (tm == -1) != (tr == -1) then (some s!"diff live {showInts (c :: path).reverse}", acc.2)
              else if tm == -1 then acc
              else (none, (tm.toNat, tr.toNat, c :: path) :: acc.2)) (none, [])
          match res.1 with
          | some d => d
          | none => walk fuel (rest ++ res.2.reverse) ((m, r) :: seen)
    walk 200000 [(0, 0, [])] []

/-- position rule applied from offset 0: the cursor whose `pos` is `off`, if `off` is a rune boundary -/
def posAt (src : List Nat) (off : Nat) : Option LexSt :=
  let rec go (fuel : Nat) (st : LexSt) : Option LexSt :=
    match fuel with
    | 0 => none
    | fuel + 1 =>
      if st.pos == off then some st
      else if st.pos > off || st.pos ≥ src.length then none
      else go fuel (lcStep src st)
  go (src.length + 2) newLexer

/-- `c08oracle b0 b1 ... | typ off line col lo hi ...` — executable C08 spec on an
    implementation token stream: exact positions, literals start at the offset, lexemes ordered
    and non-overlapping inside the input, end-of-input token repeats. -/
def c08Oracle (args : List String) : Option String := do
  let (a, b) := splitBar args
  let src ← nats a
  let v ← ints b
  let rec toks : List Int → Option (List (Int × Nat × Nat × Nat × Nat × Nat))
    | [] => some []
    | t :: o :: l :: c :: lo :: hi :: rest => (toks rest).map ((t, o.toNat, l.toNat, c.toNat, lo.toNat, hi.toNat) :: ·)
    | _ => none
  let ts ← toks v
  let rec check (prevEnd : Nat) (k : Nat) : List (Int × Nat × Nat × Nat × Nat × Nat) → String
    | [] => "ok"
    | (t, o, l, c, lo, hi) :: rest =>
      match posAt src o with
      | none => s!"bad token {k}: offset {o} is not a rune boundary"
      | some st =>
        if st.line != l || st.col != c then s!"bad token {k}: position {l}:{c}, rule gives {st.line}:{st.col}"
        else if o < prevEnd then s!"bad token {k}: overlaps previous lexeme"
        else if hi > lo && (lo != o || hi > src.length) then s!"bad token {k}: literal [{lo},{hi}) does not start at offset {o}"
        else if hi ≤ lo && t != 1 then s!"bad token {k}: empty literal on a non-EOF token"
        else if t == 1 && hi ≤ lo && o != src.length then s!"bad token {k}: EOF token before the end of input"
        else check (if hi > lo then hi else o) (k + 1) rest
  pure (check 0 0 ts)

def cfgOfArt (a : Art) : Option (Cfg × Array RKind) :=
  match a.lr with
  | some (.ok r) => some (cfgOf a.g.syn r.tables.terminals r.tables.nts, r.tables.prodKind)
  | _ => none

/-- `earley id t0 t1 ...`: sentence? and the terminals that may follow (Earley oracle) -/
def opEarley (a : Art) (args : List String) : Option String := do
  let w ← nats args
  match cfgOfArt a with
  | some (G, _) =>
    let r := earleyLast G w
    pure s!"{if r.1 then "yes" else "no"} exp=[{showNats r.2}] productive={if allProductive G then 1 else 0}"
  | none => pure "nosyntax"

/-- `tree id failAt t0 t1 ...`: evaluate the harness actions over a parse tree found without LR tables -/
def opTree (a : Art) (args : List String) : Option String := do
  let v ← nats args
  match v, cfgOfArt a with
  | failAt :: w, some (G, kinds) =>
    match spanTree G w with
    | none => pure "notree"
    | some t =>
      match evalTree kinds failAt t {} with
      | .ok (r, st) => pure s!"ok {r.show} | log=[{showNats st.log.reverse}]"
      | .error (id, st) => pure s!"acterr id={id} | log=[{showNats st.log.reverse}]"
  | _, _ => pure "nosyntax"

/-- `c05oracle id`: the resolution rule stated outright — among the actions the items of a state
    propose for a terminal: the shift if there is one, otherwise the reduce with the smallest
    production index — compared with every entry of the model's (= gocc's) table. -/
def opC05 (a : Art) : String :=
  match a.lr with
  | some (.ok r) =>
    let C := r.ctx
    let T := r.tables
    let res := (List.range T.nStates).foldl (fun (acc : Nat × Nat × List String) s =>
      let st := r.states[s]!
      (List.range T.terminals.length).foldl (fun (acc : Nat × Nat × List String) t =>
        let sym := T.terminals[t]!
        let next := (st.next sym).getD 0
        let acts := (st.items.filterMap fun i => itemAction C i sym next).eraseDups
        let shifts := acts.filter fun x => match x with | .shift _ => true | _ => false
        let reduces := acts.filterMap fun x => match x with | .reduce p => some p | _ => none
        let expected : Option Act :=
          if acts.contains .accept then some .accept
          else match shifts with
            | sh :: _ => some sh
            | [] => (reduces.foldl (fun (m : Option Nat) p => match m with
                | none => some p
                | some q => some (min p q)) none).map Act.reduce
        let entry := (T.action[s]!)[t]!
        let competing := if acts.length > 1 then 1 else 0
        if entry == expected then (acc.1 + 1, acc.2.1 + competing, acc.2.2)
        else (acc.1 + 1, acc.2.1 + competing, acc.2.2 ++ [s!"S{s}/{sym}"])) acc) (0, 0, [])
    if res.2.2.isEmpty then s!"ok entries={res.1} competing={res.2.1}" else s!"bad {" ".intercalate res.2.2}"
  | some (.error _) => "panic"
  | none => "nosyntax"

/-- `validate id`: run the verified validator on the tables with the generator's item sets as certificate -/
def opValidate (a : Art) : String :=
  match a.lr with
  | some (.ok r) =>
    let T := r.tables
    let G := ngrammarOf (augment a.g.syn) T.terminals T.nts
    let anyRec := T.canRecover.any id
    let c := certOf r.states
    let cla : CertLA := claOf r          -- Model/GenCert.lean (the certificates of C02_genParser_complete)
    let fc : FirstCert := fcOf r
    let b (x : Bool) : Nat := if x then 1 else 0
    -- the property's own words: a recovery state is a state that can SHIFT the error symbol (independent of `itemCanRecover`)
    let recExact : Bool :=
      match T.terminals.idxOf? "error" with
      | none => !anyRec
      | some e => (List.range T.nStates).all fun s =>
          T.canRecover[s]?.getD false == (match T.act s e with | some (.shift _) => true | _ => false)
    s!"safe={b (safe G T c && safeEnds T c)} complete={b (firstOk G fc && complete G T fc cla)} valid={b (validItems G T cla (vcertOf G))} acts={b (kindsTotal T)} recover={b anyRec} recwf={b (recWFb T ((T.terminals.idxOf? "error").getD 0))} noshifteof={b (noShiftEOFb T)} recexact={b recExact}"
  | some (.error _) => "panic"
  | none => "nosyntax"

/-- `lritems id`: item sets and transitions of the model's canonical collection (certificate source) -/
def opLRItems (a : Art) : String :=
  match a.lr with
  | some (.ok r) =>
    let T := r.tables
    let tnum (s : String) : String :=
      match T.nts.idxOf? s with
      | some k => s!"N{k}"
      | none => s!"T{(T.terminals.idxOf? s).getD 0}"
    " ; ".intercalate (r.states.toList.map fun st =>
      " ".intercalate (st.items.map fun i => s!"{i.p}.{i.d}.{(T.terminals.idxOf? i.la).getD 0}") ++ " / " ++
      " ".intercalate (st.trans.map fun (x, n) => s!"{tnum x}>{n}"))
  | _ => "panic"

/-- `feparse t0 t1 ...` (front-end token types): the Parse model on the shipped front-end tables -/
def opFeParse (args : List String) : Option String := do
  let v ← nats args
  let w := v.map (· + 1)
  let cfg : PCfg := { T := Gocc.Gen.feT, errTerm := (Gocc.Gen.feTerminals.idxOf? "error").getD 0, failAt := 0 }
  let (o, ps) := parse cfg w (20000 + 200 * w.length) default
  match o with
  | .accept _ => pure s!"accept scans={ps.ntok}"
  | .synErr .. => pure s!"synerr scans={ps.ntok}"
  | _ => pure o.show

/-- `semcheck id`: verdict of the semantic checks (Model/SemCheck.lean) on the grammar value -/
def opSemCheck (a : Art) : String :=
  match Gocc.semCheck a.g with
  | .ok () => "ok"
  | .error (.dupDef id) => s!"dup {id}"
  | .error (.emptyAlt h) => s!"emptyalt {h}"
  | .error (.undefinedProd x) => s!"undefprod {x}"
  | .error (.undefinedRegDef r u) => s!"undefregdef {r} {u}"
  | .error (.reserved n) => s!"reserved {n}"

/-- `semspec id`: the property's clauses evaluated directly (Spec/SemWF.lean) -/
def opSemSpec (a : Art) : String := if Gocc.semWFb a.g then "wf" else "ill"

def opTerminals (a : Art) : String :=
  " ".intercalate (a.terminals.map fun s => "x" ++ String.join (s.toUTF8.toList.map fun b =>
    String.ofList [hexDigitChar (b.toNat / 16), hexDigitChar (b.toNat % 16)]))

end Gocc.Driver
