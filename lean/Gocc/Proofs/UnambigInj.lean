import Gocc.Proofs.UnambigRun
/-
Unambiguity from completeness (for C04).

  §1  `TreeKinds`: every production has the harness action that builds a full node labelled with
      the production's number; then `evalT` is injective on well-formed trees (`evalT_inj`):
      the value `.node p xs` records production and children, `.tok i t` position and type.
  §2  `treeCfg`: the configuration with these actions over given tables; the validators do not
      read `prodKind` (`complete_treeKinds`), the actions never fail (`actsOk_treeCfg`).
  §3  `complete_unambiguous`: tables passing `firstOk` / `complete` exist only for unambiguous
      grammars — two trees of the same input are both followed by the ONE run of the parser
      (`parse_follows_tree`, fuel monotonicity), so they have the same value, hence are equal.
  (positions stored in the leaves do not matter: Proofs/UnambigPos.lean.)
-/
namespace Gocc.Unambig

/-! ### §1 injectivity of the evaluation -/

/-- every production `p < n` has the action `<< vh.Mk(C, p, X) >>` -/
def TreeKinds (kinds : Array RKind) (n : Nat) : Prop :=
  ∀ p : Nat, p < n → kinds[p]? = some (RKind.user 1 p)

theorem evalT_node {kinds : Array RKind} {n : Nat} (hk : TreeKinds kinds n) {p : Nat} (hp : p < n)
    {kids : List PT} {log : List Nat} {a : Attr} {l' : List Nat}
    (h : evalT kinds (.node p kids) log = some (a, l')) :
    ∃ xs l, evalL kinds kids log = some (xs, l) ∧ a = Attr.node p xs ∧ l' = p :: l := by
  simp only [evalT, hk p hp, Option.getD_some, userAction] at h
  rcases he : evalL kinds kids log with _ | ⟨xs, l⟩
  · rw [he] at h; cases h
  · rw [he] at h
    simp only [Option.some.injEq, Prod.mk.injEq] at h
    exact ⟨xs, l, rfl, h.1.symm, h.2.symm⟩

theorem evalL_cons {kinds : Array RKind} {k : PT} {ks : List PT} {log : List Nat}
    {xs : List Attr} {l' : List Nat} (h : evalL kinds (k :: ks) log = some (xs, l')) :
    ∃ a m as, evalT kinds k log = some (a, m) ∧ evalL kinds ks m = some (as, l') ∧
      xs = a :: as := by
  simp only [evalL] at h
  rcases he : evalT kinds k log with _ | ⟨a, m⟩
  · rw [he] at h; cases h
  · rw [he] at h
    simp only [] at h
    rcases hf : evalL kinds ks m with _ | ⟨as, m'⟩
    · rw [hf] at h; cases h
    · rw [hf] at h
      simp only [Option.some.injEq, Prod.mk.injEq] at h
      exact ⟨a, m, as, rfl, by rw [hf, h.2], h.1.symm⟩

mutual
/-- under `TreeKinds` the value determines the tree -/
theorem evalT_inj {G : NGrammar} {kinds : Array RKind} (hk : TreeKinds kinds G.prods.size) :
    (t1 t2 : PT) → t1.wf G → t2.wf G → ∀ (l1 l2 : List Nat) (a : Attr) (l1' l2' : List Nat),
      evalT kinds t1 l1 = some (a, l1') → evalT kinds t2 l2 = some (a, l2') → t1 = t2
  | .leaf i t, .leaf j u, _, _, l1, l2, a, l1', l2', h1, h2 => by
    simp only [evalT, Option.some.injEq, Prod.mk.injEq] at h1 h2
    have := h1.1.trans h2.1.symm
    simp only [Attr.tok.injEq] at this
    rw [this.1, this.2]
  | .leaf i t, .node q ks, _, hw2, l1, l2, a, l1', l2', h1, h2 => by
    exfalso
    obtain ⟨xs, l, -, ha, -⟩ := evalT_node hk hw2.1 h2
    simp only [evalT, Option.some.injEq, Prod.mk.injEq] at h1
    have := h1.1.trans ha
    cases this
  | .node p ks, .leaf j u, hw1, _, l1, l2, a, l1', l2', h1, h2 => by
    exfalso
    obtain ⟨xs, l, -, ha, -⟩ := evalT_node hk hw1.1 h1
    simp only [evalT, Option.some.injEq, Prod.mk.injEq] at h2
    have := h2.1.trans ha
    cases this
  | .node p ks1, .node q ks2, hw1, hw2, l1, l2, a, l1', l2', h1, h2 => by
    obtain ⟨xs1, m1, he1, ha1, -⟩ := evalT_node hk hw1.1 h1
    obtain ⟨xs2, m2, he2, ha2, -⟩ := evalT_node hk hw2.1 h2
    have := ha1.symm.trans ha2
    simp only [Attr.node.injEq] at this
    obtain ⟨rfl, rfl⟩ := this
    rw [evalL_inj hk ks1 ks2 hw1.2.2 hw2.2.2 l1 l2 xs1 m1 m2 he1 he2]
theorem evalL_inj {G : NGrammar} {kinds : Array RKind} (hk : TreeKinds kinds G.prods.size) :
    (ks1 ks2 : List PT) → PT.wfL G ks1 → PT.wfL G ks2 →
      ∀ (l1 l2 : List Nat) (xs : List Attr) (l1' l2' : List Nat),
      evalL kinds ks1 l1 = some (xs, l1') → evalL kinds ks2 l2 = some (xs, l2') → ks1 = ks2
  | [], [], _, _, _, _, _, _, _, _, _ => rfl
  | [], k :: ks, _, _, l1, l2, xs, l1', l2', h1, h2 => by
    exfalso
    simp only [evalL, Option.some.injEq, Prod.mk.injEq] at h1
    obtain ⟨a, m, as, -, -, hx⟩ := evalL_cons h2
    have := h1.1.trans hx
    cases this
  | k :: ks, [], _, _, l1, l2, xs, l1', l2', h1, h2 => by
    exfalso
    simp only [evalL, Option.some.injEq, Prod.mk.injEq] at h2
    obtain ⟨a, m, as, -, -, hx⟩ := evalL_cons h1
    have := h2.1.trans hx
    cases this
  | k1 :: ks1, k2 :: ks2, hw1, hw2, l1, l2, xs, l1', l2', h1, h2 => by
    obtain ⟨a1, m1, as1, he1, hf1, hx1⟩ := evalL_cons h1
    obtain ⟨a2, m2, as2, he2, hf2, hx2⟩ := evalL_cons h2
    have := hx1.symm.trans hx2
    simp only [List.cons.injEq] at this
    obtain ⟨rfl, rfl⟩ := this
    rw [evalT_inj hk k1 k2 hw1.1 hw2.1 l1 l2 a1 m1 m2 he1 he2,
      evalL_inj hk ks1 ks2 hw1.2 hw2.2 m1 m2 as1 l1' l2' hf1 hf2]
end

/-! ### §2 the configuration that builds the tree -/

/-- the kinds `<< vh.Mk(C, p, X) >>` for every production number below `n` -/
def treeKindsArr (n : Nat) : Array RKind := (Array.range n).map fun p => RKind.user 1 p

theorem treeKindsArr_get {n p : Nat} (hp : p < n) : (treeKindsArr n)[p]? = some (RKind.user 1 p) := by
  simp [treeKindsArr, hp]

/-- same tables, every production (of the grammar and of the tables) builds a full node -/
def treeCfg (T : PTables) (n : Nat) : PCfg :=
  { T := { T with prodKind := treeKindsArr (max n T.prodLen.size) }, errTerm := 0, failAt := 0 }

theorem treeKinds_treeCfg (T : PTables) (n : Nat) : TreeKinds (treeCfg T n).T.prodKind n :=
  fun _ hp => treeKindsArr_get (Nat.lt_of_lt_of_le hp (Nat.le_max_left _ _))

theorem actsOk_treeCfg (T : PTables) (n : Nat) : ActsOk (treeCfg T n) := by
  refine ⟨rfl, fun p len hlen X _ => ?_⟩
  have hp : p < T.prodLen.size := (Array.getElem?_eq_some_iff.mp hlen).1
  have : (treeCfg T n).T.prodKind[p]? = some (RKind.user 1 p) :=
    treeKindsArr_get (Nat.lt_of_lt_of_le hp (Nat.le_max_right _ _))
  rw [this]
  exact ⟨_, rfl⟩

/-- the completeness validator does not read `prodKind` -/
theorem complete_prodKind (G : NGrammar) (T : PTables) (fc : FirstCert) (c : CertLA)
    (k : Array RKind) : complete G { T with prodKind := k } fc c = complete G T fc c := rfl

/-! ### §3 unambiguity -/

/-- `G` is unambiguous: an input has at most one parse tree (root: the start symbol; leaves: the
    tokens of the input with their positions, the form of `C03_result_is_tree_eval`) -/
def Unambiguous (G : NGrammar) : Prop :=
  ∀ (w : List Nat) (t1 t2 : PT), t1.wf G → t2.wf G → G.body 0 = [t1.sym G] → G.body 0 = [t2.sym G] →
    t1.yield = (List.range w.length).zip w → t2.yield = (List.range w.length).zip w → t1 = t2

theorem complete_unambiguous {G : NGrammar} {T : PTables} {fc : FirstCert} {c : CertLA}
    (hf : firstOk G fc = true) (hc : complete G T fc c = true) : Unambiguous G := by
  intro w t1 t2 hw1 hw2 hr1 hr2 hy1 hy2
  have hA := actsOk_treeCfg T G.prods.size
  have hc' : complete G (treeCfg T G.prods.size).T fc c = true := hc
  obtain ⟨f1, r1, ps1, hp1, he1⟩ :=
    parse_follows_tree hf hc' hA rfl hw1 hr1 hy1 default
  obtain ⟨f2, r2, ps2, hp2, he2⟩ :=
    parse_follows_tree hf hc' hA rfl hw2 hr2 hy2 default
  -- one run
  have hrun : (Outcome.accept r1, ps1) = (Outcome.accept r2, ps2) := by
    unfold parse at hp1 hp2
    have m1 := parseLoop_fuel_mono (cfg := treeCfg T G.prods.size) (w := w) (fuel := f1)
      (ps := _) (by rw [hp1]; intro h; cases h) f2
    have m2 := parseLoop_fuel_mono (cfg := treeCfg T G.prods.size) (w := w) (fuel := f2)
      (ps := _) (by rw [hp2]; intro h; cases h) f1
    rw [← hp1, ← hp2, ← m1, ← m2, Nat.add_comm]
  simp only [Prod.mk.injEq, Outcome.accept.injEq] at hrun
  obtain ⟨rfl, rfl⟩ := hrun
  exact evalT_inj (treeKinds_treeCfg T G.prods.size) t1 t2 hw1 hw2 [] [] _ _ _ he1 he2

end Gocc.Unambig
