import Gocc.Proofs.ValidateC
/-
Completeness along a GIVEN parse tree (for C04, unambiguity).

`run_item` of Proofs/ValidateC.lean follows a derivation (a `Prop`); here the same induction
carries the tree: with item `(p, d, a)` in the top state and the rest of the body spelled by the
roots of the trees `ks`, whose leaves are the next tokens of the input, the parser pushes one state
and one attribute per tree — the attributes being `evalL` of `ks` — and arrives in a state holding
the complete item (`run_kids`).  Hence the accepted value and the call log are `evalT` of THE tree
one started with (`parse_follows_tree`), not merely of some tree.

No hypothesis on error recovery (the action entry is never missing along the run), none on tokens
of type 1 inside the input.
-/
namespace Gocc.Unambig

/-- the tokens with their positions in the scanner's output (the yield of a parse tree of `w`) -/
def toks (w : List Nat) : List (Nat × Nat) := (List.range w.length).zip w

theorem toks_map_snd (w : List Nat) : (toks w).map (·.2) = w := by
  unfold toks
  rw [List.map_snd_zip]
  simp

theorem toks_getElem? {w : List Nat} {m i t : Nat} (h : (toks w)[m]? = some (i, t)) :
    i = m ∧ w[m]? = some t := by
  unfold toks at h
  rw [List.getElem?_zip_eq_some] at h
  obtain ⟨h1, h2⟩ := h
  simp only [] at h1 h2
  rw [List.getElem?_range] at h1
  · exact ⟨by simpa using h1.symm, h2⟩
  · by_cases hm : m < w.length
    · exact hm
    · rw [List.getElem?_eq_none (by simp; omega)] at h1
      cases h1

theorem drop_toks_cons {w : List Nat} {m i t : Nat} {l : List (Nat × Nat)}
    (h : (toks w).drop m = (i, t) :: l) :
    i = m ∧ scanTok w m = (m, t) ∧ (toks w).drop (m + 1) = l := by
  obtain ⟨h1, h2, -⟩ := drop_eq_cons h
  obtain ⟨rfl, h3⟩ := toks_getElem? h1
  refine ⟨rfl, ?_, h2⟩
  simp [scanTok, h3]

theorem drop_map_snd_toks (w : List Nat) (m : Nat) : ((toks w).drop m).map (·.2) = w.drop m := by
  rw [List.map_drop, toks_map_snd]

mutual
/-- number of nodes and leaves -/
def sz : PT → Nat
  | .leaf _ _ => 1
  | .node _ kids => szL kids + 1
def szL : List PT → Nat
  | [] => 0
  | k :: ks => sz k + szL ks
end

/-- a reduce step: pops the body, pushes the goto state and the value of the new node -/
theorem doAct_reduce_eval {cfg : PCfg} (hA : ActsOk cfg) (w : List Nat) {p n A : Nat}
    (hn : cfg.T.prodLen[p]? = some n) (hnt : cfg.T.prodNT[p]? = some A) {ps : PState}
    {ss : List Nat} {s : Nat} {rest : List Nat} (hst : ps.states = ss ++ s :: rest)
    (hss : ss.length = n) {X as : List Attr} (hat : ps.attrs = X.reverse ++ as)
    (hX : X.length = n) {g : Int} (hg : cfg.T.gotoOf s A = some g) (hg0 : 0 ≤ g) :
    ∃ (ps' : PState) (a : Attr), doAct cfg w (.reduce p) ps = .cont ps' ∧
      ps'.states = g.toNat :: s :: rest ∧ ps'.attrs = a :: as ∧ ps'.next = ps.next ∧
      ps'.ntok = ps.ntok ∧
      ∀ (kids : List PT) (l1 : List Nat), evalL cfg.T.prodKind kids l1 = some (X, ps.log) →
        evalT cfg.T.prodKind (.node p kids) l1 = some (a, ps'.log) := by
  have htake : (ps.attrs.take n).reverse = X := by
    rw [hat, ← hX, ← List.length_reverse, List.take_left, List.reverse_reverse]
  have hdropA : ps.attrs.drop n = as := by
    rw [hat, ← hX, ← List.length_reverse, List.drop_left]
  obtain ⟨a, ps2, hres, h1, h2⟩ := reduceRes_actsOk hA hn hX ps
  have hdrop : ps.states.drop n = s :: rest := by
    rw [hst, ← hss]; simp
  simp only [doAct, hn, hnt, Option.getD_some]
  rw [if_neg (by rw [hst]; simp; omega), htake, hres, hdrop]
  simp only [PTables.gotoOf] at hg
  simp only [hg, Option.getD_some]
  rw [if_neg (by omega)]
  refine ⟨_, a, rfl, rfl, by simp only [hdropA], h1, h2, ?_⟩
  intro kids l1 he
  exact (reduceRes_ok hres he).1

theorem sz_pos (t : PT) : 0 < sz t := by
  cases t <;> simp [sz]

/-- (key lemma, tree form) the top state holds item `(p, d, a)`, the rest of the body is spelled
    by the roots of `ks`, the tokens from the look-ahead on are the leaves of `ks` followed by
    `postP`, whose first token type (1 if there is none) is `a`.  Then, after finitely many
    iterations, the parser has pushed `|ks|` states and the values `evalL ks` on the unchanged
    stack, consumed exactly the leaves of `ks`, and its top state holds the complete item. -/
theorem run_kids {G : NGrammar} {T : PTables} {fc : FirstCert} {c : CertLA}
    (F : CompleteFacts G T fc c) (hf : firstOk G fc = true) {cfg : PCfg} (hA : ActsOk cfg)
    (hT : cfg.T = T) (w : List Nat) :
    ∀ (n : Nat) (ks : List PT), szL ks ≤ n → PT.wfL G ks →
    ∀ (p d a : Nat), p < G.prods.size → (G.body p).drop d = ks.map (PT.sym G) →
      d ≤ (G.body p).length →
    ∀ (ps : PState) (s : Nat) (rest : List Nat) (m : Nat) (postP : List (Nat × Nat)),
      ps.states = s :: rest →
      (p, d, a) ∈ c[s]?.getD [] → ps.ntok = m + 1 → ps.next = scanTok w m →
      (toks w).drop m = PT.yieldL ks ++ postP → (postP.map (·.2)).head?.getD 1 = a →
      ∃ (ps' : PState) (ss : List Nat) (s' : Nat) (rest' : List Nat) (xs : List Attr),
        Steps cfg w ps ps' ∧
        ss.length = ks.length ∧ ps'.states = ss ++ s :: rest ∧ ps'.states = s' :: rest' ∧
        (p, (G.body p).length, a) ∈ c[s']?.getD [] ∧
        ps'.attrs = xs.reverse ++ ps.attrs ∧ xs.length = ks.length ∧
        evalL cfg.T.prodKind ks ps.log = some (xs, ps'.log) ∧
        ps'.ntok = m + (PT.yieldL ks).length + 1 ∧
        ps'.next = scanTok w (m + (PT.yieldL ks).length) := by
  subst hT
  intro n
  induction n with
  | zero =>
    intro ks hsz _ p d a _ hβ hdl ps s rest m postP hst hm hnt hnx _ _
    have hks : ks = [] := by
      rcases ks with _ | ⟨k, ks⟩
      · rfl
      · exfalso
        have := sz_pos k
        simp only [szL] at hsz
        omega
    subst hks
    have hd : d = (G.body p).length := by
      have := congrArg List.length hβ
      simp at this
      omega
    subst hd
    exact ⟨ps, [], s, rest, [], .refl ps, rfl, by simpa using hst, hst, hm, by simp, rfl,
      by simp [evalL], by simpa [PT.yieldL] using hnt, by simpa [PT.yieldL] using hnx⟩
  | succ n ih =>
    intro ks hsz hwf p d a hp hβ hdl ps s rest m postP hst hm hnt hnx hw ha
    rcases ks with _ | ⟨k, ks⟩
    · exact ih [] (by simp [szL]) hwf p d a hp hβ hdl ps s rest m postP hst hm hnt hnx hw ha
    · simp only [PT.wfL] at hwf
      simp only [List.map_cons] at hβ
      obtain ⟨hX, hβ', hd'⟩ := drop_eq_cons hβ
      rcases k with ⟨i, t⟩ | ⟨q, kids⟩
      · -- a leaf: shift
        simp only [PT.sym] at hX
        simp only [PT.yieldL, PT.yield, List.cons_append, List.nil_append] at hw
        obtain ⟨rfl, hsc, hw1⟩ := drop_toks_cons hw
        obtain ⟨s1, hact, hm1⟩ := F.kT s p d a t hm hX
        have hla : ps.next.2 = t := by rw [hnx, hsc]
        have hstep : step cfg w ps = doAct cfg w (.shift s1) ps :=
          step_act hst (by rw [hla]; exact hact) (by rw [hla]; exact F.actLt _ _ _ hact)
        obtain ⟨ps', ss, s', rest', xs, h1, h2, h3, h4, h5, h6, h6', h6'', h7, h8⟩ :=
          ih ks (by simp only [szL, sz] at hsz; omega) hwf.2 p (d + 1) a hp hβ' hd'
            { ps with states := s1 :: ps.states, attrs := Attr.tok ps.next.1 ps.next.2 :: ps.attrs,
                      next := scanTok w ps.ntok, ntok := ps.ntok + 1 }
            s1 (s :: rest) (i + 1) postP (by simp [hst]) hm1 (by simp [hnt])
            (by simp [hnt]) hw1 ha
        refine ⟨ps', ss ++ [s1], s', rest', Attr.tok i t :: xs, .head hstep h1, by simp [h2],
          by simp [h3], h4, h5, ?_, by simp [h6'], ?_, ?_, ?_⟩
        · rw [h6]
          simp only [hnx, hsc, List.reverse_cons, List.append_assoc, List.cons_append,
            List.nil_append]
        · simp only [evalL, evalT]
          simp only [] at h6''
          rw [h6'']
        · rw [h7]; simp [PT.yieldL, PT.yield]; omega
        · rw [h8]; congr 1; simp [PT.yieldL, PT.yield]; omega
      · -- a node: run its kids, reduce, goto
        obtain ⟨⟨hq, hkb, hkw⟩, hwf'⟩ := hwf
        simp only [PT.sym] at hX
        simp only [PT.yieldL, PT.yield, List.append_assoc] at hw
        -- the look-ahead of the inner item
        have hdv := PT.derivesL G ks hwf'
        have hb' : (((PT.yieldL ks ++ postP).map (·.2))).head?.getD 1 ∈
            firstOfSeq fc ((G.body p).drop (d + 1)) a := by
          rw [hβ', ← ha, List.map_append]
          exact mem_firstOfSeq_of_derives hf hdv _
        have hmq := F.kC s p d a _ hm hX q hq rfl _ hb'
        obtain ⟨ps1, ss1, s1, rest1, xs1, a1, a2, a3, a4, a5, a6, a6', a6'', a7, a8⟩ :=
          ih kids (by simp only [szL, sz] at hsz; omega) hkw q 0 _ hq (by simpa using hkb.symm)
            (Nat.zero_le _) ps s rest m (PT.yieldL ks ++ postP) hst hmq hnt hnx hw rfl
        -- reduce by `q`
        have hq0 : q ≠ 0 := by
          intro h0
          apply F.noStart p hp
          rw [← h0]
          exact List.mem_of_getElem? hX
        have hw2 : (toks w).drop (m + (PT.yieldL kids).length) = PT.yieldL ks ++ postP := by
          rw [← List.drop_drop, hw]; simp
        have hact := F.kR s1 q _ a5
        rw [if_neg hq0] at hact
        have hla : ps1.next.2 = ((PT.yieldL ks ++ postP).map (·.2)).head?.getD 1 := by
          rw [a8, scanTok_snd, ← drop_map_snd_toks, hw2]
        have hstep : step cfg w ps1 = doAct cfg w (.reduce q) ps1 :=
          step_act a4 (by rw [hla]; exact hact) (by rw [hla]; exact F.actLt _ _ _ hact)
        obtain ⟨g, hg, hg0, hmg⟩ := F.kN s p d a _ hm hX
        have hlen : kids.length = (G.body q).length := by
          rw [← hkb]; simp
        obtain ⟨ps2, aq, b1, b2, b3, b4, b5, b6⟩ :=
          doAct_reduce_eval hA w (F.prodLen q hq) (F.prodNT q hq) a3 (by rw [a2, hlen]) a6
            (by rw [a6', hlen]) hg hg0
        rw [b1] at hstep
        have hevq := b6 kids ps.log a6''
        obtain ⟨ps3, ss3, s3, rest3, xs3, c1, c2, c3, c4, c5, c6, c6', c6'', c7, c8⟩ :=
          ih ks (by simp only [szL, sz] at hsz; omega) hwf' p (d + 1) a hp hβ' hd' ps2 g.toNat
            (s :: rest) (m + (PT.yieldL kids).length) postP b2 hmg
            (by rw [b5, a7]) (by rw [b4, a8]) hw2 ha
        refine ⟨ps3, ss3 ++ [g.toNat], s3, rest3, aq :: xs3, a1.trans (.head hstep c1),
          by simp [c2], by simp [c3], c4, c5, ?_, by simp [c6'], ?_, ?_, ?_⟩
        · rw [c6, b3]; simp
        · simp only [evalL, hevq, c6'']
        · rw [c7]; simp [PT.yieldL, PT.yield]; omega
        · rw [c8]; congr 1; simp [PT.yieldL, PT.yield]; omega

/-- (completeness along a tree) the parser accepts, and its result and call log are the
    evaluation of the given tree -/
theorem parse_follows_tree {G : NGrammar} {T : PTables} {fc : FirstCert} {c : CertLA}
    (hf : firstOk G fc = true) (hc : complete G T fc c = true) {cfg : PCfg} (hA : ActsOk cfg)
    (hT : cfg.T = T) {w : List Nat} {t : PT} (hwf : t.wf G) (hroot : G.body 0 = [t.sym G])
    (hy : t.yield = (List.range w.length).zip w) (old : PState) :
    ∃ fuel res ps, parse cfg w fuel old = (Outcome.accept res, ps) ∧
      evalT cfg.T.prodKind t [] = some (res, ps.log) := by
  have F := completeFacts_of hc
  have hp0 : 0 < G.prods.size := by
    by_cases h : 0 < G.prods.size
    · exact h
    · have : G.prods[0]? = none := Array.getElem?_eq_none (by omega)
      simp [NGrammar.body, this] at hroot
  obtain ⟨ps', ss, s', rest', xs, h1, h2, h3, h4, h5, h6, h6', h6'', -, h8⟩ :=
    run_kids F hf hA hT w (szL [t]) [t] (Nat.le_refl _) (by simp [PT.wfL, hwf]) 0 0 1 hp0
      (by simpa using hroot) (Nat.zero_le _)
      { states := [0], attrs := [.nil], next := scanTok w 0, ntok := 1, log := [], calls := 0 }
      0 [] 0 [] rfl F.k0 rfl rfl (by simp [PT.yieldL, hy, toks]) rfl
  subst hT
  have hlen1 : (G.body 0).length = 1 := by rw [hroot]; rfl
  rw [hlen1] at h5
  have hact := (F.kR s' 0 1 (by rw [hlen1]; exact h5)).2
  have hyl : (PT.yieldL [t]).length = w.length := by simp [PT.yieldL, hy]
  have hla : ps'.next.2 = 1 := by rw [h8, scanTok_snd, hyl]; simp
  have hstep : step cfg w ps' = doAct cfg w .accept ps' :=
    step_act h4 (by rw [hla]; exact hact) (by rw [hla]; exact F.actLt _ _ _ hact)
  obtain ⟨r, rfl⟩ : ∃ r, xs = [r] := by
    rcases xs with _ | ⟨r, _ | ⟨r', xs⟩⟩
    · simp at h6'
    · exact ⟨r, rfl⟩
    · simp at h6'
  simp only [List.reverse_cons, List.reverse_nil, List.nil_append, List.cons_append] at h6
  simp only [evalL] at h6''
  have hev : evalT cfg.T.prodKind t [] = some (r, ps'.log) := by
    rcases he : evalT cfg.T.prodKind t [] with _ | ⟨a, l⟩
    · rw [he] at h6''; cases h6''
    · rw [he] at h6''
      simp only [Option.some.injEq, Prod.mk.injEq, List.cons.injEq, and_true] at h6''
      rw [h6''.1, h6''.2]
  obtain ⟨n, hn⟩ := h1.parseLoop
  refine ⟨n + 1, r, { ps' with states := ps'.states.drop 1, attrs := [.nil] }, ?_, hev⟩
  unfold parse
  rw [hn 1, parseLoop_succ, hstep]
  simp only [doAct, h6, StepR.run]

end Gocc.Unambig
