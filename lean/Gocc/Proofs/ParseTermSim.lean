import Gocc.Proofs.ParseTermRV
/-
Simulation: the control flow of the parser without recovery (whose semantic actions never fail)
depends only on the stack of states, the TYPE of the look-ahead and the types of the tokens still
to come.  Two configurations with the same stack and the same token types ahead — on different
inputs, with different attributes, token indices, call logs — make the same moves (`step_sim_cont`),
stop together (`step_sim_done`), hence run in lock-step to the end (`sim_run`).
-/
namespace Gocc.ParseTerm
open Gocc

/-- same stack of states, same token types from the look-ahead on; both attribute stacks are as
    high as the state stacks -/
structure Sim (w wv : List Nat) (ps pv : PState) : Prop where
  st : ps.states = pv.states
  ty : ps.next.2 = pv.next.2
  la : ps.attrs.length = ps.states.length
  lv : pv.attrs.length = pv.states.length
  str : ∀ k, (scanTok w (ps.ntok + k)).2 = (scanTok wv (pv.ntok + k)).2

theorem step_sim_cont {G : NGrammar} {T : PTables} {fc : FirstCert} {c : CertLA} {fcv : FirstCert}
    (VF : ValidFacts G T c fcv) (F : CompleteFacts G T fc c)
    (hr : ∀ s : Nat, T.canRecover[s]?.getD false = false) {cfg : PCfg} (hA : ActsOk cfg)
    (hT : cfg.T = T) {w wv : List Nat} {ps pv pv1 : PState} {γ : List Sym}
    (hS : VStk T pv.states γ) (h : Sim w wv ps pv) (hs : step cfg wv pv = .cont pv1) :
    ∃ ps1, step cfg w ps = .cont ps1 ∧ Sim w wv ps1 pv1 ∧
      ps1.ntok + pv.ntok = pv1.ntok + ps.ntok := by
  subst hT
  obtain ⟨top, rest, a, hst, hlt, ha, hdo⟩ := step_cont_inv hr hs
  have hst' : ps.states = top :: rest := by rw [h.st, hst]
  have hstep : step cfg w ps = doAct cfg w a ps :=
    step_act hst' (by rw [h.ty]; exact ha) (by rw [h.ty]; exact hlt)
  cases a with
  | accept => simp only [doAct] at hdo; split at hdo <;> cases hdo
  | shift s =>
    simp only [doAct, StepR.cont.injEq] at hdo
    subst hdo
    refine ⟨_, hstep, ⟨by simp [h.st], ?_, by simp [h.la], by simp [h.lv], fun k => ?_⟩, by
      simp only; omega⟩
    · have := h.str 0
      simpa using this
    · have := h.str (k + 1)
      simp only
      rw [show ps.ntok + 1 + k = ps.ntok + (k + 1) by omega,
        show pv.ntok + 1 + k = pv.ntok + (k + 1) by omega]
      exact this
  | reduce p =>
    rw [hst] at hS
    have hp : p < G.prods.size :=
      (hS.valid VF p _ _ (by simpa using VF.reduceJ top _ p ha)).1
    obtain ⟨hn, t', rest', g, hd, hg, hg0, -, -, -, -⟩ := doAct_reduce_inv hdo
    rw [F.prodLen p hp, F.prodNT p hp] at *
    simp only [Option.getD_some] at hn hd hg
    have hdec : pv.states = pv.states.take (G.body p).length ++ t' :: rest' := by
      rw [← hd, List.take_append_drop]
    have hlen : (pv.states.take (G.body p).length).length = (G.body p).length := by
      rw [List.length_take]; omega
    obtain ⟨pv', c1, c2, c3, c4, c5⟩ :=
      doAct_reduce hA wv (F.prodLen p hp) (F.prodNT p hp) hdec hlen h.lv hg hg0
    rw [hdo] at c1
    cases c1
    obtain ⟨ps1, e1, e2, e3, e4, e5⟩ :=
      doAct_reduce hA w (F.prodLen p hp) (F.prodNT p hp) (ps := ps) (by rw [h.st]; exact hdec)
        hlen h.la hg hg0
    exact ⟨ps1, by rw [hstep, e1],
      ⟨by rw [e2, c2], by rw [e4, c4]; exact h.ty, e3, c3, fun k => by rw [e5, c5]; exact h.str k⟩,
      by omega⟩

theorem step_sim_done {G : NGrammar} {T : PTables} {fc : FirstCert} {c : CertLA} {fcv : FirstCert}
    (VF : ValidFacts G T c fcv) (F : CompleteFacts G T fc c)
    (hr : ∀ s : Nat, T.canRecover[s]?.getD false = false) {cfg : PCfg} (hA : ActsOk cfg)
    (hT : cfg.T = T) {w wv : List Nat} {ps pv pv' : PState} {ov : Outcome} {γ : List Sym}
    (hS : VStk T pv.states γ) (h : Sim w wv ps pv) (hs : step cfg wv pv = .done ov pv') :
    ∃ o ps', step cfg w ps = .done o ps' ∧
      ((∃ i t e s, o = Outcome.synErr i t e s) →
        ∃ top rest, pv.states = top :: rest ∧ cfg.T.act top pv.next.2 = none) := by
  subst hT
  obtain ⟨top, rest, hst⟩ := VStk.ne_nil hS
  have hst' : ps.states = top :: rest := by rw [h.st, hst]
  by_cases hlt : pv.next.2 < cfg.T.numSymbols
  · rcases ha : cfg.T.act top pv.next.2 with _ | a
    · exact ⟨_, _, step_noact hr w hst' (by rw [h.ty]; exact hlt) (by rw [h.ty]; exact ha),
        fun _ => ⟨top, rest, hst, ha⟩⟩
    · have hstep : step cfg w ps = doAct cfg w a ps :=
        step_act hst' (by rw [h.ty]; exact ha) (by rw [h.ty]; exact hlt)
      rw [step_act hst ha hlt] at hs
      rcases hd : doAct cfg w a ps with ⟨o, ps'⟩ | ps1
      · refine ⟨o, ps', by rw [hstep, hd], ?_⟩
        rintro ⟨i, t, e, s, rfl⟩
        exact absurd hd (doAct_not_synErr cfg w a ps _ _ _ _ _)
      · exfalso
        cases a with
        | accept => simp only [doAct] at hd; split at hd <;> cases hd
        | shift s => simp [doAct] at hs
        | reduce p =>
          rw [hst] at hS
          have hp : p < G.prods.size :=
            (hS.valid VF p _ _ (by simpa using VF.reduceJ top _ p ha)).1
          obtain ⟨hn, t', rest', g, hdr, hg, hg0, -, -, -, -⟩ := doAct_reduce_inv hd
          rw [F.prodLen p hp, F.prodNT p hp] at *
          simp only [Option.getD_some] at hn hdr hg
          rw [h.st] at hn hdr
          have hdec : pv.states = pv.states.take (G.body p).length ++ t' :: rest' := by
            rw [← hdr, List.take_append_drop]
          have hlen : (pv.states.take (G.body p).length).length = (G.body p).length := by
            rw [List.length_take]; omega
          obtain ⟨pv1, c1, -⟩ :=
            doAct_reduce hA wv (F.prodLen p hp) (F.prodNT p hp) hdec hlen h.lv hg hg0
          rw [c1] at hs
          cases hs
  · refine ⟨.panic "index out of range (token type)", ps, ?_, ?_⟩
    · unfold step
      rw [hst']
      simp only []
      rw [if_pos (by rw [h.ty]; omega)]
    · rintro ⟨i, t, e, s, h'⟩
      cases h'

/-- lock-step to the end: the run from `pv` on `wv` ends, so does the run from `ps` on `w`; when
    the latter ends in a syntax error the former is stuck as well -/
theorem sim_run {G : NGrammar} {T : PTables} {fc : FirstCert} {c : CertLA} {fcv : FirstCert}
    (VF : ValidFacts G T c fcv) (F : CompleteFacts G T fc c)
    (hr : ∀ s : Nat, T.canRecover[s]?.getD false = false) {cfg : PCfg} (hA : ActsOk cfg)
    (hT : cfg.T = T) {w wv : List Nat} :
    ∀ (fuel : Nat) (ps pv : PState), Sim w wv ps pv → Steps cfg wv (initPS wv) pv →
      (parseLoop cfg wv fuel pv).1 ≠ .outOfFuel →
      ∃ b bv o ps', Steps cfg w ps b ∧ Steps cfg wv pv bv ∧ Sim w wv b bv ∧
        b.ntok + pv.ntok = bv.ntok + ps.ntok ∧ step cfg w b = .done o ps' ∧
        ((∃ i t e s, o = Outcome.synErr i t e s) →
          ∃ top rest, bv.states = top :: rest ∧ cfg.T.act top bv.next.2 = none) := by
  intro fuel
  induction fuel with
  | zero => intro ps pv _ _ h; exact absurd rfl h
  | succ fuel ih =>
    intro ps pv hsim hrun hne
    obtain ⟨γ, m, hS, -⟩ := hrun.vinv VF F hr hT (vinv_init VF wv)
    rw [parseLoop_succ] at hne
    rcases hs : step cfg wv pv with ⟨ov, pv'⟩ | pv1
    · obtain ⟨o, ps', h1, h2⟩ := step_sim_done VF F hr hA hT hS hsim hs
      exact ⟨ps, pv, o, ps', .refl _, .refl _, hsim, Nat.add_comm _ _, h1, h2⟩
    · rw [hs] at hne
      obtain ⟨ps1, h1, h2, h3⟩ := step_sim_cont VF F hr hA hT hS hsim hs
      obtain ⟨b, bv, o, ps', q1, q2, q3, q4, q5, q6⟩ :=
        ih ps1 pv1 h2 (hrun.trans (.single hs)) hne
      exact ⟨b, bv, o, ps', .head h1 q1, .head hs q2, q3, by omega, q5, q6⟩

end Gocc.ParseTerm
