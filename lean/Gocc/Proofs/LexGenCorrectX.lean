import Gocc.Proofs.LexGenCorrectBase
/-
C01 (generator level), part 2: the reference ε-closure `xClosure` on single-frame positions.

Without references every position reachable from `xStart` is a single frame `[i]`, and
`xClosureLoop` is the same work list as `emovesLoop` (other order, shared visited set, several
start items).  Result (`mem_xClosure_iff`): for start positions `[s]` with `s` a dotted position of
its production tree (`Pos`) and few enough of them (`≤ C.fuel`, always true for the lists that occur)
    x ∈ xClosure C xs ↔ ∃ s y, [s] ∈ xs ∧ x = [y] ∧ EReach C s y ∧ C.isBasic y
i.e. the fuel `xFuel C` is never exhausted.
-/
namespace Gocc
namespace LexGenC

open EmovesU

/-! ### dotted positions of the production trees -/

/-- `y` is a dotted position of the pattern tree of its production -/
def Pos (C : LexCtx) (y : LItem) : Prop :=
  ∃ P, C.prods[y.prod]? = some P ∧ GoodPath (.pat P.pat) y.path

theorem pos_start {C : LexCtx} {k : Nat} {P : LProd} (h : C.prods[k]? = some P) : Pos C ⟨k, [0]⟩ :=
  ⟨P, h, [], 0, .pat P.pat, rfl, rfl, Nat.zero_le _⟩

theorem pos_top {C : LexCtx} {y : LItem} {n : LNode} {pos : Nat} (h : C.top y = some (n, pos)) :
    ∃ P q, C.prods[y.prod]? = some P ∧ y.path = q ++ [pos] ∧ node (.pat P.pat) q = some n := by
  unfold LexCtx.top at h
  cases hP : C.prods[y.prod]? with
  | none => rw [hP] at h; simp at h
  | some P =>
    rw [hP] at h
    simp only [Option.bind_some] at h
    obtain ⟨q, h1, h2⟩ := walk_some h
    exact ⟨P, q, rfl, h1, h2⟩

/-- the ε-step stays inside the positions -/
theorem pos_step {C : LexCtx} {x : LItem} (hnb : C.isBasic x = false) :
    ∀ y ∈ emoveStep C x, Pos C y := by
  intro y hy
  cases htop : C.top x with
  | none => rw [step_nil_of_top_none htop] at hy; cases hy
  | some np =>
    obtain ⟨n, pos⟩ := np
    obtain ⟨P, q, hP, hpath, hn⟩ := pos_top htop
    cases x with
    | mk k l =>
      simp only at hP hpath
      subst hpath
      obtain ⟨h1, h2⟩ := step_good hP hn hnb y hy
      exact ⟨P, by rw [h1]; exact hP, h2⟩

/-- moving the dot over a terminal stays inside the positions -/
theorem pos_advance {C : LexCtx} {i : LItem} {t : LTerm} (h : C.expected i = some t) :
    Pos C { i with path := incLast i.path } := by
  unfold LexCtx.expected at h
  cases htop : C.top i with
  | none => rw [htop] at h; cases h
  | some np =>
    obtain ⟨n, pos⟩ := np
    rw [htop] at h
    dsimp only at h
    obtain ⟨P, q, hP, hpath, hn⟩ := pos_top htop
    refine ⟨P, hP, q, pos + 1, n, by simp [hpath], hn, ?_⟩
    cases n with
    | alt a =>
      simp only [LNode.termAt] at h
      simp only [LNode.len]
      cases ht : a.terms[pos]? with
      | none => rw [ht] at h; simp at h
      | some t' => have := (List.getElem?_eq_some_iff.1 ht).1; omega
    | pat p | grp p | opt p | rep p => simp [LNode.termAt] at h

theorem EReach_pos {C : LexCtx} {s y : LItem} (hs : Pos C s) (h : EReach C s y) : Pos C y := by
  induction h with
  | refl => exact hs
  | step _ hnb hstep _ => exact pos_step hnb _ hstep

/-- all dotted positions of all productions, production by production -/
def allPosFrom (k : Nat) : List LProd → List LItem
  | [] => []
  | P :: rest => (enumPat [] P.pat).map (fun p => ⟨k, p⟩) ++ allPosFrom (k + 1) rest

def allPos (C : LexCtx) : List LItem := allPosFrom 0 C.prods.toList

theorem mem_allPosFrom : ∀ (l : List LProd) (k j : Nat) (P : LProd) (p : List Nat),
    l[j]? = some P → p ∈ enumPat [] P.pat → (⟨k + j, p⟩ : LItem) ∈ allPosFrom k l
  | [], k, j, P, p, h, _ => by simp at h
  | Q :: rest, k, 0, P, p, h, hp => by
    simp only [List.getElem?_cons_zero, Option.some.injEq] at h
    subst h
    exact List.mem_append_left _ (List.mem_map.2 ⟨p, hp, rfl⟩)
  | Q :: rest, k, j + 1, P, p, h, hp => by
    simp only [List.getElem?_cons_succ] at h
    have := mem_allPosFrom rest (k + 1) j P p h hp
    have e : k + 1 + j = k + (j + 1) := by omega
    rw [e] at this
    exact List.mem_append_right _ this

theorem pos_mem_allPos {C : LexCtx} {y : LItem} (h : Pos C y) : y ∈ allPos C := by
  obtain ⟨P, hP, hg⟩ := h
  have hl : C.prods.toList[y.prod]? = some P := by simpa using hP
  have := mem_allPosFrom C.prods.toList 0 y.prod P y.path hl (goodPath_mem_enum hg)
  simpa [allPos] using this

theorem allPosFrom_length : ∀ (l : List LProd) (k : Nat),
    (allPosFrom k l).length + l.length ≤ (l.map fun p => 4 * p.pat.size + 4).sum
  | [], k => by simp [allPosFrom]
  | P :: rest, k => by
    have h1 := allPosFrom_length rest (k + 1)
    have h2 := enumPat_length [] P.pat
    simp only [allPosFrom, List.length_append, List.length_map, List.length_cons, List.map_cons,
      List.sum_cons]
    omega

/-- the positions and the productions are counted by `C.fuel` -/
theorem allPos_length (C : LexCtx) : (allPos C).length + C.prods.size + 8 ≤ C.fuel := by
  have := allPosFrom_length C.prods.toList 0
  unfold allPos LexCtx.fuel
  simp only [Array.length_toList] at this
  omega

/-- out-degree of the ε-step -/
theorem step_deg {C : LexCtx} {x : LItem} (hnb : C.isBasic x = false) :
    (emoveStep C x).length ≤ C.fuel := by
  cases htop : C.top x with
  | none => rw [step_nil_of_top_none htop]; simp
  | some np =>
    obtain ⟨n, pos⟩ := np
    obtain ⟨P, q, hP, _, _⟩ := pos_top htop
    have h1 := (step_in_univ hP x rfl hnb).2
    have h2 := fuel_ge hP
    omega

/-! ### the work list of `xClosureLoop` on single frames -/

theorem sing_inj {a b : LItem} (h : ([a] : XPos) = [b]) : a = b := by
  simpa using h

/-- one iteration on a single non-visited frame `[i]` -/
theorem xLoop_step {C : LexCtx} (hC : NoRefC C) (fuel : Nat) (i : LItem) (work visited out : List XPos)
    (hv : visited.contains [i] = false) :
    xClosureLoop C (fuel + 1) ([i] :: work) visited out =
      if C.isBasic i = true then xClosureLoop C fuel work ([i] :: visited) (out ++ [[i]])
      else xClosureLoop C fuel ((emoveStep C i).map (fun y => [y]) ++ work) ([i] :: visited) out := by
  rw [xClosureLoop]
  rw [if_neg (by rw [hv]; exact Bool.false_ne_true)]
  cases hr : C.isReduce i with
  | true =>
    simp only [if_true, LexCtx.isBasic, hr, Bool.true_or]
  | false =>
    simp only [Bool.false_eq_true, if_false, LexCtx.isBasic, hr, Bool.false_or]
    cases he : C.expected i with
    | none => simp
    | some t =>
      cases t with
      | ref r => exact absurd he (expected_ne_ref hC i r)
      | _ => simp

structure XInv (C : LexCtx) (work visited out : List XPos) : Prop where
  vnodup : visited.Nodup
  vsub : ∀ x ∈ visited, ∃ i, x = [i] ∧ Pos C i
  wsub : ∀ x ∈ work, ∃ i, x = [i] ∧ Pos C i
  succ : ∀ i, [i] ∈ visited → C.isBasic i = false → ∀ y ∈ emoveStep C i, [y] ∈ visited ∨ [y] ∈ work
  basic : ∀ i, [i] ∈ visited → C.isBasic i = true → [i] ∈ out

def xPot (C : LexCtx) (work visited : List XPos) : Nat :=
  work.length + ((allPos C).length - visited.length) * (C.fuel + 1)

theorem visited_length_le {C : LexCtx} {visited : List XPos} (hn : visited.Nodup)
    (hs : ∀ x ∈ visited, ∃ i, x = [i] ∧ Pos C i) : visited.length ≤ (allPos C).length := by
  have hsub : ∀ x ∈ visited, x ∈ (allPos C).map (fun y => [y]) := by
    intro x hx
    obtain ⟨i, rfl, hi⟩ := hs x hx
    exact List.mem_map.2 ⟨i, pos_mem_allPos hi, rfl⟩
  have := List.Nodup.length_le_of_subset hn (fun x hx => hsub x hx)
  simpa using this

theorem xLoop_spec {C : LexCtx} (hC : NoRefC C) :
    ∀ (fuel : Nat) (work visited out : List XPos), XInv C work visited out →
      xPot C work visited ≤ fuel →
      ∃ V : List LItem, (∀ i, [i] ∈ work → i ∈ V) ∧ (∀ i, [i] ∈ visited → i ∈ V) ∧
        (∀ x ∈ V, C.isBasic x = false → ∀ y ∈ emoveStep C x, y ∈ V) ∧
        (∀ x ∈ V, C.isBasic x = true → [x] ∈ xClosureLoop C fuel work visited out) := by
  have hdone : ∀ (fuel : Nat) (visited out : List XPos), XInv C [] visited out →
      xClosureLoop C fuel [] visited out = out →
      ∃ V : List LItem, (∀ i, [i] ∈ ([] : List XPos) → i ∈ V) ∧ (∀ i, [i] ∈ visited → i ∈ V) ∧
        (∀ x ∈ V, C.isBasic x = false → ∀ y ∈ emoveStep C x, y ∈ V) ∧
        (∀ x ∈ V, C.isBasic x = true → [x] ∈ xClosureLoop C fuel [] visited out) := by
    intro fuel visited out h heq
    refine ⟨visited.filterMap (fun x => x.head?), by simp, ?_, ?_, ?_⟩
    · intro i hi
      exact List.mem_filterMap.2 ⟨[i], hi, rfl⟩
    · intro x hx hb y hy
      obtain ⟨x', hx', hh⟩ := List.mem_filterMap.1 hx
      obtain ⟨i, rfl, _⟩ := h.vsub x' hx'
      simp only [List.head?_cons, Option.some.injEq] at hh
      subst hh
      rcases h.succ i hx' hb y hy with h' | h'
      · exact List.mem_filterMap.2 ⟨[y], h', rfl⟩
      · cases h'
    · intro x hx hb
      obtain ⟨x', hx', hh⟩ := List.mem_filterMap.1 hx
      obtain ⟨i, rfl, _⟩ := h.vsub x' hx'
      simp only [List.head?_cons, Option.some.injEq] at hh
      subst hh
      rw [heq]; exact h.basic i hx' hb
  intro fuel
  induction fuel with
  | zero =>
    intro work visited out h hp
    have : work = [] := by
      unfold xPot at hp
      exact List.eq_nil_of_length_eq_zero (by omega)
    subst this
    exact hdone 0 visited out h (by simp only [xClosureLoop])
  | succ fuel ih =>
    intro work visited out h hp
    cases work with
    | nil => exact hdone (fuel + 1) visited out h (by simp only [xClosureLoop])
    | cons x work =>
      obtain ⟨i, rfl, hiP⟩ := h.wsub x List.mem_cons_self
      by_cases hv : visited.contains [i] = true
      · have hiv : [i] ∈ visited := by simpa using hv
        rw [xClosureLoop, if_pos hv]
        have hinv : XInv C work visited out := by
          refine ⟨h.vnodup, h.vsub, fun x hx => h.wsub x (List.mem_cons_of_mem _ hx), ?_, h.basic⟩
          intro j hj hb y hy
          rcases h.succ j hj hb y hy with h' | h'
          · exact Or.inl h'
          · rcases List.mem_cons.1 h' with h'' | h''
            · rw [h'']; exact Or.inl hiv
            · exact Or.inr h''
        obtain ⟨V, v1, v2, v3, v4⟩ := ih work visited out hinv (by
          unfold xPot at hp ⊢; simp only [List.length_cons] at hp; omega)
        refine ⟨V, ?_, v2, v3, v4⟩
        intro j hj
        rcases List.mem_cons.1 hj with hj | hj
        · rw [sing_inj hj]; exact v2 _ hiv
        · exact v1 j hj
      · have hv' : visited.contains [i] = false := by simpa using hv
        have hiv : [i] ∉ visited := by simpa using hv
        have hnd : (([i] : XPos) :: visited).Nodup := List.nodup_cons.2 ⟨hiv, h.vnodup⟩
        have hsub : ∀ x ∈ ([i] : XPos) :: visited, ∃ j, x = [j] ∧ Pos C j := by
          intro x hx
          rcases List.mem_cons.1 hx with rfl | hx
          · exact ⟨i, rfl, hiP⟩
          · exact h.vsub x hx
        have hlen : visited.length + 1 ≤ (allPos C).length := by
          have := visited_length_le hnd hsub
          simpa using this
        have hsplit : ((allPos C).length - visited.length) * (C.fuel + 1) =
            ((allPos C).length - (visited.length + 1)) * (C.fuel + 1) + (C.fuel + 1) := by
          have : (allPos C).length - visited.length =
              ((allPos C).length - (visited.length + 1)) + 1 := by omega
          rw [this, Nat.succ_mul]
        rw [xLoop_step hC fuel i work visited out hv']
        by_cases hb : C.isBasic i = true
        · rw [if_pos hb]
          have hinv : XInv C work ([i] :: visited) (out ++ [[i]]) := by
            refine ⟨hnd, hsub, fun x hx => h.wsub x (List.mem_cons_of_mem _ hx), ?_, ?_⟩
            · intro j hj hbj y hy
              rcases List.mem_cons.1 hj with hj | hj
              · rw [sing_inj hj, hb] at hbj; cases hbj
              · rcases h.succ j hj hbj y hy with h' | h'
                · exact Or.inl (List.mem_cons_of_mem _ h')
                · rcases List.mem_cons.1 h' with h'' | h''
                  · rw [h'']; exact Or.inl List.mem_cons_self
                  · exact Or.inr h''
            · intro j hj hbj
              rcases List.mem_cons.1 hj with hj | hj
              · rw [hj]; simp
              · exact List.mem_append_left _ (h.basic j hj hbj)
          obtain ⟨V, v1, v2, v3, v4⟩ := ih work ([i] :: visited) (out ++ [[i]]) hinv (by
            unfold xPot at hp ⊢; simp only [List.length_cons] at hp ⊢; omega)
          refine ⟨V, ?_, fun j hj => v2 j (List.mem_cons_of_mem _ hj), v3, v4⟩
          intro j hj
          rcases List.mem_cons.1 hj with hj | hj
          · rw [sing_inj hj]; exact v2 _ List.mem_cons_self
          · exact v1 j hj
        · have hb' : C.isBasic i = false := by simpa using hb
          rw [if_neg hb]
          have hinv : XInv C ((emoveStep C i).map (fun y => [y]) ++ work) ([i] :: visited) out := by
            refine ⟨hnd, hsub, ?_, ?_, ?_⟩
            · intro x hx
              rcases List.mem_append.1 hx with hx | hx
              · obtain ⟨y, hy, rfl⟩ := List.mem_map.1 hx
                exact ⟨y, rfl, pos_step hb' y hy⟩
              · exact h.wsub x (List.mem_cons_of_mem _ hx)
            · intro j hj hbj y hy
              rcases List.mem_cons.1 hj with hj | hj
              · rw [sing_inj hj] at hy
                exact Or.inr (List.mem_append_left _ (List.mem_map.2 ⟨y, hy, rfl⟩))
              · rcases h.succ j hj hbj y hy with h' | h'
                · exact Or.inl (List.mem_cons_of_mem _ h')
                · rcases List.mem_cons.1 h' with h'' | h''
                  · rw [h'']; exact Or.inl List.mem_cons_self
                  · exact Or.inr (List.mem_append_right _ h'')
            · intro j hj hbj
              rcases List.mem_cons.1 hj with hj | hj
              · rw [sing_inj hj, hb'] at hbj; cases hbj
              · exact h.basic j hj hbj
          have hdeg := step_deg hb'
          obtain ⟨V, v1, v2, v3, v4⟩ := ih _ ([i] :: visited) out hinv (by
            unfold xPot at hp ⊢
            simp only [List.length_cons, List.length_append, List.length_map] at hp ⊢
            omega)
          refine ⟨V, ?_, fun j hj => v2 j (List.mem_cons_of_mem _ hj), v3, v4⟩
          intro j hj
          rcases List.mem_cons.1 hj with hj | hj
          · rw [sing_inj hj]; exact v2 _ List.mem_cons_self
          · exact v1 j (List.mem_append_right _ hj)

/-- soundness of the loop, for any fuel: only basic single frames ε-reachable from the work list -/
theorem xLoop_sound {C : LexCtx} (hC : NoRefC C) (S : LItem → Prop) :
    ∀ (fuel : Nat) (work visited out : List XPos),
      (∀ x ∈ work, ∃ i s, x = [i] ∧ S s ∧ EReach C s i) →
      (∀ x ∈ out, ∃ y s, x = [y] ∧ S s ∧ EReach C s y ∧ C.isBasic y = true) →
      ∀ x ∈ xClosureLoop C fuel work visited out,
        ∃ y s, x = [y] ∧ S s ∧ EReach C s y ∧ C.isBasic y = true := by
  intro fuel
  induction fuel with
  | zero => intro work visited out _ ho x hx; rw [xClosureLoop] at hx; exact ho x hx
  | succ fuel ih =>
    intro work visited out hw ho x hx
    cases work with
    | nil => rw [xClosureLoop] at hx; exact ho x hx
    | cons w work =>
      have hw' : ∀ x ∈ work, ∃ i s, x = [i] ∧ S s ∧ EReach C s i :=
        fun x hx => hw x (List.mem_cons_of_mem _ hx)
      obtain ⟨i, s, rfl, hs, hr⟩ := hw _ List.mem_cons_self
      by_cases hv : visited.contains [i] = true
      · rw [xClosureLoop, if_pos hv] at hx
        exact ih work visited out hw' ho x hx
      · have hv' : visited.contains [i] = false := by simpa using hv
        rw [xLoop_step hC fuel i work visited out hv'] at hx
        split at hx
        · rename_i hb
          refine ih work _ _ hw' ?_ x hx
          intro z hz
          rcases List.mem_append.1 hz with hz | hz
          · exact ho z hz
          · simp only [List.mem_singleton] at hz
            exact ⟨i, s, hz, hs, hr, hb⟩
        · rename_i hb
          refine ih _ _ out ?_ ho x hx
          intro z hz
          rcases List.mem_append.1 hz with hz | hz
          · obtain ⟨y, hy, rfl⟩ := List.mem_map.1 hz
            exact ⟨y, s, rfl, hs, EReach.step hr (by simpa using hb) hy⟩
          · exact hw' z hz

theorem xFuel_ok (C : LexCtx) (n : Nat) (hn : n ≤ C.fuel) :
    n + (allPos C).length * (C.fuel + 1) ≤ xFuel C := by
  have h1 := allPos_length C
  have h2 : (allPos C).length * (C.fuel + 1) ≤ C.fuel * (C.fuel + 1) :=
    Nat.mul_le_mul_right _ (by omega)
  have h3 : C.fuel * (C.fuel + 1) + (C.fuel + 1) = (C.fuel + 1) * (C.fuel + 1) := by
    rw [← Nat.succ_mul]
  have h4 : (C.fuel + 1) * (C.fuel + 1) ≤ (C.fuel + 2) * (C.fuel + 2) :=
    Nat.mul_le_mul (by omega) (by omega)
  have h5 : (C.fuel + 2) * (C.fuel + 2) * 1 ≤ (C.fuel + 2) * (C.fuel + 2) * (C.fuel + 2) :=
    Nat.mul_le_mul_left _ (by omega)
  have h6 : (C.fuel + 2) ^ 3 = (C.fuel + 2) * (C.fuel + 2) * (C.fuel + 2) := by
    rw [Nat.pow_succ, Nat.pow_succ, Nat.pow_one]
  unfold xFuel
  omega

/-- the reference ε-closure of single frames, exactly (the fuel `xFuel` is not exhausted) -/
theorem mem_xClosure_iff {C : LexCtx} (hC : NoRefC C) {xs : List XPos}
    (hxs : ∀ x ∈ xs, ∃ i, x = [i] ∧ Pos C i) (hlen : xs.length ≤ C.fuel) (x : XPos) :
    x ∈ xClosure C xs ↔ ∃ s y, [s] ∈ xs ∧ x = [y] ∧ EReach C s y ∧ C.isBasic y = true := by
  unfold xClosure
  rw [List.mem_eraseDups]
  constructor
  · intro hx
    obtain ⟨y, s, h1, h2, h3, h4⟩ := xLoop_sound hC (fun s => [s] ∈ xs) (xFuel C) xs [] []
      (by
        intro x hx
        obtain ⟨i, rfl, _⟩ := hxs x hx
        exact ⟨i, i, rfl, hx, .refl⟩)
      (by intro x hx; cases hx) x hx
    exact ⟨s, y, h2, h1, h3, h4⟩
  · rintro ⟨s, y, hs, rfl, hr, hb⟩
    obtain ⟨V, v1, _, v3, v4⟩ := xLoop_spec hC (xFuel C) xs [] []
      ⟨List.nodup_nil, (by intro x hx; cases hx), hxs, (by intro i hi; cases hi), (by intro i hi; cases hi)⟩
      (by
        have := xFuel_ok C xs.length hlen
        unfold xPot; simpa using this)
    have hV : ∀ z, EReach C s z → z ∈ V := by
      intro z hz
      induction hz with
      | refl => exact v1 s hs
      | step _ hnb hstep ih => exact v3 _ ih hnb _ hstep
    exact v4 y (hV y hr) hb

end LexGenC
end Gocc
