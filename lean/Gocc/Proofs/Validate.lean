import Gocc.Spec.Eval
import Gocc.Model.Validate
/-
The table validator `safe` is sound: stack invariant of the generated parser's `Parse` loop and
its preservation.

  §0  `step`: one iteration of `parseLoop` as a non-recursive function (`parseLoop_succ`)
  §1  error recovery never recovers when no state can recover (`recover_no_recovery`)
  §2  facts extracted from the validator (`SafeFacts`), supplementary check `safeEnds`
  §3  parse trees: derivations, evaluation of a list of kids
  §4  the stack invariant `Stk` / `Inv`, the item lemma, preservation by `step`
  §5  acceptance (`parseLoop_accept`, `parse_accept`, `Final.sentence`)
  §6  the call log: counters (`parseLoop_calls`), monotonicity (`parseLoop_mono`), lock-step of
      a failing and a failure-free run (`parseLoop_lockstep`)
  §7  helpers for concrete instances (inversion of `NDerives`, `noRecovery_of_all`)
  §8  validated tables report the failing call as an action error (`parseLoop_fail_actErr`)

`safe` alone does not imply soundness (counter-examples in Props/C02.lean); the missing checks are
`safeEnds` (§2).  All theorems about validated tables take `SafeFacts G T c`, obtained from
`safe G T c = true` and `safeEnds T c = true` by `safeFacts_of`.
-/
namespace Gocc

/-! ### §0 one iteration of the loop -/

inductive StepR where
  | done (o : Outcome) (ps : PState)
  | cont (ps : PState)

def lookupAct (T : PTables) (errTerm : Nat) (input : List Nat) (ps : PState) (top : Nat) :
    Except (Outcome × PState) (Act × PState) :=
  match T.act top ps.next.2 with
  | some a => .ok (a, ps)
  | none =>
    match recover T errTerm input ps with
    | .error why => .error (.panic why, ps)
    | .ok (false, errTok, ps') =>
      match ps'.states with
      | t' :: _ => .error (.synErr errTok.1 errTok.2 (T.rowExpected t') t', ps')
      | [] => .error (.panic "empty stack", ps')
    | .ok (true, _, ps') =>
      match ps'.states with
      | t' :: _ =>
        match T.act t' ps'.next.2 with
        | some a => .ok (a, ps')
        | none => .error (.panic "Error recovery led to invalid action", ps')
      | [] => .error (.panic "empty stack", ps')

def reduceRes (cfg : PCfg) (p : Nat) (X : List Attr) (ps : PState) : Except (Option String) (Attr × PState) :=
  match cfg.T.prodKind[p]?.getD .dflt with
  | .dflt => match X with
    | x :: _ => .ok (x, ps)
    | [] => .error (some "index out of range")
  | .nilEmpty => .ok (.nil, ps)
  | .user shape id =>
    let ps := { ps with log := id :: ps.log, calls := ps.calls + 1 }
    if cfg.failAt != 0 && ps.calls == cfg.failAt then .error none
    else match userAction shape id X with
      | .ok a => .ok (a, ps)
      | .error why => .error (some why)

def doAct (cfg : PCfg) (input : List Nat) (a : Act) (ps : PState) : StepR :=
  let T := cfg.T
  match a with
  | .accept =>
    match ps.attrs with
    | r :: rest => .done (.accept r) { ps with states := ps.states.drop 1, attrs := rest }
    | [] => .done (.panic "empty stack") ps
  | .shift s =>
    let nt := scanTok input ps.ntok
    .cont { ps with states := s :: ps.states, attrs := Attr.tok ps.next.1 ps.next.2 :: ps.attrs, next := nt, ntok := ps.ntok + 1 }
  | .reduce p =>
    let n := T.prodLen[p]?.getD 0
    if n > ps.states.length then .done (.panic "slice bounds out of range") ps else
    let X := (ps.attrs.take n).reverse
    let states := ps.states.drop n
    let attrs := ps.attrs.drop n
    match reduceRes cfg p X ps with
    | .error (some why) => .done (.panic why) ps
    | .error none =>
      let ps := { ps with states := states, attrs := attrs, log := (match T.prodKind[p]?.getD .dflt with | .user _ id => id :: ps.log | _ => ps.log), calls := ps.calls + 1 }
      match states with
      | t' :: _ =>
        let id := match T.prodKind[p]?.getD .dflt with | .user _ id => id | _ => 0
        .done (.actErr id ps.next.1 ps.next.2 (T.rowExpected t') t') ps
      | [] => .done (.panic "empty stack") ps
    | .ok (a, ps) =>
      match states with
      | t' :: _ =>
        let g := ((T.goto_[t']?).bind (·[T.prodNT[p]?.getD 0]?)).getD (-1)
        if g < 0 then .done (.panic "index out of range [-1]") ps
        else .cont { ps with states := g.toNat :: states, attrs := a :: attrs }
      | [] => .done (.panic "empty stack") ps

def step (cfg : PCfg) (input : List Nat) (ps : PState) : StepR :=
  match ps.states with
  | [] => .done (.panic "empty stack") ps
  | top :: _ =>
    if ps.next.2 ≥ cfg.T.numSymbols then .done (.panic "index out of range (token type)") ps else
    match lookupAct cfg.T cfg.errTerm input ps top with
    | .error o => .done o.1 o.2
    | .ok (a, ps) => doAct cfg input a ps

def StepR.run (k : PState → Outcome × PState) : StepR → Outcome × PState
  | .done o ps => (o, ps)
  | .cont ps => k ps

/-- the text of `parseLoop` after the action lookup, recursive calls replaced by `k` -/
def actK (cfg : PCfg) (input : List Nat) (k : PState → Outcome × PState) (a : Act) (ps : PState) :
    Outcome × PState :=
  let T := cfg.T
        match a with
        | .accept =>
          match ps.attrs with
          | r :: rest => (.accept r, { ps with states := ps.states.drop 1, attrs := rest })
          | [] => (.panic "empty stack", ps)
        | .shift s =>
          let nt := scanTok input ps.ntok
          k
            { ps with states := s :: ps.states, attrs := Attr.tok ps.next.1 ps.next.2 :: ps.attrs, next := nt, ntok := ps.ntok + 1 }
        | .reduce p =>
          let n := T.prodLen[p]?.getD 0
          if n > ps.states.length then (.panic "slice bounds out of range", ps) else
          let X := (ps.attrs.take n).reverse
          let states := ps.states.drop n
          let attrs := ps.attrs.drop n
          -- call the reduce function
          let res : Except (Option String) (Attr × PState) :=
            match T.prodKind[p]?.getD .dflt with
            | .dflt => match X with
              | x :: _ => .ok (x, ps)
              | [] => .error (some "index out of range")
            | .nilEmpty => .ok (.nil, ps)
            | .user shape id =>
              let ps := { ps with log := id :: ps.log, calls := ps.calls + 1 }
              if cfg.failAt != 0 && ps.calls == cfg.failAt then .error none
              else match userAction shape id X with
                | .ok a => .ok (a, ps)
                | .error why => .error (some why)
          match res with
          | .error (some why) => (.panic why, ps)
          | .error none =>
            let ps := { ps with states := states, attrs := attrs, log := (match T.prodKind[p]?.getD .dflt with | .user _ id => id :: ps.log | _ => ps.log), calls := ps.calls + 1 }
            match states with
            | t' :: _ =>
              let id := match T.prodKind[p]?.getD .dflt with | .user _ id => id | _ => 0
              (.actErr id ps.next.1 ps.next.2 (T.rowExpected t') t', ps)
            | [] => (.panic "empty stack", ps)
          | .ok (a, ps) =>
            match states with
            | t' :: _ =>
              let g := ((T.goto_[t']?).bind (·[T.prodNT[p]?.getD 0]?)).getD (-1)
              if g < 0 then (.panic "index out of range [-1]", ps)
              else k { ps with states := g.toNat :: states, attrs := a :: attrs }
            | [] => (.panic "empty stack", ps)

theorem actK_eq (cfg : PCfg) (input : List Nat) (k : PState → Outcome × PState) (a : Act) (ps : PState) :
    actK cfg input k a ps = (doAct cfg input a ps).run k := by
  cases a with
  | accept => simp only [actK, doAct]; rcases ps.attrs with _ | ⟨r, rest⟩ <;> rfl
  | shift s => rfl
  | reduce p =>
    simp only [actK, doAct, reduceRes]
    by_cases hlen : cfg.T.prodLen[p]?.getD 0 > ps.states.length
    · simp only [hlen, if_true]; rfl
    · simp only [hlen, if_false]
      rcases hk : cfg.T.prodKind[p]?.getD .dflt with _ | _ | ⟨shape, id⟩
      · simp only []
        rcases (List.take (cfg.T.prodLen[p]?.getD 0) ps.attrs).reverse with _ | ⟨x, _⟩
        · rfl
        · simp only []
          rcases List.drop (cfg.T.prodLen[p]?.getD 0) ps.states with _ | ⟨t', _⟩
          · rfl
          · simp only []; split <;> rfl
      · simp only []
        rcases List.drop (cfg.T.prodLen[p]?.getD 0) ps.states with _ | ⟨t', _⟩
        · rfl
        · simp only []; split <;> rfl
      · simp only []
        by_cases hf : (cfg.failAt != 0 && ps.calls + 1 == cfg.failAt) = true
        · rw [if_pos hf]; simp only []
          rcases List.drop (cfg.T.prodLen[p]?.getD 0) ps.states with _ | ⟨t', _⟩ <;> rfl
        · rw [if_neg hf]
          rcases userAction shape id (List.take (cfg.T.prodLen[p]?.getD 0) ps.attrs).reverse with why | a
          · rfl
          · simp only []
            rcases List.drop (cfg.T.prodLen[p]?.getD 0) ps.states with _ | ⟨t', _⟩
            · rfl
            · simp only []; split <;> rfl

theorem parseLoop_succ (cfg : PCfg) (input : List Nat) (fuel : Nat) (ps : PState) :
    parseLoop cfg input (fuel + 1) ps = (step cfg input ps).run (parseLoop cfg input fuel) := by
  simp only [parseLoop, step]
  rcases hst : ps.states with _ | ⟨top, rest⟩
  · rfl
  · by_cases hn : ps.next.2 ≥ cfg.T.numSymbols
    · simp only [hn, if_true]; rfl
    · simp only [hn, if_false, lookupAct]
      rcases hact : cfg.T.act top ps.next.2 with _ | a
      · simp only []
        rcases hrec : recover cfg.T cfg.errTerm input ps with why | ⟨_ | _, errTok, ps'⟩
        · rfl
        · simp only []
          rcases ps'.states with _ | ⟨t', _⟩ <;> rfl
        · simp only []
          rcases ps'.states with _ | ⟨t', _⟩
          · rfl
          · simp only []
            rcases cfg.T.act t' ps'.next.2 with _ | a
            · rfl
            · exact actK_eq cfg input _ a ps'
      · exact actK_eq cfg input _ a ps

/-! ### §1 error recovery without recovery states -/

/-- what `recover` leaves untouched -/
theorem recover_log {T : PTables} {e : Nat} {w : List Nat} {ps ps' : PState} {b : Bool} {tok : Nat × Nat}
    (h : recover T e w ps = .ok (b, tok, ps')) : ps'.log = ps.log ∧ ps'.calls = ps.calls := by
  unfold recover at h
  simp only [] at h
  repeat' split at h
  all_goals first
    | contradiction
    | (simp only [Except.ok.injEq, Prod.mk.injEq] at h; obtain ⟨-, -, rfl⟩ := h; exact ⟨rfl, rfl⟩)

/-- a grammar without error alternatives: `Error` pops nothing and reports "not recovered" -/
theorem recover_no_recovery {T : PTables} (hr : ∀ s : Nat, T.canRecover[s]?.getD false = false)
    (e : Nat) (w : List Nat) (ps : PState) :
    (∃ why, recover T e w ps = .error why) ∨ (∃ tok ps', recover T e w ps = .ok (false, tok, ps')) := by
  unfold recover
  simp only []
  split
  · exact .inl ⟨_, rfl⟩
  · simp only [hr, Bool.not_false, if_true]
    exact .inr ⟨_, _, rfl⟩


/-- the action lookup (with or without recovery) does not touch the call log and never ends the
    parse with `accept` or an action error -/
theorem lookupAct_log (T : PTables) (e : Nat) (w : List Nat) (ps : PState) (top : Nat) :
    match lookupAct T e w ps top with
    | .ok (_, ps') => ps'.log = ps.log ∧ ps'.calls = ps.calls
    | .error (o, ps') => ps'.log = ps.log ∧ ps'.calls = ps.calls ∧
        (∀ id i t ex s, o ≠ .actErr id i t ex s) ∧ ∀ r, o ≠ .accept r := by
  unfold lookupAct
  rcases T.act top ps.next.2 with _ | a
  · simp only []
    rcases hrec : recover T e w ps with why | ⟨_ | _, tok, ps'⟩
    · simp
    · have := recover_log hrec
      simp only []
      rcases ps'.states with _ | ⟨t', _⟩ <;> simp [this]
    · have := recover_log hrec
      simp only []
      rcases ps'.states with _ | ⟨t', _⟩
      · simp [this]
      · simp only []
        rcases T.act t' ps'.next.2 with _ | a <;> simp [this]
  · simp

theorem lookupAct_hr {T : PTables} (hr : ∀ s : Nat, T.canRecover[s]?.getD false = false)
    {e : Nat} {w : List Nat} {ps ps' : PState} {top : Nat} {a : Act}
    (h : lookupAct T e w ps top = .ok (a, ps')) : ps' = ps ∧ T.act top ps.next.2 = some a := by
  unfold lookupAct at h
  rcases hact : T.act top ps.next.2 with _ | a'
  · rw [hact] at h
    simp only [] at h
    rcases recover_no_recovery hr e w ps with ⟨why, hw⟩ | ⟨tok, ps1, hw⟩
    · rw [hw] at h; simp at h
    · rw [hw] at h
      simp only [] at h
      split at h <;> simp at h
  · rw [hact] at h
    simp only [Except.ok.injEq, Prod.mk.injEq] at h
    exact ⟨h.2.symm, by rw [h.1]⟩

/-! ### §2 what the validator guarantees -/

/-- Supplementary check on the two ends of a parse, NOT implied by `safe` (see the
    counter-examples in Props/C02.lean):
    * the start item `S' : •Start` occurs in state 0 only, and no shift/goto edge enters state 0
      (so "the state below the top holds the start item" means "the stack has depth one");
    * end of input (terminal 1) is never shifted. -/
def safeEnds (T : PTables) (c : Cert) : Bool :=
  (List.range c.size).all (fun s => s == 0 || !c.has s 0 0) &&
  (List.range T.action.size).all (fun s =>
    let row := T.action[s]?.getD #[]
    (List.range row.size).all fun t =>
      match (row[t]?).join with
      | some (.shift s') => t != 1 && s' != 0
      | _ => true) &&
  (List.range T.goto_.size).all (fun s =>
    let row := T.goto_[s]?.getD #[]
    (List.range row.size).all fun A => row[A]? != some 0)

/-- the facts the proofs use -/
structure SafeFacts (G : NGrammar) (T : PTables) (c : Cert) : Prop where
  npos : 0 < T.nStates
  prodNT : ∀ p, p < G.prods.size → T.prodNT[p]? = some (G.head p)
  prodLen : ∀ p, p < G.prods.size → T.prodLen[p]? = some (G.body p).length
  start : ∃ A, G.body 0 = [Sym.nt A]
  zero : ∀ p d, (p, d) ∈ c[0]?.getD [] → d = 0
  shift : ∀ s t s', s < T.nStates → T.act s t = some (.shift s') →
    s' < T.nStates ∧ edgeOk G c s (Sym.t t) s' = true ∧ t ≠ 1 ∧ s' ≠ 0
  reduce : ∀ s t p, s < T.nStates → T.act s t = some (.reduce p) →
    p < G.prods.size ∧ (p, (G.body p).length) ∈ c[s]?.getD []
  accept : ∀ s t, s < T.nStates → T.act s t = some .accept → t = 1 ∧ (0, 1) ∈ c[s]?.getD []
  goto : ∀ s A (g : Int), s < T.nStates → (T.goto_[s]?).bind (·[A]?) = some g → 0 ≤ g →
    g.toNat < T.nStates ∧ edgeOk G c s (Sym.nt A) g.toNat = true ∧ g.toNat ≠ 0
  startItem : ∀ s, (0, 0) ∈ c[s]?.getD [] → s = 0

theorem act_eq_some {T : PTables} {s t : Nat} {a : Act} (h : T.act s t = some a) :
    ∃ row, T.action[s]? = some row ∧ t < row.size ∧ (row[t]?).join = some a := by
  unfold PTables.act at h
  rcases hrow : T.action[s]? with _ | row
  · simp [hrow] at h
  · refine ⟨row, rfl, ?_, ?_⟩
    · rw [hrow] at h
      simp only [Option.bind_some] at h
      rcases hx : row[t]? with _ | x
      · simp [hx] at h
      · exact (Array.getElem?_eq_some_iff.mp hx).1
    · simpa [hrow] using h

theorem safeFacts_of {G : NGrammar} {T : PTables} {c : Cert} (hs : safe G T c = true)
    (he : safeEnds T c = true) : SafeFacts G T c := by
  simp only [safe, Bool.and_eq_true, List.all_eq_true, List.mem_range, beq_iff_eq,
    decide_eq_true_eq] at hs
  simp only [safeEnds, Bool.and_eq_true, List.all_eq_true, List.mem_range, Bool.or_eq_true,
    beq_iff_eq, Bool.not_eq_true', bne_iff_ne, ne_eq] at he
  obtain ⟨⟨⟨⟨⟨⟨⟨⟨⟨⟨hA, hG⟩, hC⟩, hn⟩, hNT⟩, hLen⟩, hP⟩, hS⟩, hZ⟩, hAct⟩, hGo⟩ := hs
  obtain ⟨⟨e1, e2⟩, e3⟩ := he
  have hasMem : ∀ s p d, c.has s p d = true ↔ (p, d) ∈ c[s]?.getD [] := by
    intro s p d; simp [Cert.has]
  refine
    { npos := hn, prodNT := fun p hp => (hP p hp).1, prodLen := fun p hp => (hP p hp).2,
      start := ?_, zero := fun p d h => hZ (p, d) h, shift := ?_, reduce := ?_, accept := ?_,
      goto := ?_, startItem := ?_ }
  · split at hS
    · exact ⟨_, by assumption⟩
    · simp at hS
  · intro s t s' hs' h
    obtain ⟨row, hrow, ht, hj⟩ := act_eq_some h
    have h1 := hAct s hs' t (by simpa [hrow] using ht)
    have h2 := e2 s (by omega) t (by simpa [hrow] using ht)
    simp only [hrow, Option.getD_some, hj, Bool.and_eq_true, decide_eq_true_eq, bne_iff_ne,
      ne_eq] at h1 h2
    exact ⟨h1.1, h1.2, h2.1, h2.2⟩
  · intro s t p hs' h
    obtain ⟨row, hrow, ht, hj⟩ := act_eq_some h
    have h1 := hAct s hs' t (by simpa [hrow] using ht)
    simp only [hrow, Option.getD_some, hj, Bool.and_eq_true, decide_eq_true_eq] at h1
    exact ⟨h1.1, (hasMem _ _ _).1 h1.2⟩
  · intro s t hs' h
    obtain ⟨row, hrow, ht, hj⟩ := act_eq_some h
    have h1 := hAct s hs' t (by simpa [hrow] using ht)
    simp only [hrow, Option.getD_some, hj, Bool.and_eq_true, beq_iff_eq] at h1
    exact ⟨h1.1, (hasMem _ _ _).1 h1.2⟩
  · intro s A g hs' h hg
    rcases hrow : T.goto_[s]? with _ | row
    · simp [hrow] at h
    · rw [hrow] at h
      simp only [Option.bind_some] at h
      have hA' : A < row.size := (Array.getElem?_eq_some_iff.mp h).1
      have h1 := hGo s hs' A (by simpa [hrow] using hA')
      have h3 := e3 s (by omega) A (by simpa [hrow] using hA')
      simp only [hrow, Option.getD_some, h, Bool.or_eq_true, Bool.and_eq_true,
        decide_eq_true_eq] at h1 h3
      rcases h1 with h1 | h1
      · omega
      · refine ⟨h1.1, h1.2, ?_⟩
        intro h0
        apply h3
        congr 1
        omega
  · intro s h
    by_cases hsz : s < c.size
    · rcases e1 s hsz with h0 | h0
      · exact h0
      · have := (hasMem s 0 0).2 h
        rw [this] at h0; contradiction
    · have : c[s]? = none := by simp; omega
      simp [this] at h

/-! ### §3 parse trees -/

theorem NDerives.append {G : NGrammar} {α β : List Sym} {u v : List Nat}
    (h1 : NDerives G α u) (h2 : NDerives G β v) : NDerives G (α ++ β) (u ++ v) := by
  induction h1 with
  | nil => simpa using h2
  | term _ ih => exact .term ih
  | nt hp hb _ _ ih => rw [List.cons_append, List.append_assoc]; exact .nt hp hb ih

mutual
/-- a well-formed tree is a derivation of its yield from its root symbol -/
theorem PT.derives (G : NGrammar) : (t : PT) → t.wf G →
    NDerives G [t.sym G] (t.yield.map (·.2))
  | .leaf i ty, _ => by
    simp only [PT.sym, PT.yield, List.map_cons, List.map_nil]
    exact .term .nil
  | .node p kids, h => by
    simp only [PT.wf] at h
    have hk := PT.derivesL G kids h.2.2
    rw [h.2.1] at hk
    have := NDerives.nt h.1 hk .nil
    simpa [PT.sym, PT.yield] using this
theorem PT.derivesL (G : NGrammar) : (ts : List PT) → PT.wfL G ts →
    NDerives G (ts.map (PT.sym G)) ((PT.yieldL ts).map (·.2))
  | [], _ => by simpa [PT.yieldL] using NDerives.nil
  | t :: ts, h => by
    simp only [PT.wfL] at h
    have h1 := PT.derives G t h.1
    have h2 := PT.derivesL G ts h.2
    simpa [PT.yieldL] using h1.append h2
end

theorem PT.yieldL_append (a b : List PT) : PT.yieldL (a ++ b) = PT.yieldL a ++ PT.yieldL b := by
  induction a with
  | nil => simp [PT.yieldL]
  | cons x xs ih => simp [PT.yieldL, ih]

theorem PT.wfL_append (G : NGrammar) (a b : List PT) :
    PT.wfL G (a ++ b) ↔ PT.wfL G a ∧ PT.wfL G b := by
  induction a with
  | nil => simp [PT.wfL]
  | cons x xs ih => simp [PT.wfL, ih, and_assoc]

/-- evaluating one more kid on the right -/
theorem evalL_snoc {kinds : Array RKind} {ks : List PT} {t : PT} {l0 l1 l2 : List Nat}
    {xs : List Attr} {a : Attr}
    (h1 : evalL kinds ks l0 = some (xs, l1)) (h2 : evalT kinds t l1 = some (a, l2)) :
    evalL kinds (ks ++ [t]) l0 = some (xs ++ [a], l2) := by
  induction ks generalizing l0 xs with
  | nil =>
    simp only [evalL, Option.some.injEq, Prod.mk.injEq] at h1
    obtain ⟨rfl, rfl⟩ := h1
    simp [evalL, h2]
  | cons k ks ih =>
    simp only [List.cons_append, evalL] at h1 ⊢
    rcases hk : evalT kinds k l0 with _ | ⟨b, l'⟩
    · simp [hk] at h1
    · rw [hk] at h1
      simp only [] at h1 ⊢
      rcases hks : evalL kinds ks l' with _ | ⟨bs, l''⟩
      · simp [hks] at h1
      · rw [hks] at h1
        simp only [Option.some.injEq, Prod.mk.injEq] at h1
        obtain ⟨rfl, rfl⟩ := h1
        rw [ih hks]
        simp

/-! ### §4 the stack invariant -/

/-- `Stk G c n kinds states attrs trees log`: the stack (top first) above the bottom state 0 carries
    one well-formed tree per entry; consecutive states are linked by validated edges labelled
    with the roots; the attributes and the log are the post-order evaluation of the trees,
    bottom to top. -/
inductive Stk (G : NGrammar) (c : Cert) (n : Nat) (kinds : Array RKind) :
    List Nat → List Attr → List PT → List Nat → Prop
  | base : Stk G c n kinds [0] [Attr.nil] [] []
  | push {s ss as ts l s' t a l'} : Stk G c n kinds (s :: ss) as ts l → s' < n → s' ≠ 0 →
      edgeOk G c s (t.sym G) s' = true → t.wf G → evalT kinds t l = some (a, l') →
      Stk G c n kinds (s' :: s :: ss) (a :: as) (t :: ts) l'

/-- tokens below the stack entries, bottom (left) to top (right) -/
def stackYield : List PT → List (Nat × Nat)
  | [] => []
  | t :: ts => stackYield ts ++ t.yield

theorem stackYield_eq (ts : List PT) : stackYield ts = PT.yieldL ts.reverse := by
  induction ts with
  | nil => rfl
  | cons t ts ih => simp [stackYield, ih, PT.yieldL_append, PT.yieldL]

variable {G : NGrammar} {c : Cert} {n : Nat} {kinds : Array RKind}

theorem Stk.top_lt {ss as ts l} (hn : 0 < n) (h : Stk G c n kinds ss as ts l) :
    ∃ s rest, ss = s :: rest ∧ s < n := by
  cases h with
  | base => exact ⟨0, [], rfl, hn⟩
  | push _ h2 => exact ⟨_, _, rfl, h2⟩

theorem Stk.length {ss as ts l} (h : Stk G c n kinds ss as ts l) :
    ss.length = ts.length + 1 ∧ as.length = ts.length + 1 := by
  induction h with
  | base => simp
  | push _ _ _ _ _ _ ih => simp [ih.1, ih.2]

/-- state 0 is the bottom of the stack only -/
theorem Stk.zero_bottom {ss as ts l} (h : Stk G c n kinds ss as ts l) :
    ∀ d, ss[d]? = some 0 → d = ts.length := by
  induction h with
  | base => intro d hd; cases d <;> simp_all
  | push _ _ h0 _ _ _ ih =>
    intro d hd
    cases d with
    | zero => simp at hd; exact absurd hd h0
    | succ d => simp at hd; simp [ih d hd]

theorem Sym.beq_iff (a b : Sym) : (a == b) = true ↔ a = b := by
  cases a <;> cases b <;> simp [BEq.beq, instBEqSym.beq]

instance : LawfulBEq Sym where
  rfl {a} := (Sym.beq_iff a a).2 rfl
  eq_of_beq {a b} h := (Sym.beq_iff a b).1 h

theorem edgeOk_mem {s s' : Nat} {X : Sym} (he : edgeOk G c s X s' = true) {p d : Nat}
    (hm : (p, d + 1) ∈ c[s']?.getD []) : (G.body p)[d]? = some X ∧ (p, d) ∈ c[s]?.getD [] := by
  simp only [edgeOk, List.all_eq_true] at he
  have := he (p, d + 1) hm
  simpa [Cert.has] using this

/-- the item lemma: an item `(p, d)` of the top state has its `d` symbols before the dot on the
    stack, and the state below them holds `(p, 0)` -/
theorem Stk.item (hz : ∀ p d, (p, d) ∈ c[0]?.getD [] → d = 0) :
    ∀ (d : Nat) {ss as ts l} (_ : Stk G c n kinds ss as ts l) (p : Nat),
      (p, d) ∈ c[ss.headD 0]?.getD [] →
      d ≤ ts.length ∧ (ts.take d).reverse.map (PT.sym G) = (G.body p).take d ∧
      ∃ s, ss[d]? = some s ∧ (p, 0) ∈ c[s]?.getD [] := by
  intro d
  induction d with
  | zero =>
    intro ss as ts l h p hm
    refine ⟨Nat.zero_le _, by simp, ?_⟩
    cases h <;> exact ⟨_, rfl, hm⟩
  | succ d ih =>
    intro ss as ts l h p hm
    cases h with
    | base => exact absurd (hz p _ hm) (by omega)
    | @push s ss as ts l s' t a l' h1 _ _ he _ _ =>
      obtain ⟨hX, hmem⟩ := edgeOk_mem he hm
      obtain ⟨i1, i2, i3⟩ := ih h1 p (by simpa using hmem)
      refine ⟨by simp; omega, ?_, by simpa using i3⟩
      rw [List.take_succ_cons, List.reverse_cons, List.map_append, i2, List.take_add_one, hX]
      simp

/-- popping `k` entries: what is left is a stack, what was popped evaluates (left to right) to the
    popped attributes -/
theorem Stk.pop {ss as ts l} (h : Stk G c n kinds ss as ts l) :
    ∀ k, k ≤ ts.length → ∃ l1, Stk G c n kinds (ss.drop k) (as.drop k) (ts.drop k) l1 ∧
      evalL kinds (ts.take k).reverse l1 = some ((as.take k).reverse, l) ∧
      PT.wfL G (ts.take k).reverse := by
  induction h with
  | base => intro k hk; simp at hk; subst hk; exact ⟨[], .base, by simp [evalL], by simp [PT.wfL]⟩
  | @push s ss as ts l s' t a l' h1 h2 h3 h4 h5 h6 ih =>
    intro k hk
    cases k with
    | zero => exact ⟨l', .push h1 h2 h3 h4 h5 h6, by simp [evalL], by simp [PT.wfL]⟩
    | succ k =>
      obtain ⟨l1, j1, j2, j3⟩ := ih k (by simpa using hk)
      refine ⟨l1, by simpa using j1, ?_, ?_⟩
      · simp only [List.take_succ_cons, List.reverse_cons]
        exact evalL_snoc j2 h6
      · simp only [List.take_succ_cons, List.reverse_cons]
        exact (PT.wfL_append G _ _).2 ⟨j3, by simp [PT.wfL, h5]⟩

theorem stackYield_split (ts : List PT) (k : Nat) :
    stackYield ts = stackYield (ts.drop k) ++ PT.yieldL (ts.take k).reverse := by
  rw [stackYield_eq, stackYield_eq, ← PT.yieldL_append, ← List.reverse_append, List.take_append_drop]

/-- the invariant of the `Parse` loop: `m` tokens have been shifted, they are the yield of the
    trees on the stack; the look-ahead is token `m` -/
def Inv (G : NGrammar) (T : PTables) (c : Cert) (w : List Nat) (ps : PState) : Prop :=
  ∃ ts m, Stk G c T.nStates T.prodKind ps.states ps.attrs ts ps.log ∧ ps.ntok = m + 1 ∧
    ps.next = scanTok w m ∧ m ≤ w.length ∧ stackYield ts = (List.range m).map (scanTok w)

/-- what `Parse` returns on acceptance -/
def Final (G : NGrammar) (T : PTables) (w : List Nat) (r : Attr) (log : List Nat) : Prop :=
  ∃ t : PT, t.wf G ∧ G.body 0 = [t.sym G] ∧ t.yield = (List.range w.length).zip w ∧
    evalT T.prodKind t [] = some (r, log)

theorem inv_init (G : NGrammar) (T : PTables) (c : Cert) (w : List Nat) :
    Inv G T c w { states := [0], attrs := [.nil], next := scanTok w 0, ntok := 1, log := [], calls := 0 } :=
  ⟨[], 0, .base, rfl, rfl, Nat.zero_le _, rfl⟩

theorem scanTok_map_range (w : List Nat) :
    (List.range w.length).map (scanTok w) = (List.range w.length).zip w := by
  apply List.ext_getElem
  · simp
  · intro i h1 h2
    simp at h1
    simp [scanTok, h1]

theorem scanTok_eof {w : List Nat} (hw : 1 ∉ w) {m : Nat} (hm : m ≤ w.length)
    (h : (scanTok w m).2 = 1) : m = w.length := by
  unfold scanTok at h
  rcases hx : w[m]? with _ | x
  · have := List.getElem?_eq_none_iff.mp hx; omega
  · rw [hx] at h
    simp only [] at h
    subst h
    exact absurd (List.mem_of_getElem? hx) hw

theorem scanTok_lt {w : List Nat} {m : Nat} (h : (scanTok w m).2 ≠ 1) : m < w.length := by
  unfold scanTok at h
  rcases hx : w[m]? with _ | x
  · rw [hx] at h; simp at h
  · exact (List.getElem?_eq_some_iff.mp hx).1

theorem scanTok_fst (w : List Nat) (m : Nat) : (scanTok w m).1 = m := by
  unfold scanTok; split <;> rfl

/-- a successful reduce function is the evaluation of the new node -/
theorem reduceRes_ok {cfg : PCfg} {p : Nat} {X : List Attr} {ps ps2 : PState} {a : Attr}
    (h : reduceRes cfg p X ps = .ok (a, ps2)) {kids : List PT} {l1 : List Nat}
    (he : evalL cfg.T.prodKind kids l1 = some (X, ps.log)) :
    evalT cfg.T.prodKind (.node p kids) l1 = some (a, ps2.log) ∧ ps2.states = ps.states ∧
      ps2.attrs = ps.attrs ∧ ps2.next = ps.next ∧ ps2.ntok = ps.ntok := by
  unfold reduceRes at h
  simp only [evalT, he]
  generalize cfg.T.prodKind[p]?.getD .dflt = kd at h ⊢
  rcases kd with _ | _ | ⟨shape, id⟩
  · simp only [] at h ⊢
    rcases X with _ | ⟨x, _⟩
    · simp at h
    · simp only [Except.ok.injEq, Prod.mk.injEq] at h
      obtain ⟨rfl, rfl⟩ := h
      simp
  · simp only [Except.ok.injEq, Prod.mk.injEq] at h ⊢
    obtain ⟨rfl, rfl⟩ := h
    simp
  · simp only [] at h ⊢
    split at h
    · simp at h
    · generalize userAction shape id X = ua at h ⊢
      rcases ua with why | b
      · simp at h
      · simp only [Except.ok.injEq, Prod.mk.injEq] at h
        obtain ⟨rfl, rfl⟩ := h
        simp

/-- what a step must establish -/
def StepR.post (G : NGrammar) (T : PTables) (c : Cert) (w : List Nat) : StepR → Prop
  | .cont ps' => Inv G T c w ps'
  | .done (.accept r) ps' => Final G T w r ps'.log
  | .done _ _ => True

theorem doAct_inv {G : NGrammar} {T : PTables} {c : Cert} (F : SafeFacts G T c) {w : List Nat}
    (hw : 1 ∉ w) {cfg : PCfg} (hT : cfg.T = T) {ps : PState} (hI : Inv G T c w ps)
    {top : Nat} {rest : List Nat} (hst : ps.states = top :: rest) {a : Act}
    (ha : T.act top ps.next.2 = some a) : (doAct cfg w a ps).post G T c w := by
  subst hT
  obtain ⟨ts, m, hS, hm, hnext, hle, hy⟩ := hI
  obtain ⟨states, attrs, next, ntok, log, calls⟩ := ps
  dsimp only at hS hm hnext hst ha
  subst hst hm
  obtain ⟨_, _, hh, htop⟩ := hS.top_lt F.npos
  cases hh
  cases a with
  | accept =>
    obtain ⟨h1, hmem⟩ := F.accept _ _ htop ha
    obtain ⟨i1, i2, s, i3, i4⟩ := Stk.item F.zero 1 hS 0 (by simpa using hmem)
    have := F.startItem s i4
    subst this
    have hlen := hS.zero_bottom 1 i3
    cases hS with
    | base => simp at i1
    | @push s ss as ts l s' t a l' g1 g2 g3 g4 g5 g6 =>
      cases g1 with
      | push => simp at hlen
      | base =>
        simp only [doAct, StepR.post, Final]
        refine ⟨t, g5, ?_, ?_, g6⟩
        · obtain ⟨A, hA⟩ := F.start
          simpa [hA] using i2.symm
        · have : m = w.length := scanTok_eof hw hle (by rw [← hnext]; exact h1)
          subst this
          simpa [stackYield, scanTok_map_range] using hy
  | shift s' =>
    obtain ⟨h1, h2, h3, h4⟩ := F.shift _ _ _ htop ha
    simp only [doAct, StepR.post]
    refine ⟨.leaf next.1 next.2 :: ts, m + 1, ?_, rfl, rfl, ?_, ?_⟩
    · exact .push hS h1 h4 h2 (by simp [PT.wf]) (by simp [evalT])
    · have := scanTok_lt (w := w) (m := m) (by rw [← hnext]; exact h3)
      omega
    · simp [stackYield, hy, PT.yield, List.range_succ, hnext]
  | reduce p =>
    obtain ⟨hp, hmem⟩ := F.reduce _ _ _ htop ha
    obtain ⟨i1, i2, -⟩ := Stk.item F.zero _ hS p (by simpa using hmem)
    have hlen := hS.length
    have hpl := F.prodLen p hp
    have hpn := F.prodNT p hp
    obtain ⟨l1, j1, j2, j3⟩ := hS.pop _ i1
    simp only [doAct, hpl, hpn, Option.getD_some]
    rw [if_neg (by simp at hlen ⊢; omega)]
    rcases hres : reduceRes cfg p (List.take (G.body p).length attrs).reverse _ with (_ | why) | ⟨a, ps2⟩
    · simp only []
      split <;> simp [StepR.post]
    · simp [StepR.post]
    · obtain ⟨k1, k2, k3, k4, k5⟩ := reduceRes_ok hres (kids := (ts.take (G.body p).length).reverse) (l1 := l1) j2
      simp only []
      obtain ⟨t', rest', hd, ht'⟩ := j1.top_lt F.npos
      simp only at k2 k3 k4 k5
      rw [hd]
      simp only []
      split
      · simp [StepR.post]
      · rename_i hg
        rcases hgo : (cfg.T.goto_[t']?).bind (·[G.head p]?) with _ | g
        · simp [hgo] at hg
        · simp only [hgo, Option.getD_some, Int.not_lt] at hg ⊢
          obtain ⟨q1, q2, q3⟩ := F.goto _ _ _ ht' hgo hg
          simp only [StepR.post]
          refine ⟨.node p (ts.take (G.body p).length).reverse :: ts.drop (G.body p).length, m, ?_,
            by simp [k5], by simp [k4, hnext], hle, ?_⟩
          · rw [hd] at j1
            refine .push j1 q1 q3 q2 ?_ k1
            simp only [PT.wf]
            refine ⟨hp, ?_, j3⟩
            rw [i2, List.take_length]
          · rw [← hy, stackYield_split ts (G.body p).length]
            simp [stackYield, PT.yield]

theorem step_inv {G : NGrammar} {T : PTables} {c : Cert} (F : SafeFacts G T c)
    (hr : ∀ s : Nat, T.canRecover[s]?.getD false = false) {w : List Nat}
    (hw : 1 ∉ w) {cfg : PCfg} (hT : cfg.T = T) {ps : PState} (hI : Inv G T c w ps) :
    (step cfg w ps).post G T c w := by
  unfold step
  rcases hst : ps.states with _ | ⟨top, rest⟩
  · simp [StepR.post]
  · simp only []
    split
    · simp [StepR.post]
    · rcases hl : lookupAct cfg.T cfg.errTerm w ps top with ⟨o, ps'⟩ | ⟨a, ps'⟩
      · have := lookupAct_log cfg.T cfg.errTerm w ps top
        rw [hl] at this
        simp only [] at this ⊢
        rcases o with r | _ | _ | _ | _ <;> simp only [StepR.post]
        exact absurd rfl (this.2.2.2 r)
      · subst hT
        obtain ⟨rfl, ha⟩ := lookupAct_hr hr hl
        exact doAct_inv F hw rfl hI hst ha

/-! ### §5 acceptance -/

theorem parseLoop_accept {G : NGrammar} {T : PTables} {c : Cert} (F : SafeFacts G T c)
    (hr : ∀ s : Nat, T.canRecover[s]?.getD false = false) {w : List Nat}
    (hw : 1 ∉ w) {cfg : PCfg} (hT : cfg.T = T) :
    ∀ (fuel : Nat) (ps : PState), Inv G T c w ps → ∀ r ps',
      parseLoop cfg w fuel ps = (.accept r, ps') → Final G T w r ps'.log := by
  intro fuel
  induction fuel with
  | zero => intro ps _ r ps' h; simp [parseLoop] at h
  | succ fuel ih =>
    intro ps hI r ps' h
    rw [parseLoop_succ] at h
    have hp := step_inv F hr hw hT hI
    rcases hs : step cfg w ps with ⟨o, ps1⟩ | ps1
    · rw [hs] at h hp
      simp only [StepR.run, Prod.mk.injEq] at h
      obtain ⟨rfl, rfl⟩ := h
      exact hp
    · rw [hs] at h hp
      exact ih ps1 hp r ps' h

theorem parse_accept {G : NGrammar} {T : PTables} {c : Cert} (F : SafeFacts G T c)
    (hr : ∀ s : Nat, T.canRecover[s]?.getD false = false) {w : List Nat}
    (hw : 1 ∉ w) {cfg : PCfg} (hT : cfg.T = T) {fuel : Nat} {old : PState} {r : Attr} {ps' : PState}
    (h : parse cfg w fuel old = (.accept r, ps')) : Final G T w r ps'.log :=
  parseLoop_accept F hr hw hT fuel _ (inv_init G T c w) r ps' h

theorem Final.sentence {G : NGrammar} {T : PTables} {w : List Nat} {r : Attr} {log : List Nat}
    (h : Final G T w r log) : NSentence G w := by
  obtain ⟨t, h1, h2, h3, -⟩ := h
  have := PT.derives G t h1
  rw [h3] at this
  unfold NSentence
  rw [h2]
  have e : List.map (fun x => x.2) ((List.range w.length).zip w) = w := by
    rw [List.map_snd_zip]; simp
  rwa [e] at this

/-! ### §6 the call log -/

def NotActErr (o : Outcome) : Prop := ∀ id i t e s, o ≠ .actErr id i t e s

/-- the state a step ends in -/
def StepR.st : StepR → PState
  | .done _ ps => ps
  | .cont ps => ps

/-- `ps'` is `ps` with unchanged log, or with one more successful call -/
def LogStep (failAt : Nat) (ps ps' : PState) : Prop :=
  (ps'.log = ps.log ∧ ps'.calls = ps.calls) ∨
  (∃ id, ps'.log = id :: ps.log ∧ ps'.calls = ps.calls + 1 ∧ ¬(failAt ≠ 0 ∧ ps.calls + 1 = failAt))

/-- effect of one step on the call log: at most one call; the step ends with an action error
    exactly when that call is call number `failAt` -/
def StepR.logPost (failAt : Nat) (ps : PState) : StepR → Prop
  | .cont ps' => LogStep failAt ps ps'
  | .done o ps' =>
    (∃ id, failAt ≠ 0 ∧ ps.calls + 1 = failAt ∧ ps'.log = id :: ps.log ∧ ps'.calls = ps.calls + 1 ∧
      ((∃ i t e s, o = .actErr id i t e s) ∨ ∃ why, o = .panic why)) ∨
    (NotActErr o ∧ LogStep failAt ps ps')

local macro "nae" : term => `((by intro _ _ _ _ _ h; cases h))

theorem doAct_log (cfg : PCfg) (w : List Nat) (a : Act) (ps : PState) :
    (doAct cfg w a ps).logPost cfg.failAt ps := by
  cases a with
  | accept =>
    simp only [doAct]
    split <;> exact .inr ⟨nae, .inl ⟨rfl, rfl⟩⟩
  | shift s => exact .inl ⟨rfl, rfl⟩
  | reduce p =>
    simp only [doAct, reduceRes]
    split
    · exact .inr ⟨nae, .inl ⟨rfl, rfl⟩⟩
    · rcases hk : cfg.T.prodKind[p]?.getD .dflt with _ | _ | ⟨shape, id⟩
      · simp only []
        rcases (List.take (cfg.T.prodLen[p]?.getD 0) ps.attrs).reverse with _ | ⟨x, _⟩
        · exact .inr ⟨nae, .inl ⟨rfl, rfl⟩⟩
        · simp only []
          split
          · split
            · exact .inr ⟨nae, .inl ⟨rfl, rfl⟩⟩
            · exact .inl ⟨rfl, rfl⟩
          · exact .inr ⟨nae, .inl ⟨rfl, rfl⟩⟩
      · simp only []
        split
        · split
          · exact .inr ⟨nae, .inl ⟨rfl, rfl⟩⟩
          · exact .inl ⟨rfl, rfl⟩
        · exact .inr ⟨nae, .inl ⟨rfl, rfl⟩⟩
      · simp only []
        by_cases hf : (cfg.failAt != 0 && ps.calls + 1 == cfg.failAt) = true
        · rw [if_pos hf]
          simp only [Bool.and_eq_true, bne_iff_ne, ne_eq, beq_iff_eq] at hf
          simp only []
          split
          · exact .inl ⟨id, hf.1, hf.2, rfl, rfl, .inl ⟨_, _, _, _, rfl⟩⟩
          · exact .inl ⟨id, hf.1, hf.2, rfl, rfl, .inr ⟨_, rfl⟩⟩
        · rw [if_neg hf]
          simp only [Bool.and_eq_true, bne_iff_ne, ne_eq, beq_iff_eq] at hf
          rcases userAction shape id (List.take (cfg.T.prodLen[p]?.getD 0) ps.attrs).reverse with why | b
          · exact .inr ⟨nae, .inl ⟨rfl, rfl⟩⟩
          · simp only []
            split
            · split
              · exact .inr ⟨nae, .inr ⟨id, rfl, rfl, hf⟩⟩
              · exact .inr ⟨id, rfl, rfl, hf⟩
            · exact .inr ⟨nae, .inr ⟨id, rfl, rfl, hf⟩⟩

theorem LogStep.of_eq {f : Nat} {ps ps1 ps2 : PState} (h1 : ps1.log = ps.log) (h2 : ps1.calls = ps.calls)
    (h : LogStep f ps1 ps2) : LogStep f ps ps2 := by
  unfold LogStep at *
  rw [h1, h2] at h
  exact h

theorem StepR.logPost.of_eq {f : Nat} {ps ps1 : PState} {sr : StepR} (h1 : ps1.log = ps.log)
    (h2 : ps1.calls = ps.calls) (h : sr.logPost f ps1) : sr.logPost f ps := by
  cases sr <;> simp only [StepR.logPost, LogStep] at * <;> rw [h1, h2] at h <;> exact h

theorem step_log (cfg : PCfg) (w : List Nat) (ps : PState) :
    (step cfg w ps).logPost cfg.failAt ps := by
  unfold step
  rcases ps.states with _ | ⟨top, rest⟩
  · exact .inr ⟨nae, .inl ⟨rfl, rfl⟩⟩
  · simp only []
    split
    · exact .inr ⟨nae, .inl ⟨rfl, rfl⟩⟩
    · have := lookupAct_log cfg.T cfg.errTerm w ps top
      rcases hl : lookupAct cfg.T cfg.errTerm w ps top with ⟨o, ps'⟩ | ⟨a, ps'⟩
      · rw [hl] at this
        exact .inr ⟨this.2.2.1, .inl ⟨this.1, this.2.1⟩⟩
      · rw [hl] at this
        exact (doAct_log cfg w a ps').of_eq this.1 this.2

/-- the log only grows, one entry per call -/
theorem parseLoop_mono (cfg : PCfg) (w : List Nat) : ∀ (fuel : Nat) (ps : PState),
    ∃ pre, (parseLoop cfg w fuel ps).2.log = pre ++ ps.log ∧
      (parseLoop cfg w fuel ps).2.calls = ps.calls + pre.length := by
  intro fuel
  induction fuel with
  | zero => intro ps; exact ⟨[], rfl, rfl⟩
  | succ fuel ih =>
    intro ps
    rw [parseLoop_succ]
    have hl := step_log cfg w ps
    rcases hs : step cfg w ps with ⟨o, ps1⟩ | ps1
    · rw [hs] at hl
      simp only [StepR.logPost, LogStep] at hl
      simp only [StepR.run]
      rcases hl with ⟨id, -, -, h1, h2, -⟩ | ⟨-, ⟨h1, h2⟩ | ⟨id, h1, h2, -⟩⟩
      · exact ⟨[id], by simp [h1], by simp [h2]⟩
      · exact ⟨[], by simp [h1], by simp [h2]⟩
      · exact ⟨[id], by simp [h1], by simp [h2]⟩
    · rw [hs] at hl
      simp only [StepR.logPost, LogStep] at hl
      simp only [StepR.run]
      obtain ⟨pre, e1, e2⟩ := ih ps1
      rcases hl with ⟨h1, h2⟩ | ⟨id, h1, h2, -⟩
      · exact ⟨pre, by simp [e1, h1], by simp [e2, h2]⟩
      · exact ⟨pre ++ [id], by simp [e1, h1], by simp [e2, h2]; omega⟩

/-- with `failAt = k ≠ 0`: the log has one entry per call, no call after call `k`, an action error
    is reported exactly for call `k` and carries its id -/
theorem parseLoop_calls (cfg : PCfg) (w : List Nat) : ∀ (fuel : Nat) (ps : PState),
    ps.log.length = ps.calls → ps.calls < cfg.failAt →
    ∀ o ps', parseLoop cfg w fuel ps = (o, ps') →
      ps'.log.length = ps'.calls ∧
      (∀ id i t e s, o = .actErr id i t e s → ps'.calls = cfg.failAt ∧ ps'.log.head? = some id) ∧
      (NotActErr o → ps'.calls < cfg.failAt ∨ (ps'.calls = cfg.failAt ∧ ∃ why, o = .panic why)) := by
  intro fuel
  induction fuel with
  | zero =>
    intro ps h1 h2 o ps' h
    simp only [parseLoop, Prod.mk.injEq] at h
    obtain ⟨rfl, rfl⟩ := h
    exact ⟨h1, (by intro _ _ _ _ _ h; cases h), fun _ => .inl h2⟩
  | succ fuel ih =>
    intro ps h1 h2 o ps' h
    rw [parseLoop_succ] at h
    have hl := step_log cfg w ps
    rcases hs : step cfg w ps with ⟨o1, ps1⟩ | ps1
    · rw [hs] at h hl
      simp only [StepR.run, Prod.mk.injEq] at h
      obtain ⟨rfl, rfl⟩ := h
      simp only [StepR.logPost, LogStep] at hl
      rcases hl with ⟨id, -, hf, g1, g2, g3⟩ | ⟨g0, ⟨g1, g2⟩ | ⟨id, g1, g2, g3⟩⟩
      · refine ⟨by simp [g1, g2, h1], ?_, ?_⟩
        · intro id' i t e s ho
          refine ⟨by omega, ?_⟩
          rcases g3 with ⟨_, _, _, _, g3⟩ | ⟨_, g3⟩
          · rw [g3] at ho; cases ho; simp [g1]
          · rw [g3] at ho; cases ho
        · intro hn
          rcases g3 with ⟨_, _, _, _, g3⟩ | ⟨_, g3⟩
          · exact absurd g3 (hn _ _ _ _ _)
          · exact .inr ⟨by omega, _, g3⟩
      · exact ⟨by simp [g1, g2, h1], fun _ _ _ _ _ ho => absurd ho (g0 _ _ _ _ _), fun _ => .inl (by omega)⟩
      · exact ⟨by simp [g1, g2, h1], fun _ _ _ _ _ ho => absurd ho (g0 _ _ _ _ _), fun _ => .inl (by omega)⟩
    · rw [hs] at h hl
      simp only [StepR.run] at h
      simp only [StepR.logPost, LogStep] at hl
      rcases hl with ⟨g1, g2⟩ | ⟨id, g1, g2, g3⟩
      · exact ih ps1 (by simp [g1, g2, h1]) (by omega) o ps' h
      · exact ih ps1 (by simp [g1, g2, h1]) (by omega) o ps' h

/-- the same parser with another `failAt` -/
def PCfg.withFail (cfg : PCfg) (f : Nat) : PCfg := { cfg with failAt := f }

/-- how a step of the run failing at call `f` differs from the same step of the failure-free run:
    not at all, or it is call `f`, which stops the failing run and is (possibly) completed by the
    failure-free one -/
def StepCmp (f : Nat) (ps : PState) (rk r0 : StepR) : Prop :=
  rk = r0 ∨
  (ps.calls + 1 = f ∧ ∃ id o psk, rk = .done o psk ∧ psk.log = id :: ps.log ∧
    ((r0.st.log = id :: ps.log ∧ r0.st.calls = ps.calls + 1) ∨
     (∃ o1 ps1, r0 = .done o1 ps1 ∧ ps1.calls = ps.calls)))

theorem reduceRes_withFail (cfg : PCfg) (f : Nat) (p : Nat) (X : List Attr) (ps : PState)
    (h : ps.calls + 1 ≠ f ∨ ∀ shape id, cfg.T.prodKind[p]?.getD .dflt ≠ .user shape id) :
    reduceRes (cfg.withFail f) p X ps = reduceRes (cfg.withFail 0) p X ps := by
  simp only [reduceRes, PCfg.withFail]
  rcases hk : cfg.T.prodKind[p]?.getD .dflt with _ | _ | ⟨shape, id⟩
  · rfl
  · rfl
  · rcases h with h | h
    · simp [h]
    · exact absurd hk (h _ _)

theorem doAct_cmp (cfg : PCfg) (f : Nat) (hf : f ≠ 0) (w : List Nat) (a : Act) (ps : PState) :
    StepCmp f ps (doAct (cfg.withFail f) w a ps) (doAct (cfg.withFail 0) w a ps) := by
  cases a with
  | accept => exact .inl rfl
  | shift s => exact .inl rfl
  | reduce p =>
    have eqcase : ∀ hc : ps.calls + 1 ≠ f ∨ ∀ shape id, cfg.T.prodKind[p]?.getD .dflt ≠ .user shape id,
        StepCmp f ps (doAct (cfg.withFail f) w (.reduce p) ps) (doAct (cfg.withFail 0) w (.reduce p) ps) := by
      intro hc
      left
      simp only [doAct, reduceRes_withFail cfg f p _ ps hc]
      rfl
    rcases hk : cfg.T.prodKind[p]?.getD .dflt with _ | _ | ⟨shape, id⟩
    · exact eqcase (.inr (by simp [hk]))
    · exact eqcase (.inr (by simp [hk]))
    · by_cases hc : ps.calls + 1 = f
      · simp only [doAct, PCfg.withFail]
        by_cases hlen : cfg.T.prodLen[p]?.getD 0 > ps.states.length
        · simp only [hlen, if_true]; exact .inl rfl
        · simp only [hlen, if_false]
          right
          refine ⟨hc, id, ?_⟩
          have hcond : (f != 0 && ps.calls + 1 == f) = true := by simp [hf, hc]
          simp only [reduceRes, hk, hcond, if_true, bne_self_eq_false, Bool.false_and,
            Bool.false_eq_true, if_false]
          generalize List.drop (cfg.T.prodLen[p]?.getD 0) ps.states = dr
          generalize userAction shape id (List.take (cfg.T.prodLen[p]?.getD 0) ps.attrs).reverse = ua
          rcases ua with why | b
          · rcases dr with _ | ⟨t', _⟩ <;> exact ⟨_, _, rfl, rfl, .inr ⟨_, _, rfl, rfl⟩⟩
          · rcases dr with _ | ⟨t', _⟩
            · exact ⟨_, _, rfl, rfl, .inl ⟨rfl, rfl⟩⟩
            · simp only []
              by_cases hg : (cfg.T.goto_[t']?.bind fun x => x[cfg.T.prodNT[p]?.getD 0]?).getD (-1) < 0
              · simp only [hg, if_true]
                exact ⟨_, _, rfl, rfl, .inl ⟨rfl, rfl⟩⟩
              · simp only [hg, if_false]
                exact ⟨_, _, rfl, rfl, .inl ⟨rfl, rfl⟩⟩
      · exact eqcase (.inl hc)

theorem step_cmp (cfg : PCfg) (f : Nat) (hf : f ≠ 0) (w : List Nat) (ps : PState) :
    StepCmp f ps (step (cfg.withFail f) w ps) (step (cfg.withFail 0) w ps) := by
  unfold step
  rcases ps.states with _ | ⟨top, rest⟩
  · exact .inl rfl
  · simp only [PCfg.withFail]
    by_cases hn : ps.next.2 ≥ cfg.T.numSymbols
    · simp only [hn, if_true]; exact .inl rfl
    · simp only [hn, if_false]
      have hl := lookupAct_log cfg.T cfg.errTerm w ps top
      rcases hlk : lookupAct cfg.T cfg.errTerm w ps top with ⟨o, ps'⟩ | ⟨a, ps'⟩
      · exact .inl rfl
      · rw [hlk] at hl
        simp only [] at hl ⊢
        have := doAct_cmp cfg f hf w a ps'
        unfold StepCmp at this ⊢
        rw [hl.1, hl.2] at this
        exact this

theorem run_mono (cfg : PCfg) (w : List Nat) (fuel : Nat) (sr : StepR) :
    ∃ pre, (sr.run (parseLoop cfg w fuel)).2.log = pre ++ sr.st.log ∧
      (sr.run (parseLoop cfg w fuel)).2.calls = sr.st.calls + pre.length := by
  cases sr with
  | done o ps => exact ⟨[], rfl, rfl⟩
  | cont ps => exact parseLoop_mono cfg w fuel ps

/-- lock-step of the run failing at call `f` and the failure-free run: if the latter makes at
    least `f` calls, the log of the former is the first `f` entries of the log of the latter -/
theorem parseLoop_lockstep (cfg : PCfg) (f : Nat) (w : List Nat) :
    ∀ (fuel : Nat) (ps : PState), ps.log.length = ps.calls → ps.calls < f →
      f ≤ (parseLoop (cfg.withFail 0) w fuel ps).2.calls →
      (parseLoop (cfg.withFail f) w fuel ps).2.log =
        (parseLoop (cfg.withFail 0) w fuel ps).2.log.drop
          ((parseLoop (cfg.withFail 0) w fuel ps).2.log.length - f) := by
  intro fuel
  induction fuel with
  | zero => intro ps _ h2 h3; simp only [parseLoop] at h3; omega
  | succ fuel ih =>
    intro ps h1 h2
    have hf : f ≠ 0 := by omega
    rw [parseLoop_succ, parseLoop_succ]
    have hlk := step_log (cfg.withFail f) w ps
    rcases step_cmp cfg f hf w ps with heq | ⟨hcall, id, o, psk, hk1, hk2, hr0⟩
    · rw [← heq]
      rcases hs : step (cfg.withFail f) w ps with ⟨o1, ps1⟩ | ps1
      · rw [hs] at hlk
        simp only [StepR.logPost, LogStep, PCfg.withFail] at hlk
        simp only [StepR.run]
        intro _
        have : ps1.log.length = ps1.calls ∧ ps1.calls ≤ f := by
          rcases hlk with ⟨id, -, g0, g1, g2, -⟩ | ⟨-, ⟨g1, g2⟩ | ⟨id, g1, g2, g3⟩⟩
          · exact ⟨by simp [g1, g2, h1], by omega⟩
          · exact ⟨by simp [g1, g2, h1], by omega⟩
          · exact ⟨by simp [g1, g2, h1], by omega⟩
        have : ps1.log.length - f = 0 := by omega
        rw [this, List.drop_zero]
      · rw [hs] at hlk
        simp only [StepR.logPost, LogStep, PCfg.withFail] at hlk
        simp only [StepR.run]
        apply ih
        · rcases hlk with ⟨g1, g2⟩ | ⟨id, g1, g2, g3⟩ <;> simp [g1, g2, h1]
        · rcases hlk with ⟨g1, g2⟩ | ⟨id, g1, g2, g3⟩ <;> omega
    · rw [hk1]
      simp only [StepR.run, hk2]
      rcases hr0 with ⟨g1, g2⟩ | ⟨o1, ps1, g1, g2⟩
      · obtain ⟨pre, e1, e2⟩ := run_mono (cfg.withFail 0) w fuel (step (cfg.withFail 0) w ps)
        simp only [StepR.run] at e1 e2
        intro _
        rw [e1, g1]
        have : (pre ++ id :: ps.log).length - f = pre.length := by simp; omega
        rw [this]
        simp
      · rw [g1]
        simp only []
        intro h3
        omega

/-! ### §7 helpers for concrete instances -/

theorem NDerives.nil_inv {G : NGrammar} {w : List Nat} (h : NDerives G [] w) : w = [] := by
  generalize hα : ([] : List Sym) = α at h
  cases h <;> simp_all

theorem NDerives.t_inv {G : NGrammar} {a : Nat} {α : List Sym} {w : List Nat}
    (h : NDerives G (Sym.t a :: α) w) : ∃ w', w = a :: w' ∧ NDerives G α w' := by
  generalize hα : Sym.t a :: α = β at h
  cases h with
  | nil => cases hα
  | term h' => cases hα; exact ⟨_, rfl, h'⟩
  | nt => cases hα

theorem NDerives.nt_inv {G : NGrammar} {A : Nat} {α : List Sym} {w : List Nat}
    (h : NDerives G (Sym.nt A :: α) w) : ∃ p u v, p < G.prods.size ∧ G.head p = A ∧ w = u ++ v ∧
      NDerives G (G.body p) u ∧ NDerives G α v := by
  generalize hα : Sym.nt A :: α = β at h
  cases h with
  | nil => cases hα
  | term => cases hα
  | nt hp hb hr =>
    simp only [List.cons.injEq, Sym.nt.injEq] at hα
    obtain ⟨rfl, rfl⟩ := hα
    exact ⟨_, _, _, hp, rfl, rfl, hb, hr⟩

/-- a decidable form of "no state can recover" -/
theorem noRecovery_of_all {T : PTables} (h : T.canRecover.toList.all (fun b => !b) = true) :
    ∀ s : Nat, T.canRecover[s]?.getD false = false := by
  intro s
  rcases hx : T.canRecover[s]? with _ | b
  · rfl
  · have := List.all_eq_true.mp h b (Array.mem_toList_iff.mpr (Array.mem_of_getElem? hx))
    simpa using this

/-! ### §8 validated tables: the failing call is reported as an action error (never as a panic) -/

theorem reduceRes_ok_log {cfg : PCfg} {p : Nat} {X : List Attr} {ps ps2 : PState} {a : Attr}
    (h : reduceRes cfg p X ps = .ok (a, ps2)) : LogStep cfg.failAt ps ps2 := by
  unfold reduceRes at h
  generalize cfg.T.prodKind[p]?.getD .dflt = kd at h
  rcases kd with _ | _ | ⟨shape, id⟩
  · simp only [] at h
    split at h
    · simp only [Except.ok.injEq, Prod.mk.injEq] at h
      obtain ⟨-, rfl⟩ := h
      exact .inl ⟨rfl, rfl⟩
    · simp at h
  · simp only [Except.ok.injEq, Prod.mk.injEq] at h
    obtain ⟨-, rfl⟩ := h
    exact .inl ⟨rfl, rfl⟩
  · simp only [] at h
    split at h
    · simp at h
    · rename_i hc
      simp only [Bool.and_eq_true, bne_iff_ne, ne_eq, beq_iff_eq] at hc
      generalize userAction shape id X = ua at h
      rcases ua with why | b
      · simp at h
      · simp only [Except.ok.injEq, Prod.mk.injEq] at h
        obtain ⟨-, rfl⟩ := h
        exact .inr ⟨id, rfl, rfl, hc⟩

theorem doAct_panic_log {G : NGrammar} {T : PTables} {c : Cert} (F : SafeFacts G T c) {w : List Nat}
    {cfg : PCfg} (hT : cfg.T = T) {ps : PState} (hI : Inv G T c w ps)
    {top : Nat} {rest : List Nat} (hst : ps.states = top :: rest) {a : Act}
    (ha : T.act top ps.next.2 = some a) {why : String} {ps' : PState}
    (h : doAct cfg w a ps = .done (.panic why) ps') : LogStep cfg.failAt ps ps' := by
  subst hT
  obtain ⟨ts, m, hS, hm, hnext, hle, hy⟩ := hI
  obtain ⟨_, _, hh, htop⟩ := hS.top_lt F.npos
  rw [hst] at hh
  cases hh
  cases a with
  | accept =>
    simp only [doAct] at h
    split at h
    · cases h
    · cases h; exact .inl ⟨rfl, rfl⟩
  | shift s' => cases h
  | reduce p =>
    obtain ⟨hp, hmem⟩ := F.reduce _ _ _ htop ha
    obtain ⟨i1, -, -⟩ := Stk.item F.zero _ hS p (by simpa [hst] using hmem)
    have hlen := hS.length
    have hpl := F.prodLen p hp
    obtain ⟨l1, j1, -, -⟩ := hS.pop _ i1
    obtain ⟨t', rest', hd, -⟩ := j1.top_lt F.npos
    simp only [doAct, hpl, Option.getD_some] at h
    rw [if_neg (by omega), hd] at h
    rcases hres : reduceRes cfg p (List.take (G.body p).length ps.attrs).reverse ps with (_ | why') | ⟨a, ps2⟩
    · rw [hres] at h; cases h
    · rw [hres] at h; cases h; exact .inl ⟨rfl, rfl⟩
    · rw [hres] at h
      simp only [] at h
      split at h
      · cases h; exact reduceRes_ok_log hres
      · cases h

theorem step_panic_log {G : NGrammar} {T : PTables} {c : Cert} (F : SafeFacts G T c)
    (hr : ∀ s : Nat, T.canRecover[s]?.getD false = false) {w : List Nat}
    {cfg : PCfg} (hT : cfg.T = T) {ps : PState} (hI : Inv G T c w ps) {why : String} {ps' : PState}
    (h : step cfg w ps = .done (.panic why) ps') : LogStep cfg.failAt ps ps' := by
  unfold step at h
  rcases hst : ps.states with _ | ⟨top, rest⟩
  · rw [hst] at h; cases h; exact .inl ⟨rfl, rfl⟩
  · rw [hst] at h
    simp only [] at h
    split at h
    · cases h; exact .inl ⟨rfl, rfl⟩
    · have hl := lookupAct_log cfg.T cfg.errTerm w ps top
      rcases hlk : lookupAct cfg.T cfg.errTerm w ps top with ⟨o, ps1⟩ | ⟨a, ps1⟩
      · rw [hlk] at h hl
        cases h
        exact .inl ⟨hl.1, hl.2.1⟩
      · rw [hlk] at h
        subst hT
        obtain ⟨rfl, ha⟩ := lookupAct_hr hr hlk
        exact doAct_panic_log F rfl hI hst ha h

/-- for validated tables: Parse has made `failAt` calls iff it reports an action error -/
theorem parseLoop_fail_actErr {G : NGrammar} {T : PTables} {c : Cert} (F : SafeFacts G T c)
    (hr : ∀ s : Nat, T.canRecover[s]?.getD false = false) {w : List Nat}
    (hw : 1 ∉ w) {cfg : PCfg} (hT : cfg.T = T) :
    ∀ (fuel : Nat) (ps : PState), Inv G T c w ps → ps.calls < cfg.failAt → ∀ o ps',
      parseLoop cfg w fuel ps = (o, ps') → ps'.calls = cfg.failAt →
      ∃ id i t e s, o = .actErr id i t e s := by
  intro fuel
  induction fuel with
  | zero =>
    intro ps _ h2 o ps' h h3
    simp only [parseLoop, Prod.mk.injEq] at h
    obtain ⟨-, rfl⟩ := h
    omega
  | succ fuel ih =>
    intro ps hI h2 o ps' h h3
    rw [parseLoop_succ] at h
    have hl := step_log cfg w ps
    have hp := step_inv F hr hw hT hI
    rcases hs : step cfg w ps with ⟨o1, ps1⟩ | ps1
    · rw [hs] at h hl
      simp only [StepR.run, Prod.mk.injEq] at h
      obtain ⟨rfl, rfl⟩ := h
      simp only [StepR.logPost] at hl
      rcases hl with ⟨id, -, hf, g1, g2, ⟨_, _, _, _, g3⟩ | ⟨why, g3⟩⟩ | ⟨g0, g1⟩
      · exact ⟨_, _, _, _, _, g3⟩
      · subst g3
        have := step_panic_log F hr hT hI hs
        rcases this with ⟨_, q⟩ | ⟨_, _, q, q'⟩
        · omega
        · omega
      · rcases g1 with ⟨_, q⟩ | ⟨_, _, q, q'⟩
        · omega
        · omega
    · rw [hs] at h hl hp
      simp only [StepR.run] at h
      simp only [StepR.logPost] at hl
      refine ih ps1 hp ?_ o ps' h h3
      rcases hl with ⟨_, q⟩ | ⟨_, _, q, q'⟩ <;> omega

end Gocc
