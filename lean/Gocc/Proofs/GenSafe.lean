import Gocc.Proofs.Validate
import Gocc.Proofs.Termination
import Gocc.Proofs.Numbering
/-
The generator-level safety theorem: for every grammar, the tables computed by the generator model
`genParser` pass the verified table validator `safe` / `safeEnds`, with the model's own item sets as
certificate.

  §A  lists (`idxOf`, `mapM` in `Except`)
  §B  the symbol table computed by `newSymbols` (`ntList` duplicate free, where names come from)
  §C  items: `prodLen`, `expected`, members of `closure` / `goto`
  §D  `lrExpand` / `lrLoop`: the transition invariant, "every state was expanded"
  §E  `setAction` / `itemAction` / `resolve`: the action kept is proposed by an item
  §F  shape of the generated tables; the numbered grammar
  §G  introduction rules for `safe` / `safeEnds` and the assembly
-/
namespace Gocc

/-! ## §A lists -/

theorem idxOf?_eq_idxOf {l : List String} {a : String} (h : a ∈ l) :
    l.idxOf? a = some (l.idxOf a) := by
  rw [List.idxOf?_eq_some_iff]
  refine ⟨List.idxOf_lt_length_of_mem h, List.getElem_idxOf _, ?_⟩
  intro j hj heq
  induction l generalizing j with
  | nil => cases h
  | cons b l ih =>
    rw [List.idxOf_cons] at hj
    cases hb : b == a with
    | true => simp [hb] at hj
    | false =>
      simp only [hb, cond_false] at hj
      have hba : b ≠ a := by simpa using hb
      cases j with
      | zero => exact hba (by simpa using heq)
      | succ j =>
        have ha : a ∈ l := by
          rcases List.mem_cons.1 h with h | h
          · exact absurd h.symm hba
          · exact h
        exact ih ha j (by omega) (by simpa using heq)

theorem mapM_ok_spec {α β : Type} {f : α → Except String β} :
    ∀ {l : List α} {r : List β}, l.mapM f = .ok r →
      r.length = l.length ∧ ∀ (i : Nat) b, r[i]? = some b → ∃ a, l[i]? = some a ∧ f a = .ok b := by
  intro l
  induction l with
  | nil =>
    intro r h
    simp only [List.mapM_nil, pure, Except.pure, Except.ok.injEq] at h
    subst h
    simp
  | cons x xs ih =>
    intro r h
    rw [List.mapM_cons] at h
    simp only [bind, Except.bind] at h
    split at h
    · cases h
    · rename_i b hb
      split at h
      · cases h
      · rename_i bs hbs
        simp only [pure, Except.pure, Except.ok.injEq] at h
        subst h
        obtain ⟨h1, h2⟩ := ih hbs
        refine ⟨by simp [h1], ?_⟩
        intro i b' hi
        cases i with
        | zero =>
          simp only [List.getElem?_cons_zero, Option.some.injEq] at hi
          subst hi
          exact ⟨x, by simp, hb⟩
        | succ i =>
          simp only [List.getElem?_cons_succ] at hi
          obtain ⟨a, ha, hfa⟩ := h2 i b' hi
          exact ⟨a, by simpa using ha, hfa⟩

theorem foldlM_except_inv_mem {σ α : Type} (P : σ → Prop) (f : σ → α → Except String σ)
    (l : List α) (hf : ∀ s x s', x ∈ l → P s → f s x = .ok s' → P s') (init r : σ)
    (h0 : P init) (h : l.foldlM f init = .ok r) : P r := by
  induction l generalizing init with
  | nil =>
    simp only [List.foldlM_nil, pure, Except.pure, Except.ok.injEq] at h
    exact h ▸ h0
  | cons a l ih =>
    rw [List.foldlM_cons] at h
    cases hfa : f init a with
    | error e => simp [hfa, bind, Except.bind] at h
    | ok s1 =>
      simp only [hfa, bind, Except.bind] at h
      exact ih (fun s x s' hx => hf s x s' (List.mem_cons_of_mem _ hx)) s1
        (hf _ _ _ (List.mem_cons_self ..) h0 hfa) h

/-! ## §B the symbol table -/

def synHeads (prods : List SProd) : List String := prods.map (·.head)
def synBodyNames (prods : List SProd) : List String := prods.flatMap fun p => p.body.map (·.name)

theorem symAddSym_ntList {s s' : PSymbols} {sym : SSym} (h : symAddSym s sym = .ok s') :
    s'.ntList = s.ntList := by
  unfold symAddSym at h
  simp only at h
  split at h
  · split at h
    · cases h
    · cases h; rfl
  · cases h; rfl

theorem symAddProd_ntList {s s' : PSymbols} {p : SProd} (h : symAddProd s p = .ok s') :
    s'.ntList = addNoDup s.ntList p.head := by
  unfold symAddProd at h
  exact foldlM_except_inv (fun t => t.ntList = addNoDup s.ntList p.head) symAddSym
    (fun a x b h1 h2 => by rw [symAddSym_ntList h2]; exact h1) _ _ _ rfl h

theorem symAddProd_typeMap_mem {s s' : PSymbols} {p : SProd} (h : symAddProd s p = .ok s') :
    ∀ x ∈ s'.typeMap, x ∈ s.typeMap ∨ x = p.head ∨ x ∈ p.body.map (·.name) := by
  unfold symAddProd at h
  refine foldlM_except_inv_mem
    (fun t => ∀ x ∈ t.typeMap, x ∈ s.typeMap ∨ x = p.head ∨ x ∈ p.body.map (·.name)) symAddSym
    p.body ?_ _ _ ?_ h
  · intro a sym b hsym h1 h2 x hx
    rw [symAddSym_typeMap h2, mem_addNoDup] at hx
    rcases hx with hx | rfl
    · exact h1 x hx
    · exact .inr (.inr (List.mem_map.2 ⟨sym, hsym, rfl⟩))
  · intro x hx
    rw [mem_addNoDup] at hx
    rcases hx with hx | rfl
    · exact .inl hx
    · exact .inr (.inl rfl)

theorem newSymbols_ntList_nodup {prods : List SProd} {S : PSymbols}
    (h : newSymbols prods = .ok S) : S.ntList.Nodup := by
  unfold newSymbols at h
  exact foldlM_except_inv (fun s => s.ntList.Nodup) symAddProd
    (fun a p b h1 h2 => by rw [symAddProd_ntList h2]; exact addNoDup_nodup h1) _ _ _
    (by simp) h

theorem newSymbols_ntList_sub {prods : List SProd} {S : PSymbols}
    (h : newSymbols prods = .ok S) : ∀ x ∈ S.ntList, x ∈ synHeads prods := by
  unfold newSymbols at h
  refine foldlM_except_inv_mem (fun s => ∀ x ∈ s.ntList, x ∈ synHeads prods) symAddProd prods
    ?_ _ _ (by simp) h
  intro a p b hp h1 h2 x hx
  rw [symAddProd_ntList h2, mem_addNoDup] at hx
  rcases hx with hx | rfl
  · exact h1 x hx
  · exact List.mem_map.2 ⟨p, hp, rfl⟩

theorem newSymbols_typeMap_sub {prods : List SProd} {S : PSymbols}
    (h : newSymbols prods = .ok S) : ∀ x ∈ S.typeMap,
      x = "INVALID" ∨ x = "␚" ∨ x ∈ synHeads prods ∨ x ∈ synBodyNames prods := by
  unfold newSymbols at h
  refine foldlM_except_inv_mem (fun s => ∀ x ∈ s.typeMap,
      x = "INVALID" ∨ x = "␚" ∨ x ∈ synHeads prods ∨ x ∈ synBodyNames prods) symAddProd prods
    ?_ _ _ (by simp) h
  intro a p b hp h1 h2 x hx
  rcases symAddProd_typeMap_mem h2 x hx with hx | rfl | hx
  · exact h1 x hx
  · exact .inr (.inr (.inl (List.mem_map.2 ⟨p, hp, rfl⟩)))
  · exact .inr (.inr (.inr (List.mem_flatMap.2 ⟨p, hp, hx⟩)))

/-! ## §C items -/

theorem prodLen_cases (q : SProd) : prodLen q = 0 ∨ prodLen q = q.body.length := by
  unfold prodLen
  split
  · split
    · exact .inl rfl
    · exact .inr rfl
  · exact .inl rfl

theorem len_of_lt {C : LRCtx} {i : Item} (hp : i.p < C.prods.size) :
    C.len i = prodLen C.prods[i.p] := by
  unfold LRCtx.len
  rw [getElem!_pos C.prods i.p hp]

/-- an item with the dot before a symbol: that symbol is a body symbol of the production -/
theorem expected_spec {C : LRCtx} {i : Item} (h : i.d < C.len i) :
    ∃ (hp : i.p < C.prods.size) (s : SSym), (C.prods[i.p]).body[i.d]? = some s ∧
      C.expected i = s.name ∧ prodLen C.prods[i.p] ≠ 0 ∧ C.len i = (C.prods[i.p]).body.length := by
  by_cases hp : i.p < C.prods.size
  · have hlen := len_of_lt hp
    rcases prodLen_cases C.prods[i.p] with h0 | h1
    · omega
    · have hd : i.d < (C.prods[i.p]).body.length := by omega
      refine ⟨hp, (C.prods[i.p]).body[i.d], by simp [hd], ?_, by omega, by omega⟩
      unfold LRCtx.expected
      rw [if_pos h]
      unfold LRCtx.body
      rw [getElem!_pos C.prods i.p hp]
      have hne : (prodLen C.prods[i.p] == 0) = false := by simp; omega
      simp only [hne]
      simp [hd]
  · exfalso
    unfold LRCtx.len at h
    rw [getElem!_neg C.prods i.p hp] at h
    have : prodLen (default : SProd) = 0 := rfl
    omega

theorem mem_closureStep' {C : LRCtx} {i j : Item} (h : j ∈ closureStep C i) :
    j.p < C.prods.size ∧ j.d = 0 ∧ i.d < C.len i ∧ C.prods[j.p]!.head = C.expected i := by
  unfold closureStep at h
  split at h
  · cases h
  · rename_i hc
    dsimp only at h
    simp only [List.mem_flatMap, List.mem_range] at h
    obtain ⟨pi, hpi, hj⟩ := h
    split at hj
    · rename_i hh
      rcases List.mem_map.1 hj with ⟨t, ht, rfl⟩
      simp only [Bool.or_eq_true, decide_eq_true_eq, not_or, Nat.not_le] at hc
      exact ⟨hpi, rfl, hc.1, by simpa using hh⟩
    · cases hj

theorem mem_closureLoop (C : LRCtx) {x : Item} : ∀ (fuel k : Nat) (c : List Item),
    x ∈ closureLoop C fuel k c → x ∈ c ∨ ∃ i0, x ∈ closureStep C i0 := by
  intro fuel
  induction fuel with
  | zero => intro k c h; exact .inl h
  | succ fuel ih =>
    intro k c h
    cases hk : c[k]? with
    | none => simp only [closureLoop, hk] at h; exact .inl h
    | some i =>
      simp only [closureLoop, hk] at h
      rcases ih _ _ h with h' | h'
      · rcases ((foldl_addItem_spec (closureStep C i) c).2.2 x).1 h' with h'' | h''
        · exact .inl h''
        · exact .inr ⟨i, h''⟩
      · exact .inr h'

theorem mem_closure {C : LRCtx} {K : List Item} {x : Item} (h : x ∈ closure C K) :
    x ∈ K ∨ ∃ i0, x ∈ closureStep C i0 := by
  unfold closure at h
  rcases mem_closureLoop C _ _ _ h with h' | h'
  · rcases ((foldl_addItem_spec K []).2.2 x).1 h' with h'' | h''
    · cases h''
    · exact .inl h''
  · exact .inr h'

theorem closure_subset (C : LRCtx) (items : List Item) :
    ∀ i ∈ items, i ∈ closure C items := by
  intro i hi
  unfold closure
  exact (closureLoop_prefix_nodup C _ 0 _).1.subset
    (((foldl_addItem_spec items []).2.2 i).2 (Or.inr hi))

theorem mem_goto {C : LRCtx} {I : List Item} {X : String} {x : Item} (h : x ∈ goto C I X) :
    (∃ i ∈ I, i.d < C.len i ∧ C.expected i = X ∧ x = { i with d := i.d + 1 }) ∨
    (x.d = 0 ∧ x.p < C.prods.size ∧
      ∃ i0 : Item, i0.d < C.len i0 ∧ C.prods[x.p]!.head = C.expected i0) := by
  unfold goto at h
  dsimp only at h
  split at h
  · cases h
  · rcases mem_closure h with h' | ⟨i0, h'⟩
    · left
      rcases List.mem_map.1 h' with ⟨i, hi, rfl⟩
      rw [List.mem_filter] at hi
      simp only [Bool.and_eq_true, decide_eq_true_eq, beq_iff_eq] at hi
      exact ⟨i, hi.1, hi.2.1, hi.2.2, rfl⟩
    · right
      obtain ⟨h1, h2, h3, h4⟩ := mem_closureStep' h'
      exact ⟨h2, h1, i0, h3, h4⟩

theorem goto_mem_of {C : LRCtx} {I : List Item} {X : String} {i : Item} (hi : i ∈ I)
    (hd : i.d < C.len i) (hX : C.expected i = X) : ({ i with d := i.d + 1 } : Item) ∈ goto C I X := by
  unfold goto
  dsimp only
  have hJ : ({ i with d := i.d + 1 } : Item) ∈
      (I.filter fun i => i.d < C.len i && C.expected i == X).map fun i => { i with d := i.d + 1 } := by
    refine List.mem_map.2 ⟨i, ?_, rfl⟩
    rw [List.mem_filter]
    exact ⟨hi, by simp [hd, hX]⟩
  split
  · rename_i he
    rw [List.isEmpty_iff] at he
    rw [he] at hJ
    cases hJ
  · exact closure_subset C _ _ hJ

/-- `S'` (the head of production 0) is never expected by an item -/
def NoStartRef (C : LRCtx) : Prop :=
  ∀ i0 : Item, i0.d < C.len i0 → C.prods[0]!.head ≠ C.expected i0

theorem goto_no_start {C : LRCtx} (hS : NoStartRef C) {I : List Item} {X : String} {x : Item}
    (h : x ∈ goto C I X) : ¬ (x.p = 0 ∧ x.d = 0) := by
  rintro ⟨hp, hd⟩
  rcases mem_goto h with ⟨i, _, _, _, rfl⟩ | ⟨_, _, i0, h3, h4⟩
  · simp at hd
  · rw [hp] at h4
    exact hS i0 h3 h4

def ItemOk (C : LRCtx) (x : Item) : Prop := x.p < C.prods.size ∧ x.d ≤ C.len x

theorem goto_itemOk {C : LRCtx} {I : List Item} {X : String} {x : Item} (h : x ∈ goto C I X) :
    ItemOk C x := by
  rcases mem_goto h with ⟨i, _, hd, _, rfl⟩ | ⟨h1, h2, _⟩
  · obtain ⟨hp, _⟩ := expected_spec hd
    exact ⟨hp, hd⟩
  · exact ⟨h2, by omega⟩

theorem closure0_mem {C : LRCtx} {la : String} {x : Item} (h0 : 0 < C.prods.size)
    (h : x ∈ closure C [⟨0, 0, la⟩]) : x.d = 0 ∧ x.p < C.prods.size := by
  rcases mem_closure h with h' | ⟨i0, h'⟩
  · have : x = ⟨0, 0, la⟩ := by simpa using h'
    subst this
    exact ⟨rfl, h0⟩
  · obtain ⟨h1, h2, _⟩ := mem_closureStep' h'
    exact ⟨h2, h1⟩

theorem sameItems_sub {a b : List Item} (h : sameItems a b = true) : ∀ x ∈ a, x ∈ b := by
  unfold sameItems at h
  simp only [Bool.and_eq_true, List.all_eq_true, List.contains_iff_mem] at h
  exact h.2

theorem sameItems_refl (a : List Item) : sameItems a a = true := by
  unfold sameItems
  simp

/-- no `goto` set has the same items as the initial state -/
theorem sameItems_init_goto {C : LRCtx} (hS : NoStartRef C) (la : String) (I : List Item)
    (X : String) : sameItems (closure C [⟨0, 0, la⟩]) (goto C I X) = false := by
  cases h : sameItems (closure C [⟨0, 0, la⟩]) (goto C I X) with
  | false => rfl
  | true =>
    have := sameItems_sub h ⟨0, 0, la⟩ (closure_subset C _ _ (by simp))
    exact absurd ⟨rfl, rfl⟩ (goto_no_start hS this)

/-! ## §D `lrExpand` / `lrLoop` -/

/-- the body of the `for X in symbols` loop of `lrExpand` -/
def expStep (C : LRCtx) (i : Nat) (sets : Array LRState) (X : String) : Array LRState :=
  let gto := goto C sets[i]!.items X
  if gto.isEmpty then sets
  else
    match sets.findIdx? (fun s => sameItems s.items gto) with
    | some idx => sets.modify i fun s => { s with trans := s.trans ++ [(X, idx)] }
    | none =>
      let sets := sets.push { items := gto }
      sets.modify i fun s => { s with trans := s.trans ++ [(X, sets.size - 1)] }

theorem lrExpand_eq (C : LRCtx) (sets : Array LRState) (i : Nat) :
    lrExpand C sets i = C.S.typeMap.foldl (expStep C i) sets := rfl

/-- invariant of the item-set construction: state 0 is the initial set, every other state is
    some `goto` set, every recorded transition `(X, idx)` of a state leads to a state `≠ 0` whose
    items are the `goto` set on `X` (up to order). -/
structure LRInv (C : LRCtx) (I0 : List Item) (sets : Array LRState) : Prop where
  zero : ∃ st, sets[0]? = some st ∧ st.items = I0
  isGoto : ∀ (j : Nat) (st : LRState), sets[j]? = some st → 0 < j → ∃ I X, st.items = goto C I X
  trans : ∀ (j : Nat) (st : LRState), sets[j]? = some st → ∀ e ∈ st.trans,
    e.2 ≠ 0 ∧ ∃ st', sets[e.2]? = some st' ∧ sameItems st'.items (goto C st.items e.1) = true

/-- states are only appended, item sets never change, transition lists only grow -/
def Ext (a b : Array LRState) : Prop :=
  ∀ (j : Nat) (st : LRState), a[j]? = some st →
    ∃ st', b[j]? = some st' ∧ st'.items = st.items ∧ ∀ e ∈ st.trans, e ∈ st'.trans

theorem Ext.refl (a : Array LRState) : Ext a a := fun _ st h => ⟨st, h, rfl, fun _ he => he⟩

theorem Ext.trans {a b c : Array LRState} (h1 : Ext a b) (h2 : Ext b c) : Ext a c := by
  intro j st h
  obtain ⟨st1, g1, g2, g3⟩ := h1 j st h
  obtain ⟨st2, k1, k2, k3⟩ := h2 j st1 g1
  exact ⟨st2, k1, by rw [k2, g2], fun e he => k3 e (g3 e he)⟩

theorem Ext.size_le {a b : Array LRState} (h : Ext a b) : a.size ≤ b.size := by
  cases hs : a.size with
  | zero => omega
  | succ n =>
    have hn : n < a.size := by omega
    obtain ⟨st', h', _⟩ := h n a[n] (Array.getElem?_eq_getElem hn)
    have := (Array.getElem?_eq_some_iff.1 h').1
    omega

theorem Ext.push (a : Array LRState) (s : LRState) : Ext a (a.push s) := by
  intro j st h
  have hj := (Array.getElem?_eq_some_iff.1 h).1
  refine ⟨st, ?_, rfl, fun _ he => he⟩
  rw [Array.getElem?_push, if_neg (by omega)]
  exact h

theorem LRInv.push {C : LRCtx} {I0 : List Item} {sets : Array LRState} (h : LRInv C I0 sets)
    (s : LRState) (hs : ∃ I X, s.items = goto C I X) (ht : s.trans = []) :
    LRInv C I0 (sets.push s) := by
  have hE := Ext.push sets s
  refine ⟨?_, ?_, ?_⟩
  · obtain ⟨st, h1, h2⟩ := h.zero
    obtain ⟨st', g1, g2, _⟩ := hE 0 st h1
    exact ⟨st', g1, by rw [g2, h2]⟩
  · intro j st hj hpos
    rw [Array.getElem?_push] at hj
    split at hj
    · cases hj; exact hs
    · exact h.isGoto j st hj hpos
  · intro j st hj e he
    rw [Array.getElem?_push] at hj
    split at hj
    · cases hj; rw [ht] at he; cases he
    · obtain ⟨g1, st', g2, g3⟩ := h.trans j st hj e he
      obtain ⟨st'', k1, k2, _⟩ := hE _ st' g2
      exact ⟨g1, st'', k1, by rw [k2]; exact g3⟩

theorem modify_get {sets : Array LRState} {i j : Nat} {X : String} {idx : Nat} {st' : LRState}
    (h : (sets.modify i fun s => { s with trans := s.trans ++ [(X, idx)] })[j]? = some st') :
    ∃ st, sets[j]? = some st ∧ st'.items = st.items ∧
      (st'.trans = st.trans ∨ (i = j ∧ st'.trans = st.trans ++ [(X, idx)])) := by
  rw [Array.getElem?_modify] at h
  split at h
  · rename_i hij
    rcases hs : sets[j]? with _ | st
    · rw [hs] at h; cases h
    · rw [hs] at h
      simp only [Option.map_some, Option.some.injEq] at h
      subst h
      exact ⟨st, rfl, rfl, .inr ⟨hij, rfl⟩⟩
  · exact ⟨st', h, rfl, .inl rfl⟩

theorem Ext.modify (sets : Array LRState) (i : Nat) (X : String) (idx : Nat) :
    Ext sets (sets.modify i fun s => { s with trans := s.trans ++ [(X, idx)] }) := by
  intro j st h
  rw [Array.getElem?_modify]
  split
  · rw [h]
    exact ⟨_, rfl, rfl, fun e he => List.mem_append_left _ he⟩
  · exact ⟨st, h, rfl, fun _ he => he⟩

theorem LRInv.modify {C : LRCtx} {I0 : List Item} {sets : Array LRState} (h : LRInv C I0 sets)
    {i idx : Nat} {X : String} {sti stx : LRState} (hi : sets[i]? = some sti)
    (hx : sets[idx]? = some stx) (h0 : idx ≠ 0)
    (hsame : sameItems stx.items (goto C sti.items X) = true) :
    LRInv C I0 (sets.modify i fun s => { s with trans := s.trans ++ [(X, idx)] }) := by
  have hE := Ext.modify sets i X idx
  refine ⟨?_, ?_, ?_⟩
  · obtain ⟨st, h1, h2⟩ := h.zero
    obtain ⟨st', g1, g2, _⟩ := hE 0 st h1
    exact ⟨st', g1, by rw [g2, h2]⟩
  · intro j st' hj hpos
    obtain ⟨st, g1, g2, _⟩ := modify_get hj
    rw [g2]
    exact h.isGoto j st g1 hpos
  · intro j st' hj e he
    obtain ⟨st, g1, g2, g3⟩ := modify_get hj
    have hold : e ∈ st.trans → e.2 ≠ 0 ∧ ∃ st'', (sets.modify i fun s =>
        { s with trans := s.trans ++ [(X, idx)] })[e.2]? = some st'' ∧
        sameItems st''.items (goto C st'.items e.1) = true := by
      intro he'
      obtain ⟨k1, st2, k2, k3⟩ := h.trans j st g1 e he'
      obtain ⟨st3, m1, m2, _⟩ := hE _ st2 k2
      exact ⟨k1, st3, m1, by rw [m2, g2]; exact k3⟩
    rcases g3 with g3 | ⟨hij, g3⟩
    · rw [g3] at he; exact hold he
    · rw [g3] at he
      rcases List.mem_append.1 he with he | he
      · exact hold he
      · have : e = (X, idx) := by simpa using he
        subst this
        subst hij
        rw [hi] at g1
        cases g1
        obtain ⟨st3, m1, m2, _⟩ := hE _ stx hx
        exact ⟨h0, st3, m1, by rw [m2, g2]; exact hsame⟩

theorem getBang_of_get? {sets : Array LRState} {i : Nat} {st : LRState} (h : sets[i]? = some st) :
    sets[i]! = st := by
  have hi := (Array.getElem?_eq_some_iff.1 h).1
  rw [getElem!_pos sets i hi]
  exact (Array.getElem?_eq_some_iff.1 h).2

theorem expStep_spec {C : LRCtx} {I0 : List Item}
    (hI0 : ∀ I X, sameItems I0 (goto C I X) = false) {sets : Array LRState} {i : Nat}
    {sti : LRState} (X : String) (hinv : LRInv C I0 sets) (hi : sets[i]? = some sti) :
    LRInv C I0 (expStep C i sets X) ∧ Ext sets (expStep C i sets X) ∧
    (goto C sti.items X ≠ [] →
      ∃ st', (expStep C i sets X)[i]? = some st' ∧ ∃ idx, (X, idx) ∈ st'.trans) := by
  unfold expStep
  rw [getBang_of_get? hi]
  dsimp only
  split
  · rename_i he
    exact ⟨hinv, Ext.refl _, fun hne => absurd (List.isEmpty_iff.1 he) hne⟩
  · split
    · rename_i idx hf
      obtain ⟨hlt, hsame, _⟩ := Array.findIdx?_eq_some_iff_getElem.1 hf
      have hx : sets[idx]? = some sets[idx] := Array.getElem?_eq_getElem hlt
      have h0 : idx ≠ 0 := by
        rintro rfl
        obtain ⟨st, h1, h2⟩ := hinv.zero
        rw [hx] at h1
        cases h1
        rw [h2, hI0] at hsame
        cases hsame
      refine ⟨hinv.modify hi hx h0 hsame, Ext.modify _ _ _ _, fun _ => ?_⟩
      rw [Array.getElem?_modify, if_pos rfl, hi]
      exact ⟨_, rfl, idx, by simp⟩
    · have hsz : (sets.push { items := goto C sti.items X }).size - 1 = sets.size := by simp
      rw [hsz]
      have hE := Ext.push sets { items := goto C sti.items X }
      have hinv1 := hinv.push { items := goto C sti.items X } ⟨_, _, rfl⟩ rfl
      obtain ⟨sti1, g1, g2, g3⟩ := hE i sti hi
      have hpos : 0 < sets.size := by
        obtain ⟨st, h1, _⟩ := hinv.zero
        exact (Array.getElem?_eq_some_iff.1 h1).1
      have hx : (sets.push { items := goto C sti.items X })[sets.size]? =
          some { items := goto C sti.items X } := by
        rw [Array.getElem?_push, if_pos rfl]
      refine ⟨hinv1.modify g1 hx (by omega) (by rw [g2]; exact sameItems_refl _),
        hE.trans (Ext.modify _ _ _ _), fun _ => ?_⟩
      rw [Array.getElem?_modify, if_pos rfl, g1]
      exact ⟨_, rfl, sets.size, by simp⟩

theorem expand_fold {C : LRCtx} {I0 : List Item}
    (hI0 : ∀ I X, sameItems I0 (goto C I X) = false) (i : Nat) :
    ∀ (l : List String) (sets : Array LRState) (sti : LRState), LRInv C I0 sets →
      sets[i]? = some sti →
      LRInv C I0 (l.foldl (expStep C i) sets) ∧ Ext sets (l.foldl (expStep C i) sets) ∧
      ∀ X ∈ l, goto C sti.items X ≠ [] →
        ∃ st', (l.foldl (expStep C i) sets)[i]? = some st' ∧ ∃ idx, (X, idx) ∈ st'.trans := by
  intro l
  induction l with
  | nil => intro sets sti h _; exact ⟨h, Ext.refl _, by simp⟩
  | cons Y l ih =>
    intro sets sti hinv hi
    rw [List.foldl_cons]
    obtain ⟨s1, s2, s3⟩ := expStep_spec hI0 Y hinv hi
    obtain ⟨sti1, g1, g2, g3⟩ := s2 i sti hi
    obtain ⟨r1, r2, r3⟩ := ih (expStep C i sets Y) sti1 s1 g1
    refine ⟨r1, s2.trans r2, ?_⟩
    intro X hX hne
    rcases List.mem_cons.1 hX with rfl | hX
    · obtain ⟨st', k1, idx, k2⟩ := s3 hne
      obtain ⟨st'', m1, _, m3⟩ := r2 i st' k1
      exact ⟨st'', m1, idx, m3 _ k2⟩
    · exact r3 X hX (by rw [g2]; exact hne)

/-- state `j` has been processed by `lrExpand`: every non-empty `goto` set has its transition -/
def Expanded (C : LRCtx) (sets : Array LRState) (j : Nat) : Prop :=
  ∀ st : LRState, sets[j]? = some st → ∀ X ∈ C.S.typeMap, goto C st.items X ≠ [] →
    ∃ idx, (X, idx) ∈ st.trans

theorem Expanded.ext {C : LRCtx} {a b : Array LRState} {j : Nat} (hj : j < a.size)
    (h : Expanded C a j) (hE : Ext a b) : Expanded C b j := by
  intro st' hst' X hX hne
  obtain ⟨st2, g1, g2, g3⟩ := hE j a[j] (Array.getElem?_eq_getElem hj)
  rw [hst'] at g1
  cases g1
  obtain ⟨idx, hidx⟩ := h a[j] (Array.getElem?_eq_getElem hj) X hX (by rw [← g2]; exact hne)
  exact ⟨idx, g3 _ hidx⟩

theorem lrExpand_spec {C : LRCtx} {I0 : List Item}
    (hI0 : ∀ I X, sameItems I0 (goto C I X) = false) {sets : Array LRState} {i : Nat}
    (hinv : LRInv C I0 sets) (hi : i < sets.size) :
    LRInv C I0 (lrExpand C sets i) ∧ Ext sets (lrExpand C sets i) ∧
      Expanded C (lrExpand C sets i) i := by
  rw [lrExpand_eq]
  obtain ⟨r1, r2, r3⟩ := expand_fold hI0 i C.S.typeMap sets sets[i] hinv (Array.getElem?_eq_getElem hi)
  refine ⟨r1, r2, ?_⟩
  intro st hst X hX hne
  obtain ⟨st2, g1, g2, _⟩ := r2 i sets[i] (Array.getElem?_eq_getElem hi)
  rw [hst] at g1
  cases g1
  obtain ⟨st', k1, k2⟩ := r3 X hX (by rw [← g2]; exact hne)
  rw [hst] at k1
  cases k1
  exact k2

theorem lrLoop_spec {C : LRCtx} {I0 : List Item}
    (hI0 : ∀ I X, sameItems I0 (goto C I X) = false) :
    ∀ (fuel i : Nat) (sets : Array LRState), LRInv C I0 sets → i ≤ sets.size →
      (∀ j, j < i → Expanded C sets j) →
      LRInv C I0 (lrLoop C fuel i sets) ∧ Ext sets (lrLoop C fuel i sets) ∧
      ((lrLoop C fuel i sets).size ≤ i + fuel →
        ∀ j, j < (lrLoop C fuel i sets).size → Expanded C (lrLoop C fuel i sets) j) := by
  intro fuel
  induction fuel with
  | zero =>
    intro i sets hinv hi hexp
    simp only [lrLoop]
    exact ⟨hinv, Ext.refl _, fun hsz j hj => hexp j (by omega)⟩
  | succ fuel ih =>
    intro i sets hinv hi hexp
    simp only [lrLoop]
    split
    · rename_i hlt
      obtain ⟨e1, e2, e3⟩ := lrExpand_spec hI0 hinv hlt
      have hsz := e2.size_le
      obtain ⟨r1, r2, r3⟩ := ih (i + 1) (lrExpand C sets i) e1 (by omega) (by
        intro j hj
        by_cases hji : j = i
        · subst hji; exact e3
        · exact (hexp j (by omega)).ext (by omega) e2)
      exact ⟨r1, e2.trans r2, fun hs => r3 (by omega)⟩
    · exact ⟨hinv, Ext.refl _, fun _ j hj => hexp j (by omega)⟩

theorem LRInv.init (C : LRCtx) (I0 : List Item) : LRInv C I0 #[{ items := I0 }] := by
  refine ⟨⟨_, rfl, rfl⟩, ?_, ?_⟩
  · intro j st hj hpos
    have := (Array.getElem?_eq_some_iff.1 hj).1
    simp at this
    omega
  · intro j st hj e he
    have hlt := (Array.getElem?_eq_some_iff.1 hj).1
    have : j = 0 := by simp at hlt; omega
    subst this
    simp at hj
    subst hj
    cases he

theorem LRState.next_some {st : LRState} {X : String} {n : Nat} (h : st.next X = some n) :
    (X, n) ∈ st.trans := by
  unfold LRState.next at h
  rcases hf : st.trans.find? (·.1 == X) with _ | e
  · rw [hf] at h; cases h
  · rw [hf] at h
    simp only [Option.map_some, Option.some.injEq] at h
    have h1 := List.mem_of_find?_eq_some hf
    have h2 := List.find?_some hf
    have : e.1 = X := by simpa using h2
    rw [← this, ← h]
    exact h1

theorem LRState.next_of_mem {st : LRState} {X : String} {idx : Nat} (h : (X, idx) ∈ st.trans) :
    ∃ n, st.next X = some n := by
  unfold LRState.next
  rcases hf : st.trans.find? (·.1 == X) with _ | e
  · rw [List.find?_eq_none] at hf
    exact absurd (by simp) (hf _ h)
  · exact ⟨e.2, by rw [hf]; rfl⟩

/-! ## §E actions -/

theorem resolve_mem {a b r : Act} (h : resolve a b = .ok r) : r = a ∨ r = b := by
  cases a <;> cases b <;> simp only [resolve, reduceCtorEq, Except.ok.injEq] at h
  · exact .inl h.symm
  · exact .inr h.symm
  · subst h
    split
    · exact .inl rfl
    · exact .inr rfl

/-- the fold of `setAction` only ever keeps an action proposed by one of the items -/
theorem setAction_fold_mem {C : LRCtx} {sym : String} {next : Nat} :
    ∀ (items : List Item) (acc res : Option Act × Bool),
      items.foldlM (fun (acc : Option Act × Bool) i =>
        match itemAction C i sym next, acc.1 with
        | none, _ => (pure acc : Except String (Option Act × Bool))
        | some a2, none => pure (some a2, acc.2)
        | some a2, some a1 =>
          if a1 == a2 then pure acc
          else do
            let r ← resolve a1 a2
            pure (some r, true)) acc = .ok res →
      ∀ a, res.1 = some a → acc.1 = some a ∨ ∃ i ∈ items, itemAction C i sym next = some a := by
  intro items
  induction items with
  | nil =>
    intro acc res h a ha
    simp only [List.foldlM_nil, pure, Except.pure, Except.ok.injEq] at h
    subst h
    exact .inl ha
  | cons i items ih =>
    intro acc res h a ha
    rw [List.foldlM_cons] at h
    simp only [bind, Except.bind] at h
    split at h
    · cases h
    · rename_i acc1 hstep
      rcases ih acc1 res h a ha with h1 | ⟨j, hj, h1⟩
      · -- the new accumulator holds `a`: it is the old one or proposed by `i`
        split at hstep
        · simp only [pure, Except.pure, Except.ok.injEq] at hstep
          subst hstep
          exact .inl h1
        · rename_i a2 hia hacc
          simp only [pure, Except.pure, Except.ok.injEq] at hstep
          subst hstep
          simp only [Option.some.injEq] at h1
          subst h1
          exact .inr ⟨i, List.mem_cons_self .., hia⟩
        · rename_i a2 a1 hia hacc
          split at hstep
          · simp only [pure, Except.pure, Except.ok.injEq] at hstep
            subst hstep
            exact .inl h1
          · split at hstep
            · cases hstep
            · rename_i r hr
              simp only [pure, Except.pure, Except.ok.injEq] at hstep
              subst hstep
              simp only [Option.some.injEq] at h1
              subst h1
              rcases resolve_mem hr with rfl | rfl
              · exact .inl hacc
              · exact .inr ⟨i, List.mem_cons_self .., hia⟩
      · exact .inr ⟨j, List.mem_cons_of_mem _ hj, h1⟩

theorem setAction_mem {C : LRCtx} {st : LRState} {sym : String} {a : Act} {b : Bool}
    (h : setAction C st sym = .ok (some a, b)) :
    ∃ i ∈ st.items, itemAction C i sym ((st.next sym).getD 0) = some a := by
  unfold setAction at h
  rcases setAction_fold_mem st.items (none, false) (some a, b) h a rfl with h1 | h1
  · cases h1
  · exact h1

theorem itemAction_shift {C : LRCtx} {i : Item} {sym : String} {nx n : Nat}
    (h : itemAction C i sym nx = some (.shift n)) : n = nx ∧ sym = C.expected i := by
  unfold itemAction at h
  dsimp only at h
  split at h
  · cases h
  · split at h
    · cases h
    · split at h
      · cases h
      · split at h
        · rename_i he
          simp only [Option.some.injEq, Act.shift.injEq] at h
          exact ⟨h.symm, by simpa using he⟩
        · cases h

theorem itemAction_reduce {C : LRCtx} {i : Item} {sym : String} {nx p : Nat}
    (h : itemAction C i sym nx = some (.reduce p)) :
    p = i.p ∧ (C.len i = 0 ∨ C.len i ≤ i.d) ∧ i.la = sym := by
  unfold itemAction at h
  dsimp only at h
  split at h
  · cases h
  · split at h
    · cases h
    · split at h
      · rename_i he
        simp only [Option.some.injEq, Act.reduce.injEq] at h
        simp only [Bool.and_eq_true, Bool.or_eq_true, beq_iff_eq, decide_eq_true_eq] at he
        exact ⟨h.symm, he.1, he.2⟩
      · split at h <;> cases h

theorem itemAction_accept {C : LRCtx} {i : Item} {sym : String} {nx : Nat}
    (h : itemAction C i sym nx = some .accept) :
    i.p = 0 ∧ C.len i ≤ i.d ∧ sym = "␚" := by
  unfold itemAction at h
  dsimp only at h
  split at h
  · cases h
  · split at h
    · rename_i he
      simp only [Bool.and_eq_true, beq_iff_eq, decide_eq_true_eq] at he
      exact ⟨he.1.1.1, he.1.1.2, he.2⟩
    · split at h
      · cases h
      · split at h <;> cases h

/-! ## §F the generated tables, the numbered grammar, the certificate -/

def gotoRow (ntList : List String) (st : LRState) : Array Int :=
  (ntList.map fun nt => match st.next nt with
    | some n => (n : Int)
    | none => -1).toArray

/-- the table fields of a successful `genParser` run (complements `genParser_shape`) -/
theorem genParser_tables {syn : List SProd} {ids : List String} {r : LRResult}
    (h : genParser syn ids = .ok r) :
    ∃ rows, r.states.toList.mapM (fun st => r.ctx.S.terminals.mapM (setAction r.ctx st)) = .ok rows ∧
      r.tables.terminals = r.ctx.S.terminals ∧ r.tables.nts = r.ctx.S.ntList ∧
      r.tables.action = (rows.map fun row => (row.map (·.1)).toArray).toArray ∧
      r.tables.goto_ = r.states.map (gotoRow r.ctx.S.ntList) ∧
      r.tables.prodNT = (augment syn).toArray.map (fun p => r.ctx.S.ntList.idxOf p.head) ∧
      r.tables.prodLen = (augment syn).toArray.map prodLen ∧
      r.tables.nStates = r.states.size := by
  unfold genParser at h
  simp only [bind, Except.bind] at h
  split at h
  · cases h
  · rename_i S0 hS0
    split at h
    · cases h
    · rename_i rows hrows
      simp only [pure, Except.pure] at h
      cases h
      exact ⟨rows, hrows, rfl, rfl, rfl, rfl, rfl, rfl, rfl⟩

/-- the numbering of a body symbol used by `ngrammarOf` -/
def symOf (terms nts : List String) (name : String) : Sym :=
  match nts.idxOf? name with
  | some k => Sym.nt k
  | none => Sym.t ((terms.idxOf? name).getD 0)

theorem symOf_term {terms nts : List String} {t : Nat} {X : String} (hn : terms.Nodup)
    (ht : terms[t]? = some X) (hX : X ∉ nts) : symOf terms nts X = Sym.t t := by
  unfold symOf
  rw [List.idxOf?_eq_none_iff.2 hX]
  obtain ⟨hlt, rfl⟩ := List.getElem?_eq_some_iff.1 ht
  simp only
  rw [idxOf?_getElem_of_nodup terms hn t hlt]
  rfl

theorem symOf_nt {terms nts : List String} {A : Nat} {X : String} (hn : nts.Nodup)
    (hA : nts[A]? = some X) : symOf terms nts X = Sym.nt A := by
  unfold symOf
  obtain ⟨hlt, rfl⟩ := List.getElem?_eq_some_iff.1 hA
  rw [idxOf?_getElem_of_nodup nts hn A hlt]

theorem ngrammarOf_size (prods : List SProd) (terms nts : List String) :
    (ngrammarOf prods terms nts).prods.size = prods.length := by
  simp [ngrammarOf]

theorem ngrammarOf_head {prods : List SProd} (terms nts : List String) {p : Nat}
    (hp : p < prods.length) :
    (ngrammarOf prods terms nts).head p = (nts.idxOf? prods[p].head).getD 0 := by
  simp [NGrammar.head, ngrammarOf, hp]

theorem ngrammarOf_body {prods : List SProd} (terms nts : List String) {p : Nat}
    (hp : p < prods.length) :
    (ngrammarOf prods terms nts).body p =
      if prodLen prods[p] == 0 then [] else prods[p].body.map fun s => symOf terms nts s.name := by
  simp only [NGrammar.body, ngrammarOf, List.getElem?_toArray, List.getElem?_map,
    List.getElem?_eq_getElem hp, Option.map_some, Option.getD_some]
  rfl

theorem ngrammarOf_body_length {prods : List SProd} (terms nts : List String) {p : Nat}
    (hp : p < prods.length) :
    ((ngrammarOf prods terms nts).body p).length = prodLen prods[p] := by
  rw [ngrammarOf_body terms nts hp]
  rcases prodLen_cases prods[p] with h | h
  · simp [h]
  · split
    · rename_i h0
      simp only [beq_iff_eq] at h0
      simp [h0]
    · simp [h]

theorem ctx_prod {C : LRCtx} {prods : List SProd} (hC : C.prods = prods.toArray) {p : Nat}
    (hp : p < C.prods.size) : ∃ hp' : p < prods.length, C.prods[p] = prods[p] := by
  cases C with
  | mk P S fs =>
    simp only at hC
    subst hC
    exact ⟨by simpa using hp, by simp⟩

/-- the symbol after the dot, in the numbered grammar -/
theorem body_at {C : LRCtx} {prods : List SProd} (hC : C.prods = prods.toArray)
    (terms nts : List String) {i : Item} (h : i.d < C.len i) :
    ((ngrammarOf prods terms nts).body i.p)[i.d]? = some (symOf terms nts (C.expected i)) := by
  obtain ⟨hp, s, hs, hexp, hne, _⟩ := expected_spec h
  obtain ⟨hp', heq⟩ := ctx_prod hC hp
  rw [heq] at hs hne
  rw [ngrammarOf_body terms nts hp', hexp]
  have : (prodLen prods[i.p] == 0) = false := by simpa using hne
  simp only [this, Bool.false_eq_true, if_false, List.getElem?_map, hs, Option.map_some]

theorem expected_mem_bodyNames {C : LRCtx} {prods : List SProd} (hC : C.prods = prods.toArray)
    {i : Item} (h : i.d < C.len i) : C.expected i ∈ synBodyNames prods := by
  obtain ⟨hp, s, hs, hexp, _, _⟩ := expected_spec h
  obtain ⟨hp', heq⟩ := ctx_prod hC hp
  rw [heq] at hs
  rw [hexp]
  exact List.mem_flatMap.2 ⟨prods[i.p], List.getElem_mem hp',
    List.mem_map.2 ⟨s, List.mem_of_getElem? hs, rfl⟩⟩

theorem mem_certOf {states : Array LRState} {s p d : Nat} :
    (p, d) ∈ (certOf states)[s]?.getD [] ↔
      ∃ st, states[s]? = some st ∧ ∃ x ∈ st.items, x.p = p ∧ x.d = d := by
  unfold certOf
  rw [Array.getElem?_map]
  rcases states[s]? with _ | st
  · simp
  · simp only [Option.map_some, Option.getD_some, List.mem_eraseDups, List.mem_map,
      Prod.mk.injEq, Option.some.injEq, exists_eq_left']

/-- The side condition on the spellings used in a grammar (decidable).
    * `syn` is not empty; its first head — the start symbol — is spelled neither `S'` nor `empty`;
    * no head is spelled `␚` or `INVALID` (they would stop being terminals 1 and 0);
    * no body symbol is spelled `S'`, `␚` or `` (the empty string), and no token id is ``. -/
def NamesOk (syn : List SProd) (tokIds : List String) : Prop :=
  syn ≠ [] ∧ (∀ p ∈ syn.take 1, p.head ≠ "S'" ∧ p.head ≠ "empty") ∧
  "␚" ∉ synHeads syn ∧ "INVALID" ∉ synHeads syn ∧
  "S'" ∉ synBodyNames syn ∧ "␚" ∉ synBodyNames syn ∧ "" ∉ synBodyNames syn ∧ "" ∉ tokIds

instance (syn : List SProd) (tokIds : List String) : Decidable (NamesOk syn tokIds) := by
  unfold NamesOk; infer_instance

/-- what `NamesOk` buys, in terms of the generator's context -/
structure SymFacts (prods : List SProd) (C : LRCtx) : Prop where
  prods_eq : C.prods = prods.toArray
  ntsNodup : C.S.ntList.Nodup
  termsNodup : C.S.terminals.Nodup
  term1 : C.S.terminals[1]? = some "␚"
  term : ∀ X ∈ C.S.terminals, X ∉ C.S.ntList ∧ X ∈ C.S.typeMap ∧ X ≠ ""
  heads : ∀ p ∈ prods, p.head ∈ C.S.ntList
  prod0 : ∃ q rest, prods = { head := "S'", body := [⟨.prodId, q⟩] } :: rest ∧ q ≠ "empty" ∧
    q ∈ C.S.ntList
  noStart : NoStartRef C
  noEof : ∀ i : Item, i.d < C.len i → C.expected i ≠ "␚"

theorem symFacts_of {syn : List SProd} {ids : List String} {r : LRResult}
    (h : genParser syn ids = .ok r) (hn : NamesOk syn ids) : SymFacts (augment syn) r.ctx := by
  obtain ⟨S0, hS0, hctx, -⟩ := genParser_shape h
  obtain ⟨n1, n2, n3, n4, n5, n6, n7, n8⟩ := hn
  obtain ⟨q, rest, rfl⟩ : ∃ q rest, syn = q :: rest := by
    cases syn with
    | nil => exact absurd rfl n1
    | cons q rest => exact ⟨q, rest, rfl⟩
  have hq := n2 q (by simp)
  have hprods : r.ctx.prods = (augment (q :: rest)).toArray := by rw [hctx]
  have hS : r.ctx.S = S0.addTokens ids := by rw [hctx]
  have hnt : r.ctx.S.ntList = S0.ntList := by rw [hS]; rfl
  have htm : ∀ x, x ∈ r.ctx.S.typeMap ↔ x ∈ S0.typeMap ∨ x ∈ ids := by
    intro x; rw [hS]; exact mem_foldl_addNoDup ids S0.typeMap x
  have hheads : synHeads (augment (q :: rest)) = "S'" :: synHeads (q :: rest) := rfl
  have hbodies : synBodyNames (augment (q :: rest)) = q.head :: synBodyNames (q :: rest) := rfl
  have hqh : q.head ∈ synHeads (q :: rest) := by simp [synHeads]
  have hW := newSymbols_WFp hS0
  have hheadsNt : ∀ p ∈ augment (q :: rest), p.head ∈ r.ctx.S.ntList := by
    intro p hp; rw [hnt]; exact (hW p hp).1
  have hnotNt : ∀ x, x ∉ synHeads (q :: rest) → x ≠ "S'" → x ∉ r.ctx.S.ntList := by
    intro x hx hx' hmem
    rw [hnt] at hmem
    have := newSymbols_ntList_sub hS0 x hmem
    rw [hheads] at this
    rcases List.mem_cons.1 this with h' | h'
    · exact hx' h'
    · exact hx h'
  have hnum := terminals_numbering r.ctx.S (by rw [hS]; exact addTokens_inv ids (newSymbols_inv hS0))
    (by simpa [PSymbols.isTerminal] using hnotNt "INVALID" n4 (by decide))
    (by simpa [PSymbols.isTerminal] using hnotNt "␚" n3 (by decide))
  have hexp : ∀ i : Item, i.d < r.ctx.len i →
      r.ctx.expected i = q.head ∨ r.ctx.expected i ∈ synBodyNames (q :: rest) := by
    intro i hi
    have := expected_mem_bodyNames hprods hi
    rw [hbodies] at this
    exact List.mem_cons.1 this
  refine
    { prods_eq := hprods, ntsNodup := by rw [hnt]; exact newSymbols_ntList_nodup hS0,
      termsNodup := hnum.2.2, term1 := hnum.2.1, term := ?_, heads := hheadsNt,
      prod0 := ⟨q.head, q :: rest, rfl, hq.2, hheadsNt q (by simp [augment])⟩,
      noStart := ?_, noEof := ?_ }
  · intro X hX
    unfold PSymbols.terminals at hX
    rw [List.mem_filter] at hX
    have hXnt : X ∉ r.ctx.S.ntList := by simpa [PSymbols.isTerminal] using hX.2
    refine ⟨hXnt, hX.1, ?_⟩
    rintro rfl
    rcases (htm "").1 hX.1 with h' | h'
    · rcases newSymbols_typeMap_sub hS0 "" h' with h'' | h'' | h'' | h''
      · exact absurd h'' (by decide)
      · exact absurd h'' (by decide)
      · rcases List.mem_map.1 h'' with ⟨p, hp, hp'⟩
        exact hXnt (hp' ▸ hheadsNt p hp)
      · rw [hbodies] at h''
        rcases List.mem_cons.1 h'' with h3 | h3
        · exact hXnt (h3 ▸ hheadsNt q (by simp [augment]))
        · exact n7 h3
    · exact n8 h'
  · intro i0 hi0 heq
    have h0 : r.ctx.prods[0]!.head = "S'" := by rw [hprods]; rfl
    rw [h0] at heq
    rcases hexp i0 hi0 with h' | h'
    · exact hq.1 (by rw [← h', ← heq])
    · exact n5 (heq ▸ h')
  · intro i hi heq
    rcases hexp i hi with h' | h'
    · exact n3 (by rw [← heq, h']; exact hqh)
    · exact n6 (heq ▸ h')


/-! ## §G assembly -/

theorem edgeOk_intro {G : NGrammar} {c : Cert} {s s' : Nat} {X : Sym}
    (h : ∀ p d, (p, d + 1) ∈ c[s']?.getD [] →
      (G.body p)[d]? = some X ∧ (p, d) ∈ c[s]?.getD []) : edgeOk G c s X s' = true := by
  simp only [edgeOk, List.all_eq_true]
  intro ⟨p, d⟩ hm
  cases d with
  | zero => simp
  | succ d =>
    obtain ⟨h1, h2⟩ := h p d hm
    simp [h1, Cert.has, h2]

theorem safe_intro {G : NGrammar} {T : PTables} {c : Cert}
    (h1 : T.action.size = T.nStates) (h2 : T.goto_.size = T.nStates) (h3 : c.size = T.nStates)
    (h4 : 0 < T.nStates) (h5 : T.prodNT.size = G.prods.size) (h6 : T.prodLen.size = G.prods.size)
    (h7 : ∀ p, p < G.prods.size →
      T.prodNT[p]? = some (G.head p) ∧ T.prodLen[p]? = some (G.body p).length)
    (h8 : ∃ A, G.body 0 = [Sym.nt A])
    (h9 : ∀ p d, (p, d) ∈ c[0]?.getD [] → d = 0)
    (hsh : ∀ s t s', T.act s t = some (.shift s') →
      s' < T.nStates ∧ edgeOk G c s (Sym.t t) s' = true)
    (hre : ∀ s t p, T.act s t = some (.reduce p) →
      p < G.prods.size ∧ (p, (G.body p).length) ∈ c[s]?.getD [])
    (hac : ∀ s t, T.act s t = some .accept → t = 1 ∧ (0, 1) ∈ c[s]?.getD [])
    (hgo : ∀ (s A : Nat) (g : Int), (T.goto_[s]?).bind (·[A]?) = some g → 0 ≤ g →
      g.toNat < T.nStates ∧ edgeOk G c s (Sym.nt A) g.toNat = true) :
    safe G T c = true := by
  simp only [safe, Bool.and_eq_true, List.all_eq_true, List.mem_range, beq_iff_eq,
    decide_eq_true_eq]
  refine ⟨⟨⟨⟨⟨⟨⟨⟨⟨⟨h1, h2⟩, h3⟩, h4⟩, h5⟩, h6⟩, h7⟩, ?_⟩, ?_⟩, ?_⟩, ?_⟩
  · obtain ⟨A, hA⟩ := h8
    rw [hA]
  · intro ⟨p, d⟩ hm
    exact h9 p d hm
  · intro s _ t ht
    rcases hrow : T.action[s]? with _ | row
    · simp [hrow] at ht
    · simp only [hrow, Option.getD_some] at ht ⊢
      rcases hj : (row[t]?).join with _ | a
      · rfl
      · have hact : T.act s t = some a := by simp [PTables.act, hrow, hj]
        cases a with
        | shift s' => simpa using hsh s t s' hact
        | reduce p => simpa [Cert.has] using hre s t p hact
        | accept => simpa [Cert.has] using hac s t hact
  · intro s _ A hA
    rcases hrow : T.goto_[s]? with _ | row
    · simp [hrow] at hA
    · simp only [hrow, Option.getD_some] at hA ⊢
      rcases hg : row[A]? with _ | g
      · rfl
      · simp only [Bool.or_eq_true, decide_eq_true_eq, Bool.and_eq_true]
        by_cases hneg : g < 0
        · exact .inl hneg
        · exact .inr (hgo s A g (by simp [hrow, hg]) (by omega))

theorem safeEnds_intro {T : PTables} {c : Cert}
    (h1 : ∀ s, (0, 0) ∈ c[s]?.getD [] → s = 0)
    (hsh : ∀ s t s', T.act s t = some (.shift s') → t ≠ 1 ∧ s' ≠ 0)
    (hgo : ∀ (s A : Nat), (T.goto_[s]?).bind (·[A]?) ≠ some 0) : safeEnds T c = true := by
  simp only [safeEnds, Bool.and_eq_true, List.all_eq_true, List.mem_range, Bool.or_eq_true,
    beq_iff_eq, Bool.not_eq_true', bne_iff_ne, ne_eq]
  refine ⟨⟨?_, ?_⟩, ?_⟩
  · intro s _
    by_cases hs : s = 0
    · exact .inl hs
    · right
      cases hh : c.has s 0 0 with
      | false => rfl
      | true =>
        exact absurd (h1 s (by simpa [Cert.has] using hh)) hs
  · intro s _ t ht
    rcases hrow : T.action[s]? with _ | row
    · simp [hrow] at ht
    · simp only [hrow, Option.getD_some] at ht ⊢
      rcases hj : (row[t]?).join with _ | a
      · simp
      · have hact : T.act s t = some a := by simp [PTables.act, hrow, hj]
        cases a with
        | shift s' => simpa using hsh s t s' hact
        | reduce p => simp
        | accept => simp
  · intro s _ A hA
    rcases hrow : T.goto_[s]? with _ | row
    · simp [hrow] at hA
    · have := hgo s A
      simpa [hrow] using this

/-! ### facts about the states -/

theorem state_zero {C : LRCtx} {la : String} {states : Array LRState}
    (hinv : LRInv C (closure C [⟨0, 0, la⟩]) states) (h0 : 0 < C.prods.size) {st : LRState}
    (hj : states[0]? = some st) : ∀ x ∈ st.items, x.d = 0 ∧ x.p < C.prods.size := by
  obtain ⟨st0, g1, g2⟩ := hinv.zero
  rw [hj] at g1
  cases g1
  intro x hx
  rw [g2] at hx
  exact closure0_mem h0 hx

theorem state_itemOk {C : LRCtx} {la : String} {states : Array LRState}
    (hinv : LRInv C (closure C [⟨0, 0, la⟩]) states) (h0 : 0 < C.prods.size) {j : Nat}
    {st : LRState} (hj : states[j]? = some st) : ∀ x ∈ st.items, ItemOk C x := by
  intro x hx
  by_cases hz : j = 0
  · subst hz
    obtain ⟨h1, h2⟩ := state_zero hinv h0 hj x hx
    exact ⟨h2, by omega⟩
  · obtain ⟨I, X, hI⟩ := hinv.isGoto j st hj (by omega)
    rw [hI] at hx
    exact goto_itemOk hx

theorem state_no_start {C : LRCtx} {I0 : List Item} {states : Array LRState}
    (hinv : LRInv C I0 states) (hS : NoStartRef C) {j : Nat} {st : LRState}
    (hj : states[j]? = some st) (hpos : 0 < j) : ∀ x ∈ st.items, ¬ (x.p = 0 ∧ x.d = 0) := by
  intro x hx
  obtain ⟨I, X, hI⟩ := hinv.isGoto j st hj hpos
  rw [hI] at hx
  exact goto_no_start hS hx

/-- a recorded transition is an edge: the items of the target with the dot not at the start are
    advanced items of the source -/
theorem edge_items {C : LRCtx} {I0 : List Item} {states : Array LRState}
    (hinv : LRInv C I0 states) {j : Nat} {st : LRState} {X : String} {n : Nat}
    (hj : states[j]? = some st) (hn : (X, n) ∈ st.trans) :
    n ≠ 0 ∧ ∃ st', states[n]? = some st' ∧ ∀ x ∈ st'.items, x.d = 0 ∨
      ∃ i ∈ st.items, i.p = x.p ∧ i.d + 1 = x.d ∧ i.d < C.len i ∧ C.expected i = X := by
  obtain ⟨h1, st', h2, h3⟩ := hinv.trans j st hj (X, n) hn
  refine ⟨h1, st', h2, ?_⟩
  intro x hx
  rcases mem_goto (sameItems_sub h3 x hx) with ⟨i, hi, hd, hX, rfl⟩ | ⟨hd, _⟩
  · exact .inr ⟨i, hi, rfl, rfl, hd, hX⟩
  · exact .inl hd

theorem edgeOk_of_trans {C : LRCtx} {prods : List SProd} (hC : C.prods = prods.toArray)
    {I0 : List Item} {states : Array LRState} (hinv : LRInv C I0 states) {j : Nat}
    {st : LRState} {X : String} {n : Nat} (hj : states[j]? = some st) (hn : (X, n) ∈ st.trans)
    (terms nts : List String) {Xn : Sym} (hX : symOf terms nts X = Xn) :
    n ≠ 0 ∧ n < states.size ∧
      edgeOk (ngrammarOf prods terms nts) (certOf states) j Xn n = true := by
  obtain ⟨h1, st', h2, h3⟩ := edge_items hinv hj hn
  refine ⟨h1, (Array.getElem?_eq_some_iff.1 h2).1, edgeOk_intro ?_⟩
  intro p d hm
  rw [mem_certOf] at hm
  obtain ⟨st'', g1, x, hx, rfl, hxd⟩ := hm
  rw [h2] at g1
  cases g1
  rcases h3 x hx with h0 | ⟨i, hi, hp, hd, hlen, hexp⟩
  · omega
  · have hid : i.d = d := by omega
    have := body_at hC terms nts hlen
    rw [hp, hid, hexp, hX] at this
    exact ⟨this, mem_certOf.2 ⟨st, hj, i, hi, hp, hid⟩⟩

/-! ### the entries of the generated tables -/

theorem act_entry {syn : List SProd} {ids : List String} {r : LRResult}
    (h : genParser syn ids = .ok r) {s t : Nat} {a : Act} (ha : r.tables.act s t = some a) :
    ∃ st sym b, r.states[s]? = some st ∧ r.ctx.S.terminals[t]? = some sym ∧
      setAction r.ctx st sym = .ok (some a, b) := by
  obtain ⟨rows, hrows, -, -, hact, -⟩ := genParser_tables h
  obtain ⟨row, hrow, -, hj⟩ := act_eq_some ha
  rw [hact] at hrow
  simp only [List.getElem?_toArray, List.getElem?_map] at hrow
  rcases hrw : rows[s]? with _ | rw
  · rw [hrw] at hrow; cases hrow
  · rw [hrw] at hrow
    simp only [Option.map_some, Option.some.injEq] at hrow
    subst hrow
    obtain ⟨st, hst, hst'⟩ := (mapM_ok_spec hrows).2 s rw hrw
    simp only [List.getElem?_toArray, List.getElem?_map] at hj
    rcases he : rw[t]? with _ | e
    · rw [he] at hj; cases hj
    · rw [he] at hj
      simp only [Option.map_some, Option.join_some] at hj
      obtain ⟨sym, hsym, hsym'⟩ := (mapM_ok_spec hst').2 t e he
      refine ⟨st, sym, e.2, by simpa using hst, hsym, ?_⟩
      rw [hsym', ← hj]

theorem goto_entry {syn : List SProd} {ids : List String} {r : LRResult}
    (h : genParser syn ids = .ok r) {s A : Nat} {g : Int}
    (hg : (r.tables.goto_[s]?).bind (·[A]?) = some g) :
    ∃ st X, r.states[s]? = some st ∧ r.ctx.S.ntList[A]? = some X ∧
      g = match st.next X with
        | some n => (n : Int)
        | none => -1 := by
  obtain ⟨rows, -, -, -, -, hgo, -⟩ := genParser_tables h
  rw [hgo, Array.getElem?_map] at hg
  rcases hst : r.states[s]? with _ | st
  · rw [hst] at hg; cases hg
  · rw [hst] at hg
    simp only [Option.map_some, Option.bind_some, gotoRow, List.getElem?_toArray,
      List.getElem?_map] at hg
    rcases hX : r.ctx.S.ntList[A]? with _ | X
    · rw [hX] at hg; cases hg
    · rw [hX] at hg
      simp only [Option.map_some, Option.some.injEq] at hg
      exact ⟨st, X, rfl, rfl, hg.symm⟩

theorem tables_sizes {syn : List SProd} {ids : List String} {r : LRResult}
    (h : genParser syn ids = .ok r) :
    r.tables.action.size = r.states.size ∧ r.tables.goto_.size = r.states.size ∧
      (certOf r.states).size = r.states.size ∧ r.tables.nStates = r.states.size := by
  obtain ⟨rows, hrows, -, -, hact, hgo, -, -, hn⟩ := genParser_tables h
  refine ⟨?_, by rw [hgo]; simp, by simp [certOf], hn⟩
  rw [hact]
  simp [(mapM_ok_spec hrows).1]

/-! ### every entry is justified -/

theorem prods_pos {prods : List SProd} {C : LRCtx} (F : SymFacts prods C) : 0 < C.prods.size := by
  obtain ⟨q, rest, hp, _⟩ := F.prod0
  rw [F.prods_eq, hp]
  simp

theorem states_pos {C : LRCtx} {I0 : List Item} {states : Array LRState}
    (hinv : LRInv C I0 states) : 0 < states.size := by
  obtain ⟨st, h1, _⟩ := hinv.zero
  exact (Array.getElem?_eq_some_iff.1 h1).1

theorem shift_ok {prods : List SProd} {C : LRCtx} {states : Array LRState} (F : SymFacts prods C)
    (hinv : LRInv C (closure C [⟨0, 0, "␚"⟩]) states) {s t n : Nat} {st : LRState}
    {sym : String} {b : Bool} (hs : states[s]? = some st) (ht : C.S.terminals[t]? = some sym)
    (ha : setAction C st sym = .ok (some (.shift n), b)) :
    n < states.size ∧
    edgeOk (ngrammarOf prods C.S.terminals C.S.ntList) (certOf states) s (Sym.t t) n = true ∧
    t ≠ 1 ∧ (Expanded C states s → n ≠ 0) := by
  obtain ⟨i, hi, hia⟩ := setAction_mem ha
  obtain ⟨hn, hsym⟩ := itemAction_shift hia
  obtain ⟨t1, t2, t3⟩ := F.term sym (List.mem_of_getElem? ht)
  have hd : i.d < C.len i := by
    apply Decidable.byContradiction
    intro hnot
    apply t3
    rw [hsym]
    unfold LRCtx.expected
    rw [if_neg hnot]
  have ht1 : t ≠ 1 := by
    rintro rfl
    rw [F.term1] at ht
    cases ht
    exact F.noEof i hd hsym.symm
  have hgne : goto C st.items sym ≠ [] := by
    intro he
    have := goto_mem_of hi hd hsym.symm
    rw [he] at this
    cases this
  rcases hnx : st.next sym with _ | m
  · rw [hnx] at hn
    simp only [Option.getD_none] at hn
    subst hn
    refine ⟨states_pos hinv, edgeOk_intro ?_, ht1, ?_⟩
    · intro p d hm
      rw [mem_certOf] at hm
      obtain ⟨st0, g1, x, hx, -, hxd⟩ := hm
      have := (state_zero hinv (prods_pos F) g1 x hx).1
      omega
    · intro hexp
      obtain ⟨idx, hidx⟩ := hexp st hs sym t2 hgne
      obtain ⟨m, hm⟩ := LRState.next_of_mem hidx
      rw [hm] at hnx
      cases hnx
  · rw [hnx] at hn
    simp only [Option.getD_some] at hn
    subst hn
    obtain ⟨e1, e2, e3⟩ := edgeOk_of_trans F.prods_eq hinv hs (LRState.next_some hnx)
      C.S.terminals C.S.ntList (symOf_term F.termsNodup ht t1)
    exact ⟨e2, e3, ht1, fun _ => e1⟩

theorem reduce_ok {prods : List SProd} {C : LRCtx} {states : Array LRState} (F : SymFacts prods C)
    (hinv : LRInv C (closure C [⟨0, 0, "␚"⟩]) states) {s p : Nat} {st : LRState}
    {sym : String} {b : Bool} (hs : states[s]? = some st)
    (ha : setAction C st sym = .ok (some (.reduce p), b)) (terms nts : List String) :
    p < prods.length ∧
    (p, ((ngrammarOf prods terms nts).body p).length) ∈ (certOf states)[s]?.getD [] := by
  obtain ⟨i, hi, hia⟩ := setAction_mem ha
  obtain ⟨hp, hlen, -⟩ := itemAction_reduce hia
  subst hp
  obtain ⟨k1, k2⟩ := state_itemOk hinv (prods_pos F) hs i hi
  obtain ⟨hp', heq⟩ := ctx_prod F.prods_eq k1
  refine ⟨hp', mem_certOf.2 ⟨st, hs, i, hi, rfl, ?_⟩⟩
  rw [ngrammarOf_body_length terms nts hp', ← heq, ← len_of_lt k1]
  omega

theorem accept_ok {prods : List SProd} {C : LRCtx} {states : Array LRState} (F : SymFacts prods C)
    (hinv : LRInv C (closure C [⟨0, 0, "␚"⟩]) states) {s t : Nat} {st : LRState}
    {sym : String} {b : Bool} (hs : states[s]? = some st) (ht : C.S.terminals[t]? = some sym)
    (ha : setAction C st sym = .ok (some .accept, b)) :
    t = 1 ∧ (0, 1) ∈ (certOf states)[s]?.getD [] := by
  obtain ⟨i, hi, hia⟩ := setAction_mem ha
  obtain ⟨hp, hlen, hsym⟩ := itemAction_accept hia
  subst hsym
  obtain ⟨k1, k2⟩ := state_itemOk hinv (prods_pos F) hs i hi
  obtain ⟨hp', heq⟩ := ctx_prod F.prods_eq k1
  have hl : C.len i = 1 := by
    rw [len_of_lt k1, heq]
    obtain ⟨q, rest, hprods, hq, _⟩ := F.prod0
    subst hprods
    simp only [hp, List.getElem_cons_zero, prodLen]
    simp [hq]
  constructor
  · obtain ⟨a1, a2⟩ := List.getElem?_eq_some_iff.1 ht
    obtain ⟨b1, b2⟩ := List.getElem?_eq_some_iff.1 F.term1
    exact (List.getElem_inj F.termsNodup).1 (a2.trans b2.symm)
  · exact mem_certOf.2 ⟨st, hs, i, hi, hp, by omega⟩

theorem goto_ok {prods : List SProd} {C : LRCtx} {I0 : List Item} {states : Array LRState}
    (F : SymFacts prods C) (hinv : LRInv C I0 states) {s A n : Nat} {st : LRState} {X : String}
    (hs : states[s]? = some st) (hA : C.S.ntList[A]? = some X) (hn : st.next X = some n) :
    n ≠ 0 ∧ n < states.size ∧
    edgeOk (ngrammarOf prods C.S.terminals C.S.ntList) (certOf states) s (Sym.nt A) n = true :=
  edgeOk_of_trans F.prods_eq hinv hs (LRState.next_some hn) C.S.terminals C.S.ntList
    (symOf_nt F.ntsNodup hA)

/-! ### the production table -/

theorem prodTable_ok {prods : List SProd} {C : LRCtx} (F : SymFacts prods C) {p : Nat}
    (hp : p < prods.length) :
    (prods.toArray.map fun q => C.S.ntList.idxOf q.head)[p]? =
      some ((ngrammarOf prods C.S.terminals C.S.ntList).head p) ∧
    (prods.toArray.map prodLen)[p]? =
      some ((ngrammarOf prods C.S.terminals C.S.ntList).body p).length := by
  constructor
  · rw [ngrammarOf_head _ _ hp, idxOf?_eq_idxOf (F.heads _ (List.getElem_mem hp))]
    simp [hp]
  · rw [ngrammarOf_body_length _ _ hp]
    simp [hp]

theorem body0_ok {prods : List SProd} {C : LRCtx} (F : SymFacts prods C) :
    ∃ A, (ngrammarOf prods C.S.terminals C.S.ntList).body 0 = [Sym.nt A] := by
  obtain ⟨q, rest, hprods, hq, hqn⟩ := F.prod0
  subst hprods
  rw [ngrammarOf_body _ _ (by simp)]
  have hl : prodLen ({ head := "S'", body := [⟨.prodId, q⟩] } : SProd) = 1 := by
    simp [prodLen, hq]
  simp only [List.getElem_cons_zero, hl]
  refine ⟨C.S.ntList.idxOf q, ?_⟩
  simp [symOf, idxOf?_eq_idxOf hqn]

/-! ### the theorems -/

/-- the item sets of a successful run satisfy the transition invariant; if the number of states
    did not exceed the fuel of `lrLoop`, every state has been expanded -/
theorem genParser_inv {syn : List SProd} {ids : List String} {r : LRResult}
    (h : genParser syn ids = .ok r) (hn : NamesOk syn ids) :
    LRInv r.ctx (closure r.ctx [⟨0, 0, "␚"⟩]) r.states ∧
    (r.states.size ≤ 4096 → ∀ j, j < r.states.size → Expanded r.ctx r.states j) := by
  have F := symFacts_of h hn
  obtain ⟨S0, -, -, hst⟩ := genParser_shape h
  have := lrLoop_spec (sameItems_init_goto F.noStart "␚") 4096 0 _
    (LRInv.init r.ctx (closure r.ctx [⟨0, 0, "␚"⟩])) (by simp) (by intro j hj; omega)
  rw [← hst] at this
  exact ⟨this.1, fun hsz => this.2.2 (by omega)⟩

/-- the generated tables pass `safe` (no assumption on the number of states) -/
theorem genParser_safe {syn : List SProd} {ids : List String} {r : LRResult}
    (h : genParser syn ids = .ok r) (hn : NamesOk syn ids) :
    safe (ngrammarOf (augment syn) r.tables.terminals r.tables.nts) r.tables (certOf r.states)
      = true := by
  have F := symFacts_of h hn
  obtain ⟨hinv, -⟩ := genParser_inv h hn
  obtain ⟨rows, -, hterm, hnts, -, -, hpnt, hplen, -⟩ := genParser_tables h
  obtain ⟨z1, z2, z3, z4⟩ := tables_sizes h
  rw [hterm, hnts]
  apply safe_intro
  · rw [z1, z4]
  · rw [z2, z4]
  · rw [z3, z4]
  · rw [z4]; exact states_pos hinv
  · rw [hpnt, ngrammarOf_size]; simp
  · rw [hplen, ngrammarOf_size]; simp
  · intro p hp
    rw [ngrammarOf_size] at hp
    rw [hpnt, hplen]
    exact prodTable_ok F hp
  · exact body0_ok F
  · intro p d hm
    obtain ⟨st, hs, x, hx, -, hd⟩ := mem_certOf.1 hm
    rw [← hd]
    exact (state_zero hinv (prods_pos F) hs x hx).1
  · intro s t s' hact
    obtain ⟨st, sym, b, hs, ht, ha⟩ := act_entry h hact
    have := shift_ok F hinv hs ht ha
    rw [z4]
    exact ⟨this.1, this.2.1⟩
  · intro s t p hact
    obtain ⟨st, sym, b, hs, ht, ha⟩ := act_entry h hact
    rw [ngrammarOf_size]
    exact reduce_ok F hinv hs ha _ _
  · intro s t hact
    obtain ⟨st, sym, b, hs, ht, ha⟩ := act_entry h hact
    exact accept_ok F hinv hs ht ha
  · intro s A g hg hpos
    obtain ⟨st, X, hs, hA, hgeq⟩ := goto_entry h hg
    rcases hnx : st.next X with _ | n
    · rw [hnx] at hgeq
      simp only at hgeq
      omega
    · rw [hnx] at hgeq
      simp only at hgeq
      subst hgeq
      obtain ⟨e1, e2, e3⟩ := goto_ok F hinv hs hA hnx
      rw [z4]
      simpa using ⟨e2, e3⟩

/-- the generated tables pass `safeEnds`, provided every state was expanded -/
theorem genParser_safeEnds {syn : List SProd} {ids : List String} {r : LRResult}
    (h : genParser syn ids = .ok r) (hn : NamesOk syn ids) (hsz : r.states.size ≤ 4096) :
    safeEnds r.tables (certOf r.states) = true := by
  have F := symFacts_of h hn
  obtain ⟨hinv, hexp⟩ := genParser_inv h hn
  apply safeEnds_intro
  · intro s hm
    obtain ⟨st, hs, x, hx, hp, hd⟩ := mem_certOf.1 hm
    apply Decidable.byContradiction
    intro hne
    exact state_no_start hinv F.noStart hs (by omega) x hx ⟨hp, hd⟩
  · intro s t s' hact
    obtain ⟨st, sym, b, hs, ht, ha⟩ := act_entry h hact
    have := shift_ok F hinv hs ht ha
    exact ⟨this.2.2.1, this.2.2.2 (hexp hsz s (Array.getElem?_eq_some_iff.1 hs).1)⟩
  · intro s A hg
    obtain ⟨st, X, hs, hA, hgeq⟩ := goto_entry h hg
    rcases hnx : st.next X with _ | n
    · rw [hnx] at hgeq
      simp only at hgeq
      omega
    · rw [hnx] at hgeq
      simp only at hgeq
      have := (goto_ok F hinv hs hA hnx).1
      omega

end Gocc
