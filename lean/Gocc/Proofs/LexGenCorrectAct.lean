import Gocc.Proofs.LexGenCorrectRefSets
/-
C01 (generator level), part 5 — (M3) `lexAction` / `xVerdict` agree on equal sets.

`ItemSet.Action()` is a left fold with a tie-break that is NOT a strict total preference on
arbitrary item orders: a string-literal production replaces the current choice unconditionally
(so of two completed string-literal productions the LAST in list order wins), a non-literal one only
if its index is lower.  The result therefore depends on the order of the list.  What saves the
generator (and the reference) is that all item lists that occur are ordered by production index
(`ProdSorted`: `ItemsSet0` adds production after production, `Next` keeps the order): on such a list
the fold returns the completed string-literal production of HIGHEST index if there is one, and
otherwise the completed production of LOWEST index — a function of the set of completed items
(`lexAction_congr`).
-/
namespace Gocc
namespace LexGenC

/-- completed item of a non-`reg` production -/
def qual (C : LexCtx) (i : LItem) : Bool :=
  match C.prods[i.prod]? with
  | some p => p.kind != .reg && C.isReduce i
  | none => false

def isStrP (C : LexCtx) (k : Nat) : Bool := (C.prods[k]?).map (·.strLit) |>.getD false

/-- one step of the fold of `ItemSet.Action()` -/
def actStep (C : LexCtx) (acc : Option LItem) (i : LItem) : Option LItem :=
  if qual C i then
    match acc with
    | none => some i
    | some a => if isStrP C i.prod || (!isStrP C a.prod && i.prod < a.prod) then some i else some a
  else acc

/-- the action of the chosen item -/
def actOfProd (C : LexCtx) (k : Nat) : LAct :=
  match C.prods[k]? with
  | some p => if p.kind == .tok then .accept p.id else if p.kind == .ign then .ignore p.id else .none
  | none => .none

def actOf (C : LexCtx) : Option LItem → LAct
  | none => .none
  | some i => actOfProd C i.prod

theorem lexAction_eq (C : LexCtx) (items : List LItem) :
    lexAction C items = actOf C (items.foldl (actStep C) none) := by
  unfold lexAction
  dsimp only
  have hf : ∀ (g : Option LItem → LItem → Option LItem), (∀ acc i, g acc i = actStep C acc i) →
      List.foldl g none items = List.foldl (actStep C) none items := by
    intro g hg
    congr 1
    funext acc i
    exact hg acc i
  rw [hf _ (by
    intro acc i
    unfold actStep qual isStrP
    split
    · rename_i p hp
      split
      · rename_i hc
        rw [if_pos (by rw [hp]; exact hc)]
        cases acc with
        | none => rfl
        | some a => rfl
      · rename_i hc
        rw [if_neg (by rw [hp]; exact hc)]
    · rename_i hp
      rw [if_neg (by rw [hp]; exact Bool.false_ne_true)])]
  cases h : List.foldl (actStep C) none items with
  | none => rfl
  | some i =>
    dsimp only [actOf, actOfProd]
    cases C.prods[i.prod]? with
    | none => rfl
    | some p => rfl

/-- `a` is the item the fold chooses on a production-sorted list with the elements of `l` -/
def Best (C : LexCtx) (l : List LItem) (a : LItem) : Prop :=
  a ∈ l ∧ qual C a = true ∧
  (isStrP C a.prod = true → ∀ b ∈ l, qual C b = true → isStrP C b.prod = true → b.prod ≤ a.prod) ∧
  (isStrP C a.prod = false → ∀ b ∈ l, qual C b = true → isStrP C b.prod = false ∧ a.prod ≤ b.prod)

def BestOpt (C : LexCtx) (l : List LItem) : Option LItem → Prop
  | none => ∀ b ∈ l, qual C b = false
  | some a => Best C l a

theorem bestOpt_step {C : LexCtx} {pre : List LItem} {acc : Option LItem} {i : LItem}
    (hle : ∀ b ∈ pre, b.prod ≤ i.prod) (h : BestOpt C pre acc) :
    BestOpt C (pre ++ [i]) (actStep C acc i) := by
  unfold actStep
  by_cases hq : qual C i = true
  · rw [if_pos hq]
    cases acc with
    | none =>
      dsimp only
      refine ⟨by simp, hq, ?_, ?_⟩
      · intro _ b hb hqb _
        rcases List.mem_append.1 hb with hb | hb
        · have := h b hb; rw [this] at hqb; cases hqb
        · simp only [List.mem_singleton] at hb; subst hb; exact Nat.le_refl _
      · intro hs b hb hqb
        rcases List.mem_append.1 hb with hb | hb
        · have := h b hb; rw [this] at hqb; cases hqb
        · simp only [List.mem_singleton] at hb; subst hb; exact ⟨hs, Nat.le_refl _⟩
    | some a =>
      obtain ⟨ha, hqa, h1, h2⟩ := h
      have hai : a.prod ≤ i.prod := hle a ha
      dsimp only
      by_cases hsi : isStrP C i.prod = true
      · -- a string literal always replaces
        simp only [hsi, Bool.true_or, if_true]
        refine ⟨by simp, hq, ?_, ?_⟩
        · intro _ b hb _ _
          rcases List.mem_append.1 hb with hb | hb
          · exact hle b hb
          · simp only [List.mem_singleton] at hb; subst hb; exact Nat.le_refl _
        · intro hs; rw [hs] at hsi; cases hsi
      · have hsi' : isStrP C i.prod = false := by simpa using hsi
        have hnlt : decide (i.prod < a.prod) = false := by simp; omega
        simp only [hsi', hnlt, Bool.and_false, Bool.or_false, Bool.false_eq_true, if_false]
        refine ⟨List.mem_append_left _ ha, hqa, ?_, ?_⟩
        · intro hs b hb hqb hsb
          rcases List.mem_append.1 hb with hb | hb
          · exact h1 hs b hb hqb hsb
          · simp only [List.mem_singleton] at hb; subst hb; rw [hsi'] at hsb; cases hsb
        · intro hs b hb hqb
          rcases List.mem_append.1 hb with hb | hb
          · exact h2 hs b hb hqb
          · simp only [List.mem_singleton] at hb; subst hb; exact ⟨hsi', hai⟩
  · have hq' : qual C i = false := by simpa using hq
    rw [if_neg hq]
    cases acc with
    | none =>
      intro b hb
      rcases List.mem_append.1 hb with hb | hb
      · exact h b hb
      · simp only [List.mem_singleton] at hb; subst hb; exact hq'
    | some a =>
      obtain ⟨ha, hqa, h1, h2⟩ := h
      refine ⟨List.mem_append_left _ ha, hqa, ?_, ?_⟩
      · intro hs b hb hqb hsb
        rcases List.mem_append.1 hb with hb | hb
        · exact h1 hs b hb hqb hsb
        · simp only [List.mem_singleton] at hb; subst hb; rw [hq'] at hqb; cases hqb
      · intro hs b hb hqb
        rcases List.mem_append.1 hb with hb | hb
        · exact h2 hs b hb hqb
        · simp only [List.mem_singleton] at hb; subst hb; rw [hq'] at hqb; cases hqb

theorem fold_best {C : LexCtx} : ∀ (l pre : List LItem) (acc : Option LItem),
    ProdSorted (pre ++ l) → BestOpt C pre acc → BestOpt C (pre ++ l) (l.foldl (actStep C) acc) := by
  intro l
  induction l with
  | nil => intro pre acc _ h; simpa using h
  | cons i l ih =>
    intro pre acc hs h
    have e : pre ++ i :: l = (pre ++ [i]) ++ l := by simp
    rw [List.foldl_cons, e]
    refine ih (pre ++ [i]) _ (by rw [← e]; exact hs) (bestOpt_step ?_ h)
    intro b hb
    unfold ProdSorted at hs
    rw [List.pairwise_append] at hs
    exact hs.2.2 b hb i List.mem_cons_self

/-- (M3) on production-sorted lists the action depends only on the SET of completed items -/
theorem lexAction_congr {C : LexCtx} {l1 l2 : List LItem} (h1 : ProdSorted l1) (h2 : ProdSorted l2)
    (hq : ∀ i, qual C i = true → (i ∈ l1 ↔ i ∈ l2)) : lexAction C l1 = lexAction C l2 := by
  rw [lexAction_eq, lexAction_eq]
  have b1 := fold_best (C := C) l1 [] none (by simpa using h1) (by intro b hb; cases hb)
  have b2 := fold_best (C := C) l2 [] none (by simpa using h2) (by intro b hb; cases hb)
  simp only [List.nil_append] at b1 b2
  cases o1 : List.foldl (actStep C) none l1 with
  | none =>
    rw [o1] at b1
    cases o2 : List.foldl (actStep C) none l2 with
    | none => rfl
    | some b =>
      rw [o2] at b2
      obtain ⟨hb, hqb, _, _⟩ := b2
      have := b1 b ((hq b hqb).2 hb)
      rw [this] at hqb; cases hqb
  | some a =>
    rw [o1] at b1
    obtain ⟨ha, hqa, a1, a2⟩ := b1
    cases o2 : List.foldl (actStep C) none l2 with
    | none =>
      rw [o2] at b2
      have := b2 a ((hq a hqa).1 ha)
      rw [this] at hqa; cases hqa
    | some b =>
      rw [o2] at b2
      obtain ⟨hb, hqb, c1, c2⟩ := b2
      have ha2 : a ∈ l2 := (hq a hqa).1 ha
      have hb1 : b ∈ l1 := (hq b hqb).2 hb
      have hprod : a.prod = b.prod := by
        cases hsa : isStrP C a.prod with
        | true =>
          cases hsb : isStrP C b.prod with
          | true =>
            have := a1 hsa b hb1 hqb hsb
            have := c1 hsb a ha2 hqa hsa
            omega
          | false =>
            have := (c2 hsb a ha2 hqa).1
            rw [hsa] at this; cases this
        | false =>
          cases hsb : isStrP C b.prod with
          | true =>
            have := (a2 hsa b hb1 hqb).1
            rw [hsb] at this; cases this
          | false =>
            have := (a2 hsa b hb1 hqb).2
            have := (c2 hsb a ha2 hqa).2
            omega
      simp only [actOf, hprod]

/-- the completed single frames of a position set -/
def doneOf (C : LexCtx) (S : List XPos) : List LItem :=
  S.filterMap fun x => match x with
    | [top] => if C.isReduce top then some top else none
    | _ => none

theorem xVerdict_eq (C : LexCtx) (S : List XPos) : xVerdict C S = lexAction C (doneOf C S) := rfl

theorem mem_doneOf {C : LexCtx} {S : List XPos} {i : LItem} :
    i ∈ doneOf C S ↔ [i] ∈ S ∧ C.isReduce i = true := by
  unfold doneOf
  rw [List.mem_filterMap]
  constructor
  · rintro ⟨x, hx, hg⟩
    split at hg
    · split at hg
      · rename_i top hr
        simp only [Option.some.injEq] at hg
        subst hg
        exact ⟨hx, hr⟩
      · cases hg
    · cases hg
  · rintro ⟨hx, hr⟩
    exact ⟨[i], hx, by simp [hr]⟩

theorem prodSorted_doneOf {C : LexCtx} {S : List XPos} (hS : GoodX C S) :
    ProdSorted (doneOf C S) := by
  unfold doneOf ProdSorted
  refine List.Pairwise.filterMap _ ?_ hS.sorted
  intro a a' haa' b hb b' hb'
  split at hb
  · split at hb
    · simp only [Option.some.injEq] at hb
      subst hb
      split at hb'
      · split at hb'
        · simp only [Option.some.injEq] at hb'
          subst hb'
          exact haa'
        · cases hb'
      · cases hb'
    · cases hb
  · cases hb

theorem qual_isReduce {C : LexCtx} {i : LItem} (h : qual C i = true) : C.isReduce i = true := by
  unfold qual at h
  split at h
  · simp only [Bool.and_eq_true] at h; exact h.2
  · cases h

/-- (M3) the action of the generated state is the verdict of the reference state -/
theorem act_agree {C : LexCtx} {items : List LItem} {S : List XPos} (hrel : SetRel items S)
    (hs : ProdSorted items) (hS : GoodX C S) : lexAction C items = xVerdict C S := by
  rw [xVerdict_eq]
  refine lexAction_congr hs (prodSorted_doneOf hS) ?_
  intro i hq
  rw [mem_doneOf, hrel.mem]
  exact ⟨fun h => ⟨h, qual_isReduce hq⟩, fun h => h.1⟩

end LexGenC
end Gocc
