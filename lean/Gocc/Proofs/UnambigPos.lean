import Gocc.Proofs.UnambigInj
/-
The positions stored in the leaves do not matter for unambiguity.

`Unambiguous G` (Proofs/UnambigInj.lean) speaks about trees whose leaves carry the positions
`0, 1, 2, …` (the trees of `C03_result_is_tree_eval`).  `relab` renumbers the leaves of any tree
that way; it preserves well-formedness, root and token types, and a tree is determined by its
renumbering together with its yield.  Hence in an unambiguous grammar two well-formed trees with
the same yield — whatever the positions — are equal (`Unambiguous.any_positions`).
-/
namespace Gocc.Unambig

mutual
/-- renumber the leaves `m, m+1, …` from left to right -/
def relab : PT → Nat → PT
  | .leaf _ t, m => .leaf m t
  | .node p kids, m => .node p (relabL kids m)
def relabL : List PT → Nat → List PT
  | [], _ => []
  | k :: ks, m => relab k m :: relabL ks (m + k.yield.length)
end

theorem relab_sym (G : NGrammar) (t : PT) (m : Nat) : (relab t m).sym G = t.sym G := by
  cases t <;> simp [relab, PT.sym]

theorem relabL_sym (G : NGrammar) : ∀ (ks : List PT) (m : Nat),
    (relabL ks m).map (PT.sym G) = ks.map (PT.sym G)
  | [], _ => by simp [relabL]
  | k :: ks, m => by simp [relabL, relab_sym, relabL_sym G ks]

mutual
theorem relab_wf (G : NGrammar) : (t : PT) → (m : Nat) → t.wf G → (relab t m).wf G
  | .leaf _ _, _, _ => by simp [relab, PT.wf]
  | .node p kids, m, h => by
    simp only [relab, PT.wf]
    exact ⟨h.1, by rw [relabL_sym]; exact h.2.1, relabL_wf G kids m h.2.2⟩
theorem relabL_wf (G : NGrammar) : (ks : List PT) → (m : Nat) → PT.wfL G ks →
    PT.wfL G (relabL ks m)
  | [], _, _ => by simp [relabL, PT.wfL]
  | k :: ks, m, h => by
    simp only [relabL, PT.wfL]
    exact ⟨relab_wf G k m h.1, relabL_wf G ks _ h.2⟩
end

mutual
/-- the yield of the renumbered tree: positions `m, m+1, …`, same token types -/
theorem relab_yield : (t : PT) → (m : Nat) →
    (relab t m).yield = (List.range' m t.yield.length).zip (t.yield.map (·.2))
  | .leaf _ _, _ => by simp [relab, PT.yield]
  | .node p kids, m => by
    simp only [relab, PT.yield]
    exact relabL_yield kids m
theorem relabL_yield : (ks : List PT) → (m : Nat) →
    PT.yieldL (relabL ks m) = (List.range' m (PT.yieldL ks).length).zip ((PT.yieldL ks).map (·.2))
  | [], _ => by simp [relabL, PT.yieldL]
  | k :: ks, m => by
    simp only [relabL, PT.yieldL, relab_yield k m, relabL_yield ks, List.length_append,
      List.map_append]
    rw [← List.range'_append_1, List.zip_append (by simp)]
end

theorem relab_yield_length (t : PT) (m : Nat) : (relab t m).yield.length = t.yield.length := by
  rw [relab_yield]; simp

mutual
/-- a tree is determined by its renumbering and its yield -/
theorem relab_inj : (t1 t2 : PT) → (m : Nat) → relab t1 m = relab t2 m → t1.yield = t2.yield →
    t1 = t2
  | .leaf i t, .leaf j u, _, _, hy => by
    simp only [PT.yield, List.cons.injEq, Prod.mk.injEq, and_true] at hy
    rw [hy.1, hy.2]
  | .leaf _ _, .node _ _, _, h, _ => by simp [relab] at h
  | .node _ _, .leaf _ _, _, h, _ => by simp [relab] at h
  | .node p ks1, .node q ks2, m, h, hy => by
    simp only [relab, PT.node.injEq] at h
    simp only [PT.yield] at hy
    rw [h.1, relabL_inj ks1 ks2 m h.2 hy]
theorem relabL_inj : (ks1 ks2 : List PT) → (m : Nat) → relabL ks1 m = relabL ks2 m →
    PT.yieldL ks1 = PT.yieldL ks2 → ks1 = ks2
  | [], [], _, _, _ => rfl
  | [], _ :: _, _, h, _ => by simp [relabL] at h
  | _ :: _, [], _, h, _ => by simp [relabL] at h
  | k1 :: ks1, k2 :: ks2, m, h, hy => by
    simp only [relabL, List.cons.injEq] at h
    have hlen : k1.yield.length = k2.yield.length := by
      rw [← relab_yield_length k1 m, ← relab_yield_length k2 m, h.1]
    simp only [PT.yieldL] at hy
    obtain ⟨hy1, hy2⟩ := List.append_inj hy hlen
    rw [relab_inj k1 k2 m h.1 hy1, relabL_inj ks1 ks2 (m + k1.yield.length) (by rw [h.2, hlen]) hy2]
end

/-- the renumbered tree from 0 has the yield form of `Unambiguous` -/
theorem relab_zero_yield (t : PT) :
    (relab t 0).yield = (List.range (t.yield.map (·.2)).length).zip (t.yield.map (·.2)) := by
  rw [relab_yield, List.range_eq_range']
  simp

/-- in an unambiguous grammar two well-formed trees from the start symbol with the same yield —
    whatever positions the leaves carry — are equal -/
theorem Unambiguous.any_positions {G : NGrammar} (hu : Unambiguous G) {t1 t2 : PT}
    (hw1 : t1.wf G) (hw2 : t2.wf G) (hr1 : G.body 0 = [t1.sym G]) (hr2 : G.body 0 = [t2.sym G])
    (hy : t1.yield = t2.yield) : t1 = t2 := by
  apply relab_inj t1 t2 0 _ hy
  apply hu (t1.yield.map (·.2)) _ _ (relab_wf G t1 0 hw1) (relab_wf G t2 0 hw2)
    (by rw [relab_sym]; exact hr1) (by rw [relab_sym]; exact hr2) (relab_zero_yield t1)
  rw [hy]
  exact relab_zero_yield t2

end Gocc.Unambig
