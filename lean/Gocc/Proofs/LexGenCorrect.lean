import Gocc.Proofs.LexGenCorrectAct
import Gocc.Proofs.LexGenCorrectLoop
import Gocc.Proofs.LexGenCorrectRef
import Gocc.Proofs.LexGenCorrectElem
/-
C01 (generator level), part 9 — (M4) the bisimulation between the generated automaton and the
reference automaton, for lexical parts without references to regular definitions.

Relation: `GRel states d m q` — state `m` of the generator and state `q` of the reference exist
and the item list of `m` and the position list of `q` are the same set under `i ↦ [i]`.
-/
namespace Gocc
namespace LexGenC

/-- the bisimulation relation -/
def GRel (states : Array LState) (d : RefDfa) (m q : Nat) : Prop :=
  ∃ (st : LState) (S : List XPos), states[m]? = some st ∧ d.states[q]? = some S ∧ SetRel st.items S

/-- how `LState.step` selects the target -/
theorem step_cases {C : LexCtx} {st : LState} (hok : StOK C st) (r : Int) :
    (∃ (k : Nat) (c : CR) (t : Int), st.classes[k]? = some c ∧ st.trans[k]? = some t ∧
        c.lo ≤ r ∧ r ≤ c.hi ∧ st.step r = t) ∨
    ((∀ c ∈ st.classes, ¬ (c.lo ≤ r ∧ r ≤ c.hi)) ∧
        st.step r = if st.matchAny then st.dotTrans else -1) := by
  unfold LState.step
  cases hf : (st.classes.zip st.trans).find?
      (fun p => decide (p.1.lo ≤ r) && decide (r ≤ p.1.hi)) with
  | some pr =>
    left
    have hp := List.find?_some hf
    have hm := List.mem_of_find?_eq_some hf
    obtain ⟨k, hk⟩ := List.mem_iff_getElem?.1 hm
    obtain ⟨h1, h2⟩ := List.getElem?_zip_eq_some.1 hk
    simp only [Bool.and_eq_true, decide_eq_true_eq] at hp
    exact ⟨k, pr.1, pr.2, h1, h2, hp.1, hp.2, rfl⟩
  | none =>
    right
    refine ⟨?_, rfl⟩
    intro c hc hr
    obtain ⟨k, hk⟩ := List.mem_iff_getElem?.1 hc
    have hlt : k < st.classes.length := (List.getElem?_eq_some_iff.1 hk).1
    have hlt' : k < st.trans.length := by rw [hok.tlen]; exact hlt
    have hz : (st.classes.zip st.trans)[k]? = some (c, st.trans[k]) :=
      List.getElem?_zip_eq_some.2 ⟨hk, List.getElem?_eq_getElem hlt'⟩
    have := List.find?_eq_none.1 hf _ (List.mem_of_getElem? hz)
    simp only [Bool.and_eq_true, decide_eq_true_eq] at this
    exact this hr

/-- the generated target on `r` stands for an item list `N`, the reference target for a position
    list `X`, and `N`, `X` are the same set -/
theorem trans_agree {prods : List LProd} {states : Array LState}
    (hn : noRefs prods = true)
    (gs : GenSpec { prods := prods.toArray } states)
    (rs : RefSpec { prods := prods.toArray } (refDfa prods) (elemStarts prods))
    {m q : Nat} {st : LState} {S : List XPos} (hm : states[m]? = some st)
    (hq : (refDfa prods).states[q]? = some S) (hrel : SetRel st.items S) {r : Int} (hr : IsRune r) :
    ∃ (N : List LItem) (X : List XPos), Target states (st.step r) N ∧
      RTarget (refDfa prods).states ((refDfa prods).step q r) X ∧ SetRel N X := by
  have hC := noRefC_of_noRefs hn
  have hok := gs.ok m st hm
  have hexp := gs.expanded m st hm
  have hgS := rs.good q S hq
  have hlen := hgS.length_le
  -- the reference side
  obtain ⟨row, hrow, hrowok⟩ := rs.rows q S hq
  obtain ⟨c0, hc0⟩ := exists_elemRep (elemStarts_ok prods) hr.1
  have hidx : (elemStarts prods)[elemIndex (elemStarts prods) r]? = some c0 :=
    elemRep_getElem? (strictInc_of_pairwise _ (elemStarts_pairwise prods)) hc0
  have hR : RTarget (refDfa prods).states ((refDfa prods).step q r)
      (xStep { prods := prods.toArray } S r) := by
    unfold RefDfa.step
    rw [hrow, rs.sts]
    dsimp only
    rw [xStep_uniform hc0 hr S]
    exact hrowok _ c0 hidx
  -- the generator side
  rcases step_cases hok r with ⟨k, c, t, hk, ht, hlo, hhi, hstep⟩ | ⟨hno, hstep⟩
  · refine ⟨moveSet { prods := prods.toArray } st.items c, _, ?_, hR, ?_⟩
    · rw [hstep]
      have := hexp.1 k c hk
      rw [ht] at this
      exact this
    · refine step_class hC hrel hlen ?_ hlo hhi
      rw [← hok.classes]; exact List.mem_of_getElem? hk
  · refine ⟨dotSet { prods := prods.toArray } st.items, _, ?_, hR, ?_⟩
    · rw [hstep]
      cases hany : st.matchAny with
      | true => exact hexp.2
      | false =>
        simp only [Bool.false_eq_true, if_false]
        have hnil : dotSet { prods := prods.toArray } st.items = [] := by
          cases hd : dotSet { prods := prods.toArray } st.items with
          | nil => rfl
          | cons y l =>
            exfalso
            have hy : y ∈ dotSet { prods := prods.toArray } st.items := by
              rw [hd]; exact List.mem_cons_self
            obtain ⟨i, hi, he, _⟩ := mem_dotSet.1 hy
            have := (symbolClasses_snd _ st.items).2 ⟨i, hi, he⟩
            rw [← hok.any, hany] at this
            cases this
        rw [hnil]
        exact ⟨fun _ => rfl, fun h => absurd rfl h⟩
    · refine step_dot hC hrel hlen ?_
      rw [← hok.classes]; exact hno

/-- (M4) the generated automaton and the reference automaton are bisimilar on all runes -/
theorem genLexer_bisimOn {prods : List LProd} {states : Array LState}
    (h : genLexer prods = .ok states) (hn : noRefs prods = true) (hsz : states.size < 100000)
    (hrs : (refDfa prods).states.size < 20000) (f : LAct → Int × Bool) :
    BisimOn IsRune
      (MDfa.tables {
        states := states,
        acts := states.map fun s => f (lexAction { prods := prods.toArray } s.items) })
      (RDfa.tables {
        dfa := refDfa prods,
        acts := (refDfa prods).states.map fun S => f (xVerdict { prods := prods.toArray } S) })
      (GRel states (refDfa prods)) := by
  have hC := noRefC_of_noRefs hn
  have gs := genLexer_spec h hn hsz
  have rs := refDfa_spec hn hrs
  refine ⟨?_, ?_, ?_, ?_⟩
  · -- start
    obtain ⟨st0, h0, hi0⟩ := gs.zero
    exact ⟨st0, _, h0, rs.zero, by rw [hi0]; exact start_rel hC⟩
  · -- acts
    rintro a b ⟨st, S, ha, hb, hrel⟩
    have hact := act_agree hrel (gs.ok a st ha).sorted (rs.good b S hb)
    simp only [MDfa.tables, RDfa.tables, Array.getElem?_map, ha, hb, Option.map_some, hact,
      Option.getD_some]
    exact ⟨trivial, trivial⟩
  · -- dead
    rintro a b r hr ⟨st, S, ha, hb, hrel⟩
    obtain ⟨N, X, hT, hRT, hNX⟩ := trans_agree hn gs rs ha hb hrel hr
    have e1 : (MDfa.tables {
        states := states,
        acts := states.map fun s => f (lexAction { prods := prods.toArray } s.items) }).trans a r =
        st.step r := by
      simp only [MDfa.tables, ha]
    have e2 : (RDfa.tables {
        dfa := refDfa prods,
        acts := (refDfa prods).states.map fun S => f (xVerdict { prods := prods.toArray } S) }).trans
        b r = (refDfa prods).step b r := rfl
    rw [e1, e2]
    by_cases hNe : N = []
    · have hXe := hNX.nil_iff.1 hNe
      exact ⟨fun _ => hRT.1 hXe, fun _ => hT.1 hNe⟩
    · have hXe : X ≠ [] := fun hx => hNe (hNX.nil_iff.2 hx)
      obtain ⟨j, _, _, hj, _⟩ := hT.2 hNe
      obtain ⟨j', _, _, hj', _⟩ := hRT.2 hXe
      rw [hj, hj']
      constructor <;> intro hc <;> omega
  · -- live
    rintro a b r hr ⟨st, S, ha, hb, hrel⟩ hne
    obtain ⟨N, X, hT, hRT, hNX⟩ := trans_agree hn gs rs ha hb hrel hr
    have e1 : (MDfa.tables {
        states := states,
        acts := states.map fun s => f (lexAction { prods := prods.toArray } s.items) }).trans a r =
        st.step r := by
      simp only [MDfa.tables, ha]
    have e2 : (RDfa.tables {
        dfa := refDfa prods,
        acts := (refDfa prods).states.map fun S => f (xVerdict { prods := prods.toArray } S) }).trans
        b r = (refDfa prods).step b r := rfl
    rw [e1] at hne
    rw [e1, e2]
    have hNe : N ≠ [] := fun hx => hne (hT.1 hx)
    have hXe : X ≠ [] := fun hx => hNe (hNX.nil_iff.2 hx)
    obtain ⟨j, stj, hsj, hj, hsame⟩ := hT.2 hNe
    obtain ⟨j', S', hsj', hj', hsameX⟩ := hRT.2 hXe
    rw [hj, hj']
    simp only [Int.toNat_natCast]
    refine ⟨stj, S', hsj, hsj', ?_⟩
    intro x
    rw [hsameX x, hNX x]
    constructor
    · rintro ⟨i, hi, rfl⟩; exact ⟨i, (hsame i).2 hi, rfl⟩
    · rintro ⟨i, hi, rfl⟩; exact ⟨i, (hsame i).1 hi, rfl⟩

end LexGenC
end Gocc
