import Gocc.Proofs.EmovesUniverse
import Gocc.Proofs.LoopsTerminateCount
/-
Lexer item lists (`Model/LexGen.lean`), part 1 of the termination of `ItemSets.Closure`
(internal/lexer/items/itemsets.go):

  §1  `LGood`: an item is a proper dotted position of the pattern tree of an existing production;
      the finite universe `lexUniv C` and its size `≤ C.fuel`
  §2  `emoves`, `moved`, `moveOn`, `moveDot`, `moveRef`, `initialItems` produce good items
  §3  `addL` / `addAll`
  §4  `depClosure`, `closureL`, `nextSet`, `nextDot`, `itemsSet0` keep item lists good and
      duplicate-free
  §5  `closureL` exhausts its work list (fuel adequacy) and is idempotent:
      `closureL C l = .ok r → closureL C r = .ok r`
-/
namespace Gocc.LoopsT
open Gocc.EmovesU

/-! ## §1 good items and the universe -/

def LGood (C : LexCtx) (x : LItem) : Prop :=
  ∃ P, C.prods[x.prod]? = some P ∧ GoodPath (.pat P.pat) x.path

theorem lgood_start {C : LexCtx} {k : Nat} {P : LProd} (hP : C.prods[k]? = some P) :
    LGood C ⟨k, [0]⟩ :=
  ⟨P, hP, [], 0, .pat P.pat, rfl, rfl, Nat.zero_le _⟩

/-- all dotted positions of all productions -/
def lexUniv (C : LexCtx) : List LItem := (List.range C.prods.size).flatMap (univ C)

theorem lgood_mem_univ {C : LexCtx} {x : LItem} (h : LGood C x) : x ∈ lexUniv C := by
  obtain ⟨P, hP, hg⟩ := h
  have hlt := (Array.getElem?_eq_some_iff.1 hP).1
  unfold lexUniv
  refine List.mem_flatMap.2 ⟨x.prod, List.mem_range.2 hlt, ?_⟩
  simp only [univ, hP]
  exact List.mem_map.2 ⟨x.path, goodPath_mem_enum hg, by cases x; rfl⟩

theorem sum_map_le {α : Type} (f g : α → Nat) : ∀ l : List α, (∀ x ∈ l, f x ≤ g x) →
    (l.map f).sum ≤ (l.map g).sum := by
  intro l
  induction l with
  | nil => intro _; simp
  | cons a l ih =>
    intro h
    simp only [List.map_cons, List.sum_cons]
    have := h a (by simp)
    have := ih (fun x hx => h x (List.mem_cons_of_mem _ hx))
    omega

theorem range_map_getBang' {α : Type} [Inhabited α] (a : Array α) (g : α → Nat) :
    ((List.range a.size).map fun p => g a[p]!) = a.toList.map g := by
  apply List.ext_getElem
  · simp
  · intro i h1 h2
    simp at h1 h2
    simp [h1]

theorem lexUniv_length (C : LexCtx) : (lexUniv C).length + 8 ≤ C.fuel := by
  unfold lexUniv LexCtx.fuel
  rw [List.length_flatMap]
  have h1 : ((List.range C.prods.size).map fun k => (univ C k).length).sum ≤
      ((List.range C.prods.size).map fun k => (fun p : LProd => 4 * p.pat.size + 4) C.prods[k]!).sum := by
    apply sum_map_le
    intro k hk
    have hk' : k < C.prods.size := List.mem_range.1 hk
    have hP : C.prods[k]? = some C.prods[k] := Array.getElem?_eq_getElem hk'
    have := (univ_length C k).1
    simp only [univD, hP] at this
    simp only [getElem!_pos C.prods k hk']
    omega
  rw [range_map_getBang' C.prods (fun p : LProd => 4 * p.pat.size + 4)] at h1
  omega

/-! ## §2 the ε-closure produces good items -/

theorem lgood_reach {C : LexCtx} {s y : LItem} (hs : LGood C s) (h : EReach C s y) : LGood C y := by
  induction h with
  | refl => exact hs
  | @step x y _ hnb hy ih =>
    obtain ⟨P, hP, q, j, m, hpath, hn, _⟩ := ih
    cases x with
    | mk xk xl =>
      simp only at hP hpath
      subst hpath
      obtain ⟨h1, h2⟩ := step_good hP hn hnb y hy
      exact ⟨P, by rw [h1]; exact hP, h2⟩

theorem lgood_emoves {C : LexCtx} {s : LItem} (hs : LGood C s) : ∀ y ∈ emoves C s, LGood C y :=
  fun y hy => lgood_reach hs (emoves_sound C s y hy).1

theorem termAt_lt {n : LNode} {j : Nat} {t : LTerm} (h : n.termAt j = some t) : j < n.len := by
  cases n with
  | alt a =>
    simp only [LNode.len]
    apply Decidable.byContradiction
    intro hj
    simp only [LNode.termAt, List.getElem?_eq_none (Nat.le_of_not_lt hj)] at h
    cases h
  | pat p => simp [LNode.termAt] at h
  | grp p => simp [LNode.termAt] at h
  | opt p => simp [LNode.termAt] at h
  | rep p => simp [LNode.termAt] at h

theorem lgood_inc {C : LexCtx} {x : LItem} {t : LTerm} (hx : LGood C x)
    (he : C.expected x = some t) : LGood C { x with path := incLast x.path } := by
  obtain ⟨P, hP, q, j, m, hpath, hn, _⟩ := hx
  cases x with
  | mk xk xl =>
    simp only at hP hpath
    subst hpath
    have htop : C.top ⟨xk, q ++ [j]⟩ = some (m, j) := by
      rw [top_eq hP, walk_snoc, hn]; rfl
    simp only [LexCtx.expected, htop] at he
    have := termAt_lt he
    exact ⟨P, hP, q, j + 1, m, by simp, hn, by omega⟩

theorem lgood_moved {C : LexCtx} {x : LItem} {t : LTerm} (hx : LGood C x)
    (he : C.expected x = some t) : ∀ y ∈ moved C x, LGood C y :=
  lgood_emoves (lgood_inc hx he)

theorem lgood_moveOn {C : LexCtx} {x : LItem} (hx : LGood C x) (c : CR) :
    ∀ y ∈ moveOn C x c, LGood C y := by
  intro y hy
  unfold moveOn at hy
  split at hy
  · rename_i t he
    split at hy
    · exact lgood_moved hx he y hy
    · cases hy
  · cases hy

theorem lgood_moveDot {C : LexCtx} {x : LItem} (hx : LGood C x) :
    ∀ y ∈ moveDot C x, LGood C y := by
  intro y hy
  unfold moveDot at hy
  split at hy
  · rename_i he
    exact lgood_moved hx he y hy
  · cases hy

theorem lgood_moveRef {C : LexCtx} {x : LItem} (hx : LGood C x) (id : String) :
    ∀ y ∈ moveRef C x id, LGood C y := by
  intro y hy
  unfold moveRef at hy
  split at hy
  · rename_i r he
    split at hy
    · exact lgood_moved hx he y hy
    · cases hy
  · cases hy

theorem lgood_initialItems {C : LexCtx} {r : String} {init : List LItem}
    (h : initialItems C r = .ok init) : ∀ y ∈ init, LGood C y := by
  unfold initialItems at h
  split at h
  · rename_i k hk
    cases h
    unfold LexCtx.prodIndex at hk
    obtain ⟨hlt, _⟩ := Array.findIdx?_eq_some_iff_getElem.1 hk
    exact lgood_emoves (lgood_start (Array.getElem?_eq_getElem hlt))
  · cases h

/-! ## §3 `addL`, `addAll` -/

theorem mem_addL' {l : List LItem} {i x : LItem} : x ∈ addL l i ↔ x ∈ l ∨ x = i := by
  unfold addL
  split
  · rename_i h
    have hi : i ∈ l := List.contains_iff_mem.1 h
    constructor
    · exact Or.inl
    · rintro (h' | rfl)
      · exact h'
      · exact hi
  · simp

theorem nodup_addL' {l : List LItem} (h : l.Nodup) (i : LItem) : (addL l i).Nodup := by
  unfold addL
  split
  · exact h
  · rename_i hc
    have hi : i ∉ l := fun hm => hc (List.contains_iff_mem.2 hm)
    rw [List.nodup_append]
    exact ⟨h, by simp, by
      intro a ha b hb
      have : b = i := by simpa using hb
      subst this
      intro hab; subst hab; exact hi ha⟩

/-- `addAll l is` appends to `l` the new elements of `is`, each once -/
theorem addAll_eq_append : ∀ (is l : List LItem),
    ∃ ex, addAll l is = l ++ ex ∧ ex.Nodup ∧ ∀ y ∈ ex, y ∈ is ∧ y ∉ l := by
  intro is
  induction is with
  | nil => intro l; exact ⟨[], by simp [addAll], by simp, by simp⟩
  | cons a is ih =>
    intro l
    have hstep : addAll l (a :: is) = addAll (addL l a) is := rfl
    rw [hstep]
    by_cases ha : a ∈ l
    · have : addL l a = l := by
        unfold addL; rw [if_pos (List.contains_iff_mem.2 ha)]
      rw [this]
      obtain ⟨ex, h1, h2, h3⟩ := ih l
      exact ⟨ex, h1, h2, fun y hy => ⟨List.mem_cons_of_mem _ (h3 y hy).1, (h3 y hy).2⟩⟩
    · have : addL l a = l ++ [a] := by
        unfold addL; rw [if_neg (fun h => ha (List.contains_iff_mem.1 h))]
      rw [this]
      obtain ⟨ex, h1, h2, h3⟩ := ih (l ++ [a])
      refine ⟨a :: ex, by rw [h1]; simp, ?_, ?_⟩
      · rw [List.nodup_cons]
        refine ⟨fun hm => (h3 a hm).2 (by simp), h2⟩
      · intro y hy
        rcases List.mem_cons.1 hy with rfl | hy
        · exact ⟨by simp, ha⟩
        · have := h3 y hy
          exact ⟨List.mem_cons_of_mem _ this.1, fun hm => this.2 (List.mem_append_left _ hm)⟩

theorem mem_addAll' {is l : List LItem} {x : LItem} : x ∈ addAll l is ↔ x ∈ l ∨ x ∈ is := by
  obtain ⟨ex, h1, _, h3⟩ := addAll_eq_append is l
  rw [h1, List.mem_append]
  constructor
  · rintro (h | h)
    · exact .inl h
    · exact .inr (h3 x h).1
  · rintro (h | h)
    · exact .inl h
    · by_cases hl : x ∈ l
      · exact .inl hl
      · -- x is new: it must have been appended
        have : x ∈ addAll l is := by
          clear h1 h3
          induction is generalizing l with
          | nil => cases h
          | cons a is ih =>
            have hstep : addAll l (a :: is) = addAll (addL l a) is := rfl
            rw [hstep]
            rcases List.mem_cons.1 h with rfl | h
            · obtain ⟨ex', h1', _, _⟩ := addAll_eq_append is (addL l x)
              rw [h1']
              exact List.mem_append_left _ (mem_addL'.2 (.inr rfl))
            · by_cases hl' : x ∈ addL l a
              · obtain ⟨ex', h1', _, _⟩ := addAll_eq_append is (addL l a)
                rw [h1']
                exact List.mem_append_left _ hl'
              · exact ih h hl'
        rw [h1, List.mem_append] at this
        exact this

theorem nodup_addAll' {is l : List LItem} (h : l.Nodup) : (addAll l is).Nodup := by
  obtain ⟨ex, h1, h2, h3⟩ := addAll_eq_append is l
  rw [h1, List.nodup_append]
  exact ⟨h, h2, fun a ha b hb hab => (h3 b hb).2 (hab ▸ ha)⟩

theorem addAll_of_subset {is l : List LItem} (h : ∀ y ∈ is, y ∈ l) : addAll l is = l := by
  obtain ⟨ex, h1, _, h3⟩ := addAll_eq_append is l
  cases ex with
  | nil => simpa using h1
  | cons a ex =>
    have := h3 a (by simp)
    exact absurd (h a this.1) this.2

/-- a duplicate-free list of good items -/
def GoodL (C : LexCtx) (l : List LItem) : Prop := l.Nodup ∧ ∀ x ∈ l, LGood C x

theorem GoodL.nil (C : LexCtx) : GoodL C [] := ⟨by simp, by simp⟩

theorem GoodL.addL {C : LexCtx} {l : List LItem} (h : GoodL C l) {i : LItem} (hi : LGood C i) :
    GoodL C (addL l i) :=
  ⟨nodup_addL' h.1 i, fun x hx => by
    rcases mem_addL'.1 hx with h' | rfl
    · exact h.2 x h'
    · exact hi⟩

theorem GoodL.addAll {C : LexCtx} {l is : List LItem} (h : GoodL C l)
    (hi : ∀ y ∈ is, LGood C y) : GoodL C (addAll l is) :=
  ⟨nodup_addAll' h.1, fun x hx => by
    rcases mem_addAll'.1 hx with h' | h'
    · exact h.2 x h'
    · exact hi x h'⟩

theorem foldl_inv_mem {α β : Type} (Inv : β → Prop) (g : β → α → β) : ∀ (l : List α) (b : β),
    (∀ acc a, a ∈ l → Inv acc → Inv (g acc a)) → Inv b → Inv (l.foldl g b) := by
  intro l
  induction l with
  | nil => intro b _ hb; exact hb
  | cons a l ih =>
    intro b h hb
    rw [List.foldl_cons]
    exact ih _ (fun acc x hx => h acc x (List.mem_cons_of_mem _ hx)) (h b a (by simp) hb)

/-! ## §4 the set constructors keep lists good -/

theorem depLoop_good {C : LexCtx} {prev : List LItem} (hp : ∀ x ∈ prev, LGood C x) :
    ∀ (fuel k : Nat) (items : List LItem), GoodL C items → GoodL C (depLoop C prev fuel k items) := by
  intro fuel
  induction fuel with
  | zero => intro k items h; exact h
  | succ fuel ih =>
    intro k items h
    unfold depLoop
    split
    · exact h
    · apply ih
      apply foldl_inv_mem (GoodL C)
      · intro acc th hth hacc
        split
        · split
          · split
            · exact hacc.addAll (lgood_moveRef (hp th hth) _)
            · exact hacc.addL (hp th hth)
          · exact hacc
        · exact hacc
      · exact h

theorem depClosure_good {C : LexCtx} {prev items : List LItem} (hp : ∀ x ∈ prev, LGood C x)
    (h : GoodL C items) : GoodL C (depClosure C prev items) := by
  unfold depClosure
  split
  · exact h
  · exact depLoop_good hp _ _ _ h

theorem closureLoopL_good {C : LexCtx} (orig : List LItem) :
    ∀ (fuel k : Nat) (cl r : List LItem), closureLoopL C orig fuel k cl = .ok r → GoodL C cl →
      GoodL C r := by
  intro fuel
  induction fuel with
  | zero => intro k cl r h hg; simp only [closureLoopL] at h; cases h; exact hg
  | succ fuel ih =>
    intro k cl r h hg
    unfold closureLoopL at h
    split at h
    · cases h; exact hg
    · split at h
      · split at h
        · cases hi : initialItems C _ with
          | error e => rw [hi] at h; cases h
          | ok init =>
            rw [hi] at h
            exact ih _ _ _ h (hg.addAll (lgood_initialItems hi))
        · exact ih _ _ _ h hg
      · exact ih _ _ _ h hg

theorem closureL_good {C : LexCtx} {l r : List LItem} (h : closureL C l = .ok r)
    (hg : GoodL C l) : GoodL C r :=
  closureLoopL_good l _ 0 l r h hg

theorem moveFold_good {C : LexCtx} {prev : List LItem} (f : LItem → List LItem)
    (hf : ∀ x ∈ prev, ∀ y ∈ f x, LGood C y) :
    GoodL C (prev.foldl (fun acc i => addAll acc (f i)) []) :=
  foldl_inv_mem (GoodL C) _ prev [] (fun _ a ha hacc => hacc.addAll (hf a ha)) (GoodL.nil C)

theorem nextSet_good {C : LexCtx} {prev items : List LItem} {c : CR} (hp : ∀ x ∈ prev, LGood C x)
    (h : nextSet C prev c = .ok items) : GoodL C items :=
  closureL_good h (depClosure_good hp
    (moveFold_good (fun i => moveOn C i c) (fun x hx => lgood_moveOn (hp x hx) c)))

theorem nextDot_good {C : LexCtx} {prev items : List LItem} (hp : ∀ x ∈ prev, LGood C x)
    (h : nextDot C prev = .ok items) : GoodL C items :=
  closureL_good h (depClosure_good hp
    (moveFold_good (fun i => moveDot C i) (fun x hx => lgood_moveDot (hp x hx))))

theorem itemsSet0_good (C : LexCtx) : GoodL C (itemsSet0 C) := by
  unfold itemsSet0
  apply foldl_inv_mem (GoodL C)
  · intro acc k _ hacc
    split
    · rename_i p hp
      split
      · exact hacc.addAll (lgood_emoves (lgood_start hp))
      · exact hacc
    · exact hacc
  · exact GoodL.nil C

/-! ## §5 `closureL` exhausts its work list and is idempotent -/

/-- the exit condition of `ItemList.Closure` for the item `i` -/
def RefDone (C : LexCtx) (orig cl : List LItem) (i : LItem) : Prop :=
  ∀ r, C.expected i = some (.ref r) → containShift C orig r = true ∨
    ∃ init, initialItems C r = .ok init ∧ ∀ y ∈ init, y ∈ cl

structure CLInv (C : LexCtx) (orig l : List LItem) (k : Nat) (cl : List LItem) : Prop where
  ext : ∃ extra, cl = l ++ extra ∧ extra.Nodup ∧ ∀ y ∈ extra, LGood C y
  kle : k ≤ cl.length
  done : ∀ idx i, idx < k → cl[idx]? = some i → RefDone C orig cl i

theorem CLInv.length_le {C : LexCtx} {orig l cl : List LItem} {k : Nat} (h : CLInv C orig l k cl) :
    cl.length ≤ l.length + (lexUniv C).length := by
  obtain ⟨extra, h1, h2, h3⟩ := h.ext
  have := List.Nodup.length_le_of_subset h2 (fun y hy => lgood_mem_univ (h3 y hy))
  rw [h1, List.length_append]
  omega

theorem RefDone.mono {C : LexCtx} {orig cl cl' : List LItem} {i : LItem}
    (h : RefDone C orig cl i) (hsub : ∀ y ∈ cl, y ∈ cl') : RefDone C orig cl' i := by
  intro r hr
  rcases h r hr with h' | ⟨init, h1, h2⟩
  · exact .inl h'
  · exact .inr ⟨init, h1, fun y hy => hsub y (h2 y hy)⟩

/-- one iteration that leaves the list alone -/
theorem CLInv.keep {C : LexCtx} {orig l cl : List LItem} {k : Nat} {i : LItem}
    (h : CLInv C orig l k cl) (hk : cl[k]? = some i) (hi : RefDone C orig cl i) :
    CLInv C orig l (k + 1) cl := by
  have hlt : k < cl.length := (List.getElem?_eq_some_iff.1 hk).1
  refine ⟨h.ext, hlt, ?_⟩
  intro idx j hidx hj
  by_cases he : idx = k
  · subst he; rw [hk] at hj; cases hj; exact hi
  · exact h.done idx j (by omega) hj

/-- one iteration that adds `NewItem(r).Emoves()` -/
theorem CLInv.add {C : LexCtx} {orig l cl init : List LItem} {k : Nat} {i : LItem} {r : String}
    (h : CLInv C orig l k cl) (hk : cl[k]? = some i) (he : C.expected i = some (.ref r))
    (hinit : initialItems C r = .ok init) : CLInv C orig l (k + 1) (addAll cl init) := by
  have hlt : k < cl.length := (List.getElem?_eq_some_iff.1 hk).1
  obtain ⟨ex, h1, h2, h3⟩ := addAll_eq_append init cl
  obtain ⟨extra, g1, g2, g3⟩ := h.ext
  have hsub : ∀ y ∈ cl, y ∈ addAll cl init := fun y hy => by rw [h1]; exact List.mem_append_left _ hy
  refine ⟨⟨extra ++ ex, by rw [h1, g1, List.append_assoc], ?_, ?_⟩, ?_, ?_⟩
  · rw [List.nodup_append]
    refine ⟨g2, h2, ?_⟩
    intro a ha b hb hab
    subst hab
    exact (h3 a hb).2 (by rw [g1]; exact List.mem_append_right _ ha)
  · intro y hy
    rcases List.mem_append.1 hy with hy | hy
    · exact g3 y hy
    · exact lgood_initialItems hinit y (h3 y hy).1
  · rw [h1, List.length_append]; omega
  · intro idx j hidx hj
    have hidx' : idx < cl.length := by omega
    have hj' : cl[idx]? = some j := by
      rw [h1, List.getElem?_append_left hidx'] at hj; exact hj
    by_cases hik : idx = k
    · subst hik
      rw [hk] at hj'
      cases hj'
      intro r' hr'
      rw [he] at hr'
      cases hr'
      exact .inr ⟨init, hinit, fun y hy => mem_addAll'.2 (.inr hy)⟩
    · exact (h.done idx j (by omega) hj').mono hsub

/-- with `fuel > |l| + |universe| - k` the loop leaves through `k = len(closure)`: every item of
    the result satisfies the exit condition -/
theorem closureLoopL_spec {C : LexCtx} (orig l : List LItem) :
    ∀ (fuel k : Nat) (cl r : List LItem), closureLoopL C orig fuel k cl = .ok r →
      CLInv C orig l k cl → l.length + (lexUniv C).length + 1 ≤ k + fuel →
      CLInv C orig l r.length r := by
  intro fuel
  induction fuel with
  | zero =>
    intro k cl r _ hinv hf
    have := hinv.length_le
    have := hinv.kle
    omega
  | succ fuel ih =>
    intro k cl r h hinv hf
    unfold closureLoopL at h
    split at h
    · rename_i hk
      cases h
      have hge : cl.length ≤ k := by
        apply Decidable.byContradiction
        intro hlt
        rw [List.getElem?_eq_getElem (by omega)] at hk
        cases hk
      have hkl := hinv.kle
      have hkeq : k = cl.length := by omega
      rw [← hkeq]; exact hinv
    · rename_i i hk
      split at h
      · rename_i r' he
        split at h
        · cases hi : initialItems C r' with
          | error e => rw [hi] at h; cases h
          | ok init =>
            rw [hi] at h
            exact ih _ _ _ h (hinv.add hk he hi) (by omega)
        · rename_i hcs
          refine ih _ _ _ h (hinv.keep hk ?_) (by omega)
          intro r'' hr''
          rw [he] at hr''
          cases hr''
          left
          simpa using hcs
      · rename_i hne
        refine ih _ _ _ h (hinv.keep hk ?_) (by omega)
        intro r'' hr''
        exact absurd hr'' (hne r'')

theorem closureL_spec {C : LexCtx} {l r : List LItem} (h : closureL C l = .ok r) :
    (∀ x ∈ l, x ∈ r) ∧ ∀ i ∈ r, RefDone C l r i := by
  have hfuel : (lexUniv C).length + 1 ≤ C.fuel * C.fuel + 8 := by
    have h1 := lexUniv_length C
    have h2 := Nat.le_mul_self C.fuel
    omega
  have hinv := closureLoopL_spec l l _ 0 l r h
    ⟨⟨[], by simp, by simp, by simp⟩, Nat.zero_le _, fun idx i hidx _ => by omega⟩ (by omega)
  obtain ⟨extra, h1, _, _⟩ := hinv.ext
  refine ⟨fun x hx => by rw [h1]; exact List.mem_append_left _ hx, ?_⟩
  intro i hi
  obtain ⟨idx, hidx, hget⟩ := List.mem_iff_getElem.1 hi
  exact hinv.done idx i hidx (by rw [List.getElem?_eq_getElem hidx, hget])

theorem containShift_mono {C : LexCtx} {a b : List LItem} (hsub : ∀ x ∈ a, x ∈ b) {r : String}
    (h : containShift C a r = true) : containShift C b r = true := by
  unfold containShift at h ⊢
  rw [List.any_eq_true] at h ⊢
  obtain ⟨x, hx, hp⟩ := h
  exact ⟨x, hsub x hx, hp⟩

/-- a list whose items all satisfy the exit condition is returned unchanged -/
theorem closureLoopL_fix {C : LexCtx} {l r : List LItem} (hsub : ∀ x ∈ l, x ∈ r)
    (hd : ∀ i ∈ r, RefDone C l r i) :
    ∀ (fuel k : Nat), closureLoopL C r fuel k r = .ok r := by
  intro fuel
  induction fuel with
  | zero => intro k; rfl
  | succ fuel ih =>
    intro k
    unfold closureLoopL
    split
    · rfl
    · rename_i i hk
      have hi : i ∈ r := List.mem_of_getElem? hk
      split
      · rename_i r' he
        split
        · rename_i hcs
          rcases hd i hi r' he with h' | ⟨init, h1, h2⟩
          · have := containShift_mono hsub h'
            rw [this] at hcs
            simp at hcs
          · rw [h1]
            simp only [bind, Except.bind]
            rw [addAll_of_subset h2]
            exact ih _
        · exact ih _
      · exact ih _

/-- IDEMPOTENCE of `ItemList.Closure` (for every input list) -/
theorem closureL_idem {C : LexCtx} {l r : List LItem} (h : closureL C l = .ok r) :
    closureL C r = .ok r := by
  obtain ⟨h1, h2⟩ := closureL_spec h
  exact closureLoopL_fix h1 h2 _ 0

end Gocc.LoopsT
