import Gocc.Model.ActionFold
/-
Helper lemmas for C04 / C05 (conflict fold of `ItemSet.Action`) and C12 (zip row encoding).

Method for the fold.  Everything is phrased through *membership* of proposed actions
(`some x ∈ acts`), which makes the predicates trivially invariant under permutation and easy
to extend by one element:

  `PanicsP acts`   accept together with a different action, or two different shifts
  `CompP acts`     two different non-error actions
  `SpecP acts r`   `r` is the shift / the smallest reduce / accept / nothing

`foldStep_ok` / `foldStep_err` show that one step of the fold maintains
`¬PanicsP pre ∧ SpecP pre r ∧ (c ↔ CompP pre)` resp. lands in `PanicsP`; `foldActs_inv` is the
fold.  The Bool functions of the model (`specResolve`, `competing`) and `panics` (defined here)
are then tied to the Prop predicates.
-/
namespace Gocc

/-- the derived `BEq Act` (used by `==` in the models) is equality -/
instance : LawfulBEq Act where
  rfl {a} := by cases a <;> simp [BEq.beq, instBEqAct.beq]
  eq_of_beq {a b} h := by
    cases a <;> cases b <;> simp_all [BEq.beq, instBEqAct.beq]

/-- decidable equality of results, for the `decide` examples in the property files -/
instance ActionFold.decEqExcept {ε α} [DecidableEq ε] [DecidableEq α] :
    DecidableEq (Except ε α)
  | .ok a, .ok b => if h : a = b then isTrue (by rw [h]) else isFalse (by intro h'; cases h'; exact h rfl)
  | .error a, .error b =>
    if h : a = b then isTrue (by rw [h]) else isFalse (by intro h'; cases h'; exact h rfl)
  | .ok _, .error _ => isFalse (by intro h; cases h)
  | .error _, .ok _ => isFalse (by intro h; cases h)

/-! ### (a) the fold inside `setAction` is `foldActs` -/

theorem setAction_eq_foldActs (C : LRCtx) (st : LRState) (sym : String) :
    setAction C st sym =
      foldActs (st.items.map fun i => itemAction C i sym ((st.next sym).getD 0)) := by
  unfold setAction foldActs
  rw [List.foldlM_map]
  rfl

/-! ### Prop-level predicates on the proposed actions -/

/-- generation is refused: accept together with a different action, or two different shifts -/
def PanicsP (acts : List (Option Act)) : Prop :=
  (some Act.accept ∈ acts ∧ ∃ x, some x ∈ acts ∧ x ≠ Act.accept) ∨
  ∃ s t, s ≠ t ∧ some (Act.shift s) ∈ acts ∧ some (Act.shift t) ∈ acts

/-- two different non-error actions are proposed -/
def CompP (acts : List (Option Act)) : Prop :=
  ∃ x y, some x ∈ acts ∧ some y ∈ acts ∧ x ≠ y

/-- `r` is: a proposed shift; else the proposed reduce with the smallest production index;
    else accept if proposed; else nothing -/
def SpecP (acts : List (Option Act)) : Option Act → Prop
  | none => ∀ x, some x ∉ acts
  | some (.shift s) => some (.shift s) ∈ acts
  | some (.reduce p) => some (.reduce p) ∈ acts ∧ (∀ s, some (.shift s) ∉ acts) ∧
      ∀ q, some (.reduce q) ∈ acts → p ≤ q
  | some .accept => some .accept ∈ acts ∧ (∀ s, some (.shift s) ∉ acts) ∧
      ∀ p, some (.reduce p) ∉ acts

theorem SpecP_congr {l l' : List (Option Act)} (h : ∀ x : Act, some x ∈ l ↔ some x ∈ l')
    (r : Option Act) : SpecP l r ↔ SpecP l' r := by
  rcases r with _ | r
  · simp [SpecP, h]
  · cases r <;> simp [SpecP, h]

theorem PanicsP_congr {l l' : List (Option Act)} (h : ∀ x : Act, some x ∈ l ↔ some x ∈ l') :
    PanicsP l ↔ PanicsP l' := by
  simp [PanicsP, h]

theorem CompP_congr {l l' : List (Option Act)} (h : ∀ x : Act, some x ∈ l ↔ some x ∈ l') :
    CompP l ↔ CompP l' := by
  simp [CompP, h]

theorem PanicsP_mono {l l' : List (Option Act)} (h : ∀ x : Act, some x ∈ l → some x ∈ l') :
    PanicsP l → PanicsP l' := by
  unfold PanicsP; grind

/-- when generation is not refused the specified entry is unique -/
theorem SpecP_unique {acts : List (Option Act)} {r r' : Option Act} (hp : ¬PanicsP acts)
    (h : SpecP acts r) (h' : SpecP acts r') : r = r' := by
  unfold PanicsP at hp
  rcases r with _ | r <;> rcases r' with _ | r'
  · rfl
  · cases r' <;> simp only [SpecP] at h h' <;> grind
  · cases r <;> simp only [SpecP] at h h' <;> grind
  · cases r <;> cases r' <;> simp only [SpecP] at h h' <;> grind

/-! ### one step of the fold -/

theorem foldStep_none (acc : Option Act × Bool) : foldStep acc none = .ok acc := by
  unfold foldStep; rfl

theorem foldStep_ok (pre : List (Option Act)) (r : Option Act) (c : Bool) (a : Option Act)
    (r' : Option Act) (c' : Bool)
    (hp : ¬PanicsP pre) (hs : SpecP pre r) (hc : c = true ↔ CompP pre)
    (h : foldStep (r, c) a = .ok (r', c')) :
    ¬PanicsP (pre ++ [a]) ∧ SpecP (pre ++ [a]) r' ∧ (c' = true ↔ CompP (pre ++ [a])) := by
  rcases a with _ | a
  · rw [foldStep_none] at h
    cases h
    have hm : ∀ x : Act, some x ∈ pre ++ [none] ↔ some x ∈ pre := by simp
    rw [PanicsP_congr hm, SpecP_congr hm, CompP_congr hm]
    exact ⟨hp, hs, hc⟩
  · rcases r with _ | r
    · simp [foldStep, pure, Except.pure] at h
      obtain ⟨rfl, rfl⟩ := h
      simp only [SpecP] at hs
      unfold PanicsP CompP at *
      refine ⟨?_, ?_, ?_⟩
      · grind
      · cases a <;> simp [SpecP] <;> grind
      · grind
    · cases r <;> cases a <;>
        simp [foldStep, resolve, pure, Except.pure, bind, Except.bind] at h <;>
        (try split at h) <;> (try simp at h) <;>
        (obtain ⟨rfl, rfl⟩ := h) <;> (try subst_vars) <;>
        simp only [SpecP] at hs ⊢ <;>
        unfold PanicsP CompP at * <;>
        (refine ⟨?_, ?_, ?_⟩ <;> grind)

theorem foldStep_err (pre : List (Option Act)) (r : Option Act) (c : Bool) (a : Option Act)
    (e : String) (hs : SpecP pre r)
    (h : foldStep (r, c) a = .error e) : PanicsP (pre ++ [a]) := by
  rcases a with _ | a
  · simp [foldStep_none] at h
  · rcases r with _ | r
    · simp [foldStep, pure, Except.pure] at h
    · cases r <;> cases a <;>
        simp [foldStep, resolve, pure, Except.pure, bind, Except.bind] at h <;>
        (try split at h) <;> (try simp at h) <;>
        simp only [SpecP] at hs <;>
        unfold PanicsP <;> grind

/-! ### the fold -/

theorem foldlM_inv (l pre : List (Option Act)) (r : Option Act) (c : Bool)
    (hp : ¬PanicsP pre) (hs : SpecP pre r) (hc : c = true ↔ CompP pre) :
    match l.foldlM foldStep (r, c) with
    | .ok (r', c') => ¬PanicsP (pre ++ l) ∧ SpecP (pre ++ l) r' ∧ (c' = true ↔ CompP (pre ++ l))
    | .error _ => PanicsP (pre ++ l) := by
  induction l generalizing pre r c with
  | nil => simpa [pure, Except.pure] using ⟨hp, hs, hc⟩
  | cons a l ih =>
    rw [List.foldlM_cons]
    cases h : foldStep (r, c) a with
    | error e =>
      simp only [bind, Except.bind]
      exact PanicsP_mono (by simp; grind) (foldStep_err pre r c a e hs h)
    | ok acc =>
      obtain ⟨r1, c1⟩ := acc
      obtain ⟨h1, h2, h3⟩ := foldStep_ok pre r c a r1 c1 hp hs hc h
      have := ih (pre ++ [a]) r1 c1 h1 h2 h3
      simpa [bind, Except.bind] using this

theorem foldActs_inv (acts : List (Option Act)) :
    match foldActs acts with
    | .ok (r, c) => ¬PanicsP acts ∧ SpecP acts r ∧ (c = true ↔ CompP acts)
    | .error _ => PanicsP acts := by
  have := foldlM_inv acts [] none false (by simp [PanicsP]) (by simp [SpecP]) (by simp [CompP])
  simpa [foldActs] using this

/-! ### Bool side: `panics`, `competing`, `specResolve` -/

def Act.isShift : Act → Bool
  | .shift _ => true
  | _ => false

/-- generation panics (in every mode): some accept together with a different action, or two
    different shifts.  Permutation invariant by construction (`panics_perm`). -/
def panics (acts : List (Option Act)) : Bool :=
  let as := acts.filterMap id
  (as.contains .accept && as.any (· != .accept)) ||
    as.any fun x => as.any fun y => x.isShift && y.isShift && x != y

theorem mem_filterMap_id {acts : List (Option Act)} {x : Act} :
    x ∈ acts.filterMap id ↔ some x ∈ acts := by simp

theorem panics_iff (acts : List (Option Act)) : panics acts = true ↔ PanicsP acts := by
  unfold panics PanicsP
  simp only [Bool.or_eq_true, Bool.and_eq_true, List.contains_iff_mem, List.any_eq_true,
    mem_filterMap_id, bne_iff_ne]
  constructor
  · rintro (h | ⟨x, hx, y, hy, ⟨h1, h2⟩, h3⟩)
    · exact Or.inl h
    · cases x <;> cases y <;> simp [Act.isShift] at h1 h2
      exact Or.inr ⟨_, _, by simpa using h3, hx, hy⟩
  · rintro (h | ⟨s, t, hne, hs, ht⟩)
    · exact Or.inl h
    · exact Or.inr ⟨_, hs, _, ht, by simp [Act.isShift], by simpa using hne⟩

theorem eraseDups_length_gt_one {α} [BEq α] [LawfulBEq α] (l : List α) :
    l.eraseDups.length > 1 ↔ ∃ x y, x ∈ l ∧ y ∈ l ∧ x ≠ y := by
  cases l with
  | nil => simp
  | cons a t =>
    rw [List.eraseDups_cons]
    cases hf : t.filter (fun b => !b == a) with
    | nil =>
      simp only [List.eraseDups_nil, List.length_cons, List.length_nil]
      rw [List.filter_eq_nil_iff] at hf
      simp at hf
      constructor
      · omega
      · rintro ⟨x, y, hx, hy, hne⟩
        simp only [List.mem_cons] at hx hy
        grind
    | cons b u =>
      rw [List.eraseDups_cons]
      have hb : b ∈ t.filter (fun b => !b == a) := by rw [hf]; simp
      simp at hb
      simp only [List.length_cons]
      constructor
      · intro _
        exact ⟨a, b, by simp, by simp [hb.1], fun h => hb.2 h.symm⟩
      · intro _; omega

theorem competing_iff (acts : List (Option Act)) : competing acts = true ↔ CompP acts := by
  unfold competing CompP
  simp only [decide_eq_true_eq]
  rw [eraseDups_length_gt_one]
  simp only [mem_filterMap_id]

theorem foldl_min_le (l : List Nat) (r : Nat) :
    l.foldl min r ≤ r ∧ (∀ x ∈ l, l.foldl min r ≤ x) ∧ (l.foldl min r = r ∨ l.foldl min r ∈ l) := by
  induction l generalizing r with
  | nil => simp
  | cons a l ih =>
    obtain ⟨h1, h2, h3⟩ := ih (min r a)
    simp only [List.foldl_cons, List.mem_cons]
    refine ⟨by omega, ?_, ?_⟩
    · rintro x (rfl | hx)
      · omega
      · exact h2 x hx
    · grind

theorem specResolve_spec (acts : List (Option Act)) :
    SpecP acts (specResolve acts) := by
  unfold specResolve
  simp only
  split
  · rename_i sh h
    have := List.find?_some h
    have hm := List.mem_of_find?_eq_some h
    rw [mem_filterMap_id] at hm
    cases sh <;> simp at this
    simpa [SpecP] using hm
  · rename_i h
    rw [List.find?_eq_none] at h
    have hns : ∀ s, some (Act.shift s) ∉ acts := by
      intro s hs
      have := h _ (mem_filterMap_id.mpr hs)
      simp at this
    generalize hrs : List.filterMap _ (List.filterMap id acts) = rs
    have hmr : ∀ p, p ∈ rs ↔ some (Act.reduce p) ∈ acts := by
      intro p
      subst hrs
      simp only [List.mem_filterMap, id]
      constructor
      · rintro ⟨a, ⟨b, hb, rfl⟩, ha⟩
        cases a <;> simp at ha
        subst ha; exact hb
      · intro hp; exact ⟨_, ⟨_, hp, rfl⟩, rfl⟩
    clear hrs
    split
    · simp at hmr
      split
      · rename_i hc
        simp at hc
        simp [SpecP, hns, hmr]
        exact hc
      · rename_i hc
        simp at hc
        simp only [SpecP]
        intro x; cases x
        · exact hns _
        · exact hmr _
        · exact hc
    · rename_i r rest
      obtain ⟨h1, h2, h3⟩ := foldl_min_le rest r
      simp only [SpecP]
      refine ⟨?_, hns, ?_⟩
      · rw [← hmr]; simp; grind
      · intro q hq
        rw [← hmr] at hq
        simp at hq
        rcases hq with rfl | hq
        · exact h1
        · exact h2 _ hq

/-! ### the fold computes `specResolve` / `competing` unless `panics` -/

theorem foldActs_toOption (acts : List (Option Act)) :
    (foldActs acts).toOption =
      if panics acts then none else some (specResolve acts, competing acts) := by
  have h := foldActs_inv acts
  cases hf : foldActs acts with
  | error e =>
    rw [hf] at h
    simp [Except.toOption, (panics_iff acts).mpr h]
  | ok acc =>
    obtain ⟨r, c⟩ := acc
    rw [hf] at h
    obtain ⟨h1, h2, h3⟩ := h
    have hpn : panics acts = false := by
      rw [← Bool.not_eq_true, panics_iff]; exact h1
    have hr : r = specResolve acts := SpecP_unique h1 h2 (specResolve_spec acts)
    have hc : c = competing acts := by
      rw [Bool.eq_iff_iff, competing_iff]; exact h3
    simp [Except.toOption, hpn, hr, hc]

theorem foldActs_ok_of_not_panics (acts : List (Option Act)) (h : panics acts = false) :
    foldActs acts = .ok (specResolve acts, competing acts) := by
  have := foldActs_toOption acts
  cases hf : foldActs acts with
  | error e => simp [hf, Except.toOption, h] at this
  | ok acc => simpa [hf, Except.toOption, h] using this

/-! ### permutation invariance -/

theorem perm_mem_some {acts acts' : List (Option Act)} (h : acts.Perm acts') (x : Act) :
    some x ∈ acts ↔ some x ∈ acts' := h.mem_iff

theorem panics_perm {acts acts' : List (Option Act)} (h : acts.Perm acts') :
    panics acts = panics acts' := by
  rw [Bool.eq_iff_iff, panics_iff, panics_iff]
  exact PanicsP_congr (perm_mem_some h)

theorem competing_perm {acts acts' : List (Option Act)} (h : acts.Perm acts') :
    competing acts = competing acts' := by
  rw [Bool.eq_iff_iff, competing_iff, competing_iff]
  exact CompP_congr (perm_mem_some h)

/-- `specResolve` picks the *first* shift, so it is order independent only when all proposed
    shifts agree — which is the case whenever generation does not panic -/
theorem specResolve_perm {acts acts' : List (Option Act)} (h : acts.Perm acts')
    (hp : panics acts = false) : specResolve acts = specResolve acts' := by
  have hp' : ¬PanicsP acts := by rw [← panics_iff]; simp [hp]
  exact SpecP_unique hp' (specResolve_spec acts)
    ((SpecP_congr (perm_mem_some h) _).mpr (specResolve_spec acts'))

/-! ### C12: zip row encoding -/

def decodeStep (row : List (Option Act)) (e : ZEntry) : List (Option Act) :=
  if e.index < row.length then
    match e.action with
    | 0 => row.set e.index (some .accept)
    | 1 => row.set e.index (some (.reduce e.amount))
    | 2 => row.set e.index (some (.shift e.amount))
    | _ => row
  else row

theorem decodeRow_eq (n : Nat) (es : List ZEntry) :
    decodeRow n es = es.foldl decodeStep (List.replicate n none) := rfl

theorem decodeStep_hit (pre t : List (Option Act)) (x : Option Act) (m : Nat) :
    decodeStep (pre ++ x :: t) ⟨pre.length, 0, m⟩ = pre ++ some .accept :: t ∧
    decodeStep (pre ++ x :: t) ⟨pre.length, 1, m⟩ = pre ++ some (.reduce m) :: t ∧
    decodeStep (pre ++ x :: t) ⟨pre.length, 2, m⟩ = pre ++ some (.shift m) :: t := by
  simp [decodeStep]

theorem decode_encodeRowFrom (rest pre : List (Option Act)) :
    (encodeRowFrom pre.length rest).foldl decodeStep (pre ++ List.replicate rest.length none)
      = pre ++ rest := by
  induction rest generalizing pre with
  | nil => simp [encodeRowFrom]
  | cons a rest ih =>
    have ih' := ih (pre ++ [a])
    simp only [List.length_append, List.length_singleton, List.append_assoc,
      List.singleton_append] at ih'
    rcases a with _ | a
    · simpa [encodeRowFrom, List.replicate_succ] using ih'
    · have hh := fun m => decodeStep_hit pre (List.replicate rest.length none) none m
      cases a <;>
        simp only [encodeRowFrom, List.foldl_cons, List.length_cons, List.replicate_succ] <;>
        simp only [hh] <;> exact ih'

theorem decode_encodeRow (row : List (Option Act)) :
    decodeRow row.length (encodeRow row) = row := by
  simpa [decodeRow_eq, encodeRow] using decode_encodeRowFrom row []

end Gocc
