import Gocc.Proofs.GenSafe
import Gocc.Model.GenCert
/-
Generator-level completeness, part 1: the FIRST sets.

  §1  `firstS`: what it contains (`InFirstSeq`), when it contains the marker `empty`
  §2  the elements of the computed FIRST sets are `empty` or good terminals (`TInv`)
  §3  the fixed point, production by production (`first_fix_prod`)
-/
namespace Gocc.GenComplete

/-! ## §1 `firstS` -/

/-- `t` is in the FIRST set (as stored, marker `empty` included) of a symbol of `syms` all of whose
    predecessors have the marker `empty` in theirs -/
def InFirstSeq (S : PSymbols) (fs : FirstSets) (t : String) : List String → Prop
  | [] => False
  | x :: rest => t ∈ first S fs x ∨ ("empty" ∈ first S fs x ∧ InFirstSeq S fs t rest)

theorem go_acc_sub {S : PSymbols} {fs : FirstSets} {t : String} :
    ∀ (ys acc : List String) (ce : Bool), t ∈ acc → t ∈ (firstS.go S fs acc ce ys).1 := by
  intro ys
  induction ys with
  | nil => intro acc ce h; simp only [firstS.go]; exact h
  | cons y ys ih =>
    intro acc ce h
    simp only [firstS.go]
    split
    · exact ih _ _ (foldl_addNoDup_mem_iff.2 (Or.inl h))
    · exact h

theorem go_mem {S : PSymbols} {fs : FirstSets} {t : String} :
    ∀ (ys acc : List String), InFirstSeq S fs t ys → t ∈ (firstS.go S fs acc true ys).1 := by
  intro ys
  induction ys with
  | nil => intro acc h; exact h.elim
  | cons y ys ih =>
    intro acc h
    simp only [firstS.go, if_true]
    rcases h with h | ⟨h1, h2⟩
    · exact go_acc_sub _ _ _ (foldl_addNoDup_mem_iff.2 (Or.inr h))
    · have : (first S fs y).contains "empty" = true := by simpa using h1
      rw [this]
      exact ih _ h2

theorem go_flag_true {S : PSymbols} {fs : FirstSets} :
    ∀ (ys acc : List String), (∀ y ∈ ys, "empty" ∈ first S fs y) →
      (firstS.go S fs acc true ys).2 = true := by
  intro ys
  induction ys with
  | nil => intro acc _; simp only [firstS.go]
  | cons y ys ih =>
    intro acc h
    simp only [firstS.go, if_true]
    have : (first S fs y).contains "empty" = true := by
      simpa using h y (List.mem_cons_self ..)
    rw [this]
    exact ih _ (fun z hz => h z (List.mem_cons_of_mem _ hz))

theorem go_flag_spec {S : PSymbols} {fs : FirstSets} :
    ∀ (ys acc : List String) (ce : Bool), (firstS.go S fs acc ce ys).2 = true →
      ce = true ∧ ∀ y ∈ ys, "empty" ∈ first S fs y := by
  intro ys
  induction ys with
  | nil => intro acc ce h; simp only [firstS.go] at h; exact ⟨h, by simp⟩
  | cons y ys ih =>
    intro acc ce h
    simp only [firstS.go] at h
    split at h
    · rename_i hce
      obtain ⟨h1, h2⟩ := ih _ _ h
      refine ⟨hce, ?_⟩
      intro z hz
      rcases List.mem_cons.1 hz with rfl | hz
      · simpa using h1
      · exact h2 z hz
    · rename_i hce
      exact absurd h hce

/-- `firstS` contains every non-marker element reachable through nullable prefixes -/
theorem firstS_mem {S : PSymbols} {fs : FirstSets} {syms : List String} {t : String}
    (h : InFirstSeq S fs t syms) (ht : t ≠ "empty") : t ∈ firstS S fs syms := by
  cases syms with
  | nil => exact h.elim
  | cons x rest =>
    simp only [firstS]
    have key : t ∈ (firstS.go S fs ((first S fs x).foldl addNoDup [])
        ((first S fs x).contains "empty") rest).1 := by
      rcases h with h | ⟨h1, h2⟩
      · exact go_acc_sub _ _ _ (foldl_addNoDup_mem_iff.2 (Or.inr h))
      · have : (first S fs x).contains "empty" = true := by simpa using h1
        rw [this]
        exact go_mem _ _ h2
    split
    · exact key
    · exact List.mem_filter.2 ⟨key, by simpa using ht⟩

/-- `firstS` keeps the marker when every symbol has it -/
theorem firstS_empty {S : PSymbols} {fs : FirstSets} {syms : List String} (hne : syms ≠ [])
    (h : ∀ y ∈ syms, "empty" ∈ first S fs y) : "empty" ∈ firstS S fs syms := by
  cases syms with
  | nil => exact absurd rfl hne
  | cons x rest =>
    simp only [firstS]
    have hx : (first S fs x).contains "empty" = true := by
      simpa using h x (List.mem_cons_self ..)
    rw [hx, go_flag_true _ _ (fun z hz => h z (List.mem_cons_of_mem _ hz))]
    simp only [if_true]
    exact go_acc_sub _ _ _ (foldl_addNoDup_mem_iff.2 (Or.inr (h x (List.mem_cons_self ..))))

/-- … and drops it as soon as one symbol lacks it -/
theorem firstS_no_empty {S : PSymbols} {fs : FirstSets} {syms : List String} {y : String}
    (hy : y ∈ syms) (h : "empty" ∉ first S fs y) : "empty" ∉ firstS S fs syms := by
  cases syms with
  | nil => cases hy
  | cons x rest =>
    simp only [firstS]
    split
    · rename_i hflag
      exfalso
      obtain ⟨h1, h2⟩ := go_flag_spec _ _ _ hflag
      rcases List.mem_cons.1 hy with rfl | hy
      · exact h (by simpa using h1)
      · exact h (h2 y hy)
    · intro hm
      have := (List.mem_filter.1 hm).2
      simp at this

/-! ## §2 the elements of the FIRST sets -/

/-- a terminal that can be a look-ahead: a column of the action table other than `INVALID`, and
    not the marker `empty` -/
def GoodT (S : PSymbols) (t : String) : Prop :=
  S.isTerminal t = true ∧ t ≠ "INVALID" ∧ t ≠ "empty"

/-- every stored element is the marker or a good terminal -/
def TInv (S : PSymbols) (fs : FirstSets) : Prop :=
  ∀ e ∈ fs, ∀ t ∈ e.2, t = "empty" ∨ GoodT S t

/-- the spellings in the bodies: no `INVALID`; no `empty` in an alternative that is not an empty
    alternative -/
def BodyOk (prods : List SProd) : Prop :=
  ∀ p ∈ prods, ∀ s ∈ p.body, s.name ≠ "INVALID" ∧ (prodLen p ≠ 0 → s.name ≠ "empty")

theorem mem_addTok {fs : FirstSets} {n t x : String} {e' : String × List String}
    (he : e' ∈ (fs.addTok n t).1) (hx : x ∈ e'.2) : x = t ∨ ∃ e ∈ fs, x ∈ e.2 := by
  rw [addTok_eq] at he
  split at he
  · split at he
    · exact .inr ⟨e', he, hx⟩
    · rcases List.mem_map.1 he with ⟨e, he0, rfl⟩
      unfold bump at hx
      split at hx
      · rcases List.mem_append.1 hx with hx | hx
        · exact .inr ⟨e, he0, hx⟩
        · exact .inl (by simpa using hx)
      · exact .inr ⟨e, he0, hx⟩
  · rcases List.mem_append.1 he with he | he
    · exact .inr ⟨e', he, hx⟩
    · have : e' = (n, [t]) := by simpa using he
      subst this
      exact .inl (by simpa using hx)

theorem mem_addSet {n x : String} : ∀ (ts : List String) (acc : FirstSets × Bool)
    {e' : String × List String},
    e' ∈ (ts.foldl (fun (acc : FirstSets × Bool) t =>
      let r := acc.1.addTok n t; (r.1, acc.2 || r.2)) acc).1 → x ∈ e'.2 →
    x ∈ ts ∨ ∃ e ∈ acc.1, x ∈ e.2 := by
  intro ts
  induction ts with
  | nil => intro acc e' he hx; exact .inr ⟨e', he, hx⟩
  | cons t ts ih =>
    intro acc e' he hx
    rw [List.foldl_cons] at he
    rcases ih _ he hx with h | ⟨e, he1, hx1⟩
    · exact .inl (List.mem_cons_of_mem _ h)
    · rcases mem_addTok he1 hx1 with h | h
      · exact .inl (h ▸ List.mem_cons_self ..)
      · exact .inr h

theorem TInv_addTok {S : PSymbols} {fs : FirstSets} (h : TInv S fs) (n : String) {t : String}
    (ht : t = "empty" ∨ GoodT S t) : TInv S (fs.addTok n t).1 := by
  intro e' he x hx
  rcases mem_addTok he hx with rfl | ⟨e, he0, hx0⟩
  · exact ht
  · exact h e he0 x hx0

theorem TInv_addSet {S : PSymbols} {fs : FirstSets} (h : TInv S fs) (n : String)
    {ts : List String} (hts : ∀ t ∈ ts, t = "empty" ∨ GoodT S t) : TInv S (fs.addSet n ts).1 := by
  intro e' he x hx
  unfold FirstSets.addSet at he
  rcases mem_addSet ts (fs, false) he hx with h' | ⟨e, he0, hx0⟩
  · exact hts x h'
  · exact h e he0 x hx0

/-- elements of `first` of a body symbol -/
theorem first_good {S : PSymbols} {fs : FirstSets} (h : TInv S fs) {y t : String}
    (hy : S.isTerminal y = true → y = "empty" ∨ GoodT S y) (ht : t ∈ first S fs y) :
    t = "empty" ∨ GoodT S t := by
  unfold first at ht
  split at ht
  · rename_i hterm
    have : t = y := by simpa using ht
    subst this
    exact hy hterm
  · obtain ⟨e, he, hte⟩ := mem_fsGet ht
    exact h e he t hte

theorem firstS_good {S : PSymbols} {fs : FirstSets} (h : TInv S fs) {syms : List String}
    (hy : ∀ y ∈ syms, S.isTerminal y = true → y = "empty" ∨ GoodT S y) {t : String}
    (ht : t ∈ firstS S fs syms) : t = "empty" ∨ GoodT S t := by
  obtain ⟨y, hy1, hy2⟩ := mem_firstS ht
  exact first_good h (hy y hy1) hy2

theorem TInv_firstPass {S : PSymbols} {prods : List SProd} (hB : BodyOk prods) :
    ∀ (fs : FirstSets), TInv S fs → TInv S (firstPass S prods fs).1 := by
  intro fs hfs
  unfold firstPass
  refine (foldl_inv_rel (fun (b : FirstSets × Bool) => TInv S b.1) (fun _ _ => True)
    (fun (p : SProd) => ∀ s ∈ p.body, s.name ≠ "INVALID" ∧ (prodLen p ≠ 0 → s.name ≠ "empty")) _
    (fun _ => trivial) (fun _ _ _ _ _ => trivial) ?_ prods (fs, false) hB hfs).1
  intro acc p hb hacc
  refine ⟨?_, trivial⟩
  have hacc' : TInv S acc.1 := hacc
  dsimp only
  split
  · exact TInv_addTok hacc' _ (.inl rfl)
  · rename_i s0 rest hbody
    have hs0 := hb s0 (by rw [hbody]; exact List.mem_cons_self ..)
    split
    · rename_i hterm
      apply TInv_addTok hacc'
      by_cases he : s0.name = "empty"
      · exact .inl he
      · exact .inr ⟨hterm, hs0.1, he⟩
    · rename_i hnt
      split
      · apply TInv_addSet hacc'
        intro t ht
        refine firstS_good hacc' ?_ ht
        intro y hy hterm
        rcases List.mem_map.1 hy with ⟨s, hs, rfl⟩
        by_cases he : s.name = "empty"
        · exact .inl he
        · exact .inr ⟨hterm, (hb s hs).1, he⟩
      · exact hacc'

theorem TInv_firstPassN {S : PSymbols} {prods : List SProd} (hB : BodyOk prods) :
    ∀ (n : Nat) (fs : FirstSets), TInv S fs → TInv S (firstPassN S prods n fs) := by
  intro n
  induction n with
  | zero => intro fs h; exact h
  | succ n ih => intro fs h; exact ih _ (TInv_firstPass hB fs h)

theorem firstSets_eq_passN {S : PSymbols} {prods : List SProd} (hW : WFp S prods) :
    ∃ n, firstSets S prods = firstPassN S prods n [] := by
  unfold firstSets
  obtain ⟨n, _, _, _, _, h5, _⟩ := firstSetsFuel_spec hW
    (S.ntList.length * (S.typeMap.length + 2) + 2) [] (FInv.nil S) (by
      have : S.ntList.length * (S.typeMap.length + 1) ≤
          S.ntList.length * (S.typeMap.length + 2) := Nat.mul_le_mul_left _ (by omega)
      simp only [fsSize, List.map_nil, List.sum_nil]
      omega)
  exact ⟨n, h5⟩

/-- one more pass adds nothing (as `C09_first_fixpoint`) -/
theorem first_fixpoint {S : PSymbols} {prods : List SProd} (hW : WFp S prods) :
    (firstPass S prods (firstSets S prods)).2 = false := by
  unfold firstSets
  obtain ⟨n, _, _, _, h4, h5, _⟩ := firstSetsFuel_spec hW
    (S.ntList.length * (S.typeMap.length + 2) + 2) [] (FInv.nil S) (by
      have : S.ntList.length * (S.typeMap.length + 1) ≤
          S.ntList.length * (S.typeMap.length + 2) := Nat.mul_le_mul_left _ (by omega)
      simp only [fsSize, List.map_nil, List.sum_nil]
      omega)
  rw [h5]; exact h4

theorem TInv_firstSets {S : PSymbols} {prods : List SProd} (hW : WFp S prods)
    (hB : BodyOk prods) : TInv S (firstSets S prods) := by
  obtain ⟨n, heq⟩ := firstSets_eq_passN hW
  rw [heq]
  exact TInv_firstPassN hB n [] (by intro e he; cases he)

/-! ## §3 the fixed point, production by production -/

/-- the body of the loop of `firstPass` -/
def passStep (S : PSymbols) (acc : FirstSets × Bool) (p : SProd) : FirstSets × Bool :=
  let fs := acc.1
  match p.body with
  | [] => let r := fs.addTok p.head "empty"; (r.1, acc.2 || r.2)
  | s0 :: _ =>
    if S.isTerminal s0.name then
      let r := fs.addTok p.head s0.name; (r.1, acc.2 || r.2)
    else
      let f := firstS S fs (p.body.map (·.name))
      if !sameSet f (fs.get p.head) then
        let r := fs.addSet p.head f; (r.1, acc.2 || r.2)
      else acc

theorem firstPass_eq (S : PSymbols) (prods : List SProd) (fs : FirstSets) :
    firstPass S prods fs = prods.foldl (passStep S) (fs, false) := rfl

theorem passStep_spec {S : PSymbols} {acc : FirstSets × Bool} {p : SProd}
    (hp : p.head ∈ S.ntList ∧ ∀ s ∈ p.body, s.name ∈ S.typeMap) (hacc : FInv S acc.1) :
    FInv S (passStep S acc p).1 ∧ FR acc (passStep S acc p) := by
  obtain ⟨hh, hb⟩ := hp
  unfold passStep
  dsimp only
  split
  · exact ⟨addTok_inv hacc hh (by simp [firstU]),
      FR.of_progress acc _ _ (addTok_progress acc.1 p.head "empty")⟩
  · rename_i s0 rest hbody
    have hs0 : s0.name ∈ S.typeMap := hb s0 (by rw [hbody]; exact List.mem_cons_self ..)
    split
    · exact ⟨addTok_inv hacc hh (List.mem_cons_of_mem _ hs0),
        FR.of_progress acc _ _ (addTok_progress acc.1 p.head s0.name)⟩
    · split
      · have hsub : ∀ t ∈ firstS S acc.1 (p.body.map (·.name)), t ∈ firstU S := by
          intro t ht
          rcases mem_firstS' ht with h' | ⟨e, he, hte⟩
          · rcases List.mem_map.1 h' with ⟨s, hs, rfl⟩
            exact List.mem_cons_of_mem _ (hb s hs)
          · exact (hacc.vals e he).2 t hte
        have := addSet_spec hacc hh _ hsub
        refine ⟨this.1, FR.of_progress acc _ _ ⟨this.2.1, ?_, ?_⟩⟩
        · intro h; exact this.2.2.2.1 rfl h
        · intro h; exact this.2.2.2.2 h
      · exact ⟨hacc, FR.refl acc⟩

/-- a pass that reports "nothing added" left every production's step without effect -/
theorem fold_fix {S : PSymbols} : ∀ (l : List SProd) (acc : FirstSets × Bool),
    (∀ p ∈ l, p.head ∈ S.ntList ∧ ∀ s ∈ p.body, s.name ∈ S.typeMap) → FInv S acc.1 →
    acc.2 = false → (l.foldl (passStep S) acc).2 = false →
    ∀ p ∈ l, passStep S acc p = acc := by
  intro l
  induction l with
  | nil => intro acc _ _ _ _ p hp; cases hp
  | cons q l ih =>
    intro acc hW hacc hflag hres p hp
    rw [List.foldl_cons] at hres
    obtain ⟨s1, s2⟩ := passStep_spec (hW q (List.mem_cons_self ..)) hacc
    have hrest := foldl_inv_rel (fun (b : FirstSets × Bool) => FInv S b.1) FR
      (fun (p : SProd) => p.head ∈ S.ntList ∧ ∀ s ∈ p.body, s.name ∈ S.typeMap) (passStep S)
      FR.refl FR.trans (fun b x hx hb => passStep_spec hx hb) l (passStep S acc q)
      (fun x hx => hW x (List.mem_cons_of_mem _ hx)) s1
    have hq2 : (passStep S acc q).2 = false := by
      cases hb : (passStep S acc q).2 with
      | false => rfl
      | true => have := hrest.2.2.1 hb; rw [hres] at this; cases this
    have hq1 : (passStep S acc q).1 = acc.1 := s2.2.2.2 hq2
    have hq : passStep S acc q = acc := by
      cases hacc' : acc with
      | mk a b =>
        rw [hacc'] at hq1 hq2 hflag
        simp only at hflag
        subst hflag
        exact Prod.ext hq1 hq2
    rcases List.mem_cons.1 hp with rfl | hp
    · exact hq
    · rw [hq] at hres
      exact ih acc (fun x hx => hW x (List.mem_cons_of_mem _ hx)) hacc hflag hres p hp

theorem addTok_false {fs : FirstSets} {n t : String} (h : (fs.addTok n t).2 = false) :
    t ∈ fs.get n := by
  rw [addTok_eq] at h
  unfold FirstSets.get
  split at h
  · rename_i m s hfind
    rw [hfind]
    split at h
    · rename_i hc
      simpa using hc
    · cases h
  · cases h

theorem addSet_false {n : String} : ∀ (ts : List String) (acc : FirstSets × Bool),
    (ts.foldl (fun (acc : FirstSets × Bool) t =>
      let r := acc.1.addTok n t; (r.1, acc.2 || r.2)) acc).2 = false →
    acc.2 = false ∧ ∀ t ∈ ts, t ∈ acc.1.get n := by
  intro ts
  induction ts with
  | nil => intro acc h; exact ⟨h, by simp⟩
  | cons t ts ih =>
    intro acc h
    rw [List.foldl_cons] at h
    obtain ⟨h1, h2⟩ := ih _ h
    simp only [Bool.or_eq_false_iff] at h1
    have hfix := (addTok_progress acc.1 n t).2.2 h1.2
    refine ⟨h1.1, ?_⟩
    intro x hx
    rcases List.mem_cons.1 hx with rfl | hx
    · exact addTok_false h1.2
    · have := h2 x hx
      simp only [hfix] at this
      exact this

theorem sameSet_sub {a b : List String} (h : sameSet a b = true) : ∀ x ∈ a, x ∈ b := by
  unfold sameSet at h
  simp only [Bool.and_eq_true, List.all_eq_true, List.contains_iff_mem] at h
  exact h.2

/-- what the fixed point says about one production -/
theorem first_fix_prod {S : PSymbols} {prods : List SProd} (hW : WFp S prods) {p : SProd}
    (hp : p ∈ prods) :
    match p.body with
    | [] => "empty" ∈ (firstSets S prods).get p.head
    | s0 :: _ =>
      if S.isTerminal s0.name then s0.name ∈ (firstSets S prods).get p.head
      else ∀ t ∈ firstS S (firstSets S prods) (p.body.map (·.name)),
        t ∈ (firstSets S prods).get p.head := by
  have hfix := first_fixpoint hW
  rw [firstPass_eq] at hfix
  have hstep := fold_fix prods (firstSets S prods, false) hW (firstSets_inv hW) rfl hfix p hp
  unfold passStep at hstep
  dsimp only at hstep
  split
  · rename_i hbody
    rw [hbody] at hstep
    simp only [Bool.false_or] at hstep
    exact addTok_false (congrArg Prod.snd hstep)
  · rename_i s0 rest hbody
    rw [hbody] at hstep
    simp only [Bool.false_or] at hstep
    split
    · rename_i hterm
      rw [if_pos hterm] at hstep
      exact addTok_false (congrArg Prod.snd hstep)
    · rename_i hterm
      rw [if_neg hterm] at hstep
      rw [← hbody] at hstep
      split at hstep
      · have h2 := congrArg Prod.snd hstep
        simp only at h2
        unfold FirstSets.addSet at h2
        exact (addSet_false _ _ h2).2
      · rename_i hs
        simp only [Bool.not_eq_true', Bool.not_eq_false] at hs
        exact sameSet_sub (by simpa using hs)

/-! ## §4 the numbered certificate -/

/-- `fcOf`, as a function of the three things it reads -/
def mkFc (terms nts : List String) (fs : FirstSets) : FirstCert :=
  { nullable := (List.range nts.length).filter fun k => (fs.get nts[k]!).contains "empty"
    first := (List.range nts.length).flatMap fun k =>
      ((fs.get nts[k]!).filter (· != "empty")).map fun t => (k, (terms.idxOf? t).getD 0) }

theorem fcOf_eq (r : LRResult) : fcOf r = mkFc r.tables.terminals r.tables.nts r.ctx.fs := rfl

theorem getBang_idxOf {nts : List String} {X : String} (hX : X ∈ nts) :
    nts.idxOf X < nts.length ∧ nts[nts.idxOf X]! = X := by
  have hlt := List.idxOf_lt_length_of_mem hX
  refine ⟨hlt, ?_⟩
  rw [getElem!_pos nts _ hlt]
  exact List.getElem_idxOf _

theorem mkFc_nullable {terms nts : List String} {fs : FirstSets} {X : String} (hX : X ∈ nts) :
    (mkFc terms nts fs).isNullable (nts.idxOf X) = true ↔ "empty" ∈ fs.get X := by
  obtain ⟨hlt, hget⟩ := getBang_idxOf hX
  simp only [FirstCert.isNullable, mkFc, List.contains_iff_mem, List.mem_filter, List.mem_range,
    hget, hlt, true_and]

theorem mkFc_mem_first {terms nts : List String} {fs : FirstSets} {B a : Nat} :
    (B, a) ∈ (mkFc terms nts fs).first ↔
      B < nts.length ∧ ∃ t ∈ fs.get nts[B]!, t ≠ "empty" ∧ (terms.idxOf? t).getD 0 = a := by
  simp only [mkFc, List.mem_flatMap, List.mem_range, List.mem_map, List.mem_filter, bne_iff_ne,
    ne_eq, Prod.mk.injEq]
  constructor
  · rintro ⟨k, hk, t, ⟨ht1, ht2⟩, rfl, rfl⟩
    exact ⟨hk, t, ht1, ht2, rfl⟩
  · rintro ⟨hk, t, ht1, ht2, rfl⟩
    exact ⟨B, hk, t, ⟨ht1, ht2⟩, rfl, rfl⟩

theorem mkFc_hasFirst {terms nts : List String} {fs : FirstSets} {X : String} (hX : X ∈ nts)
    {a : Nat} : (mkFc terms nts fs).hasFirst (nts.idxOf X) a = true ↔
      ∃ t ∈ fs.get X, t ≠ "empty" ∧ (terms.idxOf? t).getD 0 = a := by
  obtain ⟨hlt, hget⟩ := getBang_idxOf hX
  simp only [FirstCert.hasFirst, List.contains_iff_mem]
  rw [mkFc_mem_first, hget]
  simp only [hlt, true_and]

theorem symOf_mem {terms nts : List String} {X : String} (hX : X ∈ nts) :
    symOf terms nts X = Sym.nt (nts.idxOf X) := by
  unfold symOf
  rw [idxOf?_eq_idxOf hX]

theorem symOf_not_mem {terms nts : List String} {X : String} (hX : X ∉ nts) :
    symOf terms nts X = Sym.t ((terms.idxOf? X).getD 0) := by
  unfold symOf
  rw [List.idxOf?_eq_none_iff.2 hX]

theorem first_nt {S : PSymbols} {fs : FirstSets} {y : String} (hy : y ∈ S.ntList) :
    first S fs y = fs.get y := by
  unfold first PSymbols.isTerminal
  simp [hy]

theorem first_t {S : PSymbols} {fs : FirstSets} {y : String} (hy : y ∉ S.ntList) :
    first S fs y = [y] := by
  unfold first PSymbols.isTerminal
  simp [hy]

/-! ## §5 `firstOk` -/

theorem firstOkProd_of {S : PSymbols} {fs : FirstSets} (terms : List String) {H : String}
    (hH : H ∈ S.ntList) : ∀ (syms : List String), (∀ y ∈ syms, y ∉ S.ntList → y ≠ "empty") →
    (∀ t, t ≠ "empty" → InFirstSeq S fs t syms → t ∈ fs.get H) →
    ((∀ y ∈ syms, "empty" ∈ first S fs y) → "empty" ∈ fs.get H) →
    firstOkProd (mkFc terms S.ntList fs) (S.ntList.idxOf H)
      (syms.map (symOf terms S.ntList)) = true := by
  intro syms
  induction syms with
  | nil =>
    intro _ _ h3
    simp only [List.map_nil, firstOkProd]
    exact (mkFc_nullable hH).2 (h3 (by simp))
  | cons y ys ih =>
    intro h1 h2 h3
    by_cases hy : y ∈ S.ntList
    · simp only [List.map_cons, symOf_mem hy, firstOkProd, Bool.and_eq_true, List.all_eq_true,
        Bool.or_eq_true, Bool.not_eq_true']
      constructor
      · intro ⟨B', a⟩ hm
        by_cases hB : B' = S.ntList.idxOf y
        · right
          subst hB
          obtain ⟨_, t, ht1, ht2, ht3⟩ := mkFc_mem_first.1 hm
          rw [(getBang_idxOf hy).2] at ht1
          exact (mkFc_hasFirst hH).2 ⟨t, h2 t ht2 (.inl (by rw [first_nt hy]; exact ht1)), ht2, ht3⟩
        · left
          simpa using hB
      · cases hn : (mkFc terms S.ntList fs).isNullable (S.ntList.idxOf y) with
        | false => exact .inl rfl
        | true =>
          right
          have hemp : "empty" ∈ first S fs y := by
            rw [first_nt hy]; exact (mkFc_nullable hy).1 hn
          refine ih (fun z hz => h1 z (List.mem_cons_of_mem _ hz))
            (fun t ht hin => h2 t ht (.inr ⟨hemp, hin⟩)) ?_
          intro hall
          apply h3
          intro z hz
          rcases List.mem_cons.1 hz with rfl | hz
          · exact hemp
          · exact hall z hz
    · simp only [List.map_cons, symOf_not_mem hy, firstOkProd]
      have hne := h1 y (List.mem_cons_self ..) hy
      exact (mkFc_hasFirst hH).2 ⟨y, h2 y hne (.inl (by rw [first_t hy]; simp)), hne, rfl⟩

theorem prodLen_nil {p : SProd} (h : p.body = []) : prodLen p = 0 := by
  unfold prodLen; rw [h]

theorem prodLen_cons {p : SProd} {s0 : SSym} {rest : List SSym} (h : p.body = s0 :: rest) :
    prodLen p = if s0.name = "empty" then 0 else p.body.length := by
  unfold prodLen; rw [h]; simp

/-- (FIRST half) the FIRST sets of the generator, numbered, are closed under the grammar rules -/
theorem firstOk_gen {S : PSymbols} {prods : List SProd} (terms : List String)
    (hW : WFp S prods) (hB : BodyOk prods) (hE : "empty" ∉ S.ntList) :
    firstOk (ngrammarOf prods terms S.ntList) (mkFc terms S.ntList (firstSets S prods)) = true := by
  simp only [firstOk, List.all_eq_true, List.mem_range, ngrammarOf_size]
  intro p hp
  have hmem : prods[p] ∈ prods := List.getElem_mem hp
  have hhead := (hW _ hmem).1
  rw [ngrammarOf_head _ _ hp, idxOf?_eq_idxOf hhead, Option.getD_some, ngrammarOf_body _ _ hp]
  have hfix := first_fix_prod hW hmem
  have hBp := hB _ hmem
  split at hfix
  · rename_i hbody
    simp only [prodLen_nil hbody, beq_self_eq_true, if_true, firstOkProd]
    exact (mkFc_nullable hhead).2 hfix
  · rename_i s0 rest hbody
    have hlen := prodLen_cons hbody
    have hs0 : s0 ∈ prods[p].body := by rw [hbody]; exact List.mem_cons_self ..
    split at hfix
    · rename_i hterm
      by_cases he : s0.name = "empty"
      · rw [if_pos he] at hlen
        simp only [hlen, beq_self_eq_true, if_true, firstOkProd]
        rw [he] at hfix
        exact (mkFc_nullable hhead).2 hfix
      · rw [if_neg he] at hlen
        have hne : (prodLen prods[p] == 0) = false := by
          rw [hlen, hbody]; simp
        have hnt : s0.name ∉ S.ntList := by
          simpa [PSymbols.isTerminal] using hterm
        simp only [hne, Bool.false_eq_true, if_false]
        rw [hbody, List.map_cons, symOf_not_mem hnt]
        simp only [firstOkProd]
        exact (mkFc_hasFirst hhead).2 ⟨s0.name, hfix, he, rfl⟩
    · rename_i hterm
      have hnt : s0.name ∈ S.ntList := by
        simpa [PSymbols.isTerminal] using hterm
      have he : s0.name ≠ "empty" := fun h => hE (h ▸ hnt)
      rw [if_neg he] at hlen
      have hne0 : prodLen prods[p] ≠ 0 := by
        rw [hlen, hbody]; simp
      have hne : (prodLen prods[p] == 0) = false := by simpa using hne0
      simp only [hne, Bool.false_eq_true, if_false]
      have hmap : (prods[p].body.map fun s => symOf terms S.ntList s.name) =
          (prods[p].body.map (·.name)).map (symOf terms S.ntList) := by
        rw [List.map_map]; rfl
      rw [hmap]
      apply firstOkProd_of terms hhead
      · intro y hy _
        rcases List.mem_map.1 hy with ⟨s, hs, rfl⟩
        exact (hBp s hs).2 hne0
      · intro t ht hin
        exact hfix t (firstS_mem hin ht)
      · intro hall
        exact hfix _ (firstS_empty (by rw [hbody]; simp) hall)

/-! ## §6 `firstOfSeq` is covered by `firstS` -/

theorem firstOfSeq_sub {S : PSymbols} {fs : FirstSets} (terms : List String) {la : String}
    (hla : la ∉ S.ntList) : ∀ (β : List String), (∀ y ∈ β, y ∉ S.ntList → y ≠ "empty") →
    la ≠ "empty" →
    ∀ b, b ∈ firstOfSeq (mkFc terms S.ntList fs) (β.map (symOf terms S.ntList))
        ((terms.idxOf? la).getD 0) →
      ∃ t, t ≠ "empty" ∧ InFirstSeq S fs t (β ++ [la]) ∧ (terms.idxOf? t).getD 0 = b := by
  intro β
  induction β with
  | nil =>
    intro _ hne b hb
    simp only [List.map_nil, firstOfSeq, List.mem_singleton] at hb
    subst hb
    exact ⟨la, hne, .inl (by rw [first_t hla]; simp), rfl⟩
  | cons y ys ih =>
    intro h1 hne b hb
    by_cases hy : y ∈ S.ntList
    · simp only [List.map_cons, symOf_mem hy, firstOfSeq, List.mem_append, List.mem_map,
        List.mem_filter, beq_iff_eq] at hb
      rcases hb with ⟨⟨B, a⟩, ⟨hm, hB⟩, rfl⟩ | hb
      · simp only at hB
        subst hB
        obtain ⟨_, t, ht1, ht2, ht3⟩ := mkFc_mem_first.1 hm
        rw [(getBang_idxOf hy).2] at ht1
        exact ⟨t, ht2, .inl (by rw [first_nt hy]; exact ht1), ht3⟩
      · split at hb
        · rename_i hn
          obtain ⟨t, ht1, ht2, ht3⟩ := ih (fun z hz => h1 z (List.mem_cons_of_mem _ hz)) hne b hb
          refine ⟨t, ht1, .inr ⟨?_, ht2⟩, ht3⟩
          rw [first_nt hy]
          exact (mkFc_nullable hy).1 hn
        · cases hb
    · simp only [List.map_cons, symOf_not_mem hy, firstOfSeq, List.mem_singleton] at hb
      subst hb
      exact ⟨y, h1 y (List.mem_cons_self ..) hy, .inl (by rw [first_t hy]; simp), rfl⟩

end Gocc.GenComplete
