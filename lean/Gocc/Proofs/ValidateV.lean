import Gocc.Proofs.ValidateC
import Gocc.Model.ValidateV
/-
The validity validator `validItems` is correct: every item of every state on the parser's stack
is VALID for the string of grammar symbols spelled by the stack, hence every existing action is
justified by a derivation (`act_viable`), and a parser that is stuck has no sentence ahead
(`stuck_not_sentence`, from the completeness validator).

  §1  derivations: splitting, absent terminals, productive strings
  §2  the derivation certificates are sound (`prodList_sound`, `nullList_sound`,
      `firstList_sound`, `firstOfSeq_exact`)
  §3  facts extracted from the validator (`ValidFacts`, `validFacts_of`)
  §4  valid items (`IV`), closure (`itemsJust_valid`), the symbol stack `VStk`, `VStk.valid`
  §5  existing actions are justified (`act_viable`)
  §6  single steps without recovery (`step_noact`, `step_cont_inv`, `doAct_reduce_inv`), the
      invariant `VInv` and its preservation (`step_vinv`, `Steps.vinv`)
  §7  determinism: lock-step on inputs with a common prefix (`Steps.agree`), stuck parsers
      (`stuck_not_sentence`, `stuck_ext`), the configuration in which an error is reported
      (`parseLoop_synErr`, `synErr_state`), no step is made on the offending look-ahead
      (`err_state_fresh`), the expected list (`mem_rowExpected`, `rowExpected_sorted`)

The proofs use `complete` only through `CompleteFacts.prodLen/prodNT` (invariant) and
`parse_accepts` (stuck parsers); `safe`/`safeEnds` are not needed.
-/
namespace Gocc

/-! ### §1 derivations -/

theorem NDerives.append_inv {G : NGrammar} : ∀ {α β : List Sym} {w : List Nat},
    NDerives G (α ++ β) w → ∃ u v, w = u ++ v ∧ NDerives G α u ∧ NDerives G β v
  | [], β, w, h => ⟨[], w, rfl, .nil, h⟩
  | .t a :: α, β, w, h => by
    obtain ⟨w', rfl, h'⟩ := NDerives.t_inv (α := α ++ β) h
    obtain ⟨u, v, rfl, h1, h2⟩ := NDerives.append_inv h'
    exact ⟨a :: u, v, rfl, .term h1, h2⟩
  | .nt A :: α, β, w, h => by
    obtain ⟨p, u1, v1, hp, rfl, rfl, hb, hr⟩ := NDerives.nt_inv (α := α ++ β) h
    obtain ⟨u, v, rfl, h1, h2⟩ := NDerives.append_inv hr
    exact ⟨u1 ++ u, v, by simp, .nt hp hb h1, h2⟩

/-- a terminal that occurs in no body and not in `α` does not occur in what `α` derives -/
theorem NDerives.no_tok {G : NGrammar} {c : Nat}
    (hb : ∀ p, p < G.prods.size → Sym.t c ∉ G.body p) {α : List Sym} {w : List Nat}
    (h : NDerives G α w) : Sym.t c ∉ α → c ∉ w := by
  induction h with
  | nil => intro _; simp
  | @term a α w _ ih =>
    intro hn
    simp only [List.mem_cons, not_or] at hn ⊢
    exact ⟨fun e => hn.1 (by rw [e]), ih hn.2⟩
  | @nt p α u v hp _ _ ih1 ih2 =>
    intro hn
    simp only [List.mem_cons, not_or] at hn
    simp only [List.mem_append, not_or]
    exact ⟨ih1 (hb p hp), ih2 hn.2⟩

/-- the symbol derives some terminal string -/
def SymProd (G : NGrammar) : Sym → Prop
  | .t _ => True
  | .nt B => ∃ y, NDerives G [Sym.nt B] y

theorem productive_of_all {G : NGrammar} : ∀ {α : List Sym}, (∀ X, X ∈ α → SymProd G X) →
    ∃ y, NDerives G α y
  | [], _ => ⟨[], .nil⟩
  | .t a :: α, h => by
    obtain ⟨y, hy⟩ := productive_of_all (α := α) fun X hX => h X (List.mem_cons_of_mem _ hX)
    exact ⟨a :: y, .term hy⟩
  | .nt B :: α, h => by
    obtain ⟨y, hy⟩ := productive_of_all (α := α) fun X hX => h X (List.mem_cons_of_mem _ hX)
    obtain ⟨y0, hy0⟩ : SymProd G (.nt B) := h _ (List.mem_cons_self ..)
    exact ⟨y0 ++ y, hy0.append hy⟩

/-! ### §2 the derivation certificates -/

theorem hasNT_mem {l : List (Nat × Nat)} {B : Nat} (h : hasNT l B = true) : ∃ p, (B, p) ∈ l := by
  simp only [hasNT, List.any_eq_true, beq_iff_eq] at h
  obtain ⟨⟨A, p⟩, hm, rfl⟩ := h
  exact ⟨p, hm⟩

theorem prodList_sound {G : NGrammar} : ∀ {l : List (Nat × Nat)}, prodListOk G l = true →
    ∀ A p, (A, p) ∈ l → ∃ y, NDerives G [Sym.nt A] y
  | [], _, A, p, hm => by cases hm
  | (A0, p0) :: rest, h, A, p, hm => by
    simp only [prodListOk, Bool.and_eq_true, decide_eq_true_eq, beq_iff_eq, List.all_eq_true] at h
    obtain ⟨⟨⟨hp, hh⟩, hb⟩, hrest⟩ := h
    rcases List.mem_cons.mp hm with e | hm'
    · cases e
      have : ∀ X, X ∈ G.body p0 → SymProd G X := by
        intro X hX
        have := hb X hX
        rcases X with a | B
        · trivial
        · obtain ⟨p', hp'⟩ := hasNT_mem this
          exact prodList_sound hrest B p' hp'
      obtain ⟨y, hy⟩ := productive_of_all this
      refine ⟨y ++ [], ?_⟩
      rw [← hh]
      exact .nt hp hy .nil
    · exact prodList_sound hrest A p hm'

theorem nullable_of_all {G : NGrammar} : ∀ {α : List Sym},
    (∀ X, X ∈ α → ∃ B, X = Sym.nt B ∧ NDerives G [Sym.nt B] []) → NDerives G α []
  | [], _ => .nil
  | X :: α, h => by
    obtain ⟨B, rfl, hB⟩ := h X (List.mem_cons_self ..)
    have := hB.append (nullable_of_all (α := α) fun X hX => h X (List.mem_cons_of_mem _ hX))
    simpa using this

theorem nullList_sound {G : NGrammar} : ∀ {l : List (Nat × Nat)}, nullListOk G l = true →
    ∀ A p, (A, p) ∈ l → NDerives G [Sym.nt A] []
  | [], _, A, p, hm => by cases hm
  | (A0, p0) :: rest, h, A, p, hm => by
    simp only [nullListOk, Bool.and_eq_true, decide_eq_true_eq, beq_iff_eq, List.all_eq_true] at h
    obtain ⟨⟨⟨hp, hh⟩, hb⟩, hrest⟩ := h
    rcases List.mem_cons.mp hm with e | hm'
    · cases e
      have : ∀ X, X ∈ G.body p0 → ∃ B, X = Sym.nt B ∧ NDerives G [Sym.nt B] [] := by
        intro X hX
        have := hb X hX
        rcases X with a | B
        · simp at this
        · obtain ⟨p', hp'⟩ := hasNT_mem this
          exact ⟨B, rfl, nullList_sound hrest B p' hp'⟩
      have hy := nullable_of_all this
      rw [← hh]
      exact NDerives.nt (u := []) (v := []) hp hy .nil
    · exact nullList_sound hrest A p hm'

/-- every body symbol of every production is productive -/
def BodiesProd (G : NGrammar) : Prop := ∀ p, p < G.prods.size → ∀ X, X ∈ G.body p → SymProd G X

theorem firstList_sound {G : NGrammar} (hP : BodiesProd G) {null : List (Nat × Nat)}
    (hN : ∀ A p, (A, p) ∈ null → NDerives G [Sym.nt A] []) :
    ∀ {l : List (Nat × Nat × Nat × Nat)}, firstListOk G null l = true →
    ∀ A b p i, (A, b, p, i) ∈ l → ∃ y, NDerives G [Sym.nt A] (b :: y)
  | [], _, A, b, p, i, hm => by cases hm
  | (A0, b0, p0, i0) :: rest, h, A, b, p, i, hm => by
    simp only [firstListOk, Bool.and_eq_true, decide_eq_true_eq, beq_iff_eq, List.all_eq_true] at h
    obtain ⟨⟨⟨⟨hp, hh⟩, hpre⟩, hX⟩, hrest⟩ := h
    rcases List.mem_cons.mp hm with e | hm'
    · cases e
      -- the nullable prefix
      have h1 : NDerives G ((G.body p0).take i0) [] := by
        apply nullable_of_all
        intro X hXm
        have := hpre X hXm
        rcases X with a | B
        · simp at this
        · obtain ⟨p', hp'⟩ := hasNT_mem this
          exact ⟨B, rfl, hN B p' hp'⟩
      -- the productive rest
      obtain ⟨y2, h3⟩ : ∃ y, NDerives G ((G.body p0).drop (i0 + 1)) y :=
        productive_of_all fun X hXm => hP p0 hp X (List.mem_of_mem_drop hXm)
      -- the symbol at position `i0`
      rcases hx : (G.body p0)[i0]? with _ | X
      · rw [hx] at hX; simp at hX
      · rw [hx] at hX
        have hsplit : G.body p0 = (G.body p0).take i0 ++ X :: (G.body p0).drop (i0 + 1) := by
          have hlt : i0 < (G.body p0).length := (List.getElem?_eq_some_iff.mp hx).1
          have hget : (G.body p0)[i0] = X := (List.getElem?_eq_some_iff.mp hx).2
          rw [← hget, ← List.drop_eq_getElem_cons hlt, List.take_append_drop]
        obtain ⟨y1, h2⟩ : ∃ y, NDerives G [X] (b0 :: y) := by
          rcases X with c | B
          · simp only [beq_iff_eq] at hX
            subst hX
            exact ⟨[], .term .nil⟩
          · simp only [List.any_eq_true, Bool.and_eq_true, beq_iff_eq] at hX
            obtain ⟨⟨B', b', p', i'⟩, hm2, rfl, rfl⟩ := hX
            exact firstList_sound hP hN hrest _ _ p' i' hm2
        have hb : NDerives G (G.body p0) ([] ++ ((b0 :: y1) ++ y2)) := by
          rw [hsplit]
          exact h1.append (NDerives.append (α := [X]) h2 h3)
        refine ⟨y1 ++ y2 ++ [], ?_⟩
        rw [← hh]
        have := NDerives.nt hp hb .nil
        simpa using this
    · exact firstList_sound hP hN hrest A b p i hm'

/-- (exactness of FIRST) a terminal in `firstOfSeq fc β a` begins a string derived from `β z`,
    when `a` begins `z` (1 = end of input) -/
theorem firstOfSeq_exact {G : NGrammar} {fc : FirstCert}
    (hN : ∀ B, fc.isNullable B = true → NDerives G [Sym.nt B] [])
    (hF : ∀ B b, fc.hasFirst B b = true → ∃ y, NDerives G [Sym.nt B] (b :: y))
    {a b : Nat} {z : List Nat} (hz : z.head?.getD 1 = a) :
    ∀ {β : List Sym}, (∀ X, X ∈ β → SymProd G X) → b ∈ firstOfSeq fc β a →
      ∃ y, NDerives G β y ∧ (y ++ z).head?.getD 1 = b
  | [], _, h => by
    simp only [firstOfSeq, List.mem_singleton] at h
    exact ⟨[], .nil, by simpa [h] using hz⟩
  | .t c :: β, hP, h => by
    simp only [firstOfSeq, List.mem_singleton] at h
    subst h
    obtain ⟨y, hy⟩ := productive_of_all (α := β) fun X hX => hP X (List.mem_cons_of_mem _ hX)
    exact ⟨b :: y, .term hy, rfl⟩
  | .nt B :: β, hP, h => by
    simp only [firstOfSeq, List.mem_append, List.mem_map, List.mem_filter, beq_iff_eq] at h
    rcases h with ⟨⟨B', b'⟩, ⟨hm, hB⟩, rfl⟩ | h
    · simp only at hB
      subst hB
      obtain ⟨y0, hy0⟩ := hF B' b' (by simpa [FirstCert.hasFirst] using hm)
      obtain ⟨y, hy⟩ := productive_of_all (α := β) fun X hX => hP X (List.mem_cons_of_mem _ hX)
      exact ⟨(b' :: y0) ++ y, hy0.append hy, rfl⟩
    · split at h
      · rename_i hn
        obtain ⟨y, hy, hb⟩ :=
          firstOfSeq_exact hN hF hz (β := β) (fun X hX => hP X (List.mem_cons_of_mem _ hX)) h
        have := (hN B hn).append hy
        exact ⟨y, by simpa using this, hb⟩
      · cases h

/-! ### §3 what the validator guarantees -/

/-- an edge of the tables: a shift entry or a (non-negative) goto entry -/
def Edge (T : PTables) (s : Nat) : Sym → Nat → Prop
  | .t t, s' => T.act s t = some (.shift s')
  | .nt A, s' => ∃ g : Int, T.gotoOf s A = some g ∧ 0 ≤ g ∧ s' = g.toNat

structure ValidFacts (G : NGrammar) (T : PTables) (c : CertLA) (fc : FirstCert) : Prop where
  prodB : BodiesProd G
  noTok : ∀ p, p < G.prods.size → Sym.t 0 ∉ G.body p ∧ Sym.t 1 ∉ G.body p
  nullS : ∀ B, fc.isNullable B = true → NDerives G [Sym.nt B] []
  firstS : ∀ B b, fc.hasFirst B b = true → ∃ y, NDerives G [Sym.nt B] (b :: y)
  just : ∀ s, itemsJust G fc s (c[s]?.getD []).reverse = true
  edge : ∀ s X s', Edge T s X s' → s' ≠ 0 ∧ ∀ p d a, (p, d + 1, a) ∈ c[s']?.getD [] →
    (G.body p)[d]? = some X ∧ (p, d, a) ∈ c[s]?.getD []
  shiftJ : ∀ s t s', T.act s t = some (.shift s') →
    ∃ p d a, (p, d, a) ∈ c[s]?.getD [] ∧ (G.body p)[d]? = some (Sym.t t)
  reduceJ : ∀ s t p, T.act s t = some (.reduce p) → (p, (G.body p).length, t) ∈ c[s]?.getD []
  acceptJ : ∀ s t, T.act s t = some .accept → t = 1 ∧ (0, (G.body 0).length, 1) ∈ c[s]?.getD []

theorem edgeOkLA_mem {G : NGrammar} {c : CertLA} {s s' : Nat} {X : Sym}
    (he : edgeOkLA G c s X s' = true) : s' ≠ 0 ∧ ∀ p d a, (p, d + 1, a) ∈ c[s']?.getD [] →
      (G.body p)[d]? = some X ∧ (p, d, a) ∈ c[s]?.getD [] := by
  simp only [edgeOkLA, Bool.and_eq_true, bne_iff_ne, ne_eq, List.all_eq_true] at he
  refine ⟨he.1, fun p d a hm => ?_⟩
  have := he.2 (p, d + 1, a) hm
  simpa [CertLA.has] using this

theorem validFacts_of {G : NGrammar} {T : PTables} {c : CertLA} {vc : VCert}
    (h : validItems G T c vc = true) : ValidFacts G T c vc.fc := by
  simp only [validItems, Bool.and_eq_true, List.all_eq_true, List.mem_range] at h
  obtain ⟨⟨⟨⟨⟨⟨hPL, hB⟩, hNL⟩, hFL⟩, hJ⟩, hAct⟩, hGo⟩ := h
  have hasMem : ∀ s p d a, c.has s p d a = true ↔ (p, d, a) ∈ c[s]?.getD [] := by
    intro s p d a; simp [CertLA.has]
  have hprod : BodiesProd G := by
    intro p hp X hX
    have := hB p hp X hX
    rcases X with a | B
    · trivial
    · obtain ⟨p', hp'⟩ := hasNT_mem this
      exact prodList_sound hPL B p' hp'
  have hnull := nullList_sound hNL
  have actRow : ∀ {s t : Nat} {a : Act}, T.act s t = some a →
      ∃ row, T.action[s]? = some row ∧ s < T.action.size ∧ t < row.size ∧ (row[t]?).join = some a := by
    intro s t a ha
    obtain ⟨row, hrow, ht, hj⟩ := act_eq_some ha
    exact ⟨row, hrow, (Array.getElem?_eq_some_iff.mp hrow).1, ht, hj⟩
  refine
    { prodB := hprod, noTok := ?_, nullS := ?_, firstS := ?_, just := ?_, edge := ?_,
      shiftJ := ?_, reduceJ := ?_, acceptJ := ?_ }
  · intro p hp
    constructor
    · intro hm
      have := hB p hp _ hm
      simp at this
    · intro hm
      have := hB p hp _ hm
      simp at this
  · intro B hn
    simp only [FirstCert.isNullable, VCert.fc, List.contains_eq_mem, List.mem_map,
      decide_eq_true_eq] at hn
    obtain ⟨⟨A, p⟩, hm, rfl⟩ := hn
    exact hnull A p hm
  · intro B b hf
    simp only [FirstCert.hasFirst, VCert.fc, List.contains_eq_mem, List.mem_map,
      decide_eq_true_eq, Prod.mk.injEq] at hf
    obtain ⟨⟨A, b', p, i⟩, hm, rfl, rfl⟩ := hf
    exact firstList_sound hprod hnull hFL A b' p i hm
  · intro s
    by_cases hs : s < c.size
    · exact hJ s hs
    · have : c[s]? = none := by simp; omega
      simp [this, itemsJust]
  · intro s X s' he
    rcases X with t | A
    · simp only [Edge] at he
      obtain ⟨row, hrow, hs, ht, hj⟩ := actRow he
      have h1 := hAct s hs t (by simpa [hrow] using ht)
      simp only [hrow, Option.getD_some, hj, Bool.and_eq_true] at h1
      exact edgeOkLA_mem h1.1
    · simp only [Edge, PTables.gotoOf] at he
      obtain ⟨g, hg, hg0, rfl⟩ := he
      rcases hrow : T.goto_[s]? with _ | row
      · simp [hrow] at hg
      · rw [hrow] at hg
        simp only [Option.bind_some] at hg
        have hA : A < row.size := (Array.getElem?_eq_some_iff.mp hg).1
        have hs : s < T.goto_.size := (Array.getElem?_eq_some_iff.mp hrow).1
        have h1 := hGo s hs A (by simpa [hrow] using hA)
        simp only [hrow, Option.getD_some, hg, Bool.or_eq_true, decide_eq_true_eq] at h1
        rcases h1 with h1 | h1
        · omega
        · exact edgeOkLA_mem h1
  · intro s t s' ha
    obtain ⟨row, hrow, hs, ht, hj⟩ := actRow ha
    have h1 := hAct s hs t (by simpa [hrow] using ht)
    simp only [hrow, Option.getD_some, hj, Bool.and_eq_true, List.any_eq_true, beq_iff_eq] at h1
    obtain ⟨⟨p, d, a⟩, hm, hx⟩ := h1.2
    exact ⟨p, d, a, hm, hx⟩
  · intro s t p ha
    obtain ⟨row, hrow, hs, ht, hj⟩ := actRow ha
    have h1 := hAct s hs t (by simpa [hrow] using ht)
    simp only [hrow, Option.getD_some, hj] at h1
    exact (hasMem _ _ _ _).1 h1
  · intro s t ha
    obtain ⟨row, hrow, hs, ht, hj⟩ := actRow ha
    have h1 := hAct s hs t (by simpa [hrow] using ht)
    simp only [hrow, Option.getD_some, hj, Bool.and_eq_true, beq_iff_eq] at h1
    exact ⟨h1.1, (hasMem _ _ _ _).1 h1.2⟩

/-! ### §4 valid items -/

theorem split_at {α : Type} {l : List α} {d : Nat} {x : α} (h : l[d]? = some x) :
    l = l.take d ++ x :: l.drop (d + 1) := by
  have hlt : d < l.length := (List.getElem?_eq_some_iff.mp h).1
  have hget : l[d] = x := (List.getElem?_eq_some_iff.mp h).2
  rw [← hget, ← List.drop_eq_getElem_cons hlt, List.take_append_drop]

/-- the LR(1) item `(p, d, a)` is valid for the string `γ` of grammar symbols: `γ = δ β₁` with
    `β₁` the part of the body before the dot, and there is a terminal string `z` beginning with
    `a` (or empty, `a` = 1) such that `x y z` is a sentence whenever `δ` derives `x` and the body
    derives `y` -/
def IV (G : NGrammar) (γ : List Sym) (p d a : Nat) : Prop :=
  p < G.prods.size ∧ ∃ δ z, γ = δ ++ (G.body p).take d ∧ d ≤ (G.body p).length ∧
    z.head?.getD 1 = a ∧
    ∀ x y, NDerives G δ x → NDerives G (G.body p) y → NSentence G (x ++ y ++ z)

theorem IV.start {G : NGrammar} (h0 : 0 < G.prods.size) : IV G [] 0 0 1 := by
  refine ⟨h0, [], [], by simp, Nat.zero_le _, rfl, ?_⟩
  intro x y hx hy
  have := hx.nil_inv
  subst this
  simpa [NSentence] using hy

theorem IV.closure {G : NGrammar} {T : PTables} {c : CertLA} {fc : FirstCert}
    (VF : ValidFacts G T c fc) {γ : List Sym} {p d a q b : Nat} (h : IV G γ p d a)
    (hX : (G.body p)[d]? = some (Sym.nt (G.head q))) (hq : q < G.prods.size)
    (hb : b ∈ firstOfSeq fc ((G.body p).drop (d + 1)) a) : IV G γ q 0 b := by
  obtain ⟨hp, δ, z, hγ, -, hz, hctx⟩ := h
  obtain ⟨y2, hy2, hb2⟩ := firstOfSeq_exact VF.nullS VF.firstS hz
    (fun X hXm => VF.prodB p hp X (List.mem_of_mem_drop hXm)) hb
  refine ⟨hq, γ, y2 ++ z, by simp, Nat.zero_le _, hb2, ?_⟩
  intro x' y' hx' hy'
  rw [hγ] at hx'
  obtain ⟨x, y1, rfl, hx, hy1⟩ := hx'.append_inv
  have hbody : NDerives G (G.body p) (y1 ++ (y' ++ y2)) := by
    rw [split_at hX]
    exact hy1.append (.nt hq hy' hy2)
  have := hctx x _ hx hbody
  simpa [List.append_assoc] using this

theorem IV.advance {G : NGrammar} {γ : List Sym} {p d a : Nat} {X : Sym} (h : IV G γ p d a)
    (hX : (G.body p)[d]? = some X) : IV G (γ ++ [X]) p (d + 1) a := by
  obtain ⟨hp, δ, z, hγ, -, hz, hctx⟩ := h
  refine ⟨hp, δ, z, ?_, ?_, hz, hctx⟩
  · rw [hγ, List.take_add_one, hX]; simp
  · have := (List.getElem?_eq_some_iff.mp hX).1; omega

theorem itemsJust_valid {G : NGrammar} {T : PTables} {c : CertLA} {fc : FirstCert}
    (VF : ValidFacts G T c fc) {γ : List Sym} {s : Nat} (h0 : s = 0 → γ = []) :
    ∀ {L : List (Nat × Nat × Nat)}, itemsJust G fc s L = true →
      (s ≠ 0 → ∀ p d a, (p, d + 1, a) ∈ L → IV G γ p (d + 1) a) →
      ∀ p d a, (p, d, a) ∈ L → IV G γ p d a
  | [], _, _, p, d, a, hm => by cases hm
  | (q, d0, b) :: earlier, h, hk, p, d, a, hm => by
    simp only [itemsJust, Bool.and_eq_true] at h
    have ih := itemsJust_valid VF h0 h.2 (fun hs p d a hm => hk hs p d a (List.mem_cons_of_mem _ hm))
    rcases List.mem_cons.mp hm with e | hm'
    · obtain ⟨hpq, hdd, hab⟩ : p = q ∧ d = d0 ∧ a = b := by simpa using e
      subst hpq hdd hab
      have h1 := h.1
      rcases d with _ | d
      · simp only [beq_self_eq_true, if_true, Bool.and_eq_true, decide_eq_true_eq,
          Bool.or_eq_true, beq_iff_eq] at h1
        obtain ⟨hq, ⟨⟨hs, hq0⟩, hb⟩ | hc⟩ := h1
        · subst hs hq0 hb
          rw [h0 rfl]
          exact IV.start hq
        · simp only [closureJust, List.any_eq_true, Bool.and_eq_true, beq_iff_eq,
            List.contains_eq_mem, decide_eq_true_eq] at hc
          obtain ⟨⟨p', d', a'⟩, hm2, hX, hb⟩ := hc
          exact IV.closure VF (ih p' d' a' hm2) hX hq hb
      · have hs : s ≠ 0 := by simpa using h1
        exact hk hs p d a (List.mem_cons_self ..)
    · exact ih p d a hm'

/-- the stack of states with the grammar symbols of its entries (top first): consecutive states
    are linked by edges of the tables -/
inductive VStk (T : PTables) : List Nat → List Sym → Prop
  | base : VStk T [0] []
  | push {s ss γ X s'} : VStk T (s :: ss) γ → Edge T s X s' → VStk T (s' :: s :: ss) (X :: γ)

theorem VStk.length {T : PTables} {ss : List Nat} {γ : List Sym} (h : VStk T ss γ) :
    ss.length = γ.length + 1 := by
  induction h with
  | base => rfl
  | push _ _ ih => simp [ih]

theorem VStk.drop {T : PTables} {ss : List Nat} {γ : List Sym} (h : VStk T ss γ) :
    ∀ k, k ≤ γ.length → VStk T (ss.drop k) (γ.drop k) := by
  induction h with
  | base => intro k hk; simp at hk; subst hk; exact .base
  | push h1 h2 ih =>
    intro k hk
    cases k with
    | zero => exact .push h1 h2
    | succ k => simpa using ih k (by simpa using hk)

/-- every item of the top state is valid for the symbols on the stack -/
theorem VStk.valid {G : NGrammar} {T : PTables} {c : CertLA} {fc : FirstCert}
    (VF : ValidFacts G T c fc) {ss : List Nat} {γ : List Sym} (h : VStk T ss γ) :
    ∀ p d a, (p, d, a) ∈ c[ss.headD 0]?.getD [] → IV G γ.reverse p d a := by
  induction h with
  | base =>
    intro p d a hm
    refine itemsJust_valid VF (γ := []) (s := 0) (fun _ => rfl) (VF.just 0) (fun h => absurd rfl h)
      p d a (by simpa using hm)
  | @push s ss γ X s' h1 he ih =>
    intro p d a hm
    obtain ⟨hs', hk⟩ := VF.edge s X s' he
    refine itemsJust_valid VF (s := s') (fun h => absurd h hs') (VF.just s') ?_ p d a
      (by simpa using hm)
    intro _ p d a hm
    obtain ⟨hX, hm'⟩ := hk p d a (by simpa using hm)
    rw [List.reverse_cons]
    exact (ih p d a (by simpa using hm')).advance hX

/-! ### §5 existing actions are justified -/

theorem sentence_no_eof {G : NGrammar} {T : PTables} {c : CertLA} {fc : FirstCert}
    (VF : ValidFacts G T c fc) {k : Nat} (hk : k = 0 ∨ k = 1) {u : List Nat} (h : NSentence G u) :
    k ∉ u := by
  have hb : ∀ p, p < G.prods.size → Sym.t k ∉ G.body p := by
    intro p hp
    rcases hk with rfl | rfl
    · exact (VF.noTok p hp).1
    · exact (VF.noTok p hp).2
  refine NDerives.no_tok hb h ?_
  by_cases h0 : 0 < G.prods.size
  · exact hb 0 h0
  · have : G.prods[0]? = none := Array.getElem?_eq_none (by omega)
    simp [NGrammar.body, this]

/-- an item with the dot at the end: the symbols on the stack followed by a string beginning with
    the look-ahead form a sentence -/
theorem IV.complete_item {G : NGrammar} {T : PTables} {c : CertLA} {fc : FirstCert}
    (VF : ValidFacts G T c fc) {γ : List Sym} {p a : Nat} {u : List Nat}
    (h : IV G γ p (G.body p).length a) (hu : NDerives G γ u) :
    (a ≠ 1 → ∃ v, NSentence G (u ++ a :: v)) ∧ (a = 1 → NSentence G u) := by
  obtain ⟨hp, δ, z, hγ, -, hz, hctx⟩ := h
  rw [hγ, List.take_length] at hu
  obtain ⟨x, y, rfl, hx, hy⟩ := hu.append_inv
  have hs := hctx x y hx hy
  rcases z with _ | ⟨b, z⟩
  · simp only [List.head?_nil, Option.getD_none] at hz
    subst hz
    exact ⟨fun h => absurd rfl h, fun _ => by simpa using hs⟩
  · simp only [List.head?_cons, Option.getD_some] at hz
    subst hz
    refine ⟨fun _ => ⟨z, hs⟩, fun h1 => ?_⟩
    subst h1
    exact absurd (by simp) (sentence_no_eof VF (.inr rfl) hs)

/-- (key lemma) the stack spells `γ`, `γ` derives the consumed input `u`, and the top state has
    an action on terminal `a`: then `u a` is a prefix of a sentence (`u` is a sentence when `a`
    is end of input) -/
theorem act_viable {G : NGrammar} {T : PTables} {c : CertLA} {fc : FirstCert}
    (VF : ValidFacts G T c fc) {top : Nat} {rest : List Nat} {γ : List Sym}
    (hS : VStk T (top :: rest) γ) {u : List Nat} (hu : NDerives G γ.reverse u) {a : Nat} {act : Act}
    (ha : T.act top a = some act) :
    (a ≠ 1 → ∃ v, NSentence G (u ++ a :: v)) ∧ (a = 1 → NSentence G u) := by
  have hval := hS.valid VF
  simp only [List.headD_cons] at hval
  cases act with
  | shift s' =>
    obtain ⟨p, d, la, hm, hX⟩ := VF.shiftJ top a s' ha
    obtain ⟨hp, δ, z, hγ, -, hz, hctx⟩ := hval p d la hm
    have ha1 : a ≠ 1 := by
      rintro rfl
      exact (VF.noTok p hp).2 (List.mem_of_getElem? hX)
    refine ⟨fun _ => ?_, fun h => absurd h ha1⟩
    rw [hγ] at hu
    obtain ⟨x, y1, rfl, hx, hy1⟩ := hu.append_inv
    obtain ⟨y2, hy2⟩ : ∃ y, NDerives G ((G.body p).drop (d + 1)) y :=
      productive_of_all fun X hXm => VF.prodB p hp X (List.mem_of_mem_drop hXm)
    have hbody : NDerives G (G.body p) (y1 ++ a :: y2) := by
      rw [split_at hX]
      exact hy1.append (.term hy2)
    refine ⟨y2 ++ z, ?_⟩
    have := hctx x _ hx hbody
    simpa [List.append_assoc] using this
  | reduce p => exact (hval p _ a (VF.reduceJ top a p ha)).complete_item VF hu
  | accept =>
    obtain ⟨rfl, hm⟩ := VF.acceptJ top a ha
    exact (hval 0 _ 1 hm).complete_item VF hu

/-! ### §6 single steps without recovery; the invariant -/

theorem firstRecovery_none {T : PTables} (hr : ∀ s : Nat, T.canRecover[s]?.getD false = false) :
    ∀ (ss : List Nat) (k : Nat), firstRecovery T ss k = none
  | [], _ => rfl
  | [s], k => by simp [firstRecovery, hr]
  | s :: s2 :: rest, k => by
    simp only [firstRecovery, hr, Bool.false_eq_true, if_false]
    exact firstRecovery_none hr (s2 :: rest) (k + 1)

theorem recover_hr {T : PTables} (hr : ∀ s : Nat, T.canRecover[s]?.getD false = false)
    (e : Nat) (w : List Nat) (ps : PState) {top : Nat} {rest : List Nat}
    (hst : ps.states = top :: rest) : recover T e w ps = .ok (false, ps.next, ps) := by
  unfold recover
  simp only [firstRecovery_none hr, hst, hr, Bool.not_false, if_true]
  congr 3
  rw [← hst]

theorem step_noact {cfg : PCfg} (hr : ∀ s : Nat, cfg.T.canRecover[s]?.getD false = false)
    (w : List Nat) {ps : PState} {top : Nat} {rest : List Nat} (hst : ps.states = top :: rest)
    (hlt : ps.next.2 < cfg.T.numSymbols) (ha : cfg.T.act top ps.next.2 = none) :
    step cfg w ps = .done (.synErr ps.next.1 ps.next.2 (cfg.T.rowExpected top) top) ps := by
  unfold step
  rw [hst]
  simp only []
  rw [if_neg (by omega)]
  simp only [lookupAct, ha, recover_hr hr cfg.errTerm w ps hst, hst]

theorem doAct_not_synErr (cfg : PCfg) (w : List Nat) (a : Act) (ps : PState) :
    ∀ i t e s ps', doAct cfg w a ps ≠ .done (.synErr i t e s) ps' := by
  intro i t e s ps'
  cases a with
  | accept => simp only [doAct]; split <;> simp
  | shift s' => simp [doAct]
  | reduce p =>
    simp only [doAct]
    repeat' split
    all_goals simp

theorem reduceRes_frame {cfg : PCfg} {p : Nat} {X : List Attr} {ps ps2 : PState} {a : Attr}
    (h : reduceRes cfg p X ps = .ok (a, ps2)) :
    ps2.states = ps.states ∧ ps2.attrs = ps.attrs ∧ ps2.next = ps.next ∧ ps2.ntok = ps.ntok := by
  unfold reduceRes at h
  generalize cfg.T.prodKind[p]?.getD .dflt = kd at h
  rcases kd with _ | _ | ⟨shape, id⟩
  · simp only [] at h
    split at h
    · simp only [Except.ok.injEq, Prod.mk.injEq] at h
      obtain ⟨-, rfl⟩ := h
      exact ⟨rfl, rfl, rfl, rfl⟩
    · simp at h
  · simp only [Except.ok.injEq, Prod.mk.injEq] at h
    obtain ⟨-, rfl⟩ := h
    exact ⟨rfl, rfl, rfl, rfl⟩
  · simp only [] at h
    split at h
    · simp at h
    · generalize userAction shape id X = ua at h
      rcases ua with why | b
      · simp at h
      · simp only [Except.ok.injEq, Prod.mk.injEq] at h
        obtain ⟨-, rfl⟩ := h
        exact ⟨rfl, rfl, rfl, rfl⟩

theorem doAct_reduce_inv {cfg : PCfg} {w : List Nat} {p : Nat} {ps ps1 : PState}
    (h : doAct cfg w (.reduce p) ps = .cont ps1) :
    cfg.T.prodLen[p]?.getD 0 ≤ ps.states.length ∧ ∃ (t' : Nat) (rest' : List Nat) (g : Int),
      ps.states.drop (cfg.T.prodLen[p]?.getD 0) = t' :: rest' ∧
      cfg.T.gotoOf t' (cfg.T.prodNT[p]?.getD 0) = some g ∧ 0 ≤ g ∧
      ps1.states = g.toNat :: t' :: rest' ∧ ps1.next = ps.next ∧ ps1.ntok = ps.ntok ∧
      ps.calls ≤ ps1.calls := by
  simp only [doAct] at h
  split at h
  · cases h
  · rename_i hn
    refine ⟨by omega, ?_⟩
    rcases hres : reduceRes cfg p (List.take (cfg.T.prodLen[p]?.getD 0) ps.attrs).reverse ps with
      (_ | why) | ⟨a, ps2⟩
    · rw [hres] at h
      simp only [] at h
      split at h <;> cases h
    · rw [hres] at h; cases h
    · rw [hres] at h
      simp only [] at h
      obtain ⟨f1, f2, f3, f4⟩ := reduceRes_frame hres
      rcases hd : List.drop (cfg.T.prodLen[p]?.getD 0) ps.states with _ | ⟨t', rest'⟩
      · rw [hd] at h; cases h
      · rw [hd] at h
        simp only [] at h
        split at h
        · cases h
        · rename_i hg
          simp only [StepR.cont.injEq] at h
          subst h
          rcases hgo : (cfg.T.goto_[t']?).bind (·[cfg.T.prodNT[p]?.getD 0]?) with _ | g
          · simp [hgo] at hg
          · simp only [hgo, Option.getD_some, Int.not_lt] at hg ⊢
            refine ⟨t', rest', g, rfl, hgo, hg, rfl, f3, f4, ?_⟩
            rcases reduceRes_ok_log hres with ⟨_, q⟩ | ⟨_, _, q, _⟩ <;> simp [q]

theorem step_cont_inv {cfg : PCfg} (hr : ∀ s : Nat, cfg.T.canRecover[s]?.getD false = false)
    {w : List Nat} {ps ps1 : PState} (h : step cfg w ps = .cont ps1) :
    ∃ top rest a, ps.states = top :: rest ∧ ps.next.2 < cfg.T.numSymbols ∧
      cfg.T.act top ps.next.2 = some a ∧ doAct cfg w a ps = .cont ps1 := by
  unfold step at h
  rcases hst : ps.states with _ | ⟨top, rest⟩
  · rw [hst] at h; cases h
  · rw [hst] at h
    simp only [] at h
    split at h
    · cases h
    · rename_i hn
      rcases hl : lookupAct cfg.T cfg.errTerm w ps top with ⟨o, ps'⟩ | ⟨a, ps'⟩
      · rw [hl] at h; cases h
      · rw [hl] at h
        obtain ⟨rfl, ha⟩ := lookupAct_hr hr hl
        exact ⟨top, rest, a, rfl, by omega, ha, h⟩

/-- the initial configuration of `Parse` -/
def initPS (w : List Nat) : PState :=
  { states := [0], attrs := [.nil], next := scanTok w 0, ntok := 1, log := [], calls := 0 }

theorem parse_eq (cfg : PCfg) (w : List Nat) (fuel : Nat) (old : PState) :
    parse cfg w fuel old = parseLoop cfg w fuel (initPS w) := rfl

/-- the invariant: the stack spells a string `γ` of grammar symbols that derives the `m` tokens
    consumed so far, which are a prefix of a sentence; the look-ahead is token `m` -/
def VInv (G : NGrammar) (T : PTables) (w : List Nat) (ps : PState) : Prop :=
  ∃ γ m, VStk T ps.states γ ∧ NDerives G γ.reverse (w.take m) ∧ ps.ntok = m + 1 ∧
    ps.next = scanTok w m ∧ m ≤ w.length ∧ NViablePrefix G (w.take m)

theorem body0_productive {G : NGrammar} {T : PTables} {c : CertLA} {fc : FirstCert}
    (VF : ValidFacts G T c fc) : ∃ v, NSentence G v := by
  by_cases h0 : 0 < G.prods.size
  · exact productive_of_all (VF.prodB 0 h0)
  · have : G.prods[0]? = none := Array.getElem?_eq_none (by omega)
    exact ⟨[], by simpa [NSentence, NGrammar.body, this] using NDerives.nil⟩

theorem vinv_init {G : NGrammar} {T : PTables} {c : CertLA} {fc : FirstCert}
    (VF : ValidFacts G T c fc) (w : List Nat) : VInv G T w (initPS w) := by
  obtain ⟨v, hv⟩ := body0_productive VF
  exact ⟨[], 0, .base, .nil, rfl, rfl, Nat.zero_le _, v, by simpa using hv⟩

theorem shift_ne_eof {G : NGrammar} {T : PTables} {c : CertLA} {fc : FirstCert}
    (VF : ValidFacts G T c fc) {top : Nat} {rest : List Nat} {γ : List Sym}
    (hS : VStk T (top :: rest) γ) {a s' : Nat} (ha : T.act top a = some (.shift s')) : a ≠ 1 := by
  obtain ⟨p, d, la, hm, hX⟩ := VF.shiftJ top a s' ha
  obtain ⟨hp, -⟩ := hS.valid VF p d la (by simpa using hm)
  rintro rfl
  exact (VF.noTok p hp).2 (List.mem_of_getElem? hX)

theorem scanTok_snd_lt {w : List Nat} {m : Nat} (h : m < w.length) : (scanTok w m).2 = w[m] := by
  simp [scanTok, h]

theorem step_vinv {G : NGrammar} {T : PTables} {c : CertLA} {fc fc' : FirstCert}
    (VF : ValidFacts G T c fc) (F : CompleteFacts G T fc' c)
    (hr : ∀ s : Nat, T.canRecover[s]?.getD false = false) {cfg : PCfg} (hT : cfg.T = T)
    {w : List Nat} {ps ps1 : PState} (hI : VInv G T w ps) (h : step cfg w ps = .cont ps1) :
    VInv G T w ps1 := by
  subst hT
  obtain ⟨top, rest, a, hst, -, ha, hdo⟩ := step_cont_inv hr h
  obtain ⟨γ, m, hS, hu, hnt, hnx, hle, hvp⟩ := hI
  rw [hst] at hS
  have hav := act_viable VF hS hu ha
  cases a with
  | accept =>
    simp only [doAct] at hdo
    split at hdo <;> cases hdo
  | shift s' =>
    simp only [doAct, StepR.cont.injEq] at hdo
    subst hdo
    have hne := shift_ne_eof VF hS ha
    have hlt : m < w.length := scanTok_lt (w := w) (m := m) (by rw [← hnx]; exact hne)
    have hty : ps.next.2 = w[m] := by rw [hnx]; exact scanTok_snd_lt hlt
    have htake : w.take (m + 1) = w.take m ++ [ps.next.2] := by
      rw [List.take_add_one, hty]; simp [hlt]
    refine ⟨Sym.t ps.next.2 :: γ, m + 1, ?_, ?_, by simp [hnt], by simp [hnt], hlt, ?_⟩
    · simp only [hst]
      exact .push hS ha
    · rw [List.reverse_cons, htake]
      exact hu.append (.term .nil)
    · obtain ⟨v, hv⟩ := hav.1 hne
      exact ⟨v, by rw [htake]; simpa using hv⟩
  | reduce p =>
    obtain ⟨hn, t', rest', g, hd, hg, hg0, hs1, hnx1, hnt1, -⟩ := doAct_reduce_inv hdo
    have hm := VF.reduceJ top _ p ha
    obtain ⟨hp, δ, z, hγ, -, -, -⟩ := hS.valid VF p _ _ (by simpa using hm)
    rw [List.take_length] at hγ
    rw [F.prodLen p hp, F.prodNT p hp] at *
    simp only [Option.getD_some] at hn hd hg
    have hγ' : γ = (G.body p).reverse ++ δ.reverse := by
      have := congrArg List.reverse hγ
      simpa using this
    have hdrop : γ.drop (G.body p).length = δ.reverse := by
      rw [hγ']
      have : (G.body p).length = (G.body p).reverse.length := by simp
      rw [this, List.drop_left]
    have hS' := hS.drop (G.body p).length (by rw [hγ']; simp)
    rw [← hst, hd, hdrop] at hS'
    rw [hγ] at hu
    obtain ⟨x, y, hxy, hx, hy⟩ := hu.append_inv
    refine ⟨Sym.nt (G.head p) :: δ.reverse, m, ?_, ?_, by rw [hnt1, hnt], by rw [hnx1, hnx], hle, hvp⟩
    · rw [hs1]
      exact .push hS' ⟨g, hg, hg0, rfl⟩
    · rw [List.reverse_cons, List.reverse_reverse, hxy]
      have := hx.append (NDerives.nt hp hy .nil)
      simpa using this

theorem Steps.vinv {G : NGrammar} {T : PTables} {c : CertLA} {fc fc' : FirstCert}
    (VF : ValidFacts G T c fc) (F : CompleteFacts G T fc' c)
    (hr : ∀ s : Nat, T.canRecover[s]?.getD false = false) {cfg : PCfg} (hT : cfg.T = T)
    {w : List Nat} {a b : PState} (h : Steps cfg w a b) : VInv G T w a → VInv G T w b := by
  induction h with
  | refl => exact id
  | head hs _ ih => exact fun hI => ih (step_vinv VF F hr hT hI hs)

/-! ### §7 determinism, stuck parsers, the error state -/

theorem doAct_agree (cfg : PCfg) {w w' : List Nat} (a : Act) (ps : PState)
    (h : scanTok w ps.ntok = scanTok w' ps.ntok) : doAct cfg w a ps = doAct cfg w' a ps := by
  cases a with
  | accept => rfl
  | shift s => simp only [doAct, h]
  | reduce p => rfl

theorem step_agree {cfg : PCfg} (hr : ∀ s : Nat, cfg.T.canRecover[s]?.getD false = false)
    {w w' : List Nat} {ps ps1 : PState} (h : step cfg w ps = .cont ps1)
    (hag : scanTok w ps.ntok = scanTok w' ps.ntok) : step cfg w' ps = .cont ps1 := by
  obtain ⟨top, rest, a, hst, hlt, ha, hdo⟩ := step_cont_inv hr h
  rw [step_act hst ha hlt, ← doAct_agree cfg a ps hag]
  exact hdo

theorem step_ntok {cfg : PCfg} (hr : ∀ s : Nat, cfg.T.canRecover[s]?.getD false = false)
    {w : List Nat} {ps ps1 : PState} (h : step cfg w ps = .cont ps1) :
    ps.ntok ≤ ps1.ntok ∧ ps1.ntok ≤ ps.ntok + 1 := by
  obtain ⟨top, rest, a, hst, hlt, ha, hdo⟩ := step_cont_inv hr h
  cases a with
  | accept => simp only [doAct] at hdo; split at hdo <;> cases hdo
  | shift s => simp only [doAct, StepR.cont.injEq] at hdo; subst hdo; simp
  | reduce p =>
    obtain ⟨-, _, _, _, -, -, -, -, -, h1, -⟩ := doAct_reduce_inv hdo
    omega

theorem Steps.ntok_le {cfg : PCfg} (hr : ∀ s : Nat, cfg.T.canRecover[s]?.getD false = false)
    {w : List Nat} {a b : PState} (h : Steps cfg w a b) : a.ntok ≤ b.ntok := by
  induction h with
  | refl => exact Nat.le_refl _
  | head hs _ ih => exact Nat.le_trans (step_ntok hr hs).1 ih

/-- (lock-step) a run depends only on the tokens it has scanned -/
theorem Steps.agree {cfg : PCfg} (hr : ∀ s : Nat, cfg.T.canRecover[s]?.getD false = false)
    {w w' : List Nat} {a b : PState} (h : Steps cfg w a b) :
    (∀ j, a.ntok ≤ j → j < b.ntok → scanTok w j = scanTok w' j) → Steps cfg w' a b := by
  induction h with
  | refl => intro _; exact .refl _
  | @head ps ps1 ps2 hs hrest ih =>
    intro hag
    have h1 := step_ntok hr hs
    have h2 := hrest.ntok_le hr
    have hs' : step cfg w' ps = .cont ps1 := by
      by_cases hc : ps1.ntok = ps.ntok + 1
      · exact step_agree hr hs (hag _ (Nat.le_refl _) (by omega))
      · -- no token was scanned: a reduce step
        obtain ⟨top, rest, a, hst, hlt, ha, hdo⟩ := step_cont_inv hr hs
        rw [step_act hst ha hlt]
        cases a with
        | accept => exact hdo
        | reduce p => exact hdo
        | shift s =>
          simp only [doAct, StepR.cont.injEq] at hdo
          subst hdo
          simp at hc
    exact .head hs' (ih fun j hj1 hj2 => hag j (by omega) hj2)

theorem Steps.snoc_inv {cfg : PCfg} {w : List Nat} {a b : PState} (h : Steps cfg w a b) :
    a = b ∨ ∃ c, Steps cfg w a c ∧ step cfg w c = .cont b := by
  induction h with
  | refl => exact .inl rfl
  | @head ps ps1 ps2 hs _ ih =>
    right
    rcases ih with rfl | ⟨c, h1, h2⟩
    · exact ⟨ps, .refl _, hs⟩
    · exact ⟨c, .head hs h1, h2⟩

/-- a step without an action entry ends the parse, and not with `accept` -/
theorem step_noact_done {cfg : PCfg} (hr : ∀ s : Nat, cfg.T.canRecover[s]?.getD false = false)
    (w : List Nat) {ps : PState} {top : Nat} {rest : List Nat} (hst : ps.states = top :: rest)
    (ha : cfg.T.act top ps.next.2 = none) :
    ∃ o ps', step cfg w ps = .done o ps' ∧ ∀ r, o ≠ .accept r := by
  by_cases hlt : ps.next.2 < cfg.T.numSymbols
  · exact ⟨_, _, step_noact hr w hst hlt ha, by intro r h; cases h⟩
  · refine ⟨.panic "index out of range (token type)", ps, ?_, by intro r h; cases h⟩
    unfold step
    rw [hst]
    simp only []
    rw [if_pos (by omega)]

/-- a parser that is stuck (no action on its look-ahead) is not reading a sentence -/
theorem stuck_not_sentence {G : NGrammar} {T : PTables} {fc : FirstCert} {c : CertLA}
    (hf : firstOk G fc = true) (hc : complete G T fc c = true)
    (hr : ∀ s : Nat, T.canRecover[s]?.getD false = false) {cfg : PCfg} (hA : ActsOk cfg)
    (hT : cfg.T = T) {w : List Nat} {ps : PState} (hrun : Steps cfg w (initPS w) ps)
    {top : Nat} {rest : List Nat} (hst : ps.states = top :: rest)
    (ha : T.act top ps.next.2 = none) : ¬ NSentence G w := by
  intro hs
  subst hT
  obtain ⟨fuel, r, hacc⟩ := parse_accepts hf hc hA rfl hs (initPS w)
  rw [parse_eq] at hacc
  obtain ⟨n, hn⟩ := hrun.parseLoop
  have h1 : parseLoop cfg w (fuel + n) (initPS w) = parseLoop cfg w fuel (initPS w) :=
    parseLoop_fuel_mono (by rw [hacc]; intro h; cases h) n
  rw [Nat.add_comm, hn fuel] at h1
  rw [← h1] at hacc
  cases fuel with
  | zero => simp [parseLoop] at hacc
  | succ fuel =>
    obtain ⟨o, ps', hd, hno⟩ := step_noact_done hr w hst ha
    rw [parseLoop_succ, hd] at hacc
    exact hno r hacc

/-- the configuration in which a syntax error is reported -/
theorem parseLoop_synErr {cfg : PCfg} (hr : ∀ s : Nat, cfg.T.canRecover[s]?.getD false = false)
    (w : List Nat) : ∀ (fuel : Nat) (ps0 : PState) {i typ : Nat} {exp : List Nat} {top : Nat}
      {ps' : PState}, parseLoop cfg w fuel ps0 = (.synErr i typ exp top, ps') →
    ∃ rest, Steps cfg w ps0 ps' ∧ ps'.states = top :: rest ∧ cfg.T.act top ps'.next.2 = none ∧
      ps'.next = (i, typ) ∧ exp = cfg.T.rowExpected top ∧ typ < cfg.T.numSymbols := by
  intro fuel
  induction fuel with
  | zero => intro ps0 i typ exp top ps' h; simp [parseLoop] at h
  | succ fuel ih =>
    intro ps0 i typ exp top ps' h
    rw [parseLoop_succ] at h
    rcases hs : step cfg w ps0 with ⟨o, ps1⟩ | ps1
    · rw [hs] at h
      simp only [StepR.run, Prod.mk.injEq] at h
      obtain ⟨rfl, rfl⟩ := h
      have hs0 := hs
      unfold step at hs
      rcases hst : ps0.states with _ | ⟨top0, rest⟩
      · rw [hst] at hs; cases hs
      · rw [hst] at hs
        simp only [] at hs
        split at hs
        · cases hs
        · rename_i hn
          have hlt : ps0.next.2 < cfg.T.numSymbols := by omega
          rcases hact : cfg.T.act top0 ps0.next.2 with _ | a
          · rw [step_noact hr w hst hlt hact] at hs0
            simp only [StepR.done.injEq, Outcome.synErr.injEq] at hs0
            obtain ⟨⟨rfl, rfl, rfl, rfl⟩, rfl⟩ := hs0
            exact ⟨rest, .refl _, hst, hact, rfl, rfl, hlt⟩
          · rw [step_act hst hact hlt] at hs0
            exact absurd hs0 (doAct_not_synErr cfg w a ps0 _ _ _ _ _)
    · rw [hs] at h
      obtain ⟨rest, h1, h2⟩ := ih ps1 h
      exact ⟨rest, .head hs h1, h2⟩

theorem scanTok_take_append {w : List Nat} {m j : Nat} (x : List Nat) (hj : j < m)
    (hm : m ≤ w.length) : scanTok w j = scanTok (w.take m ++ x) j := by
  have : (w.take m ++ x)[j]? = w[j]? := by
    rw [List.getElem?_append_left (by simp; omega), List.getElem?_take_of_lt hj]
  simp only [scanTok, this]

theorem scanTok_take_at {w : List Nat} {m : Nat} (x : List Nat) (hm : m ≤ w.length) :
    scanTok (w.take m ++ x) m = (m, x.head?.getD 1) := by
  have : (w.take m ++ x)[m]? = x.head? := by
    rw [List.getElem?_append_right (by simp; omega)]
    have : m - (List.take m w).length = 0 := by simp; omega
    rw [this]
    cases x <;> rfl
  simp only [scanTok, this]
  cases x <;> rfl

/-- (first offending token) the parser is stuck after consuming `w.take m`: no string beginning
    with the look-ahead continues the consumed input to a sentence -/
theorem stuck_ext {G : NGrammar} {T : PTables} {fc : FirstCert} {c : CertLA}
    (hf : firstOk G fc = true) (hc : complete G T fc c = true)
    (hr : ∀ s : Nat, T.canRecover[s]?.getD false = false) {cfg : PCfg} (hA : ActsOk cfg)
    (hT : cfg.T = T) {w : List Nat} {ps : PState} (hrun : Steps cfg w (initPS w) ps)
    {top : Nat} {rest : List Nat} (hst : ps.states = top :: rest)
    (ha : T.act top ps.next.2 = none) {m : Nat} (hnt : ps.ntok = m + 1)
    (hnx : ps.next = scanTok w m) (hle : m ≤ w.length) {x : List Nat}
    (hx : x.head?.getD 1 = ps.next.2) : ¬ NSentence G (w.take m ++ x) := by
  have hr' : ∀ s : Nat, cfg.T.canRecover[s]?.getD false = false := by rw [hT]; exact hr
  have hag : ∀ j, j ≤ m → scanTok w j = scanTok (w.take m ++ x) j := by
    intro j hj
    by_cases hjm : j < m
    · exact scanTok_take_append x hjm hle
    · have : j = m := by omega
      subst this
      rw [scanTok_take_at x hle, hx, ← hnx]
      have := scanTok_fst w j
      rw [← hnx] at this
      rw [← this]
  have hinit : initPS (w.take m ++ x) = initPS w := by
    unfold initPS
    rw [hag 0 (Nat.zero_le _)]
  have hrun' : Steps cfg (w.take m ++ x) (initPS (w.take m ++ x)) ps := by
    rw [hinit]
    exact hrun.agree hr' fun j _ hj2 => hag j (by omega)
  exact stuck_not_sentence hf hc hr hA hT hrun' hst ha

theorem mem_rowExpected {T : PTables} {s a : Nat} :
    a ∈ T.rowExpected s ↔ (T.act s a).isSome = true := by
  unfold PTables.rowExpected PTables.act
  rcases T.action[s]? with _ | row
  · simp
  · simp only [List.mem_filter, List.mem_range, Option.bind_some]
    constructor
    · exact fun h => h.2
    · intro h
      refine ⟨?_, h⟩
      rcases hx : row[a]? with _ | x
      · simp [hx] at h
      · exact (Array.getElem?_eq_some_iff.mp hx).1

theorem rowExpected_sorted (T : PTables) (s : Nat) :
    (T.rowExpected s).Pairwise (· < ·) := by
  unfold PTables.rowExpected
  split
  · exact List.Pairwise.filter _ List.pairwise_lt_range
  · exact List.Pairwise.nil

/-- the error state is entered by a shift (or is the initial one): no step was made with the
    offending token as look-ahead.  Hence the same stack is reached on every input that agrees
    with `w` on the consumed tokens. -/
theorem err_state_fresh {G : NGrammar} {T : PTables} {fc : FirstCert} {c : CertLA} {fcv : FirstCert}
    (VF : ValidFacts G T c fcv) (hf : firstOk G fc = true) (hc : complete G T fc c = true)
    (hr : ∀ s : Nat, T.canRecover[s]?.getD false = false) {cfg : PCfg} (hA : ActsOk cfg)
    (hT : cfg.T = T) {w : List Nat} {ps : PState} (hrun : Steps cfg w (initPS w) ps)
    {top : Nat} {rest : List Nat} (hst : ps.states = top :: rest)
    (ha : T.act top ps.next.2 = none) {m : Nat} (hnt : ps.ntok = m + 1)
    (hnx : ps.next = scanTok w m) (hle : m ≤ w.length) (w' : List Nat)
    (hag : ∀ j, j < m → scanTok w j = scanTok w' j) :
    Steps cfg w' (initPS w') { ps with next := scanTok w' m } := by
  have hr' : ∀ s : Nat, cfg.T.canRecover[s]?.getD false = false := by rw [hT]; exact hr
  have F := completeFacts_of hc
  rcases hrun.snoc_inv with heq | ⟨c0, h1, h2⟩
  · subst heq
    have : m = 0 := by simp [initPS] at hnt; omega
    subst this
    exact .refl _
  · obtain ⟨top0, rest0, a, hst0, hlt0, ha0, hdo⟩ := step_cont_inv hr' h2
    cases a with
    | accept => simp only [doAct] at hdo; split at hdo <;> cases hdo
    | reduce p =>
      exfalso
      obtain ⟨-, _, _, _, -, -, -, -, e1, e2, -⟩ := doAct_reduce_inv hdo
      obtain ⟨γ, m0, hS, hu, hnt0, hnx0, -, -⟩ := h1.vinv VF F hr hT (vinv_init VF w)
      have : m0 = m := by omega
      subst this
      rw [hst0] at hS
      rw [hT] at ha0
      have hav := act_viable VF hS hu ha0
      rw [← e1] at hav
      by_cases h1 : ps.next.2 = 1
      · have := stuck_ext hf hc hr hA hT hrun hst ha hnt hnx hle (x := []) (by simp [h1])
        exact this (by simpa using hav.2 h1)
      · obtain ⟨v, hv⟩ := hav.1 h1
        exact stuck_ext hf hc hr hA hT hrun hst ha hnt hnx hle (x := ps.next.2 :: v) (by simp) hv
    | shift s' =>
      simp only [doAct, StepR.cont.injEq] at hdo
      subst hdo
      simp only at hnt
      have hcm : c0.ntok = m := by omega
      have h1le := h1.ntok_le hr'
      simp only [initPS] at h1le
      have hinit : initPS w' = initPS w := by
        unfold initPS
        rw [hag 0 (by omega)]
      have hrun' : Steps cfg w' (initPS w') c0 := by
        rw [hinit]
        exact h1.agree hr' fun j _ hj2 => hag j (by omega)
      refine hrun'.trans (.single ?_)
      rw [step_act hst0 ha0 hlt0]
      simp only [doAct, hcm]

/-- everything the proofs know about the configuration in which `Parse` reports a syntax error -/
theorem synErr_state {G : NGrammar} {T : PTables} {fc : FirstCert} {c : CertLA} {fcv : FirstCert}
    (VF : ValidFacts G T c fcv) (F : CompleteFacts G T fc c)
    (hr : ∀ s : Nat, T.canRecover[s]?.getD false = false) {cfg : PCfg} (hT : cfg.T = T)
    {w : List Nat} {fuel : Nat} {old : PState} {i typ : Nat} {exp : List Nat} {top : Nat}
    (h : (parse cfg w fuel old).1 = .synErr i typ exp top) :
    ∃ ps rest γ, ps = (parse cfg w fuel old).2 ∧ Steps cfg w (initPS w) ps ∧
      ps.states = top :: rest ∧ T.act top typ = none ∧ ps.next = (i, typ) ∧
      exp = T.rowExpected top ∧ typ < T.numSymbols ∧ VStk T (top :: rest) γ ∧
      NDerives G γ.reverse (w.take i) ∧ ps.ntok = i + 1 ∧ (i, typ) = scanTok w i ∧
      i ≤ w.length ∧ NViablePrefix G (w.take i) := by
  have hr' : ∀ s : Nat, cfg.T.canRecover[s]?.getD false = false := by rw [hT]; exact hr
  have h' : parseLoop cfg w fuel (initPS w) = (.synErr i typ exp top, (parse cfg w fuel old).2) := by
    rw [← h]; rfl
  obtain ⟨rest, hrun, hst, ha, hnx, hexp, hlt⟩ := parseLoop_synErr hr' w fuel (initPS w) h'
  obtain ⟨γ, m, hS, hu, hnt, hnx', hle, hvp⟩ := hrun.vinv VF F hr hT (vinv_init VF w)
  have him : i = m := by
    have := scanTok_fst w m
    rw [← hnx', hnx] at this
    exact this
  subst him
  rw [hT] at ha hexp hlt
  rw [hst] at hS
  rw [hnx] at ha
  exact ⟨_, rest, γ, rfl, hrun, hst, ha, hnx, hexp, hlt, hS, hu, hnt, by rw [← hnx, hnx'], hle, hvp⟩

theorem complete_numSymbols {G : NGrammar} {T : PTables} {fc : FirstCert} {c : CertLA}
    (h : complete G T fc c = true) : 1 < T.numSymbols := by
  simp only [complete, Bool.and_eq_true, decide_eq_true_eq] at h
  exact h.1.1.1.1.1.1

end Gocc
