import Gocc.Proofs.LexGenCorrectStep
import Gocc.Proofs.LexEquiv
/-
C01 (generator level), part 8 — the elementary intervals of the reference automaton.

  * `elemStarts_ok`: `elemStarts prods` begins with `0` and is strictly increasing (`startsOk`);
  * `xStep_uniform`: for a rune `r` in `[0, 0x10FFFF]` and the start `c` of its elementary interval,
    `xStep C S r = xStep C S c` for EVERY position list `S` (every literal / range that a position
    can expect has its bounds `lo`, `hi + 1` among the starts as far as they lie in `[0, 0x10FFFF]`;
    bounds outside that interval cannot separate two runes; a reversed range contains no rune).
-/
namespace Gocc
namespace LexGenC

open EmovesU

/-! ### the bounds of the terms below a node -/

def termBounds : LTerm → List Int
  | .lit v => [v, v + 1]
  | .rng a b => [a, b + 1]
  | .opt p | .rep p | .grp p => boundsOfPat p
  | _ => []

def nbounds : LNode → List Int
  | .pat p | .grp p | .opt p | .rep p => boundsOfPat p
  | .alt a => boundsOfPat.bTerms a.terms

theorem bTerms_cons (t : LTerm) (rest : List LTerm) :
    boundsOfPat.bTerms (t :: rest) = termBounds t ++ boundsOfPat.bTerms rest := by
  cases t <;> rw [boundsOfPat.bTerms] <;> first | rfl | (intros; contradiction)

theorem bTerms_get : ∀ (ts : List LTerm) (j : Nat) (t : LTerm), ts[j]? = some t →
    ∀ b ∈ termBounds t, b ∈ boundsOfPat.bTerms ts
  | [], j, t, h, _, _ => by simp at h
  | t0 :: rest, 0, t, h, b, hb => by
    simp only [List.getElem?_cons_zero, Option.some.injEq] at h
    subst h
    rw [bTerms_cons]; exact List.mem_append_left _ hb
  | t0 :: rest, j + 1, t, h, b, hb => by
    simp only [List.getElem?_cons_succ] at h
    rw [bTerms_cons]; exact List.mem_append_right _ (bTerms_get rest j t h b hb)

theorem bAlts_get : ∀ (alts : List LAlt) (j : Nat) (a : LAlt), alts[j]? = some a →
    ∀ b ∈ boundsOfPat.bTerms a.terms, b ∈ boundsOfPat.bAlts alts
  | [], j, a, h, _, _ => by simp at h
  | (.mk ts) :: rest, 0, a, h, b, hb => by
    simp only [List.getElem?_cons_zero, Option.some.injEq] at h
    subst h
    rw [boundsOfPat.bAlts]; exact List.mem_append_left _ hb
  | (.mk ts) :: rest, j + 1, a, h, b, hb => by
    simp only [List.getElem?_cons_succ] at h
    rw [boundsOfPat.bAlts]; exact List.mem_append_right _ (bAlts_get rest j a h b hb)

theorem boundsOfPat_mk (alts : List LAlt) : boundsOfPat (.mk alts) = boundsOfPat.bAlts alts := by
  rw [boundsOfPat]

theorem child_bounds {n c : LNode} {j : Nat} (h : n.child j = some c) :
    ∀ b ∈ nbounds c, b ∈ nbounds n := by
  intro b hb
  cases n with
  | alt a =>
    simp only [LNode.child] at h
    simp only [nbounds]
    cases ht : a.terms[j]? with
    | none => rw [ht] at h; simp at h
    | some t =>
      rw [ht] at h
      refine bTerms_get _ _ _ ht b ?_
      cases t <;> simp at h <;> subst h <;> simpa [nbounds, termBounds] using hb
  | pat p | grp p | opt p | rep p =>
    cases p with
    | mk alts =>
      simp only [LNode.child, LPat.alts] at h
      simp only [nbounds, boundsOfPat_mk]
      cases ht : alts[j]? with
      | none => rw [ht] at h; simp at h
      | some a =>
        rw [ht] at h
        simp only [Option.map_some, Option.some.injEq] at h
        subst h
        exact bAlts_get _ _ _ ht b hb

theorem node_bounds : ∀ (q : List Nat) (r m : LNode), node r q = some m →
    ∀ b ∈ nbounds m, b ∈ nbounds r := by
  intro q
  induction q with
  | nil => intro r m h b hb; simp only [node, Option.some.injEq] at h; subst h; exact hb
  | cons a q ih =>
    intro r m h b hb
    simp only [node] at h
    cases hc : r.child a with
    | none => rw [hc] at h; simp at h
    | some c =>
      rw [hc] at h
      exact child_bounds hc b (ih c m (by simpa using h) b hb)

theorem termAt_bounds {n : LNode} {pos : Nat} {t : LTerm} (h : n.termAt pos = some t) :
    ∀ b ∈ termBounds t, b ∈ nbounds n := by
  intro b hb
  cases n with
  | alt a =>
    simp only [LNode.termAt] at h
    simp only [nbounds]
    cases ht : a.terms[pos]? with
    | none => rw [ht] at h; simp at h
    | some t' =>
      rw [ht] at h
      refine bTerms_get _ _ _ ht b ?_
      cases t' <;> simp at h <;> subst h <;> exact hb
  | pat p | grp p | opt p | rep p => simp [LNode.termAt] at h

/-- the bounds of an expected term are bounds of the production's pattern -/
theorem expected_bounds {C : LexCtx} {i : LItem} {t : LTerm} (h : C.expected i = some t) :
    ∃ P, C.prods[i.prod]? = some P ∧ ∀ b ∈ termBounds t, b ∈ boundsOfPat P.pat := by
  unfold LexCtx.expected at h
  cases htop : C.top i with
  | none => rw [htop] at h; cases h
  | some np =>
    obtain ⟨n, pos⟩ := np
    rw [htop] at h
    dsimp only at h
    obtain ⟨P, q, hP, _, hn⟩ := pos_top htop
    exact ⟨P, hP, fun b hb => node_bounds q _ _ hn b (termAt_bounds h b hb)⟩

/-! ### `elemStarts` -/

theorem mem_elemStarts {prods : List LProd} {b : Int} :
    b ∈ elemStarts prods ↔
      (b = 0 ∨ b ∈ prods.flatMap fun p => boundsOfPat p.pat) ∧ 0 ≤ b ∧ b ≤ 0x10FFFF := by
  unfold elemStarts
  simp only [List.mem_mergeSort, List.mem_filter, List.mem_eraseDups, List.mem_cons,
    decide_eq_true_eq]

theorem strictInc_of_pairwise : ∀ (l : List Int), l.Pairwise (· < ·) → strictInc l = true
  | [], _ => rfl
  | [_], _ => rfl
  | a :: b :: rest, h => by
    rw [List.pairwise_cons] at h
    simp only [strictInc, Bool.and_eq_true, decide_eq_true_eq]
    exact ⟨h.1 b List.mem_cons_self, strictInc_of_pairwise (b :: rest) h.2⟩

theorem elemStarts_pairwise (prods : List LProd) : (elemStarts prods).Pairwise (· < ·) := by
  have hsorted : (elemStarts prods).Pairwise (fun a b => a ≤ b) := by
    unfold elemStarts
    have := List.pairwise_mergeSort (le := fun (a b : Int) => decide (a ≤ b))
      (by intro a b c; simp only [decide_eq_true_eq]; omega)
      (by intro a b; simp only [Bool.or_eq_true, decide_eq_true_eq]; omega)
      (((0 :: prods.flatMap fun p => boundsOfPat p.pat).eraseDups).filter
        fun b => decide (0 ≤ b ∧ b ≤ 0x10FFFF))
    exact this.imp (by intro a b h; simpa using h)
  have hnodup : (elemStarts prods).Nodup := by
    unfold elemStarts
    refine (List.mergeSort_perm _ _).nodup_iff.2 ?_
    exact (nodup_eraseDups _ _ (Nat.le_refl _)).sublist List.filter_sublist
  exact (hsorted.and hnodup).imp (by intro a b h; omega)

/-- the elementary starts begin with `0` and are strictly increasing -/
theorem elemStarts_ok (prods : List LProd) : startsOk (elemStarts prods) = true := by
  have hp := elemStarts_pairwise prods
  have h0 : (0 : Int) ∈ elemStarts prods := mem_elemStarts.2 ⟨Or.inl rfl, by omega, by omega⟩
  cases hl : elemStarts prods with
  | nil => rw [hl] at h0; cases h0
  | cons a rest =>
    rw [hl] at hp h0
    have ha : 0 ≤ a := by
      have : a ∈ elemStarts prods := by rw [hl]; exact List.mem_cons_self
      exact (mem_elemStarts.1 this).2.1
    have ha0 : a = 0 := by
      rcases List.mem_cons.1 h0 with h | h
      · exact h.symm
      · have := (List.pairwise_cons.1 hp).1 0 h; omega
    simp only [startsOk, Bool.and_eq_true, beq_iff_eq]
    exact ⟨ha0, strictInc_of_pairwise _ hp⟩

/-- two strictly increasing lists with the same elements are equal -/
theorem eq_of_pairwise_lt : ∀ (l1 l2 : List Int), l1.Pairwise (· < ·) → l2.Pairwise (· < ·) →
    (∀ x, x ∈ l1 ↔ x ∈ l2) → l1 = l2
  | [], [], _, _, _ => rfl
  | [], b :: _, _, _, h => absurd ((h b).2 List.mem_cons_self) (by simp)
  | a :: _, [], _, _, h => absurd ((h a).1 List.mem_cons_self) (by simp)
  | a :: l1, b :: l2, h1, h2, h => by
    rw [List.pairwise_cons] at h1 h2
    have hab : a = b := by
      have ha := (h a).1 List.mem_cons_self
      have hb := (h b).2 List.mem_cons_self
      rcases List.mem_cons.1 ha with ha | ha
      · exact ha
      · rcases List.mem_cons.1 hb with hb | hb
        · exact hb.symm
        · have := h1.1 b hb; have := h2.1 a ha; omega
    subst hab
    congr 1
    refine eq_of_pairwise_lt l1 l2 h1.2 h2.2 ?_
    intro x
    constructor
    · intro hx
      rcases List.mem_cons.1 ((h x).1 (List.mem_cons_of_mem _ hx)) with e | e
      · have := h1.1 x hx; omega
      · exact e
    · intro hx
      rcases List.mem_cons.1 ((h x).2 (List.mem_cons_of_mem _ hx)) with e | e
      · have := h2.1 x hx; omega
      · exact e

/-- how to compute `elemStarts` of a concrete lexical part (`mergeSort` is defined by well-founded
    recursion and does not reduce by `decide`): give the strictly increasing list of the bounds -/
theorem elemStarts_eq_of {prods : List LProd} {L : List Int} (hL : L.Pairwise (· < ·))
    (hmem : ∀ x, x ∈ L ↔
      (x = 0 ∨ x ∈ prods.flatMap fun p => boundsOfPat p.pat) ∧ 0 ≤ x ∧ x ≤ 0x10FFFF) :
    elemStarts prods = L := by
  refine eq_of_pairwise_lt _ _ (elemStarts_pairwise _) hL ?_
  intro x
  rw [mem_elemStarts, hmem]

/-! ### uniformity of `xStep` on an elementary interval -/

theorem termHas_uniform {starts : List Int} {r c : Int} (h : ElemRep starts r c) (hr : IsRune r)
    (hc0 : 0 ≤ c) {t : LTerm}
    (hb : ∀ b ∈ termBounds t, 0 ≤ b → b ≤ 0x10FFFF → b ∈ starts) : termHas t r = termHas t c := by
  obtain ⟨_, hcr, hmax⟩ := h
  obtain ⟨hr0, hr1⟩ := hr
  cases t with
  | lit v =>
    have h1 : 0 ≤ v → v ≤ 0x10FFFF → v ≤ r → v ≤ c := fun a b d =>
      hmax v (hb v (by simp [termBounds]) a b) d
    have h2 : 0 ≤ v + 1 → v + 1 ≤ 0x10FFFF → v + 1 ≤ r → v + 1 ≤ c := fun a b d =>
      hmax (v + 1) (hb (v + 1) (by simp [termBounds]) a b) d
    simp only [termHas]
    rw [Bool.eq_iff_iff]
    simp only [beq_iff_eq]
    constructor
    · intro e; have := h1 (by omega) (by omega) (by omega); omega
    · intro e
      by_cases hv : v + 1 ≤ r
      · have := h2 (by omega) (by omega) hv; omega
      · omega
  | rng a b =>
    have h1 : 0 ≤ a → a ≤ 0x10FFFF → a ≤ r → a ≤ c := fun x y d =>
      hmax a (hb a (by simp [termBounds]) x y) d
    have h2 : 0 ≤ b + 1 → b + 1 ≤ 0x10FFFF → b + 1 ≤ r → b + 1 ≤ c := fun x y d =>
      hmax (b + 1) (hb (b + 1) (by simp [termBounds]) x y) d
    simp only [termHas]
    rw [Bool.eq_iff_iff]
    simp only [Bool.and_eq_true, decide_eq_true_eq]
    constructor
    · intro ⟨e1, e2⟩
      refine ⟨?_, by omega⟩
      by_cases ha : 0 ≤ a
      · exact h1 ha (by omega) e1
      · omega
    · intro ⟨e1, e2⟩
      refine ⟨by omega, ?_⟩
      by_cases hv : b + 1 ≤ r
      · have := h2 (by omega) (by omega) hv; omega
      · omega
  | dot => rfl
  | ref _ => rfl
  | opt _ => rfl
  | rep _ => rfl
  | grp _ => rfl

theorem xExpected_bounds {prods : List LProd} {x : XPos} {t : LTerm}
    (h : xExpected { prods := prods.toArray } x = some t) :
    ∀ b ∈ termBounds t, 0 ≤ b → b ≤ 0x10FFFF → b ∈ elemStarts prods := by
  intro b hb h0 h1
  unfold xExpected at h
  cases x with
  | nil => cases h
  | cons top rest =>
    dsimp only at h
    split at h
    · cases h
    · obtain ⟨P, hP, hbP⟩ := expected_bounds h
      have hmem : P ∈ prods := by
        have : prods[top.prod]? = some P := by simpa using hP
        exact List.mem_of_getElem? this
      exact mem_elemStarts.2 ⟨Or.inr (List.mem_flatMap.2 ⟨P, hmem, hbP b hb⟩), h0, h1⟩

/-- the reference step is the same for all runes of an elementary interval -/
theorem xStep_uniform {prods : List LProd} {r c : Int} (h : ElemRep (elemStarts prods) r c)
    (hr : IsRune r) (S : List XPos) :
    xStep { prods := prods.toArray } S r = xStep { prods := prods.toArray } S c := by
  have hc0 : 0 ≤ c := (mem_elemStarts.1 h.1).2.1
  have hp : specP { prods := prods.toArray } r = specP { prods := prods.toArray } c := by
    funext x
    unfold specP
    cases he : xExpected { prods := prods.toArray } x with
    | none => rfl
    | some t => exact termHas_uniform h hr hc0 (xExpected_bounds he)
  rw [xStep_eq', xStep_eq', hp]

end LexGenC
end Gocc
