import Gocc.Proofs.GenValidItems
/-
Generator-level validity, part 4: for every grammar whose body non-terminals are all productive,
the tables computed by the generator model pass the validity validator `validItems`
(Model/ValidateV.lean) with the item sets of the generator as LR(1) certificate (`claOf`,
Model/GenCert.lean) and the derivation certificate `vcertOf` of the numbered grammar
(Model/GenVCert.lean).  Conflicts are allowed: conflict resolution only removes actions.

  §1  introduction rules for `edgeOkLA` / `validItems`
  §2  edges: the target of a transition holds advanced items of the source, look-ahead unchanged
  §3  the action entries are proposed by items of their state
  §4  body terminals; assembly
-/
namespace Gocc.GenValid

open Gocc.GenComplete

/-! ## §1 introduction rules -/

theorem edgeOkLA_intro {G : NGrammar} {c : CertLA} {s s' : Nat} {X : Sym} (h0 : s' ≠ 0)
    (h : ∀ p d a, (p, d + 1, a) ∈ c[s']?.getD [] →
      (G.body p)[d]? = some X ∧ (p, d, a) ∈ c[s]?.getD []) : edgeOkLA G c s X s' = true := by
  simp only [edgeOkLA, Bool.and_eq_true, bne_iff_ne, ne_eq, List.all_eq_true]
  refine ⟨h0, ?_⟩
  intro ⟨p, d, a⟩ hm
  cases d with
  | zero => simp
  | succ d =>
    obtain ⟨h1, h2⟩ := h p d a hm
    simp [h1, CertLA.has, h2]

theorem validItems_intro {G : NGrammar} {T : PTables} {c : CertLA} {vc : VCert}
    (h1 : prodListOk G vc.prod = true)
    (h2t : ∀ p, p < G.prods.size → ∀ a, Sym.t a ∈ G.body p → a ≠ 0 ∧ a ≠ 1)
    (h2n : ∀ p, p < G.prods.size → ∀ B, Sym.nt B ∈ G.body p → hasNT vc.prod B = true)
    (h3 : nullListOk G vc.null = true) (h4 : firstListOk G vc.null vc.first = true)
    (h5 : ∀ s, itemsJust G vc.fc s (c[s]?.getD []).reverse = true)
    (hsh : ∀ s t s', T.act s t = some (.shift s') →
      edgeOkLA G c s (Sym.t t) s' = true ∧
      ∃ p d a, (p, d, a) ∈ c[s]?.getD [] ∧ (G.body p)[d]? = some (Sym.t t))
    (hre : ∀ s t p, T.act s t = some (.reduce p) → (p, (G.body p).length, t) ∈ c[s]?.getD [])
    (hac : ∀ s t, T.act s t = some .accept → t = 1 ∧ (0, (G.body 0).length, 1) ∈ c[s]?.getD [])
    (hgo : ∀ (s A : Nat) (g : Int), (T.goto_[s]?).bind (·[A]?) = some g → 0 ≤ g →
      edgeOkLA G c s (Sym.nt A) g.toNat = true) :
    validItems G T c vc = true := by
  simp only [validItems, Bool.and_eq_true, List.all_eq_true, List.mem_range]
  refine ⟨⟨⟨⟨⟨⟨h1, ?_⟩, h3⟩, h4⟩, fun s _ => h5 s⟩, ?_⟩, ?_⟩
  · intro p hp X hX
    cases X with
    | t a => simpa using h2t p hp a hX
    | nt B => exact h2n p hp B hX
  · intro s _ t ht
    rcases hrow : T.action[s]? with _ | row
    · simp [hrow] at ht
    · simp only [hrow, Option.getD_some] at ht ⊢
      rcases hj : (row[t]?).join with _ | a
      · rfl
      · have hact : T.act s t = some a := by simp [PTables.act, hrow, hj]
        cases a with
        | shift s' =>
          obtain ⟨e1, p, d, a, e2, e3⟩ := hsh s t s' hact
          simp only [Bool.and_eq_true, List.any_eq_true]
          exact ⟨e1, (p, d, a), e2, by simp [e3]⟩
        | reduce p => simpa [CertLA.has] using hre s t p hact
        | accept => simpa [CertLA.has] using hac s t hact
  · intro s _ A hA
    rcases hrow : T.goto_[s]? with _ | row
    · simp [hrow] at hA
    · simp only [hrow, Option.getD_some] at hA ⊢
      rcases hg : row[A]? with _ | g
      · rfl
      · simp only [Bool.or_eq_true, decide_eq_true_eq]
        by_cases hneg : g < 0
        · exact .inl hneg
        · exact .inr (hgo s A g (by simp [hrow, hg]) (by omega))

/-! ## §2 edges -/

/-- membership in `claOf`, with the terminals of the generator's context -/
theorem mem_cla {syn : List SProd} {r : LRResult} (GF : GenFacts syn r) {s p d a : Nat} :
    (p, d, a) ∈ (claOf r)[s]?.getD [] ↔
      ∃ st, r.states[s]? = some st ∧
        ∃ x ∈ st.items, x.p = p ∧ x.d = d ∧ (r.ctx.S.terminals.idxOf? x.la).getD 0 = a := by
  rw [mem_claOf, GF.terms]

/-- a recorded transition is an edge of the LR(1) automaton: every item of the target with the dot
    not at the start is an item of the source, advanced over the edge symbol, same look-ahead -/
theorem edgeOkLA_of_trans {syn : List SProd} {r : LRResult} (GF : GenFacts syn r) {s : Nat}
    {st : LRState} {X : String} {n : Nat} (hs : r.states[s]? = some st)
    (hn : (X, n) ∈ st.trans) {Xn : Sym}
    (hX : symOf r.ctx.S.terminals r.ctx.S.ntList X = Xn) :
    edgeOkLA (ngrammarOf (augment syn) r.ctx.S.terminals r.ctx.S.ntList) (claOf r) s Xn n
      = true := by
  obtain ⟨h0, st', h2, h3⟩ := GF.inv.trans s st hs (X, n) hn
  refine edgeOkLA_intro h0 ?_
  intro p d a hm
  obtain ⟨st'', g1, x, hx, rfl, hxd, rfl⟩ := (mem_cla GF).1 hm
  rw [h2] at g1
  cases g1
  rcases mem_goto (sameItems_sub h3 x hx) with ⟨i, hi, hd, hexp, rfl⟩ | ⟨hd0, _⟩
  · simp only at hxd
    have hid : i.d = d := by omega
    have := body_at GF.F.prods_eq r.ctx.S.terminals r.ctx.S.ntList hd
    simp only at hexp
    rw [hid, hexp, hX] at this
    exact ⟨this, (mem_cla GF).2 ⟨st, hs, i, hi, rfl, hid, rfl⟩⟩
  · omega

/-! ## §3 action entries -/

theorem tIdx_of_get {terms : List String} (hn : terms.Nodup) {t : Nat} {sym : String}
    (ht : terms[t]? = some sym) : (terms.idxOf? sym).getD 0 = t := by
  obtain ⟨hlt, rfl⟩ := List.getElem?_eq_some_iff.1 ht
  rw [idxOf?_getElem_of_nodup terms hn t hlt]
  rfl

/-- (V2/V3) a shift entry: the edge check, and an item of the state expects the terminal -/
theorem shift_valid {syn : List SProd} {r : LRResult} (GF : GenFacts syn r) {s t n : Nat}
    {st : LRState} {sym : String} {b : Bool} (hs : r.states[s]? = some st)
    (ht : r.ctx.S.terminals[t]? = some sym)
    (ha : setAction r.ctx st sym = .ok (some (.shift n), b)) :
    edgeOkLA (ngrammarOf (augment syn) r.ctx.S.terminals r.ctx.S.ntList) (claOf r) s (Sym.t t) n
      = true ∧
    ∃ p d a, (p, d, a) ∈ (claOf r)[s]?.getD [] ∧
      ((ngrammarOf (augment syn) r.ctx.S.terminals r.ctx.S.ntList).body p)[d]? =
        some (Sym.t t) := by
  have F := GF.F
  obtain ⟨i, hi, hia⟩ := setAction_mem ha
  obtain ⟨hnx, hsym⟩ := itemAction_shift hia
  obtain ⟨t1, t2, t3⟩ := F.term sym (List.mem_of_getElem? ht)
  have hd : i.d < r.ctx.len i := by
    apply Decidable.byContradiction
    intro hnot
    apply t3
    rw [hsym]
    unfold LRCtx.expected
    rw [if_neg hnot]
  have hgne : goto r.ctx st.items sym ≠ [] := by
    intro he
    have := goto_mem_of hi hd hsym.symm
    rw [he] at this
    cases this
  obtain ⟨idx, hidx⟩ := GF.exp s (Array.getElem?_eq_some_iff.1 hs).1 st hs sym t2 hgne
  obtain ⟨m, hm⟩ := LRState.next_of_mem hidx
  rw [hm] at hnx
  simp only [Option.getD_some] at hnx
  subst hnx
  have hsymOf := symOf_term (nts := r.ctx.S.ntList) F.termsNodup ht t1
  refine ⟨edgeOkLA_of_trans GF hs (LRState.next_some hm) hsymOf, i.p, i.d,
    (r.ctx.S.terminals.idxOf? i.la).getD 0, (mem_cla GF).2 ⟨st, hs, i, hi, rfl, rfl, rfl⟩, ?_⟩
  rw [body_at F.prods_eq _ _ hd, ← hsym, hsymOf]

/-- (V3) a reduce entry is proposed by the complete item with that look-ahead -/
theorem reduce_valid {syn : List SProd} {r : LRResult} (GF : GenFacts syn r) {s t p : Nat}
    {st : LRState} {sym : String} {b : Bool} (hs : r.states[s]? = some st)
    (ht : r.ctx.S.terminals[t]? = some sym)
    (ha : setAction r.ctx st sym = .ok (some (.reduce p), b)) :
    (p, ((ngrammarOf (augment syn) r.ctx.S.terminals r.ctx.S.ntList).body p).length, t) ∈
      (claOf r)[s]?.getD [] := by
  have F := GF.F
  obtain ⟨i, hi, hia⟩ := setAction_mem ha
  obtain ⟨hp, hlen, hla⟩ := itemAction_reduce hia
  subst hp
  obtain ⟨k1, k2⟩ := state_itemOk GF.inv (prods_pos F) hs i hi
  refine (mem_cla GF).2 ⟨st, hs, i, hi, rfl, ?_, ?_⟩
  · rw [gbody_len F.prods_eq _ _ k1]
    omega
  · rw [hla]; exact tIdx_of_get F.termsNodup ht

/-- (V3) an accept entry is in column 1 and proposed by the complete start item -/
theorem accept_valid {syn : List SProd} {r : LRResult} (GF : GenFacts syn r) {s t : Nat}
    {st : LRState} {sym : String} {b : Bool} (hs : r.states[s]? = some st)
    (ht : r.ctx.S.terminals[t]? = some sym)
    (ha : setAction r.ctx st sym = .ok (some .accept, b)) :
    t = 1 ∧ (0, ((ngrammarOf (augment syn) r.ctx.S.terminals r.ctx.S.ntList).body 0).length, 1) ∈
      (claOf r)[s]?.getD [] := by
  have F := GF.F
  obtain ⟨i, hi, hia⟩ := setAction_mem ha
  obtain ⟨hp, hlen, hsym⟩ := itemAction_accept hia
  subst hsym
  obtain ⟨k1, k2⟩ := state_itemOk GF.inv (prods_pos F) hs i hi
  obtain ⟨hla, -, -⟩ := la_facts GF hs hi
  have h1 : (r.ctx.S.terminals.idxOf? "␚").getD 0 = 1 := tIdx_of_get F.termsNodup F.term1
  refine ⟨?_, (mem_cla GF).2 ⟨st, hs, i, hi, hp, ?_, ?_⟩⟩
  · rw [← tIdx_of_get F.termsNodup ht]; exact h1
  · have := gbody_len F.prods_eq r.ctx.S.terminals r.ctx.S.ntList k1
    rw [hp] at this
    rw [this]
    omega
  · rw [hla.1 hp]; exact h1

/-- (V2) a goto entry -/
theorem goto_valid {syn : List SProd} {r : LRResult} (GF : GenFacts syn r) {s A n : Nat}
    {st : LRState} {X : String} (hs : r.states[s]? = some st)
    (hA : r.ctx.S.ntList[A]? = some X) (hn : st.next X = some n) :
    edgeOkLA (ngrammarOf (augment syn) r.ctx.S.terminals r.ctx.S.ntList) (claOf r) s (Sym.nt A) n
      = true :=
  edgeOkLA_of_trans GF hs (LRState.next_some hn) (symOf_nt GF.F.ntsNodup hA)

/-! ## §4 body terminals, assembly -/

/-- token type 0 is `INVALID` -/
theorem term0_of {syn : List SProd} {ids : List String} {r : LRResult}
    (h : genParser syn ids = .ok r) (hn : NamesOk syn ids) :
    r.ctx.S.terminals[0]? = some "INVALID" := by
  have F := symFacts_of h hn
  obtain ⟨S0, hS0, hctx, -⟩ := genParser_shape h
  have hS : r.ctx.S = S0.addTokens ids := by rw [hctx]
  have hnt : r.ctx.S.ntList = S0.ntList := by rw [hS]; rfl
  have h1 : "␚" ∉ r.ctx.S.ntList := (F.term _ (List.mem_of_getElem? F.term1)).1
  have h0 : "INVALID" ∉ r.ctx.S.ntList := by
    intro hm
    rw [hnt] at hm
    have := newSymbols_ntList_sub hS0 _ hm
    obtain ⟨n1, -, -, n4, -⟩ := hn
    cases syn with
    | nil => exact absurd rfl n1
    | cons q rest =>
      simp only [augment, synHeads, List.map_cons, List.mem_cons] at this
      rcases this with h' | h'
      · exact absurd h' (by decide)
      · exact n4 (by simpa [synHeads] using h')
  exact (terminals_numbering r.ctx.S (by rw [hS]; exact addTokens_inv ids (newSymbols_inv hS0))
    (by simpa [PSymbols.isTerminal] using h0) (by simpa [PSymbols.isTerminal] using h1)).1

/-- (V5) no body holds the terminals `INVALID` (0) or end of input (1) -/
theorem body_term_ok {syn : List SProd} {ids : List String} {r : LRResult}
    (h : genParser syn ids = .ok r) (hn : NamesOk syn ids) (GF : GenFacts syn r) {p a : Nat}
    (hp : p < (augment syn).length)
    (ha : Sym.t a ∈ (ngrammarOf (augment syn) r.ctx.S.terminals r.ctx.S.ntList).body p) :
    a ≠ 0 ∧ a ≠ 1 := by
  obtain ⟨k, hk⟩ := List.mem_iff_getElem?.1 ha
  obtain ⟨i, -, -, hd, hsym⟩ := gbody_at GF _ _ hp hk
  obtain ⟨hX, rfl⟩ := symOf_t_inv hsym.symm
  obtain ⟨e1, e2⟩ := expected_facts GF hd
  have hget := term_idx (mem_terminals e1 hX)
  constructor
  · intro h0
    rw [h0, term0_of h hn] at hget
    exact e2 (Option.some.inj hget).symm
  · intro h1
    rw [h1, GF.F.term1] at hget
    exact GF.F.noEof i hd (Option.some.inj hget).symm

/-- MAIN THEOREM (Proofs level) -/
theorem genParser_validItems {syn : List SProd} {ids : List String} {r : LRResult}
    (h : genParser syn ids = .ok r) (hn : NamesOk syn ids) (hx : CompleteNamesOk syn)
    (hsz : r.states.size ≤ 4096)
    (hp : bodyNTsProductive (ngrammarOf (augment syn) r.tables.terminals r.tables.nts) = true) :
    validItems (ngrammarOf (augment syn) r.tables.terminals r.tables.nts) r.tables (claOf r)
      (vcertOf (ngrammarOf (augment syn) r.tables.terminals r.tables.nts)) = true := by
  have GF := genFacts_of h hn hsz hx
  rw [GF.terms, GF.nts] at hp ⊢
  apply validItems_intro
  · exact prodListOk_vcert _
  · intro p hp' a ha
    rw [ngrammarOf_size] at hp'
    exact body_term_ok h hn GF hp' ha
  · intro p hp' B hB
    simp only [bodyNTsProductive, List.all_eq_true, List.mem_range] at hp
    exact hp p hp' _ hB
  · exact nullListOk_vcert _
  · exact firstListOk_vcert _
  · exact itemsJust_state GF
  · intro s t s' hact
    obtain ⟨st, sym, b, hs, ht, ha⟩ := act_entry h hact
    exact shift_valid GF hs ht ha
  · intro s t p hact
    obtain ⟨st, sym, b, hs, ht, ha⟩ := act_entry h hact
    exact reduce_valid GF hs ht ha
  · intro s t hact
    obtain ⟨st, sym, b, hs, ht, ha⟩ := act_entry h hact
    exact accept_valid GF hs ht ha
  · intro s A g hg hpos
    obtain ⟨st, X, hs, hA, hgeq⟩ := goto_entry h hg
    rcases hnx : st.next X with _ | n
    · rw [hnx] at hgeq
      simp only at hgeq
      omega
    · rw [hnx] at hgeq
      simp only at hgeq
      subst hgeq
      simpa using goto_valid GF hs hA hnx

end Gocc.GenValid
