import Gocc.Proofs.LoopsTerminateLexItems
/-
Termination of the UNBOUNDED loop `ItemSets.Closure` (internal/lexer/items/itemsets.go), modelled
by `lexLoop` on fuel — part 2: the loop.

  §1  `forIn` over a list in `Except`
  §2  `ExtL` (sets are only appended, item lists never change) for `addSet`, `expandSet`, `lexLoop`
  §3  the counting invariant `TInvL`; `size ≤ 2 ^ |lexUniv C|`
  §4  fuel: stability (results and panics), monotonicity, sharpness
-/
namespace Gocc.LoopsT

/-! ## §1 `forIn` -/

theorem forIn_except_inv {α β : Type} (P : β → Prop) (f : α → β → Except String (ForInStep β)) :
    ∀ (l : List α) (b r : β), (∀ a ∈ l, ∀ b s, P b → f a b = .ok s → P s.value) → P b →
      forIn l b f = .ok r → P r := by
  intro l
  induction l with
  | nil =>
    intro b r _ hb h
    rw [List.forIn_nil] at h
    cases h
    exact hb
  | cons a l ih =>
    intro b r hf hb h
    rw [List.forIn_cons] at h
    simp only [bind, Except.bind] at h
    split at h
    · cases h
    · rename_i s hs
      have hP := hf a (by simp) b s hb hs
      cases s with
      | done b' =>
        simp only [pure, Except.pure] at h
        cases h
        exact hP
      | yield b' =>
        exact ih b' r (fun a' ha' => hf a' (List.mem_cons_of_mem _ ha')) hP h

/-! ## §2 `ExtL` -/

def ExtL (a b : Array LState) : Prop :=
  ∀ (j : Nat) (st : LState), a[j]? = some st → ∃ st', b[j]? = some st' ∧ st'.items = st.items

theorem ExtL.refl (a : Array LState) : ExtL a a := fun _ st h => ⟨st, h, rfl⟩

theorem ExtL.trans {a b c : Array LState} (h1 : ExtL a b) (h2 : ExtL b c) : ExtL a c := by
  intro j st h
  obtain ⟨st1, g1, g2⟩ := h1 j st h
  obtain ⟨st2, k1, k2⟩ := h2 j st1 g1
  exact ⟨st2, k1, by rw [k2, g2]⟩

theorem ExtL.size_le {a b : Array LState} (h : ExtL a b) : a.size ≤ b.size := by
  cases hs : a.size with
  | zero => omega
  | succ n =>
    have hn : n < a.size := by omega
    obtain ⟨st', h', _⟩ := h n a[n] (Array.getElem?_eq_getElem hn)
    have := (Array.getElem?_eq_some_iff.1 h').1
    omega

theorem ExtL.push (a : Array LState) (s : LState) : ExtL a (a.push s) := by
  intro j st h
  have hj := (Array.getElem?_eq_some_iff.1 h).1
  refine ⟨st, ?_, rfl⟩
  rw [Array.getElem?_push, if_neg (by omega)]
  exact h

theorem modifyL_get {sets : Array LState} {i j : Nat} {f : LState → LState}
    (hf : ∀ s, (f s).items = s.items) {st' : LState} (h : (sets.modify i f)[j]? = some st') :
    ∃ st, sets[j]? = some st ∧ st'.items = st.items := by
  rw [Array.getElem?_modify] at h
  split at h
  · rcases hs : sets[j]? with _ | st
    · rw [hs] at h; cases h
    · rw [hs] at h
      simp only [Option.map_some, Option.some.injEq] at h
      subst h
      exact ⟨st, rfl, hf st⟩
  · exact ⟨st', h, rfl⟩

theorem ExtL.modify (sets : Array LState) (i : Nat) (f : LState → LState)
    (hf : ∀ s, (f s).items = s.items) : ExtL sets (sets.modify i f) := by
  intro j st h
  rw [Array.getElem?_modify]
  split
  · rw [h]; exact ⟨_, rfl, hf st⟩
  · exact ⟨st, h, rfl⟩

theorem addSet_ext {C : LexCtx} {sets s' : Array LState} {items : List LItem} {no : Nat}
    (h : addSet C sets items = .ok (s', no)) : ExtL sets s' := by
  unfold addSet at h
  split at h
  · cases h; exact ExtL.refl _
  · simp only [bind, Except.bind] at h
    split at h
    · cases h
    · simp only [pure, Except.pure] at h
      cases h
      exact ExtL.push _ _

theorem expandSet_ext {C : LexCtx} {sets r : Array LState} {i : Nat}
    (h : expandSet C sets i = .ok r) : ExtL sets r := by
  unfold expandSet at h
  simp only [bind, Except.bind] at h
  split at h
  · cases h
  · rename_i x hx
    have hloop : ExtL sets x.1 := by
      refine forIn_except_inv (fun acc : Array LState × Nat => ExtL sets acc.1) _ _ _ _ ?_
        (ExtL.refl _) hx
      intro c _ b s hb hs
      split at hs
      · cases hs
      · split at hs
        · split at hs
          · cases hs
          · rename_i v hv
            simp only [pure, Except.pure] at hs
            cases hs
            exact (hb.trans (addSet_ext (no := v.2) hv)).trans (ExtL.modify _ _ _ (fun _ => rfl))
        · simp only [pure, Except.pure] at hs
          cases hs
          exact hb
    split at h
    · cases h
    · split at h
      · split at h
        · cases h
        · rename_i v hv
          simp only [pure, Except.pure] at h
          cases h
          exact (hloop.trans (addSet_ext (no := v.2) hv)).trans (ExtL.modify _ _ _ (fun _ => rfl))
      · simp only [pure, Except.pure] at h
        cases h
        exact hloop

theorem lexLoop_ext {C : LexCtx} : ∀ (fuel i : Nat) (sets R : Array LState),
    lexLoop C fuel i sets = .ok R → ExtL sets R := by
  intro fuel
  induction fuel with
  | zero => intro i sets R h; simp only [lexLoop] at h; cases h; exact ExtL.refl _
  | succ fuel ih =>
    intro i sets R h
    unfold lexLoop at h
    split at h
    · simp only [bind, Except.bind] at h
      split at h
      · cases h
      · rename_i s hs
        exact (expandSet_ext hs).trans (ih _ _ _ h)
    · cases h; exact ExtL.refl _

/-! ## §3 the counting invariant -/

theorem sameLItems_eq_sameList (a b : List LItem) : sameLItems a b = sameList a b := rfl

structure TInvL (C : LexCtx) (sets : Array LState) : Prop where
  good : ∀ (j : Nat) (st : LState), sets[j]? = some st → GoodL C st.items
  dist : ∀ (j k : Nat) (sj sk : LState), j < k → sets[j]? = some sj → sets[k]? = some sk →
    sameLItems sj.items sk.items = false

theorem TInvL.size_le {C : LexCtx} {sets : Array LState} (h : TInvL C sets) :
    sets.size ≤ 2 ^ (lexUniv C).length := by
  have := length_le_two_pow (lexUniv C) (fun st : LState => st.items) sets.toList
    (by
      intro a ha
      obtain ⟨j, hj, rfl⟩ := List.mem_iff_getElem.1 ha
      have hj' : j < sets.size := by simpa using hj
      exact fun x hx => lgood_mem_univ ((h.good j _ (by simp [hj'])).2 x hx))
    (by
      intro a ha
      obtain ⟨j, hj, rfl⟩ := List.mem_iff_getElem.1 ha
      have hj' : j < sets.size := by simpa using hj
      exact (h.good j _ (by simp [hj'])).1)
    (by
      rw [List.pairwise_iff_getElem]
      intro i j hi hj hij
      have hi' : i < sets.size := by simpa using hi
      have hj' : j < sets.size := by simpa using hj
      rw [← sameLItems_eq_sameList]
      exact h.dist i j _ _ hij (by simp [hi']) (by simp [hj']))
  simpa using this

theorem TInvL.modify {C : LexCtx} {sets : Array LState} (h : TInvL C sets) (i : Nat)
    (f : LState → LState) (hf : ∀ s, (f s).items = s.items) : TInvL C (sets.modify i f) := by
  refine ⟨?_, ?_⟩
  · intro j st' hj
    obtain ⟨st, g1, g2⟩ := modifyL_get hf hj
    rw [g2]; exact h.good j st g1
  · intro j k sj sk hjk hj hk
    obtain ⟨st1, g1, g2⟩ := modifyL_get hf hj
    obtain ⟨st2, k1, k2⟩ := modifyL_get hf hk
    rw [g2, k2]; exact h.dist j k st1 st2 hjk g1 k1

theorem pushL_get {sets : Array LState} {s st : LState} {j : Nat}
    (h : (sets.push s)[j]? = some st) :
    (j < sets.size ∧ sets[j]? = some st) ∨ (j = sets.size ∧ st = s) := by
  rw [Array.getElem?_push] at h
  split at h
  · rename_i hj; cases h; exact .inr ⟨hj, rfl⟩
  · have := (Array.getElem?_eq_some_iff.1 h).1
    exact .inl ⟨this, h⟩

theorem TInvL.push {C : LexCtx} {sets : Array LState} (h : TInvL C sets) (s : LState)
    (hs : GoodL C s.items) (hd : ∀ st ∈ sets, sameLItems st.items s.items = false) :
    TInvL C (sets.push s) := by
  refine ⟨?_, ?_⟩
  · intro j st hj
    rcases pushL_get hj with ⟨_, g⟩ | ⟨_, rfl⟩
    · exact h.good j st g
    · exact hs
  · intro j k sj sk hjk hj hk
    rcases pushL_get hk with ⟨hlt, g⟩ | ⟨hke, rfl⟩
    · rcases pushL_get hj with ⟨_, g'⟩ | ⟨hje, _⟩
      · exact h.dist j k sj sk hjk g' g
      · omega
    · rcases pushL_get hj with ⟨_, g'⟩ | ⟨hje, _⟩
      · exact hd sj (Array.mem_of_getElem? g')
      · omega

/-- `ItemSets.Add(items)` for a list that is its own closure: the new set, if any, differs from
    all existing sets -/
theorem addSet_tinv {C : LexCtx} {sets s' : Array LState} {items : List LItem} {no : Nat}
    (h : addSet C sets items = .ok (s', no)) (hinv : TInvL C sets) (hg : GoodL C items)
    (hcl : closureL C items = .ok items) : TInvL C s' := by
  unfold addSet at h
  split at h
  · cases h; exact hinv
  · rename_i hf
    unfold newLState at h
    rw [hcl] at h
    simp only [bind, Except.bind, pure, Except.pure] at h
    cases h
    exact hinv.push _ hg (Array.findIdx?_eq_none_iff.1 hf)

theorem getBang_items_good {C : LexCtx} {sets : Array LState} (h : TInvL C sets) (i : Nat) :
    ∀ x ∈ sets[i]!.items, LGood C x := by
  by_cases hi : i < sets.size
  · rw [getElem!_pos sets i hi]
    exact (h.good i sets[i] (Array.getElem?_eq_getElem hi)).2
  · rw [getElem!_neg sets i hi]
    intro x hx
    cases hx

theorem expandSet_tinv {C : LexCtx} {sets r : Array LState} {i : Nat}
    (h : expandSet C sets i = .ok r) (hinv : TInvL C sets) : TInvL C r := by
  have hcur := getBang_items_good hinv i
  unfold expandSet at h
  simp only [bind, Except.bind] at h
  split at h
  · cases h
  · rename_i x hx
    have hloop : TInvL C x.1 := by
      refine forIn_except_inv (fun acc : Array LState × Nat => TInvL C acc.1) _ _ _ _ ?_ hinv hx
      intro c _ b s hb hs
      split at hs
      · cases hs
      · rename_i items hitems
        split at hs
        · split at hs
          · cases hs
          · rename_i v hv
            simp only [pure, Except.pure] at hs
            cases hs
            simp only [ForInStep.value]
            refine TInvL.modify ?_ _ _ ?_
            · exact addSet_tinv (no := v.2) hv hb (nextSet_good hcur hitems) (closureL_idem hitems)
            · intro s; rfl
        · simp only [pure, Except.pure] at hs
          cases hs
          exact hb
    split at h
    · cases h
    · rename_i items hitems
      split at h
      · split at h
        · cases h
        · rename_i v hv
          simp only [pure, Except.pure] at h
          cases h
          refine TInvL.modify ?_ _ _ ?_
          · exact addSet_tinv (no := v.2) hv hloop (nextDot_good hcur hitems) (closureL_idem hitems)
          · intro s; rfl
      · simp only [pure, Except.pure] at h
        cases h
        exact hloop

theorem lexLoop_tinv {C : LexCtx} : ∀ (fuel i : Nat) (sets R : Array LState),
    lexLoop C fuel i sets = .ok R → TInvL C sets → TInvL C R := by
  intro fuel
  induction fuel with
  | zero => intro i sets R h hinv; simp only [lexLoop] at h; cases h; exact hinv
  | succ fuel ih =>
    intro i sets R h hinv
    unfold lexLoop at h
    split at h
    · simp only [bind, Except.bind] at h
      split at h
      · cases h
      · rename_i s hs
        exact ih _ _ _ h (expandSet_tinv hs hinv)
    · cases h; exact hinv

theorem tinvL_init {C : LexCtx} {s0 : LState} (h : newLState C (itemsSet0 C) = .ok s0) :
    TInvL C #[s0] := by
  have hs0 : GoodL C s0.items := by
    unfold newLState at h
    simp only [bind, Except.bind] at h
    split at h
    · cases h
    · rename_i cl hcl
      simp only [pure, Except.pure] at h
      cases h
      exact closureL_good hcl (itemsSet0_good C)
  have hget : ∀ (j : Nat) (st : LState), (#[s0] : Array LState)[j]? = some st → j = 0 ∧ st = s0 := by
    intro j st hj
    have hlt := (Array.getElem?_eq_some_iff.1 hj).1
    have hj0 : j = 0 := by simp at hlt; omega
    subst hj0
    simp at hj
    exact ⟨rfl, hj.symm⟩
  refine ⟨?_, ?_⟩
  · intro j st hj
    rw [(hget j st hj).2]; exact hs0
  · intro j k sj sk hjk hj hk
    have := (hget j sj hj).1
    have := (hget k sk hk).1
    omega

/-! ## §4 fuel -/

theorem lexLoop_of_not_lt (C : LexCtx) {i : Nat} {sets : Array LState} (h : ¬ i < sets.size) :
    ∀ k, lexLoop C k i sets = .ok sets := by
  intro k
  cases k with
  | zero => rfl
  | succ k => unfold lexLoop; rw [if_neg h]

/-- if the result has at most `i + fuel` sets, the loop left through `i = len(sets)`: more fuel
    changes nothing -/
theorem lexLoop_stable (C : LexCtx) : ∀ (fuel i : Nat) (sets R : Array LState),
    lexLoop C fuel i sets = .ok R → R.size ≤ i + fuel →
      ∀ k, lexLoop C (fuel + k) i sets = .ok R := by
  intro fuel
  induction fuel with
  | zero =>
    intro i sets R h hsz k
    simp only [lexLoop] at h
    cases h
    rw [Nat.zero_add]
    exact lexLoop_of_not_lt C (by omega) k
  | succ fuel ih =>
    intro i sets R h hsz k
    rw [Nat.add_right_comm]
    unfold lexLoop at h ⊢
    split
    · rename_i hlt
      rw [if_pos hlt] at h
      simp only [bind, Except.bind] at h ⊢
      split at h
      · cases h
      · rename_i s hs
        exact ih (i + 1) s R h (by omega) k
    · rename_i hlt
      rw [if_neg hlt] at h
      exact h

/-- a panic (`Unknown production`) is reached with any larger fuel as well -/
theorem lexLoop_error_stable (C : LexCtx) : ∀ (fuel i : Nat) (sets : Array LState) (e : String),
    lexLoop C fuel i sets = .error e → ∀ k, lexLoop C (fuel + k) i sets = .error e := by
  intro fuel
  induction fuel with
  | zero => intro i sets e h; simp only [lexLoop] at h; cases h
  | succ fuel ih =>
    intro i sets e h k
    rw [Nat.add_right_comm]
    unfold lexLoop at h ⊢
    split
    · rename_i hlt
      rw [if_pos hlt] at h
      simp only [bind, Except.bind] at h ⊢
      split at h
      · exact h
      · rename_i s hs
        exact ih (i + 1) s e h k
    · rename_i hlt
      rw [if_neg hlt] at h
      cases h

/-- less fuel gives a result with at most as many sets -/
theorem lexLoop_mono (C : LexCtx) : ∀ (fuel i : Nat) (sets R' : Array LState) (k : Nat),
    lexLoop C (fuel + k) i sets = .ok R' →
      ∃ R, lexLoop C fuel i sets = .ok R ∧ R.size ≤ R'.size := by
  intro fuel
  induction fuel with
  | zero =>
    intro i sets R' k h
    rw [Nat.zero_add] at h
    exact ⟨sets, rfl, (lexLoop_ext _ _ _ _ h).size_le⟩
  | succ fuel ih =>
    intro i sets R' k h
    rw [Nat.add_right_comm] at h
    unfold lexLoop at h ⊢
    split
    · rename_i hlt
      rw [if_pos hlt] at h
      simp only [bind, Except.bind] at h ⊢
      split at h
      · cases h
      · rename_i s hs
        exact ih (i + 1) s R' k h
    · rename_i hlt
      rw [if_neg hlt] at h
      cases h
      exact ⟨sets, rfl, Nat.le_refl _⟩

/-- the result of the unbounded loop is reached with exactly as much fuel as it has sets -/
theorem lexLoop_sharp (C : LexCtx) (init R : Array LState) (N : Nat)
    (h : lexLoop C N 0 init = .ok R) (hN : R.size ≤ N) :
    ∀ fuel, R.size ≤ fuel → lexLoop C fuel 0 init = .ok R := by
  intro fuel hf
  by_cases hle : fuel ≤ N
  · obtain ⟨k, rfl⟩ : ∃ k, N = fuel + k := ⟨N - fuel, by omega⟩
    obtain ⟨R0, h0, hsz⟩ := lexLoop_mono C fuel 0 init R k h
    have := lexLoop_stable C fuel 0 init R0 h0 (by omega) k
    rw [h] at this
    cases this
    exact h0
  · obtain ⟨k, rfl⟩ : ∃ k, fuel = N + k := ⟨fuel - N, by omega⟩
    exact lexLoop_stable C N 0 init R h (by omega) k

/-- the explicit bound on the number of lexer item sets -/
def lexBound (C : LexCtx) : Nat := 2 ^ (lexUniv C).length

theorem lexBound_le (C : LexCtx) : lexBound C ≤ 2 ^ (C.fuel - 8) := by
  unfold lexBound
  apply Nat.pow_le_pow_right (by omega)
  have := lexUniv_length C
  omega

/-- (a) whatever the fuel, a result has at most `lexBound C` sets and satisfies the invariant -/
theorem lexLoop_bounded {C : LexCtx} {s0 : LState} (h0 : newLState C (itemsSet0 C) = .ok s0)
    {fuel : Nat} {R : Array LState} (h : lexLoop C fuel 0 #[s0] = .ok R) :
    TInvL C R ∧ R.size ≤ lexBound C := by
  have := lexLoop_tinv fuel 0 _ R h (tinvL_init h0)
  exact ⟨this, this.size_le⟩

/-- (b) from `fuel = lexBound C` on, the outcome (sets or panic) does not depend on the fuel -/
theorem lexLoop_fixed {C : LexCtx} {s0 : LState} (h0 : newLState C (itemsSet0 C) = .ok s0)
    (fuel : Nat) (hf : lexBound C ≤ fuel) (k : Nat) :
    lexLoop C (fuel + k) 0 #[s0] = lexLoop C fuel 0 #[s0] := by
  cases h : lexLoop C fuel 0 #[s0] with
  | error e => exact lexLoop_error_stable C fuel 0 _ e h k
  | ok R =>
    have := (lexLoop_bounded h0 h).2
    exact lexLoop_stable C fuel 0 _ R h (by omega) k

end Gocc.LoopsT
