import Gocc.Proofs.RegexSemSound
/-
C01 (regular-expression semantics), part 5: COMPLETENESS — every string the pattern matches is read by
a run of the reference automaton from the start item to the completed item.

`CPass p`: one pass through a node with pattern `p` (the root, `( p )`, `[ p ]`, `{ p }`), from its start
position (any position for `{ }`) to its end position, reads any string of `p`.  Proved by induction on
the size of `p`: choose the alternative, go through its terms (`cTerm`, `cAlt`), `Star` induction for
`{ }`.
-/
namespace Gocc
namespace RegexS

open EmovesU LexGenC

/-- the pattern of a `( )`, `[ ]`, `{ }` term -/
def subPat : LTerm → Option LPat
  | .grp p | .opt p | .rep p => some p
  | _ => none

def IsNodeOf (n : LNode) (p : LPat) : Prop := n = .pat p ∨ n = .grp p ∨ n = .opt p ∨ n = .rep p

theorem IsNodeOf.patLike {n : LNode} {p : LPat} (h : IsNodeOf n p) : isPatLike n = true := by
  rcases h with rfl | rfl | rfl | rfl <;> rfl

theorem IsNodeOf.len {n : LNode} {p : LPat} (h : IsNodeOf n p) : n.len = p.alts.length := by
  rcases h with rfl | rfl | rfl | rfl <;> rfl

theorem IsNodeOf.child {n : LNode} {p : LPat} (h : IsNodeOf n p) {m : Nat} {a : LAlt}
    (ha : p.alts[m]? = some a) : n.child m = some (.alt a) := by
  rcases h with rfl | rfl | rfl | rfl <;> simp [LNode.child, ha]

/-- one pass through a node of pattern `p` reads any string of `p` -/
def CPass (C : LexCtx) (k : Nat) (P : LProd) (p : LPat) : Prop :=
  ∀ (q : List Nat) (n : LNode) (pos : Nat) (w : List Int), node (.pat P.pat) q = some n →
    IsNodeOf n p → (pos = 0 ∨ n = .rep p) → denPat p w →
    Run C ⟨k, q ++ [pos]⟩ w ⟨k, q ++ [n.len]⟩

section
variable {C : LexCtx} {k : Nat} {P : LProd} (hP : C.prods[k]? = some P)
include hP

/-- the ε-step into alternative `m` -/
theorem enter_step {q : List Nat} {n : LNode} {p : LPat} (hn : node (.pat P.pat) q = some n)
    (hnp : IsNodeOf n p) {pos : Nat} (hok : pos = 0 ∨ n = .rep p) {m : Nat} (hm : m < p.alts.length) :
    Run C ⟨k, q ++ [pos]⟩ [] ⟨k, q ++ [m] ++ [0]⟩ := by
  have hnb : C.isBasic ⟨k, q ++ [pos]⟩ = false := by
    refine nonbasic_patlike hP hn hnp.patLike pos ?_
    intro hq
    subst hq
    simp only [node, Option.some.injEq] at hn
    subst hn
    rcases hnp with h | h | h | h <;> cases h
    rcases hok with h | h
    · omega
    · cases h
  refine Run.step_eps hnb ?_
  rcases hnp with rfl | rfl | rfl | rfl
  · have hq := node_pat_root hn
    subst hq
    have h0 : pos = 0 := by
      rcases hok with h | h
      · exact h
      · cases h
    subst h0
    have hp : LNode.pat P.pat = .pat p := by simpa [node] using hn
    cases hp
    simp only [List.nil_append]
    rw [step_root hP, if_pos rfl]
    exact List.mem_map.2 ⟨m, List.mem_range.2 hm, rfl⟩
  · have h0 : pos = 0 := by
      rcases hok with h | h
      · exact h
      · cases h
    rw [step_grp hP hn, if_pos h0]
    exact mem_enterL.2 ⟨m, hm, rfl⟩
  · have h0 : pos = 0 := by
      rcases hok with h | h
      · exact h
      · cases h
    rw [step_opt hP hn, if_pos h0]
    exact List.mem_append_left _ (mem_enterL.2 ⟨m, hm, rfl⟩)
  · rw [step_rep hP hn]
    exact List.mem_append_left _ (mem_enterL.2 ⟨m, hm, rfl⟩)

/-- the ε-step from the end of an alternative to the end of its parent -/
theorem alt_end_step {q' : List Nat} {m : Nat} {pn : LNode} {a : LAlt}
    (hpn : node (.pat P.pat) q' = some pn) (hc : pn.child m = some (.alt a)) :
    Run C ⟨k, q' ++ [m] ++ [a.terms.length]⟩ [] ⟨k, q' ++ [pn.len]⟩ := by
  have hn : node (.pat P.pat) (q' ++ [m]) = some (.alt a) := by rw [node_snoc, hpn]; exact hc
  refine Run.step_eps (nonbasic_alt hP hn _ (termAt_alt_ge (Nat.le_refl _))) ?_
  rw [step_alt_end hP hpn hn (Nat.le_refl _)]
  exact List.mem_singleton.2 rfl

/-- the ε-step from an alternative into its `( )`, `[ ]`, `{ }` term -/
theorem push_step {q : List Nat} {a : LAlt} (hn : node (.pat P.pat) q = some (.alt a)) {j : Nat}
    {t : LTerm} (ht : a.terms[j]? = some t) {p : LPat} (hs : subPat t = some p) :
    Run C ⟨k, q ++ [j]⟩ [] ⟨k, q ++ [j] ++ [0]⟩ := by
  have hj := (List.getElem?_eq_some_iff.1 ht).1
  have hta : (LNode.alt a).termAt j = none := by
    rw [termAt_alt ht]
    cases t <;> simp [subPat] at hs <;> rfl
  refine Run.step_eps (nonbasic_alt hP hn _ hta) ?_
  rw [step_alt_push hP hn hj]
  exact List.mem_singleton.2 rfl

omit hP in
theorem sub_node {q : List Nat} {a : LAlt} (hn : node (.pat P.pat) q = some (.alt a)) {j : Nat}
    {t : LTerm} (ht : a.terms[j]? = some t) {p : LPat} (hs : subPat t = some p) :
    ∃ c, node (.pat P.pat) (q ++ [j]) = some c ∧ IsNodeOf c p ∧
      (t = .grp p ∧ c = .grp p ∨ t = .opt p ∧ c = .opt p ∨ t = .rep p ∧ c = .rep p) := by
  cases t with
  | grp p' =>
    simp only [subPat, Option.some.injEq] at hs; subst hs
    exact ⟨.grp p', by rw [node_snoc, hn]; simp [LNode.child, ht], Or.inr (Or.inl rfl),
      Or.inl ⟨rfl, rfl⟩⟩
  | opt p' =>
    simp only [subPat, Option.some.injEq] at hs; subst hs
    exact ⟨.opt p', by rw [node_snoc, hn]; simp [LNode.child, ht], Or.inr (Or.inr (Or.inl rfl)),
      Or.inr (Or.inl ⟨rfl, rfl⟩)⟩
  | rep p' =>
    simp only [subPat, Option.some.injEq] at hs; subst hs
    exact ⟨.rep p', by rw [node_snoc, hn]; simp [LNode.child, ht], Or.inr (Or.inr (Or.inr rfl)),
      Or.inr (Or.inr ⟨rfl, rfl⟩)⟩
  | _ => simp [subPat] at hs

/-- the ε-step out of a `( )`, `[ ]`, `{ }` node (where the node allows it) -/
theorem post_step {q : List Nat} {j : Nat} {c : LNode} {p : LPat}
    (hc : node (.pat P.pat) (q ++ [j]) = some c) {pos : Nat}
    (hok : c = .grp p ∧ pos ≠ 0 ∨ c = .opt p ∨ c = .rep p) :
    Run C ⟨k, q ++ [j] ++ [pos]⟩ [] ⟨k, q ++ [j + 1]⟩ := by
  have hpl : isPatLike c = true := by
    rcases hok with ⟨rfl, _⟩ | rfl | rfl <;> rfl
  have hnb : C.isBasic ⟨k, q ++ [j] ++ [pos]⟩ = false :=
    nonbasic_patlike hP hc hpl pos (by intro h; simp at h)
  refine Run.step_eps hnb ?_
  rcases hok with ⟨rfl, h0⟩ | rfl | rfl
  · rw [step_grp hP hc, if_neg h0, incLast_snoc]
    exact List.mem_singleton.2 rfl
  · rw [step_opt hP hc, incLast_snoc]
    split
    · exact List.mem_append_right _ (List.mem_singleton.2 rfl)
    · exact List.mem_singleton.2 rfl
  · rw [step_rep hP hc, incLast_snoc]
    exact List.mem_append_right _ (List.mem_singleton.2 rfl)

omit hP in
theorem alts_ne_of_den {p : LPat} {w : List Int} (h : denPat p w) : p.alts.length ≠ 0 := by
  obtain ⟨m, a, hm, _⟩ := (denPat_iff p w).1 h
  have := (List.getElem?_eq_some_iff.1 hm).1
  omega

/-- `{ p }` from any position of its node, given the pass through `p` -/
theorem cRep {q : List Nat} {j : Nat} {p : LPat}
    (hc : node (.pat P.pat) (q ++ [j]) = some (.rep p)) (ih : CPass C k P p) {u : List Int}
    (hu : Star (denPat p) u) :
    ∀ pos, Run C ⟨k, q ++ [j] ++ [pos]⟩ u ⟨k, q ++ [j + 1]⟩ := by
  induction hu with
  | nil => intro pos; exact post_step hP hc (Or.inr (Or.inr rfl))
  | cons h1 _ ih2 =>
    intro pos
    exact (ih _ _ pos _ hc (Or.inr (Or.inr (Or.inr rfl))) (Or.inr rfl) h1).trans (ih2 _)

/-- one term of an alternative -/
theorem cTerm {q : List Nat} {a : LAlt} (hn : node (.pat P.pat) q = some (.alt a)) {j : Nat}
    {t : LTerm} (ht : a.terms[j]? = some t) (ih : ∀ p, subPat t = some p → CPass C k P p)
    {u : List Int} (hu : denTerm t u) : Run C ⟨k, q ++ [j]⟩ u ⟨k, q ++ [j + 1]⟩ := by
  have hrune : ∀ c, termHas t c = true → (LNode.alt a).termAt j = some t →
      Run C ⟨k, q ++ [j]⟩ [c] ⟨k, q ++ [j + 1]⟩ := by
    intro c hh hta
    refine .rune (t := t) (by rw [expected_at hP hn]; exact hta) hh ?_
    rw [adv_at]; exact .refl _
  cases t with
  | dot => rw [denTerm_dot] at hu; exact hu.elim
  | ref r => rw [denTerm_ref] at hu; exact hu.elim
  | lit c =>
    rw [denTerm_lit] at hu; subst hu
    exact hrune c (by simp [termHas]) (by rw [termAt_alt ht])
  | rng lo hi =>
    rw [denTerm_rng] at hu
    obtain ⟨c, rfl, h1, h2⟩ := hu
    exact hrune c (by simp [termHas, h1, h2]) (by rw [termAt_alt ht])
  | grp p =>
    rw [denTerm_grp] at hu
    obtain ⟨c, hc, hnp, hk⟩ := sub_node hn ht (p := p) rfl
    have hcg : c = .grp p := by
      rcases hk with ⟨_, h⟩ | ⟨h, _⟩ | ⟨h, _⟩
      · exact h
      · cases h
      · cases h
    subst hcg
    have h1 := push_step hP hn ht (p := p) rfl
    have h2 := ih p rfl _ _ 0 u hc hnp (Or.inl rfl) hu
    have h3 := post_step hP hc (p := p) (pos := (LNode.grp p).len)
      (Or.inl ⟨rfl, by simpa [LNode.len] using alts_ne_of_den hu⟩)
    simpa using (h1.trans h2).trans h3
  | opt p =>
    rw [denTerm_opt] at hu
    obtain ⟨c, hc, hnp, hk⟩ := sub_node hn ht (p := p) rfl
    have hcg : c = .opt p := by
      rcases hk with ⟨h, _⟩ | ⟨_, h⟩ | ⟨h, _⟩
      · cases h
      · exact h
      · cases h
    subst hcg
    have h1 := push_step hP hn ht (p := p) rfl
    rcases hu with rfl | hu
    · simpa using h1.trans (post_step hP hc (p := p) (pos := 0) (Or.inr (Or.inl rfl)))
    · have h2 := ih p rfl _ _ 0 u hc hnp (Or.inl rfl) hu
      have h3 := post_step hP hc (p := p) (pos := (LNode.opt p).len) (Or.inr (Or.inl rfl))
      simpa using (h1.trans h2).trans h3
  | rep p =>
    rw [denTerm_rep] at hu
    obtain ⟨c, hc, hnp, hk⟩ := sub_node hn ht (p := p) rfl
    have hcg : c = .rep p := by
      rcases hk with ⟨h, _⟩ | ⟨h, _⟩ | ⟨_, h⟩
      · cases h
      · cases h
      · exact h
    subst hcg
    have h1 := push_step hP hn ht (p := p) rfl
    simpa using h1.trans (cRep hP hc (ih p rfl) hu 0)

/-- the rest of an alternative from position `j` -/
theorem cAlt {q : List Nat} {a : LAlt} (hn : node (.pat P.pat) q = some (.alt a))
    (ih : ∀ (j : Nat) (t : LTerm) (p : LPat), a.terms[j]? = some t → subPat t = some p → CPass C k P p) :
    ∀ (d j : Nat) (w : List Int), j + d = a.terms.length → denTerms (a.terms.drop j) w →
      Run C ⟨k, q ++ [j]⟩ w ⟨k, q ++ [a.terms.length]⟩ := by
  intro d
  induction d with
  | zero =>
    intro j w hj hw
    have : j = a.terms.length := by omega
    subst this
    rw [(denTerms_drop_ge (Nat.le_refl _) w).1 hw]
    exact .refl _
  | succ d ihd =>
    intro j w hj hw
    have hlt : j < a.terms.length := by omega
    have ht : a.terms[j]? = some a.terms[j] := List.getElem?_eq_getElem hlt
    obtain ⟨u, v, rfl, hu, hv⟩ := (denTerms_drop ht w).1 hw
    exact (cTerm hP hn ht (fun p hs => ih j _ p ht hs) hu).trans (ihd (j + 1) v (by omega) hv)

/-- the pass through a node, given the passes through the patterns nested in it -/
theorem cPass_step {p : LPat}
    (ih : ∀ (m : Nat) (a : LAlt) (j : Nat) (t : LTerm) (p' : LPat), p.alts[m]? = some a →
      a.terms[j]? = some t → subPat t = some p' → CPass C k P p') : CPass C k P p := by
  intro q n pos w hn hnp hok hw
  obtain ⟨m, a, hm, ha⟩ := (denPat_iff p w).1 hw
  have hmlt := (List.getElem?_eq_some_iff.1 hm).1
  have hc := hnp.child hm
  have hna : node (.pat P.pat) (q ++ [m]) = some (.alt a) := by rw [node_snoc, hn]; exact hc
  have h1 := enter_step hP hn hnp hok hmlt
  have h2 := cAlt hP hna (fun j t p' ht hs => ih m a j t p' hm ht hs) a.terms.length 0 w (by omega)
    (by simpa using ha)
  have h3 := alt_end_step hP hn hc
  simpa using (h1.trans h2).trans h3

end

/-! ### induction on the size of the pattern -/

theorem sub_size {p p' : LPat} {m j : Nat} {a : LAlt} {t : LTerm} (hm : p.alts[m]? = some a)
    (ht : a.terms[j]? = some t) (hs : subPat t = some p') : p'.size < p.size := by
  cases p with
  | mk alts =>
    cases a with
    | mk ts =>
      have h1 := altSize_le_sizeAlts alts m _ hm
      have h2 := termSize_le_sizeTerms ts j t ht
      have h3 : 1 + p'.size = termSize t := by
        cases t <;> simp [subPat] at hs <;> subst hs <;> rfl
      simp only [altSize] at h1
      simp only [LPat.size]
      omega

theorem cPass {C : LexCtx} {k : Nat} {P : LProd} (hP : C.prods[k]? = some P) :
    ∀ (N : Nat) (p : LPat), p.size ≤ N → CPass C k P p := by
  intro N
  induction N with
  | zero =>
    intro p hp
    exact cPass_step hP (fun m a j t p' hm ht hs => by have := sub_size hm ht hs; omega)
  | succ N ih =>
    intro p hp
    exact cPass_step hP (fun m a j t p' hm ht hs => ih p' (by have := sub_size hm ht hs; omega))

/-- COMPLETENESS of runs: a string of the pattern is read from the start item to the completed item -/
theorem run_of_den {C : LexCtx} {k : Nat} {P : LProd} (hP : C.prods[k]? = some P) {w : List Int}
    (h : denPat P.pat w) : Run C ⟨k, [0]⟩ w ⟨k, [P.pat.alts.length]⟩ := by
  have := cPass hP _ P.pat (Nat.le_refl _) [] (.pat P.pat) 0 w rfl (Or.inl rfl) (Or.inl rfl) h
  simpa [LNode.len] using this

end RegexS
end Gocc
