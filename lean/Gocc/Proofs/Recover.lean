import Gocc.Spec.Recover
import Gocc.Proofs.Validate
/-
Error recovery of the generated parser (`recover`, Model/Parse.lean) meets its specification
(Spec/Recover.lean); consequences for the `Parse` loop.

  §1  the specification functions: `recWFb_iff`, `firstEOF_spec`, `firstAcceptable_eq_some_iff`,
      `firstAcceptable_eq_none_iff`, `attrToksL` lemmas
  §2  `firstRecovery` is `topRecovery`; the skip loop (`skipLoop_spec`)
  §3  `recover_spec` (complete characterisation under `RecWF`), `recover_true` (any tables)
  §4  panics: which strings `step` can produce
  §5  token conservation (`TokInv`)
  §6  recovery is inert as long as no action lookup fails
-/
namespace Gocc

/-! ### §1 the specification functions -/

theorem canRecover_lt {T : PTables} {s : Nat} (h : T.canRecover[s]?.getD false = true) :
    s < T.canRecover.size := by
  rcases hx : T.canRecover[s]? with _ | b
  · simp [hx] at h
  · exact (Array.getElem?_eq_some_iff.mp hx).1

theorem recWFb_iff (T : PTables) (e : Nat) : recWFb T e = true ↔ RecWF T e := by
  simp only [recWFb, RecWF, List.all_eq_true, List.mem_range, Bool.or_eq_true, Bool.not_eq_true']
  constructor
  · intro h s hs
    rcases h s (canRecover_lt hs) with h1 | h1
    · rw [hs] at h1; cases h1
    · split at h1
      · exact ⟨_, by assumption⟩
      · cases h1
  · intro h s _
    rcases hc : T.canRecover[s]?.getD false with _ | _
    · exact .inl rfl
    · obtain ⟨s', hs'⟩ := h s hc
      right; rw [hs']

theorem lookAhead_succ (input : List Nat) (tok : Nat × Nat) (ntok i : Nat) :
    lookAhead input tok ntok (i + 1) = lookAhead input (scanTok input ntok) (ntok + 1) i := by
  cases i with
  | zero => simp [lookAhead]
  | succ i => simp only [lookAhead]; congr 1; omega

theorem lookAheads_length (input : List Nat) (tok : Nat × Nat) (ntok : Nat) :
    (lookAheads input tok ntok).length = input.length + 2 := by simp [lookAheads]

theorem lookAheads_getElem (input : List Nat) (tok : Nat × Nat) (ntok i : Nat)
    (h : i < (lookAheads input tok ntok).length) :
    (lookAheads input tok ntok)[i] = lookAhead input tok ntok i := by simp [lookAheads]

theorem scanTok_snd_of_le {input : List Nat} {k : Nat} (h : input.length ≤ k) :
    (scanTok input k).2 = 1 := by
  unfold scanTok
  rw [List.getElem?_eq_none_iff.mpr h]

/-- `firstEOF` is the number of the first end-of-input token; it exists -/
theorem firstEOF_spec (input : List Nat) (tok : Nat × Nat) (ntok : Nat) :
    firstEOF input tok ntok < input.length + 2 ∧
    (lookAhead input tok ntok (firstEOF input tok ntok)).2 = 1 ∧
    ∀ i, i < firstEOF input tok ntok → (lookAhead input tok ntok i).2 ≠ 1 := by
  have hlt : List.findIdx (fun t => t.2 == 1) (lookAheads input tok ntok) <
      (lookAheads input tok ntok).length := by
    rw [List.findIdx_lt_length]
    refine ⟨lookAhead input tok ntok (input.length + 1), ?_, ?_⟩
    · simp only [lookAheads, List.mem_map, List.mem_range]
      exact ⟨input.length + 1, by omega, rfl⟩
    · simp only [lookAhead, beq_iff_eq]
      exact scanTok_snd_of_le (by omega)
  refine ⟨by rw [lookAheads_length] at hlt; exact hlt, ?_, ?_⟩
  · have := List.findIdx_getElem (w := hlt)
    unfold firstEOF
    simp only [lookAheads_getElem, beq_iff_eq] at this
    exact this
  · intro i hi
    unfold firstEOF at hi
    have := List.not_of_lt_findIdx hi
    simp only [lookAheads_getElem, beq_eq_false_iff_ne] at this
    exact this

theorem firstEOF_unique {input : List Nat} {tok : Nat × Nat} {ntok j : Nat}
    (h1 : (lookAhead input tok ntok j).2 = 1) (h2 : ∀ i, i < j → (lookAhead input tok ntok i).2 ≠ 1) :
    firstEOF input tok ntok = j := by
  obtain ⟨-, e1, e2⟩ := firstEOF_spec input tok ntok
  rcases Nat.lt_trichotomy (firstEOF input tok ntok) j with h | h | h
  · exact absurd e1 (h2 _ h)
  · exact h
  · exact absurd h1 (e2 _ h)

theorem window_getElem (input : List Nat) (tok : Nat × Nat) (ntok i : Nat)
    (h : i < ((lookAheads input tok ntok).take (firstEOF input tok ntok + 1)).length) :
    ((lookAheads input tok ntok).take (firstEOF input tok ntok + 1))[i] = lookAhead input tok ntok i := by
  rw [List.getElem_take, lookAheads_getElem]

theorem window_length (input : List Nat) (tok : Nat × Nat) (ntok : Nat) :
    ((lookAheads input tok ntok).take (firstEOF input tok ntok + 1)).length =
      firstEOF input tok ntok + 1 := by
  have := (firstEOF_spec input tok ntok).1
  rw [List.length_take, lookAheads_length]; omega

/-- `firstAcceptable = some (j, t)`: `t` is token number `j`, it has an action, no earlier token
    has one, and no earlier token is end of input -/
theorem firstAcceptable_eq_some_iff {T : PTables} {input : List Nat} {s : Nat} {tok : Nat × Nat}
    {ntok j : Nat} {t : Nat × Nat} :
    firstAcceptable T input s tok ntok = some (j, t) ↔
      t = lookAhead input tok ntok j ∧ (T.act s t.2).isSome = true ∧
      ∀ i, i < j → T.act s (lookAhead input tok ntok i).2 = none ∧ (lookAhead input tok ntok i).2 ≠ 1 := by
  obtain ⟨-, e1, e2⟩ := firstEOF_spec input tok ntok
  simp only [firstAcceptable, Option.map_eq_some_iff, Prod.mk.injEq,
    List.findIdx?_eq_some_iff_getElem]
  constructor
  · rintro ⟨j', ⟨hlt, hp, hnp⟩, rfl, rfl⟩
    rw [window_getElem] at hp
    refine ⟨rfl, hp, fun i hi => ?_⟩
    have := hnp i hi
    rw [window_getElem] at this
    rw [window_length] at hlt
    exact ⟨by simpa using this, e2 i (by omega)⟩
  · rintro ⟨rfl, hp, hnp⟩
    have hj : j < firstEOF input tok ntok + 1 := by
      apply Nat.lt_of_not_le
      intro hle
      exact (hnp _ hle).2 e1
    refine ⟨j, ⟨by rw [window_length]; exact hj, ?_, ?_⟩, rfl, rfl⟩
    · rw [window_getElem]; exact hp
    · intro i hi
      rw [window_getElem]
      simp [(hnp i hi).1]

/-- `firstAcceptable = none`: no token up to and including the first end of input has an action -/
theorem firstAcceptable_eq_none_iff {T : PTables} {input : List Nat} {s : Nat} {tok : Nat × Nat}
    {ntok : Nat} :
    firstAcceptable T input s tok ntok = none ↔
      ∀ i, i ≤ firstEOF input tok ntok → T.act s (lookAhead input tok ntok i).2 = none := by
  simp only [firstAcceptable, Option.map_eq_none_iff, List.findIdx?_eq_none_iff]
  constructor
  · intro h i hi
    have hlt : i < ((lookAheads input tok ntok).take (firstEOF input tok ntok + 1)).length := by
      rw [window_length]; omega
    have := h _ (List.getElem_mem hlt)
    rw [window_getElem] at this
    simpa using this
  · intro h x hx
    obtain ⟨i, hlt, rfl⟩ := List.getElem_of_mem hx
    rw [window_getElem]
    rw [window_length] at hlt
    simp [h i (by omega)]

theorem attrToksL_append (a b : List Attr) : attrToksL (a ++ b) = attrToksL a ++ attrToksL b := by
  induction a with
  | nil => simp [attrToksL]
  | cons x xs ih => simp [attrToksL, ih]

theorem attrToksL_eq_flatten (l : List Attr) : attrToksL l = (l.map attrToks).flatten := by
  induction l with
  | nil => simp [attrToksL]
  | cons x xs ih => simp [attrToksL, ih]

theorem attrToks_sublist_of_mem {a : Attr} {l : List Attr} (h : a ∈ l) :
    (attrToks a).Sublist (attrToksL l) := by
  induction l with
  | nil => cases h
  | cons x xs ih =>
    simp only [attrToksL]
    rcases List.mem_cons.mp h with rfl | h
    · exact List.sublist_append_left _ _
    · exact (ih h).trans (List.sublist_append_right _ _)

/-! ### §2 the code's helpers meet the specification -/

theorem firstRecovery_eq (T : PTables) (l : List Nat) (k : Nat) :
    firstRecovery T l k = (topRecovery T l).map (· + k) := by
  induction l generalizing k with
  | nil => rfl
  | cons s rest ih =>
    cases rest with
    | nil =>
      simp only [firstRecovery, topRecovery, List.findIdx?_cons, List.findIdx?_nil, Option.map_none]
      split <;> simp
    | cons s2 rest =>
      simp only [firstRecovery, ih, topRecovery]
      rw [List.findIdx?_cons (x := s)]
      split
      · simp
      · simp only [Option.map_map]
        congr 1
        funext i
        simp only [Function.comp]
        omega

theorem topRecovery_some {T : PTables} {l : List Nat} {k : Nat} (h : topRecovery T l = some k) :
    ∃ r rest, l.drop k = r :: rest ∧ T.canRecover[r]?.getD false = true ∧
      ∀ s ∈ l.take k, T.canRecover[s]?.getD false = false := by
  unfold topRecovery at h
  obtain ⟨hlt, hp, hnp⟩ := List.findIdx?_eq_some_iff_getElem.mp h
  refine ⟨l[k], l.drop (k + 1), List.drop_eq_getElem_cons hlt, hp, ?_⟩
  intro s hs
  obtain ⟨i, hi, rfl⟩ := List.getElem_of_mem hs
  rw [List.getElem_take]
  have := hnp i (by simp at hi; omega)
  simpa using this

theorem topRecovery_none {T : PTables} {l : List Nat} (h : topRecovery T l = none) :
    ∀ s ∈ l, T.canRecover[s]?.getD false = false :=
  List.findIdx?_eq_none_iff.mp h

/-- the skip loop, started with enough fuel, stops at token number `j` of the look-ahead stream:
    no earlier token is end of input, none of the tokens `1 … j-1` has an action; it reports
    "recovered" iff it stopped because token `j ≥ 1` has an action, otherwise token `j` is end
    of input -/
theorem skipLoop_spec (T : PTables) (input : List Nat) (top : Nat) :
    ∀ (fuel : Nat) (nt : Nat × Nat) (ntok : Nat),
      input.length + 1 ≤ fuel + ntok → (0 < fuel ∨ nt.2 = 1) →
      ∃ j, (skipLoop T input top fuel nt ntok).2.1 = lookAhead input nt ntok j ∧
        (skipLoop T input top fuel nt ntok).2.2 = ntok + j ∧
        (∀ i, i < j → (lookAhead input nt ntok i).2 ≠ 1) ∧
        (∀ i, 0 < i → i < j → T.act top (lookAhead input nt ntok i).2 = none) ∧
        (if (skipLoop T input top fuel nt ntok).1 = true then
            0 < j ∧ (T.act top (lookAhead input nt ntok j).2).isSome = true
         else (lookAhead input nt ntok j).2 = 1 ∧
            (0 < j → T.act top (lookAhead input nt ntok j).2 = none)) := by
  intro fuel
  induction fuel with
  | zero =>
    intro nt ntok _ h2
    refine ⟨0, rfl, rfl, by omega, by omega, ?_⟩
    simp only [skipLoop, Bool.false_eq_true, if_false, lookAhead]
    exact ⟨by omega, by omega⟩
  | succ f ih =>
    intro nt ntok h1 _
    unfold skipLoop
    by_cases hnt : nt.2 = 1
    · simp only [hnt, beq_self_eq_true, if_true]
      refine ⟨0, rfl, rfl, by omega, by omega, ?_⟩
      simp only [Bool.false_eq_true, if_false, lookAhead]
      exact ⟨hnt, by omega⟩
    · have hb : (nt.2 == 1) = false := by simpa using hnt
      simp only [hb, Bool.false_eq_true, if_false]
      by_cases ha : (T.act top (scanTok input ntok).2).isSome = true
      · simp only [ha, if_true]
        refine ⟨1, rfl, rfl, ?_, by omega, ?_⟩
        · intro i hi
          have : i = 0 := by omega
          subst this
          exact hnt
        · exact ⟨by omega, ha⟩
      · simp only [ha, Bool.false_eq_true, if_false]
        have ha' : T.act top (scanTok input ntok).2 = none := by simpa using ha
        obtain ⟨j, e1, e2, e3, e4, e5⟩ := ih (scanTok input ntok) (ntok + 1) (by omega) (by
          rcases Nat.eq_zero_or_pos f with h0 | h0
          · right; exact scanTok_snd_of_le (by omega)
          · left; exact h0)
        refine ⟨j + 1, ?_, ?_, ?_, ?_, ?_⟩
        · rw [lookAhead_succ]; exact e1
        · rw [e2]; omega
        · intro i hi
          cases i with
          | zero => exact hnt
          | succ i => rw [lookAhead_succ]; exact e3 i (by omega)
        · intro i h0 hi
          cases i with
          | zero => omega
          | succ i =>
            rw [lookAhead_succ]
            cases i with
            | zero => exact ha'
            | succ i => exact e4 _ (by omega) (by omega)
        · rw [lookAhead_succ]
          split
          · rename_i hr
            rw [if_pos hr] at e5
            exact ⟨by omega, e5.2⟩
          · rename_i hr
            rw [if_neg hr] at e5
            refine ⟨e5.1, fun _ => ?_⟩
            cases j with
            | zero => exact ha'
            | succ j => exact e5.2 (by omega)

/-- skipping: the check of the offending token followed by the skip loop -/
def skipRes (T : PTables) (input : List Nat) (s : Nat) (tok : Nat × Nat) (ntok : Nat) :
    Bool × (Nat × Nat) × Nat :=
  if (T.act s tok.2).isSome then (true, tok, ntok)
  else skipLoop T input s (input.length + 2) tok ntok

theorem skipRes_spec (T : PTables) (input : List Nat) (s : Nat) (tok : Nat × Nat) (ntok : Nat) :
    skipRes T input s tok ntok =
      match firstAcceptable T input s tok ntok with
      | some (j, t) => (true, t, ntok + j)
      | none => (false, lookAhead input tok ntok (firstEOF input tok ntok),
          ntok + firstEOF input tok ntok) := by
  unfold skipRes
  by_cases h0 : (T.act s tok.2).isSome = true
  · have : firstAcceptable T input s tok ntok = some (0, tok) :=
      firstAcceptable_eq_some_iff.mpr ⟨rfl, h0, by omega⟩
    simp [this, h0]
  · have h0' : T.act s (lookAhead input tok ntok 0).2 = none := by simpa [lookAhead] using h0
    rw [if_neg h0]
    obtain ⟨j, e1, e2, e3, e4, e5⟩ := skipLoop_spec T input s (input.length + 2) tok ntok
      (by omega) (.inl (by omega))
    have hlt : ∀ i, i < j → T.act s (lookAhead input tok ntok i).2 = none := by
      intro i hi
      cases i with
      | zero => exact h0'
      | succ i => exact e4 _ (by omega) hi
    rcases hr : skipLoop T input s (input.length + 2) tok ntok with ⟨b, nt', ntok'⟩
    rw [hr] at e1 e2 e5
    simp only at e1 e2 e5
    subst e1 e2
    cases b with
    | true =>
      simp only [if_true] at e5
      have : firstAcceptable T input s tok ntok = some (j, lookAhead input tok ntok j) :=
        firstAcceptable_eq_some_iff.mpr ⟨rfl, e5.2, fun i hi => ⟨hlt i hi, e3 i hi⟩⟩
      simp [this]
    | false =>
      simp only [Bool.false_eq_true, if_false] at e5
      have he := firstEOF_unique e5.1 e3
      have : firstAcceptable T input s tok ntok = none := by
        rw [firstAcceptable_eq_none_iff, he]
        intro i hi
        rcases Nat.lt_or_eq_of_le hi with hi | rfl
        · exact hlt i hi
        · cases i with
          | zero => exact h0'
          | succ i => exact e5.2 (by omega)
      simp [this, he]

/-! ### §3 `recover` -/

theorem recover_none {T : PTables} {e : Nat} {input : List Nat} {ps : PState}
    (htr : topRecovery T ps.states = none) (hne : ps.states ≠ []) :
    recover T e input ps = .ok (false, ps.next, ps) := by
  unfold recover
  rw [firstRecovery_eq, htr]
  rcases hst : ps.states with _ | ⟨top, rest⟩
  · exact absurd hst hne
  · have := topRecovery_none htr top (by simp [hst])
    simp only [Option.map_none, this, Bool.not_false, if_true]
    congr
    exact hst.symm

theorem recover_some {T : PTables} {e : Nat} {input : List Nat} {ps : PState} {k r : Nat}
    {rest : List Nat} (htr : topRecovery T ps.states = some k) (hd : ps.states.drop k = r :: rest) :
    recover T e input ps =
      match T.act r e with
      | none => .ok (false, ps.next, { ps with states := r :: rest, attrs := ps.attrs.drop k })
      | some (.shift s') =>
        .ok ((skipRes T input s' ps.next ps.ntok).1, ps.next,
          { ps with states := s' :: r :: rest,
                    attrs := Attr.err ps.next.1 ps.next.2 (ps.attrs.take k).reverse (T.rowExpected r) ::
                      ps.attrs.drop k,
                    next := (skipRes T input s' ps.next ps.ntok).2.1,
                    ntok := (skipRes T input s' ps.next ps.ntok).2.2 })
      | some _ => .error "interface conversion: parser.action is not parser.shift" := by
  obtain ⟨r', rest', hd', hc, -⟩ := topRecovery_some htr
  rw [hd] at hd'
  cases hd'
  unfold recover
  rw [firstRecovery_eq, htr]
  simp only [Option.map_some, Nat.add_zero, hd, hc, Bool.not_true, Bool.false_eq_true, if_false]
  rcases ha : T.act r e with _ | a
  · rfl
  · cases a with
    | shift s' =>
      simp only [skipRes]
      split <;> rfl
    | reduce p => rfl
    | accept => rfl

/-- (a) the complete characterisation of `Error` -/
theorem recover_spec {T : PTables} {e : Nat} (hwf : RecWF T e) (input : List Nat) {ps : PState}
    (hne : ps.states ≠ []) :
    ∃ b tok ps', recover T e input ps = .ok (b, tok, ps') ∧ RecoverSpec T e input ps b tok ps' := by
  unfold RecoverSpec
  rcases htr : topRecovery T ps.states with _ | k
  · exact ⟨_, _, _, recover_none htr hne, rfl, rfl, rfl, rfl, rfl, rfl, rfl, rfl⟩
  · obtain ⟨r, rest, hd, hc, -⟩ := topRecovery_some htr
    obtain ⟨s', hs'⟩ := hwf r hc
    have hrec := recover_some (e := e) (input := input) htr hd
    rw [hs'] at hrec
    simp only at hrec
    refine ⟨_, _, _, hrec, rfl, rfl, rfl, r, rest, s', hd, hs', by rw [hd], rfl, ?_⟩
    simp only [skipRes_spec]
    rcases firstAcceptable T input s' ps.next ps.ntok with _ | ⟨j, t⟩
    · exact ⟨rfl, rfl, rfl⟩
    · exact ⟨rfl, rfl, rfl⟩

/-- the specification determines the result -/
theorem RecoverSpec.unique {T : PTables} {e : Nat} {input : List Nat} {ps : PState}
    {b1 b2 : Bool} {t1 t2 : Nat × Nat} {p1 p2 : PState}
    (h1 : RecoverSpec T e input ps b1 t1 p1) (h2 : RecoverSpec T e input ps b2 t2 p2) :
    b1 = b2 ∧ t1 = t2 ∧ p1 = p2 := by
  unfold RecoverSpec at h1 h2
  obtain ⟨a1, a2, a3, a4⟩ := h1
  obtain ⟨c1, c2, c3, c4⟩ := h2
  obtain ⟨st1, at1, n1, k1, l1, cl1⟩ := p1
  obtain ⟨st2, at2, n2, k2, l2, cl2⟩ := p2
  simp only at a2 a3 a4 c2 c3 c4
  subst a1 c1 a2 c2 a3 c3
  rcases htr : topRecovery T ps.states with _ | k
  · rw [htr] at a4 c4
    simp only at a4 c4
    obtain ⟨rfl, rfl, rfl, rfl, rfl⟩ := a4
    obtain ⟨rfl, rfl, rfl, rfl, rfl⟩ := c4
    exact ⟨rfl, rfl, rfl⟩
  · rw [htr] at a4 c4
    simp only at a4 c4
    obtain ⟨r1, rest1, s1, d1, x1, rfl, rfl, y1⟩ := a4
    obtain ⟨r2, rest2, s2, d2, x2, rfl, rfl, y2⟩ := c4
    rw [d1] at d2
    cases d2
    rw [x1] at x2
    cases x2
    rcases hf : firstAcceptable T input s1 ps.next ps.ntok with _ | ⟨j, t⟩
    · rw [hf] at y1 y2
      simp only at y1 y2
      obtain ⟨rfl, rfl, rfl⟩ := y1
      obtain ⟨rfl, rfl, rfl⟩ := y2
      exact ⟨rfl, rfl, rfl⟩
    · rw [hf] at y1 y2
      simp only at y1 y2
      obtain ⟨rfl, rfl, rfl⟩ := y1
      obtain ⟨rfl, rfl, rfl⟩ := y2
      exact ⟨rfl, rfl, rfl⟩

theorem recover_nil {T : PTables} {e : Nat} {input : List Nat} {ps : PState} (h : ps.states = []) :
    recover T e input ps = .error "empty stack" := by
  unfold recover
  rw [h]
  rfl

/-- `Error` reports "recovered" only after popping to a recovery state, shifting `error` and
    finding a token that has an action in the new state (no hypothesis on the tables) -/
theorem recover_true {T : PTables} {e : Nat} {input : List Nat} {ps ps' : PState} {tok : Nat × Nat}
    (h : recover T e input ps = .ok (true, tok, ps')) :
    ∃ k r rest s' j, topRecovery T ps.states = some k ∧ ps.states.drop k = r :: rest ∧
      T.act r e = some (.shift s') ∧ ps'.states = s' :: r :: rest ∧
      ps'.attrs = Attr.err ps.next.1 ps.next.2 (ps.attrs.take k).reverse (T.rowExpected r) ::
        ps.attrs.drop k ∧
      ps'.next = lookAhead input ps.next ps.ntok j ∧ ps'.ntok = ps.ntok + j ∧
      (T.act s' ps'.next.2).isSome = true ∧
      (∀ i, i < j → T.act s' (lookAhead input ps.next ps.ntok i).2 = none ∧
        (lookAhead input ps.next ps.ntok i).2 ≠ 1) ∧
      ps'.log = ps.log ∧ ps'.calls = ps.calls := by
  by_cases hne : ps.states = []
  · rw [recover_nil hne] at h; cases h
  rcases htr : topRecovery T ps.states with _ | k
  · rw [recover_none htr hne] at h; cases h
  · obtain ⟨r, rest, hd, hc, -⟩ := topRecovery_some htr
    rw [recover_some htr hd] at h
    rcases ha : T.act r e with _ | a
    · rw [ha] at h; cases h
    · rw [ha] at h
      cases a with
      | reduce p => cases h
      | accept => cases h
      | shift s' =>
        simp only [skipRes_spec, Except.ok.injEq, Prod.mk.injEq] at h
        obtain ⟨h1, -, rfl⟩ := h
        rcases hf : firstAcceptable T input s' ps.next ps.ntok with _ | ⟨j, t⟩
        · rw [hf] at h1; cases h1
        · obtain ⟨rfl, f2, f3⟩ := firstAcceptable_eq_some_iff.mp hf
          exact ⟨k, r, rest, s', j, rfl, hd, ha, rfl, rfl, rfl, rfl, f2, f3, rfl, rfl⟩

/-! ### §4 panics -/

def ifaceShift : String := "interface conversion: parser.action is not parser.shift"

/-- the run-time errors of the loop outside error recovery -/
def stepPanics : List String :=
  ["empty stack", "index out of range (token type)", "slice bounds out of range",
   "index out of range", "index out of range [-1]", "interface conversion: not *token.Token",
   "unknown shape"]

theorem recover_error {T : PTables} {e : Nat} {input : List Nat} {ps : PState} {why : String}
    (h : recover T e input ps = .error why) :
    why = "empty stack" ∨ (why = ifaceShift ∧ ¬ RecWF T e) := by
  by_cases hne : ps.states = []
  · rw [recover_nil hne] at h; cases h; exact .inl rfl
  rcases htr : topRecovery T ps.states with _ | k
  · rw [recover_none htr hne] at h; cases h
  · obtain ⟨r, rest, hd, hc, -⟩ := topRecovery_some htr
    rw [recover_some htr hd] at h
    have hnw : ∀ a, T.act r e = some a → (∀ s', a ≠ .shift s') → ¬ RecWF T e := by
      intro a ha hns hwf
      obtain ⟨s', hs'⟩ := hwf r hc
      rw [ha] at hs'
      cases hs'
      exact hns _ rfl
    rcases ha : T.act r e with _ | a
    · rw [ha] at h; cases h
    · rw [ha] at h
      cases a with
      | shift s' => cases h
      | reduce p => cases h; exact .inr ⟨rfl, hnw _ ha (by intro _ h; cases h)⟩
      | accept => cases h; exact .inr ⟨rfl, hnw _ ha (by intro _ h; cases h)⟩

/-- a successful lookup: either the action exists, or recovery succeeded and found one -/
theorem lookupAct_ok {T : PTables} {e : Nat} {w : List Nat} {ps ps1 : PState} {top : Nat} {a : Act}
    (h : lookupAct T e w ps top = .ok (a, ps1)) :
    (ps1 = ps ∧ T.act top ps.next.2 = some a) ∨
    (T.act top ps.next.2 = none ∧ ∃ tok t' rest', recover T e w ps = .ok (true, tok, ps1) ∧
      ps1.states = t' :: rest' ∧ T.act t' ps1.next.2 = some a) := by
  unfold lookupAct at h
  rcases hact : T.act top ps.next.2 with _ | a'
  · rw [hact] at h
    simp only at h
    rcases hrec : recover T e w ps with why | ⟨_ | _, tok, ps'⟩
    · rw [hrec] at h; cases h
    · rw [hrec] at h; simp only at h; split at h <;> cases h
    · rw [hrec] at h
      simp only at h
      rcases hst : ps'.states with _ | ⟨t', rest'⟩
      · rw [hst] at h; cases h
      · rw [hst] at h
        simp only at h
        rcases ha : T.act t' ps'.next.2 with _ | a2
        · rw [ha] at h; cases h
        · rw [ha] at h; cases h; exact .inr ⟨rfl, tok, t', rest', rfl, hst, ha⟩
  · rw [hact] at h; cases h; exact .inl ⟨rfl, rfl⟩

theorem lookupAct_panic {T : PTables} {e : Nat} {w : List Nat} {ps ps' : PState} {top : Nat}
    {why : String} (h : lookupAct T e w ps top = .error (.panic why, ps')) :
    why = "empty stack" ∨ (why = ifaceShift ∧ ¬ RecWF T e) := by
  unfold lookupAct at h
  rcases hact : T.act top ps.next.2 with _ | a'
  · rw [hact] at h
    simp only at h
    rcases hrec : recover T e w ps with why' | ⟨_ | _, tok, ps1⟩
    · rw [hrec] at h; cases h; exact recover_error hrec
    · rw [hrec] at h
      simp only at h
      split at h
      · cases h
      · cases h; exact .inl rfl
    · rw [hrec] at h
      simp only at h
      obtain ⟨k, r, rest, s', j, -, -, -, hst, -, -, -, hsome, -⟩ := recover_true hrec
      rw [hst] at h
      simp only at h
      rcases ha : T.act s' ps1.next.2 with _ | a2
      · rw [ha] at hsome; cases hsome
      · rw [ha] at h; cases h
  · rw [hact] at h; cases h

theorem userAction_error {shape id : Nat} {X : List Attr} {why : String}
    (h : userAction shape id X = .error why) : why ∈ stepPanics := by
  unfold userAction at h
  repeat' split at h
  all_goals cases h
  all_goals simp [stepPanics]

theorem reduceRes_error {cfg : PCfg} {p : Nat} {X : List Attr} {ps : PState} {why : String}
    (h : reduceRes cfg p X ps = .error (some why)) : why ∈ stepPanics := by
  unfold reduceRes at h
  split at h
  · split at h
    · cases h
    · cases h; simp [stepPanics]
  · cases h
  · simp only at h
    split at h
    · cases h
    · rcases hu : userAction _ _ X with why' | b
      · rw [hu] at h; cases h; exact userAction_error hu
      · rw [hu] at h; cases h

theorem doAct_panic {cfg : PCfg} {w : List Nat} {a : Act} {ps ps' : PState} {why : String}
    (h : doAct cfg w a ps = .done (.panic why) ps') : why ∈ stepPanics := by
  cases a with
  | accept =>
    simp only [doAct] at h
    split at h
    · cases h
    · cases h; simp [stepPanics]
  | shift s => cases h
  | reduce p =>
    simp only [doAct] at h
    split at h
    · cases h; simp [stepPanics]
    · rcases hres : reduceRes cfg p (List.take (cfg.T.prodLen[p]?.getD 0) ps.attrs).reverse ps with
        (_ | why') | ⟨b, ps2⟩
      · rw [hres] at h
        simp only at h
        split at h
        · cases h
        · cases h; simp [stepPanics]
      · rw [hres] at h; cases h; exact reduceRes_error hres
      · rw [hres] at h
        simp only at h
        split at h
        · split at h
          · cases h; simp [stepPanics]
          · cases h
        · cases h; simp [stepPanics]

/-- every panic of one iteration is one of `stepPanics`, or the failed `action.(shift)`
    assertion in `Error`, which needs tables violating `RecWF` -/
theorem step_panic {cfg : PCfg} {w : List Nat} {ps ps' : PState} {why : String}
    (h : step cfg w ps = .done (.panic why) ps') :
    why ∈ stepPanics ∨ (why = ifaceShift ∧ ¬ RecWF cfg.T cfg.errTerm) := by
  unfold step at h
  rcases hst : ps.states with _ | ⟨top, rest⟩
  · rw [hst] at h; cases h; simp [stepPanics]
  · rw [hst] at h
    simp only at h
    split at h
    · cases h; simp [stepPanics]
    · rcases hl : lookupAct cfg.T cfg.errTerm w ps top with ⟨o, ps1⟩ | ⟨a, ps1⟩
      · rw [hl] at h
        cases h
        rcases lookupAct_panic hl with rfl | h2
        · simp [stepPanics]
        · exact .inr h2
      · rw [hl] at h
        exact .inl (doAct_panic h)

theorem parseLoop_panic (cfg : PCfg) (w : List Nat) : ∀ (fuel : Nat) (ps : PState) (why : String),
    (parseLoop cfg w fuel ps).1 = .panic why →
    why ∈ stepPanics ∨ (why = ifaceShift ∧ ¬ RecWF cfg.T cfg.errTerm) := by
  intro fuel
  induction fuel with
  | zero => intro ps why h; cases h
  | succ fuel ih =>
    intro ps why h
    rw [parseLoop_succ] at h
    rcases hs : step cfg w ps with ⟨o, ps1⟩ | ps1
    · rw [hs] at h
      simp only [StepR.run] at h
      subst h
      exact step_panic hs
    · rw [hs] at h
      exact ih ps1 why h

/-! ### §5 token conservation -/

/-- one iteration: it ends without accepting, or it performs an action `a` that the table holds
    for the top state and the look-ahead — of the state itself, or of the state after a
    successful recovery -/
theorem step_decomp (cfg : PCfg) (w : List Nat) (ps : PState) :
    (∃ o ps', step cfg w ps = .done o ps' ∧ ∀ r, o ≠ .accept r) ∨
    (∃ a ps1 top rest, step cfg w ps = doAct cfg w a ps1 ∧ ps1.states = top :: rest ∧
      cfg.T.act top ps1.next.2 = some a ∧
      ((ps1 = ps ∧ cfg.T.act top ps.next.2 = some a) ∨
        ∃ tok, recover cfg.T cfg.errTerm w ps = .ok (true, tok, ps1))) := by
  rcases hst : ps.states with _ | ⟨top, rest⟩
  · have : step cfg w ps = .done (.panic "empty stack") ps := by unfold step; rw [hst]
    exact .inl ⟨_, _, this, by intro r h; cases h⟩
  · by_cases hn : ps.next.2 ≥ cfg.T.numSymbols
    · have : step cfg w ps = .done (.panic "index out of range (token type)") ps := by
        unfold step; rw [hst]; simp only [hn, if_true]
      exact .inl ⟨_, _, this, by intro r h; cases h⟩
    · have hs : step cfg w ps = match lookupAct cfg.T cfg.errTerm w ps top with
          | .error o => .done o.1 o.2
          | .ok (a, ps) => doAct cfg w a ps := by
        unfold step; rw [hst]; simp only [hn, if_false]; rfl
      rcases hl : lookupAct cfg.T cfg.errTerm w ps top with ⟨o, ps1⟩ | ⟨a, ps1⟩
      · have := lookupAct_log cfg.T cfg.errTerm w ps top
        rw [hl] at this hs
        exact .inl ⟨_, _, hs, this.2.2.2⟩
      · rw [hl] at hs
        right
        rcases lookupAct_ok hl with ⟨rfl, ha⟩ | ⟨-, tok, t', rest', hrec, hst', ha⟩
        · exact ⟨a, _, top, rest, hs, hst, ha, .inl ⟨rfl, ha⟩⟩
        · exact ⟨a, ps1, t', rest', hs, hst', ha, .inr ⟨tok, hrec⟩⟩

theorem stackToks_cons (a : Attr) (l : List Attr) : stackToks (a :: l) = stackToks l ++ attrToks a := by
  simp [stackToks, attrToksL_append, attrToksL]

theorem stackToks_split (l : List Attr) (n : Nat) :
    stackToks l = stackToks (l.drop n) ++ attrToksL (l.take n).reverse := by
  rw [stackToks, stackToks, ← attrToksL_append, ← List.reverse_append, List.take_append_drop]

theorem userAction_toks {shape id : Nat} {X : List Attr} {a : Attr}
    (h : userAction shape id X = .ok a) : (attrToks a).Sublist (attrToksL X) := by
  unfold userAction at h
  repeat' split at h
  all_goals cases h
  all_goals first
    | exact List.Sublist.refl _
    | (rename_i x hx
       have := attrToks_sublist_of_mem (List.mem_of_getLast? hx)
       simpa [attrToks, attrToksL] using this)
    | (rename_i x hx
       have := attrToks_sublist_of_mem (List.mem_of_getElem? hx)
       simpa [attrToks, attrToksL] using this)
    | simp [attrToks, attrToksL]

theorem reduceRes_toks {cfg : PCfg} {p : Nat} {X : List Attr} {ps ps2 : PState} {a : Attr}
    (h : reduceRes cfg p X ps = .ok (a, ps2)) :
    (attrToks a).Sublist (attrToksL X) ∧ ps2.next = ps.next ∧ ps2.ntok = ps.ntok := by
  unfold reduceRes at h
  split at h
  · split at h
    · cases h; exact ⟨by simp [attrToksL], rfl, rfl⟩
    · cases h
  · cases h; exact ⟨by simp [attrToks], rfl, rfl⟩
  · simp only at h
    split at h
    · cases h
    · rcases hu : userAction _ _ X with why' | b
      · rw [hu] at h; cases h
      · rw [hu] at h; cases h; exact ⟨userAction_toks hu, rfl, rfl⟩

/-- a continuing action is a shift (pushes the look-ahead, scans) or a reduce (replaces the top
    `n` attributes by one whose tokens are a sublist, in order, of theirs) -/
theorem doAct_cont {cfg : PCfg} {w : List Nat} {a : Act} {ps ps' : PState}
    (h : doAct cfg w a ps = .cont ps') :
    (∃ s, a = .shift s ∧ ps'.attrs = Attr.tok ps.next.1 ps.next.2 :: ps.attrs ∧
      ps'.next = scanTok w ps.ntok ∧ ps'.ntok = ps.ntok + 1) ∨
    (∃ p b n, a = .reduce p ∧ ps'.attrs = b :: ps.attrs.drop n ∧
      (attrToks b).Sublist (attrToksL (ps.attrs.take n).reverse) ∧
      ps'.next = ps.next ∧ ps'.ntok = ps.ntok) := by
  cases a with
  | accept => simp only [doAct] at h; split at h <;> cases h
  | shift s => cases h; exact .inl ⟨s, rfl, rfl, rfl, rfl⟩
  | reduce p =>
    simp only [doAct] at h
    split at h
    · cases h
    · rcases hres : reduceRes cfg p (List.take (cfg.T.prodLen[p]?.getD 0) ps.attrs).reverse ps with
        (_ | why') | ⟨b, ps2⟩
      · rw [hres] at h
        simp only at h
        split at h <;> cases h
      · rw [hres] at h; cases h
      · rw [hres] at h
        simp only at h
        obtain ⟨t1, t2, t3⟩ := reduceRes_toks hres
        split at h
        · split at h
          · cases h
          · cases h; exact .inr ⟨p, b, _, rfl, rfl, t1, t2, t3⟩
        · cases h

theorem doAct_accept {cfg : PCfg} {w : List Nat} {a : Act} {ps ps' : PState} {r : Attr}
    (h : doAct cfg w a ps = .done (.accept r) ps') :
    ∃ rest, ps.attrs = r :: rest ∧ ps'.next = ps.next ∧ ps'.ntok = ps.ntok := by
  cases a with
  | accept =>
    simp only [doAct] at h
    split at h
    · rename_i r' rest hat
      cases h
      exact ⟨rest, hat, rfl, rfl⟩
    · cases h
  | shift s => cases h
  | reduce p =>
    simp only [doAct] at h
    repeat' split at h
    all_goals cases h

theorem lookAhead_fst {input : List Nat} {tok : Nat × Nat} {ntok : Nat} (h : tok.1 + 1 = ntok)
    (j : Nat) : (lookAhead input tok ntok j).1 + 1 = ntok + j := by
  cases j with
  | zero => exact h
  | succ j => simp only [lookAhead, scanTok_fst]; omega

/-- a successful recovery moves the discarded attributes into the error attribute, in order,
    and only advances the look-ahead -/
theorem recover_tokInv {T : PTables} {e : Nat} {w : List Nat} {ps ps' : PState} {tok : Nat × Nat}
    (h : recover T e w ps = .ok (true, tok, ps')) (hI : TokInv ps) : TokInv ps' := by
  obtain ⟨k, r, rest, s', j, -, -, -, -, hat, hnext, hntok, -⟩ := recover_true h
  obtain ⟨i1, i2, i3⟩ := hI
  have hst : stackToks ps'.attrs = stackToks ps.attrs := by
    rw [hat, stackToks_cons, stackToks_split ps.attrs k]
    simp [attrToks]
  have hf := lookAhead_fst (input := w) i3 j
  refine ⟨by rw [hst]; exact i1, ?_, by rw [hnext, hntok]; exact hf⟩
  intro i hi
  rw [hst] at hi
  have := i2 i hi
  rw [hnext]
  omega

def StepR.tokPost : StepR → Prop
  | .cont ps' => TokInv ps'
  | .done (.accept r) ps' => (attrToks r).Pairwise (· < ·) ∧ ∀ i ∈ attrToks r, i + 1 < ps'.ntok
  | .done _ _ => True

theorem StepR.tokPost_of_not_accept {o : Outcome} {ps' : PState} (h : ∀ r, o ≠ .accept r) :
    (StepR.done o ps').tokPost := by
  cases o with
  | accept r => exact absurd rfl (h r)
  | _ => trivial

theorem doAct_tokInv (cfg : PCfg) (w : List Nat) (a : Act) {ps : PState} (hI : TokInv ps) :
    (doAct cfg w a ps).tokPost := by
  obtain ⟨i1, i2, i3⟩ := hI
  rcases hd : doAct cfg w a ps with ⟨o, ps'⟩ | ps'
  · by_cases ho : ∃ r, o = .accept r
    · obtain ⟨r, rfl⟩ := ho
      obtain ⟨rest, hat, hn, hk⟩ := doAct_accept hd
      rw [hat, stackToks_cons] at i1 i2
      refine ⟨(List.pairwise_append.mp i1).2.1, fun i hi => ?_⟩
      have := i2 i (List.mem_append_right _ hi)
      omega
    · exact StepR.tokPost_of_not_accept (fun r h => ho ⟨r, h⟩)
  · rcases doAct_cont hd with ⟨s, -, hat, hn, hk⟩ | ⟨p, b, n, -, hat, hsub, hn, hk⟩
    · refine ⟨?_, ?_, by rw [hn, hk, scanTok_fst]⟩
      · rw [hat, stackToks_cons]
        simp only [attrToks]
        rw [List.pairwise_append]
        refine ⟨i1, by simp, ?_⟩
        intro x hx y hy
        simp only [List.mem_singleton] at hy
        subst hy
        exact i2 x hx
      · intro i hi
        rw [hat, stackToks_cons] at hi
        simp only [attrToks, List.mem_append, List.mem_singleton] at hi
        rw [hn, scanTok_fst]
        rcases hi with hi | rfl
        · have := i2 i hi; omega
        · omega
    · have hsub' : (stackToks ps'.attrs).Sublist (stackToks ps.attrs) := by
        rw [hat, stackToks_cons, stackToks_split ps.attrs n]
        exact List.Sublist.append (List.Sublist.refl _) hsub
      refine ⟨i1.sublist hsub', fun i hi => ?_, by rw [hn, hk]; exact i3⟩
      rw [hn]
      exact i2 i (hsub'.subset hi)

/-- (c) `TokInv` is preserved by every iteration of the `Parse` loop, for arbitrary tables -/
theorem step_tokInv (cfg : PCfg) (w : List Nat) {ps : PState} (hI : TokInv ps) :
    (step cfg w ps).tokPost := by
  rcases step_decomp cfg w ps with ⟨o, ps', hs, ho⟩ | ⟨a, ps1, top, rest, hs, -, -, h1⟩
  · rw [hs]; exact StepR.tokPost_of_not_accept ho
  · rw [hs]
    rcases h1 with ⟨rfl, -⟩ | ⟨tok, hrec⟩
    · exact doAct_tokInv cfg w a hI
    · exact doAct_tokInv cfg w a (recover_tokInv hrec hI)

theorem parseLoop_tokInv (cfg : PCfg) (w : List Nat) : ∀ (fuel : Nat) (ps : PState), TokInv ps →
    ∀ r ps', parseLoop cfg w fuel ps = (.accept r, ps') →
      (attrToks r).Pairwise (· < ·) ∧ ∀ i ∈ attrToks r, i + 1 < ps'.ntok := by
  intro fuel
  induction fuel with
  | zero => intro ps _ r ps' h; simp [parseLoop] at h
  | succ fuel ih =>
    intro ps hI r ps' h
    rw [parseLoop_succ] at h
    have hp := step_tokInv cfg w hI
    rcases hs : step cfg w ps with ⟨o, ps1⟩ | ps1
    · rw [hs] at h hp
      simp only [StepR.run, Prod.mk.injEq] at h
      obtain ⟨rfl, rfl⟩ := h
      exact hp
    · rw [hs] at h hp
      exact ih ps1 hp r ps' h

theorem tokInv_init (w : List Nat) :
    TokInv { states := [0], attrs := [.nil], next := scanTok w 0, ntok := 1, log := [], calls := 0 } := by
  refine ⟨?_, ?_, ?_⟩
  · simp [stackToks, attrToksL, attrToks]
  · simp [stackToks, attrToksL, attrToks]
  · simp [scanTok_fst]

/-- the look-ahead is the last token scanned, and scanning stops at end of input -/
def RecScanInv (w : List Nat) (ps : PState) : Prop :=
  ps.next = scanTok w (ps.ntok - 1) ∧ 1 ≤ ps.ntok ∧ ps.ntok ≤ w.length + 1

def StepR.scanPost (w : List Nat) : StepR → Prop
  | .cont ps' => RecScanInv w ps'
  | .done (.accept _) ps' => ps'.ntok ≤ w.length + 1
  | .done _ _ => True

theorem StepR.scanPost_of_not_accept {w : List Nat} {o : Outcome} {ps' : PState}
    (h : ∀ r, o ≠ .accept r) : (StepR.done o ps').scanPost w := by
  cases o with
  | accept r => exact absurd rfl (h r)
  | _ => trivial

theorem recover_scanInv {T : PTables} {e : Nat} {w : List Nat} {ps ps' : PState} {tok : Nat × Nat}
    (h : recover T e w ps = .ok (true, tok, ps')) (hI : RecScanInv w ps) : RecScanInv w ps' := by
  obtain ⟨k, r, rest, s', j, -, -, -, -, -, hnext, hntok, -, hskip, -⟩ := recover_true h
  obtain ⟨i1, i2, i3⟩ := hI
  cases j with
  | zero =>
    simp only [lookAhead] at hnext
    exact ⟨by rw [hnext, hntok]; exact i1, by omega, by omega⟩
  | succ j =>
    refine ⟨by rw [hnext, hntok]; simp only [lookAhead]; congr 1, by omega, ?_⟩
    have := (hskip j (by omega)).2
    cases j with
    | zero =>
      simp only [lookAhead] at this
      rw [i1] at this
      have := scanTok_lt this
      omega
    | succ j =>
      simp only [lookAhead] at this
      have := scanTok_lt this
      omega

theorem doAct_scanInv {cfg : PCfg} (hT : NoShiftEOF cfg.T) (w : List Nat) {a : Act} {ps : PState}
    {top : Nat} (ha : cfg.T.act top ps.next.2 = some a) (hI : RecScanInv w ps) :
    (doAct cfg w a ps).scanPost w := by
  obtain ⟨i1, i2, i3⟩ := hI
  rcases hd : doAct cfg w a ps with ⟨o, ps'⟩ | ps'
  · by_cases ho : ∃ r, o = .accept r
    · obtain ⟨r, rfl⟩ := ho
      obtain ⟨rest, -, -, hk⟩ := doAct_accept hd
      simp only [StepR.scanPost]
      omega
    · exact StepR.scanPost_of_not_accept (fun r h => ho ⟨r, h⟩)
  · rcases doAct_cont hd with ⟨s, rfl, -, hn, hk⟩ | ⟨p, b, n, -, -, -, hn, hk⟩
    · have hne : ps.next.2 ≠ 1 := by
        intro h1
        rw [h1] at ha
        exact hT _ _ ha
      rw [i1] at hne
      have := scanTok_lt hne
      exact ⟨by rw [hn, hk]; congr 1, by omega, by omega⟩
    · exact ⟨by rw [hn, hk]; exact i1, by omega, by omega⟩

theorem step_scanInv {cfg : PCfg} (hT : NoShiftEOF cfg.T) (w : List Nat) {ps : PState}
    (hI : RecScanInv w ps) : (step cfg w ps).scanPost w := by
  rcases step_decomp cfg w ps with ⟨o, ps', hs, ho⟩ | ⟨a, ps1, top, rest, hs, -, ha, h1⟩
  · rw [hs]; exact StepR.scanPost_of_not_accept ho
  · rw [hs]
    rcases h1 with ⟨rfl, -⟩ | ⟨tok, hrec⟩
    · exact doAct_scanInv hT w ha hI
    · exact doAct_scanInv hT w ha (recover_scanInv hrec hI)

theorem parseLoop_scanInv {cfg : PCfg} (hT : NoShiftEOF cfg.T) (w : List Nat) :
    ∀ (fuel : Nat) (ps : PState), RecScanInv w ps →
    ∀ r ps', parseLoop cfg w fuel ps = (.accept r, ps') → ps'.ntok ≤ w.length + 1 := by
  intro fuel
  induction fuel with
  | zero => intro ps _ r ps' h; simp [parseLoop] at h
  | succ fuel ih =>
    intro ps hI r ps' h
    rw [parseLoop_succ] at h
    have hp := step_scanInv hT w hI
    rcases hs : step cfg w ps with ⟨o, ps1⟩ | ps1
    · rw [hs] at h hp
      simp only [StepR.run, Prod.mk.injEq] at h
      obtain ⟨rfl, rfl⟩ := h
      exact hp
    · rw [hs] at h hp
      exact ih ps1 hp r ps' h

theorem noShiftEOF_of_b {T : PTables} (h : noShiftEOFb T = true) : NoShiftEOF T := by
  intro s s' ha
  obtain ⟨row, hrow, -, -⟩ := act_eq_some ha
  have hs : s < T.action.size := (Array.getElem?_eq_some_iff.mp hrow).1
  simp only [noShiftEOFb, List.all_eq_true, List.mem_range] at h
  have := h s hs
  rw [ha] at this
  cases this

theorem scanInv_init (w : List Nat) :
    RecScanInv w { states := [0], attrs := [.nil], next := scanTok w 0, ntok := 1, log := [], calls := 0 } :=
  ⟨rfl, by simp, by simp⟩

theorem parse_tokens_any {cfg : PCfg} {w : List Nat} {fuel : Nat} {old ps : PState} {r : Attr}
    (h : parse cfg w fuel old = (.accept r, ps)) :
    (attrToks r).Pairwise (· < ·) ∧ ∀ i ∈ attrToks r, i + 1 < ps.ntok :=
  parseLoop_tokInv cfg w fuel _ (tokInv_init w) r ps h

theorem parse_tokens {cfg : PCfg} (hT : NoShiftEOF cfg.T) {w : List Nat} {fuel : Nat}
    {old ps : PState} {r : Attr} (h : parse cfg w fuel old = (.accept r, ps)) :
    (attrToks r).Pairwise (· < ·) ∧ ∀ i ∈ attrToks r, i < w.length := by
  obtain ⟨h1, h2⟩ := parse_tokens_any h
  have h3 := parseLoop_scanInv hT w fuel _ (scanInv_init w) r ps h
  refine ⟨h1, fun i hi => ?_⟩
  have := h2 i hi
  omega

/-! ### §6 recovery is inert as long as no action lookup fails -/

theorem lookupAct_some {T : PTables} {e : Nat} {w : List Nat} {ps : PState} {top : Nat} {a : Act}
    (ha : T.act top ps.next.2 = some a) : lookupAct T e w ps top = .ok (a, ps) := by
  unfold lookupAct; rw [ha]

theorem topRecovery_noRecovery (T : PTables) (l : List Nat) : topRecovery T.noRecovery l = none := by
  unfold topRecovery
  rw [List.findIdx?_eq_none_iff]
  intro x _
  simp [PTables.noRecovery]

theorem doAct_noRecovery (cfg : PCfg) (w : List Nat) (a : Act) (ps : PState) :
    doAct cfg.noRecovery w a ps = doAct cfg w a ps := by
  cases a <;> rfl

/-- while the action lookup succeeds an iteration does not look at `canRecover` or the error
    terminal; at the first failed lookup the parser without recovery states stops with a syntax
    error -/
theorem step_noRecovery (cfg : PCfg) (w : List Nat) (ps : PState) :
    step cfg w ps = step cfg.noRecovery w ps ∨
    ∃ top rest, ps.states = top :: rest ∧ cfg.T.act top ps.next.2 = none ∧
      step cfg.noRecovery w ps =
        .done (.synErr ps.next.1 ps.next.2 (cfg.T.rowExpected top) top) ps := by
  rcases hst : ps.states with _ | ⟨top, rest⟩
  · left; unfold step; rw [hst]
  · by_cases hn : ps.next.2 ≥ cfg.T.numSymbols
    · left
      have hn' : ps.next.2 ≥ cfg.noRecovery.T.numSymbols := hn
      unfold step; rw [hst]; simp only [hn, hn', if_true]
    · have hn' : ¬ ps.next.2 ≥ cfg.noRecovery.T.numSymbols := hn
      rcases ha : cfg.T.act top ps.next.2 with _ | a
      · right
        refine ⟨top, rest, rfl, ha, ?_⟩
        have hrec : recover cfg.noRecovery.T cfg.noRecovery.errTerm w ps = .ok (false, ps.next, ps) :=
          recover_none (topRecovery_noRecovery _ _) (by rw [hst]; simp)
        have hl : lookupAct cfg.noRecovery.T cfg.noRecovery.errTerm w ps top =
            .error (.synErr ps.next.1 ps.next.2 (cfg.T.rowExpected top) top, ps) := by
          unfold lookupAct
          have ha' : cfg.noRecovery.T.act top ps.next.2 = none := ha
          rw [ha', hrec]
          simp only [hst]
          rfl
        unfold step; rw [hst]; simp only [hn', if_false, hl]
      · left
        have ha' : cfg.noRecovery.T.act top ps.next.2 = some a := ha
        unfold step; rw [hst]
        simp only [hn, hn', if_false, lookupAct_some ha, lookupAct_some ha', doAct_noRecovery]

/-- (d) lock-step with the parser without recovery states until the first failed lookup -/
theorem parseLoop_noRecovery (cfg : PCfg) (w : List Nat) : ∀ (fuel : Nat) (ps : PState),
    (∀ i t e s, (parseLoop cfg.noRecovery w fuel ps).1 ≠ .synErr i t e s) →
    parseLoop cfg w fuel ps = parseLoop cfg.noRecovery w fuel ps := by
  intro fuel
  induction fuel with
  | zero => intro ps _; rfl
  | succ fuel ih =>
    intro ps h
    rw [parseLoop_succ] at h ⊢
    rw [parseLoop_succ]
    rcases step_noRecovery cfg w ps with heq | ⟨top, rest, -, -, hs⟩
    · rw [heq]
      rcases hs : step cfg.noRecovery w ps with ⟨o, ps1⟩ | ps1
      · rfl
      · rw [hs] at h
        exact ih ps1 h
    · rw [hs] at h
      exact absurd rfl (h _ _ _ _)

end Gocc
