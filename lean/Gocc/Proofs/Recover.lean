import Gocc.Spec.Recover
import Gocc.Proofs.Validate
/-
Error recovery of the generated parser (`recover`, Model/Parse.lean) meets its specification
(Spec/Recover.lean); consequences for the `Parse` loop.

  §1  the specification functions: `recWFb_iff`, `firstEOF_spec`, `firstAcceptable_eq_some_iff`,
      `firstAcceptable_eq_none_iff`, `attrToksL` lemmas
  §2  `firstRecovery` is `topRecovery`; the skip loop (`skipLoop_spec`)
  §3  `recover_spec` (complete characterisation under `RecWF`), `recover_true` (any tables)
  §4  panics: which strings `step` can produce
  §5  token conservation (`TokInv`)
  §6  recovery is inert as long as no action lookup fails
-/
namespace Gocc

/-! ### §1 the specification functions -/

theorem canRecover_lt {T : PTables} {s : Nat} (h : T.canRecover[s]?.getD false = true) :
    s < T.canRecover.size := by
  rcases hx : T.canRecover[s]? with _ | b
  · simp [hx] at h
  · exact (Array.getElem?_eq_some_iff.mp hx).1

theorem recWFb_iff (T : PTables) (e : Nat) : recWFb T e = true ↔ RecWF T e := by
  simp only [recWFb, RecWF, List.all_eq_true, List.mem_range, Bool.or_eq_true, Bool.not_eq_true']
  constructor
  · intro h s hs
    rcases h s (canRecover_lt hs) with h1 | h1
    · rw [hs] at h1; cases h1
    · split at h1
      · exact ⟨_, by assumption⟩
      · cases h1
  · intro h s _
    rcases hc : T.canRecover[s]?.getD false with _ | _
    · exact .inl rfl
    · obtain ⟨s', hs'⟩ := h s hc
      right; rw [hs']

theorem lookAhead_succ (input : List Nat) (tok : Nat × Nat) (ntok i : Nat) :
    lookAhead input tok ntok (i + 1) = lookAhead input (scanTok input ntok) (ntok + 1) i := by
  cases i with
  | zero => simp [lookAhead]
  | succ i => simp only [lookAhead]; congr 1; omega

theorem lookAheads_length (input : List Nat) (tok : Nat × Nat) (ntok : Nat) :
    (lookAheads input tok ntok).length = input.length + 2 := by simp [lookAheads]

theorem lookAheads_getElem (input : List Nat) (tok : Nat × Nat) (ntok i : Nat)
    (h : i < (lookAheads input tok ntok).length) :
    (lookAheads input tok ntok)[i] = lookAhead input tok ntok i := by simp [lookAheads]

theorem scanTok_snd_of_le {input : List Nat} {k : Nat} (h : input.length ≤ k) :
    (scanTok input k).2 = 1 := by
  unfold scanTok
  rw [List.getElem?_eq_none_iff.mpr h]

/-- `firstEOF` is the number of the first end-of-input token; it exists -/
theorem firstEOF_spec (input : List Nat) (tok : Nat × Nat) (ntok : Nat) :
    firstEOF input tok ntok < input.length + 2 ∧
    (lookAhead input tok ntok (firstEOF input tok ntok)).2 = 1 ∧
    ∀ i, i < firstEOF input tok ntok → (lookAhead input tok ntok i).2 ≠ 1 := by
  have hlt : firstEOF input tok ntok < (lookAheads input tok ntok).length := by
    unfold firstEOF
    rw [List.findIdx_lt_length]
    refine ⟨lookAhead input tok ntok (input.length + 1), ?_, ?_⟩
    · simp only [lookAheads, List.mem_map, List.mem_range]
      exact ⟨input.length + 1, by omega, rfl⟩
    · simp only [lookAhead, beq_iff_eq]
      exact scanTok_snd_of_le (by omega)
  refine ⟨by simpa [lookAheads_length] using hlt, ?_, ?_⟩
  · have := List.findIdx_getElem (w := hlt)
    simp only [lookAheads_getElem, beq_iff_eq] at this
    exact this
  · intro i hi
    have := List.not_of_lt_findIdx (show i < List.findIdx _ (lookAheads input tok ntok) from hi)
    simp only [lookAheads_getElem, beq_eq_false_iff_ne] at this
    exact this

theorem firstEOF_unique {input : List Nat} {tok : Nat × Nat} {ntok j : Nat}
    (h1 : (lookAhead input tok ntok j).2 = 1) (h2 : ∀ i, i < j → (lookAhead input tok ntok i).2 ≠ 1) :
    firstEOF input tok ntok = j := by
  obtain ⟨-, e1, e2⟩ := firstEOF_spec input tok ntok
  rcases Nat.lt_trichotomy (firstEOF input tok ntok) j with h | h | h
  · exact absurd e1 (h2 _ h)
  · exact h
  · exact absurd h1 (e2 _ h)

theorem window_getElem (input : List Nat) (tok : Nat × Nat) (ntok i : Nat)
    (h : i < ((lookAheads input tok ntok).take (firstEOF input tok ntok + 1)).length) :
    ((lookAheads input tok ntok).take (firstEOF input tok ntok + 1))[i] = lookAhead input tok ntok i := by
  rw [List.getElem_take, lookAheads_getElem]

theorem window_length (input : List Nat) (tok : Nat × Nat) (ntok : Nat) :
    ((lookAheads input tok ntok).take (firstEOF input tok ntok + 1)).length =
      firstEOF input tok ntok + 1 := by
  have := (firstEOF_spec input tok ntok).1
  rw [List.length_take, lookAheads_length]; omega

/-- `firstAcceptable = some (j, t)`: `t` is token number `j`, it has an action, no earlier token
    has one, and no earlier token is end of input -/
theorem firstAcceptable_eq_some_iff {T : PTables} {input : List Nat} {s : Nat} {tok : Nat × Nat}
    {ntok j : Nat} {t : Nat × Nat} :
    firstAcceptable T input s tok ntok = some (j, t) ↔
      t = lookAhead input tok ntok j ∧ (T.act s t.2).isSome = true ∧
      ∀ i, i < j → T.act s (lookAhead input tok ntok i).2 = none ∧ (lookAhead input tok ntok i).2 ≠ 1 := by
  obtain ⟨-, e1, e2⟩ := firstEOF_spec input tok ntok
  simp only [firstAcceptable, Option.map_eq_some_iff, Prod.mk.injEq,
    List.findIdx?_eq_some_iff_getElem]
  constructor
  · rintro ⟨j', ⟨hlt, hp, hnp⟩, rfl, rfl⟩
    rw [window_getElem] at hp
    refine ⟨rfl, hp, fun i hi => ?_⟩
    have := hnp i hi
    rw [window_getElem] at this
    rw [window_length] at hlt
    exact ⟨by simpa using this, e2 i (by omega)⟩
  · rintro ⟨rfl, hp, hnp⟩
    have hj : j < firstEOF input tok ntok + 1 := by
      apply Nat.lt_of_not_le
      intro hle
      exact (hnp _ hle).2 e1
    refine ⟨j, ⟨by rw [window_length]; exact hj, ?_, ?_⟩, rfl, rfl⟩
    · rw [window_getElem]; exact hp
    · intro i hi
      rw [window_getElem]
      simp [(hnp i hi).1]

/-- `firstAcceptable = none`: no token up to and including the first end of input has an action -/
theorem firstAcceptable_eq_none_iff {T : PTables} {input : List Nat} {s : Nat} {tok : Nat × Nat}
    {ntok : Nat} :
    firstAcceptable T input s tok ntok = none ↔
      ∀ i, i ≤ firstEOF input tok ntok → T.act s (lookAhead input tok ntok i).2 = none := by
  simp only [firstAcceptable, Option.map_eq_none_iff, List.findIdx?_eq_none_iff]
  constructor
  · intro h i hi
    have hlt : i < ((lookAheads input tok ntok).take (firstEOF input tok ntok + 1)).length := by
      rw [window_length]; omega
    have := h _ (List.getElem_mem hlt)
    rw [window_getElem] at this
    simpa using this
  · intro h x hx
    obtain ⟨i, hlt, rfl⟩ := List.getElem_of_mem hx
    rw [window_getElem]
    rw [window_length] at hlt
    simp [h i (by omega)]

theorem attrToksL_append (a b : List Attr) : attrToksL (a ++ b) = attrToksL a ++ attrToksL b := by
  induction a with
  | nil => simp [attrToksL]
  | cons x xs ih => simp [attrToksL, ih]

theorem attrToksL_eq_flatten (l : List Attr) : attrToksL l = (l.map attrToks).flatten := by
  induction l with
  | nil => simp [attrToksL]
  | cons x xs ih => simp [attrToksL, ih]

theorem attrToks_sublist_of_mem {a : Attr} {l : List Attr} (h : a ∈ l) :
    (attrToks a).Sublist (attrToksL l) := by
  induction l with
  | nil => cases h
  | cons x xs ih =>
    simp only [attrToksL]
    rcases List.mem_cons.mp h with rfl | h
    · exact List.sublist_append_left _ _
    · exact (ih h).trans (List.sublist_append_right _ _)

end Gocc
