import Gocc.Proofs.ParseTerm
/-
Every stack of the parser is reached on some sentence ("run-validity" of LR(1) items).

`IV G γ p d a` (Proofs/ValidateV.lean) says that the item `(p, d, a)` is justified by sentences
`x y z` (`x` derived from the stack below the item's body, `y` from the body, `z` beginning with
`a`).  `RV` adds: the parser WITHOUT recovery, run on such a sentence, has after consuming the
part of the sentence that belongs to the stack exactly the stack `ss` — whatever derivations `x`,
`y` have.  Proof: the induction of `itemsJust_valid` / `VStk.valid`, with one symbol of the run
added at every edge (`RV.advance`, the `nt` case reuses the key lemma `run_item` of the
completeness proof).

Use (Proofs/ParseTermRec.lean): a configuration reached AFTER an error recovery is not reachable
by the parser without recovery on the real input, but its stack is reachable on a virtual input,
to which the termination theorem of Proofs/ParseTerm.lean applies.
-/
namespace Gocc.ParseTerm
open Gocc

/-- the item `(p, d, a)` of the top state of the stack `ss`, which spells `γ` (bottom first), is
    justified by sentences on which the parser reaches `ss` -/
def RV (G : NGrammar) (cfg : PCfg) (γ : List Sym) (ss : List Nat) (p d a : Nat) : Prop :=
  p < G.prods.size ∧ ∃ δ z, γ = δ ++ (G.body p).take d ∧ d ≤ (G.body p).length ∧
    z.head?.getD 1 = a ∧ (∃ x0, NDerives G δ x0) ∧
    ∀ x y1 y2, NDerives G δ x → NDerives G ((G.body p).take d) y1 →
      NDerives G ((G.body p).drop d) y2 →
      NSentence G (x ++ y1 ++ y2 ++ z) ∧
      ∃ ps, Steps cfg (x ++ y1 ++ y2 ++ z) (initPS (x ++ y1 ++ y2 ++ z)) ps ∧ ps.states = ss ∧
        ps.ntok = (x ++ y1).length + 1 ∧
        ps.next = scanTok (x ++ y1 ++ y2 ++ z) (x ++ y1).length ∧
        ps.attrs.length = ps.states.length

theorem RV.start {G : NGrammar} {cfg : PCfg} (h0 : 0 < G.prods.size) : RV G cfg [] [0] 0 0 1 := by
  refine ⟨h0, [], [], by simp, Nat.zero_le _, rfl, ⟨[], .nil⟩, ?_⟩
  intro x y1 y2 hx hy1 hy2
  have e1 := hx.nil_inv
  subst e1
  have e2 : y1 = [] := by
    rw [List.take_zero] at hy1
    exact hy1.nil_inv
  subst e2
  rw [List.drop_zero] at hy2
  refine ⟨by simpa [NSentence] using hy2, initPS _, .refl _, rfl, rfl, rfl, rfl⟩

theorem drop_of_getElem? {α : Type} {l : List α} {d : Nat} {x : α} (h : l[d]? = some x) :
    l.drop d = x :: l.drop (d + 1) := by
  have hlt : d < l.length := (List.getElem?_eq_some_iff.mp h).1
  have hget : l[d] = x := (List.getElem?_eq_some_iff.mp h).2
  rw [← hget]
  exact List.drop_eq_getElem_cons hlt

theorem take_succ_of_getElem? {α : Type} {l : List α} {d : Nat} {x : α} (h : l[d]? = some x) :
    l.take (d + 1) = l.take d ++ [x] := by
  rw [List.take_add_one, h]
  rfl

theorem RV.closure {G : NGrammar} {T : PTables} {c : CertLA} {fc : FirstCert}
    (VF : ValidFacts G T c fc) {cfg : PCfg} {γ : List Sym} {ss : List Nat} {p d a q b : Nat}
    (h : RV G cfg γ ss p d a) (hX : (G.body p)[d]? = some (Sym.nt (G.head q)))
    (hq : q < G.prods.size) (hb : b ∈ firstOfSeq fc ((G.body p).drop (d + 1)) a) :
    RV G cfg γ ss q 0 b := by
  obtain ⟨hp, δ, z, hγ, -, hz, ⟨x0, hx0⟩, hctx⟩ := h
  obtain ⟨y2', hy2', hb2⟩ := firstOfSeq_exact VF.nullS VF.firstS hz
    (fun X hXm => VF.prodB p hp X (List.mem_of_mem_drop hXm)) hb
  obtain ⟨y10, hy10⟩ : ∃ y, NDerives G ((G.body p).take d) y :=
    productive_of_all fun X hXm => VF.prodB p hp X (List.mem_of_mem_take hXm)
  refine ⟨hq, γ, y2' ++ z, by simp, Nat.zero_le _, hb2, ⟨x0 ++ y10, ?_⟩, ?_⟩
  · rw [hγ]
    exact hx0.append hy10
  intro x' y1' yq hx' hy1' hyq
  have e1 : y1' = [] := by
    rw [List.take_zero] at hy1'
    exact hy1'.nil_inv
  subst e1
  rw [List.drop_zero] at hyq
  rw [hγ] at hx'
  obtain ⟨x, y1, rfl, hx, hy1⟩ := hx'.append_inv
  have hy2 : NDerives G ((G.body p).drop d) (yq ++ y2') := by
    rw [drop_of_getElem? hX]
    exact .nt hq hyq hy2'
  obtain ⟨hsent, ps, hrun, hst, hnt, hnx, hat⟩ := hctx x y1 (yq ++ y2') hx hy1 hy2
  have hin : x ++ y1 ++ [] ++ yq ++ (y2' ++ z) = x ++ y1 ++ (yq ++ y2') ++ z := by simp
  have hlen : (x ++ y1 ++ []).length = (x ++ y1).length := by simp
  rw [hin, hlen]
  exact ⟨hsent, ps, hrun, hst, hnt, hnx, hat⟩

theorem RV.advance {G : NGrammar} {T : PTables} {fc : FirstCert} {c : CertLA}
    (F : CompleteFacts G T fc c) (hf : firstOk G fc = true) {cfg : PCfg} (hA : ActsOk cfg)
    (hT : cfg.T = T) {γ : List Sym} {s : Nat} {rest : List Nat} {p d a : Nat} {X : Sym} {s' : Nat}
    (h : RV G cfg γ (s :: rest) p d a) (hm : (p, d, a) ∈ c[s]?.getD [])
    (hX : (G.body p)[d]? = some X) (he : Edge T s X s') :
    RV G cfg (γ ++ [X]) (s' :: s :: rest) p (d + 1) a := by
  subst hT
  obtain ⟨hp, δ, z, hγ, -, hz, hprod, hctx⟩ := h
  have hdl : d + 1 ≤ (G.body p).length := by
    have := (List.getElem?_eq_some_iff.mp hX).1
    omega
  refine ⟨hp, δ, z, by rw [hγ, take_succ_of_getElem? hX, List.append_assoc], hdl, hz, hprod, ?_⟩
  intro x y1' y2' hx hy1' hy2'
  rw [take_succ_of_getElem? hX] at hy1'
  obtain ⟨y1, yX, rfl, hy1, hyX⟩ := hy1'.append_inv
  have hy2 : NDerives G ((G.body p).drop d) (yX ++ y2') := by
    rw [drop_of_getElem? hX]
    exact NDerives.append (α := [X]) hyX hy2'
  obtain ⟨hsent, ps, hrun, hst, hnt, hnx, hat⟩ := hctx x y1 (yX ++ y2') hx hy1 hy2
  have hin : x ++ (y1 ++ yX) ++ y2' ++ z = x ++ y1 ++ (yX ++ y2') ++ z := by simp
  rw [hin]
  refine ⟨hsent, ?_⟩
  have hw0 : (x ++ y1 ++ (yX ++ y2') ++ z).drop (x ++ y1).length = yX ++ (y2' ++ z) := by
    have : x ++ y1 ++ (yX ++ y2') ++ z = (x ++ y1) ++ (yX ++ (y2' ++ z)) := by simp
    rw [this, List.drop_left]
  have hlen : (x ++ (y1 ++ yX)).length = (x ++ y1).length + yX.length := by simp; omega
  rw [hlen]
  cases X with
  | t a0 =>
    obtain ⟨w', rfl, hnil⟩ := NDerives.t_inv hyX
    have e := hnil.nil_inv
    subst e
    have he' : cfg.T.act s a0 = some (.shift s') := he
    have hla : ps.next.2 = a0 := by rw [hnx, scanTok_snd, hw0]; rfl
    have hstep : step cfg (x ++ y1 ++ ([a0] ++ y2') ++ z) ps =
        doAct cfg (x ++ y1 ++ ([a0] ++ y2') ++ z) (.shift s') ps :=
      step_act hst (by rw [hla]; exact he') (by rw [hla]; exact F.actLt _ _ _ he')
    refine ⟨_, hrun.trans (.single hstep), by simp [hst], by simp [hnt], ?_, by simp [hat, hst]⟩
    simp only [hnt]
    rfl
  | nt B =>
    obtain ⟨q, u, v, hq, hhead, huv, hbq, hv⟩ := NDerives.nt_inv hyX
    have e := hv.nil_inv
    subst e
    rw [List.append_nil] at huv
    subst huv
    subst hhead
    -- the look-ahead of the inner item
    have hb' : (y2' ++ z).head?.getD 1 ∈ firstOfSeq fc ((G.body p).drop (d + 1)) a := by
      rw [← hz]
      exact mem_firstOfSeq_of_derives hf hy2' z
    have hmq := F.kC s p d a _ hm hX q hq rfl _ hb'
    obtain ⟨ps1, ss1, s1, rest1, a1, a2, a3, a4, a5, a6, a7, a8⟩ :=
      run_item F hf hA rfl (x ++ y1 ++ (yX ++ y2') ++ z) hbq q 0 _ hq rfl (Nat.zero_le _) ps s rest
        (x ++ y1).length (y2' ++ z) hst (by rw [hat]) hmq hnt hnx hw0 rfl
    have hq0 : q ≠ 0 := by
      intro h0
      apply F.noStart p hp
      rw [← h0]
      exact List.mem_of_getElem? hX
    have hw2 : (x ++ y1 ++ (yX ++ y2') ++ z).drop ((x ++ y1).length + yX.length) = y2' ++ z := by
      rw [← List.drop_drop, hw0, List.drop_left]
    have hact := F.kR s1 q _ a5
    rw [if_neg hq0] at hact
    have hla : ps1.next.2 = (y2' ++ z).head?.getD 1 := by rw [a8, scanTok_snd, hw2]
    have hstep : step cfg (x ++ y1 ++ (yX ++ y2') ++ z) ps1 =
        doAct cfg (x ++ y1 ++ (yX ++ y2') ++ z) (.reduce q) ps1 :=
      step_act a4 (by rw [hla]; exact hact) (by rw [hla]; exact F.actLt _ _ _ hact)
    obtain ⟨g, hg, hg0, rfl⟩ : ∃ g : Int, cfg.T.gotoOf s (G.head q) = some g ∧ 0 ≤ g ∧
      s' = g.toNat := he
    obtain ⟨ps2, b1, b2, b3, b4, b5⟩ :=
      doAct_reduce hA (x ++ y1 ++ (yX ++ y2') ++ z) (F.prodLen q hq) (F.prodNT q hq) a3
        (by simpa using a2) a6 hg hg0
    rw [b1] at hstep
    exact ⟨ps2, (hrun.trans a1).trans (.single hstep), b2, by rw [b5, a7], by rw [b4, a8], b3⟩

/-- the induction of `itemsJust_valid`, for `RV` -/
theorem itemsJust_rv {G : NGrammar} {T : PTables} {c : CertLA} {fc : FirstCert}
    (VF : ValidFacts G T c fc) {cfg : PCfg} {γ : List Sym} {ss : List Nat} {s : Nat}
    (h0 : s = 0 → γ = [] ∧ ss = [0]) :
    ∀ {L : List (Nat × Nat × Nat)}, itemsJust G fc s L = true →
      (s ≠ 0 → ∀ p d a, (p, d + 1, a) ∈ L → RV G cfg γ ss p (d + 1) a) →
      ∀ p d a, (p, d, a) ∈ L → RV G cfg γ ss p d a
  | [], _, _, p, d, a, hm => by cases hm
  | (q, d0, b) :: earlier, h, hk, p, d, a, hm => by
    simp only [itemsJust, Bool.and_eq_true] at h
    have ih := itemsJust_rv VF (cfg := cfg) h0 h.2
      (fun hs p d a hm => hk hs p d a (List.mem_cons_of_mem _ hm))
    rcases List.mem_cons.mp hm with e | hm'
    · obtain ⟨hpq, hdd, hab⟩ : p = q ∧ d = d0 ∧ a = b := by simpa using e
      subst hpq hdd hab
      have h1 := h.1
      rcases d with _ | d
      · simp only [beq_self_eq_true, if_true, Bool.and_eq_true, decide_eq_true_eq,
          Bool.or_eq_true, beq_iff_eq] at h1
        obtain ⟨hq, ⟨⟨hs, hq0⟩, hb⟩ | hc⟩ := h1
        · subst hs hq0 hb
          rw [(h0 rfl).1, (h0 rfl).2]
          exact RV.start hq
        · simp only [closureJust, List.any_eq_true, Bool.and_eq_true, beq_iff_eq,
            List.contains_eq_mem, decide_eq_true_eq] at hc
          obtain ⟨⟨p', d', a'⟩, hm2, hX, hb⟩ := hc
          exact RV.closure VF (ih p' d' a' hm2) hX hq hb
      · have hs : s ≠ 0 := by simpa using h1
        exact hk hs p d a (List.mem_cons_self ..)
    · exact ih p d a hm'

/-- every item of the top state is run-valid for the stack -/
theorem VStk.rv {G : NGrammar} {T : PTables} {c : CertLA} {fcv fc : FirstCert}
    (VF : ValidFacts G T c fcv) (F : CompleteFacts G T fc c) (hf : firstOk G fc = true)
    {cfg : PCfg} (hA : ActsOk cfg) (hT : cfg.T = T) {ss : List Nat} {γ : List Sym}
    (h : VStk T ss γ) :
    ∀ p d a, (p, d, a) ∈ c[ss.headD 0]?.getD [] → RV G cfg γ.reverse ss p d a := by
  induction h with
  | base =>
    intro p d a hm
    exact itemsJust_rv VF (γ := []) (ss := [0]) (s := 0) (fun _ => ⟨rfl, rfl⟩) (VF.just 0)
      (fun h => absurd rfl h) p d a (by simpa using hm)
  | @push s ss γ X s' h1 he ih =>
    intro p d a hm
    obtain ⟨hs', hk⟩ := VF.edge s X s' he
    refine itemsJust_rv VF (s := s') (fun h => absurd h hs') (VF.just s') ?_ p d a
      (by simpa using hm)
    intro _ p d a hm
    obtain ⟨hX, hm'⟩ := hk p d a (by simpa using hm)
    rw [List.reverse_cons]
    exact (ih p d a (by simpa using hm')).advance F hf hA hT (by simpa using hm') hX he

end Gocc.ParseTerm
