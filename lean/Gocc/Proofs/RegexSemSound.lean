import Gocc.Proofs.RegexSemStep
/-
C01 (regular-expression semantics), part 4: SOUNDNESS — what the reference automaton accepts matches.

`Cont C i`: the *continuation language* of the item `i`, defined from the declarative semantics only:
what remains to be read in the node on top of the stack (`rem`), then in its parent after that child
(`after`), … up to the root.  It is an invariant of runs read backwards (`cont_step`, `cont_rune`):
    Run C i w f,  [] ∈ Cont C f   ⟹   w ∈ Cont C i
and `Cont` of the start item of a production is the language of its pattern.
-/
namespace Gocc
namespace RegexS

open EmovesU LexGenC

/-- what remains to be read inside node `n` at position `pos` -/
def rem : LNode → Nat → Lang
  | .alt a, pos => denTerms (a.terms.drop pos)
  | .pat p, pos => if pos = 0 then denPat p else eps
  | .grp p, pos => if pos = 0 then denPat p else eps
  | .opt p, pos => if pos = 0 then denTerm (.opt p) else eps
  | .rep p, _ => denTerm (.rep p)

/-- what remains to be read in node `n` once its child `j` is finished -/
def after : LNode → Nat → Lang
  | .alt a, j => denTerms (a.terms.drop (j + 1))
  | .rep p, _ => denTerm (.rep p)
  | _, _ => eps

/-- what remains to be read after the node at `q` (below `n`) is finished, `K` after `n` itself -/
def up : LNode → List Nat → Lang → Lang
  | _, [], K => K
  | n, j :: q, K =>
    match n.child j with
    | some c => up c q (cat (after n j) K)
    | none => fun _ => False

theorem up_snoc : ∀ (q : List Nat) (r m c : LNode) (j : Nat) (K : Lang), node r q = some m →
    m.child j = some c → up r (q ++ [j]) K = cat (after m j) (up r q K) := by
  intro q
  induction q with
  | nil =>
    intro r m c j K hm hc
    simp only [node, Option.some.injEq] at hm
    subst hm
    simp only [List.nil_append, up, hc]
  | cons a q ih =>
    intro r m c j K hm hc
    simp only [node] at hm
    cases hc' : r.child a with
    | none => rw [hc'] at hm; simp at hm
    | some c' =>
      rw [hc'] at hm
      simp only [Option.bind_some] at hm
      simp only [List.cons_append, up, hc']
      exact ih c' m c j _ hm hc

def contL (r : LNode) (path : List Nat) : Lang :=
  match path.getLast?, node r path.dropLast with
  | some pos, some n => cat (rem n pos) (up r path.dropLast eps)
  | _, _ => fun _ => False

/-- the continuation language of an item -/
def Cont (C : LexCtx) (i : LItem) : Lang :=
  match C.prods[i.prod]? with
  | some P => contL (.pat P.pat) i.path
  | none => fun _ => False

theorem cont_at {C : LexCtx} {k : Nat} {P : LProd} (hP : C.prods[k]? = some P) {q : List Nat}
    {n : LNode} (hn : node (.pat P.pat) q = some n) (pos : Nat) (w : List Int) :
    Cont C ⟨k, q ++ [pos]⟩ w ↔ cat (rem n pos) (up (.pat P.pat) q eps) w := by
  simp [Cont, hP, contL, hn]

/-! ### the language facts behind the ε-steps -/

theorem rem_enter {n : LNode} {m : Nat} {a : LAlt} {pos : Nat} (hpl : isPatLike n = true)
    (hc : n.child m = some (.alt a)) (hok : pos = 0 ∨ ∃ p, n = .rep p) :
    ∀ w, cat (denTerms a.terms) (after n m) w → rem n pos w := by
  obtain ⟨p, hn, ha⟩ := child_patlike_alt hpl hc
  have hden : ∀ u, denTerms a.terms u → denPat p u := fun u hu => (denPat_iff p u).2 ⟨m, a, ha, hu⟩
  intro w hw
  rcases hn with rfl | rfl | rfl | rfl
  · have h0 : pos = 0 := by
      rcases hok with h | ⟨_, h⟩
      · exact h
      · cases h
    subst h0
    simp only [after] at hw
    simp only [rem, if_true]
    exact hden w (cat_eps_right.1 hw)
  · have h0 : pos = 0 := by
      rcases hok with h | ⟨_, h⟩
      · exact h
      · cases h
    subst h0
    simp only [after] at hw
    simp only [rem, if_true]
    exact hden w (cat_eps_right.1 hw)
  · have h0 : pos = 0 := by
      rcases hok with h | ⟨_, h⟩
      · exact h
      · cases h
    subst h0
    simp only [after] at hw
    simp only [rem, if_true]
    rw [denTerm_opt]
    exact Or.inr (hden w (cat_eps_right.1 hw))
  · simp only [after, denTerm_rep] at hw
    simp only [rem, denTerm_rep]
    obtain ⟨u, v, rfl, hu, hv⟩ := hw
    exact .cons (hden u hu) hv

theorem rem_end_after {pn : LNode} {m : Nat} (hpl : isPatLike pn = true) (hm : m < pn.len) :
    ∀ w, rem pn pn.len w → after pn m w := by
  intro w hw
  have hne : pn.len ≠ 0 := by omega
  cases pn with
  | alt _ => simp [isPatLike] at hpl
  | pat p => simpa [rem, after, hne] using hw
  | grp p => simpa [rem, after, hne] using hw
  | opt p => simpa [rem, after, hne] using hw
  | rep p => simpa [rem, after] using hw

/-- entering a `( )`, `[ ]`, `{ }` node: what remains in it is the language of the term -/
theorem rem_child0 {a : LAlt} {j : Nat} {c : LNode} (hc : (LNode.alt a).child j = some c) :
    ∃ t, a.terms[j]? = some t ∧ rem c 0 = denTerm t := by
  obtain ⟨p, h | h | h⟩ := child_alt_term hc
  · obtain ⟨ht, rfl⟩ := h
    exact ⟨_, ht, by simp [rem, denTerm_grp]⟩
  · obtain ⟨ht, rfl⟩ := h
    exact ⟨_, ht, by simp [rem]⟩
  · obtain ⟨ht, rfl⟩ := h
    exact ⟨_, ht, by simp [rem]⟩

theorem denTerm_of_termHas {t : LTerm} {c : Int} (h : termHas t c = true) : denTerm t [c] := by
  cases t with
  | lit v =>
    simp only [termHas, beq_iff_eq] at h
    rw [denTerm_lit, h]
  | rng lo hi =>
    simp only [termHas, Bool.and_eq_true, decide_eq_true_eq] at h
    rw [denTerm_rng]
    exact ⟨c, rfl, h.1, h.2⟩
  | _ => simp [termHas] at h

theorem sub_path_ne_nil {P : LPat} {q : List Nat} {n : LNode} (hn : node (.pat P) q = some n)
    (hnp : ∀ p, n ≠ .pat p) : q ≠ [] := by
  intro h; subst h
  simp only [node, Option.some.injEq] at hn
  exact hnp P hn.symm

/-! ### the steps, read backwards -/

theorem cont_enter {C : LexCtx} {k : Nat} {P : LProd} (hP : C.prods[k]? = some P) {q : List Nat}
    {n : LNode} (hn : node (.pat P.pat) q = some n) (hpl : isPatLike n = true) {k' : Nat}
    (hk' : k' < n.len) {pos : Nat} (hok : pos = 0 ∨ ∃ p, n = .rep p) (w : List Int) :
    Cont C ⟨k, q ++ [k'] ++ [0]⟩ w → Cont C ⟨k, q ++ [pos]⟩ w := by
  obtain ⟨a, ha⟩ := child_of_lt_patlike hpl hk'
  have hna : node (.pat P.pat) (q ++ [k']) = some (.alt a) := by rw [node_snoc, hn]; exact ha
  rw [cont_at hP hna, cont_at hP hn, up_snoc q _ n _ k' eps hn ha]
  intro h
  have h' : cat (cat (denTerms a.terms) (after n k')) (up (.pat P.pat) q eps) w := by
    apply cat_assoc.2
    simpa [rem] using h
  exact cat_mono (rem_enter hpl ha hok) (fun _ h => h) w h'

theorem cont_post {C : LexCtx} {k : Nat} {P : LProd} (hP : C.prods[k]? = some P) {q : List Nat}
    {n : LNode} (hn : node (.pat P.pat) q = some n) (hpl : isPatLike n = true) (hq : q ≠ [])
    {pos : Nat} (hok : rem n pos []) (w : List Int) :
    Cont C ⟨k, incLast q⟩ w → Cont C ⟨k, q ++ [pos]⟩ w := by
  obtain ⟨q', j, a, rfl, hpar, hc⟩ := sub_parent hn hpl hq
  rw [incLast_snoc, cont_at hP hpar, cont_at hP hn, up_snoc q' _ _ _ j eps hpar hc]
  intro h
  exact ⟨[], w, rfl, hok, by simpa [rem, after] using h⟩

theorem cont_alt_end {C : LexCtx} {k : Nat} {P : LProd} (hP : C.prods[k]? = some P) {q' : List Nat}
    {m : Nat} {pn : LNode} {a : LAlt} (hpn : node (.pat P.pat) q' = some pn)
    (hc : pn.child m = some (.alt a)) (hpl : isPatLike pn = true) {pos : Nat}
    (hpos : a.terms.length ≤ pos) (w : List Int) :
    Cont C ⟨k, q' ++ [pn.len]⟩ w → Cont C ⟨k, q' ++ [m] ++ [pos]⟩ w := by
  have hn : node (.pat P.pat) (q' ++ [m]) = some (.alt a) := by rw [node_snoc, hpn]; exact hc
  rw [cont_at hP hpn, cont_at hP hn, up_snoc q' _ pn _ m eps hpn hc]
  intro h
  refine ⟨[], w, rfl, ?_, cat_mono (rem_end_after hpl (child_lt hc)) (fun _ h => h) w h⟩
  simp only [rem]
  exact (denTerms_drop_ge hpos []).2 rfl

theorem cont_push {C : LexCtx} {k : Nat} {P : LProd} (hP : C.prods[k]? = some P) {q : List Nat}
    {a : LAlt} (hn : node (.pat P.pat) q = some (.alt a)) {pos : Nat} {c : LNode}
    (hc : (LNode.alt a).child pos = some c) (w : List Int) :
    Cont C ⟨k, q ++ [pos] ++ [0]⟩ w → Cont C ⟨k, q ++ [pos]⟩ w := by
  have hnc : node (.pat P.pat) (q ++ [pos]) = some c := by rw [node_snoc, hn]; exact hc
  obtain ⟨t, ht, hrem⟩ := rem_child0 hc
  rw [cont_at hP hnc, cont_at hP hn, up_snoc q _ _ _ pos eps hn hc, hrem]
  intro h
  have h' := cat_assoc.2 h
  refine cat_mono ?_ (fun _ h => h) w h'
  intro u hu
  simp only [rem]
  exact (denTerms_drop ht u).2 (by simpa [after] using hu)

theorem cont_rune {C : LexCtx} {k : Nat} {P : LProd} (hP : C.prods[k]? = some P) {q : List Nat}
    {a : LAlt} (hn : node (.pat P.pat) q = some (.alt a)) {pos : Nat} {t : LTerm}
    (ht : a.terms[pos]? = some t) {c : Int} (hh : termHas t c = true) (w : List Int) :
    Cont C ⟨k, q ++ [pos + 1]⟩ w → Cont C ⟨k, q ++ [pos]⟩ (c :: w) := by
  rw [cont_at hP hn, cont_at hP hn]
  rintro ⟨u, v, rfl, hu, hv⟩
  refine ⟨c :: u, v, by simp, ?_, hv⟩
  simp only [rem] at hu ⊢
  exact (denTerms_drop ht _).2 ⟨[c], u, rfl, denTerm_of_termHas hh, hu⟩

theorem expected_none_of_nonbasic {C : LexCtx} {i : LItem} (h : C.isBasic i = false) :
    C.expected i = none := by
  simp only [LexCtx.isBasic, Bool.or_eq_false_iff] at h
  simpa using h.2

/-- an ε-step, read backwards, stays inside the continuation language -/
theorem cont_step {C : LexCtx} {k : Nat} {P : LProd} (hP : C.prods[k]? = some P) {q : List Nat}
    {n : LNode} {pos : Nat} (hn : node (.pat P.pat) q = some n)
    (hnb : C.isBasic ⟨k, q ++ [pos]⟩ = false) :
    ∀ y ∈ emoveStep C ⟨k, q ++ [pos]⟩, ∀ w, Cont C y w → Cont C ⟨k, q ++ [pos]⟩ w := by
  intro y hy w hw
  cases n with
  | pat p =>
    have hq := node_pat_root hn
    subst hq
    have hp : LNode.pat P.pat = .pat p := by simpa [node] using hn
    cases hp
    simp only [List.nil_append] at hy hnb ⊢
    rw [step_root hP] at hy
    split at hy
    · rename_i h0
      simp only [List.mem_map, List.mem_range] at hy
      obtain ⟨k', hk', rfl⟩ := hy
      exact cont_enter hP (q := []) hn rfl (by simpa [LNode.len] using hk') (Or.inl h0) w
        (by simpa using hw)
    · rename_i h0
      simp only [List.mem_singleton] at hy
      subst hy
      have hlt : pos < P.pat.alts.length := by
        apply Classical.byContradiction
        intro hge
        have : C.isReduce ⟨k, [pos]⟩ = true := by rw [isReduce_root hP]; simp; omega
        simp [LexCtx.isBasic, this] at hnb
      have hne : P.pat.alts.length ≠ 0 := by omega
      have h1 := (cont_at hP (q := []) hn P.pat.alts.length w).1 (by simpa using hw)
      have h2 := (cont_at hP (q := []) hn pos w).2 (by simpa [rem, h0, hne] using h1)
      simpa using h2
  | grp p =>
    have hq := sub_path_ne_nil hn (by intro p' h; cases h)
    rw [step_grp hP hn] at hy
    split at hy
    · rename_i h0
      obtain ⟨k', hk', rfl⟩ := mem_enterL.1 hy
      exact cont_enter hP hn rfl hk' (Or.inl h0) w hw
    · rename_i h0
      simp only [List.mem_singleton] at hy
      subst hy
      exact cont_post hP hn rfl hq (by simp [rem, h0, eps]) w hw
  | opt p =>
    have hq := sub_path_ne_nil hn (by intro p' h; cases h)
    have hok : rem (.opt p) pos [] := by
      by_cases h0 : pos = 0
      · simp only [rem, h0, if_true]; rw [denTerm_opt]; exact Or.inl rfl
      · simp [rem, h0, eps]
    rw [step_opt hP hn] at hy
    split at hy
    · rename_i h0
      rcases List.mem_append.1 hy with hy | hy
      · obtain ⟨k', hk', rfl⟩ := mem_enterL.1 hy
        exact cont_enter hP hn rfl hk' (Or.inl h0) w hw
      · simp only [List.mem_singleton] at hy
        subst hy
        exact cont_post hP hn rfl hq hok w hw
    · simp only [List.mem_singleton] at hy
      subst hy
      exact cont_post hP hn rfl hq hok w hw
  | rep p =>
    have hq := sub_path_ne_nil hn (by intro p' h; cases h)
    rw [step_rep hP hn] at hy
    rcases List.mem_append.1 hy with hy | hy
    · obtain ⟨k', hk', rfl⟩ := mem_enterL.1 hy
      exact cont_enter hP hn rfl hk' (Or.inr ⟨p, rfl⟩) w hw
    · simp only [List.mem_singleton] at hy
      subst hy
      exact cont_post hP hn rfl hq (by simp only [rem, denTerm_rep]; exact .nil) w hw
  | alt a =>
    have hexp : (LNode.alt a).termAt pos = none := by
      rw [← expected_at hP hn]; exact expected_none_of_nonbasic hnb
    by_cases hlt : pos < a.terms.length
    · obtain ⟨c, hc⟩ := alt_child_of_not_term hlt hexp
      rw [step_alt_push hP hn hlt] at hy
      simp only [List.mem_singleton] at hy
      subst hy
      exact cont_push hP hn hc w hw
    · obtain ⟨q', m, pn, rfl, hpn, hc, hpl⟩ := alt_parent hn
      rw [step_alt_end hP hpn hn (Nat.not_lt.1 hlt)] at hy
      simp only [List.mem_singleton] at hy
      subst hy
      exact cont_alt_end hP hpn hc hpl (Nat.not_lt.1 hlt) w hw

/-- the term a basic (non-reduce) item expects is the term of its alternative at its position -/
theorem expected_term {C : LexCtx} {k : Nat} {P : LProd} (hP : C.prods[k]? = some P) {q : List Nat}
    {n : LNode} {pos : Nat} (hn : node (.pat P.pat) q = some n) {t : LTerm}
    (he : C.expected ⟨k, q ++ [pos]⟩ = some t) : ∃ a, n = .alt a ∧ a.terms[pos]? = some t := by
  rw [expected_at hP hn] at he
  cases n with
  | alt a =>
    refine ⟨a, rfl, ?_⟩
    simp only [LNode.termAt] at he
    cases h : a.terms[pos]? with
    | none => rw [h] at he; simp at he
    | some t' =>
      rw [h] at he
      cases t' <;> simp at he <;> subst he <;> rfl
  | _ => simp [LNode.termAt] at he

/-- SOUNDNESS of runs: a run to an item after which nothing has to be read reads a string of the
    continuation language of its first item -/
theorem run_cont {C : LexCtx} {i f : LItem} {w : List Int} (h : Run C i w f) (hi : Pos C i)
    (hf : Cont C f []) : Cont C i w := by
  induction h with
  | refl => exact hf
  | @eps i j f w hnb hj _ ih =>
    have hj' := ih (pos_step hnb _ hj) hf
    obtain ⟨P, hP, q, pos, n, hpath, hn, _⟩ := hi
    cases i with
    | mk k l =>
      simp only at hP hpath
      subst hpath
      exact cont_step hP hn hnb j hj w hj'
  | @rune i f t c w he hh _ ih =>
    have hj' := ih (pos_adv he) hf
    obtain ⟨P, hP, q, pos, n, hpath, hn, _⟩ := hi
    cases i with
    | mk k l =>
      simp only at hP hpath
      subst hpath
      obtain ⟨a, rfl, ht⟩ := expected_term hP hn he
      rw [adv_at] at hj'
      exact cont_rune hP hn ht hh w hj'

/-- the continuation language of the start item is the language of the pattern -/
theorem cont_start {C : LexCtx} {k : Nat} {P : LProd} (hP : C.prods[k]? = some P) (w : List Int) :
    Cont C ⟨k, [0]⟩ w ↔ denPat P.pat w := by
  have := cont_at hP (q := []) (n := .pat P.pat) rfl 0 w
  simp only [List.nil_append] at this
  rw [this]
  simp only [rem, if_true, up]
  exact cat_eps_right

/-- after the completed item of a pattern with at least one alternative nothing has to be read -/
theorem cont_final {C : LexCtx} {k : Nat} {P : LProd} (hP : C.prods[k]? = some P)
    (hne : P.pat.alts ≠ []) {pos : Nat} (hpos : P.pat.alts.length ≤ pos) : Cont C ⟨k, [pos]⟩ [] := by
  have := cont_at hP (q := []) (n := .pat P.pat) rfl pos []
  simp only [List.nil_append] at this
  rw [this]
  have h0 : pos ≠ 0 := by
    have : P.pat.alts.length ≠ 0 := fun h => hne (List.eq_nil_of_length_eq_zero h)
    omega
  simp only [rem, h0, if_false, up]
  exact ⟨[], [], rfl, rfl, rfl⟩

end RegexS
end Gocc
