import Gocc.Props.C09Emoves
import Gocc.Props.C18
import Gocc.Model.LexEquiv
/-
C01 (generator level), part 1: lexical parts WITHOUT references to regular definitions.

  * `noRefs`: no `LTerm.ref` anywhere in the patterns (structural);
  * without references no item expects a `.ref` (`expected_ne_ref`), hence
    (M1) `closureL C l = .ok l`, `depClosure C prev l = l` for ALL item lists, and `nextSet` / `nextDot`
    are the deduplicated unions of the `moved` items (`nextSet_eq`, `nextDot_eq`, `mem_moveSet`, …);
  * list facts about `addL` / `addAll` (membership, `Nodup`, order by production index);
  * `Pos C y`: `y` is a dotted position of the pattern tree of its production (the universe of
    `Gocc/Proofs/EmovesUniverse.lean`), closed under the ε-step and under moving over a terminal.
-/
namespace Gocc

/-! ### `noRefs` -/

/-- no `LTerm.ref` anywhere in the pattern -/
def LPat.noRefs : LPat → Bool
  | .mk alts => nrAlts alts
where
  nrAlts : List LAlt → Bool
    | [] => true
    | (.mk ts) :: rest => nrTerms ts && nrAlts rest
  nrTerms : List LTerm → Bool
    | [] => true
    | t :: rest => (match t with
        | .ref _ => false
        | .opt p | .rep p | .grp p => LPat.noRefs p
        | _ => true) && nrTerms rest

/-- no `LTerm.ref` anywhere in the patterns of the lexical part -/
def noRefs (prods : List LProd) : Bool := prods.all fun p => p.pat.noRefs

namespace LexGenC

open EmovesU

/-! ### nodes below a reference-free pattern are reference-free -/

def nodeNR : LNode → Bool
  | .pat p | .grp p | .opt p | .rep p => p.noRefs
  | .alt a => LPat.noRefs.nrTerms a.terms

theorem nrAlts_get : ∀ (alts : List LAlt) (j : Nat) (a : LAlt), alts[j]? = some a →
    LPat.noRefs.nrAlts alts = true → LPat.noRefs.nrTerms a.terms = true
  | [], j, a, h, _ => by simp at h
  | (.mk ts) :: rest, 0, a, h, hn => by
    simp only [List.getElem?_cons_zero, Option.some.injEq] at h
    subst h
    simp only [LPat.noRefs.nrAlts, Bool.and_eq_true] at hn
    exact hn.1
  | (.mk ts) :: rest, j + 1, a, h, hn => by
    simp only [List.getElem?_cons_succ] at h
    simp only [LPat.noRefs.nrAlts, Bool.and_eq_true] at hn
    exact nrAlts_get rest j a h hn.2

def termNR : LTerm → Bool
  | .ref _ => false
  | .opt p | .rep p | .grp p => p.noRefs
  | _ => true

theorem nrTerms_cons (t : LTerm) (rest : List LTerm) :
    LPat.noRefs.nrTerms (t :: rest) = (termNR t && LPat.noRefs.nrTerms rest) := by
  cases t <;> rw [LPat.noRefs.nrTerms] <;> first | rfl | (intro p h; cases h)

theorem nrTerms_get : ∀ (ts : List LTerm) (j : Nat) (t : LTerm), ts[j]? = some t →
    LPat.noRefs.nrTerms ts = true → termNR t = true
  | [], j, a, h, _ => by simp at h
  | t0 :: rest, 0, a, h, hn => by
    simp only [List.getElem?_cons_zero, Option.some.injEq] at h
    subst h
    rw [nrTerms_cons, Bool.and_eq_true] at hn
    exact hn.1
  | t0 :: rest, j + 1, a, h, hn => by
    simp only [List.getElem?_cons_succ] at h
    rw [nrTerms_cons, Bool.and_eq_true] at hn
    exact nrTerms_get rest j a h hn.2

theorem noRefs_mk (alts : List LAlt) : (LPat.mk alts).noRefs = LPat.noRefs.nrAlts alts := by
  rw [LPat.noRefs]

theorem child_nodeNR {n c : LNode} {j : Nat} (h : n.child j = some c) (hn : nodeNR n = true) :
    nodeNR c = true := by
  cases n with
  | alt a =>
    simp only [LNode.child] at h
    simp only [nodeNR] at hn
    cases ht : a.terms[j]? with
    | none => rw [ht] at h; simp at h
    | some t =>
      rw [ht] at h
      have := nrTerms_get _ _ _ ht hn
      cases t <;> simp at h <;> subst h <;> simpa [nodeNR, termNR] using this
  | pat p | grp p | opt p | rep p =>
    cases p with
    | mk alts =>
      simp only [LNode.child, LPat.alts] at h
      simp only [nodeNR, noRefs_mk] at hn
      cases ht : alts[j]? with
      | none => rw [ht] at h; simp at h
      | some a =>
        rw [ht] at h
        simp only [Option.map_some, Option.some.injEq] at h
        subst h
        exact nrAlts_get _ _ _ ht hn

theorem node_nodeNR : ∀ (q : List Nat) (r m : LNode), node r q = some m → nodeNR r = true →
    nodeNR m = true := by
  intro q
  induction q with
  | nil => intro r m h hr; simp only [node, Option.some.injEq] at h; subst h; exact hr
  | cons a q ih =>
    intro r m h hr
    simp only [node] at h
    cases hc : r.child a with
    | none => rw [hc] at h; simp at h
    | some c =>
      rw [hc] at h
      exact ih c m (by simpa using h) (child_nodeNR hc hr)

theorem termAt_ne_ref {n : LNode} (hn : nodeNR n = true) (pos : Nat) (r : String) :
    n.termAt pos ≠ some (.ref r) := by
  cases n with
  | alt a =>
    simp only [LNode.termAt]
    simp only [nodeNR] at hn
    cases ht : a.terms[pos]? with
    | none => simp
    | some t =>
      have := nrTerms_get _ _ _ ht hn
      cases t <;> simp [termNR] at this ⊢
  | pat p | grp p | opt p | rep p => simp [LNode.termAt]

/-- the context's patterns contain no reference -/
def NoRefC (C : LexCtx) : Prop := ∀ (k : Nat) (P : LProd), C.prods[k]? = some P → P.pat.noRefs = true

theorem noRefC_of_noRefs {prods : List LProd} (h : noRefs prods = true) :
    NoRefC { prods := prods.toArray } := by
  intro k P hP
  simp only [noRefs, List.all_eq_true] at h
  have hmem : P ∈ prods := by
    have : prods[k]? = some P := by simpa using hP
    exact List.mem_of_getElem? this
  exact h P hmem

/-- without references no item expects a reference -/
theorem expected_ne_ref {C : LexCtx} (hC : NoRefC C) (i : LItem) (r : String) :
    C.expected i ≠ some (.ref r) := by
  unfold LexCtx.expected
  cases htop : C.top i with
  | none => simp
  | some np =>
    obtain ⟨n, pos⟩ := np
    dsimp only
    unfold LexCtx.top at htop
    cases hP : C.prods[i.prod]? with
    | none => rw [hP] at htop; simp at htop
    | some P =>
      rw [hP] at htop
      simp only [Option.bind_some] at htop
      obtain ⟨q, _, hq⟩ := walk_some htop
      exact termAt_ne_ref (node_nodeNR q _ _ hq (by simpa [nodeNR] using hC _ _ hP)) pos r

/-! ### (M1) `closureL`, `depClosure` are the identity -/

theorem closureLoopL_id {C : LexCtx} (hC : NoRefC C) (orig : List LItem) :
    ∀ (fuel k : Nat) (cl : List LItem), closureLoopL C orig fuel k cl = .ok cl := by
  intro fuel
  induction fuel with
  | zero => intro k cl; rfl
  | succ fuel ih =>
    intro k cl
    unfold closureLoopL
    cases hk : cl[k]? with
    | none => rfl
    | some i =>
      dsimp only
      cases he : C.expected i with
      | none => exact ih _ _
      | some t =>
        cases t with
        | ref r => exact absurd he (expected_ne_ref hC i r)
        | _ => exact ih _ _

/-- (M1) `ItemList.Closure` does nothing when there are no references -/
theorem closureL_id {C : LexCtx} (hC : NoRefC C) (l : List LItem) : closureL C l = .ok l :=
  closureLoopL_id hC l _ 0 l

theorem foldl_id_of {α β : Type} (g : β → α → β) : ∀ (l : List α) (b : β),
    (∀ acc a, g acc a = acc) → l.foldl g b = b := by
  intro l
  induction l with
  | nil => intro b _; rfl
  | cons a l ih => intro b h; simp only [List.foldl_cons, h]; exact ih b h

theorem depLoop_id {C : LexCtx} (hC : NoRefC C) (prev : List LItem) :
    ∀ (fuel k : Nat) (items : List LItem), depLoop C prev fuel k items = items := by
  intro fuel
  induction fuel with
  | zero => intro k items; rfl
  | succ fuel ih =>
    intro k items
    unfold depLoop
    cases hk : items[k]? with
    | none => rfl
    | some it =>
      dsimp only
      rw [foldl_id_of]
      · exact ih _ _
      · intro acc th
        split
        · rename_i r he; exact absurd he (expected_ne_ref hC th r)
        · rfl

/-- (M1) `dependentsClosure` does nothing when there are no references -/
theorem depClosure_id {C : LexCtx} (hC : NoRefC C) (prev l : List LItem) : depClosure C prev l = l := by
  unfold depClosure
  split
  · rfl
  · exact depLoop_id hC prev _ 0 l

/-- the deduplicated union of the items moved over class `c` -/
def moveSet (C : LexCtx) (prev : List LItem) (c : CR) : List LItem :=
  prev.foldl (fun acc i => addAll acc (moveOn C i c)) []

/-- the deduplicated union of the items moved over `.` -/
def dotSet (C : LexCtx) (prev : List LItem) : List LItem :=
  prev.foldl (fun acc i => addAll acc (moveDot C i)) []

/-- (M1) `ItemSet.Next(rng)` without references -/
theorem nextSet_eq {C : LexCtx} (hC : NoRefC C) (prev : List LItem) (c : CR) :
    nextSet C prev c = .ok (moveSet C prev c) := by
  unfold nextSet
  rw [depClosure_id hC, closureL_id hC]; rfl

/-- (M1) `ItemSet.NextDot()` without references -/
theorem nextDot_eq {C : LexCtx} (hC : NoRefC C) (prev : List LItem) :
    nextDot C prev = .ok (dotSet C prev) := by
  unfold nextDot
  rw [depClosure_id hC, closureL_id hC]; rfl

/-! ### `addL`, `addAll` -/

theorem mem_addL {l : List LItem} {i x : LItem} : x ∈ addL l i ↔ x ∈ l ∨ x = i := by
  unfold addL
  split
  · rename_i h
    have : i ∈ l := by simpa using h
    constructor
    · exact Or.inl
    · rintro (h | rfl)
      · exact h
      · exact this
  · simp

theorem mem_addAll {is : List LItem} : ∀ {l : List LItem} {x : LItem},
    x ∈ addAll l is ↔ x ∈ l ∨ x ∈ is := by
  induction is with
  | nil => intro l x; simp [addAll]
  | cons i is ih =>
    intro l x
    have := ih (l := addL l i) (x := x)
    simp only [addAll, List.foldl_cons] at this ⊢
    rw [this, mem_addL]
    simp only [List.mem_cons]
    constructor
    · rintro ((h | h) | h)
      · exact Or.inl h
      · exact Or.inr (Or.inl h)
      · exact Or.inr (Or.inr h)
    · rintro (h | h | h)
      · exact Or.inl (Or.inl h)
      · exact Or.inl (Or.inr h)
      · exact Or.inr h

theorem nodup_addL {l : List LItem} (h : l.Nodup) (i : LItem) : (addL l i).Nodup := by
  unfold addL
  split
  · exact h
  · rename_i hc
    have : i ∉ l := by simpa using hc
    rw [List.nodup_append]
    refine ⟨h, by simp, ?_⟩
    intro a ha b hb
    simp only [List.mem_singleton] at hb
    subst hb
    intro hab; subst hab; exact this ha

theorem nodup_addAll {is : List LItem} : ∀ {l : List LItem}, l.Nodup → (addAll l is).Nodup := by
  induction is with
  | nil => intro l h; exact h
  | cons i is ih =>
    intro l h
    simp only [addAll, List.foldl_cons]
    exact ih (nodup_addL h i)

/-- membership in a deduplicated union -/
theorem mem_foldl_addAll {α : Type} (f : α → List LItem) : ∀ (prev : List α) (init : List LItem)
    (x : LItem),
    x ∈ prev.foldl (fun acc i => addAll acc (f i)) init ↔ x ∈ init ∨ ∃ i ∈ prev, x ∈ f i := by
  intro prev
  induction prev with
  | nil => intro init x; simp
  | cons i prev ih =>
    intro init x
    simp only [List.foldl_cons]
    rw [ih, mem_addAll]
    simp only [List.mem_cons, exists_eq_or_imp]
    constructor
    · rintro ((h | h) | h)
      · exact Or.inl h
      · exact Or.inr (Or.inl h)
      · exact Or.inr (Or.inr h)
    · rintro (h | h | h)
      · exact Or.inl (Or.inl h)
      · exact Or.inl (Or.inr h)
      · exact Or.inr h

theorem nodup_foldl_addAll {α : Type} (f : α → List LItem) : ∀ (prev : List α) (init : List LItem),
    init.Nodup → (prev.foldl (fun acc i => addAll acc (f i)) init).Nodup := by
  intro prev
  induction prev with
  | nil => intro init h; exact h
  | cons i prev ih => intro init h; exact ih _ (nodup_addAll h)

/-! ### lists ordered by production index -/

/-- production indices never decrease along the list -/
def ProdSorted (l : List LItem) : Prop := l.Pairwise (fun a b => a.prod ≤ b.prod)

theorem prodSorted_append_singleton {l : List LItem} {i : LItem} (h : ProdSorted l)
    (hb : ∀ x ∈ l, x.prod ≤ i.prod) : ProdSorted (l ++ [i]) := by
  unfold ProdSorted at *
  rw [List.pairwise_append]
  refine ⟨h, by simp, ?_⟩
  intro a ha b hb'
  simp only [List.mem_singleton] at hb'
  subst hb'
  exact hb a ha

theorem prodSorted_addL {l : List LItem} {i : LItem} (h : ProdSorted l)
    (hb : ∀ x ∈ l, x.prod ≤ i.prod) : ProdSorted (addL l i) := by
  unfold addL
  split
  · exact h
  · exact prodSorted_append_singleton h hb

/-- adding items of production `k` to a sorted list bounded by `k` -/
theorem prodSorted_addAll {k : Nat} {is : List LItem} (his : ∀ x ∈ is, x.prod = k) :
    ∀ {l : List LItem}, ProdSorted l → (∀ x ∈ l, x.prod ≤ k) →
      ProdSorted (addAll l is) ∧ ∀ x ∈ addAll l is, x.prod ≤ k := by
  induction is with
  | nil => intro l h hb; exact ⟨h, hb⟩
  | cons i is ih =>
    intro l h hb
    simp only [addAll, List.foldl_cons]
    have hi : i.prod = k := his i List.mem_cons_self
    refine ih (fun x hx => his x (List.mem_cons_of_mem _ hx))
      (prodSorted_addL h (fun x hx => by rw [hi]; exact hb x hx)) ?_
    intro x hx
    rcases mem_addL.1 hx with hx | rfl
    · exact hb x hx
    · omega

/-- a deduplicated union, over a list sorted by `key`, of lists of production `key a` -/
theorem prodSorted_foldl_addAll {α : Type} (key : α → Nat) (f : α → List LItem)
    (hf : ∀ a, ∀ x ∈ f a, x.prod = key a) :
    ∀ (prev : List α) (init : List LItem) (k : Nat), prev.Pairwise (fun a b => key a ≤ key b) →
      (∀ x ∈ prev, k ≤ key x) → ProdSorted init → (∀ x ∈ init, x.prod ≤ k) →
      ProdSorted (prev.foldl (fun acc i => addAll acc (f i)) init) := by
  intro prev
  induction prev with
  | nil => intro init k _ _ h _; exact h
  | cons i prev ih =>
    intro init k hp hk hi hik
    simp only [List.foldl_cons]
    have hp' := List.pairwise_cons.1 hp
    have hki : k ≤ key i := hk i List.mem_cons_self
    obtain ⟨h1, h2⟩ := prodSorted_addAll (k := key i) (hf i) hi (fun x hx => by
      have := hik x hx; omega)
    exact ih _ (key i) hp'.2 (fun x hx => hp'.1 x hx) h1 h2

/-! ### items of `emoves` stay in their production -/

theorem emoveStep_prod (C : LexCtx) (i : LItem) : ∀ y ∈ emoveStep C i, y.prod = i.prod := by
  intro y hy
  unfold emoveStep at hy
  cases htop : C.top i with
  | none => rw [htop] at hy; cases hy
  | some np =>
    obtain ⟨n, pos⟩ := np
    rw [htop] at hy
    dsimp only at hy
    cases n <;> dsimp only at hy <;> (repeat' split at hy) <;>
      simp only [List.mem_append, List.mem_map, List.mem_range, List.mem_singleton,
        List.not_mem_nil] at hy
    all_goals first
      | (rcases hy with ⟨_, _, rfl⟩ | hy
         · rfl
         · subst hy; rfl)
      | (obtain ⟨_, _, rfl⟩ := hy; rfl; done)
      | (subst hy; rfl)
      | exact absurd hy id

theorem EReach_prod {C : LexCtx} {s y : LItem} (h : EReach C s y) : y.prod = s.prod := by
  induction h with
  | refl => rfl
  | step _ _ hs ih => rw [emoveStep_prod C _ _ hs, ih]

theorem emoves_prod (C : LexCtx) (i : LItem) : ∀ y ∈ emoves C i, y.prod = i.prod :=
  fun y hy => EReach_prod ((C09_emoves_iff C i y).1 hy).1

theorem moved_prod (C : LexCtx) (i : LItem) : ∀ y ∈ moved C i, y.prod = i.prod :=
  fun y hy => emoves_prod C { i with path := incLast i.path } y hy

theorem moveOn_prod (C : LexCtx) (c : CR) (i : LItem) : ∀ y ∈ moveOn C i c, y.prod = i.prod := by
  intro y hy
  unfold moveOn at hy
  split at hy
  · split at hy
    · exact moved_prod C i y hy
    · cases hy
  · cases hy

theorem moveDot_prod (C : LexCtx) (i : LItem) : ∀ y ∈ moveDot C i, y.prod = i.prod := by
  intro y hy
  unfold moveDot at hy
  split at hy
  · exact moved_prod C i y hy
  · cases hy

/-! ### reduce items expect nothing -/

theorem expected_none_of_isReduce {C : LexCtx} {i : LItem} (h : C.isReduce i = true) :
    C.expected i = none := by
  unfold LexCtx.isReduce at h
  split at h
  · rename_i p n pos hpath htop
    unfold LexCtx.expected
    rw [htop]
    dsimp only
    unfold LexCtx.top at htop
    cases hP : C.prods[i.prod]? with
    | none => rw [hP] at htop; simp at htop
    | some P =>
      rw [hP, hpath] at htop
      simp only [Option.bind_some, walk, Option.some.injEq, Prod.mk.injEq] at htop
      rw [← htop.1]; rfl
  · cases h

theorem isReduce_false_of_expected {C : LexCtx} {i : LItem} {t : LTerm} (h : C.expected i = some t) :
    C.isReduce i = false := by
  cases hr : C.isReduce i with
  | false => rfl
  | true => rw [expected_none_of_isReduce hr] at h; cases h

/-! ### membership in `moveSet` / `dotSet` -/

theorem mem_moveSet {C : LexCtx} {prev : List LItem} {c : CR} {y : LItem} :
    y ∈ moveSet C prev c ↔
      ∃ i ∈ prev, ∃ t, C.expected i = some t ∧ termMatch t c = true ∧ y ∈ moved C i := by
  unfold moveSet
  rw [mem_foldl_addAll (fun i => moveOn C i c)]
  simp only [List.not_mem_nil, false_or]
  constructor
  · rintro ⟨i, hi, hy⟩
    unfold moveOn at hy
    split at hy
    · rename_i t ht
      split at hy
      · rename_i hm; exact ⟨i, hi, t, ht, hm, hy⟩
      · cases hy
    · cases hy
  · rintro ⟨i, hi, t, ht, hm, hy⟩
    refine ⟨i, hi, ?_⟩
    unfold moveOn
    rw [ht]; dsimp only; rw [if_pos hm]; exact hy

theorem mem_dotSet {C : LexCtx} {prev : List LItem} {y : LItem} :
    y ∈ dotSet C prev ↔ ∃ i ∈ prev, C.expected i = some .dot ∧ y ∈ moved C i := by
  unfold dotSet
  rw [mem_foldl_addAll (fun i => moveDot C i)]
  simp only [List.not_mem_nil, false_or]
  constructor
  · rintro ⟨i, hi, hy⟩
    unfold moveDot at hy
    split at hy
    · rename_i ht; exact ⟨i, hi, ht, hy⟩
    · cases hy
  · rintro ⟨i, hi, ht, hy⟩
    refine ⟨i, hi, ?_⟩
    unfold moveDot
    rw [ht]; exact hy

theorem nodup_moveSet (C : LexCtx) (prev : List LItem) (c : CR) : (moveSet C prev c).Nodup :=
  nodup_foldl_addAll _ prev [] List.nodup_nil

theorem nodup_dotSet (C : LexCtx) (prev : List LItem) : (dotSet C prev).Nodup :=
  nodup_foldl_addAll _ prev [] List.nodup_nil

theorem prodSorted_moveSet (C : LexCtx) {prev : List LItem} (c : CR) (h : ProdSorted prev) :
    ProdSorted (moveSet C prev c) :=
  prodSorted_foldl_addAll (fun i : LItem => i.prod) _ (moveOn_prod C c) prev [] 0 h (fun _ _ => Nat.zero_le _)
    List.Pairwise.nil (fun _ hx => by cases hx)

theorem prodSorted_dotSet (C : LexCtx) {prev : List LItem} (h : ProdSorted prev) :
    ProdSorted (dotSet C prev) :=
  prodSorted_foldl_addAll (fun i : LItem => i.prod) _ (moveDot_prod C) prev [] 0 h (fun _ _ => Nat.zero_le _)
    List.Pairwise.nil (fun _ hx => by cases hx)

end LexGenC
end Gocc
