import Gocc.Spec.Range
namespace Gocc

theorem WF_mono {b b' : Int} {l : List CR} (h : WF b l) (hb : b' ≤ b) : WF b' l := by
  cases l with
  | nil => trivial
  | cons r rest => exact ⟨by have := h.1; omega, h.2.1, h.2.2⟩

theorem addRange_WF (l : List CR) : ∀ (b f t : Int), WF b l → b < f → WF b (addRange l f t) := by
  induction l with
  | nil =>
    intro b f t _ hb
    unfold addRange
    split
    · exact ⟨hb, by assumption, trivial⟩
    · trivial
  | cons r rest ih =>
    intro b f t h hb
    obtain ⟨h1, h2, h3⟩ := h
    have ih1 := ih r.hi (r.hi + 1) t h3
    have ih2 := ih r.hi f t h3
    unfold addRange
    repeat' split
    all_goals (dsimp only [WF])
    all_goals (repeat' constructor)
    all_goals first
      | omega
      | exact h3
      | exact ih1 (by omega)
      | exact ih2 (by omega)
      | (subst_vars; exact h3)
      | (apply WF_mono (ih1 (by omega)); omega)

theorem addRange_cover (l : List CR) : ∀ (b f t x : Int), WF b l →
    (cover (addRange l f t) x ↔ cover l x ∨ (f ≤ x ∧ x ≤ t)) := by
  induction l with
  | nil =>
    intro b f t x _
    unfold addRange
    split <;> simp only [cover, false_or, or_false, false_iff] <;> omega
  | cons r rest ih =>
    intro b f t x h
    obtain ⟨h1, h2, h3⟩ := h
    have ih1 := ih r.hi (r.hi + 1) t x h3
    have ih2 := ih r.hi f t x h3
    unfold addRange
    repeat' split
    all_goals simp only [cover]
    all_goals (try rw [ih1])
    all_goals (try rw [ih2])
    all_goals (by_cases hc : cover rest x <;> simp only [hc, true_or, or_true, false_or, or_false] <;> omega)

end Gocc

namespace Gocc

theorem WF_mem {b : Int} {l : List CR} (h : WF b l) : ∀ c ∈ l, b < c.lo ∧ c.lo ≤ c.hi := by
  induction l generalizing b with
  | nil => intro c hc; cases hc
  | cons r rest ih =>
    intro c hc
    obtain ⟨h1, h2, h3⟩ := h
    rcases List.mem_cons.mp hc with rfl | hc
    · exact ⟨h1, h2⟩
    · have := ih h3 c hc; exact ⟨by omega, this.2⟩

theorem cover_iff_mem (l : List CR) (x : Int) : cover l x ↔ ∃ c ∈ l, c.lo ≤ x ∧ x ≤ c.hi := by
  induction l with
  | nil => simp [cover]
  | cons r rest ih => simp [cover, ih]

theorem cover_gt {b : Int} {l : List CR} (h : WF b l) {x : Int} (hx : cover l x) : b < x := by
  obtain ⟨c, hc, h1, _⟩ := (cover_iff_mem l x).mp hx
  have := WF_mem h c hc; omega

theorem addRange_empty (l : List CR) (f t : Int) (h : ¬ f ≤ t) : addRange l f t = l := by
  cases l with
  | nil => unfold addRange; simp [h]
  | cons r rest => unfold addRange; simp [h]

/-- All classes of the result are inside the added range or disjoint from it. -/
theorem addRange_refines_new (l : List CR) : ∀ (b f t : Int), WF b l → b < f → f ≤ t →
    Refines (addRange l f t) f t := by
  induction l with
  | nil =>
    intro b f t _ _ hft
    unfold addRange
    simp only [hft, if_true, Refines, List.forall_mem_cons]
    refine ⟨?_, ?_⟩
    · omega
    · intro c hc; cases hc
  | cons r rest ih =>
    intro b f t h hb hft
    obtain ⟨h1, h2, h3⟩ := h
    have key : ∀ c ∈ addRange rest (r.hi + 1) t, r.hi < c.lo ∧ c.lo ≤ c.hi ∧ (c.hi ≤ t ∨ t < c.lo) := by
      intro c hc
      have w1 := WF_mem (addRange_WF rest r.hi (r.hi + 1) t h3 (by omega)) c hc
      by_cases hle : r.hi + 1 ≤ t
      · have := ih r.hi (r.hi + 1) t h3 (by omega) hle c hc; omega
      · rw [addRange_empty _ _ _ hle] at hc
        have := WF_mem h3 c hc; omega
    have key8 : r.hi < f → ∀ c ∈ addRange rest f t, (f ≤ c.lo ∧ c.hi ≤ t) ∨ (c.hi < f ∨ t < c.lo) :=
      fun h8 => ih r.hi f t h3 h8 hft
    unfold addRange
    repeat' split
    all_goals simp only [Refines, List.forall_mem_cons]
    all_goals and_intros
    all_goals (try dsimp only)
    all_goals first
      | omega
      | (intro c hc; have := key c hc; omega)
      | (intro c hc; have := key8 (by omega) c hc; omega)

end Gocc

namespace Gocc

/-- A range `[a,b]` that was refined before stays refined, provided it is already covered
    (by `l`, or by classes at or below the lower bound `b0` of this suffix). -/
theorem addRange_refines_old (a b : Int) (hab : a ≤ b) (l : List CR) : ∀ (b0 f t : Int),
    WF b0 l → b0 < f →
    (∀ x, a ≤ x → x ≤ b → cover l x ∨ x ≤ b0) →
    Refines l a b → Refines (addRange l f t) a b := by
  induction l with
  | nil =>
    intro b0 f t _ hb hcov _
    unfold addRange
    split
    · simp only [Refines, List.forall_mem_cons]
      refine ⟨?_, fun c hc => by cases hc⟩
      have hA := hcov a (by omega) hab
      have hF := hcov f
      simp only [cover, false_or] at hA hF
      omega
    · intro c hc; cases hc
  | cons r rest ih =>
    intro b0 f t h hb hcov href
    obtain ⟨h1, h2, h3⟩ := h
    have hr : (a ≤ r.lo ∧ r.hi ≤ b) ∨ (r.hi < a ∨ b < r.lo) := href r (List.mem_cons_self ..)
    have hrest : Refines rest a b := fun c hc => href c (List.mem_cons_of_mem _ hc)
    have hcov' : ∀ x, a ≤ x → x ≤ b → cover rest x ∨ x ≤ r.hi := by
      intro x h1 h2
      rcases hcov x h1 h2 with hc | hc
      · simp only [cover] at hc
        rcases hc with hc | hc
        · right; omega
        · left; exact hc
      · right; omega
    have wk : ∀ x, cover (r :: rest) x ∨ x ≤ b0 → (r.lo ≤ x ∧ x ≤ r.hi) ∨ r.hi < x ∨ x ≤ b0 := by
      intro x hx
      rcases hx with hx | hx
      · simp only [cover] at hx
        rcases hx with hx | hx
        · left; exact hx
        · right; left; exact cover_gt h3 hx
      · right; right; exact hx
    have hA := wk a (hcov a (by omega) hab)
    have hF : a ≤ f → f ≤ b → _ := fun h1 h2 => wk f (hcov f h1 h2)
    have ih1 := ih r.hi (r.hi + 1) t h3 (by omega) hcov' hrest
    have ih8 : r.hi < f → _ := fun h8 => ih r.hi f t h3 h8 hcov' hrest
    unfold addRange
    repeat' split
    all_goals simp only [Refines, List.forall_mem_cons]
    all_goals and_intros
    all_goals (try dsimp only)
    all_goals first
      | omega
      | exact ih1
      | exact ih8 (by omega)
      | exact hrest

end Gocc

namespace Gocc

/-- Invariant of the `getSymbolClasses` fold: `l` is the class list after adding `seen`. -/
structure ClassInv (l seen : List CR) : Prop where
  wf : ∃ b, WF b l
  cov : ∀ x, cover l x ↔ ∃ r ∈ seen, r.lo ≤ x ∧ x ≤ r.hi
  ref : ∀ r ∈ seen, r.lo ≤ r.hi → Refines l r.lo r.hi

theorem ClassInv.nil : ClassInv [] [] :=
  ⟨⟨0, trivial⟩, by intro x; simp [cover], by intro r hr; cases hr⟩

theorem ClassInv.step {l seen : List CR} (h : ClassInv l seen) (r : CR) :
    ClassInv (addRange l r.lo r.hi) (seen ++ [r]) := by
  obtain ⟨⟨b, hwf⟩, hcov, href⟩ := h
  -- lower the bound below the new range
  have hwf' : WF (min b (r.lo - 1)) l := WF_mono hwf (by omega)
  have hb : min b (r.lo - 1) < r.lo := by omega
  refine ⟨⟨_, addRange_WF l _ _ _ hwf' hb⟩, ?_, ?_⟩
  · intro x
    rw [addRange_cover l _ _ _ x hwf', hcov x]
    simp only [List.mem_append, List.mem_singleton]
    constructor
    · rintro (⟨q, hq, hx⟩ | hx)
      · exact ⟨q, Or.inl hq, hx⟩
      · exact ⟨r, Or.inr rfl, hx⟩
    · rintro ⟨q, hq | rfl, hx⟩
      · exact Or.inl ⟨q, hq, hx⟩
      · exact Or.inr hx
  · intro q hq hqle
    simp only [List.mem_append, List.mem_singleton] at hq
    rcases hq with hq | rfl
    · apply addRange_refines_old q.lo q.hi hqle l _ _ _ hwf' hb _ (href q hq hqle)
      intro x h1 h2
      left
      exact (hcov x).mpr ⟨q, hq, h1, h2⟩
    · exact addRange_refines_new l _ _ _ hwf' hb hqle

theorem foldl_ClassInv (rs : List CR) : ∀ (l seen : List CR), ClassInv l seen →
    ClassInv (rs.foldl (fun l r => addRange l r.lo r.hi) l) (seen ++ rs) := by
  induction rs with
  | nil => intro l seen h; simpa using h
  | cons r rs ih =>
    intro l seen h
    have := ih _ _ (h.step r)
    simpa [List.append_assoc] using this

theorem classesOf_inv (rs : List CR) : ClassInv (classesOf rs) rs := by
  have := foldl_ClassInv rs [] [] ClassInv.nil
  simpa [classesOf] using this

/-- In a well-formed class list a rune lies in at most one class. -/
theorem WF_unique {b : Int} {l : List CR} (h : WF b l) {c d : CR} (hc : c ∈ l) (hd : d ∈ l)
    {x : Int} (hxc : c.lo ≤ x ∧ x ≤ c.hi) (hxd : d.lo ≤ x ∧ x ≤ d.hi) : c = d := by
  induction l generalizing b with
  | nil => cases hc
  | cons r rest ih =>
    obtain ⟨_, _, h3⟩ := h
    rcases List.mem_cons.mp hc with hc1 | hc1 <;> rcases List.mem_cons.mp hd with hd1 | hd1
    · rw [hc1, hd1]
    · have := WF_mem h3 d hd1; rw [hc1] at hxc; omega
    · have := WF_mem h3 c hc1; rw [hd1] at hxd; omega
    · exact ih h3 hc1 hd1

end Gocc
