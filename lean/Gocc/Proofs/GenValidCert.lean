import Gocc.Model.GenVCert
/-
Generator-level validity, part 1: the derivation certificate `vcertOf G` (Model/GenVCert.lean).

  §1  the loop `grow`: invariants; with fuel above the number of possible keys it stops because no
      candidate is new (pigeonhole: the keys of the list are pairwise different)
  §2  the candidates
  §3  soundness: the three lists pass `prodListOk` / `nullListOk` / `firstListOk`
  §4  closure: the nullable list and the FIRST list are closed under the grammar rules
-/
namespace Gocc.GenValid

/-! ## §1 `grow` -/

section Grow
variable {α κ : Type} [BEq κ] [LawfulBEq κ]

theorem growStep_some {cands : List α → List α} {key : α → κ} {acc : List α} {x : α}
    (h : growStep cands key acc = some x) : x ∈ cands acc ∧ ∀ y ∈ acc, key y ≠ key x := by
  unfold growStep at h
  refine ⟨List.mem_of_find?_eq_some h, ?_⟩
  have := List.find?_some h
  simp only [Bool.not_eq_true', List.any_eq_false, beq_iff_eq] at this
  exact this

theorem growStep_none {cands : List α → List α} {key : α → κ} {acc : List α}
    (h : growStep cands key acc = none) : ∀ x ∈ cands acc, ∃ y ∈ acc, key y = key x := by
  unfold growStep at h
  rw [List.find?_eq_none] at h
  intro x hx
  have := h x hx
  simpa using this

theorem grow_inv {cands : List α → List α} {key : α → κ} (P : List α → Prop)
    (hstep : ∀ acc x, P acc → x ∈ cands acc → (∀ y ∈ acc, key y ≠ key x) → P (x :: acc)) :
    ∀ (n : Nat) (acc : List α), P acc → P (grow cands key n acc) := by
  intro n
  induction n with
  | zero => intro acc h; exact h
  | succ n ih =>
    intro acc h
    simp only [grow]
    split
    · rename_i x hx
      obtain ⟨h1, h2⟩ := growStep_some hx
      exact ih _ (hstep acc x h h1 h2)
    · exact h

omit [LawfulBEq κ] in
theorem grow_closed_or_long {cands : List α → List α} {key : α → κ} :
    ∀ (n : Nat) (acc : List α), growStep cands key (grow cands key n acc) = none ∨
      (grow cands key n acc).length = acc.length + n := by
  intro n
  induction n with
  | zero => intro acc; exact .inr rfl
  | succ n ih =>
    intro acc
    simp only [grow]
    split
    · rename_i x hx
      rcases ih (x :: acc) with h | h
      · exact .inl h
      · right; rw [h]; simp; omega
    · rename_i hx
      exact .inl hx

/-- with more fuel than there are keys the loop ends in a list to which no candidate is new -/
theorem grow_closed {cands : List α → List α} {key : α → κ} (K : List κ)
    (hK : ∀ acc, (∀ y ∈ acc, key y ∈ K) → ∀ x ∈ cands acc, key x ∈ K) {n : Nat}
    (hn : K.length < n) : growStep cands key (grow cands key n []) = none := by
  have hinv := grow_inv (cands := cands) (key := key)
    (fun acc => (acc.map key).Nodup ∧ ∀ y ∈ acc, key y ∈ K) (by
      intro acc x ⟨h1, h2⟩ hx hnew
      refine ⟨?_, ?_⟩
      · rw [List.map_cons, List.nodup_cons]
        refine ⟨?_, h1⟩
        intro hm
        rcases List.mem_map.1 hm with ⟨y, hy, hyx⟩
        exact hnew y hy hyx
      · intro y hy
        rcases List.mem_cons.1 hy with rfl | hy
        · exact hK acc h2 _ hx
        · exact h2 y hy) n [] ⟨by simp, by simp⟩
  rcases grow_closed_or_long (cands := cands) (key := key) n [] with h | h
  · exact h
  · exfalso
    have hsub : ∀ k ∈ (grow cands key n []).map key, k ∈ K := by
      intro k hk
      rcases List.mem_map.1 hk with ⟨y, hy, rfl⟩
      exact hinv.2 y hy
    have := List.Nodup.length_le_of_subset hinv.1 hsub
    simp only [List.length_map, List.length_nil, Nat.zero_add] at this h
    omega

end Grow

/-! ## §2 the candidates -/

theorem mem_prodCands {G : NGrammar} {acc : List (Nat × Nat)} {x : Nat × Nat} :
    x ∈ prodCands G acc ↔ ∃ p, p < G.prods.size ∧
      (G.body p).all (prodSym acc) = true ∧ x = (G.head p, p) := by
  unfold prodCands
  simp only [List.mem_filterMap, List.mem_range]
  constructor
  · rintro ⟨p, hp, h⟩
    split at h
    · rename_i hc
      exact ⟨p, hp, hc, (Option.some.inj h).symm⟩
    · cases h
  · rintro ⟨p, hp, hc, rfl⟩
    exact ⟨p, hp, if_pos hc⟩

theorem mem_nullCands {G : NGrammar} {acc : List (Nat × Nat)} {x : Nat × Nat} :
    x ∈ nullCands G acc ↔ ∃ p, p < G.prods.size ∧
      (G.body p).all (nullSym acc) = true ∧ x = (G.head p, p) := by
  unfold nullCands
  simp only [List.mem_filterMap, List.mem_range]
  constructor
  · rintro ⟨p, hp, h⟩
    split at h
    · rename_i hc
      exact ⟨p, hp, hc, (Option.some.inj h).symm⟩
    · cases h
  · rintro ⟨p, hp, hc, rfl⟩
    exact ⟨p, hp, if_pos hc⟩

theorem mem_firstCands {G : NGrammar} {null : List (Nat × Nat)}
    {acc : List (Nat × Nat × Nat × Nat)} {x : Nat × Nat × Nat × Nat} :
    x ∈ firstCands G null acc ↔ ∃ p i, p < G.prods.size ∧
      ((G.body p).take i).all (nullSym null) = true ∧
      ((∃ b, (G.body p)[i]? = some (Sym.t b) ∧ x = (G.head p, b, p, i)) ∨
       (∃ B y, (G.body p)[i]? = some (Sym.nt B) ∧ y ∈ acc ∧ y.1 = B ∧
          x = (G.head p, y.2.1, p, i))) := by
  unfold firstCands
  simp only [List.mem_flatMap, List.mem_range]
  constructor
  · rintro ⟨p, hp, i, hi, h⟩
    split at h
    · rename_i hc
      refine ⟨p, i, hp, hc, ?_⟩
      split at h
      · rename_i b hb
        exact .inl ⟨b, hb, by simpa using h⟩
      · rename_i B hb
        rcases List.mem_map.1 h with ⟨y, hy, rfl⟩
        rw [List.mem_filter] at hy
        exact .inr ⟨B, y, hb, hy.1, by simpa using hy.2, rfl⟩
      · cases h
    · cases h
  · rintro ⟨p, i, hp, hc, h⟩
    have hi : i < (G.body p).length := by
      rcases h with ⟨b, hb, -⟩ | ⟨B, y, hb, -⟩
      · exact (List.getElem?_eq_some_iff.1 hb).1
      · exact (List.getElem?_eq_some_iff.1 hb).1
    refine ⟨p, hp, i, hi, ?_⟩
    rw [if_pos hc]
    rcases h with ⟨b, hb, rfl⟩ | ⟨B, y, hb, hy, hyB, rfl⟩
    · rw [hb]; simp
    · rw [hb]
      exact List.mem_map.2 ⟨y, List.mem_filter.2 ⟨hy, by simpa using hyB⟩, rfl⟩

/-! ## §3 soundness of the certificate -/

theorem prodListOk_cons (G : NGrammar) (A p : Nat) (rest : List (Nat × Nat)) :
    prodListOk G ((A, p) :: rest) =
      (decide (p < G.prods.size) && G.head p == A && (G.body p).all (prodSym rest) &&
        prodListOk G rest) := by
  rfl

theorem nullListOk_cons (G : NGrammar) (A p : Nat) (rest : List (Nat × Nat)) :
    nullListOk G ((A, p) :: rest) =
      (decide (p < G.prods.size) && G.head p == A && (G.body p).all (nullSym rest) &&
        nullListOk G rest) := by
  rfl

theorem firstListOk_cons (G : NGrammar) (null : List (Nat × Nat)) (A b p i : Nat)
    (rest : List (Nat × Nat × Nat × Nat)) :
    firstListOk G null ((A, b, p, i) :: rest) =
      (decide (p < G.prods.size) && G.head p == A && ((G.body p).take i).all (nullSym null) &&
        (match (G.body p)[i]? with
         | some (.t c) => c == b
         | some (.nt B) => rest.any fun x => x.1 == B && x.2.1 == b
         | none => false) &&
        firstListOk G null rest) := by
  rfl

theorem prodListOk_vcert (G : NGrammar) : prodListOk G (vcertOf G).prod = true := by
  show prodListOk G (prodListOf G) = true
  unfold prodListOf
  refine grow_inv (fun acc => prodListOk G acc = true) ?_ _ [] rfl
  intro acc x h hx _
  obtain ⟨p, hp, hc, rfl⟩ := mem_prodCands.1 hx
  rw [prodListOk_cons, h, hc]
  simp [hp]

theorem nullListOk_vcert (G : NGrammar) : nullListOk G (vcertOf G).null = true := by
  show nullListOk G (nullListOf G) = true
  unfold nullListOf
  refine grow_inv (fun acc => nullListOk G acc = true) ?_ _ [] rfl
  intro acc x h hx _
  obtain ⟨p, hp, hc, rfl⟩ := mem_nullCands.1 hx
  rw [nullListOk_cons, h, hc]
  simp [hp]

theorem firstListOk_vcert (G : NGrammar) :
    firstListOk G (vcertOf G).null (vcertOf G).first = true := by
  show firstListOk G (nullListOf G) (firstListOf G (nullListOf G)) = true
  unfold firstListOf
  refine grow_inv (fun acc => firstListOk G (nullListOf G) acc = true) ?_ _ [] rfl
  intro acc x h hx _
  obtain ⟨p, i, hp, hc, hx'⟩ := mem_firstCands.1 hx
  rcases hx' with ⟨b, hb, rfl⟩ | ⟨B, y, hb, hy, hyB, rfl⟩
  · rw [firstListOk_cons, h, hc, hb]
    simp [hp]
  · rw [firstListOk_cons, h, hc, hb]
    simp only [hp, decide_true, beq_self_eq_true, Bool.and_self, Bool.true_and, Bool.and_true,
      List.any_eq_true, Bool.and_eq_true, beq_iff_eq]
    exact ⟨y, hy, hyB, rfl⟩

/-! ## §4 closure of the nullable and FIRST lists -/

theorem mem_headKeys {G : NGrammar} {p : Nat} (hp : p < G.prods.size) : G.head p ∈ headKeys G :=
  List.mem_map.2 ⟨p, List.mem_range.2 hp, rfl⟩

theorem hasNT_iff {l : List (Nat × Nat)} {B : Nat} : hasNT l B = true ↔ ∃ y ∈ l, y.1 = B := by
  simp [hasNT]

/-- a production whose body consists of nullable non-terminals has a nullable head -/
theorem null_closed (G : NGrammar) {p : Nat} (hp : p < G.prods.size)
    (hc : (G.body p).all (nullSym (vcertOf G).null) = true) :
    hasNT (vcertOf G).null (G.head p) = true := by
  have hclosed : growStep (nullCands G) (fun x => x.1) (nullListOf G) = none := by
    unfold nullListOf
    refine grow_closed (headKeys G) ?_ (Nat.lt_succ_self _)
    intro acc _ x hx
    obtain ⟨q, hq, -, rfl⟩ := mem_nullCands.1 hx
    exact mem_headKeys hq
  obtain ⟨y, hy, hyk⟩ := growStep_none hclosed (G.head p, p) (mem_nullCands.2 ⟨p, hp, hc, rfl⟩)
  exact hasNT_iff.2 ⟨y, hy, hyk⟩

/-- a production whose body non-terminals are productive has a productive head -/
theorem prod_closed (G : NGrammar) {p : Nat} (hp : p < G.prods.size)
    (hc : (G.body p).all (prodSym (vcertOf G).prod) = true) :
    hasNT (vcertOf G).prod (G.head p) = true := by
  have hclosed : growStep (prodCands G) (fun x => x.1) (prodListOf G) = none := by
    unfold prodListOf
    refine grow_closed (headKeys G) ?_ (Nat.lt_succ_self _)
    intro acc _ x hx
    obtain ⟨q, hq, -, rfl⟩ := mem_prodCands.1 hx
    exact mem_headKeys hq
  obtain ⟨y, hy, hyk⟩ := growStep_none hclosed (G.head p, p) (mem_prodCands.2 ⟨p, hp, hc, rfl⟩)
  exact hasNT_iff.2 ⟨y, hy, hyk⟩

/-- if every non-terminal that occurs in a body is productive, every head is -/
theorem heads_of_body (G : NGrammar) (h : bodyNTsProductive G = true) :
    headsProductive G = true := by
  simp only [bodyNTsProductive, headsProductive, List.all_eq_true, List.mem_range] at h ⊢
  intro p hp
  exact prod_closed G hp (List.all_eq_true.2 (h p hp))

theorem mem_bodyTerms {G : NGrammar} {p i b : Nat} (hp : p < G.prods.size)
    (hb : (G.body p)[i]? = some (Sym.t b)) : b ∈ bodyTerms G := by
  unfold bodyTerms
  simp only [List.mem_flatMap, List.mem_range, List.mem_filterMap]
  exact ⟨p, hp, Sym.t b, List.mem_of_getElem? hb, rfl⟩

theorem mem_firstKeys {G : NGrammar} {A b : Nat} :
    (A, b) ∈ firstKeys G ↔ A ∈ headKeys G ∧ b ∈ bodyTerms G := by
  unfold firstKeys
  simp only [List.mem_flatMap, List.mem_map, Prod.mk.injEq]
  constructor
  · rintro ⟨A', hA, b', hb, rfl, rfl⟩
    exact ⟨hA, hb⟩
  · rintro ⟨hA, hb⟩
    exact ⟨A, hA, b, hb, rfl, rfl⟩

theorem first_growStep_none (G : NGrammar) (null : List (Nat × Nat)) :
    growStep (firstCands G null) (fun x => (x.1, x.2.1)) (firstListOf G null) = none := by
  unfold firstListOf
  refine grow_closed (firstKeys G) ?_ (Nat.lt_succ_self _)
  intro acc hacc x hx
  obtain ⟨p, i, hp, -, hx'⟩ := mem_firstCands.1 hx
  rcases hx' with ⟨b, hb, rfl⟩ | ⟨B, y, hb, hy, -, rfl⟩
  · exact mem_firstKeys.2 ⟨mem_headKeys hp, mem_bodyTerms hp hb⟩
  · exact mem_firstKeys.2 ⟨mem_headKeys hp, (mem_firstKeys.1 (hacc y hy)).2⟩

/-- FIRST facts of the certificate, as pairs -/
theorem mem_fc_first {vc : VCert} {A b : Nat} :
    (A, b) ∈ vc.fc.first ↔ ∃ y ∈ vc.first, y.1 = A ∧ y.2.1 = b := by
  simp only [VCert.fc, List.mem_map, Prod.mk.injEq]

theorem fc_isNullable {vc : VCert} {A : Nat} : vc.fc.isNullable A = hasNT vc.null A := by
  simp only [FirstCert.isNullable, VCert.fc, hasNT]
  rw [Bool.eq_iff_iff]
  simp

/-- a terminal behind a nullable prefix of a body is in FIRST of the head -/
theorem first_closed_t (G : NGrammar) {p i b : Nat} (hp : p < G.prods.size)
    (hc : ((G.body p).take i).all (nullSym (vcertOf G).null) = true)
    (hb : (G.body p)[i]? = some (Sym.t b)) : (G.head p, b) ∈ (vcertOf G).fc.first := by
  obtain ⟨y, hy, hyk⟩ := growStep_none (first_growStep_none G (nullListOf G)) (G.head p, b, p, i)
    (mem_firstCands.2 ⟨p, i, hp, hc, .inl ⟨b, hb, rfl⟩⟩)
  simp only [Prod.mk.injEq] at hyk
  exact mem_fc_first.2 ⟨y, hy, hyk.1, hyk.2⟩

/-- FIRST of a non-terminal behind a nullable prefix of a body is in FIRST of the head -/
theorem first_closed_nt (G : NGrammar) {p i B b : Nat} (hp : p < G.prods.size)
    (hc : ((G.body p).take i).all (nullSym (vcertOf G).null) = true)
    (hb : (G.body p)[i]? = some (Sym.nt B)) (hB : (B, b) ∈ (vcertOf G).fc.first) :
    (G.head p, b) ∈ (vcertOf G).fc.first := by
  obtain ⟨z, hz, hz1, hz2⟩ := mem_fc_first.1 hB
  obtain ⟨y, hy, hyk⟩ := growStep_none (first_growStep_none G (nullListOf G)) (G.head p, b, p, i)
    (mem_firstCands.2 ⟨p, i, hp, hc, .inr ⟨B, z, hb, hz, hz1, by rw [hz2]⟩⟩)
  simp only [Prod.mk.injEq] at hyk
  exact mem_fc_first.2 ⟨y, hy, hyk.1, hyk.2⟩

end Gocc.GenValid
