import Gocc.Proofs.RegexSemRun
/-
C01 (regular-expression semantics), part 3: the ε-step and the rune step in closed form, by the kind
of the node on top of the item's stack.  `r = .pat P.pat` is the root of production `k`, the item is
`⟨k, q ++ [pos]⟩` with `node r q = some n`.
-/
namespace Gocc
namespace RegexS

open EmovesU LexGenC

theorem top_at {C : LexCtx} {k : Nat} {P : LProd} (hP : C.prods[k]? = some P) {q : List Nat} {n : LNode}
    (hn : node (.pat P.pat) q = some n) (pos : Nat) : C.top ⟨k, q ++ [pos]⟩ = some (n, pos) := by
  rw [top_eq hP, walk_snoc, hn]; rfl

/-- the root: enter an alternative at position 0; otherwise go to the end -/
theorem step_root {C : LexCtx} {k : Nat} {P : LProd} (hP : C.prods[k]? = some P) (pos : Nat) :
    emoveStep C ⟨k, [pos]⟩ =
      if pos = 0 then (List.range P.pat.alts.length).map fun k' => (⟨k, [k', 0]⟩ : LItem)
      else [⟨k, [P.pat.alts.length]⟩] := by
  have htop := top_at hP (q := []) (n := .pat P.pat) rfl pos
  simp only [List.nil_append] at htop
  unfold emoveStep
  rw [htop]
  by_cases h0 : pos = 0
  · subst h0; simp [LNode.len, setLast]
  · simp [LNode.len, h0]

/-- the items entering the alternatives of the node at `q` -/
def enterL (k : Nat) (q : List Nat) (len : Nat) : List LItem :=
  (List.range len).map fun k' => (⟨k, q ++ [k'] ++ [0]⟩ : LItem)

theorem mem_enterL {k : Nat} {q : List Nat} {len : Nat} {y : LItem} :
    y ∈ enterL k q len ↔ ∃ k', k' < len ∧ y = ⟨k, q ++ [k'] ++ [0]⟩ := by
  simp only [enterL, List.mem_map, List.mem_range]
  constructor
  · rintro ⟨k', h, rfl⟩; exact ⟨k', h, rfl⟩
  · rintro ⟨k', h, rfl⟩; exact ⟨k', h, rfl⟩

theorem step_grp {C : LexCtx} {k : Nat} {P : LProd} (hP : C.prods[k]? = some P) {q : List Nat}
    {p : LPat} (hn : node (.pat P.pat) q = some (.grp p)) (pos : Nat) :
    emoveStep C ⟨k, q ++ [pos]⟩ =
      if pos = 0 then enterL k q p.alts.length else [⟨k, incLast q⟩] := by
  unfold emoveStep
  rw [top_at hP hn]
  by_cases h0 : pos = 0
  · subst h0; simp [LNode.len, enterL]
  · simp [h0]

theorem step_opt {C : LexCtx} {k : Nat} {P : LProd} (hP : C.prods[k]? = some P) {q : List Nat}
    {p : LPat} (hn : node (.pat P.pat) q = some (.opt p)) (pos : Nat) :
    emoveStep C ⟨k, q ++ [pos]⟩ =
      if pos = 0 then enterL k q p.alts.length ++ [⟨k, incLast q⟩] else [⟨k, incLast q⟩] := by
  unfold emoveStep
  rw [top_at hP hn]
  by_cases h0 : pos = 0
  · subst h0; simp [LNode.len, enterL]
  · simp [h0]

theorem step_rep {C : LexCtx} {k : Nat} {P : LProd} (hP : C.prods[k]? = some P) {q : List Nat}
    {p : LPat} (hn : node (.pat P.pat) q = some (.rep p)) (pos : Nat) :
    emoveStep C ⟨k, q ++ [pos]⟩ = enterL k q p.alts.length ++ [⟨k, incLast q⟩] := by
  unfold emoveStep
  rw [top_at hP hn]
  simp [LNode.len, enterL]

/-- the end of an alternative: pop, the parent is set to its end -/
theorem step_alt_end {C : LexCtx} {k : Nat} {P : LProd} (hP : C.prods[k]? = some P) {q' : List Nat}
    {m : Nat} {pn : LNode} {a : LAlt} (hpn : node (.pat P.pat) q' = some pn)
    (hn : node (.pat P.pat) (q' ++ [m]) = some (.alt a)) {pos : Nat} (hpos : a.terms.length ≤ pos) :
    emoveStep C ⟨k, q' ++ [m] ++ [pos]⟩ = [⟨k, q' ++ [pn.len]⟩] := by
  unfold emoveStep
  rw [top_at hP hn]
  have hw : walk (.pat P.pat) (q' ++ [m]) = some (pn, m) := by rw [walk_snoc, hpn]; rfl
  simp [LNode.len, hpos, getElem!_of_some hP, hw]

/-- inside an alternative, in front of `( )`, `[ ]`, `{ }`: push the node -/
theorem step_alt_push {C : LexCtx} {k : Nat} {P : LProd} (hP : C.prods[k]? = some P) {q : List Nat}
    {a : LAlt} (hn : node (.pat P.pat) q = some (.alt a)) {pos : Nat} (hpos : pos < a.terms.length) :
    emoveStep C ⟨k, q ++ [pos]⟩ = [⟨k, q ++ [pos] ++ [0]⟩] := by
  unfold emoveStep
  rw [top_at hP hn]
  simp [LNode.len, Nat.not_le.2 hpos]

/-! ### basic / reduce -/

theorem expected_at {C : LexCtx} {k : Nat} {P : LProd} (hP : C.prods[k]? = some P) {q : List Nat}
    {n : LNode} (hn : node (.pat P.pat) q = some n) (pos : Nat) :
    C.expected ⟨k, q ++ [pos]⟩ = n.termAt pos := by
  unfold LexCtx.expected
  rw [top_at hP hn]

theorem isReduce_root {C : LexCtx} {k : Nat} {P : LProd} (hP : C.prods[k]? = some P) (pos : Nat) :
    C.isReduce ⟨k, [pos]⟩ = decide (P.pat.alts.length ≤ pos) := by
  have htop := top_at hP (q := []) (n := .pat P.pat) rfl pos
  simp only [List.nil_append] at htop
  unfold LexCtx.isReduce
  simp only [htop, LNode.len, ge_iff_le]

theorem isReduce_deep {C : LexCtx} {k : Nat} {q : List Nat} (hq : q ≠ []) (pos : Nat) :
    C.isReduce ⟨k, q ++ [pos]⟩ = false := by
  unfold LexCtx.isReduce
  cases q with
  | nil => exact absurd rfl hq
  | cons a q =>
    cases q with
    | nil => simp
    | cons b q => simp

/-- a node that is not an alternative is not basic, except the root at its end -/
theorem nonbasic_patlike {C : LexCtx} {k : Nat} {P : LProd} (hP : C.prods[k]? = some P) {q : List Nat}
    {n : LNode} (hn : node (.pat P.pat) q = some n) (hpl : isPatLike n = true) (pos : Nat)
    (hroot : q = [] → pos < P.pat.alts.length) : C.isBasic ⟨k, q ++ [pos]⟩ = false := by
  have he : C.expected ⟨k, q ++ [pos]⟩ = none := by
    rw [expected_at hP hn]
    cases n <;> simp [LNode.termAt, isPatLike] at hpl ⊢
  have hr : C.isReduce ⟨k, q ++ [pos]⟩ = false := by
    by_cases hq : q = []
    · subst hq
      have := hroot rfl
      simp only [List.nil_append]
      rw [isReduce_root hP]
      simp; omega
    · exact isReduce_deep hq pos
  simp [LexCtx.isBasic, he, hr]

/-- an alternative is never the root -/
theorem alt_path_ne_nil {P : LPat} {q : List Nat} {a : LAlt} (hn : node (.pat P) q = some (.alt a)) :
    q ≠ [] := by
  intro h; subst h; simp [node] at hn

theorem termAt_alt {a : LAlt} {pos : Nat} {t : LTerm} (ht : a.terms[pos]? = some t) :
    (LNode.alt a).termAt pos = match t with
      | .dot => some .dot
      | .lit c => some (.lit c)
      | .rng lo hi => some (.rng lo hi)
      | .ref r => some (.ref r)
      | _ => none := by
  simp only [LNode.termAt, ht]
  cases t <;> rfl

/-- in front of `( )`, `[ ]`, `{ }` or at the end, an alternative's item is not basic -/
theorem nonbasic_alt {C : LexCtx} {k : Nat} {P : LProd} (hP : C.prods[k]? = some P) {q : List Nat}
    {a : LAlt} (hn : node (.pat P.pat) q = some (.alt a)) (pos : Nat)
    (ht : (LNode.alt a).termAt pos = none) : C.isBasic ⟨k, q ++ [pos]⟩ = false := by
  have he : C.expected ⟨k, q ++ [pos]⟩ = none := by rw [expected_at hP hn]; exact ht
  simp [LexCtx.isBasic, he, isReduce_deep (alt_path_ne_nil hn) pos]

theorem termAt_alt_ge {a : LAlt} {pos : Nat} (h : a.terms.length ≤ pos) :
    (LNode.alt a).termAt pos = none := by
  simp [LNode.termAt, List.getElem?_eq_none h]

theorem adv_at (k : Nat) (q : List Nat) (pos : Nat) :
    adv ⟨k, q ++ [pos]⟩ = ⟨k, q ++ [pos + 1]⟩ := by
  simp [adv]

/-! ### children -/

theorem child_patlike_alt {n : LNode} {m : Nat} {a : LAlt} (hpl : isPatLike n = true)
    (hc : n.child m = some (.alt a)) : ∃ p, (n = .pat p ∨ n = .grp p ∨ n = .opt p ∨ n = .rep p) ∧
      p.alts[m]? = some a := by
  cases n with
  | alt _ => simp [isPatLike] at hpl
  | pat p | grp p | opt p | rep p =>
    refine ⟨p, by simp, ?_⟩
    simp only [LNode.child] at hc
    cases h : p.alts[m]? with
    | none => rw [h] at hc; simp at hc
    | some b => rw [h] at hc; simpa using hc

theorem child_alt_term {a : LAlt} {j : Nat} {c : LNode} (hc : (LNode.alt a).child j = some c) :
    ∃ p, (a.terms[j]? = some (.grp p) ∧ c = .grp p) ∨ (a.terms[j]? = some (.opt p) ∧ c = .opt p) ∨
      (a.terms[j]? = some (.rep p) ∧ c = .rep p) := by
  simp only [LNode.child] at hc
  cases h : a.terms[j]? with
  | none => rw [h] at hc; simp at hc
  | some t =>
    rw [h] at hc
    cases t <;> simp at hc <;> subst hc
    · exact ⟨_, Or.inr (Or.inl ⟨rfl, rfl⟩)⟩
    · exact ⟨_, Or.inr (Or.inr ⟨rfl, rfl⟩)⟩
    · exact ⟨_, Or.inl ⟨rfl, rfl⟩⟩

/-- the parent of an alternative is a pattern-like node -/
theorem alt_parent {P : LPat} {q : List Nat} {a : LAlt} (hn : node (.pat P) q = some (.alt a)) :
    ∃ q' m pn, q = q' ++ [m] ∧ node (.pat P) q' = some pn ∧ pn.child m = some (.alt a) ∧
      isPatLike pn = true := by
  obtain ⟨q', m, pn, h1, h2, hc⟩ := node_parent hn (alt_path_ne_nil hn)
  refine ⟨q', m, pn, h1, h2, hc, ?_⟩
  rcases child_kind hc with ⟨h, _⟩ | ⟨_, h, _⟩
  · exact h
  · simp [isPatLike] at h

/-- the parent of a `( )`, `[ ]`, `{ }` node is an alternative -/
theorem sub_parent {P : LPat} {q : List Nat} {n : LNode} (hn : node (.pat P) q = some n)
    (hpl : isPatLike n = true) (hq : q ≠ []) :
    ∃ q' j a, q = q' ++ [j] ∧ node (.pat P) q' = some (.alt a) ∧ (LNode.alt a).child j = some n := by
  obtain ⟨q', j, pn, h1, h2, hc⟩ := node_parent hn hq
  rcases child_kind hc with ⟨_, h⟩ | ⟨h, _, _⟩
  · cases n <;> simp [isPatLike, isAlt] at hpl h
  · cases pn with
    | alt a => exact ⟨q', j, a, h1, h2, hc⟩
    | _ => simp [isAlt] at h

end RegexS
end Gocc
