import Gocc.Proofs.KindGrammar
import Gocc.Props.C14Sem
/-
`SpellingsOk` and what gocc's front end refuses (`semCheck`, Model/SemCheck.lean: `consistent` after
the fixes D14 and D15).

A grammar that passes `semCheck` satisfies
  * `prodIdDefined`     — `undefinedUse` (with `KindsOk`, Props/C14Sem.lean: the scanner does not
                           classify a token id or a keyword as a production id);
  * `terminalNotHead`   for STRING LITERALS — `reservedUse`, first clause (fix D15);
  * `emptyAlone`        for symbols that are NOT string literals — `reservedUse`, second clause.
What remains an assumption on the input:
  * `TokIdsNotHeads`: a `.tokId` symbol is not spelled like a head.  gocc's scanner guarantees it
    (token ids begin with a lower-case letter, production ids with a capital); nothing in `semCheck`
    looks at it, and the abstract syntax `SSym` does not enforce it;
  * `NoLiteralEmptyFirst`: no alternative begins with the string literal `"empty"`.  This is NOT
    refused by gocc — known finding D16 (gocc's own grammar writes its keywords as the string
    literals `"empty"` / `"error"`, so refusing them breaks self-hosting);
  * `NamesOk` (side condition of every generator-level theorem): start symbol not spelled `empty`,
    no body symbol spelled `S'`.
-/
namespace Gocc

/-- no `.tokId` symbol is spelled like a production head (guaranteed by gocc's scanner) -/
def TokIdsNotHeads (syn : List SProd) : Prop :=
  ∀ p ∈ syn, ∀ s ∈ p.body, s.kind = .tokId → s.name ∉ syn.map (·.head)

instance (syn : List SProd) : Decidable (TokIdsNotHeads syn) := by
  unfold TokIdsNotHeads; infer_instance

/-- no alternative begins with the string literal `"empty"` (NOT refused by gocc: D16) -/
def NoLiteralEmptyFirst (syn : List SProd) : Prop :=
  ∀ p ∈ syn, ∀ s ∈ p.body.head?, s.kind = .strLit → s.name ≠ "empty"

instance (syn : List SProd) : Decidable (NoLiteralEmptyFirst syn) := by
  unfold NoLiteralEmptyFirst; infer_instance

namespace KindG

/-- `reservedUse g = none`, clause by clause -/
theorem reservedUse_none {g : Grammar} (h : reservedUse g = none) :
    (∀ p ∈ g.syn, p.head ∉ reservedNames) ∧
    (∀ p ∈ g.syn, ∀ s ∈ p.body, s.kind = .strLit →
      s.name ∉ reservedNames ∧ s.name ∉ g.syn.map (·.head)) ∧
    (∀ p ∈ g.syn, ∀ s ∈ p.body, s.kind ≠ .strLit → s.name = "empty" → p.body.length ≤ 1) := by
  unfold reservedUse at h
  simp only [List.findSome?_eq_none_iff] at h
  have hp1 : ∀ p ∈ g.syn, reservedNames.contains p.head = false := by
    intro p hp
    have := h p hp
    cases hc : reservedNames.contains p.head with
    | true => rw [if_pos hc] at this; cases this
    | false => rfl
  have hp2 : ∀ p ∈ g.syn, ∀ s ∈ p.body,
      (if (s.kind == .strLit && (reservedNames.contains s.name ||
            (g.syn.map (·.head)).contains s.name)) = true then some s.name
        else if (s.kind != .strLit && s.name == "empty" && decide (p.body.length > 1)) = true
          then some "empty" else none) = none := by
    intro p hp s hs
    have := h p hp
    rw [hp1 p hp] at this
    simp only [Bool.false_eq_true, if_false, List.findSome?_eq_none_iff] at this
    exact this s hs
  refine ⟨fun p hp hc => ?_, fun p hp s hs hk => ?_, fun p hp s hs hk hn => ?_⟩
  · have := hp1 p hp
    rw [List.contains_iff_mem.2 hc] at this
    cases this
  · have := hp2 p hp s hs
    split at this
    · cases this
    · rename_i hc
      simp only [hk, beq_self_eq_true, Bool.true_and, Bool.or_eq_true, List.contains_iff_mem,
        not_or] at hc
      exact hc
  · have := hp2 p hp s hs
    split at this
    · cases this
    · split at this
      · cases this
      · rename_i hc
        have hk' : (s.kind != .strLit) = true := by simpa using hk
        simp only [hk', hn, beq_self_eq_true, Bool.true_and, decide_eq_true_eq] at hc
        omega

/-- a grammar that passes the front end's checks has no reserved-name clash -/
theorem noReserved_of_semCheck {g : Grammar} {imports : List String}
    (h : semCheck g imports = .ok ()) : NoReserved g :=
  Decidable.byContradiction fun hc => C14_semCheck_reserved g imports hc h

end KindG

/-- the clauses of `SpellingsOk` that gocc's front end enforces on the grammar as written -/
theorem semCheck_spelling_clauses {lex : List LProd} {syn : List SProd} {imports : List String}
    (h : semCheck { lex := lex, syn := syn } imports = .ok ())
    (hk : KindsOk { lex := lex, syn := syn }) :
    -- `prodIdDefined` (undefinedUse)
    (∀ p ∈ syn, ∀ s ∈ p.body, s.kind = .prodId → s.name ∈ syn.map (·.head)) ∧
    -- `terminalNotHead`, string literals (reservedUse)
    (∀ p ∈ syn, ∀ s ∈ p.body, s.kind = .strLit → s.name ∉ syn.map (·.head)) ∧
    -- `emptyAlone`, symbols other than string literals (reservedUse)
    (∀ p ∈ syn, ∀ s ∈ p.body, s.kind ≠ .strLit → s.name = "empty" →
      p.body = [⟨.tokId, "empty"⟩]) := by
  have hres := KindG.noReserved_of_semCheck h
  have hwf := (C14_semCheck_iff _ imports hk hres).1 h
  obtain ⟨-, r2, r3⟩ := KindG.reservedUse_none hres.1
  refine ⟨hwf.prodsDefined, fun p hp s hs hkd => (r2 p hp s hs hkd).2, fun p hp s hs hkd hn => ?_⟩
  have hlen := r3 p hp s hs hkd hn
  have hs' : s = ⟨.tokId, "empty"⟩ := by
    cases s with
    | mk kind name =>
      simp only at hn hkd
      subst hn
      cases kind with
      | prodId => exact absurd rfl (hk p hp _ hs rfl).2.1
      | tokId => rfl
      | strLit => exact absurd rfl hkd
  subst hs'
  match hb : p.body, hs, hlen with
  | [x], hs, _ =>
    have : (⟨.tokId, "empty"⟩ : SSym) = x := by simpa using hs
    rw [this]

/-- … hence: a grammar that passes gocc's front end satisfies `SpellingsOk` provided its token ids
    are not spelled like heads (scanner) and no alternative begins with the literal `"empty"` — the
    one clause gocc does not enforce (D16) -/
theorem spellingsOk_of_semCheck {lex : List LProd} {syn : List SProd} {imports tokIds : List String}
    (h : semCheck { lex := lex, syn := syn } imports = .ok ())
    (hk : KindsOk { lex := lex, syn := syn }) (hn : NamesOk syn tokIds)
    (ht : TokIdsNotHeads syn) (hD16 : NoLiteralEmptyFirst syn) : SpellingsOk syn tokIds := by
  obtain ⟨c1, c2, c3⟩ := semCheck_spelling_clauses h hk
  obtain ⟨n1, n2, -, -, n5, -⟩ := hn
  obtain ⟨q, rest, rfl⟩ : ∃ q rest, syn = q :: rest := by
    cases syn with
    | nil => exact absurd rfl n1
    | cons q rest => exact ⟨q, rest, rfl⟩
  have hq := n2 q (by simp)
  have haug : augment (q :: rest) = { head := "S'", body := [⟨.prodId, q.head⟩] } :: q :: rest := rfl
  have hheads : (augment (q :: rest)).map (·.head) = "S'" :: (q :: rest).map (·.head) := rfl
  have hS' : ∀ p ∈ q :: rest, ∀ s ∈ p.body, s.name ≠ "S'" := by
    intro p hp s hs he
    exact n5 (List.mem_flatMap.2 ⟨p, hp, List.mem_map.2 ⟨s, hs, he⟩⟩)
  refine ⟨?_, ?_, ?_⟩
  · intro p hp s hs hkd
    rw [hheads]
    rw [haug] at hp
    rcases List.mem_cons.1 hp with rfl | hp
    · simp only [List.mem_singleton] at hs
      subst hs
      simp
    · exact List.mem_cons_of_mem _ (c1 p hp s hs hkd)
  · intro p hp s hs hkd
    rw [hheads]
    rw [haug] at hp
    rcases List.mem_cons.1 hp with rfl | hp
    · simp only [List.mem_singleton] at hs
      subst hs
      exact absurd rfl hkd
    · intro hm
      rcases List.mem_cons.1 hm with he | hm
      · exact hS' p hp s hs he
      · cases hkk : s.kind with
        | prodId => exact hkd hkk
        | tokId => exact ht p hp s hs hkk hm
        | strLit => exact c2 p hp s hs hkk hm
  · intro p hp s hs hne
    rw [haug] at hp
    rcases List.mem_cons.1 hp with rfl | hp
    · simp only [List.head?_cons, Option.mem_def, Option.some.injEq] at hs
      subst hs
      exact absurd hne hq.2
    · have hsb : s ∈ p.body := List.mem_of_mem_head? hs
      by_cases hkd : s.kind = .strLit
      · exact absurd hne (hD16 p hp s hs hkd)
      · exact c3 p hp s hsb hkd hne

end Gocc
