import Gocc.Model.LitConv
import Gocc.Spec.GoRuneLit
/-
Helper lemmas for C20 (rune literal conversion).
-/
namespace Gocc

/-! ### UTF-8: decode after encode -/

theorem isScalar_iff (c : Nat) :
    isScalar c = true ↔ c < 0x110000 ∧ ¬(0xD800 ≤ c ∧ c < 0xE000) := by
  simp [isScalar]; omega

theorem decodeRune_ascii (b : Nat) (rest : List Nat) (h : b < 128) :
    decodeRune (b :: rest) = ((b : Int), 1) := by
  simp [decodeRune, h]

theorem decodeRune_encodeRune_1 (c : Nat) (rest : List Nat) (h : c < 0x80) :
    decodeRune ([c] ++ rest) = ((c : Int), 1) := by
  simp [decodeRune, h]

theorem decodeRune_encodeRune_2 (c : Nat) (rest : List Nat) (h0 : 0x80 ≤ c) (h : c < 0x800) :
    decodeRune ([0xC0 + c / 64, 0x80 + c % 64] ++ rest) = ((c : Int), 2) := by
  have a1 : ¬ (0xC0 + c / 64 < 0x80) := by omega
  have a2 : ¬ (0xC0 + c / 64 < 0xC2) := by omega
  have a3 : 0xC0 + c / 64 < 0xE0 := by omega
  have a4 : isCont (0x80 + c % 64) = true := by simp [isCont]; omega
  have a5 : (0xC0 + c / 64) % 32 * 64 + (0x80 + c % 64) % 64 = c := by omega
  simp only [List.cons_append, List.nil_append, decodeRune, a1, a2, a3, a4, a5, if_true, if_false]

theorem decodeRune_encodeRune_3 (c : Nat) (rest : List Nat) (h0 : 0x800 ≤ c) (h : c < 0x10000)
    (hs : ¬(0xD800 ≤ c ∧ c < 0xE000)) :
    decodeRune ([0xE0 + c / 4096, 0x80 + (c / 64) % 64, 0x80 + c % 64] ++ rest) = ((c : Int), 3) := by
  have a1 : ¬ (0xE0 + c / 4096 < 0x80) := by omega
  have a2 : ¬ (0xE0 + c / 4096 < 0xC2) := by omega
  have a3 : ¬ (0xE0 + c / 4096 < 0xE0) := by omega
  have a4 : 0xE0 + c / 4096 < 0xF0 := by omega
  have a5 : isCont (0x80 + c % 64) = true := by simp [isCont]; omega
  have a6 : ((if 0xE0 + c / 4096 = 0xE0 then 0xA0 else 0x80) ≤ 0x80 + (c / 64) % 64) := by
    split <;> omega
  have a7 : (0x80 + (c / 64) % 64 ≤ (if 0xE0 + c / 4096 = 0xED then 0x9F else 0xBF)) := by
    split <;> omega
  have a8 : (0xE0 + c / 4096) % 16 * 4096 + (0x80 + c / 64 % 64) % 64 * 64 + (0x80 + c % 64) % 64 = c := by
    omega
  simp only [List.cons_append, List.nil_append, decodeRune, a1, a2, a3, a4, a5, a6, a7, a8,
    if_true, if_false, decide_true, Bool.and_self]

theorem decodeRune_encodeRune_4 (c : Nat) (rest : List Nat) (h0 : 0x10000 ≤ c) (h : c < 0x110000) :
    decodeRune ([0xF0 + c / 262144, 0x80 + (c / 4096) % 64, 0x80 + (c / 64) % 64, 0x80 + c % 64] ++ rest)
      = ((c : Int), 4) := by
  have a1 : ¬ (0xF0 + c / 262144 < 0x80) := by omega
  have a2 : ¬ (0xF0 + c / 262144 < 0xC2) := by omega
  have a3 : ¬ (0xF0 + c / 262144 < 0xE0) := by omega
  have a4 : ¬ (0xF0 + c / 262144 < 0xF0) := by omega
  have a4' : 0xF0 + c / 262144 < 0xF5 := by omega
  have a5 : isCont (0x80 + c % 64) = true := by simp [isCont]; omega
  have a5' : isCont (0x80 + (c / 64) % 64) = true := by simp [isCont]; omega
  have a6 : ((if 0xF0 + c / 262144 = 0xF0 then 0x90 else 0x80) ≤ 0x80 + (c / 4096) % 64) := by
    split <;> omega
  have a7 : (0x80 + (c / 4096) % 64 ≤ (if 0xF0 + c / 262144 = 0xF4 then 0x8F else 0xBF)) := by
    split <;> omega
  have a8 : (0xF0 + c / 262144) % 8 * 262144 + (0x80 + c / 4096 % 64) % 64 * 4096 +
      (0x80 + c / 64 % 64) % 64 * 64 + (0x80 + c % 64) % 64 = c := by
    omega
  simp only [List.cons_append, List.nil_append, decodeRune, a1, a2, a3, a4, a4', a5, a5', a6, a7, a8,
    if_true, if_false, decide_true, Bool.and_self]

/-- `utf8.DecodeRune` inverts the encoder on every Unicode scalar value, whatever follows. -/
theorem decodeRune_encodeRune (c : Nat) (rest : List Nat) (hc : isScalar c = true) :
    decodeRune (encodeRune c ++ rest) = ((c : Int), (encodeRune c).length) := by
  rw [isScalar_iff] at hc
  obtain ⟨h1, h2⟩ := hc
  unfold encodeRune
  split
  · exact decodeRune_encodeRune_1 c rest ‹_›
  split
  · exact decodeRune_encodeRune_2 c rest (by omega) ‹_›
  split
  · exact decodeRune_encodeRune_3 c rest (by omega) ‹_› h2
  · exact decodeRune_encodeRune_4 c rest (by omega) h1

/-- first byte of an encoding: it exists, and it is a backslash only for the backslash -/
theorem encodeRune_head (c : Nat) (h : c ≠ 92) :
    ∃ b tl, encodeRune c = b :: tl ∧ b ≠ 92 := by
  unfold encodeRune
  split
  · exact ⟨_, _, rfl, h⟩
  split
  · exact ⟨_, _, rfl, by omega⟩
  split
  · exact ⟨_, _, rfl, by omega⟩
  · exact ⟨_, _, rfl, by omega⟩

/-! ### digits -/

theorem HexDigit.val_lt (h : HexDigit) : h.val < 16 := h.v.isLt
theorem OctDigit.val_lt (d : OctDigit) : d.val < 8 := d.v.isLt

theorem HexDigit.char_lt (h : HexDigit) : h.char < 128 := by
  have := h.val_lt
  unfold HexDigit.char
  split
  · omega
  split <;> omega

theorem OctDigit.char_lt (d : OctDigit) : d.char < 128 := by
  have := d.val_lt
  unfold OctDigit.char; omega

/-- `digitVal` of the character of a hex digit (either case) is the digit -/
theorem digitVal_hexChar (h : HexDigit) : digitVal (h.char : Int) = h.val := by
  have := h.val_lt
  unfold HexDigit.char digitVal
  split
  · rw [if_pos (by omega)]; omega
  split
  · rw [if_neg (by omega), if_neg (by omega), if_pos (by omega)]; omega
  · rw [if_neg (by omega), if_pos (by omega)]; omega

theorem digitVal_octChar (d : OctDigit) : digitVal (d.char : Int) = d.val := by
  have := d.val_lt
  unfold OctDigit.char digitVal
  rw [if_pos (by omega)]; omega

/-! ### the digit loop -/

/-- positional value accumulated by the loop over the characters `cs` -/
def accDigits (base : Nat) (x : Nat) (cs : List Nat) : Nat :=
  cs.foldl (fun (a c : Nat) => a * base + digitVal (c : Int)) x

/-- the loop of `escapeCharVal` run over exactly `cs.length` ASCII digit characters that are
    all available before the closing quote -/
theorem escDigits_chars (base : Nat) (cs rest : List Nat) (avail : Int) (x : Nat)
    (hc : ∀ c ∈ cs, c < 128 ∧ digitVal (c : Int) < base) (ha : (cs.length : Int) ≤ avail) :
    escDigits base cs.length (cs ++ rest) avail x = .ok (accDigits base x cs) := by
  induction cs generalizing avail x with
  | nil => rfl
  | cons c cs ih =>
    have h1 := hc c (List.mem_cons_self ..)
    have hav : ¬ (avail ≤ 0) := by simp only [List.length_cons] at ha; omega
    have hd : ¬ (digitVal (c : Int) ≥ base) := by omega
    simp only [List.length_cons, List.cons_append, escDigits, hav, if_false,
      decodeRune_ascii c _ h1.1, hd, List.drop_succ_cons, List.drop_zero]
    rw [ih]
    · rfl
    · intro c' hc'; exact hc c' (List.mem_cons_of_mem _ hc')
    · simp only [List.length_cons] at ha; omega

theorem escFinish_ok (x max v : Nat) (hv : x = v) (h1 : v ≤ max)
    (h2 : ¬(0xD800 ≤ v ∧ v < 0xE000)) : escFinish x max = .ok (v : Int) := by
  subst hv
  unfold escFinish
  rw [if_neg (by omega)]

/-! ### unfolding `escapeCharVal` on each escape shape -/

theorem escapeCharVal_oct (q b c : Nat) (rest : List Nat) (h : 48 ≤ c ∧ c ≤ 55) :
    escapeCharVal (q :: b :: c :: rest) =
      (escDigits 8 3 (c :: rest) ((rest.length : Int) + 3 - 1 - 2) 0 >>= fun x => escFinish x 255) := by
  have : c ≠ 97 := by omega
  have : c ≠ 98 := by omega
  have : c ≠ 102 := by omega
  have : c ≠ 110 := by omega
  have : c ≠ 114 := by omega
  have : c ≠ 116 := by omega
  have : c ≠ 118 := by omega
  have : c ≠ 92 := by omega
  have : c ≠ 39 := by omega
  simp [escapeCharVal, *]
  congr 2; omega

theorem escapeCharVal_x (q b : Nat) (rest : List Nat) :
    escapeCharVal (q :: b :: 120 :: rest) =
      (escDigits 16 2 rest ((rest.length : Int) + 3 - 1 - 3) 0 >>= fun x => escFinish x 255) := by
  simp [escapeCharVal]
  congr 2; omega

theorem escapeCharVal_u (q b : Nat) (rest : List Nat) :
    escapeCharVal (q :: b :: 117 :: rest) =
      (escDigits 16 4 rest ((rest.length : Int) + 3 - 1 - 3) 0 >>= fun x => escFinish x 0x10FFFF) := by
  simp [escapeCharVal]
  congr 2; omega

theorem escapeCharVal_U (q b : Nat) (rest : List Nat) :
    escapeCharVal (q :: b :: 85 :: rest) =
      (escDigits 16 8 rest ((rest.length : Int) + 3 - 1 - 3) 0 >>= fun x => escFinish x 0x10FFFF) := by
  simp [escapeCharVal]
  congr 2; omega

theorem litToRune_esc (q : Nat) (rest : List Nat) :
    litToRune (q :: 92 :: rest) = escapeCharVal (q :: 92 :: rest) := by
  simp [litToRune]

/-! ### the generated copy is the same function -/

theorem gDigitVal_eq : gDigitVal = digitVal := rfl

theorem gEscDigits_eq (base i : Nat) (rest : List Nat) (avail : Int) (x : Nat) :
    gEscDigits base i rest avail x = escDigits base i rest avail x := by
  induction i generalizing rest avail x with
  | zero => rfl
  | succ i ih => simp only [gEscDigits, escDigits, gDigitVal_eq, ih]

theorem gEscapeCharVal_eq (lit : List Nat) : gEscapeCharVal lit = escapeCharVal lit := by
  unfold gEscapeCharVal escapeCharVal
  simp only [gEscDigits_eq]

theorem runeValue_eq_litToRune (lit : List Nat) : runeValue lit = litToRune lit := by
  unfold runeValue litToRune
  simp only [gEscapeCharVal_eq]

/-! ### `litToRune` on each shape of valid literal -/

open GoRuneLit in
theorem litToRune_raw (c : Nat) (h : (raw c).valid = true) :
    litToRune (raw c).spell = .ok (raw c).value := by
  simp only [valid, isSurrogate, Bool.and_eq_true, Bool.not_eq_true', decide_eq_true_eq,
    Bool.and_eq_false_iff, decide_eq_false_iff_not] at h
  obtain ⟨⟨⟨⟨h1, h2⟩, h3⟩, h4⟩, h5⟩ := h
  have hs : isScalar c = true := by rw [isScalar_iff]; omega
  have hd := decodeRune_encodeRune c [39] hs
  obtain ⟨b, tl, he, hb⟩ := encodeRune_head c h4
  have hlen : (encodeRune c).length = tl.length + 1 := by rw [he]; rfl
  simp only [spell, body, value, number]
  rw [he] at hd ⊢
  simp only [litToRune, List.cons_append, hb, if_false, List.drop_succ_cons, List.drop_zero]
  rw [List.cons_append] at hd
  rw [hd]
  simp only [List.length_cons, List.length_append, List.length_nil]
  rw [if_neg (by omega)]

open GoRuneLit in
theorem litToRune_named (e : NamedEsc) : litToRune (named e).spell = .ok (named e).value := by
  cases e <;> rfl

theorem hexChars_ok (ds : List HexDigit) :
    ∀ c ∈ ds.map HexDigit.char, c < 128 ∧ digitVal (c : Int) < 16 := by
  intro c hc
  obtain ⟨d, _, rfl⟩ := List.mem_map.mp hc
  exact ⟨d.char_lt, by rw [digitVal_hexChar]; exact d.val_lt⟩

theorem octChars_ok (ds : List OctDigit) :
    ∀ c ∈ ds.map OctDigit.char, c < 128 ∧ digitVal (c : Int) < 8 := by
  intro c hc
  obtain ⟨d, _, rfl⟩ := List.mem_map.mp hc
  exact ⟨d.char_lt, by rw [digitVal_octChar]; exact d.val_lt⟩

/-- digit loop followed by the range check, on a full run of digits -/
theorem escape_digits_ok (base n max v : Nat) (cs l : List Nat) (avail : Int)
    (hl : l = cs ++ [39]) (hn : n = cs.length)
    (hc : ∀ c ∈ cs, c < 128 ∧ digitVal (c : Int) < base) (ha : (n : Int) ≤ avail)
    (hv : accDigits base 0 cs = v) (h1 : v ≤ max) (h2 : ¬(0xD800 ≤ v ∧ v < 0xE000)) :
    (escDigits base n l avail 0 >>= fun x => escFinish x max) = .ok (v : Int) := by
  subst hl hn
  rw [escDigits_chars base cs [39] avail 0 hc ha]
  exact escFinish_ok _ _ _ hv h1 h2

open GoRuneLit in
theorem litToRune_hex2 (h1 h0 : HexDigit) :
    litToRune (hex2 h1 h0).spell = .ok (hex2 h1 h0).value := by
  have b1 := h1.val_lt; have b0 := h0.val_lt
  simp only [spell, body, value, number, List.cons_append, List.nil_append, litToRune_esc,
    escapeCharVal_x]
  exact escape_digits_ok 16 2 255 _ [h1.char, h0.char] _ _ rfl rfl (hexChars_ok [h1, h0])
    (by simp only [List.length_cons, List.length_nil]; omega)
    (by simp only [accDigits, List.foldl_cons, List.foldl_nil, digitVal_hexChar]; omega)
    (by omega) (by omega)

open GoRuneLit in
theorem litToRune_oct3 (o2 o1 o0 : OctDigit) (h : (oct3 o2 o1 o0).valid = true) :
    litToRune (oct3 o2 o1 o0).spell = .ok (oct3 o2 o1 o0).value := by
  have b2 := o2.val_lt; have b1 := o1.val_lt; have b0 := o0.val_lt
  simp only [valid, decide_eq_true_eq] at h
  simp only [number] at h
  have hr : 48 ≤ o2.char ∧ o2.char ≤ 55 := by unfold OctDigit.char; omega
  simp only [spell, body, value, number, List.cons_append, List.nil_append, litToRune_esc]
  rw [escapeCharVal_oct _ _ _ _ hr]
  exact escape_digits_ok 8 3 255 _ [o2.char, o1.char, o0.char] _ _ rfl rfl (octChars_ok [o2, o1, o0])
    (by simp only [List.length_cons, List.length_nil]; omega)
    (by simp only [accDigits, List.foldl_cons, List.foldl_nil, digitVal_octChar]; omega)
    (by omega) (by omega)

open GoRuneLit in
theorem litToRune_u4 (h3 h2 h1 h0 : HexDigit) (h : (u4 h3 h2 h1 h0).valid = true) :
    litToRune (u4 h3 h2 h1 h0).spell = .ok (u4 h3 h2 h1 h0).value := by
  have b3 := h3.val_lt; have b2 := h2.val_lt; have b1 := h1.val_lt; have b0 := h0.val_lt
  simp only [valid, isSurrogate, Bool.not_eq_true', Bool.and_eq_false_iff,
    decide_eq_false_iff_not] at h
  simp only [number] at h
  simp only [spell, body, value, number, List.cons_append, List.nil_append, litToRune_esc,
    escapeCharVal_u]
  exact escape_digits_ok 16 4 0x10FFFF _ [h3.char, h2.char, h1.char, h0.char] _ _ rfl rfl
    (hexChars_ok [h3, h2, h1, h0])
    (by simp only [List.length_cons, List.length_nil]; omega)
    (by simp only [accDigits, List.foldl_cons, List.foldl_nil, digitVal_hexChar]; omega)
    (by omega) (by omega)

open GoRuneLit in
theorem litToRune_U8 (h7 h6 h5 h4 h3 h2 h1 h0 : HexDigit)
    (h : (U8 h7 h6 h5 h4 h3 h2 h1 h0).valid = true) :
    litToRune (U8 h7 h6 h5 h4 h3 h2 h1 h0).spell = .ok (U8 h7 h6 h5 h4 h3 h2 h1 h0).value := by
  have b7 := h7.val_lt; have b6 := h6.val_lt; have b5 := h5.val_lt; have b4 := h4.val_lt
  have b3 := h3.val_lt; have b2 := h2.val_lt; have b1 := h1.val_lt; have b0 := h0.val_lt
  simp only [valid, isSurrogate, Bool.and_eq_true, Bool.not_eq_true', decide_eq_true_eq,
    Bool.and_eq_false_iff, decide_eq_false_iff_not] at h
  simp only [number] at h
  obtain ⟨hmax, hsur⟩ := h
  simp only [spell, body, value, number, List.cons_append, List.nil_append, litToRune_esc,
    escapeCharVal_U]
  exact escape_digits_ok 16 8 0x10FFFF _
    [h7.char, h6.char, h5.char, h4.char, h3.char, h2.char, h1.char, h0.char] _ _ rfl rfl
    (hexChars_ok [h7, h6, h5, h4, h3, h2, h1, h0])
    (by simp only [List.length_cons, List.length_nil]; omega)
    (by simp only [accDigits, List.foldl_cons, List.foldl_nil, digitVal_hexChar]; omega)
    (by omega) (by omega)

theorem litToRune_valid (l : GoRuneLit) (h : l.valid = true) : litToRune l.spell = .ok l.value := by
  cases l with
  | raw c => exact litToRune_raw c h
  | named e => exact litToRune_named e
  | hex2 h1 h0 => exact litToRune_hex2 h1 h0
  | oct3 o2 o1 o0 => exact litToRune_oct3 o2 o1 o0 h
  | u4 h3 h2 h1 h0 => exact litToRune_u4 h3 h2 h1 h0 h
  | U8 h7 h6 h5 h4 h3 h2 h1 h0 => exact litToRune_U8 h7 h6 h5 h4 h3 h2 h1 h0 h

end Gocc
