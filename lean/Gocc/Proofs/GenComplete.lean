import Gocc.Proofs.GenCompleteItems
/-
Generator-level completeness, part 3: for every grammar for which the generator model records no
conflict, the generated tables pass the completeness validator `firstOk` / `complete`
(Model/ValidateC.lean) with the certificates `fcOf`, `claOf` (Model/GenCert.lean) read off the
generator's FIRST sets and item sets.

  §1  the side condition on spellings; the facts about a run (`GenFacts`)
  §2  introduction rule for `complete`
  §3  items: body of the numbered grammar, transition targets, proposals of `itemAction`
  §4  the four item checks (K2 shift, K2 goto, K1 closure, K3 reduce / accept)
  §5  assembly
-/
namespace Gocc

/-- Side condition of the completeness theorem, on top of `NamesOk` (decidable):
    * `INVALID` is not a body symbol (column `INVALID` never holds an action);
    * no production is called `empty` (the spelling of the empty alternative / FIRST marker);
    * `empty` does not occur in an alternative that is not an empty alternative. -/
def CompleteNamesOk (syn : List SProd) : Prop :=
  "INVALID" ∉ synBodyNames syn ∧ "empty" ∉ synHeads syn ∧
  ∀ p ∈ syn, prodLen p ≠ 0 → "empty" ∉ p.body.map (·.name)

instance (syn : List SProd) : Decidable (CompleteNamesOk syn) := by
  unfold CompleteNamesOk; infer_instance

namespace GenComplete

/-! ## §1 facts about a run -/

theorem bodyOk_of {syn : List SProd} {ids : List String} (hn : NamesOk syn ids)
    (hx : CompleteNamesOk syn) : BodyOk (augment syn) := by
  obtain ⟨n1, n2, n3, n4, n5, n6, n7, n8⟩ := hn
  obtain ⟨x1, x2, x3⟩ := hx
  cases syn with
  | nil => exact absurd rfl n1
  | cons q rest =>
    have hq := n2 q (by simp)
    intro p hp s hs
    simp only [augment, List.mem_cons] at hp
    rcases hp with rfl | hp
    · simp only [List.mem_singleton] at hs
      subst hs
      have hqh : q.head ∈ synHeads (q :: rest) := by simp [synHeads]
      exact ⟨fun e => n4 (e ▸ hqh), fun _ => hq.2⟩
    · have hp' : p ∈ q :: rest := List.mem_cons.2 hp
      have hsb : s.name ∈ synBodyNames (q :: rest) :=
        List.mem_flatMap.2 ⟨p, hp', List.mem_map.2 ⟨s, hs, rfl⟩⟩
      refine ⟨fun e => x1 (e ▸ hsb), fun hl e => ?_⟩
      exact x3 p hp' hl (List.mem_map.2 ⟨s, hs, e⟩)

/-- everything the assembly needs to know about a successful run -/
structure GenFacts (syn : List SProd) (r : LRResult) : Prop where
  F : SymFacts (augment syn) r.ctx
  hW : WFp r.ctx.S (augment syn)
  fsEq : r.ctx.fs = firstSets r.ctx.S (augment syn)
  hB : BodyOk (augment syn)
  hE : "empty" ∉ r.ctx.S.ntList
  hT : TInv r.ctx.S r.ctx.fs
  inv : LRInv r.ctx (closure r.ctx [⟨0, 0, "␚"⟩]) r.states
  exp : ∀ j, j < r.states.size → Expanded r.ctx r.states j
  closed : ∀ (j : Nat) (st : LRState), r.states[j]? = some st →
    ∀ i ∈ st.items, ∀ x ∈ closureStep r.ctx i, x ∈ st.items
  laU : ∀ (j : Nat) (st : LRState), r.states[j]? = some st → ∀ i ∈ st.items, i.la ∈ firstU r.ctx.S
  laOk : AllQ (LaOk r.ctx) r.states
  terms : r.tables.terminals = r.ctx.S.terminals
  nts : r.tables.nts = r.ctx.S.ntList

theorem genFacts_of {syn : List SProd} {ids : List String} {r : LRResult}
    (h : genParser syn ids = .ok r) (hn : NamesOk syn ids) (hsz : r.states.size ≤ 4096)
    (hx : CompleteNamesOk syn) : GenFacts syn r := by
  have F := symFacts_of h hn
  obtain ⟨S0, hS0, hctx, -⟩ := genParser_shape h
  have hS : r.ctx.S = S0.addTokens ids := by rw [hctx]
  have hW : WFp r.ctx.S (augment syn) := by
    rw [hS]; exact WFp_addTokens (newSymbols_WFp hS0) ids
  have hfs : r.ctx.fs = firstSets r.ctx.S (augment syn) := by rw [hctx]
  have hB := bodyOk_of hn hx
  have hE : "empty" ∉ r.ctx.S.ntList := by
    intro hm
    have hnt : r.ctx.S.ntList = S0.ntList := by rw [hS]; rfl
    rw [hnt] at hm
    have := newSymbols_ntList_sub hS0 _ hm
    obtain ⟨n1, n2, -⟩ := hn
    cases syn with
    | nil => exact absurd rfl n1
    | cons q rest =>
      simp only [augment, synHeads, List.map_cons, List.mem_cons] at this
      rcases this with h' | h'
      · exact absurd h' (by decide)
      · exact hx.2.1 (by simpa [synHeads] using h')
  have hT : TInv r.ctx.S r.ctx.fs := by
    rw [hfs]; exact TInv_firstSets hW hB
  obtain ⟨hinv, hexp⟩ := genParser_inv h hn
  have hclosed := C09_closed h
  obtain ⟨rows, -, hterm, hnts, -⟩ := genParser_tables h
  have hEof : GoodT r.ctx.S "␚" := by
    have hm : "␚" ∈ r.ctx.S.terminals := List.mem_of_getElem? F.term1
    have := (F.term _ hm).1
    exact ⟨by simpa [PSymbols.isTerminal] using this, by decide, by decide⟩
  have hla : AllQ (LaOk r.ctx) r.states :=
    genParser_all h (Q := LaOk r.ctx) ⟨fun _ => rfl, hEof⟩
      (laOk_step F.prods_eq hT hB F.noStart) (fun i hi => hi)
  exact
    { F := F, hW := hW, fsEq := hfs, hB := hB, hE := hE, hT := hT, inv := hinv,
      exp := hexp hsz, closed := fun j st hj => (hclosed j st hj).1,
      laU := fun j st hj => (hclosed j st hj).2, laOk := hla, terms := hterm, nts := hnts }
where
  /-- every state is closed under `closureStep`, look-aheads are symbols
      (as `C09_genParser_states_closed`) -/
  C09_closed {syn : List SProd} {ids : List String} {r : LRResult}
      (h : genParser syn ids = .ok r) (j : Nat) (st : LRState) (hj : r.states[j]? = some st) :
      (∀ i ∈ st.items, ∀ x ∈ closureStep r.ctx i, x ∈ st.items) ∧
        (∀ i ∈ st.items, i.la ∈ firstU r.ctx.S) := by
    obtain ⟨S0, hS0, hctx, hst⟩ := genParser_shape h
    have hW : WFc r.ctx [⟨0, 0, "␚"⟩] := by
      rw [hctx]
      apply WFc_of_WFp (WFp_addTokens (newSymbols_WFp hS0) ids)
      intro i hi
      have : i = ⟨0, 0, "␚"⟩ := by simpa using hi
      subst this
      have h1 : "␚" ∈ S0.typeMap := (newSymbols_mono hS0).2 _ (by simp)
      exact List.mem_cons_of_mem _ (foldl_addNoDup_mem_iff.2 (Or.inl h1))
    have h0 : StatesOK r.ctx #[{ items := closure r.ctx [⟨0, 0, "␚"⟩] }] := by
      intro j hj
      have : j = 0 := by simp at hj; omega
      subst this
      exact closure_closedLA hW
    have hall := lrLoop_ok hW 4096 0 _ h0
    rw [← hst] at hall
    obtain ⟨hlt, rfl⟩ := Array.getElem?_eq_some_iff.1 hj
    exact hall j hlt

/-! ## §2 introduction rule for `complete` -/

theorem complete_intro {G : NGrammar} {T : PTables} {fc : FirstCert} {c : CertLA}
    (h1 : T.numSymbols > 1)
    (h2 : ∀ row ∈ T.action.toList, row.size ≤ T.numSymbols)
    (h3 : ∀ p, p < G.prods.size →
      T.prodNT[p]? = some (G.head p) ∧ T.prodLen[p]? = some (G.body p).length)
    (h4 : ∃ A, G.body 0 = [Sym.nt A])
    (h5t : ∀ p, p < G.prods.size → ∀ a, Sym.t a ∈ G.body p → a < T.numSymbols)
    (h5n : ∀ p, p < G.prods.size → ∀ B, Sym.nt B ∈ G.body p → B ≠ G.head 0)
    (h6 : (0, 0, 1) ∈ c[0]?.getD [])
    (hsh : ∀ (s p d a t' : Nat), (p, d, a) ∈ c[s]?.getD [] → (G.body p)[d]? = some (Sym.t t') →
      ∃ s', T.act s t' = some (.shift s') ∧ (p, d + 1, a) ∈ c[s']?.getD [])
    (hgo : ∀ (s p d a B : Nat), (p, d, a) ∈ c[s]?.getD [] → (G.body p)[d]? = some (Sym.nt B) →
      ∃ n : Nat, T.gotoOf s B = some (n : Int) ∧ (p, d + 1, a) ∈ c[n]?.getD [])
    (hcl : ∀ (s p d a B : Nat), (p, d, a) ∈ c[s]?.getD [] → (G.body p)[d]? = some (Sym.nt B) →
      ∀ q, q < G.prods.size → G.head q = B →
        ∀ b ∈ firstOfSeq fc ((G.body p).drop (d + 1)) a, (q, 0, b) ∈ c[s]?.getD [])
    (hre : ∀ (s p d a : Nat), (p, d, a) ∈ c[s]?.getD [] → d = (G.body p).length →
      (p = 0 → a = 1 ∧ T.act s 1 = some .accept) ∧ (p ≠ 0 → T.act s a = some (.reduce p))) :
    complete G T fc c = true := by
  simp only [complete, Bool.and_eq_true, List.all_eq_true, List.mem_range, beq_iff_eq,
    decide_eq_true_eq]
  refine ⟨⟨⟨⟨⟨⟨h1, h2⟩, h3⟩, ?_⟩, ?_⟩, ?_⟩, ?_⟩
  · obtain ⟨A, hA⟩ := h4
    rw [hA]
  · intro p hp X hX
    cases X with
    | t a => simpa using h5t p hp a hX
    | nt B => simpa using h5n p hp B hX
  · simpa [CertLA.has] using h6
  · intro s _ ⟨p, d, a⟩ hm
    dsimp only
    split
    · rename_i t' hb
      obtain ⟨s', e1, e2⟩ := hsh s p d a t' hm hb
      rw [e1]
      simpa [CertLA.has] using e2
    · rename_i B hb
      simp only [Bool.and_eq_true, List.all_eq_true, List.mem_range, Bool.or_eq_true,
        bne_iff_ne, ne_eq]
      constructor
      · obtain ⟨n, e1, e2⟩ := hgo s p d a B hm hb
        rw [e1]
        simpa [CertLA.has] using e2
      · intro q hq
        by_cases hh : G.head q = B
        · right
          intro b hbm
          simpa [CertLA.has] using hcl s p d a B hm hb q hq hh b hbm
        · exact .inl hh
    · rename_i hb
      simp only [Bool.or_eq_true, bne_iff_ne, ne_eq]
      by_cases hd : d = (G.body p).length
      · right
        obtain ⟨r1, r2⟩ := hre s p d a hm hd
        by_cases hp : p = 0
        · subst hp
          obtain ⟨e1, e2⟩ := r1 rfl
          simp [e1, e2]
        · simp [hp, r2 hp]
      · exact .inl hd


/-! ## §3 items -/

theorem mem_claOf {r : LRResult} {s p d a : Nat} :
    (p, d, a) ∈ (claOf r)[s]?.getD [] ↔
      ∃ st, r.states[s]? = some st ∧
        ∃ x ∈ st.items, x.p = p ∧ x.d = d ∧ (r.tables.terminals.idxOf? x.la).getD 0 = a := by
  unfold claOf tIdxOf
  rw [Array.getElem?_map]
  rcases r.states[s]? with _ | st
  · simp
  · simp only [Option.map_some, Option.getD_some, List.mem_eraseDups, List.mem_map,
      Prod.mk.injEq, Option.some.injEq, exists_eq_left']

theorem gbody_eq {C : LRCtx} {prods : List SProd} (hC : C.prods = prods.toArray)
    (terms nts : List String) {i : Item} (hp : i.p < C.prods.size) :
    (ngrammarOf prods terms nts).body i.p = (C.body i).map (symOf terms nts) := by
  obtain ⟨hp', heq⟩ := ctx_prod hC hp
  rw [ngrammarOf_body terms nts hp']
  unfold LRCtx.body
  rw [getElem!_pos C.prods i.p hp, heq]
  dsimp only
  by_cases h0 : prodLen prods[i.p] = 0
  · simp [h0]
  · simp [h0, List.map_map, Function.comp_def]

theorem gbody_len {C : LRCtx} {prods : List SProd} (hC : C.prods = prods.toArray)
    (terms nts : List String) {i : Item} (hp : i.p < C.prods.size) :
    ((ngrammarOf prods terms nts).body i.p).length = C.len i := by
  obtain ⟨hp', heq⟩ := ctx_prod hC hp
  rw [ngrammarOf_body_length terms nts hp', len_of_lt hp, heq]

theorem idxOf_inj {l : List String} {a b : String} (ha : a ∈ l) (hb : b ∈ l)
    (h : l.idxOf a = l.idxOf b) : a = b := by
  have h1 := (getBang_idxOf ha).2
  have h2 := (getBang_idxOf hb).2
  rw [h] at h1
  exact h1.symm.trans h2

theorem idxOf?_getD_lt {l : List String} (x : String) (h : 0 < l.length) :
    (l.idxOf? x).getD 0 < l.length := by
  cases hx : l.idxOf? x with
  | none => exact h
  | some k => exact (List.idxOf?_eq_some_iff.1 hx).1

theorem term_idx {l : List String} {X : String} (hX : X ∈ l) :
    l[(l.idxOf? X).getD 0]? = some X := by
  rw [idxOf?_eq_idxOf hX, Option.getD_some,
    List.getElem?_eq_getElem (List.idxOf_lt_length_of_mem hX), List.getElem_idxOf]

theorem mem_terminals {S : PSymbols} {X : String} (h1 : X ∈ S.typeMap) (h2 : X ∉ S.ntList) :
    X ∈ S.terminals := by
  unfold PSymbols.terminals
  rw [List.mem_filter]
  exact ⟨h1, by simpa [PSymbols.isTerminal] using h2⟩

/-- the symbol an item expects is a symbol of the table other than `INVALID` -/
theorem expected_facts {syn : List SProd} {r : LRResult} (G : GenFacts syn r) {i : Item}
    (hd : i.d < r.ctx.len i) :
    r.ctx.expected i ∈ r.ctx.S.typeMap ∧ r.ctx.expected i ≠ "INVALID" := by
  obtain ⟨hp, s, hs, hexp, -, -⟩ := expected_spec hd
  obtain ⟨hp', heq⟩ := ctx_prod G.F.prods_eq hp
  rw [heq] at hs
  have hmem := List.getElem_mem hp'
  have hsm : s ∈ ((augment syn)[i.p]).body := List.mem_of_getElem? hs
  rw [hexp]
  exact ⟨(G.hW _ hmem).2 s hsm, (G.hB _ hmem s hsm).1⟩

/-- look-aheads are terminals of the table -/
theorem la_facts {syn : List SProd} {r : LRResult} (G : GenFacts syn r) {s : Nat} {st : LRState}
    {i : Item} (hs : r.states[s]? = some st) (hi : i ∈ st.items) :
    LaOk r.ctx i ∧ i.la ∉ r.ctx.S.ntList ∧ i.la ∈ r.ctx.S.terminals := by
  have h1 := G.laOk s st hs i hi
  have h2 := G.laU s st hs i hi
  have hnt : i.la ∉ r.ctx.S.ntList := by
    simpa [PSymbols.isTerminal] using h1.2.1
  refine ⟨h1, hnt, mem_terminals ?_ hnt⟩
  simp only [firstU, List.mem_cons] at h2
  rcases h2 with h2 | h2
  · exact absurd h2 h1.2.2.2
  · exact h2

/-- every state was expanded: the item with the dot advanced is in the state the transition on the
    expected symbol leads to -/
theorem trans_target {syn : List SProd} {r : LRResult} (G : GenFacts syn r) {s : Nat}
    {st : LRState} {i : Item} (hs : r.states[s]? = some st) (hi : i ∈ st.items)
    (hd : i.d < r.ctx.len i) :
    ∃ n st', st.next (r.ctx.expected i) = some n ∧ r.states[n]? = some st' ∧
      ({ i with d := i.d + 1 } : Item) ∈ st'.items := by
  have hadv := goto_mem_of hi hd rfl
  have hne : goto r.ctx st.items (r.ctx.expected i) ≠ [] := by
    intro he; rw [he] at hadv; cases hadv
  obtain ⟨idx, hidx⟩ := G.exp s (Array.getElem?_eq_some_iff.1 hs).1 st hs _ (expected_facts G hd).1 hne
  obtain ⟨n, hn⟩ := LRState.next_of_mem hidx
  obtain ⟨-, st', h2, h3⟩ := G.inv.trans s st hs _ (LRState.next_some hn)
  have hnd := state_nodup G.inv (closure_nodup _ _) h2
  exact ⟨n, st', hn, h2, sameItems_sub_rev hnd h3 _ hadv⟩

theorem itemAction_shift_intro {C : LRCtx} {i : Item} {sym : String} (nx : Nat)
    (h1 : sym ≠ "INVALID") (hd : i.d < C.len i) (hsym : sym = C.expected i) :
    itemAction C i sym nx = some (.shift nx) := by
  unfold itemAction
  dsimp only
  subst hsym
  have h2 : ¬ (C.len i ≤ i.d) := by omega
  have h3 : C.len i ≠ 0 := by omega
  simp [h1, h2, h3]

theorem itemAction_accept_intro {C : LRCtx} {i : Item} (nx : Nat) (hp : i.p = 0)
    (hd : C.len i ≤ i.d) (hla : i.la = "␚") : itemAction C i "␚" nx = some .accept := by
  unfold itemAction
  dsimp only
  simp [hp, hd, hla]

theorem itemAction_reduce_intro {C : LRCtx} {i : Item} (nx : Nat) (hp : i.p ≠ 0)
    (hd : C.len i ≤ i.d) (hla : i.la ≠ "INVALID") :
    itemAction C i i.la nx = some (.reduce i.p) := by
  unfold itemAction
  dsimp only
  simp [hp, hd, hla]

theorem closureStep_intro {C : LRCtx} {i : Item} {q : Nat} {t : String} (hd : i.d < C.len i)
    (hX : C.expected i ∈ C.S.ntList) (hq : q < C.prods.size)
    (hh : C.prods[q]!.head = C.expected i) (ht : t ∈ first1 C i) :
    (⟨q, 0, t⟩ : Item) ∈ closureStep C i := by
  unfold closureStep
  have hc : (decide (i.d ≥ C.len i) || C.S.isTerminal (C.expected i)) = false := by
    simp only [PSymbols.isTerminal, Bool.or_eq_false_iff, decide_eq_false_iff_not,
      Bool.not_eq_false', List.contains_iff_mem]
    exact ⟨by omega, hX⟩
  rw [hc]
  simp only [Bool.false_eq_true, if_false, List.mem_flatMap, List.mem_range]
  refine ⟨q, hq, ?_⟩
  rw [if_pos (by simpa using hh)]
  exact List.mem_map.2 ⟨t, ht, rfl⟩

/-! ## §4 the item checks -/

/-- (K2, terminal) the shift entry -/
theorem k2_shift {syn : List SProd} {ids : List String} {r : LRResult}
    (h : genParser syn ids = .ok r) (G : GenFacts syn r) (hc : r.tables.conflictStates = 0)
    {s : Nat} {st : LRState} {i : Item} (hs : r.states[s]? = some st) (hi : i ∈ st.items)
    (hd : i.d < r.ctx.len i) (hX : r.ctx.expected i ∉ r.ctx.S.ntList) :
    ∃ n st', r.tables.act s ((r.ctx.S.terminals.idxOf? (r.ctx.expected i)).getD 0) =
        some (.shift n) ∧ r.states[n]? = some st' ∧ ({ i with d := i.d + 1 } : Item) ∈ st'.items := by
  obtain ⟨n, st', hnext, hst', hadv⟩ := trans_target G hs hi hd
  obtain ⟨e1, e2⟩ := expected_facts G hd
  have ht := term_idx (mem_terminals e1 hX)
  obtain ⟨res, hres, hact, hflag⟩ := act_of_state h hs ht
  have := setAction_noconf hres (hflag hc) hi
    (itemAction_shift_intro ((st.next (r.ctx.expected i)).getD 0) e2 hd rfl)
  rw [hnext] at this
  exact ⟨n, st', by rw [hact, this]; rfl, hst', hadv⟩

/-- (K2, non-terminal) the goto entry -/
theorem k2_goto {syn : List SProd} {ids : List String} {r : LRResult}
    (h : genParser syn ids = .ok r) (G : GenFacts syn r)
    {s : Nat} {st : LRState} {i : Item} (hs : r.states[s]? = some st) (hi : i ∈ st.items)
    (hd : i.d < r.ctx.len i) (hX : r.ctx.expected i ∈ r.ctx.S.ntList) :
    ∃ (n : Nat) (st' : LRState),
      r.tables.gotoOf s (r.ctx.S.ntList.idxOf (r.ctx.expected i)) = some (n : Int) ∧
      r.states[n]? = some st' ∧ ({ i with d := i.d + 1 } : Item) ∈ st'.items := by
  obtain ⟨n, st', hnext, hst', hadv⟩ := trans_target G hs hi hd
  have hB : r.ctx.S.ntList[r.ctx.S.ntList.idxOf (r.ctx.expected i)]? = some (r.ctx.expected i) := by
    rw [List.getElem?_eq_getElem (List.idxOf_lt_length_of_mem hX), List.getElem_idxOf]
  exact ⟨n, st', goto_of_state h hs hB hnext, hst', hadv⟩

/-- (K1) closure: the look-aheads demanded by the validator are among those the generator
    computed -/
theorem k1_closure {syn : List SProd} {r : LRResult} (G : GenFacts syn r)
    {s : Nat} {st : LRState} {i : Item} (hs : r.states[s]? = some st) (hi : i ∈ st.items)
    (hd : i.d < r.ctx.len i) (hX : r.ctx.expected i ∈ r.ctx.S.ntList) {q : Nat}
    (hq : q < (augment syn).length) (hh : ((augment syn)[q]).head = r.ctx.expected i) :
    ∀ b ∈ firstOfSeq (mkFc r.ctx.S.terminals r.ctx.S.ntList r.ctx.fs)
        (((r.ctx.body i).drop (i.d + 1)).map (symOf r.ctx.S.terminals r.ctx.S.ntList))
        ((r.ctx.S.terminals.idxOf? i.la).getD 0),
      ∃ x ∈ st.items, x.p = q ∧ x.d = 0 ∧ (r.ctx.S.terminals.idxOf? x.la).getD 0 = b := by
  intro b hb
  obtain ⟨hla, hlant, -⟩ := la_facts G hs hi
  obtain ⟨t, ht1, ht2, ht3⟩ := firstOfSeq_sub r.ctx.S.terminals hlant _ (by
    intro y hy hynt
    obtain ⟨hp, hne, s', hs', rfl⟩ := body_mem (List.mem_of_mem_drop hy)
    obtain ⟨hp', heq⟩ := ctx_prod G.F.prods_eq hp
    rw [heq] at hne hs'
    exact (G.hB _ (List.getElem_mem hp') s' hs').2 hne) hla.2.2.2 b hb
  have hfirst : t ∈ first1 r.ctx i := by
    unfold first1 sortStrings
    rw [List.mem_mergeSort]
    exact firstS_mem ht2 ht1
  have hqs : q < r.ctx.prods.size := by rw [G.F.prods_eq]; simpa using hq
  have hhead : r.ctx.prods[q]!.head = r.ctx.expected i := by
    rw [getElem!_pos r.ctx.prods q hqs]
    obtain ⟨_, heq⟩ := ctx_prod G.F.prods_eq hqs
    rw [heq]; exact hh
  exact ⟨⟨q, 0, t⟩, G.closed s st hs i hi _ (closureStep_intro hd hX hqs hhead hfirst),
    rfl, rfl, ht3⟩

/-- (K3) a complete item has its reduce entry on its look-ahead, the complete start item its
    accept entry on end of input -/
theorem k3_reduce {syn : List SProd} {ids : List String} {r : LRResult}
    (h : genParser syn ids = .ok r) (G : GenFacts syn r) (hc : r.tables.conflictStates = 0)
    {s : Nat} {st : LRState} {i : Item} (hs : r.states[s]? = some st) (hi : i ∈ st.items)
    (hd : r.ctx.len i ≤ i.d) :
    (i.p = 0 → (r.ctx.S.terminals.idxOf? i.la).getD 0 = 1 ∧ r.tables.act s 1 = some .accept) ∧
    (i.p ≠ 0 →
      r.tables.act s ((r.ctx.S.terminals.idxOf? i.la).getD 0) = some (.reduce i.p)) := by
  obtain ⟨hla, -, hlat⟩ := la_facts G hs hi
  have hone : (r.ctx.S.terminals.idxOf? "␚").getD 0 = 1 := by
    obtain ⟨hlt, hget⟩ := List.getElem?_eq_some_iff.1 G.F.term1
    have := idxOf?_getElem_of_nodup _ G.F.termsNodup 1 hlt
    rw [hget] at this
    rw [this]; rfl
  constructor
  · intro hp
    have hl := hla.1 hp
    obtain ⟨res, hres, hact, hflag⟩ := act_of_state h hs G.F.term1
    have := setAction_noconf hres (hflag hc) hi (itemAction_accept_intro _ hp hd hl)
    exact ⟨by rw [hl]; exact hone, by rw [hact, this]⟩
  · intro hp
    obtain ⟨res, hres, hact, hflag⟩ := act_of_state h hs (term_idx hlat)
    have := setAction_noconf hres (hflag hc) hi (itemAction_reduce_intro _ hp hd hla.2.2.1)
    rw [hact, this]

/-! ## §5 assembly -/

/-- the symbol at a position of a body of the numbered grammar is the numbering of the symbol an
    item expects -/
theorem gbody_at {syn : List SProd} {r : LRResult} (G : GenFacts syn r) (terms nts : List String)
    {p k : Nat} {X : Sym} (hp : p < (augment syn).length)
    (hX : ((ngrammarOf (augment syn) terms nts).body p)[k]? = some X) :
    ∃ i : Item, i.p = p ∧ i.d = k ∧ i.d < r.ctx.len i ∧ X = symOf terms nts (r.ctx.expected i) := by
  have hps : p < r.ctx.prods.size := by rw [G.F.prods_eq]; simpa using hp
  have hk := (List.getElem?_eq_some_iff.1 hX).1
  have hlen := gbody_len G.F.prods_eq terms nts (i := ⟨p, k, ""⟩) hps
  have hd : (⟨p, k, ""⟩ : Item).d < r.ctx.len ⟨p, k, ""⟩ := by
    rw [← hlen]; exact hk
  have := body_at G.F.prods_eq terms nts hd
  rw [hX] at this
  exact ⟨⟨p, k, ""⟩, rfl, rfl, hd, by simpa using this⟩

theorem symOf_t_inv {terms nts : List String} {X : String} {a : Nat}
    (h : symOf terms nts X = Sym.t a) : X ∉ nts ∧ a = (terms.idxOf? X).getD 0 := by
  by_cases hX : X ∈ nts
  · rw [symOf_mem hX] at h; cases h
  · rw [symOf_not_mem hX] at h
    cases h
    exact ⟨hX, rfl⟩

theorem symOf_nt_inv {terms nts : List String} {X : String} {B : Nat}
    (h : symOf terms nts X = Sym.nt B) : X ∈ nts ∧ B = nts.idxOf X := by
  by_cases hX : X ∈ nts
  · rw [symOf_mem hX] at h
    cases h
    exact ⟨hX, rfl⟩
  · rw [symOf_not_mem hX] at h; cases h

/-- the FIRST half needs neither the bound on the number of states nor the absence of conflicts -/
theorem genParser_firstOk {syn : List SProd} {ids : List String} {r : LRResult}
    (h : genParser syn ids = .ok r) (hn : NamesOk syn ids) (hx : CompleteNamesOk syn) :
    firstOk (ngrammarOf (augment syn) r.tables.terminals r.tables.nts) (fcOf r) = true := by
  obtain ⟨S0, hS0, hctx, -⟩ := genParser_shape h
  have hS : r.ctx.S = S0.addTokens ids := by rw [hctx]
  have hW : WFp r.ctx.S (augment syn) := by
    rw [hS]; exact WFp_addTokens (newSymbols_WFp hS0) ids
  have hfs : r.ctx.fs = firstSets r.ctx.S (augment syn) := by rw [hctx]
  have hE : "empty" ∉ r.ctx.S.ntList := by
    intro hm
    have hnt : r.ctx.S.ntList = S0.ntList := by rw [hS]; rfl
    rw [hnt] at hm
    have := newSymbols_ntList_sub hS0 _ hm
    obtain ⟨n1, n2, -⟩ := hn
    cases syn with
    | nil => exact absurd rfl n1
    | cons q rest =>
      simp only [augment, synHeads, List.map_cons, List.mem_cons] at this
      rcases this with h' | h'
      · exact absurd h' (by decide)
      · exact hx.2.1 (by simpa [synHeads] using h')
  obtain ⟨rows, -, hterm, hnts, -⟩ := genParser_tables h
  rw [fcOf_eq, hterm, hnts, hfs]
  exact firstOk_gen _ hW (bodyOk_of hn hx) hE

/-- MAIN THEOREM (Proofs level) -/
theorem genParser_complete {syn : List SProd} {ids : List String} {r : LRResult}
    (h : genParser syn ids = .ok r) (hn : NamesOk syn ids) (hsz : r.states.size ≤ 4096)
    (hc : r.tables.conflictStates = 0) (hx : CompleteNamesOk syn) :
    firstOk (ngrammarOf (augment syn) r.tables.terminals r.tables.nts) (fcOf r) = true ∧
    complete (ngrammarOf (augment syn) r.tables.terminals r.tables.nts) r.tables (fcOf r)
      (claOf r) = true := by
  have G := genFacts_of h hn hsz hx
  have F := G.F
  have hcla : ∀ {s p d a : Nat}, (p, d, a) ∈ (claOf r)[s]?.getD [] ↔
      ∃ st, r.states[s]? = some st ∧
        ∃ x ∈ st.items, x.p = p ∧ x.d = d ∧ (r.ctx.S.terminals.idxOf? x.la).getD 0 = a := by
    intro s p d a
    rw [mem_claOf, G.terms]
  rw [fcOf_eq, G.terms, G.nts, G.fsEq]
  refine ⟨firstOk_gen _ G.hW G.hB G.hE, ?_⟩
  rw [← G.fsEq]
  obtain ⟨rows, -, -, -, -, -, hpnt, hplen, -⟩ := genParser_tables h
  obtain ⟨rows', -, -, -, hnum⟩ := genParser_tables2 h
  have hpos := prods_pos F
  have hlen2 : 1 < r.ctx.S.terminals.length := (List.getElem?_eq_some_iff.1 F.term1).1
  have hle : r.ctx.S.terminals.length ≤ r.ctx.S.typeMap.length := by
    unfold PSymbols.terminals; exact List.length_filter_le _ _
  apply complete_intro
  · rw [hnum]; omega
  · intro row hrow
    rw [action_row_size h row hrow, hnum]; exact hle
  · intro p hp
    rw [ngrammarOf_size] at hp
    rw [hpnt, hplen]
    exact prodTable_ok F hp
  · exact body0_ok F
  · intro p hp a ha
    rw [ngrammarOf_size] at hp
    obtain ⟨k, hk⟩ := List.mem_iff_getElem?.1 ha
    obtain ⟨i, -, -, -, hsym⟩ := gbody_at G _ _ hp hk
    rw [(symOf_t_inv hsym.symm).2, hnum]
    exact Nat.lt_of_lt_of_le (idxOf?_getD_lt _ (by omega)) hle
  · intro p hp B hB
    rw [ngrammarOf_size] at hp
    obtain ⟨k, hk⟩ := List.mem_iff_getElem?.1 hB
    obtain ⟨i, -, -, hd, hsym⟩ := gbody_at G _ _ hp hk
    obtain ⟨hX, hBeq⟩ := symOf_nt_inv hsym.symm
    have h0 : 0 < (augment syn).length := by rw [F.prods_eq] at hpos; simpa using hpos
    have hh0 := F.heads _ (List.getElem_mem h0)
    rw [ngrammarOf_head _ _ h0, idxOf?_eq_idxOf hh0, Option.getD_some, hBeq]
    intro heq
    have := idxOf_inj hX hh0 heq
    apply F.noStart i hd
    rw [getElem!_pos r.ctx.prods 0 hpos]
    obtain ⟨_, heq0⟩ := ctx_prod F.prods_eq hpos
    rw [heq0, this]
  · -- (K0)
    obtain ⟨st0, g1, g2⟩ := G.inv.zero
    refine hcla.2 ⟨st0, g1, ⟨0, 0, "␚"⟩, ?_, rfl, rfl, ?_⟩
    · rw [g2]; exact closure_subset _ _ _ (by simp)
    · obtain ⟨hlt, hget⟩ := List.getElem?_eq_some_iff.1 F.term1
      have := idxOf?_getElem_of_nodup _ F.termsNodup 1 hlt
      rw [hget] at this
      rw [this]; rfl
  · -- (K2) shift
    intro s p d a t' hm hb
    obtain ⟨st, hs, x, hx, rfl, rfl, rfl⟩ := hcla.1 hm
    obtain ⟨k1, k2⟩ := state_itemOk G.inv hpos hs x hx
    have hd : x.d < r.ctx.len x := by
      rw [← gbody_len F.prods_eq r.ctx.S.terminals r.ctx.S.ntList k1]
      exact (List.getElem?_eq_some_iff.1 hb).1
    rw [body_at F.prods_eq _ _ hd] at hb
    obtain ⟨hX, rfl⟩ := symOf_t_inv (Option.some.inj hb)
    obtain ⟨n, st', e1, e2, e3⟩ := k2_shift h G hc hs hx hd hX
    exact ⟨n, e1, hcla.2 ⟨st', e2, _, e3, rfl, rfl, rfl⟩⟩
  · -- (K2) goto
    intro s p d a B hm hb
    obtain ⟨st, hs, x, hx, rfl, rfl, rfl⟩ := hcla.1 hm
    obtain ⟨k1, k2⟩ := state_itemOk G.inv hpos hs x hx
    have hd : x.d < r.ctx.len x := by
      rw [← gbody_len F.prods_eq r.ctx.S.terminals r.ctx.S.ntList k1]
      exact (List.getElem?_eq_some_iff.1 hb).1
    rw [body_at F.prods_eq _ _ hd] at hb
    obtain ⟨hX, rfl⟩ := symOf_nt_inv (Option.some.inj hb)
    obtain ⟨n, st', e1, e2, e3⟩ := k2_goto h G hs hx hd hX
    exact ⟨n, e1, hcla.2 ⟨st', e2, _, e3, rfl, rfl, rfl⟩⟩
  · -- (K1) closure
    intro s p d a B hm hb q hq hhead b hbm
    obtain ⟨st, hs, x, hx, rfl, rfl, rfl⟩ := hcla.1 hm
    obtain ⟨k1, k2⟩ := state_itemOk G.inv hpos hs x hx
    have hd : x.d < r.ctx.len x := by
      rw [← gbody_len F.prods_eq r.ctx.S.terminals r.ctx.S.ntList k1]
      exact (List.getElem?_eq_some_iff.1 hb).1
    rw [body_at F.prods_eq _ _ hd] at hb
    obtain ⟨hX, rfl⟩ := symOf_nt_inv (Option.some.inj hb)
    rw [ngrammarOf_size] at hq
    have hqh := F.heads _ (List.getElem_mem hq)
    rw [ngrammarOf_head _ _ hq, idxOf?_eq_idxOf hqh, Option.getD_some] at hhead
    have hh := idxOf_inj hqh hX hhead
    rw [gbody_eq F.prods_eq _ _ k1, ← List.map_drop] at hbm
    obtain ⟨y, hy, e1, e2, e3⟩ := k1_closure G hs hx hd hX hq hh b hbm
    exact hcla.2 ⟨st, hs, y, hy, e1, e2, e3⟩
  · -- (K3)
    intro s p d a hm hd
    obtain ⟨st, hs, x, hx, rfl, rfl, rfl⟩ := hcla.1 hm
    obtain ⟨k1, k2⟩ := state_itemOk G.inv hpos hs x hx
    rw [gbody_len F.prods_eq _ _ k1] at hd
    exact k3_reduce h G hc hs hx (by omega)

end GenComplete

end Gocc
