import Gocc.Proofs.LexGenCorrectX
/-
C01 (generator level), part 3: the position sets of the reference automaton.

  * `GoodX C S`: `S` is a duplicate-free list of single frames `[i]`, `i` a dotted position of its
    production tree, ordered by production index — every state of `refDfa` is of this shape when
    there are no references (`goodX_xClosure`);
  * `SetRel items S`: the item list and the position list are the same set under `i ↦ [i]`;
  * start states: `SetRel (itemsSet0 C) (xStart C)`.
-/
namespace Gocc
namespace LexGenC

/-! ### list facts -/

theorem eraseDups_sublist {α : Type} [BEq α] : ∀ (n : Nat) (l : List α), l.length ≤ n →
    l.eraseDups.Sublist l := by
  intro n
  induction n with
  | zero =>
    intro l h
    have : l = [] := List.eq_nil_of_length_eq_zero (by omega)
    subst this; simp
  | succ n ih =>
    intro l h
    cases l with
    | nil => simp
    | cons a as =>
      rw [List.eraseDups_cons]
      have hl : (as.filter fun b => !b == a).length ≤ n := by
        have := List.length_filter_le (fun b => !b == a) as
        simp only [List.length_cons] at h; omega
      exact List.Sublist.cons_cons a ((ih _ hl).trans List.filter_sublist)

theorem nodup_eraseDups {α : Type} [BEq α] [LawfulBEq α] : ∀ (n : Nat) (l : List α), l.length ≤ n →
    l.eraseDups.Nodup := by
  intro n
  induction n with
  | zero =>
    intro l h
    have : l = [] := List.eq_nil_of_length_eq_zero (by omega)
    subst this; simp
  | succ n ih =>
    intro l h
    cases l with
    | nil => simp
    | cons a as =>
      rw [List.eraseDups_cons]
      have hl : (as.filter fun b => !b == a).length ≤ n := by
        have := List.length_filter_le (fun b => !b == a) as
        simp only [List.length_cons] at h; omega
      refine List.nodup_cons.2 ⟨?_, ih _ hl⟩
      intro hmem
      rw [List.mem_eraseDups, List.mem_filter] at hmem
      simp at hmem

/-- a duplicate-free list inside a list that is not longer contains it -/
theorem subset_of_nodup_length {α : Type} {a b : List α} (ha : a.Nodup) (hs : ∀ x ∈ a, x ∈ b)
    (hl : b.length ≤ a.length) : ∀ x ∈ b, x ∈ a := by
  intro x hx
  apply Classical.byContradiction
  intro hxa
  have hnd : (x :: a).Nodup := List.nodup_cons.2 ⟨hxa, ha⟩
  have hsub : ∀ y ∈ x :: a, y ∈ b := by
    intro y hy
    rcases List.mem_cons.1 hy with rfl | hy
    · exact hx
    · exact hs y hy
  have := List.Nodup.length_le_of_subset hnd (fun y hy => hsub y hy)
  simp only [List.length_cons] at this
  omega

/-- replacing one element of a list sorted by `key` by elements of the same key -/
theorem pairwise_replace {α : Type} (key : α → Nat) (a b ys : List α) (x : α)
    (h : (a ++ x :: b).Pairwise (fun u v => key u ≤ key v)) (hy : ∀ y ∈ ys, key y = key x) :
    (a ++ (ys ++ b)).Pairwise (fun u v => key u ≤ key v) := by
  rw [List.pairwise_append] at h ⊢
  obtain ⟨h1, h2, h3⟩ := h
  rw [List.pairwise_cons] at h2
  refine ⟨h1, ?_, ?_⟩
  · rw [List.pairwise_append]
    refine ⟨?_, h2.2, ?_⟩
    · rw [List.pairwise_iff_forall_sublist]
      intro u v huv
      have hu : u ∈ ys := huv.subset (by simp)
      have hv : v ∈ ys := huv.subset (by simp)
      rw [hy u hu, hy v hv]; exact Nat.le_refl _
    · intro u hu v hv
      rw [hy u hu]; exact h2.1 v hv
  · intro u hu v hv
    rcases List.mem_append.1 hv with hv | hv
    · rw [hy v hv]; exact h3 u hu x List.mem_cons_self
    · exact h3 u hu v (List.mem_cons_of_mem _ hv)

/-! ### position sets -/

/-- production index of the top frame -/
def hp : XPos → Nat
  | i :: _ => i.prod
  | [] => 0

structure GoodX (C : LexCtx) (S : List XPos) : Prop where
  nodup : S.Nodup
  sing : ∀ x ∈ S, ∃ i, x = [i] ∧ Pos C i
  sorted : S.Pairwise (fun a b => hp a ≤ hp b)

theorem GoodX.length_le {C : LexCtx} {S : List XPos} (h : GoodX C S) : S.length ≤ C.fuel := by
  have := visited_length_le h.nodup h.sing
  have := allPos_length C
  omega

/-- the item list and the position list are the same set under `i ↦ [i]` -/
def SetRel (items : List LItem) (S : List XPos) : Prop := ∀ x, x ∈ S ↔ ∃ i ∈ items, x = [i]

theorem SetRel.mem {items : List LItem} {S : List XPos} (h : SetRel items S) (i : LItem) :
    [i] ∈ S ↔ i ∈ items := by
  rw [h]
  constructor
  · rintro ⟨j, hj, e⟩; rw [sing_inj e]; exact hj
  · intro hi; exact ⟨i, hi, rfl⟩

theorem SetRel.nil_iff {items : List LItem} {S : List XPos} (h : SetRel items S) :
    items = [] ↔ S = [] := by
  constructor
  · intro hi
    subst hi
    cases S with
    | nil => rfl
    | cons x S => obtain ⟨i, hi, _⟩ := (h x).1 List.mem_cons_self; cases hi
  · intro hS
    subst hS
    cases items with
    | nil => rfl
    | cons i items => have := (h [i]).2 ⟨i, List.mem_cons_self, rfl⟩; cases this

/-- sortedness of the output of the loop -/
theorem xLoop_sorted {C : LexCtx} (hC : NoRefC C) :
    ∀ (fuel : Nat) (work visited out : List XPos), (∀ x ∈ work, ∃ i, x = [i]) →
      (out ++ work).Pairwise (fun a b => hp a ≤ hp b) →
      (xClosureLoop C fuel work visited out).Pairwise (fun a b => hp a ≤ hp b) := by
  intro fuel
  induction fuel with
  | zero =>
    intro work visited out _ h
    rw [xClosureLoop]
    exact h.sublist (List.sublist_append_left _ _)
  | succ fuel ih =>
    intro work visited out hw h
    cases work with
    | nil => rw [xClosureLoop]; simpa using h
    | cons w work =>
      have hw' : ∀ x ∈ work, ∃ i, x = [i] := fun x hx => hw x (List.mem_cons_of_mem _ hx)
      obtain ⟨i, rfl⟩ := hw _ List.mem_cons_self
      by_cases hv : visited.contains [i] = true
      · rw [xClosureLoop, if_pos hv]
        refine ih work visited out hw' (h.sublist ?_)
        exact List.Sublist.append (List.Sublist.refl _) (List.sublist_cons_self _ _)
      · have hv' : visited.contains [i] = false := by simpa using hv
        rw [xLoop_step hC fuel i work visited out hv']
        split
        · refine ih work _ _ hw' ?_
          simpa [List.append_assoc] using h
        · refine ih _ _ out ?_ ?_
          · intro x hx
            rcases List.mem_append.1 hx with hx | hx
            · obtain ⟨y, _, rfl⟩ := List.mem_map.1 hx; exact ⟨y, rfl⟩
            · exact hw' x hx
          · refine pairwise_replace hp out work _ [i] h ?_
            intro y hy
            obtain ⟨z, hz, rfl⟩ := List.mem_map.1 hy
            simp only [hp]
            exact emoveStep_prod C i z hz

/-- the closure of Pos single frames, sorted by production, is a good position set -/
theorem goodX_xClosure {C : LexCtx} (hC : NoRefC C) {xs : List XPos}
    (hxs : ∀ x ∈ xs, ∃ i, x = [i] ∧ Pos C i) (hsort : xs.Pairwise (fun a b => hp a ≤ hp b)) :
    GoodX C (xClosure C xs) := by
  unfold xClosure
  refine ⟨nodup_eraseDups _ _ (Nat.le_refl _), ?_, ?_⟩
  · intro x hx
    rw [List.mem_eraseDups] at hx
    obtain ⟨y, s, h1, h2, h3, _⟩ := xLoop_sound hC (fun s => [s] ∈ xs) (xFuel C) xs [] []
      (by
        intro x hx
        obtain ⟨i, rfl, _⟩ := hxs x hx
        exact ⟨i, i, rfl, hx, .refl⟩)
      (by intro x hx; cases hx) x hx
    obtain ⟨i, hi, hpi⟩ := hxs _ h2
    exact ⟨y, h1, EReach_pos (by rw [sing_inj hi]; exact hpi) h3⟩
  · refine List.Pairwise.sublist (eraseDups_sublist _ _ (Nat.le_refl _)) ?_
    refine xLoop_sorted hC _ xs [] [] ?_ (by simpa using hsort)
    intro x hx
    obtain ⟨i, hi, _⟩ := hxs x hx
    exact ⟨i, hi⟩

/-! ### `xExpected`, `xAdvance` on single frames -/

theorem xExpected_sing (C : LexCtx) (i : LItem) : xExpected C [i] = C.expected i := by
  unfold xExpected
  dsimp only
  split
  · rename_i h; rw [expected_none_of_isReduce h]
  · rfl

theorem xAdvance_sing (i : LItem) : xAdvance [i] = [{ i with path := incLast i.path }] := rfl

/-! ### the start states -/

/-- the start items of the non-`reg` productions -/
def startFrames (C : LexCtx) : List XPos :=
  (List.range C.prods.size).filterMap fun k =>
    match C.prods[k]? with
    | some p => if p.kind != .reg then some [⟨k, [0]⟩] else none
    | none => none

theorem mem_startFrames {C : LexCtx} {x : XPos} :
    x ∈ startFrames C ↔ ∃ k P, C.prods[k]? = some P ∧ P.kind ≠ .reg ∧ x = [⟨k, [0]⟩] := by
  unfold startFrames
  rw [List.mem_filterMap]
  constructor
  · rintro ⟨k, _, hk⟩
    cases hP : C.prods[k]? with
    | none => rw [hP] at hk; cases hk
    | some P =>
      rw [hP] at hk
      dsimp only at hk
      split at hk
      · rename_i hkind
        simp only [Option.some.injEq] at hk
        exact ⟨k, P, hP, by simpa using hkind, hk.symm⟩
      · cases hk
  · rintro ⟨k, P, hP, hkind, rfl⟩
    refine ⟨k, ?_, ?_⟩
    · rw [List.mem_range]
      exact (Array.getElem?_eq_some_iff.1 hP).1
    · rw [hP]
      dsimp only
      rw [if_pos (by simpa using hkind)]

theorem startFrames_ok (C : LexCtx) :
    (∀ x ∈ startFrames C, ∃ i, x = [i] ∧ Pos C i) ∧
    (startFrames C).Pairwise (fun a b => hp a ≤ hp b) ∧
    (startFrames C).length ≤ C.fuel := by
  refine ⟨?_, ?_, ?_⟩
  · intro x hx
    obtain ⟨k, P, hP, _, rfl⟩ := mem_startFrames.1 hx
    exact ⟨_, rfl, pos_start hP⟩
  · unfold startFrames
    refine List.Pairwise.filterMap _ ?_ List.pairwise_le_range
    intro a a' haa' b hb b' hb'
    have key : ∀ (k : Nat) (z : XPos), (match C.prods[k]? with
        | some p => if p.kind != .reg then some [(⟨k, [0]⟩ : LItem)] else none
        | none => none) = some z → hp z = k := by
      intro k z hz
      split at hz
      · split at hz
        · simp only [Option.some.injEq] at hz; subst hz; rfl
        · cases hz
      · cases hz
    rw [key a b hb, key a' b' hb']; exact haa'
  · have h1 : (startFrames C).length ≤ (List.range C.prods.size).length :=
      List.length_filterMap_le _ _
    have := allPos_length C
    simp only [List.length_range] at h1
    omega

theorem xStart_eq (C : LexCtx) : xStart C = xClosure C (startFrames C) := rfl

theorem goodX_xStart {C : LexCtx} (hC : NoRefC C) : GoodX C (xStart C) :=
  goodX_xClosure hC (startFrames_ok C).1 (startFrames_ok C).2.1

theorem mem_xStart_iff {C : LexCtx} (hC : NoRefC C) (x : XPos) :
    x ∈ xStart C ↔ ∃ k P y, C.prods[k]? = some P ∧ P.kind ≠ .reg ∧ x = [y] ∧
      EReach C ⟨k, [0]⟩ y ∧ C.isBasic y = true := by
  rw [xStart_eq, mem_xClosure_iff hC (startFrames_ok C).1 (startFrames_ok C).2.2]
  constructor
  · rintro ⟨s, y, hs, rfl, hr, hb⟩
    obtain ⟨k, P, hP, hk, e⟩ := mem_startFrames.1 hs
    rw [sing_inj e] at hr
    exact ⟨k, P, y, hP, hk, rfl, hr, hb⟩
  · rintro ⟨k, P, y, hP, hk, rfl, hr, hb⟩
    exact ⟨⟨k, [0]⟩, y, mem_startFrames.2 ⟨k, P, hP, hk, rfl⟩, rfl, hr, hb⟩

/-- the start items of production `k` (nothing for `reg` productions) -/
def start0 (C : LexCtx) (k : Nat) : List LItem :=
  match C.prods[k]? with
  | some p => if p.kind != .reg then emoves C ⟨k, [0]⟩ else []
  | none => []

theorem itemsSet0_eq (C : LexCtx) :
    itemsSet0 C = (List.range C.prods.size).foldl (fun acc k => addAll acc (start0 C k)) [] := by
  unfold itemsSet0
  congr 1
  funext acc k
  unfold start0
  cases C.prods[k]? with
  | none => rfl
  | some p =>
    dsimp only
    split
    · rfl
    · rfl

theorem mem_itemsSet0_iff {C : LexCtx} {y : LItem} :
    y ∈ itemsSet0 C ↔ ∃ k P, C.prods[k]? = some P ∧ P.kind ≠ .reg ∧ y ∈ emoves C ⟨k, [0]⟩ := by
  rw [itemsSet0_eq, mem_foldl_addAll]
  simp only [List.not_mem_nil, false_or, List.mem_range]
  constructor
  · rintro ⟨k, _, hy⟩
    unfold start0 at hy
    cases hP : C.prods[k]? with
    | none => rw [hP] at hy; cases hy
    | some P =>
      rw [hP] at hy
      dsimp only at hy
      split at hy
      · rename_i hk; exact ⟨k, P, hP, by simpa using hk, hy⟩
      · cases hy
  · rintro ⟨k, P, hP, hk, hy⟩
    refine ⟨k, (Array.getElem?_eq_some_iff.1 hP).1, ?_⟩
    unfold start0
    rw [hP]
    dsimp only
    rw [if_pos (by simpa using hk)]
    exact hy

theorem start0_prod (C : LexCtx) (k : Nat) : ∀ x ∈ start0 C k, x.prod = k := by
  intro x hx
  unfold start0 at hx
  split at hx
  · split at hx
    · exact emoves_prod C ⟨k, [0]⟩ x hx
    · cases hx
  · cases hx

theorem nodup_itemsSet0 (C : LexCtx) : (itemsSet0 C).Nodup := by
  rw [itemsSet0_eq]; exact nodup_foldl_addAll _ _ [] List.nodup_nil

theorem prodSorted_itemsSet0 (C : LexCtx) : ProdSorted (itemsSet0 C) := by
  rw [itemsSet0_eq]
  exact prodSorted_foldl_addAll (fun k : Nat => k) _ (start0_prod C) _ [] 0 List.pairwise_le_range
    (fun _ _ => Nat.zero_le _) List.Pairwise.nil (fun _ hx => by cases hx)

/-- (start states) `ItemsSet0` and `xStart` are the same set -/
theorem start_rel {C : LexCtx} (hC : NoRefC C) : SetRel (itemsSet0 C) (xStart C) := by
  intro x
  rw [mem_xStart_iff hC]
  constructor
  · rintro ⟨k, P, y, hP, hk, rfl, hr, hb⟩
    exact ⟨y, mem_itemsSet0_iff.2 ⟨k, P, hP, hk, (C09_emoves_iff C _ y).2 ⟨hr, hb⟩⟩, rfl⟩
  · rintro ⟨y, hy, rfl⟩
    obtain ⟨k, P, hP, hk, hy⟩ := mem_itemsSet0_iff.1 hy
    obtain ⟨hr, hb⟩ := (C09_emoves_iff C _ y).1 hy
    exact ⟨k, P, y, hP, hk, rfl, hr, hb⟩

end LexGenC
end Gocc
