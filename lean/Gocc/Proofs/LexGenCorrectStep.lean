import Gocc.Proofs.LexGenCorrectRefSets
/-
C01 (generator level), part 4 — (M2) the per-state transition lemma.

For an item list `items` and a position list `S` that are the same set (`SetRel`):
  * `step_class`: for a rune `r` in the class `c` of `symbolClasses C items`,
        `moveSet C items c`  (= `nextSet`)  and  `xStep C S r`  are the same set;
  * `step_dot`: for a rune in no class, `dotSet C items` (= `nextDot`) and `xStep C S r` are the
    same set (both empty when no item expects `.`).
The classes are `classesOf` of the literal / range terms expected in the state (`symbolClasses_fst`),
so by C18 `termMatch t c ↔ termHas t r` for every expected term `t` and every `r` in `c`
(a reversed range `'z'-'a'` matches no class and no rune).
-/
namespace Gocc
namespace LexGenC

/-! ### `symbolClasses` is `classesOf` -/

/-- the interval of a literal / range term -/
def termCR : LTerm → Option CR
  | .lit v => some ⟨v, v⟩
  | .rng a b => some ⟨a, b⟩
  | _ => none

/-- the literal / range intervals expected in the state, in the order of the items -/
def rsOf (C : LexCtx) (items : List LItem) : List CR :=
  items.filterMap fun i => (C.expected i).bind termCR

def isDotTerm : Option LTerm → Bool
  | some .dot => true
  | _ => false

/-- one step of the `getSymbolClasses` fold -/
def scStep (C : LexCtx) (acc : List CR × Bool) (i : LItem) : List CR × Bool :=
  (match (C.expected i).bind termCR with
    | some r => addRange acc.1 r.lo r.hi
    | none => acc.1, acc.2 || isDotTerm (C.expected i))

theorem symbolClasses_eq (C : LexCtx) (items : List LItem) :
    symbolClasses C items = items.foldl (scStep C) ([], false) := by
  unfold symbolClasses
  congr 1
  funext acc i
  unfold scStep
  cases hr : C.isReduce i with
  | true =>
    rw [expected_none_of_isReduce hr]
    simp [isDotTerm]
  | false =>
    simp only [Bool.false_eq_true, if_false]
    cases he : C.expected i with
    | none => simp [isDotTerm]
    | some t => cases t <;> simp [termCR, isDotTerm]

theorem symbolClasses_fold (C : LexCtx) : ∀ (items : List LItem) (acc : List CR × Bool),
    items.foldl (scStep C) acc =
    ((rsOf C items).foldl (fun l r => addRange l r.lo r.hi) acc.1,
      acc.2 || items.any fun i => isDotTerm (C.expected i)) := by
  intro items
  induction items with
  | nil => intro acc; simp [rsOf]
  | cons i items ih =>
    intro acc
    rw [List.foldl_cons, ih]
    unfold scStep
    cases hb : (C.expected i).bind termCR with
    | none => simp [rsOf, hb, Bool.or_assoc]
    | some r => simp [rsOf, hb, Bool.or_assoc]

theorem symbolClasses_fst (C : LexCtx) (items : List LItem) :
    (symbolClasses C items).1 = classesOf (rsOf C items) := by
  rw [symbolClasses_eq, symbolClasses_fold]
  rfl

theorem symbolClasses_snd (C : LexCtx) (items : List LItem) :
    (symbolClasses C items).2 = true ↔ ∃ i ∈ items, C.expected i = some .dot := by
  rw [symbolClasses_eq, symbolClasses_fold]
  simp only [Bool.false_or, List.any_eq_true]
  constructor
  · rintro ⟨i, hi, hd⟩
    refine ⟨i, hi, ?_⟩
    unfold isDotTerm at hd
    split at hd
    · assumption
    · cases hd
  · rintro ⟨i, hi, he⟩
    exact ⟨i, hi, by rw [he]; rfl⟩

theorem mem_rsOf_of {C : LexCtx} {items : List LItem} {i : LItem} {t : LTerm} {ρ : CR}
    (hi : i ∈ items) (he : C.expected i = some t) (ht : termCR t = some ρ) : ρ ∈ rsOf C items := by
  unfold rsOf
  rw [List.mem_filterMap]
  exact ⟨i, hi, by rw [he]; exact ht⟩

theorem of_mem_rsOf {C : LexCtx} {items : List LItem} {ρ : CR} (h : ρ ∈ rsOf C items) :
    ∃ i ∈ items, ∃ t, C.expected i = some t ∧ termCR t = some ρ := by
  unfold rsOf at h
  rw [List.mem_filterMap] at h
  obtain ⟨i, hi, hb⟩ := h
  cases he : C.expected i with
  | none => rw [he] at hb; cases hb
  | some t => rw [he] at hb; exact ⟨i, hi, t, he, hb⟩

theorem termHas_iff_cr {t : LTerm} {ρ : CR} (h : termCR t = some ρ) (x : Int) :
    termHas t x = true ↔ ρ.lo ≤ x ∧ x ≤ ρ.hi := by
  cases t with
  | lit v =>
    simp only [termCR, Option.some.injEq] at h
    subst h
    simp only [termHas, beq_iff_eq]
    omega
  | rng a b =>
    simp only [termCR, Option.some.injEq] at h
    subst h
    simp [termHas]
  | dot => simp [termCR] at h
  | ref _ => simp [termCR] at h
  | opt _ => simp [termCR] at h
  | rep _ => simp [termCR] at h
  | grp _ => simp [termCR] at h

theorem termHas_cr {t : LTerm} {x : Int} (h : termHas t x = true) : ∃ ρ, termCR t = some ρ := by
  cases t <;> simp [termHas] at h <;> simp [termCR]

/-- a rune lies in a class iff some item of the state expects a literal / range containing it -/
theorem in_class_iff (C : LexCtx) (items : List LItem) (r : Int) :
    (∃ c ∈ (symbolClasses C items).1, c.lo ≤ r ∧ r ≤ c.hi) ↔
      ∃ i ∈ items, ∃ t, C.expected i = some t ∧ termHas t r = true := by
  rw [symbolClasses_fst, C18_union_exact]
  constructor
  · rintro ⟨ρ, hρ, hr⟩
    obtain ⟨i, hi, t, he, ht⟩ := of_mem_rsOf hρ
    exact ⟨i, hi, t, he, (termHas_iff_cr ht r).2 hr⟩
  · rintro ⟨i, hi, t, he, hh⟩
    obtain ⟨ρ, hρ⟩ := termHas_cr hh
    exact ⟨ρ, mem_rsOf_of hi he hρ, (termHas_iff_cr hρ r).1 hh⟩

/-- for a rune `r` of class `c`, an expected term matches the class iff it contains the rune -/
theorem termMatch_iff_termHas {C : LexCtx} {items : List LItem} {i : LItem} {t : LTerm}
    (hi : i ∈ items) (he : C.expected i = some t) {c : CR} (hc : c ∈ (symbolClasses C items).1)
    {r : Int} (hlo : c.lo ≤ r) (hhi : r ≤ c.hi) : termMatch t c = true ↔ termHas t r = true := by
  rw [symbolClasses_fst] at hc
  cases t with
  | lit v =>
    have hm := mem_rsOf_of hi he (show termCR (.lit v) = some ⟨v, v⟩ from rfl)
    obtain ⟨h1, h2⟩ := C18_match_lit_all_or_nothing _ v hm c hc
    simp only [termMatch, termHas, beq_iff_eq]
    constructor
    · intro h; exact ((h2.1 h) r hlo hhi).symm
    · intro h; exact h1.2 ⟨r, hlo, hhi, h.symm⟩
  | rng a b =>
    simp only [termMatch, termHas, Bool.and_eq_true, decide_eq_true_eq]
    by_cases hab : a ≤ b
    · have hm := mem_rsOf_of hi he (show termCR (.rng a b) = some ⟨a, b⟩ from rfl)
      obtain ⟨h1, h2⟩ := C18_match_range_all_or_nothing _ ⟨a, b⟩ hm hab c hc
      dsimp only at h1 h2
      constructor
      · intro h; exact (h2.1 h) r hlo hhi
      · intro h; exact h1.2 ⟨r, hlo, hhi, h.1, h.2⟩
    · constructor
      · intro h
        simp only [matchRange, Bool.and_eq_true, decide_eq_true_eq] at h
        omega
      · intro h; omega
  | dot => simp [termMatch, termHas]
  | ref _ => simp [termMatch, termHas]
  | opt _ => simp [termMatch, termHas]
  | rep _ => simp [termMatch, termHas]
  | grp _ => simp [termMatch, termHas]

/-! ### the movers of `xStep` -/

/-- the closure of the advanced movers, when the movers are the items selected by `q` -/
theorem mem_xClosure_movers {C : LexCtx} (hC : NoRefC C) {items : List LItem} (q : LItem → Bool)
    (hq : ∀ i, q i = true → ∃ t, C.expected i = some t) {movers : List XPos}
    (hm : ∀ x, x ∈ movers ↔ ∃ i ∈ items, x = [i] ∧ q i = true) (hml : movers.length ≤ C.fuel)
    (x : XPos) :
    x ∈ xClosure C (movers.map xAdvance) ↔
      ∃ y, (∃ i ∈ items, q i = true ∧ y ∈ moved C i) ∧ x = [y] := by
  have hadv : ∀ z, z ∈ movers.map xAdvance ↔
      ∃ i ∈ items, q i = true ∧ z = [{ i with path := incLast i.path }] := by
    intro z
    rw [List.mem_map]
    constructor
    · rintro ⟨w, hw, rfl⟩
      obtain ⟨i, hi, rfl, hqi⟩ := (hm w).1 hw
      exact ⟨i, hi, hqi, rfl⟩
    · rintro ⟨i, hi, hqi, rfl⟩
      exact ⟨[i], (hm _).2 ⟨i, hi, rfl, hqi⟩, rfl⟩
  rw [mem_xClosure_iff hC (by
      intro z hz
      obtain ⟨i, _, hqi, rfl⟩ := (hadv z).1 hz
      obtain ⟨t, ht⟩ := hq i hqi
      exact ⟨_, rfl, pos_advance ht⟩) (by simpa using hml)]
  constructor
  · rintro ⟨s, y, hs, rfl, hr, hb⟩
    obtain ⟨i, hi, hqi, e⟩ := (hadv _).1 hs
    rw [sing_inj e] at hr
    exact ⟨y, ⟨i, hi, hqi, (C09_emoves_moved_iff C i y).2 ⟨hr, hb⟩⟩, rfl⟩
  · rintro ⟨y, ⟨i, hi, hqi, hy⟩, rfl⟩
    obtain ⟨hr, hb⟩ := (C09_emoves_moved_iff C i y).1 hy
    exact ⟨_, y, (hadv _).2 ⟨i, hi, hqi, rfl⟩, rfl, hr, hb⟩

/-- the specific movers of `xStep` -/
def hasB (C : LexCtx) (r : Int) (i : LItem) : Bool :=
  match C.expected i with
  | some t => termHas t r
  | none => false

/-- the `.` movers of `xStep` -/
def dotB (C : LexCtx) (i : LItem) : Bool := isDotTerm (C.expected i)

theorem mem_filter_rel {items : List LItem} {S : List XPos} (hrel : SetRel items S)
    (p : XPos → Bool) (q : LItem → Bool) (hpq : ∀ i, p [i] = q i) (x : XPos) :
    x ∈ S.filter p ↔ ∃ i ∈ items, x = [i] ∧ q i = true := by
  rw [List.mem_filter, hrel]
  constructor
  · rintro ⟨⟨i, hi, rfl⟩, hp⟩
    exact ⟨i, hi, rfl, by rw [← hpq]; exact hp⟩
  · rintro ⟨i, hi, rfl, hq⟩
    exact ⟨⟨i, hi, rfl⟩, by rw [hpq]; exact hq⟩

theorem xStep_eq (C : LexCtx) (S : List XPos) (c : Int) :
    xStep C S c = xClosure C ((if (S.filter fun x => match xExpected C x with
        | some t => termHas t c
        | none => false).isEmpty
      then S.filter (fun x => match xExpected C x with
        | some .dot => true
        | _ => false)
      else S.filter fun x => match xExpected C x with
        | some t => termHas t c
        | none => false).map xAdvance) := rfl

/-- the specific movers of `xStep`, as a named predicate -/
def specP (C : LexCtx) (c : Int) (x : XPos) : Bool :=
  match xExpected C x with
  | some t => termHas t c
  | none => false

/-- the `.` movers of `xStep`, as a named predicate -/
def dotP (C : LexCtx) (x : XPos) : Bool :=
  match xExpected C x with
  | some .dot => true
  | _ => false

theorem xStep_eq' (C : LexCtx) (S : List XPos) (c : Int) :
    xStep C S c = xClosure C ((if (S.filter (specP C c)).isEmpty then S.filter (dotP C)
      else S.filter (specP C c)).map xAdvance) := rfl

/-- (M2) a rune of class `c`: `nextSet` and `xStep` give the same set -/
theorem step_class {C : LexCtx} (hC : NoRefC C) {items : List LItem} {S : List XPos}
    (hrel : SetRel items S) (hlen : S.length ≤ C.fuel) {c : CR}
    (hc : c ∈ (symbolClasses C items).1) {r : Int} (hlo : c.lo ≤ r) (hhi : r ≤ c.hi) :
    SetRel (moveSet C items c) (xStep C S r) := by
  have hspec := mem_filter_rel hrel (fun x => match xExpected C x with
        | some t => termHas t r
        | none => false) (hasB C r) (by intro i; rw [xExpected_sing]; rfl)
  obtain ⟨i0, hi0, t0, he0, hh0⟩ := (in_class_iff C items r).1 ⟨c, hc, hlo, hhi⟩
  have hne : (S.filter fun x => match xExpected C x with
        | some t => termHas t r
        | none => false).isEmpty = false := by
    have : [i0] ∈ S.filter fun x => match xExpected C x with
        | some t => termHas t r
        | none => false := (hspec _).2 ⟨i0, hi0, rfl, by unfold hasB; rw [he0]; exact hh0⟩
    cases hf : (S.filter fun x => match xExpected C x with
        | some t => termHas t r
        | none => false) with
    | nil => rw [hf] at this; cases this
    | cons _ _ => rfl
  rw [xStep_eq, hne]
  simp only [Bool.false_eq_true, if_false]
  intro x
  rw [mem_xClosure_movers hC (hasB C r) (by
      intro i hi
      unfold hasB at hi
      cases he : C.expected i with
      | none => rw [he] at hi; cases hi
      | some t => exact ⟨t, rfl⟩) hspec
    (Nat.le_trans (List.length_filter_le _ _) hlen)]
  constructor
  · rintro ⟨y, ⟨i, hi, hqi, hy⟩, rfl⟩
    refine ⟨y, ?_, rfl⟩
    unfold hasB at hqi
    cases he : C.expected i with
    | none => rw [he] at hqi; cases hqi
    | some t =>
      rw [he] at hqi
      exact mem_moveSet.2 ⟨i, hi, t, he, (termMatch_iff_termHas hi he hc hlo hhi).2 hqi, hy⟩
  · rintro ⟨y, hy, rfl⟩
    obtain ⟨i, hi, t, he, hm, hy⟩ := mem_moveSet.1 hy
    refine ⟨y, ⟨i, hi, ?_, hy⟩, rfl⟩
    unfold hasB; rw [he]
    exact (termMatch_iff_termHas hi he hc hlo hhi).1 hm

/-- (M2) a rune of no class: `nextDot` and `xStep` give the same set -/
theorem step_dot {C : LexCtx} (hC : NoRefC C) {items : List LItem} {S : List XPos}
    (hrel : SetRel items S) (hlen : S.length ≤ C.fuel) {r : Int}
    (hno : ∀ c ∈ (symbolClasses C items).1, ¬ (c.lo ≤ r ∧ r ≤ c.hi)) :
    SetRel (dotSet C items) (xStep C S r) := by
  have hspec := mem_filter_rel hrel (fun x => match xExpected C x with
        | some t => termHas t r
        | none => false) (hasB C r) (by intro i; rw [xExpected_sing]; rfl)
  have hdot := mem_filter_rel hrel (fun x => match xExpected C x with
        | some .dot => true
        | _ => false) (dotB C) (by
          intro i; rw [xExpected_sing]; unfold dotB isDotTerm
          cases C.expected i with
          | none => rfl
          | some t => cases t <;> rfl)
  have hemp : (S.filter fun x => match xExpected C x with
        | some t => termHas t r
        | none => false).isEmpty = true := by
    cases hf : (S.filter fun x => match xExpected C x with
        | some t => termHas t r
        | none => false) with
    | nil => rfl
    | cons x rest =>
      exfalso
      have hx : x ∈ S.filter fun x => match xExpected C x with
        | some t => termHas t r
        | none => false := by rw [hf]; exact List.mem_cons_self
      obtain ⟨i, hi, _, hq⟩ := (hspec x).1 hx
      unfold hasB at hq
      cases he : C.expected i with
      | none => rw [he] at hq; cases hq
      | some t =>
        rw [he] at hq
        obtain ⟨c, hc, hr⟩ := (in_class_iff C items r).2 ⟨i, hi, t, he, hq⟩
        exact hno c hc hr
  rw [xStep_eq, hemp]
  simp only [if_true]
  intro x
  rw [mem_xClosure_movers hC (dotB C) (by
      intro i hi
      unfold dotB isDotTerm at hi
      cases he : C.expected i with
      | none => rw [he] at hi; cases hi
      | some t => exact ⟨t, rfl⟩) hdot
    (Nat.le_trans (List.length_filter_le _ _) hlen)]
  have hd : ∀ i, dotB C i = true ↔ C.expected i = some .dot := by
    intro i
    unfold dotB isDotTerm
    cases C.expected i with
    | none => simp
    | some t => cases t <;> simp
  constructor
  · rintro ⟨y, ⟨i, hi, hqi, hy⟩, rfl⟩
    exact ⟨y, mem_dotSet.2 ⟨i, hi, (hd i).1 hqi, hy⟩, rfl⟩
  · rintro ⟨y, hy, rfl⟩
    obtain ⟨i, hi, he, hy⟩ := mem_dotSet.1 hy
    exact ⟨y, ⟨i, hi, (hd i).2 he, hy⟩, rfl⟩

/-- the next position set is again a good position set -/
theorem goodX_xStep {C : LexCtx} (hC : NoRefC C) {S : List XPos} (hS : GoodX C S) (r : Int) :
    GoodX C (xStep C S r) := by
  rw [xStep_eq]
  have key : ∀ (p : XPos → Bool), (∀ x, p x = true → ∃ t, xExpected C x = some t) →
      GoodX C (xClosure C ((S.filter p).map xAdvance)) := by
    intro p hp
    refine goodX_xClosure hC ?_ ?_
    · intro z hz
      obtain ⟨w, hw, rfl⟩ := List.mem_map.1 hz
      obtain ⟨hwS, hpw⟩ := List.mem_filter.1 hw
      obtain ⟨i, rfl, _⟩ := hS.sing w hwS
      obtain ⟨t, ht⟩ := hp _ hpw
      rw [xExpected_sing] at ht
      exact ⟨_, rfl, pos_advance ht⟩
    · rw [List.pairwise_map]
      refine List.Pairwise.imp_of_mem ?_ (hS.sorted.filter p)
      intro a b ha hb hab
      obtain ⟨i, rfl, _⟩ := hS.sing a (List.mem_filter.1 ha).1
      obtain ⟨j, rfl, _⟩ := hS.sing b (List.mem_filter.1 hb).1
      exact hab
  split
  · apply key
    intro x hx
    cases he : xExpected C x with
    | none => rw [he] at hx; cases hx
    | some t => exact ⟨t, rfl⟩
  · apply key
    intro x hx
    cases he : xExpected C x with
    | none => rw [he] at hx; cases hx
    | some t => exact ⟨t, rfl⟩

end LexGenC
end Gocc
