import Gocc.Proofs.GenValidCert
import Gocc.Proofs.GenComplete
/-
Generator-level validity, part 2: every element of the FIRST sets the generator computes
(`firstSets`, an iteration from the empty sets) has a derivation recorded in the certificate
`vcertOf G`; hence the look-aheads `first1` gives to closure items are in the exact FIRST sets
`firstOfSeq (vcertOf G).fc`.

  §1  `firstS` from above: `t ∈ firstS syms → InFirstSeq t syms`
  §2  `FirstSets.get` after `addTok` / `addSet`
  §3  the invariant `FsSub` ("every stored element is certified") along `passStep` / `firstPass`
  §4  `first1 ⊆ firstOfSeq`
-/
namespace Gocc.GenValid

open Gocc.GenComplete

/-! ## §1 `firstS` from above -/

theorem go_sub_seq {S : PSymbols} {fs : FirstSets} {t : String} :
    ∀ (ys acc : List String) (ce : Bool), t ∈ (firstS.go S fs acc ce ys).1 →
      t ∈ acc ∨ (ce = true ∧ InFirstSeq S fs t ys) := by
  intro ys
  induction ys with
  | nil => intro acc ce h; simp only [firstS.go] at h; exact .inl h
  | cons y ys ih =>
    intro acc ce h
    simp only [firstS.go] at h
    split at h
    · rename_i hce
      rcases ih _ _ h with h' | ⟨h1, h2⟩
      · rcases foldl_addNoDup_mem_iff.1 h' with h'' | h''
        · exact .inl h''
        · exact .inr ⟨hce, .inl h''⟩
      · exact .inr ⟨hce, .inr ⟨by simpa using h1, h2⟩⟩
    · exact .inl h

/-- every element of `firstS` is reached through a prefix of symbols that have the marker -/
theorem firstS_sub_seq {S : PSymbols} {fs : FirstSets} {syms : List String} {t : String}
    (h : t ∈ firstS S fs syms) : InFirstSeq S fs t syms := by
  unfold firstS at h
  split at h
  · cases h
  · rename_i x rest
    have key : t ∈ (firstS.go S fs ((first S fs x).foldl addNoDup [])
        ((first S fs x).contains "empty") rest).1 := by
      simp only at h
      split at h
      · exact h
      · exact (List.mem_filter.1 h).1
    rcases go_sub_seq _ _ _ key with h' | ⟨h1, h2⟩
    · rcases foldl_addNoDup_mem_iff.1 h' with h'' | h''
      · cases h''
      · exact .inl h''
    · exact .inr ⟨by simpa using h1, h2⟩

/-- `firstS` holds the marker only if every symbol has it -/
theorem firstS_empty_all {S : PSymbols} {fs : FirstSets} {syms : List String}
    (h : "empty" ∈ firstS S fs syms) : ∀ y ∈ syms, "empty" ∈ first S fs y := by
  intro y hy
  apply Decidable.byContradiction
  intro hn
  exact firstS_no_empty hy hn h

/-! ## §2 `get` after `addTok` / `addSet` -/

theorem bump_fst (n t : String) (e : String × List String) : (bump n t e).1 = e.1 := by
  unfold bump; split <;> rfl

theorem get_of_find_some {fs : FirstSets} {A : String} {e : String × List String}
    (hf : fs.find? (fun e => e.1 == A) = some e) : fs.get A = e.2 := by
  unfold FirstSets.get
  rw [hf]

theorem get_of_find_none {fs : FirstSets} {A : String}
    (hf : fs.find? (fun e => e.1 == A) = none) : fs.get A = [] := by
  unfold FirstSets.get
  rw [hf]

theorem get_addTok {fs : FirstSets} {n x A t : String}
    (h : t ∈ ((fs.addTok n x).1).get A) : t ∈ fs.get A ∨ (A = n ∧ t = x) := by
  rw [addTok_eq] at h
  split at h
  · split at h
    · exact .inl h
    · -- `fs.map (bump n x)`
      simp only at h
      have hcomp : ((fun e : String × List String => e.1 == A) ∘ bump n x) =
          fun e : String × List String => e.1 == A := by
        funext e; simp only [Function.comp, bump_fst]
      rcases hf : fs.find? (fun e => e.1 == A) with _ | e
      · have : (fs.map (bump n x)).find? (fun e => e.1 == A) = none := by
          rw [List.find?_map, hcomp, hf]; rfl
        rw [get_of_find_none this] at h
        cases h
      · have : (fs.map (bump n x)).find? (fun e => e.1 == A) = some (bump n x e) := by
          rw [List.find?_map, hcomp, hf]; rfl
        rw [get_of_find_some this] at h
        rw [get_of_find_some hf]
        have hA : e.1 = A := by simpa using List.find?_some hf
        unfold bump at h
        split at h
        · rename_i hen
          simp only at h
          rcases List.mem_append.1 h with h | h
          · exact .inl h
          · exact .inr ⟨by rw [← hA]; simpa using hen, by simpa using h⟩
        · exact .inl h
  · simp only at h
    rcases hf : fs.find? (fun e => e.1 == A) with _ | e
    · by_cases hnA : n = A
      · have : (fs ++ [(n, [x])]).find? (fun e => e.1 == A) = some (n, [x]) := by
          rw [List.find?_append, hf]
          simp [hnA]
        rw [get_of_find_some this] at h
        exact .inr ⟨hnA.symm, by simpa using h⟩
      · have : (fs ++ [(n, [x])]).find? (fun e => e.1 == A) = none := by
          rw [List.find?_append, hf]
          simp [hnA]
        rw [get_of_find_none this] at h
        cases h
    · have : (fs ++ [(n, [x])]).find? (fun e => e.1 == A) = some e := by
        rw [List.find?_append, hf]
        rfl
      rw [get_of_find_some this] at h
      rw [get_of_find_some hf]
      exact .inl h

theorem get_addSet_fold {n A t : String} : ∀ (ts : List String) (acc : FirstSets × Bool),
    t ∈ ((ts.foldl (fun (acc : FirstSets × Bool) x =>
      let r := acc.1.addTok n x; (r.1, acc.2 || r.2)) acc).1).get A →
    t ∈ acc.1.get A ∨ (A = n ∧ t ∈ ts) := by
  intro ts
  induction ts with
  | nil => intro acc h; exact .inl h
  | cons x ts ih =>
    intro acc h
    rw [List.foldl_cons] at h
    rcases ih _ h with h' | ⟨h1, h2⟩
    · rcases get_addTok h' with h'' | ⟨h1, h2⟩
      · exact .inl h''
      · exact .inr ⟨h1, h2 ▸ List.mem_cons_self ..⟩
    · exact .inr ⟨h1, List.mem_cons_of_mem _ h2⟩

theorem get_addSet {fs : FirstSets} {n A t : String} {ts : List String}
    (h : t ∈ ((fs.addSet n ts).1).get A) : t ∈ fs.get A ∨ (A = n ∧ t ∈ ts) := by
  unfold FirstSets.addSet at h
  exact get_addSet_fold ts (fs, false) h

/-! ## §3 every stored element is certified -/

/-- every element of the sets `fs` is recorded in the certificate of the numbered grammar -/
def FsSub (terms nts : List String) (vc : VCert) (fs : FirstSets) : Prop :=
  ∀ A ∈ nts, ∀ t ∈ fs.get A,
    (t = "empty" → hasNT vc.null (nts.idxOf A) = true) ∧
    (t ≠ "empty" → (nts.idxOf A, (terms.idxOf? t).getD 0) ∈ vc.fc.first)

theorem FsSub.nil (terms nts : List String) (vc : VCert) : FsSub terms nts vc [] := by
  intro A _ t ht
  simp [FirstSets.get] at ht

/-- the facts about production `pi` (= `p`) the step needs -/
structure ProdFacts (S : PSymbols) (prods : List SProd) (pi : Nat) (p : SProd) : Prop where
  get : prods[pi]? = some p
  head : p.head ∈ S.ntList
  noEmpty : prodLen p ≠ 0 → ∀ s ∈ p.body, s.name ≠ "empty"
  emptyNT : "empty" ∉ S.ntList

section Step
variable {S : PSymbols} {prods : List SProd} {terms : List String}

local notation "GG" => ngrammarOf prods terms S.ntList

theorem ProdFacts.lt {pi : Nat} {p : SProd} (P : ProdFacts S prods pi p) : pi < prods.length :=
  (List.getElem?_eq_some_iff.1 P.get).1

theorem ProdFacts.eq {pi : Nat} {p : SProd} (P : ProdFacts S prods pi p) :
    prods[pi]'P.lt = p := (List.getElem?_eq_some_iff.1 P.get).2

theorem gg_head {pi : Nat} {p : SProd} (P : ProdFacts S prods pi p) :
    (GG).head pi = S.ntList.idxOf p.head := by
  rw [ngrammarOf_head _ _ P.lt, P.eq, idxOf?_eq_idxOf P.head]
  rfl

theorem gg_body {pi : Nat} {p : SProd} (P : ProdFacts S prods pi p) :
    (GG).body pi = if prodLen p == 0 then []
      else (p.body.map (·.name)).map (symOf terms S.ntList) := by
  rw [ngrammarOf_body _ _ P.lt, P.eq, List.map_map]
  rfl

theorem gg_body_ne {pi : Nat} {p : SProd} (P : ProdFacts S prods pi p) (hne : prodLen p ≠ 0) :
    (GG).body pi = (p.body.map (·.name)).map (symOf terms S.ntList) := by
  rw [gg_body P, beq_eq_false_iff_ne.2 hne]
  rfl

theorem gg_lt {pi : Nat} {p : SProd} (P : ProdFacts S prods pi p) : pi < (GG).prods.size := by
  rw [ngrammarOf_size]; exact P.lt

/-- a production with an empty (numbered) body has a nullable head -/
theorem null_of_empty_body {pi : Nat} {p : SProd} (P : ProdFacts S prods pi p)
    (h0 : prodLen p = 0) : hasNT (vcertOf GG).null (S.ntList.idxOf p.head) = true := by
  rw [← gg_head P]
  apply null_closed _ (gg_lt P)
  rw [gg_body P, h0]
  rfl

theorem nullSym_symOf_of {y : String} {vc : VCert} (hy : y ∈ S.ntList)
    (h : hasNT vc.null (S.ntList.idxOf y) = true) :
    nullSym vc.null (symOf terms S.ntList y) = true := by
  rw [symOf_mem hy]; exact h

/-- along the body of production `pi`: behind a certified-nullable prefix `pre`, whatever is in
    the FIRST sequence of the rest `suf` is certified for the head -/
theorem seq_certified {fs : FirstSets} {pi : Nat} {p : SProd} (P : ProdFacts S prods pi p)
    (hne : prodLen p ≠ 0) (hsub : FsSub terms S.ntList (vcertOf GG) fs) {t : String}
    (ht : t ≠ "empty") : ∀ (suf pre : List String),
    p.body.map (·.name) = pre ++ suf →
    (pre.map (symOf terms S.ntList)).all (nullSym (vcertOf GG).null) = true →
    InFirstSeq S fs t suf →
    (S.ntList.idxOf p.head, (terms.idxOf? t).getD 0) ∈ (vcertOf GG).fc.first := by
  intro suf
  induction suf with
  | nil => intro pre _ _ h; exact h.elim
  | cons y ys ih =>
    intro pre hsplit hpre hin
    have hbody : (GG).body pi = (pre ++ y :: ys).map (symOf terms S.ntList) := by
      rw [gg_body_ne P hne, ← hsplit]
    have htake : ((GG).body pi).take pre.length = pre.map (symOf terms S.ntList) := by
      rw [hbody, List.map_append, List.take_left' (by simp)]
    have hat : ((GG).body pi)[pre.length]? = some (symOf terms S.ntList y) := by
      rw [hbody, List.map_append, List.getElem?_append_right (by simp)]
      simp
    have hyname : y ∈ p.body.map (·.name) := by rw [hsplit]; simp
    have hyne : y ≠ "empty" := by
      rcases List.mem_map.1 hyname with ⟨s, hs, rfl⟩
      exact P.noEmpty hne s hs
    by_cases hy : y ∈ S.ntList
    · rcases hin with h1 | ⟨h1, h2⟩
      · -- `t` in the stored set of the non-terminal `y`
        rw [first_nt hy] at h1
        have := (hsub y hy t h1).2 ht
        rw [← gg_head P]
        refine first_closed_nt _ (gg_lt P) (i := pre.length) ?_ ?_ this
        · rw [htake]; exact hpre
        · rw [hat, symOf_mem hy]
      · -- `y` has the marker: it is certified nullable, go on
        rw [first_nt hy] at h1
        have hnull := (hsub y hy "empty" h1).1 rfl
        refine ih (pre ++ [y]) (by rw [hsplit]; simp) ?_ h2
        rw [List.map_append, List.all_append, hpre]
        simp only [List.map_cons, List.map_nil, List.all_cons, List.all_nil, Bool.and_true,
          Bool.true_and]
        exact nullSym_symOf_of hy hnull
    · rcases hin with h1 | ⟨h1, _⟩
      · rw [first_t hy] at h1
        have : t = y := by simpa using h1
        subst this
        rw [← gg_head P]
        refine first_closed_t _ (gg_lt P) (i := pre.length) ?_ ?_
        · rw [htake]; exact hpre
        · rw [hat, symOf_not_mem hy]
      · rw [first_t hy] at h1
        exact absurd (show "empty" = y by simpa using h1).symm hyne

/-- a body all of whose symbols have the marker consists of certified-nullable non-terminals -/
theorem all_null_of_marker {fs : FirstSets} {pi : Nat} {p : SProd} (P : ProdFacts S prods pi p)
    (hne : prodLen p ≠ 0) (hsub : FsSub terms S.ntList (vcertOf GG) fs)
    (hall : ∀ y ∈ p.body.map (·.name), "empty" ∈ first S fs y) :
    hasNT (vcertOf GG).null (S.ntList.idxOf p.head) = true := by
  rw [← gg_head P]
  apply null_closed _ (gg_lt P)
  rw [gg_body_ne P hne, List.all_map, List.all_eq_true]
  intro y hy
  have hyne : y ≠ "empty" := by
    rcases List.mem_map.1 hy with ⟨s, hs, rfl⟩
    exact P.noEmpty hne s hs
  have hm := hall y hy
  by_cases hynt : y ∈ S.ntList
  · rw [first_nt hynt] at hm
    exact nullSym_symOf_of hynt ((hsub y hynt "empty" hm).1 rfl)
  · rw [first_t hynt] at hm
    exact absurd (show "empty" = y by simpa using hm).symm hyne

theorem passStep_sub {acc : FirstSets × Bool} {pi : Nat} {p : SProd} (P : ProdFacts S prods pi p)
    (hsub : FsSub terms S.ntList (vcertOf GG) acc.1) :
    FsSub terms S.ntList (vcertOf GG) (passStep S acc p).1 := by
  unfold passStep
  dsimp only
  split
  · -- empty body
    rename_i hbody
    intro A hA t ht
    rcases get_addTok ht with h | ⟨rfl, rfl⟩
    · exact hsub A hA t h
    · exact ⟨fun _ => null_of_empty_body P (prodLen_nil hbody), fun h => absurd rfl h⟩
  · rename_i s0 rest hbody
    have hlen := prodLen_cons hbody
    split
    · -- first symbol a terminal
      rename_i hterm
      have hnt : s0.name ∉ S.ntList := by simpa [PSymbols.isTerminal] using hterm
      intro A hA t ht
      rcases get_addTok ht with h | ⟨rfl, rfl⟩
      · exact hsub A hA t h
      · refine ⟨fun he => ?_, fun he => ?_⟩
        · rw [if_pos he] at hlen
          exact null_of_empty_body P hlen
        · rw [if_neg he] at hlen
          have hne : prodLen p ≠ 0 := by rw [hlen, hbody]; simp
          exact seq_certified P hne hsub he (p.body.map (·.name)) [] rfl rfl
            (by rw [hbody]; exact .inl (by rw [first_t hnt]; simp))
    · -- first symbol a non-terminal
      rename_i hterm
      have hnt : s0.name ∈ S.ntList := by simpa [PSymbols.isTerminal] using hterm
      have he : s0.name ≠ "empty" := fun h => P.emptyNT (h ▸ hnt)
      rw [if_neg he] at hlen
      have hne : prodLen p ≠ 0 := by rw [hlen, hbody]; simp
      split
      · intro A hA t ht
        rcases get_addSet ht with h | ⟨rfl, h⟩
        · exact hsub A hA t h
        · refine ⟨fun hte => ?_, fun hte => ?_⟩
          · subst hte
            exact all_null_of_marker P hne hsub (firstS_empty_all h)
          · exact seq_certified P hne hsub hte _ [] (by simp) rfl (firstS_sub_seq h)
      · exact hsub

theorem fold_passStep_sub (hP : ∀ pi p, prods[pi]? = some p → ProdFacts S prods pi p) :
    ∀ (l : List SProd), (∀ p ∈ l, p ∈ prods) →
    ∀ (acc : FirstSets × Bool), FsSub terms S.ntList (vcertOf GG) acc.1 →
      FsSub terms S.ntList (vcertOf GG) (l.foldl (passStep S) acc).1 := by
  intro l
  induction l with
  | nil => intro _ acc h; exact h
  | cons p l ih =>
    intro hl acc h
    rw [List.foldl_cons]
    obtain ⟨pi, hpi⟩ := List.mem_iff_getElem?.1 (hl p (List.mem_cons_self ..))
    exact ih (fun q hq => hl q (List.mem_cons_of_mem _ hq)) _ (passStep_sub (hP pi p hpi) h)

theorem firstPass_sub (hP : ∀ pi p, prods[pi]? = some p → ProdFacts S prods pi p)
    (fs : FirstSets) (h : FsSub terms S.ntList (vcertOf GG) fs) :
    FsSub terms S.ntList (vcertOf GG) (firstPass S prods fs).1 := by
  rw [firstPass_eq]
  exact fold_passStep_sub hP prods (fun _ hp => hp) (fs, false) h

theorem firstPassN_sub (hP : ∀ pi p, prods[pi]? = some p → ProdFacts S prods pi p) :
    ∀ (n : Nat) (fs : FirstSets), FsSub terms S.ntList (vcertOf GG) fs →
      FsSub terms S.ntList (vcertOf GG) (firstPassN S prods n fs) := by
  intro n
  induction n with
  | zero => intro fs h; exact h
  | succ n ih => intro fs h; exact ih _ (firstPass_sub hP fs h)

/-- every element of the FIRST sets of the generator is recorded in the certificate -/
theorem firstSets_sub (hW : WFp S prods) (hB : BodyOk prods) (hE : "empty" ∉ S.ntList) :
    FsSub terms S.ntList (vcertOf GG) (firstSets S prods) := by
  obtain ⟨n, hn⟩ := firstSets_eq_passN hW
  rw [hn]
  refine firstPassN_sub ?_ n [] (FsSub.nil _ _ _)
  intro pi p hpi
  have hmem : p ∈ prods := List.mem_of_getElem? hpi
  exact ⟨hpi, (hW _ hmem).1, fun hne s hs => (hB _ hmem s hs).2 hne, hE⟩

end Step

/-! ## §4 `firstS (β ++ [la]) ⊆ firstOfSeq` -/

theorem mem_firstOfSeq_of_seq {S : PSymbols} {fs : FirstSets} {terms : List String} {vc : VCert}
    (hsub : FsSub terms S.ntList vc fs) {la t : String} (hla : la ∉ S.ntList)
    (ht : t ≠ "empty") : ∀ (β : List String), (∀ y ∈ β, y ∉ S.ntList → y ≠ "empty") →
    InFirstSeq S fs t (β ++ [la]) →
    (terms.idxOf? t).getD 0 ∈
      firstOfSeq vc.fc (β.map (symOf terms S.ntList)) ((terms.idxOf? la).getD 0) := by
  intro β
  induction β with
  | nil =>
    intro _ h
    simp only [List.nil_append, InFirstSeq, first_t hla, List.mem_singleton, and_false,
      or_false] at h
    subst h
    simp [firstOfSeq]
  | cons y ys ih =>
    intro hβ h
    rw [List.cons_append] at h
    by_cases hy : y ∈ S.ntList
    · simp only [List.map_cons, symOf_mem hy, firstOfSeq, List.mem_append, List.mem_map,
        List.mem_filter, beq_iff_eq]
      rcases h with h1 | ⟨h1, h2⟩
      · rw [first_nt hy] at h1
        exact .inl ⟨_, ⟨(hsub y hy t h1).2 ht, rfl⟩, rfl⟩
      · rw [first_nt hy] at h1
        right
        have hn : vc.fc.isNullable (S.ntList.idxOf y) = true := by
          rw [fc_isNullable]; exact (hsub y hy "empty" h1).1 rfl
        rw [if_pos hn]
        exact ih (fun z hz => hβ z (List.mem_cons_of_mem _ hz)) h2
    · simp only [List.map_cons, symOf_not_mem hy, firstOfSeq, List.mem_singleton]
      rcases h with h1 | ⟨h1, _⟩
      · rw [first_t hy] at h1
        have : t = y := by simpa using h1
        rw [this]
      · rw [first_t hy] at h1
        exact absurd (show "empty" = y by simpa using h1).symm (hβ y (List.mem_cons_self ..) hy)

end Gocc.GenValid
