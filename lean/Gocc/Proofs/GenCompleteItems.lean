import Gocc.Proofs.GenCompleteFirst
/-
Generator-level completeness, part 2: item sets and table entries.

  §1  `sameItems` in the other direction (pigeonhole)
  §2  a property of items that `closureStep` and advancing the dot preserve holds in every state
  §3  look-aheads are good terminals; items of production 0 have look-ahead `␚`
  §4  `setAction` without recorded conflict: every proposal is the result
  §5  the entries of the generated tables, read from the states
-/
namespace Gocc.GenComplete

/-! ## §1 `sameItems` -/

theorem sameItems_sub_rev {a b : List Item} (hn : a.Nodup) (h : sameItems a b = true) :
    ∀ x ∈ b, x ∈ a := by
  unfold sameItems at h
  simp only [Bool.and_eq_true, beq_iff_eq, List.all_eq_true, List.contains_iff_mem] at h
  obtain ⟨hlen, hsub⟩ := h
  intro x hx
  apply Decidable.byContradiction
  intro hxa
  have hsub' : ∀ y ∈ a, y ∈ b.erase x := by
    intro y hy
    have hyx : y ≠ x := fun e => hxa (e ▸ hy)
    exact (List.mem_erase_of_ne hyx).2 (hsub y hy)
  have h1 := List.Nodup.length_le_of_subset hn hsub'
  have h2 : (b.erase x).length = b.length - 1 := List.length_erase_of_mem hx
  have h3 : 0 < b.length := List.length_pos_of_mem hx
  omega

theorem goto_nodup (C : LRCtx) (I : List Item) (X : String) : (goto C I X).Nodup := by
  unfold goto
  dsimp only
  split
  · simp
  · unfold closure
    exact (closureLoop_prefix_nodup C _ 0 _).2 ((foldl_addItem_spec _ []).1 (by simp))

theorem closure_nodup (C : LRCtx) (K : List Item) : (closure C K).Nodup := by
  unfold closure
  exact (closureLoop_prefix_nodup C _ 0 _).2 ((foldl_addItem_spec _ []).1 (by simp))

theorem state_nodup {C : LRCtx} {I0 : List Item} {states : Array LRState}
    (hinv : LRInv C I0 states) (h0 : I0.Nodup) {j : Nat} {st : LRState}
    (hj : states[j]? = some st) : st.items.Nodup := by
  by_cases hz : j = 0
  · subst hz
    obtain ⟨st0, g1, g2⟩ := hinv.zero
    rw [hj] at g1
    cases g1
    rw [g2]; exact h0
  · obtain ⟨I, X, hI⟩ := hinv.isGoto j st hj (by omega)
    rw [hI]; exact goto_nodup C I X

/-! ## §2 a property of all items of all states -/

theorem closureLoop_all {C : LRCtx} {Q : Item → Prop}
    (hstep : ∀ i, Q i → ∀ j ∈ closureStep C i, Q j) :
    ∀ (fuel k : Nat) (c : List Item), (∀ i ∈ c, Q i) → ∀ i ∈ closureLoop C fuel k c, Q i := by
  intro fuel
  induction fuel with
  | zero => intro k c h; exact h
  | succ fuel ih =>
    intro k c h
    cases hk : c[k]? with
    | none => simp only [closureLoop, hk]; exact h
    | some i0 =>
      simp only [closureLoop, hk]
      apply ih
      intro j hj
      rcases ((foldl_addItem_spec (closureStep C i0) c).2.2 j).1 hj with hj | hj
      · exact h j hj
      · exact hstep i0 (h i0 (List.mem_of_getElem? hk)) j hj

theorem closure_all {C : LRCtx} {Q : Item → Prop}
    (hstep : ∀ i, Q i → ∀ j ∈ closureStep C i, Q j) {K : List Item} (hK : ∀ i ∈ K, Q i) :
    ∀ i ∈ closure C K, Q i := by
  unfold closure
  apply closureLoop_all hstep
  intro i hi
  rcases ((foldl_addItem_spec K []).2.2 i).1 hi with h | h
  · cases h
  · exact hK i h

theorem goto_all {C : LRCtx} {Q : Item → Prop}
    (hstep : ∀ i, Q i → ∀ j ∈ closureStep C i, Q j)
    (hadv : ∀ i : Item, Q i → Q { i with d := i.d + 1 }) {I : List Item} (hI : ∀ i ∈ I, Q i)
    (X : String) : ∀ j ∈ goto C I X, Q j := by
  unfold goto
  dsimp only
  split
  · simp
  · apply closure_all hstep
    intro j hj
    rcases List.mem_map.1 hj with ⟨i, hi, rfl⟩
    exact hadv i (hI i (List.mem_filter.1 hi).1)

def AllQ (Q : Item → Prop) (sets : Array LRState) : Prop :=
  ∀ (j : Nat) (st : LRState), sets[j]? = some st → ∀ i ∈ st.items, Q i

theorem AllQ.getBang {Q : Item → Prop} {sets : Array LRState} (h : AllQ Q sets) (i : Nat) :
    ∀ x ∈ sets[i]!.items, Q x := by
  by_cases hi : i < sets.size
  · rw [getElem!_pos sets i hi]
    exact h i sets[i] (Array.getElem?_eq_getElem hi)
  · rw [getElem!_neg sets i hi]
    intro x hx
    cases hx

theorem AllQ.modify {Q : Item → Prop} {sets : Array LRState} (h : AllQ Q sets) (i : Nat)
    (X : String) (idx : Nat) :
    AllQ Q (sets.modify i fun s => { s with trans := s.trans ++ [(X, idx)] }) := by
  intro j st' hj
  obtain ⟨st, g1, g2, _⟩ := modify_get hj
  rw [g2]
  exact h j st g1

theorem AllQ.push {Q : Item → Prop} {sets : Array LRState} (h : AllQ Q sets) (s : LRState)
    (hs : ∀ i ∈ s.items, Q i) : AllQ Q (sets.push s) := by
  intro j st hj
  rw [Array.getElem?_push] at hj
  split at hj
  · cases hj; exact hs
  · exact h j st hj

theorem expStep_all {C : LRCtx} {Q : Item → Prop}
    (hg : ∀ I X, (∀ i ∈ I, Q i) → ∀ j ∈ goto C I X, Q j) (i : Nat) (sets : Array LRState)
    (X : String) (h : AllQ Q sets) : AllQ Q (expStep C i sets X) := by
  have hgt := hg _ X (h.getBang i)
  unfold expStep
  dsimp only
  split
  · exact h
  · split
    · exact h.modify i X _
    · exact (h.push _ hgt).modify i X _

theorem lrExpand_all {C : LRCtx} {Q : Item → Prop}
    (hg : ∀ I X, (∀ i ∈ I, Q i) → ∀ j ∈ goto C I X, Q j) (i : Nat) (sets : Array LRState)
    (h : AllQ Q sets) : AllQ Q (lrExpand C sets i) := by
  rw [lrExpand_eq]
  generalize C.S.typeMap = l
  induction l generalizing sets with
  | nil => exact h
  | cons X l ih =>
    rw [List.foldl_cons]
    exact ih _ (expStep_all hg i sets X h)

theorem lrLoop_all {C : LRCtx} {Q : Item → Prop}
    (hg : ∀ I X, (∀ i ∈ I, Q i) → ∀ j ∈ goto C I X, Q j) :
    ∀ (fuel i : Nat) (sets : Array LRState), AllQ Q sets → AllQ Q (lrLoop C fuel i sets) := by
  intro fuel
  induction fuel with
  | zero => intro i sets h; exact h
  | succ fuel ih =>
    intro i sets h
    simp only [lrLoop]
    split
    · exact ih _ _ (lrExpand_all hg i sets h)
    · exact h

/-- every item of every state of a run has a property that the initial item has and that
    `closureStep` and advancing the dot preserve -/
theorem genParser_all {syn : List SProd} {ids : List String} {r : LRResult}
    (h : genParser syn ids = .ok r) {Q : Item → Prop}
    (h0 : Q ⟨0, 0, "␚"⟩) (hstep : ∀ i, Q i → ∀ j ∈ closureStep r.ctx i, Q j)
    (hadv : ∀ i : Item, Q i → Q { i with d := i.d + 1 }) : AllQ Q r.states := by
  obtain ⟨S0, -, -, hst⟩ := genParser_shape h
  rw [hst]
  apply lrLoop_all (fun I X hI => goto_all hstep hadv hI X)
  intro j st hj x hx
  have hlt := (Array.getElem?_eq_some_iff.1 hj).1
  have hj0 : j = 0 := by simp at hlt; omega
  subst hj0
  simp at hj
  subst hj
  refine closure_all hstep (K := [⟨0, 0, "␚"⟩]) ?_ x hx
  intro i hi
  rw [List.mem_singleton] at hi
  subst hi
  exact h0

/-! ## §3 look-aheads -/

/-- items of production 0 have look-ahead `␚`; every look-ahead is a good terminal -/
def LaOk (C : LRCtx) (i : Item) : Prop := (i.p = 0 → i.la = "␚") ∧ GoodT C.S i.la

theorem body_mem {C : LRCtx} {i : Item} {y : String} (h : y ∈ C.body i) :
    ∃ hp : i.p < C.prods.size, prodLen C.prods[i.p] ≠ 0 ∧ ∃ s ∈ (C.prods[i.p]).body, y = s.name := by
  unfold LRCtx.body at h
  dsimp only at h
  split at h
  · cases h
  · rename_i hne
    by_cases hp : i.p < C.prods.size
    · rw [getElem!_pos C.prods i.p hp] at h hne
      rcases List.mem_map.1 h with ⟨s, hs, rfl⟩
      exact ⟨hp, by simpa using hne, s, hs, rfl⟩
    · rw [getElem!_neg C.prods i.p hp] at h
      cases h

theorem first1_good {C : LRCtx} {prods : List SProd} (hC : C.prods = prods.toArray)
    (hT : TInv C.S C.fs) (hB : BodyOk prods) {i : Item} (hla : GoodT C.S i.la) :
    ∀ t ∈ first1 C i, GoodT C.S t := by
  intro t ht
  unfold first1 sortStrings at ht
  rw [List.mem_mergeSort] at ht
  have hgood : t = "empty" ∨ GoodT C.S t := by
    refine firstS_good hT ?_ ht
    intro y hy hterm
    rcases List.mem_append.1 hy with hy | hy
    · obtain ⟨hp, hne, s, hs, rfl⟩ := body_mem (List.mem_of_mem_drop hy)
      obtain ⟨hp', heq⟩ := ctx_prod hC hp
      rw [heq] at hne hs
      have := hB _ (List.getElem_mem hp') s hs
      exact .inr ⟨hterm, this.1, this.2 hne⟩
    · have : y = i.la := by simpa using hy
      subst this
      exact .inr hla
  rcases hgood with he | hg
  · exfalso
    subst he
    have hnt : i.la ∉ C.S.ntList := by
      simpa [PSymbols.isTerminal] using hla.1
    refine firstS_no_empty (y := i.la) (List.mem_append_right _ (by simp)) ?_ ht
    rw [first_t hnt]
    simp only [List.mem_singleton]
    exact fun e => hla.2.2 e.symm
  · exact hg

theorem laOk_step {C : LRCtx} {prods : List SProd} (hC : C.prods = prods.toArray)
    (hT : TInv C.S C.fs) (hB : BodyOk prods) (hS : NoStartRef C) :
    ∀ i, LaOk C i → ∀ j ∈ closureStep C i, LaOk C j := by
  intro i hi j hj
  obtain ⟨_, _, h3, h4⟩ := mem_closureStep' hj
  obtain ⟨_, _, h7⟩ := mem_closureStep hj
  refine ⟨?_, first1_good hC hT hB hi.2 j.la h7⟩
  intro hp
  rw [hp] at h4
  exact absurd h4 (hS i h3)

/-! ## §4 `setAction` without conflict -/

set_option linter.unusedSimpArgs false in
theorem act_beq_eq {a b : Act} (h : (a == b) = true) : a = b := by
  cases a <;> cases b <;> simp_all [BEq.beq, instBEqAct.beq]

/-- a fold of `setAction` that ends without the conflict flag kept every proposal -/
theorem setAction_fold_noconf {C : LRCtx} {sym : String} {next : Nat} :
    ∀ (items : List Item) (acc res : Option Act × Bool),
      items.foldlM (fun (acc : Option Act × Bool) i =>
        match itemAction C i sym next, acc.1 with
        | none, _ => (pure acc : Except String (Option Act × Bool))
        | some a2, none => pure (some a2, acc.2)
        | some a2, some a1 =>
          if a1 == a2 then pure acc
          else do
            let r ← resolve a1 a2
            pure (some r, true)) acc = .ok res →
      res.2 = false →
      acc.2 = false ∧ (∀ a, acc.1 = some a → res.1 = some a) ∧
        ∀ i ∈ items, ∀ a, itemAction C i sym next = some a → res.1 = some a := by
  intro items
  induction items with
  | nil =>
    intro acc res h hres
    simp only [List.foldlM_nil, pure, Except.pure, Except.ok.injEq] at h
    subst h
    exact ⟨hres, fun a ha => ha, by simp⟩
  | cons i items ih =>
    intro acc res h hres
    rw [List.foldlM_cons] at h
    simp only [bind, Except.bind] at h
    split at h
    · cases h
    · rename_i acc1 hstep
      obtain ⟨k1, k2, k3⟩ := ih acc1 res h hres
      split at hstep
      · rename_i hia
        simp only [pure, Except.pure, Except.ok.injEq] at hstep
        subst hstep
        refine ⟨k1, k2, ?_⟩
        intro j hj a ha
        rcases List.mem_cons.1 hj with rfl | hj
        · rw [hia] at ha; cases ha
        · exact k3 j hj a ha
      · rename_i a2 hia hacc
        simp only [pure, Except.pure, Except.ok.injEq] at hstep
        subst hstep
        refine ⟨k1, ?_, ?_⟩
        · intro a ha; rw [hacc] at ha; cases ha
        · intro j hj a ha
          rcases List.mem_cons.1 hj with rfl | hj
          · rw [hia] at ha
            exact k2 a ha
          · exact k3 j hj a ha
      · rename_i a2 a1 hia hacc
        split at hstep
        · rename_i heq
          simp only [pure, Except.pure, Except.ok.injEq] at hstep
          subst hstep
          refine ⟨k1, k2, ?_⟩
          intro j hj a ha
          rcases List.mem_cons.1 hj with rfl | hj
          · rw [hia] at ha
            simp only [Option.some.injEq] at ha
            subst ha
            exact k2 _ (by rw [hacc, act_beq_eq heq])
          · exact k3 j hj a ha
        · split at hstep
          · cases hstep
          · simp only [pure, Except.pure, Except.ok.injEq] at hstep
            subst hstep
            cases k1

theorem setAction_noconf {C : LRCtx} {st : LRState} {sym : String} {res : Option Act × Bool}
    (h : setAction C st sym = .ok res) (hres : res.2 = false) {i : Item} (hi : i ∈ st.items)
    {a : Act} (ha : itemAction C i sym ((st.next sym).getD 0) = some a) : res.1 = some a := by
  unfold setAction at h
  exact (setAction_fold_noconf st.items (none, false) res h hres).2.2 i hi a ha

/-! ## §5 table entries -/

theorem genParser_tables2 {syn : List SProd} {ids : List String} {r : LRResult}
    (h : genParser syn ids = .ok r) :
    ∃ rows, r.states.toList.mapM (fun st => r.ctx.S.terminals.mapM (setAction r.ctx st)) = .ok rows ∧
      r.tables.action = (rows.map fun row => (row.map (·.1)).toArray).toArray ∧
      r.tables.conflictStates = (rows.filter fun row => row.any (·.2)).length ∧
      r.tables.numSymbols = r.ctx.S.typeMap.length := by
  unfold genParser at h
  simp only [bind, Except.bind] at h
  split at h
  · cases h
  · rename_i S0 hS0
    split at h
    · cases h
    · rename_i rows hrows
      simp only [pure, Except.pure] at h
      cases h
      exact ⟨rows, hrows, rfl, rfl, rfl⟩

theorem mapM_ok_get {α β : Type} {f : α → Except String β} {l : List α} {r : List β}
    (h : l.mapM f = .ok r) {i : Nat} {a : α} (ha : l[i]? = some a) :
    ∃ b, r[i]? = some b ∧ f a = .ok b := by
  obtain ⟨hlen, hspec⟩ := mapM_ok_spec h
  have hi : i < r.length := by
    rw [hlen]; exact (List.getElem?_eq_some_iff.1 ha).1
  obtain ⟨a', ha', hf⟩ := hspec i r[i] (List.getElem?_eq_getElem hi)
  rw [ha] at ha'
  cases ha'
  exact ⟨r[i], List.getElem?_eq_getElem hi, hf⟩

/-- the action entry of state `s`, column `t`, is what `setAction` computed; without recorded
    conflicts its flag is off -/
theorem act_of_state {syn : List SProd} {ids : List String} {r : LRResult}
    (h : genParser syn ids = .ok r) {s t : Nat} {st : LRState} {sym : String}
    (hs : r.states[s]? = some st) (ht : r.ctx.S.terminals[t]? = some sym) :
    ∃ res, setAction r.ctx st sym = .ok res ∧ r.tables.act s t = res.1 ∧
      (r.tables.conflictStates = 0 → res.2 = false) := by
  obtain ⟨rows, hrows, hact, hconf, -⟩ := genParser_tables2 h
  have hs' : r.states.toList[s]? = some st := by simpa using hs
  obtain ⟨row, hrow, hrowf⟩ := mapM_ok_get hrows hs'
  obtain ⟨res, hres, hresf⟩ := mapM_ok_get hrowf ht
  refine ⟨res, hresf, ?_, ?_⟩
  · unfold PTables.act
    rw [hact]
    simp [hrow, hres]
  · intro hc
    rw [hconf] at hc
    have hnil := List.eq_nil_of_length_eq_zero hc
    have hrm : row ∈ rows := List.mem_of_getElem? hrow
    have : row.any (·.2) = false := by
      cases hany : row.any (·.2) with
      | false => rfl
      | true =>
        have : row ∈ rows.filter fun row => row.any (·.2) := List.mem_filter.2 ⟨hrm, hany⟩
        rw [hnil] at this
        cases this
    rw [List.any_eq_false] at this
    simpa using this res (List.mem_of_getElem? hres)

/-- every action row has one column per terminal -/
theorem action_row_size {syn : List SProd} {ids : List String} {r : LRResult}
    (h : genParser syn ids = .ok r) :
    ∀ row ∈ r.tables.action.toList, row.size = r.ctx.S.terminals.length := by
  obtain ⟨rows, hrows, hact, -, -⟩ := genParser_tables2 h
  intro row hrow
  rw [hact] at hrow
  simp only [List.mem_map] at hrow
  obtain ⟨rw', hrw, rfl⟩ := hrow
  obtain ⟨idx, hidx, hget⟩ := List.mem_iff_getElem.1 hrw
  obtain ⟨st, _, hst⟩ := (mapM_ok_spec hrows).2 idx rw' (by rw [List.getElem?_eq_getElem hidx, hget])
  simp [(mapM_ok_spec hst).1]

/-- the goto entry of state `s`, column `B` -/
theorem goto_of_state {syn : List SProd} {ids : List String} {r : LRResult}
    (h : genParser syn ids = .ok r) {s B : Nat} {st : LRState} {X : String}
    (hs : r.states[s]? = some st) (hB : r.ctx.S.ntList[B]? = some X) {n : Nat}
    (hn : st.next X = some n) : r.tables.gotoOf s B = some (n : Int) := by
  obtain ⟨rows, -, -, -, -, hgo, -⟩ := genParser_tables h
  unfold PTables.gotoOf
  rw [hgo, Array.getElem?_map, hs]
  simp [gotoRow, hB, hn]

end Gocc.GenComplete
