import Gocc.Spec.ScanSpec
import Gocc.Spec.Pos
import Gocc.Proofs.Scan
/-
Proofs for C01 (second half): the loop of `Scan` meets the declarative `ScanSpec`,
`ScanSpec` determines its result, and bisimilar automata give the same `scan`.
-/
namespace Gocc

/-! ### `stepAt` -/

theorem drop_ne_nil {src : List Nat} {p : Nat} (h : p < src.length) : src.drop p ≠ [] := by
  intro h0; have := congrArg List.length h0; simp at this; omega

theorem stepAt_ge (T : LexTables) {src : List Nat} (s : Nat) {p : Nat} (h : src.length ≤ p) :
    stepAt T src s p = none := by
  have hge : p ≥ src.length := h
  unfold stepAt; rw [if_pos hge]

theorem stepAt_lt (T : LexTables) {src : List Nat} (s : Nat) {p : Nat} (h : p < src.length) :
    stepAt T src s p =
      if T.trans s (decodeRune (src.drop p)).1 = -1 then none
      else some ((T.trans s (decodeRune (src.drop p)).1).toNat, p + (decodeRune (src.drop p)).2) := by
  have hge : ¬ p ≥ src.length := by omega
  unfold stepAt; rw [if_neg hge]

/-- a step reads one rune: it starts inside the input, moves forward and stays inside -/
theorem stepAt_some {T : LexTables} {src : List Nat} {s p s2 p2 : Nat}
    (h : stepAt T src s p = some (s2, p2)) : p < src.length ∧ p < p2 ∧ p2 ≤ src.length := by
  by_cases hlt : p < src.length
  · have hne := drop_ne_nil hlt
    have hw := decodeRune_size_pos _ hne
    have hw2 := decodeRune_size_le _ hne
    simp only [List.length_drop] at hw2
    rw [stepAt_lt T s hlt] at h
    split at h
    · cases h
    · simp only [Option.some.injEq, Prod.mk.injEq] at h
      omega
  · rw [stepAt_ge T s (by omega)] at h; cases h

/-! ### `Run` is a chain -/

theorem Run.le {T : LexTables} {src : List Nat} {s p s' p' : Nat} (h : Run T src s p s' p') :
    p ≤ p' := by
  induction h with
  | refl => exact Nat.le_refl _
  | step _ hs _ ih => have := (stepAt_some hs).2.1; omega

theorem Run.le_len {T : LexTables} {src : List Nat} {s p s' p' : Nat} (h : Run T src s p s' p')
    (hp : p ≤ src.length) : p' ≤ src.length := by
  induction h with
  | refl => exact hp
  | step _ hs _ _ => exact (stepAt_some hs).2.2

theorem Run.trans {T : LexTables} {src : List Nat} {s p s1 p1 s2 p2 : Nat}
    (h1 : Run T src s p s1 p1) (h2 : Run T src s1 p1 s2 p2) : Run T src s p s2 p2 := by
  induction h2 with
  | refl => exact h1
  | step _ hs hi ih => exact Run.step ih hs hi

/-- a run is empty or begins with a step into a non-ignore state -/
theorem Run.head {T : LexTables} {src : List Nat} {s p s' p' : Nat} (h : Run T src s p s' p') :
    (s = s' ∧ p = p') ∨
    ∃ sa pa, stepAt T src s p = some (sa, pa) ∧ ¬ IsIgn T sa ∧ Run T src sa pa s' p' := by
  induction h with
  | refl => exact Or.inl ⟨rfl, rfl⟩
  | step _ hs hi ih =>
    rcases ih with ⟨rfl, rfl⟩ | ⟨sa, pa, h1, h2, h3⟩
    · exact Or.inr ⟨_, _, hs, hi, Run.refl _ _⟩
    · exact Or.inr ⟨sa, pa, h1, h2, Run.step h3 hs hi⟩

/-- two runs from the same start: one is a prefix of the other -/
theorem Run.comparable {T : LexTables} {src : List Nat} {s p s1 p1 s2 p2 : Nat}
    (h1 : Run T src s p s1 p1) (h2 : Run T src s p s2 p2) :
    Run T src s1 p1 s2 p2 ∨ Run T src s2 p2 s1 p1 := by
  induction h2 with
  | refl => exact Or.inr h1
  | step _ hs hi ih =>
    rcases ih with h | h
    · exact Or.inl (Run.step h hs hi)
    · rcases h.head with ⟨rfl, rfl⟩ | ⟨sa, pa, e1, _, e3⟩
      · exact Or.inl (Run.step (Run.refl _ _) hs hi)
      · rw [hs] at e1
        simp only [Option.some.injEq, Prod.mk.injEq] at e1
        obtain ⟨rfl, rfl⟩ := e1
        exact Or.inr e3

/-- no step from `(s, p)` enters a non-ignore state: either no step at all, or a step into an
    ignore state -/
def NoLive (T : LexTables) (src : List Nat) (s p : Nat) : Prop :=
  ∀ s2 p2, stepAt T src s p = some (s2, p2) → IsIgn T s2

theorem NoLive.of_none {T : LexTables} {src : List Nat} {s p : Nat} (h : stepAt T src s p = none) :
    NoLive T src s p := by
  intro s2 p2 e; rw [h] at e; cases e

theorem NoLive.of_ign {T : LexTables} {src : List Nat} {s p s2 p2 : Nat}
    (h : stepAt T src s p = some (s2, p2)) (hi : IsIgn T s2) : NoLive T src s p := by
  intro s3 p3 e; rw [h] at e
  simp only [Option.some.injEq, Prod.mk.injEq] at e
  obtain ⟨rfl, rfl⟩ := e; exact hi

theorem Run.eq_of_noLive {T : LexTables} {src : List Nat} {s1 p1 s2 p2 : Nat}
    (h : Run T src s1 p1 s2 p2) (hn : NoLive T src s1 p1) : s1 = s2 ∧ p1 = p2 := by
  rcases h.head with e | ⟨sa, pa, e1, e2, _⟩
  · exact e
  · exact absurd (hn _ _ e1) e2

/-- the place where a run can go no further (maximal, or about to enter an ignore state) is unique -/
theorem Run.stop_unique {T : LexTables} {src : List Nat} {s p s1 p1 s2 p2 : Nat}
    (h1 : Run T src s p s1 p1) (n1 : NoLive T src s1 p1)
    (h2 : Run T src s p s2 p2) (n2 : NoLive T src s2 p2) : s1 = s2 ∧ p1 = p2 := by
  rcases h1.comparable h2 with h | h
  · exact h.eq_of_noLive n1
  · obtain ⟨a, b⟩ := h.eq_of_noLive n2; exact ⟨a.symm, b.symm⟩

/-- a maximal run is unique -/
theorem Run.maximal_unique {T : LexTables} {src : List Nat} {s p s1 p1 s2 p2 : Nat}
    (h1 : Run T src s p s1 p1) (n1 : stepAt T src s1 p1 = none)
    (h2 : Run T src s p s2 p2) (n2 : stepAt T src s2 p2 = none) : s1 = s2 ∧ p1 = p2 :=
  h1.stop_unique (NoLive.of_none n1) h2 (NoLive.of_none n2)

/-! ### ignored lexemes -/

theorem IgnLexeme.lt {T : LexTables} {src : List Nat} {a b : Nat} (h : IgnLexeme T src a b) :
    a < b ∧ a < src.length ∧ b ≤ src.length := by
  obtain ⟨s, p, s2, hr, hs, _⟩ := h
  have := hr.le
  have := stepAt_some hs
  omega

theorem IgnLexeme.unique {T : LexTables} {src : List Nat} {a b b' : Nat}
    (h : IgnLexeme T src a b) (h' : IgnLexeme T src a b') : b = b' := by
  obtain ⟨s, p, s2, hr, hs, hi⟩ := h
  obtain ⟨s', p', s2', hr', hs', hi'⟩ := h'
  obtain ⟨rfl, rfl⟩ := hr.stop_unique (NoLive.of_ign hs hi) hr' (NoLive.of_ign hs' hi')
  rw [hs] at hs'
  simp only [Option.some.injEq, Prod.mk.injEq] at hs'
  exact hs'.2

/-- where an ignored lexeme starts, no maximal (non-ignored) run starts -/
theorem IgnLexeme.not_maximal {T : LexTables} {src : List Nat} {a b s q : Nat}
    (h : IgnLexeme T src a b) (hr : Run T src 0 a s q) (hn : stepAt T src s q = none) : False := by
  obtain ⟨s', p', s2, hr', hs', hi'⟩ := h
  obtain ⟨rfl, rfl⟩ := hr.stop_unique (NoLive.of_none hn) hr' (NoLive.of_ign hs' hi')
  rw [hn] at hs'; cases hs'

theorem Skipped.le {T : LexTables} {src : List Nat} {a b : Nat} (h : Skipped T src a b) : a ≤ b := by
  induction h with
  | nil => exact Nat.le_refl _
  | cons h1 _ ih => have := h1.lt; omega

theorem Skipped.snoc {T : LexTables} {src : List Nat} {a b c : Nat} (h : Skipped T src a b)
    (h2 : IgnLexeme T src b c) : Skipped T src a c := by
  induction h with
  | nil => exact Skipped.cons h2 (Skipped.nil _)
  | cons h1 _ ih => exact Skipped.cons h1 (ih h2)

/-- `Scan` stops skipping at `off`: end of input, or a maximal run starts there -/
def Term (T : LexTables) (src : List Nat) (off : Nat) : Prop :=
  off ≥ src.length ∨ ∃ s q, Run T src 0 off s q ∧ stepAt T src s q = none

theorem IgnLexeme.not_term {T : LexTables} {src : List Nat} {a b : Nat}
    (h : IgnLexeme T src a b) (ht : Term T src a) : False := by
  rcases ht with hge | ⟨s, q, hr, hn⟩
  · have := h.lt; omega
  · exact h.not_maximal hr hn

/-- the skipped prefix is determined -/
theorem Skipped.unique {T : LexTables} {src : List Nat} {p off off' : Nat}
    (h : Skipped T src p off) (ht : Term T src off)
    (h' : Skipped T src p off') (ht' : Term T src off') : off = off' := by
  induction h with
  | nil =>
    cases h' with
    | nil => rfl
    | cons hi _ => exact (hi.not_term ht).elim
  | cons hi _ ih =>
    cases h' with
    | nil => exact (hi.not_term ht').elim
    | cons hi' hs' =>
      have := hi.unique hi'
      subst this
      exact ih ht hs'

theorem ScanSpec.term {T : LexTables} {src : List Nat} {p off e : Nat} {typ : Int}
    (h : ScanSpec T src p typ off e) : Term T src off := by
  rcases h.2 with ⟨hge, _⟩ | ⟨_, s, q, hr, hn, _⟩
  · exact Or.inl hge
  · exact Or.inr ⟨s, q, hr, hn⟩

/-- the specification determines token type, token offset and end of the consumed text -/
theorem ScanSpec.unique {T : LexTables} {src : List Nat} {p off off' e e' : Nat} {typ typ' : Int}
    (h : ScanSpec T src p typ off e) (h' : ScanSpec T src p typ' off' e') :
    typ = typ' ∧ off = off' ∧ e = e' := by
  have ho := h.1.unique h.term h'.1 h'.term
  subst ho
  rcases h.2 with ⟨hge, ht, he⟩ | ⟨hlt, s, q, hr, hn, hc⟩
  · rcases h'.2 with ⟨hge', ht', he'⟩ | ⟨hlt', _⟩
    · subst ht ht' he he'; exact ⟨rfl, rfl, rfl⟩
    · omega
  · rcases h'.2 with ⟨hge', _⟩ | ⟨hlt', s', q', hr', hn', hc'⟩
    · omega
    · obtain ⟨rfl, rfl⟩ := hr.maximal_unique hn hr' hn'
      rcases hc with ⟨h1, h2, h3, h4⟩ | ⟨h1, h3, h4⟩ <;>
      rcases hc' with ⟨h1', h2', h3', h4'⟩ | ⟨h1', h3', h4'⟩
      · subst h3 h3' h4 h4'; exact ⟨rfl, rfl, rfl⟩
      · rcases h1' with h | h
        · omega
        · exact absurd h h2
      · rcases h1 with h | h
        · omega
        · exact absurd h h2'
      · subst h3 h3' h4 h4'; exact ⟨rfl, rfl, rfl⟩

/-! ### the loop of `Scan` meets the specification -/

/-- Invariant of `for state != -1` while the automaton is live (`p0` = cursor offset at entry of
    `Scan`): `[p0, start)` is skipped text, the automaton has run from state 0 at `start` to
    `state` at `pos`, and `(typ, end_)` is the action of the last state entered (or nothing has
    been read since the (re)start). -/
structure SLive (T : LexTables) (src : List Nat) (p0 : Nat) (L : Loop) : Prop where
  sk : Skipped T src p0 L.start
  run : Run T src 0 L.start L.state.toNat L.pos
  le : L.pos ≤ src.length
  alt : (L.end_ = L.pos ∧ L.start < L.pos ∧ L.typ = T.accept L.state.toNat) ∨
        (L.pos = L.start ∧ L.end_ ≤ L.start ∧ (L.pos < src.length → L.typ = tokINVALID) ∧
          (src.length ≤ L.pos → L.typ = tokEOF))

/-- when the loop has ended, what `Scan` is about to return meets the specification -/
def SDone (T : LexTables) (src : List Nat) (p0 : Nat) (L : Loop) : Prop :=
  ScanSpec T src p0 L.typ L.start (if L.end_ > L.start then L.end_ else L.pos)

def SGood (T : LexTables) (src : List Nat) (p0 : Nat) (L : Loop) : Prop :=
  if L.state = -1 then SDone T src p0 L else SLive T src p0 L

theorem iter_sgood {T : LexTables} (hT : TWF T) {src : List Nat} {p0 : Nat} {L : Loop}
    (h : SLive T src p0 L) : SGood T src p0 (iter T src L) := by
  obtain ⟨sk, run, le, alt⟩ := h
  have sle : L.start ≤ L.pos := run.le
  by_cases hlt : L.pos < src.length
  · have hne := drop_ne_nil hlt
    have hw := decodeRune_size_pos _ hne
    have hw2 := decodeRune_size_le _ hne
    simp only [List.length_drop] at hw2
    have hst := stepAt_lt T L.state.toNat hlt
    rw [iter_lt T src L hlt]
    dsimp only
    split
    · -- live transition
      rename_i hnext
      rw [if_neg hnext] at hst
      split
      · -- into a state with an action
        rename_i hacc
        unfold SGood; rw [if_neg hnext]
        exact ⟨sk, Run.step run hst hacc, by dsimp only; omega,
          Or.inl ⟨rfl, by dsimp only; omega, rfl⟩⟩
      · -- into an ignore state: restart
        rename_i hacc
        have hacc' : T.accept (T.trans L.state.toNat (decodeRune (src.drop L.pos)).1).toNat = -1 := by
          simpa using hacc
        rw [if_pos (hT _ hacc')]
        unfold SGood; rw [if_neg (by dsimp only; decide)]
        refine ⟨Skipped.snoc sk ⟨_, _, _, run, hst, hacc'⟩, Run.refl _ _, by dsimp only; omega,
          Or.inr ⟨rfl, ?_, ?_, ?_⟩⟩
        · dsimp only; omega
        · dsimp only; intro hp; rw [if_neg (by omega)]
        · dsimp only; intro hp; rw [if_pos (by omega)]
    · -- no transition: the loop ends
      rename_i hnext
      have hnext' : T.trans L.state.toNat (decodeRune (src.drop L.pos)).1 = -1 := by
        simpa using hnext
      rw [if_pos hnext'] at hst
      split
      · rename_i htyp
        unfold SGood; rw [if_pos rfl]
        unfold SDone ScanSpec; dsimp only
        refine ⟨sk, Or.inr ⟨by omega, _, _, run, hst, Or.inr ⟨?_, htyp, ?_⟩⟩⟩
        · rcases alt with ⟨_, _, ht⟩ | ⟨hp, _⟩
          · exact Or.inr (ht ▸ htyp)
          · exact Or.inl hp
        · rw [if_pos (by omega), if_pos hlt]
      · rename_i htyp
        unfold SGood; rw [if_pos rfl]
        unfold SDone ScanSpec; dsimp only
        rcases alt with ⟨he, hsp, ht⟩ | ⟨_, _, hty, _⟩
        · refine ⟨sk, Or.inr ⟨by omega, _, _, run, hst, Or.inl ⟨hsp, ht ▸ htyp, ht, ?_⟩⟩⟩
          rw [if_pos (by omega)]; exact he
        · exact absurd (hty hlt) htyp
  · have hle : src.length ≤ L.pos := by omega
    have hst := stepAt_ge T L.state.toNat hle
    rw [iter_eof T src L hle]
    split
    · rename_i htyp
      unfold SGood; rw [if_pos rfl]
      unfold SDone ScanSpec; dsimp only
      rcases alt with ⟨he, hsp, ht⟩ | ⟨_, _, _, hty⟩
      · refine ⟨sk, Or.inr ⟨by omega, _, _, run, hst, Or.inr ⟨Or.inr (ht ▸ htyp), htyp, ?_⟩⟩⟩
        rw [if_pos hsp, if_neg hlt]
      · have := hty hle; rw [htyp] at this; exact absurd this (by decide)
    · rename_i htyp
      unfold SGood; rw [if_pos rfl]
      unfold SDone ScanSpec; dsimp only
      rcases alt with ⟨he, hsp, ht⟩ | ⟨hp, hes, _, hty⟩
      · refine ⟨sk, Or.inr ⟨by omega, _, _, run, hst, Or.inl ⟨hsp, ht ▸ htyp, ht, ?_⟩⟩⟩
        rw [if_pos (by omega)]; exact he
      · refine ⟨sk, Or.inl ⟨by omega, hty hle, ?_⟩⟩
        rw [if_neg (by omega)]; exact hp

theorem loop_sdone {T : LexTables} (hT : TWF T) {src : List Nat} {p0 : Nat} (L : Loop)
    (h : SGood T src p0 L) : SDone T src p0 (loop T src L) := by
  fun_induction loop T src L with
  | case1 L hs => unfold SGood at h; rwa [if_pos hs] at h
  | case2 L hs hlt ih =>
    unfold SGood at h; rw [if_neg hs] at h
    exact ih (iter_sgood hT h)
  | case3 L hs hlt =>
    unfold SGood at h; rw [if_neg hs] at h
    have := iter_sgood (T := T) hT h
    unfold SGood at this; rwa [if_pos (iter_state_eof T src L hlt)] at this

theorem loop0_sgood (T : LexTables) {src : List Nat} {st : LexSt} (h : st.pos < src.length) :
    SGood T src st.pos (loop0 st) := by
  unfold SGood; rw [if_neg (by unfold loop0; dsimp only; decide)]
  exact ⟨Skipped.nil _, Run.refl _ _, by unfold loop0; dsimp only; omega,
    Or.inr ⟨rfl, Nat.zero_le _, fun _ => rfl, fun hp => by unfold loop0 at hp; dsimp only at hp; omega⟩⟩

/-- every call of `Scan` meets `ScanSpec` -/
theorem scan_meets_spec {T : LexTables} (hT : TWF T) (src : List Nat) (st : LexSt) :
    ScanSpec T src st.pos (scan T src st).1.typ (scan T src st).1.offset (scan T src st).2.pos := by
  by_cases hlt : st.pos < src.length
  · have h := loop_sdone hT (loop0 st) (loop0_sgood T hlt)
    unfold SDone at h
    rw [scan_lt T src st hlt]
    dsimp only
    split
    · rename_i hgt; rw [if_pos hgt] at h; exact h
    · rename_i hgt; rw [if_neg hgt] at h; exact h
  · rw [scan_eof T src st (by omega)]
    exact ⟨Skipped.nil _, Or.inl ⟨by dsimp only; omega, rfl, rfl⟩⟩

/-! ### bisimilar automata give the same `Scan` -/

/-- the `state` variables of the two loops: both `-1`, or both live and related -/
def StRel (R : Nat → Nat → Prop) (s1 s2 : Int) : Prop :=
  (s1 = -1 ∧ s2 = -1) ∨ (s1 ≠ -1 ∧ s2 ≠ -1 ∧ R s1.toNat s2.toNat)

/-- the loops agree on every variable except `state` -/
def LRel (R : Nat → Nat → Prop) (L1 L2 : Loop) : Prop :=
  ({ L1 with state := 0 } : Loop) = { L2 with state := 0 } ∧ StRel R L1.state L2.state

theorem iter_rel {T1 T2 : LexTables} {R : Nat → Nat → Prop} (h : Bisim T1 T2 R) (src : List Nat)
    {L1 L2 : Loop} (hr : LRel R L1 L2) (hs : L1.state ≠ -1) :
    LRel R (iter T1 src L1) (iter T2 src L2) := by
  obtain ⟨pos, line, col, start, sl, sc, e, typ, s1⟩ := L1
  obtain ⟨pos2, line2, col2, start2, sl2, sc2, e2, typ2, s2⟩ := L2
  obtain ⟨heq, hst⟩ := hr
  simp only [Loop.mk.injEq, and_true] at heq
  obtain ⟨rfl, rfl, rfl, rfl, rfl, rfl, rfl, rfl⟩ := heq
  dsimp only at hs hst
  rcases hst with ⟨h1, _⟩ | ⟨_, hs2, hR⟩
  · exact absurd h1 hs
  by_cases hlt : pos < src.length
  · rw [iter_lt T1 src _ hlt, iter_lt T2 src _ hlt]
    dsimp only
    have hd := h.dead _ _ (decodeRune (src.drop pos)).1 hR
    by_cases hn : T1.trans s1.toNat (decodeRune (src.drop pos)).1 = -1
    · have hn2 := hd.1 hn
      simp only [hn, hn2, ne_eq, not_true_eq_false, if_false]
      split
      · exact ⟨rfl, Or.inl ⟨rfl, rfl⟩⟩
      · exact ⟨rfl, Or.inl ⟨rfl, rfl⟩⟩
    · have hn2 : T2.trans s2.toNat (decodeRune (src.drop pos)).1 ≠ -1 := fun c => hn (hd.2 c)
      have hl := h.live _ _ (decodeRune (src.drop pos)).1 hR hn
      obtain ⟨ha, hi⟩ := h.act _ _ hl
      simp only [hn, hn2, ne_eq, not_false_eq_true, if_true, ← ha, ← hi]
      split
      · exact ⟨rfl, Or.inr ⟨hn, hn2, hl⟩⟩
      · split
        · exact ⟨rfl, Or.inr ⟨by dsimp only; decide, by dsimp only; decide, h.start⟩⟩
        · exact ⟨rfl, Or.inr ⟨hn, hn2, hl⟩⟩
  · rw [iter_eof T1 src _ (by dsimp only; omega), iter_eof T2 src _ (by dsimp only; omega)]
    dsimp only
    split
    · exact ⟨rfl, Or.inl ⟨rfl, rfl⟩⟩
    · exact ⟨rfl, Or.inl ⟨rfl, rfl⟩⟩

theorem LRel.pos_eq {R : Nat → Nat → Prop} {L1 L2 : Loop} (h : LRel R L1 L2) : L1.pos = L2.pos := by
  have := congrArg Loop.pos h.1; exact this

theorem loop_rel {T1 T2 : LexTables} {R : Nat → Nat → Prop} (h : Bisim T1 T2 R) (src : List Nat)
    (L1 L2 : Loop) (hr : LRel R L1 L2) : LRel R (loop T1 src L1) (loop T2 src L2) := by
  fun_induction loop T1 src L1 generalizing L2 with
  | case1 L1 hs =>
    have hs2 : L2.state = -1 := by
      rcases hr.2 with ⟨_, h2⟩ | ⟨h1, _⟩
      · exact h2
      · exact absurd hs h1
    rw [loop, if_pos hs2]; exact hr
  | case2 L1 hs hlt ih =>
    have hs2 : L2.state ≠ -1 := by
      rcases hr.2 with ⟨h1, _⟩ | ⟨_, h2, _⟩
      · exact absurd h1 hs
      · exact h2
    have hlt2 : L2.pos < src.length := hr.pos_eq ▸ hlt
    rw [loop.eq_1 T2 src L2, if_neg hs2, dif_pos hlt2]
    exact ih _ (iter_rel h src hr hs)
  | case3 L1 hs hlt =>
    have hs2 : L2.state ≠ -1 := by
      rcases hr.2 with ⟨h1, _⟩ | ⟨_, h2, _⟩
      · exact absurd h1 hs
      · exact h2
    have hlt2 : ¬ L2.pos < src.length := hr.pos_eq ▸ hlt
    rw [loop.eq_1 T2 src L2, if_neg hs2, dif_neg hlt2]
    exact iter_rel h src hr hs

theorem bisim_scan_eq {T1 T2 : LexTables} {R : Nat → Nat → Prop} (h : Bisim T1 T2 R)
    (src : List Nat) (st : LexSt) : scan T1 src st = scan T2 src st := by
  by_cases hlt : st.pos < src.length
  · have h0 : LRel R (loop0 st) (loop0 st) := ⟨rfl, Or.inr ⟨by unfold loop0; dsimp only; decide, by unfold loop0; dsimp only; decide, h.start⟩⟩
    have hr := (loop_rel h src _ _ h0).1
    rw [scan_lt T1 src st hlt, scan_lt T2 src st hlt]
    dsimp only
    generalize loop T1 src (loop0 st) = A at hr
    generalize loop T2 src (loop0 st) = B at hr
    obtain ⟨pos, line, col, start, sl, sc, e, typ, s1⟩ := A
    obtain ⟨pos2, line2, col2, start2, sl2, sc2, e2, typ2, s2⟩ := B
    simp only [Loop.mk.injEq, and_true] at hr
    obtain ⟨rfl, rfl, rfl, rfl, rfl, rfl, rfl, rfl⟩ := hr
    rfl
  · rw [scan_eof T1 src st (by omega), scan_eof T2 src st (by omega)]

theorem bisim_scanN_eq {T1 T2 : LexTables} {R : Nat → Nat → Prop} (h : Bisim T1 T2 R)
    (src : List Nat) (k : Nat) (st : LexSt) : scanN T1 src k st = scanN T2 src k st := by
  induction k generalizing st with
  | zero => rfl
  | succ k ih => simp only [scanN, bisim_scan_eq h src st, ih]

end Gocc
