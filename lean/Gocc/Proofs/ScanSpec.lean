import Gocc.Spec.ScanSpec
import Gocc.Spec.Pos
import Gocc.Proofs.Scan
/-
Proofs for C01 (second half): the loop of `Scan` meets the declarative `ScanSpec`,
`ScanSpec` determines its result, and bisimilar automata give the same `scan`.
-/
namespace Gocc

/-! ### `stepAt` -/

theorem drop_ne_nil {src : List Nat} {p : Nat} (h : p < src.length) : src.drop p ≠ [] := by
  intro h0; have := congrArg List.length h0; simp at this; omega

theorem stepAt_ge (T : LexTables) {src : List Nat} (s : Nat) {p : Nat} (h : src.length ≤ p) :
    stepAt T src s p = none := by
  have hge : p ≥ src.length := h
  unfold stepAt; rw [if_pos hge]

theorem stepAt_lt (T : LexTables) {src : List Nat} (s : Nat) {p : Nat} (h : p < src.length) :
    stepAt T src s p =
      if T.trans s (decodeRune (src.drop p)).1 = -1 then none
      else some ((T.trans s (decodeRune (src.drop p)).1).toNat, p + (decodeRune (src.drop p)).2) := by
  have hge : ¬ p ≥ src.length := by omega
  unfold stepAt; rw [if_neg hge]

/-- a step reads one rune: it starts inside the input, moves forward and stays inside -/
theorem stepAt_some {T : LexTables} {src : List Nat} {s p s2 p2 : Nat}
    (h : stepAt T src s p = some (s2, p2)) : p < src.length ∧ p < p2 ∧ p2 ≤ src.length := by
  by_cases hlt : p < src.length
  · have hne := drop_ne_nil hlt
    have hw := decodeRune_size_pos _ hne
    have hw2 := decodeRune_size_le _ hne
    simp only [List.length_drop] at hw2
    rw [stepAt_lt T s hlt] at h
    split at h
    · cases h
    · simp only [Option.some.injEq, Prod.mk.injEq] at h
      omega
  · rw [stepAt_ge T s (by omega)] at h; cases h

/-! ### `Run` is a chain -/

theorem Run.le {T : LexTables} {src : List Nat} {s p s' p' : Nat} (h : Run T src s p s' p') :
    p ≤ p' := by
  induction h with
  | refl => exact Nat.le_refl _
  | step _ hs _ ih => have := (stepAt_some hs).2.1; omega

theorem Run.le_len {T : LexTables} {src : List Nat} {s p s' p' : Nat} (h : Run T src s p s' p')
    (hp : p ≤ src.length) : p' ≤ src.length := by
  induction h with
  | refl => exact hp
  | step _ hs _ _ => exact (stepAt_some hs).2.2

theorem Run.trans {T : LexTables} {src : List Nat} {s p s1 p1 s2 p2 : Nat}
    (h1 : Run T src s p s1 p1) (h2 : Run T src s1 p1 s2 p2) : Run T src s p s2 p2 := by
  induction h2 with
  | refl => exact h1
  | step _ hs hi ih => exact Run.step ih hs hi

/-- a run is empty or begins with a step into a non-ignore state -/
theorem Run.head {T : LexTables} {src : List Nat} {s p s' p' : Nat} (h : Run T src s p s' p') :
    (s = s' ∧ p = p') ∨
    ∃ sa pa, stepAt T src s p = some (sa, pa) ∧ ¬ IsIgn T sa ∧ Run T src sa pa s' p' := by
  induction h with
  | refl => exact Or.inl ⟨rfl, rfl⟩
  | step _ hs hi ih =>
    rcases ih with ⟨rfl, rfl⟩ | ⟨sa, pa, h1, h2, h3⟩
    · exact Or.inr ⟨_, _, hs, hi, Run.refl _ _⟩
    · exact Or.inr ⟨sa, pa, h1, h2, Run.step h3 hs hi⟩

/-- two runs from the same start: one is a prefix of the other -/
theorem Run.comparable {T : LexTables} {src : List Nat} {s p s1 p1 s2 p2 : Nat}
    (h1 : Run T src s p s1 p1) (h2 : Run T src s p s2 p2) :
    Run T src s1 p1 s2 p2 ∨ Run T src s2 p2 s1 p1 := by
  induction h2 with
  | refl => exact Or.inr h1
  | step _ hs hi ih =>
    rcases ih with h | h
    · exact Or.inl (Run.step h hs hi)
    · rcases h.head with ⟨rfl, rfl⟩ | ⟨sa, pa, e1, _, e3⟩
      · exact Or.inl (Run.step (Run.refl _ _) hs hi)
      · rw [hs] at e1
        simp only [Option.some.injEq, Prod.mk.injEq] at e1
        obtain ⟨rfl, rfl⟩ := e1
        exact Or.inr e3

/-- no step from `(s, p)` enters a non-ignore state: either no step at all, or a step into an
    ignore state -/
def NoLive (T : LexTables) (src : List Nat) (s p : Nat) : Prop :=
  ∀ s2 p2, stepAt T src s p = some (s2, p2) → IsIgn T s2

theorem NoLive.of_none {T : LexTables} {src : List Nat} {s p : Nat} (h : stepAt T src s p = none) :
    NoLive T src s p := by
  intro s2 p2 e; rw [h] at e; cases e

theorem NoLive.of_ign {T : LexTables} {src : List Nat} {s p s2 p2 : Nat}
    (h : stepAt T src s p = some (s2, p2)) (hi : IsIgn T s2) : NoLive T src s p := by
  intro s3 p3 e; rw [h] at e
  simp only [Option.some.injEq, Prod.mk.injEq] at e
  obtain ⟨rfl, rfl⟩ := e; exact hi

theorem Run.eq_of_noLive {T : LexTables} {src : List Nat} {s1 p1 s2 p2 : Nat}
    (h : Run T src s1 p1 s2 p2) (hn : NoLive T src s1 p1) : s1 = s2 ∧ p1 = p2 := by
  rcases h.head with e | ⟨sa, pa, e1, e2, _⟩
  · exact e
  · exact absurd (hn _ _ e1) e2

/-- the place where a run can go no further (maximal, or about to enter an ignore state) is unique -/
theorem Run.stop_unique {T : LexTables} {src : List Nat} {s p s1 p1 s2 p2 : Nat}
    (h1 : Run T src s p s1 p1) (n1 : NoLive T src s1 p1)
    (h2 : Run T src s p s2 p2) (n2 : NoLive T src s2 p2) : s1 = s2 ∧ p1 = p2 := by
  rcases h1.comparable h2 with h | h
  · exact h.eq_of_noLive n1
  · obtain ⟨a, b⟩ := h.eq_of_noLive n2; exact ⟨a.symm, b.symm⟩

/-- a maximal run is unique -/
theorem Run.maximal_unique {T : LexTables} {src : List Nat} {s p s1 p1 s2 p2 : Nat}
    (h1 : Run T src s p s1 p1) (n1 : stepAt T src s1 p1 = none)
    (h2 : Run T src s p s2 p2) (n2 : stepAt T src s2 p2 = none) : s1 = s2 ∧ p1 = p2 :=
  h1.stop_unique (NoLive.of_none n1) h2 (NoLive.of_none n2)

/-! ### ignored lexemes -/

theorem IgnLexeme.lt {T : LexTables} {src : List Nat} {a b : Nat} (h : IgnLexeme T src a b) :
    a < b ∧ a < src.length ∧ b ≤ src.length := by
  obtain ⟨s, p, s2, hr, hs, _⟩ := h
  have := hr.le
  have := stepAt_some hs
  omega

theorem IgnLexeme.unique {T : LexTables} {src : List Nat} {a b b' : Nat}
    (h : IgnLexeme T src a b) (h' : IgnLexeme T src a b') : b = b' := by
  obtain ⟨s, p, s2, hr, hs, hi⟩ := h
  obtain ⟨s', p', s2', hr', hs', hi'⟩ := h'
  obtain ⟨rfl, rfl⟩ := hr.stop_unique (NoLive.of_ign hs hi) hr' (NoLive.of_ign hs' hi')
  rw [hs] at hs'
  simp only [Option.some.injEq, Prod.mk.injEq] at hs'
  exact hs'.2

/-- where an ignored lexeme starts, no maximal (non-ignored) run starts -/
theorem IgnLexeme.not_maximal {T : LexTables} {src : List Nat} {a b s q : Nat}
    (h : IgnLexeme T src a b) (hr : Run T src 0 a s q) (hn : stepAt T src s q = none) : False := by
  obtain ⟨s', p', s2, hr', hs', hi'⟩ := h
  obtain ⟨rfl, rfl⟩ := hr.stop_unique (NoLive.of_none hn) hr' (NoLive.of_ign hs' hi')
  rw [hn] at hs'; cases hs'

theorem Skipped.le {T : LexTables} {src : List Nat} {a b : Nat} (h : Skipped T src a b) : a ≤ b := by
  induction h with
  | nil => exact Nat.le_refl _
  | cons h1 _ ih => have := h1.lt; omega

theorem Skipped.snoc {T : LexTables} {src : List Nat} {a b c : Nat} (h : Skipped T src a b)
    (h2 : IgnLexeme T src b c) : Skipped T src a c := by
  induction h with
  | nil => exact Skipped.cons h2 (Skipped.nil _)
  | cons h1 _ ih => exact Skipped.cons h1 (ih h2)

/-- `Scan` stops skipping at `off`: end of input, or a maximal run starts there -/
def Term (T : LexTables) (src : List Nat) (off : Nat) : Prop :=
  off ≥ src.length ∨ ∃ s q, Run T src 0 off s q ∧ stepAt T src s q = none

theorem IgnLexeme.not_term {T : LexTables} {src : List Nat} {a b : Nat}
    (h : IgnLexeme T src a b) (ht : Term T src a) : False := by
  rcases ht with hge | ⟨s, q, hr, hn⟩
  · have := h.lt; omega
  · exact h.not_maximal hr hn

/-- the skipped prefix is determined -/
theorem Skipped.unique {T : LexTables} {src : List Nat} {p off off' : Nat}
    (h : Skipped T src p off) (ht : Term T src off)
    (h' : Skipped T src p off') (ht' : Term T src off') : off = off' := by
  induction h with
  | nil =>
    cases h' with
    | nil => rfl
    | cons hi _ => exact (hi.not_term ht).elim
  | cons hi _ ih =>
    cases h' with
    | nil => exact (hi.not_term ht').elim
    | cons hi' hs' =>
      have := hi.unique hi'
      subst this
      exact ih ht hs'

theorem ScanSpec.term {T : LexTables} {src : List Nat} {p off e : Nat} {typ : Int}
    (h : ScanSpec T src p typ off e) : Term T src off := by
  rcases h.2 with ⟨hge, _⟩ | ⟨_, s, q, hr, hn, _⟩
  · exact Or.inl hge
  · exact Or.inr ⟨s, q, hr, hn⟩

/-- the specification determines token type, token offset and end of the consumed text -/
theorem ScanSpec.unique {T : LexTables} {src : List Nat} {p off off' e e' : Nat} {typ typ' : Int}
    (h : ScanSpec T src p typ off e) (h' : ScanSpec T src p typ' off' e') :
    typ = typ' ∧ off = off' ∧ e = e' := by
  have ho := h.1.unique h.term h'.1 h'.term
  subst ho
  rcases h.2 with ⟨hge, ht, he⟩ | ⟨hlt, s, q, hr, hn, hc⟩
  · rcases h'.2 with ⟨hge', ht', he'⟩ | ⟨hlt', _⟩
    · subst ht ht' he he'; exact ⟨rfl, rfl, rfl⟩
    · omega
  · rcases h'.2 with ⟨hge', _⟩ | ⟨hlt', s', q', hr', hn', hc'⟩
    · omega
    · obtain ⟨rfl, rfl⟩ := hr.maximal_unique hn hr' hn'
      rcases hc with ⟨h1, h2, h3, h4⟩ | ⟨h1, h3, h4⟩ <;>
      rcases hc' with ⟨h1', h2', h3', h4'⟩ | ⟨h1', h3', h4'⟩
      · subst h3 h3' h4 h4'; exact ⟨rfl, rfl, rfl⟩
      · rcases h1' with h | h
        · omega
        · exact absurd h h2
      · rcases h1 with h | h
        · omega
        · exact absurd h h2'
      · subst h3 h3' h4 h4'; exact ⟨rfl, rfl, rfl⟩

end Gocc
