import Gocc.Model.LexEquiv
import Gocc.Proofs.ScanSpec
/-
Proofs for the verified equivalence checker `equivCheck` (Gocc/Model/LexEquiv.lean):
  1. `bisimOn_scan_eq*`: tables bisimilar on the runes `utf8.DecodeRune` can return give the same `scan`
     (generalisation of `bisim_scan_eq`, Gocc/Proofs/ScanSpec.lean);
  2. interval uniformity: under `boundsOk` both transition functions are constant on every
     elementary interval, so it is enough to compare them on the interval starts;
  3. the product walk: if it returns `true` there is a finite set of pairs containing `(0, 0)`,
     with equal acts, closed under the transitions on all interval starts;
  4. `equivCheck_sound`.
-/
namespace Gocc

/-! ### 1. `BisimOn` and `scan` -/

/-- `DecodeRune` returns at most `unicode.MaxRune` -/
theorem decodeRune_le_max (l : List Nat) : (decodeRune l).1 ≤ 0x10FFFF := by
  unfold decodeRune
  repeat' split
  all_goals (try dsimp only)
  all_goals (try (split <;> dsimp only))
  all_goals (try (simp [runeError]; done))
  all_goals (try simp only [isCont, Bool.and_eq_true, decide_eq_true_eq] at *)
  all_goals omega

theorem decodeRune_isRune (l : List Nat) : IsRune (decodeRune l).1 :=
  ⟨decodeRune_nonneg l, decodeRune_le_max l⟩

theorem Bisim.on {T1 T2 : LexTables} {R : Nat → Nat → Prop} (h : Bisim T1 T2 R) (P : Int → Prop) :
    BisimOn P T1 T2 R :=
  ⟨h.start, h.act, fun a b r _ => h.dead a b r, fun a b r _ => h.live a b r⟩

theorem BisimOn.mono {P Q : Int → Prop} {T1 T2 : LexTables} {R : Nat → Nat → Prop}
    (h : BisimOn P T1 T2 R) (hq : ∀ r, Q r → P r) : BisimOn Q T1 T2 R :=
  ⟨h.start, h.act, fun a b r hr => h.dead a b r (hq r hr), fun a b r hr => h.live a b r (hq r hr)⟩

theorem iter_rel_on {P : Int → Prop} (hP : ∀ l, P (decodeRune l).1) {T1 T2 : LexTables}
    {R : Nat → Nat → Prop} (h : BisimOn P T1 T2 R) (src : List Nat)
    {L1 L2 : Loop} (hr : LRel R L1 L2) (hs : L1.state ≠ -1) :
    LRel R (iter T1 src L1) (iter T2 src L2) := by
  obtain ⟨pos, line, col, start, sl, sc, e, typ, s1⟩ := L1
  obtain ⟨pos2, line2, col2, start2, sl2, sc2, e2, typ2, s2⟩ := L2
  obtain ⟨heq, hst⟩ := hr
  simp only [Loop.mk.injEq, and_true] at heq
  obtain ⟨rfl, rfl, rfl, rfl, rfl, rfl, rfl, rfl⟩ := heq
  dsimp only at hs hst
  rcases hst with ⟨h1, _⟩ | ⟨_, hs2, hR⟩
  · exact absurd h1 hs
  by_cases hlt : pos < src.length
  · rw [iter_lt T1 src _ hlt, iter_lt T2 src _ hlt]
    dsimp only
    have hd := h.dead _ _ (decodeRune (src.drop pos)).1 (hP _) hR
    by_cases hn : T1.trans s1.toNat (decodeRune (src.drop pos)).1 = -1
    · have hn2 := hd.1 hn
      simp only [hn, hn2, ne_eq, not_true_eq_false, if_false]
      split
      · exact ⟨rfl, Or.inl ⟨rfl, rfl⟩⟩
      · exact ⟨rfl, Or.inl ⟨rfl, rfl⟩⟩
    · have hn2 : T2.trans s2.toNat (decodeRune (src.drop pos)).1 ≠ -1 := fun c => hn (hd.2 c)
      have hl := h.live _ _ (decodeRune (src.drop pos)).1 (hP _) hR hn
      obtain ⟨ha, hi⟩ := h.act _ _ hl
      simp only [hn, hn2, ne_eq, not_false_eq_true, if_true, ← ha, ← hi]
      split
      · exact ⟨rfl, Or.inr ⟨hn, hn2, hl⟩⟩
      · split
        · exact ⟨rfl, Or.inr ⟨by dsimp only; decide, by dsimp only; decide, h.start⟩⟩
        · exact ⟨rfl, Or.inr ⟨hn, hn2, hl⟩⟩
  · rw [iter_eof T1 src _ (by dsimp only; omega), iter_eof T2 src _ (by dsimp only; omega)]
    dsimp only
    split
    · exact ⟨rfl, Or.inl ⟨rfl, rfl⟩⟩
    · exact ⟨rfl, Or.inl ⟨rfl, rfl⟩⟩

theorem loop_rel_on {P : Int → Prop} (hP : ∀ l, P (decodeRune l).1) {T1 T2 : LexTables}
    {R : Nat → Nat → Prop} (h : BisimOn P T1 T2 R) (src : List Nat)
    (L1 L2 : Loop) (hr : LRel R L1 L2) : LRel R (loop T1 src L1) (loop T2 src L2) := by
  fun_induction loop T1 src L1 generalizing L2 with
  | case1 L1 hs =>
    have hs2 : L2.state = -1 := by
      rcases hr.2 with ⟨_, h2⟩ | ⟨h1, _⟩
      · exact h2
      · exact absurd hs h1
    rw [loop, if_pos hs2]; exact hr
  | case2 L1 hs hlt ih =>
    have hs2 : L2.state ≠ -1 := by
      rcases hr.2 with ⟨h1, _⟩ | ⟨_, h2, _⟩
      · exact absurd h1 hs
      · exact h2
    have hlt2 : L2.pos < src.length := hr.pos_eq ▸ hlt
    rw [loop.eq_1 T2 src L2, if_neg hs2, dif_pos hlt2]
    exact ih _ (iter_rel_on hP h src hr hs)
  | case3 L1 hs hlt =>
    have hs2 : L2.state ≠ -1 := by
      rcases hr.2 with ⟨h1, _⟩ | ⟨_, h2, _⟩
      · exact absurd h1 hs
      · exact h2
    have hlt2 : ¬ L2.pos < src.length := hr.pos_eq ▸ hlt
    rw [loop.eq_1 T2 src L2, if_neg hs2, dif_neg hlt2]
    exact iter_rel_on hP h src hr hs

/-- tables bisimilar on a set of runes that contains every result of `DecodeRune` give the same `scan` -/
theorem bisimOn_scan_eq_of {P : Int → Prop} (hP : ∀ l, P (decodeRune l).1) {T1 T2 : LexTables}
    {R : Nat → Nat → Prop} (h : BisimOn P T1 T2 R)
    (src : List Nat) (st : LexSt) : scan T1 src st = scan T2 src st := by
  by_cases hlt : st.pos < src.length
  · have h0 : LRel R (loop0 st) (loop0 st) :=
      ⟨rfl, Or.inr ⟨by unfold loop0; dsimp only; decide, by unfold loop0; dsimp only; decide, h.start⟩⟩
    have hr := (loop_rel_on hP h src _ _ h0).1
    rw [scan_lt T1 src st hlt, scan_lt T2 src st hlt]
    dsimp only
    generalize loop T1 src (loop0 st) = A at hr
    generalize loop T2 src (loop0 st) = B at hr
    obtain ⟨pos, line, col, start, sl, sc, e, typ, s1⟩ := A
    obtain ⟨pos2, line2, col2, start2, sl2, sc2, e2, typ2, s2⟩ := B
    simp only [Loop.mk.injEq, and_true] at hr
    obtain ⟨rfl, rfl, rfl, rfl, rfl, rfl, rfl, rfl⟩ := hr
    rfl
  · rw [scan_eof T1 src st (by omega), scan_eof T2 src st (by omega)]

theorem bisimOn_scan_eq {T1 T2 : LexTables} {R : Nat → Nat → Prop}
    (h : BisimOn (fun r => 0 ≤ r) T1 T2 R) (src : List Nat) (st : LexSt) :
    scan T1 src st = scan T2 src st :=
  bisimOn_scan_eq_of (P := fun r => 0 ≤ r) decodeRune_nonneg h src st

theorem bisimOn_rune_scan_eq {T1 T2 : LexTables} {R : Nat → Nat → Prop}
    (h : BisimOn IsRune T1 T2 R) (src : List Nat) (st : LexSt) :
    scan T1 src st = scan T2 src st :=
  bisimOn_scan_eq_of decodeRune_isRune h src st

theorem scanN_eq_of_scan_eq {T1 T2 : LexTables} {src : List Nat}
    (h : ∀ st, scan T1 src st = scan T2 src st) (k : Nat) (st : LexSt) :
    scanN T1 src k st = scanN T2 src k st := by
  induction k generalizing st with
  | zero => rfl
  | succ k ih => simp only [scanN, h st, ih]

/-! ### `MDfa.tables` is the function the driver's `lexTablesOf` computes -/

/-- `LState.step` written with the pattern-matching lambdas of `Gocc.Driver.lexTablesOf` -/
theorem LState.step_eq_driver (st : LState) (r : Int) : st.step r =
    (match (st.classes.zip st.trans).find? (fun (c, _) => c.lo ≤ r && r ≤ c.hi) with
      | some (_, t) => t
      | none => if st.matchAny then st.dotTrans else -1) := by
  have hp : (fun (x : CR × Int) => match x with
        | (c, _) => decide (c.lo ≤ r) && decide (r ≤ c.hi)) =
      fun p => decide (p.1.lo ≤ r) && decide (r ≤ p.1.hi) := by
    funext x; cases x; rfl
  unfold LState.step
  rw [hp]
  cases List.find? (fun p => decide (p.1.lo ≤ r) && decide (r ≤ p.1.hi))
      (st.classes.zip st.trans) with
  | none => rfl
  | some p => cases p; rfl

theorem MDfa.tables_trans_eq_driver (M : MDfa) (s : Nat) (r : Int) : M.tables.trans s r =
    (match M.states[s]? with
      | none => -1
      | some st =>
        match (st.classes.zip st.trans).find? (fun (c, _) => c.lo ≤ r && r ≤ c.hi) with
        | some (_, t) => t
        | none => if st.matchAny then st.dotTrans else -1) := by
  show (match M.states[s]? with | none => (-1 : Int) | some st => st.step r) = _
  cases M.states[s]? with
  | none => rfl
  | some st => exact LState.step_eq_driver st r

/-! ### 2. interval uniformity -/

/-- `c` is the start of the elementary interval containing `r`: the greatest start `≤ r` -/
def ElemRep (starts : List Int) (r c : Int) : Prop :=
  c ∈ starts ∧ c ≤ r ∧ ∀ s ∈ starts, s ≤ r → s ≤ c

theorem exists_max_le (l : List Int) (r : Int) (h : ∃ a ∈ l, a ≤ r) : ∃ c, ElemRep l r c := by
  induction l with
  | nil => obtain ⟨a, ha, _⟩ := h; cases ha
  | cons x xs ih =>
    by_cases hx : ∃ a ∈ xs, a ≤ r
    · obtain ⟨c, hc, hcr, hmax⟩ := ih hx
      by_cases hxc : x ≤ r ∧ c < x
      · refine ⟨x, List.mem_cons_self, hxc.1, ?_⟩
        intro s hs hsr
        rcases List.mem_cons.1 hs with rfl | hs
        · omega
        · have := hmax s hs hsr; omega
      · refine ⟨c, List.mem_cons_of_mem _ hc, hcr, ?_⟩
        intro s hs hsr
        rcases List.mem_cons.1 hs with rfl | hs
        · omega
        · exact hmax s hs hsr
    · obtain ⟨a, ha, har⟩ := h
      rcases List.mem_cons.1 ha with rfl | ha
      · refine ⟨a, List.mem_cons_self, har, ?_⟩
        intro s hs hsr
        rcases List.mem_cons.1 hs with rfl | hs
        · omega
        · exact absurd ⟨s, hs, hsr⟩ hx
      · exact absurd ⟨a, ha, har⟩ hx

theorem startsOk_zero_mem {starts : List Int} (h : startsOk starts = true) : (0 : Int) ∈ starts := by
  cases starts with
  | nil => simp [startsOk] at h
  | cons a rest =>
    simp only [startsOk, Bool.and_eq_true, beq_iff_eq] at h
    rw [h.1]; exact List.mem_cons_self

/-- under `startsOk` every rune `r ≥ 0` has an interval start -/
theorem exists_elemRep {starts : List Int} (h : startsOk starts = true) {r : Int} (hr : 0 ≤ r) :
    ∃ c, ElemRep starts r c :=
  exists_max_le starts r ⟨0, startsOk_zero_mem h, hr⟩

/-- `r` and the start of its interval have the same interval index -/
theorem elemIndex_rep {starts : List Int} {r c : Int} (h : ElemRep starts r c) :
    elemIndex starts c = elemIndex starts r := by
  obtain ⟨_, hcr, hmax⟩ := h
  unfold elemIndex
  rw [List.filter_congr (q := fun x => decide (x ≤ r))]
  intro s hs
  by_cases h1 : s ≤ r
  · have := hmax s hs h1; simp [h1, this]
  · have : ¬ s ≤ c := by omega
    simp [h1, this]

theorem ElemRep.unique {starts : List Int} {r c c' : Int} (h : ElemRep starts r c)
    (h' : ElemRep starts r c') : c = c' := by
  have := h.2.2 c' h'.1 h'.2.1
  have := h'.2.2 c h.1 h.2.1
  omega

theorem strictInc_cons {a : Int} {rest : List Int} (h : strictInc (a :: rest) = true) :
    strictInc rest = true ∧ ∀ x ∈ rest, a < x := by
  induction rest generalizing a with
  | nil => exact ⟨rfl, fun _ hx => by cases hx⟩
  | cons b rest ih =>
    simp only [strictInc, Bool.and_eq_true, decide_eq_true_eq] at h
    obtain ⟨hab, hb⟩ := h
    refine ⟨hb, fun x hx => ?_⟩
    rcases List.mem_cons.1 hx with rfl | hx
    · exact hab
    · have := (ih hb).2 x hx; omega

/-- for strictly increasing starts the greatest start `≤ r` is the one `elemIndex` selects:
    `r` lies in the elementary interval number `elemIndex starts r`, which begins at `c` -/
theorem elemRep_getElem? {starts : List Int} (hs : strictInc starts = true) {r c : Int}
    (h : ElemRep starts r c) : starts[elemIndex starts r]? = some c := by
  induction starts with
  | nil => exact absurd h.1 (by simp)
  | cons a rest ih =>
    obtain ⟨hs', hlt⟩ := strictInc_cons hs
    obtain ⟨hc, hcr, hmax⟩ := h
    by_cases har : a ≤ r
    · have hf : (a :: rest).filter (fun x => decide (x ≤ r)) =
          a :: rest.filter (fun x => decide (x ≤ r)) :=
        List.filter_cons_of_pos (by simpa using har)
      unfold elemIndex; rw [hf]
      by_cases hx : ∃ x ∈ rest, x ≤ r
      · obtain ⟨x, hxm, hxr⟩ := hx
        have hca : c ∈ rest := by
          rcases List.mem_cons.1 hc with rfl | hc
          · have := hmax x (List.mem_cons_of_mem _ hxm) hxr
            have := hlt x hxm
            omega
          · exact hc
        have hrep : ElemRep rest r c :=
          ⟨hca, hcr, fun s hs hsr => hmax s (List.mem_cons_of_mem _ hs) hsr⟩
        have hne : 0 < (rest.filter (fun x => decide (x ≤ r))).length :=
          List.length_pos_of_mem (List.mem_filter.2 ⟨hxm, by simpa using hxr⟩)
        have hi := ih hs' hrep
        unfold elemIndex at hi
        obtain ⟨n, hn⟩ : ∃ n, (rest.filter (fun x => decide (x ≤ r))).length = n + 1 :=
          ⟨(rest.filter (fun x => decide (x ≤ r))).length - 1, by omega⟩
        rw [hn] at hi
        simp only [List.length_cons, hn, Nat.add_sub_cancel, List.getElem?_cons_succ] at hi ⊢
        exact hi
      · have hnil : rest.filter (fun x => decide (x ≤ r)) = [] :=
          List.filter_eq_nil_iff.2 fun x hx' => by
            simp only [decide_eq_true_eq]; exact fun hxr => hx ⟨x, hx', hxr⟩
        rw [hnil]
        have hca : c = a := by
          rcases List.mem_cons.1 hc with rfl | hc
          · rfl
          · exact absurd ⟨c, hc, hcr⟩ hx
        subst hca
        rfl
    · exfalso
      rcases List.mem_cons.1 hc with rfl | hc
      · exact har hcr
      · have := hlt c hc; omega

/-- ... and the next start, if any, is beyond `r`: the interval is `[starts[k], starts[k+1])` -/
theorem elemRep_next {starts : List Int} (hs : strictInc starts = true) {r c : Int}
    (h : ElemRep starts r c) {d : Int} (hd : starts[elemIndex starts r + 1]? = some d) : r < d := by
  induction starts with
  | nil => exact absurd h.1 (by simp)
  | cons a rest ih =>
    obtain ⟨hs', hlt⟩ := strictInc_cons hs
    obtain ⟨hc, hcr, hmax⟩ := h
    have har : a ≤ r := by
      rcases List.mem_cons.1 hc with rfl | hc
      · exact hcr
      · have := hlt c hc; omega
    have hf : (a :: rest).filter (fun x => decide (x ≤ r)) =
        a :: rest.filter (fun x => decide (x ≤ r)) :=
      List.filter_cons_of_pos (by simpa using har)
    unfold elemIndex at hd; rw [hf] at hd
    by_cases hx : ∃ x ∈ rest, x ≤ r
    · obtain ⟨x, hxm, hxr⟩ := hx
      have hca : c ∈ rest := by
        rcases List.mem_cons.1 hc with rfl | hc
        · have := hmax x (List.mem_cons_of_mem _ hxm) hxr
          have := hlt x hxm
          omega
        · exact hc
      have hrep : ElemRep rest r c :=
        ⟨hca, hcr, fun s hs hsr => hmax s (List.mem_cons_of_mem _ hs) hsr⟩
      have hne : 0 < (rest.filter (fun x => decide (x ≤ r))).length :=
        List.length_pos_of_mem (List.mem_filter.2 ⟨hxm, by simpa using hxr⟩)
      apply ih hs' hrep
      unfold elemIndex
      obtain ⟨n, hn⟩ : ∃ n, (rest.filter (fun x => decide (x ≤ r))).length = n + 1 :=
        ⟨(rest.filter (fun x => decide (x ≤ r))).length - 1, by omega⟩
      simp only [List.length_cons, hn, Nat.add_sub_cancel, List.getElem?_cons_succ] at hd ⊢
      exact hd
    · have hnil : rest.filter (fun x => decide (x ≤ r)) = [] :=
        List.filter_eq_nil_iff.2 fun x hx' => by
          simp only [decide_eq_true_eq]; exact fun hxr => hx ⟨x, hx', hxr⟩
      rw [hnil] at hd
      simp only [List.length_cons, List.length_nil, Nat.zero_add, Nat.sub_self,
        List.getElem?_cons_succ] at hd
      have hdm : d ∈ rest := List.mem_of_getElem? hd
      by_cases hdr : d ≤ r
      · exact absurd ⟨d, hdm, hdr⟩ hx
      · omega

/-- the reference automaton is constant on every elementary interval -/
theorem refStep_rep (d : RefDfa) (s : Nat) {r c : Int} (h : ElemRep d.starts r c) :
    d.step s r = d.step s c := by
  unfold RefDfa.step; rw [elemIndex_rep h]

/-- a class that respects the interval starts contains `r` iff it contains the start of `r`'s interval -/
theorem classOk_rep {starts : List Int} {r c : Int} (h : ElemRep starts r c) (hr : r ≤ 0x10FFFF)
    {k : CR} (hk : classOk starts k = true) :
    (decide (k.lo ≤ r) && decide (r ≤ k.hi)) = (decide (k.lo ≤ c) && decide (c ≤ k.hi)) := by
  obtain ⟨_, hcr, hmax⟩ := h
  simp only [classOk, Bool.and_eq_true, Bool.or_eq_true, decide_eq_true_eq,
    List.contains_iff_mem] at hk
  obtain ⟨⟨⟨_, _⟩, hlo⟩, hhi⟩ := hk
  rw [Bool.eq_iff_iff]
  simp only [Bool.and_eq_true, decide_eq_true_eq]
  constructor
  · intro ⟨h1, h2⟩
    have := hmax _ hlo h1
    exact ⟨this, by omega⟩
  · intro ⟨h1, h2⟩
    refine ⟨by omega, ?_⟩
    rcases hhi with hhi | hhi
    · by_cases h3 : k.hi + 1 ≤ r
      · have := hmax _ hhi h3; omega
      · omega
    · omega

theorem find?_congr' {α : Type} {p q : α → Bool} :
    ∀ {l : List α}, (∀ x ∈ l, p x = q x) → l.find? p = l.find? q
  | [], _ => rfl
  | a :: l, h => by
    rw [List.forall_mem_cons] at h
    simp only [List.find?_cons, h.1, find?_congr' h.2]

/-- a generated state whose classes respect the interval starts is constant on every elementary interval -/
theorem lstateStep_rep {starts : List Int} {r c : Int} (h : ElemRep starts r c) (hr : r ≤ 0x10FFFF)
    {st : LState} (hst : st.classes.all (classOk starts) = true) : st.step r = st.step c := by
  unfold LState.step
  rw [find?_congr' (q := fun p => decide (p.1.lo ≤ c) && decide (c ≤ p.1.hi))]
  intro p hp
  have hm : p.1 ∈ st.classes := (List.of_mem_zip (a := p.1) (b := p.2) hp).1
  exact classOk_rep h hr (List.all_eq_true.1 hst _ hm)

theorem mdfa_trans_rep {M : MDfa} {starts : List Int} (hb : boundsOk M starts = true)
    (m : Nat) {r c : Int} (h : ElemRep starts r c) (hr : r ≤ 0x10FFFF) :
    M.tables.trans m r = M.tables.trans m c := by
  simp only [boundsOk, Bool.and_eq_true, List.all_eq_true] at hb
  show (match M.states[m]? with | none => (-1 : Int) | some st => st.step r) =
       (match M.states[m]? with | none => (-1 : Int) | some st => st.step c)
  cases hm : M.states[m]? with
  | none => rfl
  | some st =>
    have hmem : st ∈ M.states.toList := by
      rw [← Array.getElem?_toList] at hm
      exact List.mem_of_getElem? hm
    exact lstateStep_rep h hr (List.all_eq_true.2 (hb.2 st hmem))

theorem rdfa_trans_rep (R : RDfa) (s : Nat) {r c : Int} (h : ElemRep R.dfa.starts r c) :
    R.tables.trans s r = R.tables.trans s c :=
  refStep_rep R.dfa s h

/-! ### 3. the product walk -/

/-- the pair `p` is locally fine with respect to the set `S`: equal acts, and on every interval
    start both sides are dead or both live with non-negative targets whose pair is in `S` -/
def PairGood (TM TR : LexTables) (starts : List Int) (S : List (Nat × Nat)) (p : Nat × Nat) : Prop :=
  (TM.accept p.1 = TR.accept p.2 ∧ TM.ignore p.1 = TR.ignore p.2) ∧
  ∀ c ∈ starts, (TM.trans p.1 c = -1 ↔ TR.trans p.2 c = -1) ∧
    (TM.trans p.1 c ≠ -1 → 0 ≤ TM.trans p.1 c ∧ 0 ≤ TR.trans p.2 c ∧
      ((TM.trans p.1 c).toNat, (TR.trans p.2 c).toNat) ∈ S)

theorem pairSucc_spec (TM TR : LexTables) (m r : Nat) :
    ∀ (cs : List Int) (succ : List (Nat × Nat)), pairSucc TM TR m r cs = some succ →
      ∀ c ∈ cs, (TM.trans m c = -1 ↔ TR.trans r c = -1) ∧
        (TM.trans m c ≠ -1 → 0 ≤ TM.trans m c ∧ 0 ≤ TR.trans r c ∧
          ((TM.trans m c).toNat, (TR.trans r c).toNat) ∈ succ) := by
  intro cs
  induction cs with
  | nil => intro _ _ c hc; cases hc
  | cons c0 cs ih =>
    intro succ hs c hc
    unfold pairSucc at hs
    by_cases h1 : TM.trans m c0 = -1
    · rw [if_pos h1] at hs
      by_cases h2 : TR.trans r c0 = -1
      · rw [if_pos h2] at hs
        rcases List.mem_cons.1 hc with rfl | hc
        · exact ⟨⟨fun _ => h2, fun _ => h1⟩, fun hne => absurd h1 hne⟩
        · exact ih succ hs c hc
      · rw [if_neg h2] at hs; cases hs
    · rw [if_neg h1] at hs
      by_cases h2 : TR.trans r c0 = -1
      · rw [if_pos h2] at hs; cases hs
      · rw [if_neg h2] at hs
        by_cases h3 : TM.trans m c0 < 0 ∨ TR.trans r c0 < 0
        · rw [if_pos h3] at hs; cases hs
        · rw [if_neg h3] at hs
          cases hrec : pairSucc TM TR m r cs with
          | none => rw [hrec] at hs; cases hs
          | some l =>
            rw [hrec] at hs
            simp only [Option.map_some, Option.some.injEq] at hs
            subst hs
            rcases List.mem_cons.1 hc with rfl | hc
            · exact ⟨⟨fun h => absurd h h1, fun h => absurd h h2⟩,
                fun _ => ⟨by omega, by omega, List.mem_cons_self⟩⟩
            · obtain ⟨ha, hb⟩ := ih l hrec c hc
              exact ⟨ha, fun hne => ⟨(hb hne).1, (hb hne).2.1, List.mem_cons_of_mem _ (hb hne).2.2⟩⟩

/-- closure of the walk: a successful walk yields a set containing `seen` and `work` in which every
    pair not already in `seen` is locally fine -/
theorem eqWalk_closed (TM TR : LexTables) (starts : List Int) :
    ∀ (fuel : Nat) (work seen : List (Nat × Nat)), eqWalk TM TR starts fuel work seen = true →
      ∃ S : List (Nat × Nat), (∀ p ∈ seen, p ∈ S) ∧ (∀ p ∈ work, p ∈ S) ∧
        ∀ p ∈ S, p ∈ seen ∨ PairGood TM TR starts S p := by
  intro fuel
  induction fuel with
  | zero => intro work seen h; simp [eqWalk] at h
  | succ fuel ih =>
    intro work seen h
    cases work with
    | nil => exact ⟨seen, fun _ hp => hp, fun _ hp => (by cases hp), fun _ hp => Or.inl hp⟩
    | cons p rest =>
      unfold eqWalk at h
      by_cases hseen : seen.contains p = true
      · rw [if_pos hseen] at h
        obtain ⟨S, h1, h2, h3⟩ := ih rest seen h
        refine ⟨S, h1, ?_, h3⟩
        intro q hq
        rcases List.mem_cons.1 hq with rfl | hq
        · exact h1 _ (List.contains_iff_mem.1 hseen)
        · exact h2 _ hq
      · rw [if_neg hseen] at h
        by_cases hact : (!actsEq TM TR p.1 p.2) = true
        · rw [if_pos hact] at h; cases h
        · rw [if_neg hact] at h
          cases hsucc : pairSucc TM TR p.1 p.2 starts with
          | none => rw [hsucc] at h; cases h
          | some succ =>
            rw [hsucc] at h
            obtain ⟨S, h1, h2, h3⟩ := ih (succ ++ rest) (p :: seen) h
            refine ⟨S, fun q hq => h1 q (List.mem_cons_of_mem _ hq), ?_, ?_⟩
            · intro q hq
              rcases List.mem_cons.1 hq with rfl | hq
              · exact h1 _ List.mem_cons_self
              · exact h2 _ (List.mem_append_right _ hq)
            · intro q hq
              rcases h3 q hq with hq' | hq'
              · rcases List.mem_cons.1 hq' with rfl | hq'
                · right
                  have ha : actsEq TM TR q.1 q.2 = true := by simpa using hact
                  simp only [actsEq, Bool.and_eq_true, beq_iff_eq] at ha
                  refine ⟨ha, ?_⟩
                  intro c hc
                  obtain ⟨hd, hl⟩ := pairSucc_spec TM TR q.1 q.2 starts succ hsucc c hc
                  exact ⟨hd, fun hne => ⟨(hl hne).1, (hl hne).2.1,
                    h2 _ (List.mem_append_left _ (hl hne).2.2)⟩⟩
                · exact Or.inl hq'
              · exact Or.inr hq'

/-- a successful walk from `(0, 0)` yields a closed set of locally fine pairs -/
theorem eqWalk_sound {TM TR : LexTables} {starts : List Int} {fuel : Nat}
    (h : eqWalk TM TR starts fuel [(0, 0)] [] = true) :
    ∃ S : List (Nat × Nat), (0, 0) ∈ S ∧ ∀ p ∈ S, PairGood TM TR starts S p := by
  obtain ⟨S, _, h2, h3⟩ := eqWalk_closed TM TR starts fuel _ _ h
  refine ⟨S, h2 _ List.mem_cons_self, fun p hp => ?_⟩
  rcases h3 p hp with hn | hg
  · cases hn
  · exact hg

/-! ### 4. soundness of `equivCheck` -/

/-- if the checker accepts, the two tables are bisimilar on all runes -/
theorem equivCheck_bisimOn {M : MDfa} {R : RDfa} (h : equivCheck M R = true) :
    ∃ Rel : Nat → Nat → Prop, BisimOn IsRune M.tables R.tables Rel := by
  simp only [equivCheck, Bool.and_eq_true] at h
  obtain ⟨hb, hw⟩ := h
  obtain ⟨S, h0, hS⟩ := eqWalk_sound hw
  have hso : startsOk R.dfa.starts = true := by
    simp only [boundsOk, Bool.and_eq_true] at hb; exact hb.1
  refine ⟨fun a b => (a, b) ∈ S, h0, fun a b hab => (hS _ hab).1, ?_, ?_⟩
  · intro a b r hr hab
    obtain ⟨c, hc⟩ := exists_elemRep hso hr.1
    rw [mdfa_trans_rep hb a hc hr.2, rdfa_trans_rep R b hc]
    exact ((hS _ hab).2 c hc.1).1
  · intro a b r hr hab hne
    obtain ⟨c, hc⟩ := exists_elemRep hso hr.1
    rw [mdfa_trans_rep hb a hc hr.2] at hne ⊢
    rw [rdfa_trans_rep R b hc]
    exact (((hS _ hab).2 c hc.1).2 hne).2.2

theorem equivCheck_sound {M : MDfa} {R : RDfa} (h : equivCheck M R = true)
    (src : List Nat) (st : LexSt) : scan M.tables src st = scan R.tables src st := by
  obtain ⟨Rel, hR⟩ := equivCheck_bisimOn h
  exact bisimOn_rune_scan_eq hR src st

theorem equivCheck_sound_scanN {M : MDfa} {R : RDfa} (h : equivCheck M R = true)
    (src : List Nat) (k : Nat) (st : LexSt) : scanN M.tables src k st = scanN R.tables src k st :=
  scanN_eq_of_scan_eq (equivCheck_sound h src) k st

end Gocc
