import Gocc.Proofs.Validate
import Gocc.Model.ValidateC
/-
The completeness validator `complete` is correct: a parser whose tables pass it accepts every
sentence (when the semantic actions never fail).

  §1  nullable / FIRST: a closed certificate contains the true relations
      (`nullable_of_derives`, `inFirst_of_derives`, `mem_firstOfSeq_*`)
  §2  facts extracted from the validator (`CompleteFacts`, `completeFacts_of`)
  §3  iterated steps (`Steps`) and single steps of the parser along a validated run
  §4  the key lemma (`run_item`): with item `(p, d, a)` in the top state and `u a…` ahead, where
      the rest of the body derives `u`, the parser pushes the states of the rest of the body,
      consumes exactly `u` and arrives in a state holding the complete item
  §5  acceptance (`parse_accepts`)

No hypothesis on error recovery is needed: along the run of a sentence the action entry is never
missing, so `Error` is never called.
-/
namespace Gocc

/-! ### §1 nullable and FIRST -/

/-- `b` may begin a string derived from `β`, according to `fc` -/
def InFirst (fc : FirstCert) (b : Nat) : List Sym → Prop
  | [] => False
  | .t c :: _ => c = b
  | .nt B :: rest => fc.hasFirst B b = true ∨ (fc.isNullable B = true ∧ InFirst fc b rest)

theorem firstOkProd_nullable {fc : FirstCert} {A : Nat} : ∀ {β : List Sym},
    firstOkProd fc A β = true → β.all fc.symNullable = true → fc.isNullable A = true
  | [], h, _ => h
  | .t a :: _, _, h2 => by simp [FirstCert.symNullable] at h2
  | .nt B :: rest, h, h2 => by
    simp only [List.all_cons, FirstCert.symNullable, Bool.and_eq_true] at h2
    simp only [firstOkProd, Bool.and_eq_true, Bool.or_eq_true, Bool.not_eq_true'] at h
    rcases h.2 with h3 | h3
    · rw [h2.1] at h3; cases h3
    · exact firstOkProd_nullable h3 h2.2

theorem firstOkProd_first {fc : FirstCert} {A b : Nat} : ∀ {β : List Sym},
    firstOkProd fc A β = true → InFirst fc b β → fc.hasFirst A b = true
  | [], _, h2 => h2.elim
  | .t a :: _, h, h2 => by
    simp only [InFirst] at h2
    subst h2
    exact h
  | .nt B :: rest, h, h2 => by
    simp only [firstOkProd, Bool.and_eq_true, Bool.or_eq_true, Bool.not_eq_true',
      List.all_eq_true] at h
    rcases h2 with h2 | ⟨h2, h3⟩
    · have := h.1 (B, b) (by simpa [FirstCert.hasFirst] using h2)
      simpa using this
    · rcases h.2 with h4 | h4
      · rw [h2] at h4; cases h4
      · exact firstOkProd_first h4 h3

theorem firstOk_prod {G : NGrammar} {fc : FirstCert} (h : firstOk G fc = true) {p : Nat}
    (hp : p < G.prods.size) : firstOkProd fc (G.head p) (G.body p) = true := by
  simp only [firstOk, List.all_eq_true, List.mem_range] at h
  exact h p hp

/-- a string deriving the empty word consists of nullable non-terminals -/
theorem nullable_of_derives {G : NGrammar} {fc : FirstCert} (h : firstOk G fc = true)
    {β : List Sym} {u : List Nat} (hd : NDerives G β u) :
    u = [] → β.all fc.symNullable = true := by
  induction hd with
  | nil => intro _; rfl
  | term _ _ => intro h; cases h
  | @nt p α u v hp _ _ ih1 ih2 =>
    intro huv
    have hu : u = [] := List.append_eq_nil_iff.mp huv |>.1
    have hv : v = [] := List.append_eq_nil_iff.mp huv |>.2
    simp only [List.all_cons, FirstCert.symNullable, Bool.and_eq_true]
    exact ⟨firstOkProd_nullable (firstOk_prod h hp) (ih1 hu), ih2 hv⟩

/-- the first token of a derived string is in FIRST -/
theorem inFirst_of_derives {G : NGrammar} {fc : FirstCert} (h : firstOk G fc = true)
    {β : List Sym} {u : List Nat} (hd : NDerives G β u) :
    ∀ b u', u = b :: u' → InFirst fc b β := by
  induction hd with
  | nil => intro b u' h; cases h
  | term _ _ => intro b u' h; cases h; simp [InFirst]
  | @nt p α u v hp hb _ ih1 ih2 =>
    intro b u' huv
    simp only [InFirst]
    rcases u with _ | ⟨b', u0⟩
    · right
      exact ⟨firstOkProd_nullable (firstOk_prod h hp) (nullable_of_derives h hb rfl),
        ih2 b u' (by simpa using huv)⟩
    · left
      simp only [List.cons_append, List.cons.injEq] at huv
      obtain ⟨rfl, -⟩ := huv
      exact firstOkProd_first (firstOk_prod h hp) (ih1 _ _ rfl)

theorem mem_firstOfSeq_of_inFirst {fc : FirstCert} {b : Nat} (a : Nat) : ∀ {β : List Sym},
    InFirst fc b β → b ∈ firstOfSeq fc β a
  | [], h => h.elim
  | .t c :: _, h => by simp only [InFirst] at h; simp [firstOfSeq, h]
  | .nt B :: rest, h => by
    simp only [firstOfSeq, List.mem_append, List.mem_map, List.mem_filter]
    rcases h with h | ⟨h1, h2⟩
    · left
      exact ⟨(B, b), ⟨by simpa [FirstCert.hasFirst] using h, by simp⟩, rfl⟩
    · right
      rw [if_pos h1]
      exact mem_firstOfSeq_of_inFirst a h2

theorem mem_firstOfSeq_of_nullable {fc : FirstCert} (a : Nat) : ∀ {β : List Sym},
    β.all fc.symNullable = true → a ∈ firstOfSeq fc β a
  | [], _ => by simp [firstOfSeq]
  | .t c :: _, h => by simp [FirstCert.symNullable] at h
  | .nt B :: rest, h => by
    simp only [List.all_cons, FirstCert.symNullable, Bool.and_eq_true] at h
    simp only [firstOfSeq, List.mem_append]
    right
    rw [if_pos h.1]
    exact mem_firstOfSeq_of_nullable a h.2

/-- (FIRST lemma) if `β` derives `v`, the token that follows in `v post` (end of input = 1 when
    there is none) is in `firstOfSeq fc β a`, `a` being the token that follows in `post` -/
theorem mem_firstOfSeq_of_derives {G : NGrammar} {fc : FirstCert} (h : firstOk G fc = true)
    {β : List Sym} {v : List Nat} (hd : NDerives G β v) (post : List Nat) :
    (v ++ post).head?.getD 1 ∈ firstOfSeq fc β (post.head?.getD 1) := by
  rcases v with _ | ⟨b, v'⟩
  · simpa using mem_firstOfSeq_of_nullable _ (nullable_of_derives h hd rfl)
  · simpa using mem_firstOfSeq_of_inFirst _ (inFirst_of_derives h hd b v' rfl)

/-! ### §2 what the validator guarantees -/

structure CompleteFacts (G : NGrammar) (T : PTables) (fc : FirstCert) (c : CertLA) : Prop where
  actLt : ∀ (s t : Nat) (a : Act), T.act s t = some a → t < T.numSymbols
  prodNT : ∀ p : Nat, p < G.prods.size → T.prodNT[p]? = some (G.head p)
  prodLen : ∀ p : Nat, p < G.prods.size → T.prodLen[p]? = some (G.body p).length
  start : ∃ A, G.body 0 = [Sym.nt A]
  noStart : ∀ p : Nat, p < G.prods.size → Sym.nt (G.head 0) ∉ G.body p
  k0 : (0, 0, 1) ∈ c[0]?.getD []
  kT : ∀ s p d a t : Nat, (p, d, a) ∈ c[s]?.getD [] → (G.body p)[d]? = some (Sym.t t) →
    ∃ s', T.act s t = some (.shift s') ∧ (p, d + 1, a) ∈ c[s']?.getD []
  kN : ∀ s p d a B : Nat, (p, d, a) ∈ c[s]?.getD [] → (G.body p)[d]? = some (Sym.nt B) →
    ∃ g : Int, T.gotoOf s B = some g ∧ 0 ≤ g ∧ (p, d + 1, a) ∈ c[g.toNat]?.getD []
  kC : ∀ s p d a B : Nat, (p, d, a) ∈ c[s]?.getD [] → (G.body p)[d]? = some (Sym.nt B) →
    ∀ q : Nat, q < G.prods.size → G.head q = B →
      ∀ b : Nat, b ∈ firstOfSeq fc ((G.body p).drop (d + 1)) a → (q, 0, b) ∈ c[s]?.getD []
  kR : ∀ s p a : Nat, (p, (G.body p).length, a) ∈ c[s]?.getD [] →
    if p = 0 then a = 1 ∧ T.act s 1 = some .accept else T.act s a = some (.reduce p)

theorem mem_cert_lt {c : CertLA} {s : Nat} {x : Nat × Nat × Nat} (h : x ∈ c[s]?.getD []) :
    s < c.size := by
  by_cases hs : s < c.size
  · exact hs
  · have : c[s]? = none := by simp; omega
    simp [this] at h

theorem completeFacts_of {G : NGrammar} {T : PTables} {fc : FirstCert} {c : CertLA}
    (h : complete G T fc c = true) : CompleteFacts G T fc c := by
  simp only [complete, Bool.and_eq_true, List.all_eq_true, List.mem_range, beq_iff_eq,
    decide_eq_true_eq] at h
  obtain ⟨⟨⟨⟨⟨⟨-, hW⟩, hP⟩, hS⟩, hB⟩, h0⟩, hI⟩ := h
  have hasMem : ∀ s p d a, c.has s p d a = true ↔ (p, d, a) ∈ c[s]?.getD [] := by
    intro s p d a; simp [CertLA.has]
  have item : ∀ s p d a, (p, d, a) ∈ c[s]?.getD [] → _ := fun s p d a hm =>
    hI s (mem_cert_lt hm) (p, d, a) hm
  refine
    { actLt := ?_, prodNT := fun p hp => (hP p hp).1, prodLen := fun p hp => (hP p hp).2,
      start := ?_, noStart := ?_, k0 := (hasMem _ _ _ _).1 h0, kT := ?_, kN := ?_, kC := ?_,
      kR := ?_ }
  · intro s t a ha
    obtain ⟨row, hrow, ht, -⟩ := act_eq_some ha
    have := hW row (Array.mem_toList_iff.mpr (Array.mem_of_getElem? hrow))
    omega
  · split at hS
    · exact ⟨_, by assumption⟩
    · simp at hS
  · intro p hp hmem
    have := hB p hp _ hmem
    simp at this
  · intro s p d a t hm hX
    have := item s p d a hm
    simp only [hX] at this
    split at this
    · exact ⟨_, by assumption, (hasMem _ _ _ _).1 this⟩
    · cases this
  · intro s p d a B hm hX
    have := item s p d a hm
    simp only [hX, Bool.and_eq_true] at this
    have h1 := this.1
    split at h1
    · simp only [Bool.and_eq_true, decide_eq_true_eq] at h1
      exact ⟨_, by assumption, h1.1, (hasMem _ _ _ _).1 h1.2⟩
    · cases h1
  · intro s p d a B hm hX q hq hh b hb
    have := item s p d a hm
    simp only [hX, Bool.and_eq_true, List.all_eq_true, List.mem_range, Bool.or_eq_true,
      bne_iff_ne, ne_eq] at this
    rcases this.2 q hq with h1 | h1
    · exact absurd hh h1
    · exact (hasMem _ _ _ _).1 (h1 b hb)
  · intro s p a hm
    have := item s p _ a hm
    have hnone : (G.body p)[(G.body p).length]? = none := by simp
    simp only [hnone, bne_self_eq_false, Bool.false_or] at this
    split
    · rename_i hp
      simpa [hp] using this
    · rename_i hp
      simpa [hp] using this

/-! ### §3 steps -/

/-- `Steps cfg w ps ps'`: finitely many iterations of the `Parse` loop lead from `ps` to `ps'` -/
inductive Steps (cfg : PCfg) (w : List Nat) : PState → PState → Prop
  | refl (ps : PState) : Steps cfg w ps ps
  | head {ps ps1 ps2 : PState} : step cfg w ps = .cont ps1 → Steps cfg w ps1 ps2 → Steps cfg w ps ps2

theorem Steps.trans {cfg : PCfg} {w : List Nat} {a b c : PState} (h1 : Steps cfg w a b)
    (h2 : Steps cfg w b c) : Steps cfg w a c := by
  induction h1 with
  | refl => exact h2
  | head hs _ ih => exact .head hs (ih h2)

theorem Steps.single {cfg : PCfg} {w : List Nat} {a b : PState} (h : step cfg w a = .cont b) :
    Steps cfg w a b := .head h (.refl b)

theorem Steps.parseLoop {cfg : PCfg} {w : List Nat} {a b : PState} (h : Steps cfg w a b) :
    ∃ n, ∀ fuel, parseLoop cfg w (n + fuel) a = parseLoop cfg w fuel b := by
  induction h with
  | refl => exact ⟨0, fun fuel => by rw [Nat.zero_add]⟩
  | @head ps ps1 ps2 hs _ ih =>
    obtain ⟨n, hn⟩ := ih
    refine ⟨n + 1, fun fuel => ?_⟩
    rw [show n + 1 + fuel = (n + fuel) + 1 by omega, parseLoop_succ, hs]
    exact hn fuel

/-- more fuel does not change a result other than `outOfFuel` -/
theorem parseLoop_fuel_mono {cfg : PCfg} {w : List Nat} : ∀ {fuel : Nat} {ps : PState},
    (parseLoop cfg w fuel ps).1 ≠ .outOfFuel → ∀ k : Nat,
    parseLoop cfg w (fuel + k) ps = parseLoop cfg w fuel ps := by
  intro fuel
  induction fuel with
  | zero => intro ps h; exact absurd rfl h
  | succ fuel ih =>
    intro ps h k
    rw [show fuel + 1 + k = (fuel + k) + 1 by omega, parseLoop_succ, parseLoop_succ]
    rw [parseLoop_succ] at h
    rcases hs : step cfg w ps with ⟨o, ps1⟩ | ps1
    · rfl
    · rw [hs] at h
      exact ih h k

/-- when the action entry exists (and the token type is in range) a step performs it -/
theorem step_act {cfg : PCfg} {w : List Nat} {ps : PState} {top : Nat} {rest : List Nat} {a : Act}
    (hst : ps.states = top :: rest) (ha : cfg.T.act top ps.next.2 = some a)
    (hlt : ps.next.2 < cfg.T.numSymbols) : step cfg w ps = doAct cfg w a ps := by
  unfold step
  rw [hst]
  simp only []
  rw [if_neg (by omega)]
  simp only [lookupAct, ha]

theorem scanTok_snd (w : List Nat) (m : Nat) : (scanTok w m).2 = (w.drop m).head?.getD 1 := by
  unfold scanTok
  rw [List.head?_drop]
  rcases w[m]? with _ | x <;> rfl

theorem reduceRes_actsOk {cfg : PCfg} (hA : ActsOk cfg) {p n : Nat}
    (hn : cfg.T.prodLen[p]? = some n) {X : List Attr} (hX : X.length = n) (ps : PState) :
    ∃ a ps2, reduceRes cfg p X ps = .ok (a, ps2) ∧ ps2.next = ps.next ∧ ps2.ntok = ps.ntok := by
  have hk := hA.2 p n hn X hX
  unfold reduceRes
  generalize cfg.T.prodKind[p]?.getD .dflt = kd at hk ⊢
  rcases kd with _ | _ | ⟨shape, id⟩
  · simp only [kindOk] at hk
    rcases X with _ | ⟨x, X⟩
    · exact absurd rfl hk
    · exact ⟨_, _, rfl, rfl, rfl⟩
  · exact ⟨_, _, rfl, rfl, rfl⟩
  · obtain ⟨a, ha⟩ := hk
    simp only [hA.1, bne_self_eq_false, Bool.false_and, Bool.false_eq_true, if_false, ha]
    exact ⟨_, _, rfl, rfl, rfl⟩

/-- a reduce step: pops the body, pushes the goto state -/
theorem doAct_reduce {cfg : PCfg} (hA : ActsOk cfg) (w : List Nat) {p n A : Nat}
    (hn : cfg.T.prodLen[p]? = some n) (hnt : cfg.T.prodNT[p]? = some A) {ps : PState}
    {ss : List Nat} {s : Nat} {rest : List Nat} (hst : ps.states = ss ++ s :: rest)
    (hss : ss.length = n) (hat : ps.attrs.length = ps.states.length) {g : Int}
    (hg : cfg.T.gotoOf s A = some g) (hg0 : 0 ≤ g) :
    ∃ ps', doAct cfg w (.reduce p) ps = .cont ps' ∧ ps'.states = g.toNat :: s :: rest ∧
      ps'.attrs.length = ps'.states.length ∧ ps'.next = ps.next ∧ ps'.ntok = ps.ntok := by
  have hlen : ((ps.attrs.take n).reverse).length = n := by
    rw [List.length_reverse, List.length_take, hat, hst]; simp; omega
  obtain ⟨a, ps2, hres, h1, h2⟩ := reduceRes_actsOk hA hn hlen ps
  have hdrop : ps.states.drop n = s :: rest := by
    rw [hst, ← hss]; simp
  simp only [doAct, hn, hnt, Option.getD_some]
  rw [if_neg (by rw [hst]; simp; omega), hres, hdrop]
  simp only [PTables.gotoOf] at hg
  simp only [hg, Option.getD_some]
  rw [if_neg (by omega)]
  refine ⟨_, rfl, rfl, ?_, h1, h2⟩
  simp only [List.length_cons, List.length_drop, hat, hst, List.length_append]
  omega

/-! ### §4 the key lemma -/

theorem drop_eq_cons {α : Type} {l : List α} {d : Nat} {x : α} {xs : List α}
    (h : l.drop d = x :: xs) : l[d]? = some x ∧ l.drop (d + 1) = xs ∧ d + 1 ≤ l.length := by
  refine ⟨?_, ?_, ?_⟩
  · rw [← List.head?_drop, h]; rfl
  · rw [← List.drop_drop, h]; rfl
  · have := congrArg List.length h
    simp at this
    omega

/-- (key lemma) the top state holds item `(p, d, a)`, the rest `β` of the body derives `u`, the
    input from the look-ahead on is `u post`, and the first token of `post` (1 if there is none)
    is `a`.  Then, after finitely many iterations, the parser has pushed `|β|` states on the
    unchanged stack, consumed exactly `u`, and its top state holds the complete item. -/
theorem run_item {G : NGrammar} {T : PTables} {fc : FirstCert} {c : CertLA}
    (F : CompleteFacts G T fc c) (hf : firstOk G fc = true) {cfg : PCfg} (hA : ActsOk cfg)
    (hT : cfg.T = T) (w : List Nat) {β : List Sym} {u : List Nat} (hd : NDerives G β u) :
    ∀ (p d a : Nat), p < G.prods.size → (G.body p).drop d = β → d ≤ (G.body p).length →
    ∀ (ps : PState) (s : Nat) (rest : List Nat) (m : Nat) (post : List Nat),
      ps.states = s :: rest → ps.attrs.length = ps.states.length →
      (p, d, a) ∈ c[s]?.getD [] → ps.ntok = m + 1 → ps.next = scanTok w m →
      w.drop m = u ++ post → post.head?.getD 1 = a →
      ∃ (ps' : PState) (ss : List Nat) (s' : Nat) (rest' : List Nat), Steps cfg w ps ps' ∧
        ss.length = β.length ∧ ps'.states = ss ++ s :: rest ∧ ps'.states = s' :: rest' ∧
        (p, (G.body p).length, a) ∈ c[s']?.getD [] ∧ ps'.attrs.length = ps'.states.length ∧
        ps'.ntok = m + u.length + 1 ∧ ps'.next = scanTok w (m + u.length) := by
  subst hT
  induction hd with
  | nil =>
    intro p d a _ hβ hdl ps s rest m post hst hat hm hnt hnx _ _
    have : d = (G.body p).length := by
      have := congrArg List.length hβ
      simp at this
      omega
    subst this
    exact ⟨ps, [], s, rest, .refl ps, rfl, by simpa using hst, hst, hm, hat, by simpa using hnt,
      by simpa using hnx⟩
  | @term t α u' _ ih =>
    intro p d a hp hβ _ ps s rest m post hst hat hm hnt hnx hw ha
    obtain ⟨hX, hβ', hd'⟩ := drop_eq_cons hβ
    obtain ⟨s1, hact, hm1⟩ := F.kT s p d a t hm hX
    have hla : ps.next.2 = t := by rw [hnx, scanTok_snd, hw]; rfl
    have hstep : step cfg w ps = doAct cfg w (.shift s1) ps :=
      step_act hst (by rw [hla]; exact hact) (by rw [hla]; exact F.actLt _ _ _ hact)
    have hw1 : w.drop (m + 1) = u' ++ post := by
      rw [← List.drop_drop, hw]; rfl
    obtain ⟨ps', ss, s', rest', h1, h2, h3, h4, h5, h6, h7, h8⟩ :=
      ih p (d + 1) a hp hβ' hd'
        { ps with states := s1 :: ps.states, attrs := Attr.tok ps.next.1 ps.next.2 :: ps.attrs,
                  next := scanTok w ps.ntok, ntok := ps.ntok + 1 }
        s1 (s :: rest) (m + 1) post (by simp [hst]) (by simp [hat]) hm1 (by simp [hnt])
        (by simp [hnt]) hw1 ha
    refine ⟨ps', ss ++ [s1], s', rest', .head hstep h1, by simp [h2], by simp [h3], h4, h5, h6,
      ?_, ?_⟩
    · rw [h7]; simp; omega
    · rw [h8]; congr 1; simp; omega
  | @nt q α u v hq hb _ ih1 ih2 =>
    intro p d a hp hβ _ ps s rest m post hst hat hm hnt hnx hw ha
    obtain ⟨hX, hβ', hd'⟩ := drop_eq_cons hβ
    -- the look-ahead of the inner item
    have hb' : (v ++ post).head?.getD 1 ∈ firstOfSeq fc ((G.body p).drop (d + 1)) a := by
      rw [hβ', ← ha]
      exact mem_firstOfSeq_of_derives hf (by assumption) post
    have hmq := F.kC s p d a _ hm hX q hq rfl _ hb'
    have hwq : w.drop m = u ++ (v ++ post) := by rw [hw, List.append_assoc]
    obtain ⟨ps1, ss1, s1, rest1, a1, a2, a3, a4, a5, a6, a7, a8⟩ :=
      ih1 q 0 _ hq rfl (Nat.zero_le _) ps s rest m (v ++ post) hst hat hmq hnt hnx hwq rfl
    -- reduce by `q`
    have hq0 : q ≠ 0 := by
      intro h0
      apply F.noStart p hp
      rw [← h0]
      exact List.mem_of_getElem? hX
    have hw2 : w.drop (m + u.length) = v ++ post := by
      rw [← List.drop_drop, hwq]; simp
    have hact := F.kR s1 q _ a5
    rw [if_neg hq0] at hact
    have hla : ps1.next.2 = (v ++ post).head?.getD 1 := by rw [a8, scanTok_snd, hw2]
    have hstep : step cfg w ps1 = doAct cfg w (.reduce q) ps1 :=
      step_act a4 (by rw [hla]; exact hact) (by rw [hla]; exact F.actLt _ _ _ hact)
    obtain ⟨g, hg, hg0, hmg⟩ := F.kN s p d a _ hm hX
    obtain ⟨ps2, b1, b2, b3, b4, b5⟩ :=
      doAct_reduce hA w (F.prodLen q hq) (F.prodNT q hq) a3 (by simpa using a2) a6 hg hg0
    rw [b1] at hstep
    obtain ⟨ps3, ss3, s3, rest3, c1, c2, c3, c4, c5, c6, c7, c8⟩ :=
      ih2 p (d + 1) a hp hβ' hd' ps2 g.toNat (s :: rest) (m + u.length) post b2 b3 hmg
        (by rw [b5, a7]) (by rw [b4, a8]) hw2 ha
    refine ⟨ps3, ss3 ++ [g.toNat], s3, rest3, a1.trans (.head hstep c1), by simp [c2],
      by simp [c3], c4, c5, c6, ?_, ?_⟩
    · rw [c7]; simp; omega
    · rw [c8]; congr 1; simp; omega

/-! ### §5 acceptance -/

theorem parse_accepts {G : NGrammar} {T : PTables} {fc : FirstCert} {c : CertLA}
    (hf : firstOk G fc = true) (hc : complete G T fc c = true) {cfg : PCfg} (hA : ActsOk cfg)
    (hT : cfg.T = T) {w : List Nat} (hs : NSentence G w) (old : PState) :
    ∃ fuel r, (parse cfg w fuel old).1 = Outcome.accept r := by
  have F := completeFacts_of hc
  obtain ⟨S, hS⟩ := F.start
  have hp0 : 0 < G.prods.size := by
    by_cases h : 0 < G.prods.size
    · exact h
    · have : G.prods[0]? = none := Array.getElem?_eq_none (by omega)
      simp [NGrammar.body, this] at hS
  obtain ⟨ps', ss, s', rest', h1, -, h3, h4, h5, h6, -, h8⟩ :=
    run_item F hf hA hT w hs 0 0 1 hp0 rfl (Nat.zero_le _)
      { states := [0], attrs := [.nil], next := scanTok w 0, ntok := 1, log := [], calls := 0 }
      0 [] 0 [] rfl rfl F.k0 rfl rfl (by simp) rfl
  subst hT
  have hact := (F.kR s' 0 1 h5).2
  have hla : ps'.next.2 = 1 := by rw [h8, scanTok_snd]; simp
  have hstep : step cfg w ps' = doAct cfg w .accept ps' :=
    step_act h4 (by rw [hla]; exact hact) (by rw [hla]; exact F.actLt _ _ _ hact)
  obtain ⟨r, as, has⟩ : ∃ r as, ps'.attrs = r :: as := by
    rcases hps : ps'.attrs with _ | ⟨r, as⟩
    · rw [hps, h4] at h6; simp at h6
    · exact ⟨r, as, rfl⟩
  obtain ⟨n, hn⟩ := h1.parseLoop
  refine ⟨n + 1, r, ?_⟩
  unfold parse
  rw [hn 1, parseLoop_succ, hstep]
  simp only [doAct, has, StepR.run]

/-! ### §6 `ActsOk` is satisfiable: a decidable sufficient condition -/

theorem actsOk_of_kindsTotal {cfg : PCfg} (h0 : cfg.failAt = 0) (hk : kindsTotal cfg.T = true) :
    ActsOk cfg := by
  refine ⟨h0, fun p n hn X hX => ?_⟩
  have hp : p < cfg.T.prodLen.size := (Array.getElem?_eq_some_iff.mp hn).1
  simp only [kindsTotal, List.all_eq_true, List.mem_range] at hk
  have := hk p hp
  rw [hn] at this
  generalize cfg.T.prodKind[p]?.getD .dflt = kd at this ⊢
  rcases kd with _ | _ | ⟨shape, id⟩
  · simp only [Option.getD_some, bne_iff_ne, ne_eq] at this
    simp only [kindOk]
    intro hX'
    subst hX'
    exact this hX.symm
  · trivial
  · simp only [Option.getD_some, Bool.or_eq_true, Bool.and_eq_true, beq_iff_eq, bne_iff_ne,
      ne_eq] at this
    simp only [kindOk]
    rcases this with ((rfl | rfl) | rfl) | ⟨rfl | rfl, hn0⟩
    · exact ⟨_, rfl⟩
    · exact ⟨_, rfl⟩
    · exact ⟨_, rfl⟩
    · rcases X with _ | ⟨x, X⟩
      · exact absurd hX.symm hn0
      · exact ⟨_, rfl⟩
    · rcases hl : X.getLast? with _ | x
      · rw [List.getLast?_eq_none_iff] at hl
        subst hl
        exact absurd hX.symm hn0
      · exact ⟨.node id [x], by simp [userAction, hl]⟩

end Gocc
