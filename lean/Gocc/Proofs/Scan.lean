import Gocc.Spec.Pos
/-
Proofs for C08 / C16 (lexer half): the position rule, the loop invariant of `Scan`,
and the sequence of cursors `scanStates`.
-/
namespace Gocc

/-! ### `decodeRune` facts -/

theorem decodeRune_size_le (l : List Nat) (h : l ≠ []) : (decodeRune l).2 ≤ l.length := by
  unfold decodeRune
  repeat' split
  all_goals (try dsimp only)
  all_goals (try (split <;> dsimp only))
  all_goals (first | exact absurd rfl h | (simp only [List.length_cons]; omega))

/-- `DecodeRune` never returns the end-of-input marker `-1` -/
theorem decodeRune_nonneg (l : List Nat) : 0 ≤ (decodeRune l).1 := by
  unfold decodeRune
  repeat' split
  all_goals (try dsimp only)
  all_goals (try (split <;> dsimp only))
  all_goals (first | (simp [runeError]; done) | omega)

theorem decodeRune_ne_neg1 (l : List Nat) : (decodeRune l).1 ≠ -1 := by
  have := decodeRune_nonneg l; omega

/-! ### (P0) the recursive position rule equals the declarative one -/

theorem lineOf_snoc (rs : List Int) (r : Int) :
    lineOf (rs ++ [r]) = (advLC r (lineOf rs) (colOf rs)).1 := by
  unfold lineOf advLC
  simp only [List.count_append, List.count_cons, List.count_nil]
  repeat' split
  all_goals simp_all
  all_goals omega

theorem colOf_snoc (rs : List Int) (r : Int) :
    colOf (rs ++ [r]) = (advLC r (lineOf rs) (colOf rs)).2 := by
  unfold colOf colAdv advLC
  simp only [List.foldl_append, List.foldl_cons, List.foldl_nil]
  repeat' split
  all_goals simp_all
  all_goals omega

theorem reachR_line_col {src : List Nat} {st : LexSt} {rs : List Int} (h : ReachR src st rs) :
    st.line = lineOf rs ∧ st.col = colOf rs := by
  induction h with
  | zero => exact ⟨rfl, rfl⟩
  | step _ _ ih =>
    obtain ⟨h1, h2⟩ := ih
    simp only [lcStep, lineOf_snoc, colOf_snoc, h1, h2, and_self]

theorem reachR_pos_le {src : List Nat} {st : LexSt} {rs : List Int} (h : ReachR src st rs) :
    st.pos ≤ src.length := by
  induction h with
  | zero => exact Nat.zero_le _
  | @step st rs _ hlt ih =>
    have hne : src.drop st.pos ≠ [] := by
      intro h0; have := congrArg List.length h0; simp at this; omega
    have := decodeRune_size_le _ hne
    simp only [List.length_drop] at this
    simp only [lcStep]
    omega

theorem Reach.pos_le {src : List Nat} {st : LexSt} (h : Reach src st) : st.pos ≤ src.length := by
  obtain ⟨rs, h⟩ := h; exact reachR_pos_le h

theorem Reach.zero (src : List Nat) : Reach src newLexer := ⟨[], ReachR.zero⟩

/-- reading one rune from a reachable cursor gives a reachable cursor -/
theorem Reach.step {src : List Nat} {p l c : Nat} (h : Reach src ⟨p, l, c⟩) (hlt : p < src.length) :
    Reach src ⟨p + (decodeRune (src.drop p)).2,
               (advLC (decodeRune (src.drop p)).1 l c).1, (advLC (decodeRune (src.drop p)).1 l c).2⟩ := by
  obtain ⟨rs, h⟩ := h
  exact ⟨_, ReachR.step h hlt⟩

/-! ### a reachable triple is determined by its offset -/

theorem lcStep_pos_lt (src : List Nat) (st : LexSt) (h : st.pos < src.length) :
    st.pos < (lcStep src st).pos := by
  have hw := decodeRune_size_pos (src.drop st.pos) (by
    intro h0; have := congrArg List.length h0; simp at this; omega)
  simp only [lcStep]; omega

theorem reachR_mono_aux {src : List Nat} {st' : LexSt} {rs' : List Int} (h' : ReachR src st' rs') :
    ∀ {st : LexSt} {rs : List Int}, ReachR src st rs → rs.length ≤ rs'.length →
      (rs.length = rs'.length → st = st' ∧ rs = rs') ∧ (rs.length < rs'.length → st.pos < st'.pos) := by
  induction h' with
  | zero =>
    intro st rs h hle
    cases h with
    | zero => exact ⟨fun _ => ⟨rfl, rfl⟩, fun hlt => by simp at hlt⟩
    | step _ _ => simp at hle
  | @step st1 rs1 h1 hlt1 ih =>
    intro st rs h hle
    have hpos := lcStep_pos_lt src st1 hlt1
    by_cases hc : rs.length ≤ rs1.length
    · obtain ⟨heq, hlt⟩ := ih h hc
      refine ⟨fun he => by simp at he; omega, fun _ => ?_⟩
      by_cases hc' : rs.length = rs1.length
      · rw [(heq hc').1]; exact hpos
      · exact Nat.lt_trans (hlt (by omega)) hpos
    · cases h with
      | zero => simp at hc
      | @step st0 rs0 h0 hlt0 =>
        simp only [List.length_append, List.length_cons, List.length_nil] at hc hle ⊢
        obtain ⟨heq, _⟩ := ih h0 (by omega)
        obtain ⟨e1, e2⟩ := heq (by omega)
        subst e1 e2
        exact ⟨fun _ => ⟨rfl, rfl⟩, fun hlt => by omega⟩

/-- two reachable triples with the same offset are equal (and were reached by the same runes):
    line and column are a function of the offset -/
theorem reachR_unique {src : List Nat} {st st' : LexSt} {rs rs' : List Int}
    (h : ReachR src st rs) (h' : ReachR src st' rs') (hp : st.pos = st'.pos) : st = st' ∧ rs = rs' := by
  rcases Nat.lt_trichotomy rs.length rs'.length with hlt | heq | hgt
  · have := (reachR_mono_aux h' h (by omega)).2 hlt; omega
  · exact (reachR_mono_aux h' h (by omega)).1 heq
  · have := (reachR_mono_aux h h' (by omega)).2 hgt; omega

theorem Reach.unique {src : List Nat} {st st' : LexSt} (h : Reach src st) (h' : Reach src st')
    (hp : st.pos = st'.pos) : st = st' := by
  obtain ⟨rs, h⟩ := h; obtain ⟨rs', h'⟩ := h'
  exact (reachR_unique h h' hp).1

/-! ### one pass of the loop, by cases -/

/-- at end of input the pass ends the loop; an INVALID token records `end_ = pos` -/
theorem iter_eof (T : LexTables) (src : List Nat) (L : Loop) (h : src.length ≤ L.pos) :
    iter T src L =
      if L.typ = tokINVALID then { L with end_ := L.pos, state := -1 } else { L with state := -1 } := by
  have hge : L.pos ≥ src.length := h
  unfold iter
  simp only [hge, if_true, ne_eq, not_true_eq_false, if_false]

theorem iter_state_eof (T : LexTables) (src : List Nat) (L : Loop) (h : ¬ L.pos < src.length) :
    (iter T src L).state = -1 := by
  rw [iter_eof T src L (by omega)]; split <;> rfl

/-- before end of input: the pass reads the rune `r` of width `w` at `pos` -/
theorem iter_lt (T : LexTables) (src : List Nat) (L : Loop) (h : L.pos < src.length) :
    iter T src L =
      let r := (decodeRune (src.drop L.pos)).1
      let pos := L.pos + (decodeRune (src.drop L.pos)).2
      let next := T.trans L.state.toNat r
      let lc := advLC r L.line L.col
      if next ≠ -1 then
        if T.accept next.toNat ≠ -1 then
          { L with pos := pos, line := lc.1, col := lc.2, typ := T.accept next.toNat, end_ := pos, state := next }
        else if T.ignore next.toNat then
          { L with pos := pos, line := lc.1, col := lc.2, start := pos, startLine := lc.1, startCol := lc.2,
                   state := 0, typ := if pos ≥ src.length then tokEOF else tokINVALID }
        else
          { L with pos := pos, line := lc.1, col := lc.2, state := next }
      else if L.typ = tokINVALID then
        { L with pos := pos, line := lc.1, col := lc.2, end_ := pos, state := -1 }
      else
        { L with pos := pos, state := -1 } := by
  have hge : ¬ (L.pos ≥ src.length) := by omega
  have hr := decodeRune_ne_neg1 (src.drop L.pos)
  unfold iter
  simp only [hge, if_false, ne_eq, hr, not_false_eq_true, if_true]

/-! ### the loop invariant -/

/-- Invariant of `for state != -1` while the automaton is live (`s0` = cursor offset at entry of
    `Scan`): cursor and token start are reachable triples, and either the last pass recorded
    `(typ, end_)` with `end_ = pos`, or nothing has been read since the (re)start. -/
structure ScanInv (src : List Nat) (s0 : Nat) (L : Loop) : Prop where
  rc : Reach src ⟨L.pos, L.line, L.col⟩
  rs : Reach src ⟨L.start, L.startLine, L.startCol⟩
  s0 : s0 ≤ L.start
  alt : (L.end_ = L.pos ∧ L.start < L.pos) ∨
        (L.pos = L.start ∧ L.end_ ≤ L.start ∧ (L.pos < src.length → L.typ = tokINVALID))

/-- What holds when the loop has ended (`state = -1`): if a lexeme was recorded
    (`end_ > start`) the consistent cursor is `⟨end_, line, col⟩`, otherwise it is
    `⟨pos, line, col⟩`, nothing was read after the last restart and the input is exhausted. -/
structure ScanPost (src : List Nat) (s0 : Nat) (L : Loop) : Prop where
  rs : Reach src ⟨L.start, L.startLine, L.startCol⟩
  s0 : s0 ≤ L.start
  hi : L.end_ > L.start → Reach src ⟨L.end_, L.line, L.col⟩
  lo : ¬ L.end_ > L.start → Reach src ⟨L.pos, L.line, L.col⟩ ∧ L.pos = L.start ∧ src.length ≤ L.pos

def ScanGood (src : List Nat) (s0 : Nat) (L : Loop) : Prop :=
  if L.state = -1 then ScanPost src s0 L else ScanInv src s0 L

theorem iter_good {T : LexTables} (hT : TWF T) {src : List Nat} {s0 : Nat} {L : Loop}
    (h : ScanInv src s0 L) : ScanGood src s0 (iter T src L) := by
  obtain ⟨rc, rs, hs0, alt⟩ := h
  by_cases hlt : L.pos < src.length
  · have hstep := Reach.step rc hlt
    have hw := decodeRune_size_pos (src.drop L.pos) (by
      intro h0; have := congrArg List.length h0; simp at this; omega)
    rw [iter_lt T src L hlt]
    dsimp only
    split
    · -- live transition
      rename_i hnext
      split
      · -- accept
        unfold ScanGood; rw [if_neg hnext]
        exact ⟨hstep, rs, hs0, Or.inl ⟨rfl, by dsimp only; omega⟩⟩
      · rename_i hacc
        have hacc' : T.accept (T.trans L.state.toNat (decodeRune (src.drop L.pos)).1).toNat = -1 := by
          simpa using hacc
        rw [if_pos (hT _ hacc')]
        unfold ScanGood; rw [if_neg (by dsimp only; decide)]
        refine ⟨hstep, hstep, by dsimp only; omega, Or.inr ⟨rfl, ?_, ?_⟩⟩
        · dsimp only; omega
        · dsimp only; intro hp; rw [if_neg (by omega)]
    · -- dead: the loop ends
      split
      · rename_i htyp
        unfold ScanGood; rw [if_pos rfl]
        refine ⟨rs, hs0, fun _ => hstep, fun hn => ?_⟩
        dsimp only at hn; omega
      · rename_i htyp
        unfold ScanGood; rw [if_pos rfl]
        rcases alt with ⟨he, hsp⟩ | ⟨hps, hes, hty⟩
        · refine ⟨rs, hs0, fun _ => ?_, fun hn => ?_⟩
          · dsimp only; rw [he]; exact rc
          · dsimp only at hn; omega
        · exact absurd (hty hlt) htyp
  · have hle : src.length ≤ L.pos := by omega
    rw [iter_eof T src L hle]
    split
    · unfold ScanGood; rw [if_pos rfl]
      refine ⟨rs, hs0, fun hgt => ?_, fun hn => ?_⟩
      · dsimp only at hgt ⊢; exact rc
      · dsimp only at hn ⊢
        rcases alt with ⟨he, hsp⟩ | ⟨hps, hes, hty⟩
        · omega
        · exact ⟨rc, hps, hle⟩
    · unfold ScanGood; rw [if_pos rfl]
      rcases alt with ⟨he, hsp⟩ | ⟨hps, hes, hty⟩
      · refine ⟨rs, hs0, fun _ => ?_, fun hn => ?_⟩
        · dsimp only; rw [he]; exact rc
        · dsimp only at hn; omega
      · refine ⟨rs, hs0, fun hgt => ?_, fun _ => ⟨rc, hps, hle⟩⟩
        dsimp only at hgt; omega

theorem loop_post {T : LexTables} (hT : TWF T) {src : List Nat} {s0 : Nat} (L : Loop)
    (h : ScanGood src s0 L) : ScanPost src s0 (loop T src L) := by
  fun_induction loop T src L with
  | case1 L hs => unfold ScanGood at h; rwa [if_pos hs] at h
  | case2 L hs hlt ih =>
    unfold ScanGood at h; rw [if_neg hs] at h
    exact ih (iter_good hT h)
  | case3 L hs hlt =>
    unfold ScanGood at h; rw [if_neg hs] at h
    have := iter_good (T := T) hT h
    unfold ScanGood at this; rwa [if_pos (iter_state_eof T src L hlt)] at this

/-! ### one call of `Scan` -/

/-- the loop variables at entry of `Scan` -/
def loop0 (st : LexSt) : Loop :=
  { pos := st.pos, line := st.line, col := st.col, start := st.pos,
    startLine := st.line, startCol := st.col, end_ := 0, typ := tokINVALID, state := 0 }

theorem scan_eof (T : LexTables) (src : List Nat) (st : LexSt) (h : st.pos ≥ src.length) :
    scan T src st =
      ({ typ := tokEOF, litStart := 0, litEnd := 0, offset := st.pos, line := st.line, col := st.col }, st) := by
  unfold scan; rw [if_pos h]

theorem scan_lt (T : LexTables) (src : List Nat) (st : LexSt) (h : st.pos < src.length) :
    scan T src st =
      let L := loop T src (loop0 st)
      if L.end_ > L.start then
        ({ typ := L.typ, litStart := L.start, litEnd := L.end_, offset := L.start,
           line := L.startLine, col := L.startCol }, ⟨L.end_, L.line, L.col⟩)
      else
        ({ typ := L.typ, litStart := 0, litEnd := 0, offset := L.start,
           line := L.startLine, col := L.startCol }, ⟨L.pos, L.line, L.col⟩) := by
  unfold scan; rw [if_neg (by omega)]; rfl

theorem loop0_good {src : List Nat} {st : LexSt} (h : Reach src st) : ScanGood src st.pos (loop0 st) := by
  unfold ScanGood; rw [if_neg (by unfold loop0; dsimp only; decide)]
  exact ⟨h, h, Nat.le_refl _, Or.inr ⟨rfl, Nat.zero_le _, fun _ => rfl⟩⟩

/-- everything C08 says about one call, in one statement -/
theorem scan_spec {T : LexTables} (hT : TWF T) {src : List Nat} {st : LexSt} (h : Reach src st) :
    Reach src (scan T src st).2 ∧
    Reach src ⟨(scan T src st).1.offset, (scan T src st).1.line, (scan T src st).1.col⟩ ∧
    st.pos ≤ (scan T src st).1.offset ∧
    (scan T src st).1.offset ≤ (scan T src st).2.pos ∧
    ((scan T src st).1.litStart < (scan T src st).1.litEnd →
        (scan T src st).1.litStart = (scan T src st).1.offset ∧
        (scan T src st).1.litEnd = (scan T src st).2.pos) ∧
    (¬ (scan T src st).1.litStart < (scan T src st).1.litEnd →
        (scan T src st).1.offset = (scan T src st).2.pos) ∧
    (st.pos < src.length → st.pos < (scan T src st).2.pos) := by
  by_cases hlt : st.pos < src.length
  · obtain ⟨rs, hs0, hi, lo⟩ := loop_post (T := T) hT _ (loop0_good h)
    rw [scan_lt T src st hlt]
    dsimp only
    split
    · rename_i hgt
      dsimp only
      refine ⟨hi hgt, rs, hs0, by omega, fun _ => ⟨rfl, rfl⟩, fun hn => by omega, fun _ => by omega⟩
    · rename_i hgt
      obtain ⟨rc, hps, hle⟩ := lo hgt
      dsimp only
      refine ⟨rc, rs, hs0, by omega, fun hn => by omega, fun _ => hps.symm, fun _ => by omega⟩
  · rw [scan_eof T src st (by omega)]
    dsimp only
    refine ⟨h, h, Nat.le_refl _, Nat.le_refl _, fun hn => by omega, fun _ => rfl, fun hn => by omega⟩

/-! ### the sequence of cursors -/

/-- the cursor after `k` calls of `Scan` on a lexer started in state `st` -/
def scanStatesFrom (T : LexTables) (src : List Nat) (st : LexSt) : Nat → LexSt
  | 0 => st
  | k + 1 => (scan T src (scanStatesFrom T src st k)).2

/-- the cursor after `k` calls of `Scan` on a new lexer -/
def scanStates (T : LexTables) (src : List Nat) (k : Nat) : LexSt := scanStatesFrom T src newLexer k

/-- the token returned by call number `k` (counting from 0) on a new lexer -/
def scanTokAt (T : LexTables) (src : List Nat) (k : Nat) : Tok := (scan T src (scanStates T src k)).1

theorem scanStates_zero (T : LexTables) (src : List Nat) : scanStates T src 0 = newLexer := rfl

theorem scanStates_succ (T : LexTables) (src : List Nat) (k : Nat) :
    scanStates T src (k + 1) = (scan T src (scanStates T src k)).2 := rfl

theorem scanStatesFrom_succ' (T : LexTables) (src : List Nat) (st : LexSt) (k : Nat) :
    scanStatesFrom T src st (k + 1) = scanStatesFrom T src (scan T src st).2 k := by
  induction k with
  | zero => rfl
  | succ k ih => rw [scanStatesFrom, ih]; rfl

/-- `scanN` lists the tokens of the successive calls -/
theorem scanN_getElem? (T : LexTables) (src : List Nat) (k : Nat) (st : LexSt) (i : Nat) (hi : i < k) :
    (scanN T src k st)[i]? = some (scan T src (scanStatesFrom T src st i)).1 := by
  induction k generalizing st i with
  | zero => omega
  | succ k ih =>
    cases i with
    | zero => simp [scanN, scanStatesFrom]
    | succ i =>
      simp only [scanN, List.getElem?_cons_succ]
      rw [ih _ i (by omega), scanStatesFrom_succ']

theorem scanN_length (T : LexTables) (src : List Nat) (k : Nat) (st : LexSt) :
    (scanN T src k st).length = k := by
  induction k generalizing st with
  | zero => rfl
  | succ k ih => simp [scanN, ih]

theorem scanStates_reach {T : LexTables} (hT : TWF T) (src : List Nat) (k : Nat) :
    Reach src (scanStates T src k) := by
  induction k with
  | zero => exact Reach.zero src
  | succ k ih => rw [scanStates_succ]; exact (scan_spec hT ih).1

/-! ### end of input is absorbing -/

theorem scanN_eof (T : LexTables) (src : List Nat) (st : LexSt) (h : st.pos ≥ src.length) (k : Nat) :
    scanN T src k st = List.replicate k
      { typ := tokEOF, litStart := 0, litEnd := 0, offset := st.pos, line := st.line, col := st.col } := by
  induction k with
  | zero => rfl
  | succ k ih => simp only [scanN, scan_eof T src st h, ih, List.replicate_succ]

theorem scanStatesFrom_eof (T : LexTables) (src : List Nat) (st : LexSt) (h : st.pos ≥ src.length) (k : Nat) :
    scanStatesFrom T src st k = st := by
  induction k with
  | zero => rfl
  | succ k ih => rw [scanStatesFrom, ih, scan_eof T src st h]

theorem scanStatesFrom_add (T : LexTables) (src : List Nat) (st : LexSt) (k j : Nat) :
    scanStatesFrom T src st (k + j) = scanStatesFrom T src (scanStatesFrom T src st k) j := by
  induction j with
  | zero => rfl
  | succ j ih => rw [← Nat.add_assoc, scanStatesFrom, ih]; rfl

/-! ### `loop` with fuel (structural recursion, so that closed examples can be evaluated) -/

def loopFuel (T : LexTables) (src : List Nat) : Nat → Loop → Loop
  | 0, L => L
  | n + 1, L => if L.state = -1 then L else loopFuel T src n (iter T src L)

theorem loop_eq_fuel (T : LexTables) (src : List Nat) (L : Loop) (n : Nat)
    (hn : src.length - L.pos + 1 ≤ n) : loop T src L = loopFuel T src n L := by
  fun_induction loop T src L generalizing n with
  | case1 L hs =>
    cases n with
    | zero => rfl
    | succ n => rw [loopFuel, if_pos hs]
  | case2 L hs hlt ih =>
    cases n with
    | zero => omega
    | succ n =>
      rw [loopFuel, if_neg hs]
      have := iter_pos_lt T src L hlt
      exact ih n (by omega)
  | case3 L hs hlt =>
    cases n with
    | zero => omega
    | succ n =>
      rw [loopFuel, if_neg hs]
      have := iter_state_eof T src L hlt
      cases n with
      | zero => rfl
      | succ n => rw [loopFuel, if_pos this]

/-- `scan` with the fuelled loop -/
def scanF (T : LexTables) (src : List Nat) (st : LexSt) : Tok × LexSt :=
  if st.pos ≥ src.length then
    ({ typ := tokEOF, litStart := 0, litEnd := 0, offset := st.pos, line := st.line, col := st.col }, st)
  else
    let L := loopFuel T src (src.length - st.pos + 1) (loop0 st)
    if L.end_ > L.start then
      ({ typ := L.typ, litStart := L.start, litEnd := L.end_, offset := L.start, line := L.startLine, col := L.startCol },
       ⟨L.end_, L.line, L.col⟩)
    else
      ({ typ := L.typ, litStart := 0, litEnd := 0, offset := L.start, line := L.startLine, col := L.startCol },
       ⟨L.pos, L.line, L.col⟩)

theorem scan_eq_scanF (T : LexTables) (src : List Nat) (st : LexSt) : scan T src st = scanF T src st := by
  by_cases hlt : st.pos < src.length
  · rw [scan_lt T src st hlt, loop_eq_fuel T src (loop0 st) (src.length - st.pos + 1) (Nat.le_refl _)]
    have hge : ¬ st.pos ≥ src.length := by omega
    unfold scanF; rw [if_neg hge]
  · rw [scan_eof T src st (by omega)]; unfold scanF; rw [if_pos (by omega)]

def scanNF (T : LexTables) (src : List Nat) : Nat → LexSt → List Tok
  | 0, _ => []
  | k + 1, st => let r := scanF T src st; r.1 :: scanNF T src k r.2

theorem scanN_eq_scanNF (T : LexTables) (src : List Nat) (k : Nat) (st : LexSt) :
    scanN T src k st = scanNF T src k st := by
  induction k generalizing st with
  | zero => rfl
  | succ k ih => simp only [scanN, scanNF, scan_eq_scanF, ih]

end Gocc
