import Gocc.Proofs.GenCompleteItems
import Gocc.Props.C09
import Gocc.Proofs.LoopsTerminateCount
/-
Termination of the UNBOUNDED loop of `GetItemSets` (internal/parser/lr1/items/itemsets.go),
modelled by `lrLoop` on fuel.

  §1  the finite universe of LR(1) items `(p, d, la)`
  §2  invariant `TInv`: every state is a duplicate-free list over the universe and an earlier state
      never passes the `Equal` test (`sameItems`) against a later one; hence `size ≤ 2 ^ |U|`
  §3  `Ext` / `Done` without the side conditions of `LRInv` (no `NamesOk`)
  §4  fuel: stability and monotonicity of `lrLoop`
  §5  assembly
-/
namespace Gocc.LoopsT
open Gocc.GenComplete

/-! ## §1 universe -/

/-- all items `(p, d, la)` with `p` a production index, `d ≤ Len(p)`, `la` a symbol or "empty" -/
def itemUniv (C : LRCtx) : List Item :=
  (List.range C.prods.size).flatMap fun p =>
    (List.range (prodLen C.prods[p]! + 1)).flatMap fun d =>
      (firstU C.S).map fun la => ⟨p, d, la⟩

theorem mem_itemUniv {C : LRCtx} {x : Item} :
    x ∈ itemUniv C ↔ x.p < C.prods.size ∧ x.d ≤ C.len x ∧ x.la ∈ firstU C.S := by
  unfold itemUniv LRCtx.len
  simp only [List.mem_flatMap, List.mem_range, List.mem_map]
  constructor
  · rintro ⟨p, hp, d, hd, la, hla, rfl⟩
    exact ⟨hp, by dsimp only; omega, hla⟩
  · rintro ⟨h1, h2, h3⟩
    exact ⟨x.p, h1, x.d, by omega, x.la, h3, by cases x; rfl⟩

/-- the universe of the states reachable from the kernel `K` -/
def stateUniv (C : LRCtx) (K : List Item) : List Item := K ++ itemUniv C

theorem closure_sub_univ {C : LRCtx} {K : List Item} (hW : WFc C K) :
    ∀ x ∈ closure C K, x ∈ stateUniv C K := by
  intro x hx
  obtain ⟨h1, h2⟩ := C09_closure_universe hW x hx
  unfold stateUniv
  rcases h1 with h1 | ⟨h3, h4, _⟩
  · exact List.mem_append_left _ h1
  · exact List.mem_append_right _ (mem_itemUniv.2 ⟨h3, by omega, h2⟩)

theorem univ_la {C : LRCtx} {K : List Item} (hW : WFc C K) :
    ∀ x ∈ stateUniv C K, x.la ∈ firstU C.S := by
  intro x hx
  rcases List.mem_append.1 hx with h | h
  · exact hW.la x h
  · exact (mem_itemUniv.1 h).2.2

theorem goto_sub_univ {C : LRCtx} {K : List Item} (hW : WFc C K) (I : List Item) (X : String)
    (hI : ∀ i ∈ I, i ∈ stateUniv C K) : ∀ j ∈ goto C I X, j ∈ stateUniv C K := by
  intro j hj
  have hla := (C09_goto_closed hW (fun i hi => univ_la hW i (hI i hi)) X).2 j hj
  obtain ⟨h1, h2⟩ := goto_itemOk hj
  exact List.mem_append_right _ (mem_itemUniv.2 ⟨h1, h2, hla⟩)

/-! ## §2 the counting invariant -/

theorem sameItems_eq_sameList (a b : List Item) : sameItems a b = sameList a b := rfl

structure TInv (U : List Item) (sets : Array LRState) : Prop where
  sub : ∀ (j : Nat) (st : LRState), sets[j]? = some st → ∀ x ∈ st.items, x ∈ U
  nodup : ∀ (j : Nat) (st : LRState), sets[j]? = some st → st.items.Nodup
  dist : ∀ (j k : Nat) (sj sk : LRState), j < k → sets[j]? = some sj → sets[k]? = some sk →
    sameItems sj.items sk.items = false

theorem TInv.size_le {U : List Item} {sets : Array LRState} (h : TInv U sets) :
    sets.size ≤ 2 ^ U.length := by
  have := length_le_two_pow U (fun st : LRState => st.items) sets.toList
    (by
      intro a ha
      obtain ⟨j, hj, rfl⟩ := List.mem_iff_getElem.1 ha
      have hj' : j < sets.size := by simpa using hj
      exact h.sub j _ (by simp [hj']))
    (by
      intro a ha
      obtain ⟨j, hj, rfl⟩ := List.mem_iff_getElem.1 ha
      have hj' : j < sets.size := by simpa using hj
      exact h.nodup j _ (by simp [hj']))
    (by
      rw [List.pairwise_iff_getElem]
      intro i j hi hj hij
      have hi' : i < sets.size := by simpa using hi
      have hj' : j < sets.size := by simpa using hj
      rw [← sameItems_eq_sameList]
      exact h.dist i j _ _ hij (by simp [hi']) (by simp [hj']))
  simpa using this

theorem TInv.modify {U : List Item} {sets : Array LRState} (h : TInv U sets) (i : Nat)
    (X : String) (idx : Nat) :
    TInv U (sets.modify i fun s => { s with trans := s.trans ++ [(X, idx)] }) := by
  refine ⟨?_, ?_, ?_⟩
  · intro j st' hj
    obtain ⟨st, g1, g2, _⟩ := modify_get hj
    rw [g2]; exact h.sub j st g1
  · intro j st' hj
    obtain ⟨st, g1, g2, _⟩ := modify_get hj
    rw [g2]; exact h.nodup j st g1
  · intro j k sj sk hjk hj hk
    obtain ⟨st1, g1, g2, _⟩ := modify_get hj
    obtain ⟨st2, k1, k2, _⟩ := modify_get hk
    rw [g2, k2]; exact h.dist j k st1 st2 hjk g1 k1

theorem push_get {sets : Array LRState} {s st : LRState} {j : Nat}
    (h : (sets.push s)[j]? = some st) : (j < sets.size ∧ sets[j]? = some st) ∨ (j = sets.size ∧ st = s) := by
  rw [Array.getElem?_push] at h
  split at h
  · rename_i hj; cases h; exact .inr ⟨hj, rfl⟩
  · have := (Array.getElem?_eq_some_iff.1 h).1
    exact .inl ⟨this, h⟩

theorem TInv.push {U : List Item} {sets : Array LRState} (h : TInv U sets) (s : LRState)
    (hs : ∀ x ∈ s.items, x ∈ U) (hn : s.items.Nodup)
    (hd : ∀ st ∈ sets, sameItems st.items s.items = false) : TInv U (sets.push s) := by
  refine ⟨?_, ?_, ?_⟩
  · intro j st hj
    rcases push_get hj with ⟨_, g⟩ | ⟨_, rfl⟩
    · exact h.sub j st g
    · exact hs
  · intro j st hj
    rcases push_get hj with ⟨_, g⟩ | ⟨_, rfl⟩
    · exact h.nodup j st g
    · exact hn
  · intro j k sj sk hjk hj hk
    rcases push_get hk with ⟨hlt, g⟩ | ⟨hke, rfl⟩
    · rcases push_get hj with ⟨_, g'⟩ | ⟨hje, _⟩
      · exact h.dist j k sj sk hjk g' g
      · omega
    · rcases push_get hj with ⟨_, g'⟩ | ⟨hje, _⟩
      · exact hd sj (Array.mem_of_getElem? g')
      · omega

theorem expStep_tinv {C : LRCtx} {U : List Item}
    (hg : ∀ I X, (∀ i ∈ I, i ∈ U) → ∀ j ∈ goto C I X, j ∈ U) (i : Nat) (sets : Array LRState)
    (X : String) (h : TInv U sets) : TInv U (expStep C i sets X) := by
  have hsub : ∀ x ∈ sets[i]!.items, x ∈ U := by
    by_cases hi : i < sets.size
    · rw [getElem!_pos sets i hi]
      exact h.sub i sets[i] (Array.getElem?_eq_getElem hi)
    · rw [getElem!_neg sets i hi]
      intro x hx; cases hx
  have hgt := hg _ X hsub
  unfold expStep
  dsimp only
  split
  · exact h
  · split
    · exact h.modify i X _
    · rename_i hf
      exact (h.push _ hgt (goto_nodup C _ X) (Array.findIdx?_eq_none_iff.1 hf)).modify i X _

theorem lrExpand_tinv {C : LRCtx} {U : List Item}
    (hg : ∀ I X, (∀ i ∈ I, i ∈ U) → ∀ j ∈ goto C I X, j ∈ U) (i : Nat) (sets : Array LRState)
    (h : TInv U sets) : TInv U (lrExpand C sets i) := by
  rw [lrExpand_eq]
  generalize C.S.typeMap = l
  induction l generalizing sets with
  | nil => exact h
  | cons X l ih =>
    rw [List.foldl_cons]
    exact ih _ (expStep_tinv hg i sets X h)

theorem lrLoop_tinv {C : LRCtx} {U : List Item}
    (hg : ∀ I X, (∀ i ∈ I, i ∈ U) → ∀ j ∈ goto C I X, j ∈ U) :
    ∀ (fuel i : Nat) (sets : Array LRState), TInv U sets → TInv U (lrLoop C fuel i sets) := by
  intro fuel
  induction fuel with
  | zero => intro i sets h; exact h
  | succ fuel ih =>
    intro i sets h
    simp only [lrLoop]
    split
    · exact ih _ _ (lrExpand_tinv hg i sets h)
    · exact h

theorem tinv_init {C : LRCtx} {K : List Item} (hW : WFc C K) :
    TInv (stateUniv C K) #[{ items := closure C K }] := by
  have hget : ∀ (j : Nat) (st : LRState),
      (#[{ items := closure C K }] : Array LRState)[j]? = some st →
      j = 0 ∧ st.items = closure C K := by
    intro j st hj
    have hlt := (Array.getElem?_eq_some_iff.1 hj).1
    have hj0 : j = 0 := by simp at hlt; omega
    subst hj0
    simp at hj
    subst hj
    exact ⟨rfl, rfl⟩
  refine ⟨?_, ?_, ?_⟩
  · intro j st hj
    rw [(hget j st hj).2]; exact closure_sub_univ hW
  · intro j st hj
    rw [(hget j st hj).2]; exact C09_closure_nodup C K
  · intro j k sj sk hjk hj hk
    have := (hget j sj hj).1
    have := (hget k sk hk).1
    omega

/-! ## §3 `Ext` and `Done` without side conditions -/

theorem expStep_ext (C : LRCtx) (i : Nat) (sets : Array LRState) (X : String) :
    Ext sets (expStep C i sets X) := by
  unfold expStep
  dsimp only
  split
  · exact Ext.refl _
  · split
    · exact Ext.modify _ _ _ _
    · exact (Ext.push _ _).trans (Ext.modify _ _ _ _)

theorem fold_ext (C : LRCtx) (i : Nat) : ∀ (l : List String) (sets : Array LRState),
    Ext sets (l.foldl (expStep C i) sets) := by
  intro l
  induction l with
  | nil => intro sets; exact Ext.refl _
  | cons X l ih =>
    intro sets
    rw [List.foldl_cons]
    exact (expStep_ext C i sets X).trans (ih _)

theorem lrExpand_ext (C : LRCtx) (sets : Array LRState) (i : Nat) : Ext sets (lrExpand C sets i) := by
  rw [lrExpand_eq]
  exact fold_ext C i _ sets

theorem lrLoop_ext (C : LRCtx) : ∀ (fuel i : Nat) (sets : Array LRState),
    Ext sets (lrLoop C fuel i sets) := by
  intro fuel
  induction fuel with
  | zero => intro i sets; exact Ext.refl _
  | succ fuel ih =>
    intro i sets
    simp only [lrLoop]
    split
    · exact (lrExpand_ext C sets i).trans (ih _ _)
    · exact Ext.refl _

/-- state `j` has been processed: for every symbol `X` with a non-empty `goto` set the transition
    `(X, idx)` is recorded and state `idx` is that `goto` set (up to order) -/
def Done (C : LRCtx) (sets : Array LRState) (j : Nat) : Prop :=
  ∀ st : LRState, sets[j]? = some st → ∀ X ∈ C.S.typeMap, goto C st.items X ≠ [] →
    ∃ idx sx, (X, idx) ∈ st.trans ∧ sets[idx]? = some sx ∧
      sameItems sx.items (goto C st.items X) = true

theorem Done.ext {C : LRCtx} {a b : Array LRState} {j : Nat} (hj : j < a.size)
    (h : Done C a j) (hE : Ext a b) : Done C b j := by
  intro st' hst' X hX hne
  obtain ⟨st2, g1, g2, g3⟩ := hE j a[j] (Array.getElem?_eq_getElem hj)
  rw [hst'] at g1
  cases g1
  obtain ⟨idx, sx, h1, h2, h3⟩ := h a[j] (Array.getElem?_eq_getElem hj) X hX (by rw [← g2]; exact hne)
  obtain ⟨sx', k1, k2, _⟩ := hE idx sx h2
  exact ⟨idx, sx', g3 _ h1, k1, by rw [k2, g2]; exact h3⟩

theorem expStep_done {C : LRCtx} {sets : Array LRState} {i : Nat} {sti : LRState} (X : String)
    (hi : sets[i]? = some sti) (hne : goto C sti.items X ≠ []) :
    ∃ st' idx sx, (expStep C i sets X)[i]? = some st' ∧ (X, idx) ∈ st'.trans ∧
      (expStep C i sets X)[idx]? = some sx ∧ sameItems sx.items (goto C sti.items X) = true := by
  unfold expStep
  rw [getBang_of_get? hi]
  dsimp only
  split
  · rename_i he
    exact absurd (List.isEmpty_iff.1 he) hne
  · split
    · rename_i idx hf
      obtain ⟨hlt, hsame, _⟩ := Array.findIdx?_eq_some_iff_getElem.1 hf
      obtain ⟨sx, k1, k2, _⟩ := Ext.modify sets i X idx idx sets[idx] (Array.getElem?_eq_getElem hlt)
      refine ⟨{ sti with trans := sti.trans ++ [(X, idx)] }, idx, sx, ?_, ?_, k1,
        by rw [k2]; exact hsame⟩
      · rw [Array.getElem?_modify, if_pos rfl, hi]; rfl
      · simp
    · have hsz : (sets.push { items := goto C sti.items X }).size - 1 = sets.size := by simp
      rw [hsz]
      obtain ⟨sti1, g1, g2, g3⟩ := Ext.push sets { items := goto C sti.items X } i sti hi
      have hx : (sets.push { items := goto C sti.items X })[sets.size]? =
          some { items := goto C sti.items X } := by
        rw [Array.getElem?_push, if_pos rfl]
      obtain ⟨sx, k1, k2, _⟩ := Ext.modify (sets.push { items := goto C sti.items X }) i X sets.size
        sets.size _ hx
      refine ⟨{ sti1 with trans := sti1.trans ++ [(X, sets.size)] }, sets.size, sx, ?_, ?_, k1,
        by rw [k2]; exact sameItems_refl _⟩
      · rw [Array.getElem?_modify, if_pos rfl, g1]; rfl
      · simp

theorem expand_fold_done {C : LRCtx} (i : Nat) :
    ∀ (l : List String) (sets : Array LRState) (sti : LRState), sets[i]? = some sti →
      ∀ X ∈ l, goto C sti.items X ≠ [] →
        ∃ st' idx sx, (l.foldl (expStep C i) sets)[i]? = some st' ∧ (X, idx) ∈ st'.trans ∧
          (l.foldl (expStep C i) sets)[idx]? = some sx ∧
          sameItems sx.items (goto C sti.items X) = true := by
  intro l
  induction l with
  | nil => intro sets sti _ X hX; cases hX
  | cons Y l ih =>
    intro sets sti hi X hX hne
    rw [List.foldl_cons]
    have hE1 := expStep_ext C i sets Y
    obtain ⟨sti1, g1, g2, _⟩ := hE1 i sti hi
    have hE2 : Ext (expStep C i sets Y) (l.foldl (expStep C i) (expStep C i sets Y)) :=
      fold_ext C i l _
    rcases List.mem_cons.1 hX with rfl | hX
    · obtain ⟨st', idx, sx, k1, k2, k3, k4⟩ := expStep_done X hi hne
      obtain ⟨st'', m1, _, m3⟩ := hE2 i st' k1
      obtain ⟨sx'', n1, n2, _⟩ := hE2 idx sx k3
      exact ⟨st'', idx, sx'', m1, m3 _ k2, n1, by rw [n2]; exact k4⟩
    · have := ih (expStep C i sets Y) sti1 g1 X hX (by rw [g2]; exact hne)
      rw [g2] at this
      exact this

theorem lrExpand_done {C : LRCtx} {sets : Array LRState} {i : Nat} (hi : i < sets.size) :
    Done C (lrExpand C sets i) i := by
  intro st hst X hX hne
  obtain ⟨st2, g1, g2, _⟩ := lrExpand_ext C sets i i sets[i] (Array.getElem?_eq_getElem hi)
  rw [hst] at g1
  cases g1
  have := expand_fold_done (C := C) i C.S.typeMap sets sets[i] (Array.getElem?_eq_getElem hi) X hX
    (by rw [← g2]; exact hne)
  rw [← lrExpand_eq, hst, ← g2] at this
  obtain ⟨st', idx, sx, k1, k2, k3, k4⟩ := this
  cases k1
  exact ⟨idx, sx, k2, k3, k4⟩

theorem lrLoop_done {C : LRCtx} :
    ∀ (fuel i : Nat) (sets : Array LRState), i ≤ sets.size → (∀ j, j < i → Done C sets j) →
      (lrLoop C fuel i sets).size ≤ i + fuel →
        ∀ j, j < (lrLoop C fuel i sets).size → Done C (lrLoop C fuel i sets) j := by
  intro fuel
  induction fuel with
  | zero =>
    intro i sets hi hd hsz j hj
    simp only [lrLoop] at hsz hj ⊢
    exact hd j (by omega)
  | succ fuel ih =>
    intro i sets hi hd
    simp only [lrLoop]
    split
    · rename_i hlt
      have e2 := lrExpand_ext C sets i
      have hsz := e2.size_le
      intro hs
      exact ih (i + 1) (lrExpand C sets i) (by omega) (by
        intro j hj
        by_cases hji : j = i
        · subst hji; exact lrExpand_done hlt
        · exact (hd j (by omega)).ext (by omega) e2) (by omega)
    · intro _ j hj
      exact hd j (by omega)

/-! ## §4 fuel -/

theorem lrLoop_of_not_lt (C : LRCtx) {i : Nat} {sets : Array LRState} (h : ¬ i < sets.size) :
    ∀ k, lrLoop C k i sets = sets := by
  intro k
  cases k with
  | zero => rfl
  | succ k => simp only [lrLoop, if_neg h]

/-- if the result has at most `i + fuel` states, the loop left through `i = len(sets)`: more fuel
    changes nothing -/
theorem lrLoop_stable (C : LRCtx) : ∀ (fuel i : Nat) (sets : Array LRState),
    (lrLoop C fuel i sets).size ≤ i + fuel →
      ∀ k, lrLoop C (fuel + k) i sets = lrLoop C fuel i sets := by
  intro fuel
  induction fuel with
  | zero =>
    intro i sets hsz k
    simp only [lrLoop] at hsz
    rw [Nat.zero_add, lrLoop_of_not_lt C (by omega) k]
    rfl
  | succ fuel ih =>
    intro i sets hsz k
    rw [Nat.add_right_comm]
    simp only [lrLoop] at hsz ⊢
    split
    · rename_i hlt
      rw [if_pos hlt] at hsz
      exact ih (i + 1) _ (by omega) k
    · rfl

/-- less fuel gives a prefix (in the sense of `Ext`) -/
theorem lrLoop_mono (C : LRCtx) : ∀ (fuel i : Nat) (sets : Array LRState) (k : Nat),
    Ext (lrLoop C fuel i sets) (lrLoop C (fuel + k) i sets) := by
  intro fuel
  induction fuel with
  | zero =>
    intro i sets k
    rw [Nat.zero_add]
    exact lrLoop_ext C k i sets
  | succ fuel ih =>
    intro i sets k
    rw [Nat.add_right_comm]
    simp only [lrLoop]
    split
    · exact ih _ _ k
    · exact Ext.refl _

/-! ## §5 assembly -/

/-- the explicit bound on the number of LR(1) states reachable from the kernel `K` -/
def lrBound (C : LRCtx) (K : List Item) : Nat := 2 ^ (stateUniv C K).length

/-- (a) for every fuel: the counting invariant and the bound -/
theorem lrLoop_bounded {C : LRCtx} {K : List Item} (hW : WFc C K) (fuel : Nat) :
    TInv (stateUniv C K) (lrLoop C fuel 0 #[{ items := closure C K }]) ∧
    (lrLoop C fuel 0 #[{ items := closure C K }]).size ≤ lrBound C K := by
  have h := lrLoop_tinv (C := C) (U := stateUniv C K) (fun I X hI => goto_sub_univ hW I X hI)
    fuel 0 _ (tinv_init hW)
  exact ⟨h, h.size_le⟩

/-- (b) with `fuel ≥` the number of states of the result the loop has stopped by itself -/
theorem lrLoop_fixed (C : LRCtx) (init : Array LRState) (fuel : Nat)
    (hsz : (lrLoop C fuel 0 init).size ≤ fuel) (hinit : 0 < init.size) :
    (∀ k, lrLoop C (fuel + k) 0 init = lrLoop C fuel 0 init) ∧
    (∀ j, j < (lrLoop C fuel 0 init).size → Done C (lrLoop C fuel 0 init) j) :=
  ⟨lrLoop_stable C fuel 0 init (by omega),
   lrLoop_done fuel 0 init (by omega) (by intro j hj; omega) (by omega)⟩

/-- the result of the unbounded loop is reached with exactly as much fuel as it has states -/
theorem lrLoop_sharp (C : LRCtx) (init : Array LRState) (N : Nat)
    (hN : (lrLoop C N 0 init).size ≤ N) :
    ∀ fuel, (lrLoop C N 0 init).size ≤ fuel → lrLoop C fuel 0 init = lrLoop C N 0 init := by
  intro fuel hf
  by_cases hle : fuel ≤ N
  · obtain ⟨k, rfl⟩ : ∃ k, N = fuel + k := ⟨N - fuel, by omega⟩
    have h1 := (lrLoop_mono C fuel 0 init k).size_le
    exact (lrLoop_stable C fuel 0 init (by omega) k).symm
  · obtain ⟨k, rfl⟩ : ∃ k, fuel = N + k := ⟨fuel - N, by omega⟩
    exact lrLoop_stable C N 0 init (by omega) k

/-! ## §6 the size of the universe against the model's `maxItems` -/

theorem range_map_getBang (a : Array SProd) (g : SProd → Nat) :
    ((List.range a.size).map fun p => g a[p]!) = a.toList.map g := by
  apply List.ext_getElem
  · simp
  · intro i h1 h2
    simp at h1 h2
    simp [h1]

theorem sum_mul_le (M : Nat) : ∀ l : List SProd,
    (l.map fun q => (prodLen q + 1) * M).sum ≤ (l.map fun q => q.body.length + 1).sum * M := by
  intro l
  induction l with
  | nil => simp
  | cons q l ih =>
    simp only [List.map_cons, List.sum_cons]
    generalize (l.map fun q => (prodLen q + 1) * M).sum = A at ih ⊢
    generalize (l.map fun q => q.body.length + 1).sum = B at ih ⊢
    have h1 : prodLen q ≤ q.body.length := by
      rcases prodLen_cases q with h | h <;> omega
    have h3 : (prodLen q + 1) * M ≤ (q.body.length + 1) * M := Nat.mul_le_mul_right _ (by omega)
    have e := Nat.add_mul (q.body.length + 1) B M
    rw [e]
    omega

theorem itemUniv_length (C : LRCtx) :
    (itemUniv C).length = (C.prods.toList.map fun q => (prodLen q + 1) * (C.S.typeMap.length + 1)).sum := by
  unfold itemUniv
  rw [List.length_flatMap]
  have : (fun p => ((List.range (prodLen C.prods[p]! + 1)).flatMap fun d =>
      (firstU C.S).map fun la => (⟨p, d, la⟩ : Item)).length) =
      fun p => (fun q : SProd => (prodLen q + 1) * (C.S.typeMap.length + 1)) C.prods[p]! := by
    funext p
    rw [length_flatMap_const _ _ (C.S.typeMap.length + 1)]
    · simp
    · intro x; simp [firstU]
  rw [this]
  exact congrArg List.sum
    (range_map_getBang C.prods (fun q : SProd => (prodLen q + 1) * (C.S.typeMap.length + 1)))

/-- `|U| + 1 ≤ maxItems` (the fuel constant of the model's `closure`) -/
theorem itemUniv_length_lt (C : LRCtx) : (itemUniv C).length + 1 ≤ C.maxItems := by
  rw [itemUniv_length]
  have := sum_mul_le (C.S.typeMap.length + 1) C.prods.toList
  unfold LRCtx.maxItems
  omega

theorem lrBound_le (C : LRCtx) (K : List Item) : lrBound C K ≤ 2 ^ (K.length + C.maxItems - 1) := by
  unfold lrBound stateUniv
  apply Nat.pow_le_pow_right (by omega)
  have := itemUniv_length_lt C
  rw [List.length_append]
  omega

end Gocc.LoopsT
