import Gocc.Proofs.RegexSemComplete
import Gocc.Proofs.LexGenCorrectAct
/-
C01 (regular-expression semantics), part 6: acceptance and verdict of the reference automaton in terms
of the declarative semantics.
-/
namespace Gocc
namespace RegexS

open EmovesU LexGenC

/-- the patterns of the non-`reg` productions have at least one alternative (always true for parsed
    grammars; the reference automaton accepts the EMPTY string for a pattern without alternatives, the
    declarative semantics nothing: `c01rx_empty_pattern` in Props/C01Regex.lean) -/
def TopNE (C : LexCtx) : Prop :=
  ∀ (k : Nat) (P : LProd), C.prods[k]? = some P → P.kind ≠ .reg → P.pat.alts ≠ []

theorem isReduce_path {C : LexCtx} {i : LItem} (h : C.isReduce i = true) : ∃ pos, i.path = [pos] := by
  unfold LexCtx.isReduce at h
  split at h
  · rename_i pos _ _ hp _; exact ⟨pos, hp⟩
  · cases h

/-- a completed dotted position of production `k` is the item `⟨k, [number of alternatives]⟩` -/
theorem reduce_pos_eq {C : LexCtx} {i : LItem} {P : LProd} (hP : C.prods[i.prod]? = some P)
    (hpos : Pos C i) (hr : C.isReduce i = true) : i = ⟨i.prod, [P.pat.alts.length]⟩ := by
  obtain ⟨pos, hpath⟩ := isReduce_path hr
  cases i with
  | mk k l =>
    simp only at hpath hP
    subst hpath
    obtain ⟨P', hP', q, j, m, hq, hm, hj⟩ := hpos
    simp only at hP' hq
    rw [hP] at hP'
    cases hP'
    cases q with
    | cons a q' =>
      simp only [List.cons_append, List.cons.injEq] at hq
      exact absurd hq.2.symm (by simp)
    | nil =>
      simp only [List.nil_append, List.cons.injEq, and_true] at hq
      subst hq
      simp only [node, Option.some.injEq] at hm
      subst hm
      rw [isReduce_root hP] at hr
      simp only [decide_eq_true_eq] at hr
      simp only [LNode.len] at hj
      have : pos = P.pat.alts.length := by omega
      rw [this]

/-- ACCEPTANCE: the completed items in the state after `w` are those of the non-`reg` productions whose
    pattern matches `w` -/
theorem done_iff {C : LexCtx} (hC : NoRefC C) (hD : NoDotC C)
    (hne : TopNE C) (w : List Int) (i : LItem) :
    ([i] ∈ xRun C w ∧ C.isReduce i = true) ↔
      ∃ (k : Nat) (P : LProd), C.prods[k]? = some P ∧ P.kind ≠ .reg ∧ i = ⟨k, [P.pat.alts.length]⟩ ∧ denPat P.pat w := by
  constructor
  · rintro ⟨hi, hr⟩
    obtain ⟨k, P, y, hP, hk, e, hrun, _⟩ := (mem_xRun_iff hC hD w _).1 hi
    rw [← sing_inj e] at hrun
    have hprod : i.prod = k := run_prod hrun
    have hpos : Pos C i := run_pos hrun (pos_start hP)
    have hPi : C.prods[i.prod]? = some P := by rw [hprod]; exact hP
    have hi_eq := reduce_pos_eq hPi hpos hr
    rw [hprod] at hi_eq
    refine ⟨k, P, hP, hk, hi_eq, ?_⟩
    rw [hi_eq] at hrun
    have hfin : Cont C ⟨k, [P.pat.alts.length]⟩ [] := cont_final hP (hne k P hP hk) (Nat.le_refl _)
    exact (cont_start hP w).1 (run_cont hrun (pos_start hP) hfin)
  · rintro ⟨k, P, hP, hk, rfl, hw⟩
    have hr : C.isReduce ⟨k, [P.pat.alts.length]⟩ = true := by rw [isReduce_root hP]; simp
    refine ⟨(mem_xRun_iff hC hD w _).2 ⟨k, P, _, hP, hk, rfl, run_of_den hP hw, ?_⟩, hr⟩
    simp [LexCtx.isBasic, hr]

/-- acceptance by one production (only its own pattern has to have an alternative) -/
theorem accept_iff {C : LexCtx} (hC : NoRefC C) (hD : NoDotC C) {k : Nat} {P : LProd}
    (hP : C.prods[k]? = some P) (hk : P.kind ≠ .reg) (hne : P.pat.alts ≠ []) (w : List Int) :
    (∃ top, [top] ∈ xRun C w ∧ top.prod = k ∧ C.isReduce top = true) ↔ denPat P.pat w := by
  constructor
  · rintro ⟨i, hi, hprod, hr⟩
    obtain ⟨k', P', y, hP', hk', e, hrun, _⟩ := (mem_xRun_iff hC hD w _).1 hi
    rw [← sing_inj e] at hrun
    have hprod' : i.prod = k' := run_prod hrun
    have hkk : k' = k := by rw [← hprod', hprod]
    subst hkk
    rw [hP] at hP'
    cases hP'
    have hpos : Pos C i := run_pos hrun (pos_start hP)
    have hPi : C.prods[i.prod]? = some P := by rw [hprod]; exact hP
    have hi_eq := reduce_pos_eq hPi hpos hr
    rw [hprod] at hi_eq
    rw [hi_eq] at hrun
    exact (cont_start hP w).1 (run_cont hrun (pos_start hP) (cont_final hP hne (Nat.le_refl _)))
  · intro hw
    have hr : C.isReduce ⟨k, [P.pat.alts.length]⟩ = true := by rw [isReduce_root hP]; simp
    exact ⟨⟨k, [P.pat.alts.length]⟩,
      (mem_xRun_iff hC hD w _).2 ⟨k, P, _, hP, hk, rfl, run_of_den hP hw, by simp [LexCtx.isBasic, hr]⟩,
      rfl, hr⟩

/-! ### the verdict -/

/-- VERDICT: `lexAction` on any production-sorted enumeration of the completed items of the matching
    productions -/
theorem verdict_eq {C : LexCtx} (hC : NoRefC C) (hD : NoDotC C)
    (hne : TopNE C) (w : List Int)
    (l : List LItem) (hs : ProdSorted l)
    (hl : ∀ i, i ∈ l ↔ ∃ (k : Nat) (P : LProd), C.prods[k]? = some P ∧ P.kind ≠ .reg ∧ i = ⟨k, [P.pat.alts.length]⟩ ∧
      denPat P.pat w) :
    xVerdict C (xRun C w) = lexAction C l := by
  rw [xVerdict_eq]
  refine lexAction_congr (prodSorted_doneOf (goodX_xRun hC hD w)) hs ?_
  intro i _
  rw [mem_doneOf, done_iff hC hD hne, hl]

theorem qual_done {C : LexCtx} {k : Nat} {P : LProd} (hP : C.prods[k]? = some P) (hk : P.kind ≠ .reg) :
    qual C ⟨k, [P.pat.alts.length]⟩ = true := by
  have hr : C.isReduce ⟨k, [P.pat.alts.length]⟩ = true := by rw [isReduce_root hP]; simp
  simp only [qual, hP, hr, Bool.and_true]
  cases hkk : P.kind <;> simp_all

theorem isStrP_eq {C : LexCtx} {k : Nat} {P : LProd} (hP : C.prods[k]? = some P) :
    isStrP C k = P.strLit := by
  simp [isStrP, hP]

/-- the item the fold of `Action()` chooses in the state after `w` -/
theorem verdict_best {C : LexCtx} (hC : NoRefC C) (hD : NoDotC C) (w : List Int) :
    ∃ o, xVerdict C (xRun C w) = actOf C o ∧ BestOpt C (doneOf C (xRun C w)) o := by
  refine ⟨(doneOf C (xRun C w)).foldl (actStep C) none, ?_, ?_⟩
  · rw [xVerdict_eq, lexAction_eq]
  · have := fold_best (C := C) (doneOf C (xRun C w)) [] none
      (by simpa using prodSorted_doneOf (goodX_xRun hC hD w)) (by intro b hb; cases hb)
    simpa using this

/-- nothing matches: no token -/
theorem verdict_none {C : LexCtx} (hC : NoRefC C) (hD : NoDotC C)
    (hne : TopNE C) (w : List Int)
    (hno : ∀ (k : Nat) (P : LProd), C.prods[k]? = some P → P.kind ≠ .reg → ¬ denPat P.pat w) :
    xVerdict C (xRun C w) = .none := by
  obtain ⟨o, ho, hb⟩ := verdict_best hC hD w
  cases o with
  | none => rw [ho]; rfl
  | some a =>
    obtain ⟨ha, hqa, _, _⟩ := hb
    obtain ⟨k, P, hP, hk, _, hw⟩ := (done_iff hC hD hne w a).1 (mem_doneOf.1 ha)
    exact absurd hw (hno k P hP hk)

/-- a matching string-literal production, the last declared of those: it wins -/
theorem verdict_strLit {C : LexCtx} (hC : NoRefC C) (hD : NoDotC C)
    (hne : TopNE C) (w : List Int)
    {k : Nat} {P : LProd} (hP : C.prods[k]? = some P) (hk : P.kind ≠ .reg) (hw : denPat P.pat w)
    (hstr : P.strLit = true)
    (hlast : ∀ (k' : Nat) (P' : LProd), C.prods[k']? = some P' → P'.kind ≠ .reg → P'.strLit = true → denPat P'.pat w →
      k' ≤ k) :
    xVerdict C (xRun C w) = actOfProd C k := by
  obtain ⟨o, ho, hb⟩ := verdict_best hC hD w
  have hi0 : (⟨k, [P.pat.alts.length]⟩ : LItem) ∈ doneOf C (xRun C w) :=
    mem_doneOf.2 ((done_iff hC hD hne w _).2 ⟨k, P, hP, hk, rfl, hw⟩)
  have hq0 := qual_done hP hk
  cases o with
  | none =>
    have := hb _ hi0
    rw [hq0] at this; cases this
  | some a =>
    obtain ⟨ha, hqa, h1, h2⟩ := hb
    obtain ⟨ka, Pa, hPa, hka, rfl, hwa⟩ := (done_iff hC hD hne w a).1 (mem_doneOf.1 ha)
    simp only at h1 h2
    rw [ho]
    simp only [actOf]
    cases hsa : Pa.strLit with
    | true =>
      have e1 := h1 (by rw [isStrP_eq hPa]; exact hsa) _ hi0 hq0 (by
        show isStrP C k = true
        rw [isStrP_eq hP]; exact hstr)
      have e2 := hlast ka Pa hPa hka hsa hwa
      have : ka = k := by simp only at e1; omega
      rw [this]
    | false =>
      have := (h2 (by rw [isStrP_eq hPa]; exact hsa) _ hi0 hq0).1
      simp only [isStrP_eq hP, hstr] at this
      cases this

/-- no string-literal production matches: the earliest declared matching production wins -/
theorem verdict_first {C : LexCtx} (hC : NoRefC C) (hD : NoDotC C)
    (hne : TopNE C) (w : List Int)
    {k : Nat} {P : LProd} (hP : C.prods[k]? = some P) (hk : P.kind ≠ .reg) (hw : denPat P.pat w)
    (hfirst : ∀ (k' : Nat) (P' : LProd), C.prods[k']? = some P' → P'.kind ≠ .reg → denPat P'.pat w →
      P'.strLit = false ∧ k ≤ k') :
    xVerdict C (xRun C w) = actOfProd C k := by
  obtain ⟨o, ho, hb⟩ := verdict_best hC hD w
  have hi0 : (⟨k, [P.pat.alts.length]⟩ : LItem) ∈ doneOf C (xRun C w) :=
    mem_doneOf.2 ((done_iff hC hD hne w _).2 ⟨k, P, hP, hk, rfl, hw⟩)
  have hq0 := qual_done hP hk
  cases o with
  | none =>
    have := hb _ hi0
    rw [hq0] at this; cases this
  | some a =>
    obtain ⟨ha, hqa, h1, h2⟩ := hb
    obtain ⟨ka, Pa, hPa, hka, rfl, hwa⟩ := (done_iff hC hD hne w a).1 (mem_doneOf.1 ha)
    simp only at h1 h2
    rw [ho]
    simp only [actOf]
    have hsa := (hfirst ka Pa hPa hka hwa).1
    have e1 := (h2 (by rw [isStrP_eq hPa]; exact hsa) _ hi0 hq0).2
    have e2 := (hfirst ka Pa hPa hka hwa).2
    have : ka = k := by simp only at e1; omega
    rw [this]

end RegexS
end Gocc
