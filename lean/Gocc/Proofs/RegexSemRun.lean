import Gocc.Proofs.RegexSemDen
/-
C01 (regular-expression semantics), part 2: runs of the reference automaton.

`Run C i w f`: from item `i`, reading the runes `w`, the item `f` is reached — ε-steps (`emoveStep`, from
non-basic items) and rune steps (a basic item expecting a literal / range that has the rune moves its
dot).  For lexical parts without references and without `.`:
    x ∈ xRun C w  ↔  x = [y], y basic, Run C ⟨k,[0]⟩ w y for a non-`reg` production k
(`mem_xRun_iff`): the subset construction `xStep` follows exactly the runs; the fuel of `xClosure` is
never exhausted (`mem_xClosure_iff`), and without `.` the fallback of `xStep` never adds anything.
-/
namespace Gocc

/-- the reference automaton run on a rune string -/
def xRun (C : LexCtx) (w : List Int) : List XPos := w.foldl (xStep C) (xStart C)

namespace RegexS

open EmovesU LexGenC

/-- the dot moved over the expected terminal -/
def adv (i : LItem) : LItem := { i with path := incLast i.path }

inductive Run (C : LexCtx) : LItem → List Int → LItem → Prop
  | refl (i : LItem) : Run C i [] i
  | eps {i j f : LItem} {w : List Int} :
      C.isBasic i = false → j ∈ emoveStep C i → Run C j w f → Run C i w f
  | rune {i f : LItem} {t : LTerm} {c : Int} {w : List Int} :
      C.expected i = some t → termHas t c = true → Run C (adv i) w f → Run C i (c :: w) f

theorem Run.trans {C : LexCtx} {i j f : LItem} {u v : List Int} (h1 : Run C i u j) (h2 : Run C j v f) :
    Run C i (u ++ v) f := by
  induction h1 with
  | refl => exact h2
  | eps hnb hj _ ih => exact .eps hnb hj (ih h2)
  | rune he hh _ ih => exact .rune he hh (ih h2)

theorem Run.step_eps {C : LexCtx} {i j : LItem} (hnb : C.isBasic i = false) (hj : j ∈ emoveStep C i) :
    Run C i [] j := .eps hnb hj (.refl j)

theorem run_of_ereach {C : LexCtx} {s y : LItem} (h : EReach C s y) : Run C s [] y := by
  induction h with
  | refl => exact .refl s
  | step _ hnb hy ih => simpa using ih.trans (Run.step_eps hnb hy)

theorem ereach_head {C : LexCtx} {x j y : LItem} (hnb : C.isBasic x = false) (hj : j ∈ emoveStep C x)
    (h : EReach C j y) : EReach C x y := by
  induction h with
  | refl => exact .step .refl hnb hj
  | step _ hnb' hy ih => exact .step ih hnb' hy

theorem ereach_of_run_nil {C : LexCtx} {s y : LItem} {w : List Int} (h : Run C s w y) (hw : w = []) :
    EReach C s y := by
  induction h with
  | refl => exact .refl
  | eps hnb hj _ ih => exact ereach_head hnb hj (ih hw)
  | rune => cases hw

theorem isBasic_of_expected {C : LexCtx} {i : LItem} {t : LTerm} (h : C.expected i = some t) :
    C.isBasic i = true := by
  simp [LexCtx.isBasic, h]

/-- a basic item has no ε-step -/
theorem run_basic_nil {C : LexCtx} {i y : LItem} {w : List Int} (hb : C.isBasic i = true)
    (h : Run C i w y) (hw : w = []) : y = i := by
  cases h with
  | refl => rfl
  | eps hnb _ _ => rw [hb] at hnb; cases hnb
  | rune => cases hw

/-- a run over `u ++ v` passes through a basic item between `u` and `v` -/
theorem run_split {C : LexCtx} {i f : LItem} {w : List Int} (h : Run C i w f) (hf : C.isBasic f = true) :
    ∀ u v, w = u ++ v → ∃ y, C.isBasic y = true ∧ Run C i u y ∧ Run C y v f := by
  induction h with
  | refl i =>
    intro u v hw
    have hu : u = [] := (List.append_eq_nil_iff.1 hw.symm).1
    have hv : v = [] := (List.append_eq_nil_iff.1 hw.symm).2
    subst hu hv
    exact ⟨i, hf, .refl i, .refl i⟩
  | eps hnb hj _ ih =>
    intro u v hw
    obtain ⟨y, hy, h1, h2⟩ := ih hf u v hw
    exact ⟨y, hy, .eps hnb hj h1, h2⟩
  | @rune i f t c w he hh hrun ih =>
    intro u v hw
    cases u with
    | nil =>
      simp only [List.nil_append] at hw
      subst hw
      exact ⟨i, isBasic_of_expected he, .refl i, .rune he hh hrun⟩
    | cons c' u' =>
      simp only [List.cons_append, List.cons.injEq] at hw
      obtain ⟨rfl, hw⟩ := hw
      obtain ⟨y, hy, h1, h2⟩ := ih hf u' v hw
      exact ⟨y, hy, .rune he hh h1, h2⟩

/-! ### `Pos` along runs -/

theorem pos_adv {C : LexCtx} {i : LItem} {t : LTerm} (h : C.expected i = some t) : Pos C (adv i) :=
  pos_advance h

theorem run_pos {C : LexCtx} {i f : LItem} {w : List Int} (h : Run C i w f) (hi : Pos C i) : Pos C f := by
  induction h with
  | refl => exact hi
  | eps hnb hj _ ih => exact ih (pos_step hnb _ hj)
  | rune he _ _ ih => exact ih (pos_adv he)

theorem run_prod {C : LexCtx} {i f : LItem} {w : List Int} (h : Run C i w f) : f.prod = i.prod := by
  induction h with
  | refl => rfl
  | eps _ hj _ ih => rw [ih, emoveStep_prod _ _ _ hj]
  | rune _ _ _ ih => rw [ih]; rfl

/-! ### one step of the subset construction -/

theorem mem_xClosure_adv {C : LexCtx} (hC : NoRefC C) {S : List XPos} (hS : GoodX C S)
    (p : XPos → Bool) (hp : ∀ i, [i] ∈ S → p [i] = true → ∃ t, C.expected i = some t) (x : XPos) :
    x ∈ xClosure C ((S.filter p).map xAdvance) ↔
      ∃ i y, [i] ∈ S ∧ p [i] = true ∧ x = [y] ∧ EReach C (adv i) y ∧ C.isBasic y = true := by
  have hadv : ∀ z, z ∈ (S.filter p).map xAdvance ↔ ∃ i, [i] ∈ S ∧ p [i] = true ∧ z = [adv i] := by
    intro z
    rw [List.mem_map]
    constructor
    · rintro ⟨a, ha, rfl⟩
      obtain ⟨haS, hpa⟩ := List.mem_filter.1 ha
      obtain ⟨i, rfl, _⟩ := hS.sing a haS
      exact ⟨i, haS, hpa, rfl⟩
    · rintro ⟨i, hi, hpi, rfl⟩
      exact ⟨[i], List.mem_filter.2 ⟨hi, hpi⟩, rfl⟩
  rw [mem_xClosure_iff hC (by
      intro z hz
      obtain ⟨i, hi, hpi, rfl⟩ := (hadv z).1 hz
      obtain ⟨t, ht⟩ := hp i hi hpi
      exact ⟨_, rfl, pos_adv ht⟩) (by
      have := hS.length_le
      have := List.length_filter_le p S
      simp only [List.length_map]; omega)]
  constructor
  · rintro ⟨s, y, hs, rfl, hr, hb⟩
    obtain ⟨i, hi, hpi, e⟩ := (hadv _).1 hs
    rw [sing_inj e] at hr
    exact ⟨i, y, hi, hpi, rfl, hr, hb⟩
  · rintro ⟨i, y, hi, hpi, rfl, hr, hb⟩
    exact ⟨adv i, y, (hadv _).2 ⟨i, hi, hpi, rfl⟩, rfl, hr, hb⟩

theorem specP_sing (C : LexCtx) (c : Int) (i : LItem) :
    specP C c [i] = true ↔ ∃ t, C.expected i = some t ∧ termHas t c = true := by
  unfold specP
  rw [xExpected_sing]
  cases C.expected i with
  | none => simp
  | some t => simp

theorem dotP_sing {C : LexCtx} (hD : NoDotC C) (i : LItem) : dotP C [i] = false := by
  unfold dotP
  rw [xExpected_sing]
  cases he : C.expected i with
  | none => rfl
  | some t =>
    cases t with
    | dot => exact absurd he (expected_ne_dot hD i)
    | _ => rfl

/-- without references and `.`: the next state is the ε-closure of the positions whose expected
    literal / range has the rune, moved over it -/
theorem mem_xStep_iff {C : LexCtx} (hC : NoRefC C) (hD : NoDotC C) {S : List XPos} (hS : GoodX C S)
    (c : Int) (x : XPos) :
    x ∈ xStep C S c ↔ ∃ i t y, [i] ∈ S ∧ C.expected i = some t ∧ termHas t c = true ∧ x = [y] ∧
      EReach C (adv i) y ∧ C.isBasic y = true := by
  rw [xStep_eq']
  have hdot : S.filter (dotP C) = [] := by
    rw [List.filter_eq_nil_iff]
    intro a ha
    obtain ⟨i, rfl, _⟩ := hS.sing a ha
    rw [dotP_sing hD]; exact Bool.false_ne_true
  split
  · rename_i hemp
    rw [hdot]
    have hnil : xClosure C (([] : List XPos).map xAdvance) = [] := by
      simp [xClosure, xClosureLoop, xFuel]
    rw [hnil]
    constructor
    · intro h; cases h
    · rintro ⟨i, t, y, hi, he, hh, _⟩
      have : [i] ∈ S.filter (specP C c) :=
        List.mem_filter.2 ⟨hi, (specP_sing C c i).2 ⟨t, he, hh⟩⟩
      rw [List.isEmpty_iff.1 hemp] at this
      cases this
  · rw [mem_xClosure_adv hC hS (specP C c) (by
      intro i _ hp
      obtain ⟨t, ht, _⟩ := (specP_sing C c i).1 hp
      exact ⟨t, ht⟩)]
    constructor
    · rintro ⟨i, y, hi, hp, rfl, hr, hb⟩
      obtain ⟨t, ht, hh⟩ := (specP_sing C c i).1 hp
      exact ⟨i, t, y, hi, ht, hh, rfl, hr, hb⟩
    · rintro ⟨i, t, y, hi, ht, hh, rfl, hr, hb⟩
      exact ⟨i, y, hi, (specP_sing C c i).2 ⟨t, ht, hh⟩, rfl, hr, hb⟩

/-! ### the states of the run -/

theorem mem_foldl_xStep {C : LexCtx} (hC : NoRefC C) (hD : NoDotC C) : ∀ (w : List Int) (S : List XPos),
    GoodX C S → (∀ i, [i] ∈ S → C.isBasic i = true) →
    GoodX C (w.foldl (xStep C) S) ∧
    ∀ x, x ∈ w.foldl (xStep C) S ↔
      ∃ i y, [i] ∈ S ∧ x = [y] ∧ Run C i w y ∧ C.isBasic y = true := by
  intro w
  induction w with
  | nil =>
    intro S hS hb
    refine ⟨hS, ?_⟩
    intro x
    simp only [List.foldl_nil]
    constructor
    · intro hx
      obtain ⟨i, rfl, _⟩ := hS.sing x hx
      exact ⟨i, i, hx, rfl, .refl i, hb i hx⟩
    · rintro ⟨i, y, hi, rfl, hrun, _⟩
      rw [run_basic_nil (hb i hi) hrun rfl]; exact hi
  | cons c w ih =>
    intro S hS hb
    have hS' := goodX_xStep hC hS c
    have hb' : ∀ j, [j] ∈ xStep C S c → C.isBasic j = true := by
      intro j hj
      obtain ⟨i, t, y, _, _, _, e, _, hby⟩ := (mem_xStep_iff hC hD hS c _).1 hj
      rw [sing_inj e]; exact hby
    obtain ⟨g, hiff⟩ := ih (xStep C S c) hS' hb'
    refine ⟨g, ?_⟩
    intro x
    simp only [List.foldl_cons]
    rw [hiff]
    constructor
    · rintro ⟨j, y, hj, rfl, hrun, hby⟩
      obtain ⟨i, t, y', hi, he, hh, e, hr, _⟩ := (mem_xStep_iff hC hD hS c _).1 hj
      rw [sing_inj e] at hrun
      exact ⟨i, y, hi, rfl, .rune he hh (by simpa using (run_of_ereach hr).trans hrun), hby⟩
    · rintro ⟨i, y, hi, rfl, hrun, hby⟩
      cases hrun with
      | eps hnb _ _ => rw [hb i hi] at hnb; cases hnb
      | rune he hh hrun' =>
        obtain ⟨j, hbj, h1, h2⟩ := run_split hrun' hby [] w rfl
        exact ⟨j, y, (mem_xStep_iff hC hD hS c _).2
          ⟨i, _, j, hi, he, hh, rfl, ereach_of_run_nil h1 rfl, hbj⟩, rfl, h2, hby⟩

theorem goodX_xRun {C : LexCtx} (hC : NoRefC C) (hD : NoDotC C) (w : List Int) : GoodX C (xRun C w) := by
  refine (mem_foldl_xStep hC hD w (xStart C) (goodX_xStart hC) ?_).1
  intro i hi
  obtain ⟨_, _, y, _, _, e, _, hb⟩ := (mem_xStart_iff hC _).1 hi
  rw [sing_inj e]; exact hb

/-- the states of the reference automaton are the ends of the runs -/
theorem mem_xRun_iff {C : LexCtx} (hC : NoRefC C) (hD : NoDotC C) (w : List Int) (x : XPos) :
    x ∈ xRun C w ↔ ∃ k P y, C.prods[k]? = some P ∧ P.kind ≠ .reg ∧ x = [y] ∧
      Run C ⟨k, [0]⟩ w y ∧ C.isBasic y = true := by
  have hb0 : ∀ i, [i] ∈ xStart C → C.isBasic i = true := by
    intro i hi
    obtain ⟨_, _, y, _, _, e, _, hb⟩ := (mem_xStart_iff hC _).1 hi
    rw [sing_inj e]; exact hb
  unfold xRun
  rw [(mem_foldl_xStep hC hD w (xStart C) (goodX_xStart hC) hb0).2]
  constructor
  · rintro ⟨i, y, hi, rfl, hrun, hby⟩
    obtain ⟨k, P, y', hP, hk, e, hr, _⟩ := (mem_xStart_iff hC _).1 hi
    rw [sing_inj e] at hrun
    exact ⟨k, P, y, hP, hk, rfl, by simpa using (run_of_ereach hr).trans hrun, hby⟩
  · rintro ⟨k, P, y, hP, hk, rfl, hrun, hby⟩
    obtain ⟨j, hbj, h1, h2⟩ := run_split hrun hby [] w rfl
    exact ⟨j, y, (mem_xStart_iff hC _).2 ⟨k, P, j, hP, hk, rfl, ereach_of_run_nil h1 rfl, hbj⟩,
      rfl, h2, hby⟩

end RegexS
end Gocc
