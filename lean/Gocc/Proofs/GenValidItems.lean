import Gocc.Proofs.GenValidFirst
/-
Generator-level validity, part 3: the ORDER of the item lists (checks (V0/V1) `itemsJust`).

`ItemSet.Closure` is a work list: the kernel items first, then every closure item appended when it
is first discovered — by `closureStep` of an item that is already in the list.  So every item of a
state is a kernel item or is preceded by the item whose closure step produced it.  The map
`i ↦ (i.p, i.d, token type of i.la)` and `eraseDups` (which keeps first occurrences, in order)
preserve this.

  §1  lists in which every element is justified by an earlier one (`JF`, `RJ`); `map`, `eraseDups`
  §2  the work list of `closureLoop`
  §3  `itemsJust` from `RJ`
  §4  the closure step in the numbered grammar; `itemsJust` for every state of a run
-/
namespace Gocc.GenValid

open Gocc.GenComplete

/-! ## §1 justified lists -/

section Lists
variable {α β : Type}

/-- forward reading: every element of the list has `P` or is `R`-related to an element of `seen`
    or to an earlier element of the list -/
def JF (P : α → Prop) (R : α → α → Prop) : List α → List α → Prop
  | _, [] => True
  | seen, x :: rest => (P x ∨ ∃ y ∈ seen, R y x) ∧ JF P R (x :: seen) rest

/-- backward reading (the list is reversed): every element has `P` or is `R`-related to an
    element after it -/
def RJ (P : α → Prop) (R : α → α → Prop) : List α → Prop
  | [] => True
  | x :: earlier => (P x ∨ ∃ y ∈ earlier, R y x) ∧ RJ P R earlier

theorem JF.mono {P : α → Prop} {R : α → α → Prop} : ∀ (l seen seen' : List α),
    (∀ y ∈ seen, y ∈ seen') → JF P R seen l → JF P R seen' l := by
  intro l
  induction l with
  | nil => intro _ _ _ _; trivial
  | cons x rest ih =>
    intro seen seen' hsub ⟨h1, h2⟩
    refine ⟨?_, ih (x :: seen) (x :: seen') ?_ h2⟩
    · rcases h1 with h1 | ⟨y, hy, hR⟩
      · exact .inl h1
      · exact .inr ⟨y, hsub y hy, hR⟩
    · intro y hy
      rcases List.mem_cons.1 hy with rfl | hy
      · exact List.mem_cons_self ..
      · exact List.mem_cons_of_mem _ (hsub y hy)

theorem JF.map {P : α → Prop} {R : α → α → Prop} {P' : β → Prop} {R' : β → β → Prop} (f : α → β)
    (hP : ∀ x, P x → P' (f x)) (hR : ∀ y x, R y x → R' (f y) (f x)) :
    ∀ (l seen : List α), JF P R seen l → JF P' R' (seen.map f) (l.map f) := by
  intro l
  induction l with
  | nil => intro _ _; trivial
  | cons x rest ih =>
    intro seen ⟨h1, h2⟩
    refine ⟨?_, ih (x :: seen) h2⟩
    rcases h1 with h1 | ⟨y, hy, hyx⟩
    · exact .inl (hP x h1)
    · exact .inr ⟨f y, List.mem_map.2 ⟨y, hy, rfl⟩, hR y x hyx⟩

/-- from positions: every element has `P` or is `R`-related to an element at a smaller position -/
theorem JF.of_index {P : α → Prop} {R : α → α → Prop} : ∀ (l seen : List α),
    (∀ (m : Nat) (x : α), l[m]? = some x →
      P x ∨ (∃ y ∈ seen, R y x) ∨ ∃ m' : Nat, m' < m ∧ ∃ y, l[m']? = some y ∧ R y x) →
    JF P R seen l := by
  intro l
  induction l with
  | nil => intro _ _; trivial
  | cons x rest ih =>
    intro seen h
    refine ⟨?_, ih (x :: seen) ?_⟩
    · rcases h 0 x rfl with h1 | h1 | ⟨m', hm', _⟩
      · exact .inl h1
      · exact .inr h1
      · omega
    · intro m z hz
      rcases h (m + 1) z (by simpa using hz) with h1 | ⟨y, hy, hR⟩ | ⟨m', hm', y, hy, hR⟩
      · exact .inl h1
      · exact .inr (.inl ⟨y, List.mem_cons_of_mem _ hy, hR⟩)
      · cases m' with
        | zero =>
          have : y = x := by simpa using hy.symm
          subst this
          exact .inr (.inl ⟨y, List.mem_cons_self .., hR⟩)
        | succ k => exact .inr (.inr ⟨k, by omega, y, by simpa using hy, hR⟩)

theorem eraseDups_loop_RJ [BEq α] [LawfulBEq α] {P : α → Prop} {R : α → α → Prop} :
    ∀ (as bs : List α), RJ P R bs → JF P R bs as →
      RJ P R (List.eraseDupsBy.loop (fun a b => a == b) as bs).reverse := by
  intro as
  induction as with
  | nil =>
    intro bs h _
    simp only [List.eraseDupsBy.loop, List.reverse_reverse]
    exact h
  | cons a as ih =>
    intro bs hbs ⟨h1, h2⟩
    cases hb : bs.any (fun b => a == b) with
    | true =>
      simp only [List.eraseDupsBy.loop, hb]
      refine ih bs hbs (JF.mono as (a :: bs) bs ?_ h2)
      intro y hy
      rcases List.mem_cons.1 hy with rfl | hy
      · obtain ⟨b, hb1, hb2⟩ := List.any_eq_true.1 hb
        have : y = b := by simpa using hb2
        exact this ▸ hb1
      · exact hy
    | false =>
      simp only [List.eraseDupsBy.loop, hb]
      exact ih (a :: bs) ⟨h1, hbs⟩ h2

/-- `eraseDups` keeps first occurrences in order: a justified list stays justified -/
theorem eraseDups_RJ [BEq α] [LawfulBEq α] {P : α → Prop} {R : α → α → Prop} {l : List α}
    (h : JF P R [] l) : RJ P R l.eraseDups.reverse :=
  eraseDups_loop_RJ l [] trivial h

end Lists

/-! ## §2 the work list of `closureLoop` -/

/-- every item of the work list is a kernel item or is preceded by an item whose closure step
    contains it -/
def Ord (C : LRCtx) (K c : List Item) : Prop :=
  ∀ (m : Nat) (x : Item), c[m]? = some x →
    x ∈ K ∨ ∃ m' : Nat, m' < m ∧ ∃ y, c[m']? = some y ∧ x ∈ closureStep C y

theorem prefix_getElem? {l l' : List Item} (h : l <+: l') {m : Nat} (hm : m < l.length) :
    l'[m]? = l[m]? := by
  obtain ⟨t, rfl⟩ := h
  rw [List.getElem?_append_left hm]

theorem Ord.step {C : LRCtx} {K c : List Item} (h : Ord C K c) {k : Nat} {i : Item}
    (hk : c[k]? = some i) : Ord C K ((closureStep C i).foldl addItem c) := by
  obtain ⟨-, hpre, hmem⟩ := foldl_addItem_spec (closureStep C i) c
  have hklt : k < c.length := (List.getElem?_eq_some_iff.1 hk).1
  unfold Ord
  intro m x hx
  -- an item of the old list keeps its justification
  have hold : ∀ m0, m0 ≤ m → c[m0]? = some x →
      x ∈ K ∨ ∃ m' : Nat, m' < m ∧ ∃ y, ((closureStep C i).foldl addItem c)[m']? = some y ∧
        x ∈ closureStep C y := by
    intro m0 hm0 hx0
    rcases h m0 x hx0 with h1 | ⟨m', hm', y, hy, hyx⟩
    · exact .inl h1
    · have hm'lt : m' < c.length := (List.getElem?_eq_some_iff.1 hy).1
      exact .inr ⟨m', by omega, y, by rw [prefix_getElem? hpre hm'lt]; exact hy, hyx⟩
  by_cases hm : m < c.length
  · rw [prefix_getElem? hpre hm] at hx
    exact hold m (Nat.le_refl _) hx
  · rcases (hmem x).1 (List.mem_of_getElem? hx) with hxc | hxs
    · obtain ⟨m0, hm0, hget⟩ := List.mem_iff_getElem.1 hxc
      exact hold m0 (by omega) (by rw [List.getElem?_eq_getElem hm0, hget])
    · exact .inr ⟨k, by omega, i, by rw [prefix_getElem? hpre hklt]; exact hk, hxs⟩

theorem closureLoop_ord {C : LRCtx} {K : List Item} : ∀ (fuel k : Nat) (c : List Item),
    Ord C K c → Ord C K (closureLoop C fuel k c) := by
  intro fuel
  induction fuel with
  | zero => intro k c h; exact h
  | succ fuel ih =>
    intro k c h
    cases hk : c[k]? with
    | none => simp only [closureLoop, hk]; exact h
    | some i =>
      simp only [closureLoop, hk]
      exact ih _ _ (h.step hk)

theorem closure_ord (C : LRCtx) (K : List Item) : Ord C K (closure C K) := by
  unfold closure
  apply closureLoop_ord
  unfold Ord
  intro m x hx
  left
  rcases ((foldl_addItem_spec K []).2.2 x).1 (List.mem_of_getElem? hx) with h | h
  · cases h
  · exact h

/-- the items of a closure, read forward: kernel items, or justified by an earlier item of the
    closure -/
theorem closure_JF (C : LRCtx) (K : List Item) :
    JF (fun x => x ∈ K) (fun y x => y ∈ closure C K ∧ x ∈ closureStep C y) [] (closure C K) := by
  apply JF.of_index
  intro m x hx
  rcases closure_ord C K m x hx with h | ⟨m', hm', y, hy, hyx⟩
  · exact .inl h
  · exact .inr (.inr ⟨m', hm', y, hy, List.mem_of_getElem? hy, hyx⟩)

/-! ## §3 `itemsJust` -/

/-- what `itemsJust` asks of an item that is not justified by an earlier one -/
def KernelOk (G : NGrammar) (s : Nat) (x : Nat × Nat × Nat) : Prop :=
  (x.2.1 ≠ 0 ∧ s ≠ 0) ∨ (s = 0 ∧ x = (0, 0, 1) ∧ 0 < G.prods.size)

/-- `x = (q, 0, b)` is contributed by the closure step of `y = (p, d, a)` -/
def StepOk (G : NGrammar) (fc : FirstCert) (y x : Nat × Nat × Nat) : Prop :=
  x.2.1 = 0 ∧ x.1 < G.prods.size ∧ (G.body y.1)[y.2.1]? = some (Sym.nt (G.head x.1)) ∧
    x.2.2 ∈ firstOfSeq fc ((G.body y.1).drop (y.2.1 + 1)) y.2.2

theorem itemsJust_of_RJ {G : NGrammar} {fc : FirstCert} {s : Nat} :
    ∀ (l : List (Nat × Nat × Nat)), RJ (KernelOk G s) (StepOk G fc) l →
      itemsJust G fc s l = true := by
  intro l
  induction l with
  | nil => intro _; rfl
  | cons x earlier ih =>
    intro ⟨h1, h2⟩
    obtain ⟨q, d, b⟩ := x
    have hrest := ih h2
    show ((if d == 0 then decide (q < G.prods.size) &&
        ((s == 0 && q == 0 && b == 1) || closureJust G fc earlier q b) else s != 0) &&
      itemsJust G fc s earlier) = true
    rw [hrest, Bool.and_true]
    rcases h1 with (⟨hd, hs⟩ | ⟨hs, hx, hpos⟩) | ⟨y, hy, hd, hq, hbody, hla⟩
    · rw [if_neg (by simpa using hd)]
      simpa using hs
    · simp only [Prod.mk.injEq] at hx
      obtain ⟨rfl, rfl, rfl⟩ := hx
      subst hs
      simp [hpos]
    · simp only at hd hq hbody hla
      subst hd
      rw [if_pos (by simp)]
      simp only [Bool.and_eq_true, decide_eq_true_eq, Bool.or_eq_true]
      refine ⟨hq, .inr ?_⟩
      unfold closureJust
      rw [List.any_eq_true]
      obtain ⟨p, d', a⟩ := y
      exact ⟨(p, d', a), hy, by simp only at hbody hla; simp [hbody, hla]⟩

/-! ## §4 the items of a run -/

/-- the numbering of an item -/
def numItem (terms : List String) (i : Item) : Nat × Nat × Nat :=
  (i.p, i.d, (terms.idxOf? i.la).getD 0)

theorem claOf_get {r : LRResult} {s : Nat} {st : LRState} (hs : r.states[s]? = some st) :
    (claOf r)[s]?.getD [] = (st.items.map (numItem r.tables.terminals)).eraseDups := by
  unfold claOf
  rw [Array.getElem?_map, hs]
  rfl

theorem claOf_get_none {r : LRResult} {s : Nat} (hs : r.states[s]? = none) :
    (claOf r)[s]?.getD [] = [] := by
  unfold claOf
  rw [Array.getElem?_map, hs]
  rfl

theorem claOf_size (r : LRResult) : (claOf r).size = r.states.size := by
  simp [claOf]

/-- (V1) an item contributed by the closure step of an item `y` of a state is justified by `y`
    in the numbered grammar, with the exact FIRST sets of the certificate -/
theorem stepOk_of_closureStep {syn : List SProd} {r : LRResult} (GF : GenFacts syn r)
    {s : Nat} {st : LRState} (hs : r.states[s]? = some st) {y x : Item} (hy : y ∈ st.items)
    (hx : x ∈ closureStep r.ctx y) :
    StepOk (ngrammarOf (augment syn) r.ctx.S.terminals r.ctx.S.ntList)
      (vcertOf (ngrammarOf (augment syn) r.ctx.S.terminals r.ctx.S.ntList)).fc
      (numItem r.ctx.S.terminals y) (numItem r.ctx.S.terminals x) := by
  have F := GF.F
  obtain ⟨hxp, hxd, hyd, hhead⟩ := mem_closureStep' hx
  obtain ⟨-, -, hxla⟩ := mem_closureStep hx
  obtain ⟨hyla, hylant, -⟩ := la_facts GF hs hy
  obtain ⟨hyp, -⟩ := state_itemOk GF.inv (prods_pos F) hs y hy
  obtain ⟨hxp', hxeq⟩ := ctx_prod F.prods_eq hxp
  have hxhead : ((augment syn)[x.p]).head ∈ r.ctx.S.ntList := F.heads _ (List.getElem_mem hxp')
  have hheadeq : ((augment syn)[x.p]).head = r.ctx.expected y := by
    rw [← hhead, getElem!_pos r.ctx.prods x.p hxp, hxeq]
  refine ⟨hxd, by rw [ngrammarOf_size]; exact hxp', ?_, ?_⟩
  · -- the symbol after the dot of `y` is the head of `x`
    show ((ngrammarOf (augment syn) r.ctx.S.terminals r.ctx.S.ntList).body y.p)[y.d]? =
      some (Sym.nt ((ngrammarOf (augment syn) r.ctx.S.terminals r.ctx.S.ntList).head x.p))
    rw [body_at F.prods_eq _ _ hyd, ngrammarOf_head _ _ hxp', idxOf?_eq_idxOf hxhead,
      Option.getD_some, ← hheadeq, symOf_mem hxhead]
  · -- the look-ahead of `x` is in the exact FIRST set
    show (r.ctx.S.terminals.idxOf? x.la).getD 0 ∈ firstOfSeq _
      (((ngrammarOf (augment syn) r.ctx.S.terminals r.ctx.S.ntList).body y.p).drop (y.d + 1))
      ((r.ctx.S.terminals.idxOf? y.la).getD 0)
    rw [gbody_eq F.prods_eq _ _ hyp, ← List.map_drop]
    have hgood := first1_good F.prods_eq GF.hT GF.hB hyla.2 x.la hxla
    unfold first1 sortStrings at hxla
    rw [List.mem_mergeSort] at hxla
    have hsub : FsSub r.ctx.S.terminals r.ctx.S.ntList
        (vcertOf (ngrammarOf (augment syn) r.ctx.S.terminals r.ctx.S.ntList)) r.ctx.fs := by
      rw [GF.fsEq]; exact firstSets_sub GF.hW GF.hB GF.hE
    refine mem_firstOfSeq_of_seq hsub hylant hgood.2.2 _ ?_ (firstS_sub_seq hxla)
    intro z hz _
    obtain ⟨hp, hne, s', hs', rfl⟩ := body_mem (List.mem_of_mem_drop hz)
    obtain ⟨hp', heq⟩ := ctx_prod F.prods_eq hp
    rw [heq] at hne hs'
    exact (GF.hB _ (List.getElem_mem hp') s' hs').2 hne

/-- the kernel of a state: the start item in state 0, advanced items elsewhere -/
theorem state_kernel {syn : List SProd} {r : LRResult} (GF : GenFacts syn r) {s : Nat}
    {st : LRState} (hs : r.states[s]? = some st) :
    ∃ K : List Item, (st.items = closure r.ctx K ∨ st.items = []) ∧
      ∀ x ∈ K, (x.d ≠ 0 ∧ s ≠ 0) ∨ (s = 0 ∧ x = ⟨0, 0, "␚"⟩) := by
  by_cases hz : s = 0
  · subst hz
    obtain ⟨st0, g1, g2⟩ := GF.inv.zero
    rw [hs] at g1
    cases g1
    refine ⟨[⟨0, 0, "␚"⟩], .inl g2, ?_⟩
    intro x hx
    exact .inr ⟨rfl, by simpa using hx⟩
  · obtain ⟨I, X, hI⟩ := GF.inv.isGoto s st hs (by omega)
    refine ⟨(I.filter fun i => i.d < r.ctx.len i && r.ctx.expected i == X).map
      fun i => { i with d := i.d + 1 }, ?_, ?_⟩
    · rw [hI]
      unfold goto
      dsimp only
      split
      · exact .inr rfl
      · exact .inl rfl
    · intro x hx
      rcases List.mem_map.1 hx with ⟨i, _, rfl⟩
      exact .inl ⟨by simp, hz⟩

/-- (V0/V1) the item list of every state passes `itemsJust` -/
theorem itemsJust_state {syn : List SProd} {r : LRResult} (GF : GenFacts syn r) (s : Nat) :
    itemsJust (ngrammarOf (augment syn) r.ctx.S.terminals r.ctx.S.ntList)
      (vcertOf (ngrammarOf (augment syn) r.ctx.S.terminals r.ctx.S.ntList)).fc s
      ((claOf r)[s]?.getD []).reverse = true := by
  rcases hs : r.states[s]? with _ | st
  · rw [claOf_get_none hs]; rfl
  · rw [claOf_get hs, GF.terms]
    apply itemsJust_of_RJ
    apply eraseDups_RJ
    obtain ⟨K, hK, hKok⟩ := state_kernel GF hs
    have hone : (r.ctx.S.terminals.idxOf? "␚").getD 0 = 1 := by
      obtain ⟨hlt, hget⟩ := List.getElem?_eq_some_iff.1 GF.F.term1
      have := idxOf?_getElem_of_nodup _ GF.F.termsNodup 1 hlt
      rw [hget] at this
      rw [this]; rfl
    have hpos : 0 < (ngrammarOf (augment syn) r.ctx.S.terminals r.ctx.S.ntList).prods.size := by
      rw [ngrammarOf_size]
      have := prods_pos GF.F
      rw [GF.F.prods_eq] at this
      simpa using this
    rcases hK with hK | hK
    · have hJF := closure_JF r.ctx K
      rw [← hK] at hJF
      refine JF.map (numItem r.ctx.S.terminals) ?_ ?_ st.items [] hJF
      · intro x hx
        rcases hKok x hx with ⟨h1, h2⟩ | ⟨h1, rfl⟩
        · exact .inl ⟨h1, h2⟩
        · exact .inr ⟨h1, by simp [numItem, hone], hpos⟩
      · intro y x ⟨hy, hx⟩
        exact stepOk_of_closureStep GF hs hy hx
    · rw [hK]
      trivial

end Gocc.GenValid
