import Gocc.Spec.RegexSem
import Gocc.Proofs.LexGenCorrectStep
/-
C01 (regular-expression semantics), part 1.

  * `den…`: the language of a pattern as a structurally recursive function (`Star` for `{ }`), and
    `matchPat_iff_den`: it is the inductive `MatchPat` of Spec/RegexSem.lean.  The proofs about the
    reference automaton use this form (recursion on the pattern, `induction` on `Star`).
  * `cat`, `eps`: concatenation of languages.
  * without `.` in the patterns no item expects `.` (`expected_ne_dot`), as `expected_ne_ref`.
-/
namespace Gocc
namespace RegexS

open EmovesU LexGenC

abbrev Lang := List Int → Prop

/-- concatenation of finitely many strings of `L` -/
inductive Star (L : Lang) : Lang
  | nil : Star L []
  | cons {u v : List Int} : L u → Star L v → Star L (u ++ v)

mutual
  def denPat : LPat → Lang
    | .mk alts => denAlts alts
  def denAlts : List LAlt → Lang
    | [] => fun _ => False
    | a :: rest => fun w => denAlt a w ∨ denAlts rest w
  def denAlt : LAlt → Lang
    | .mk ts => denTerms ts
  def denTerms : List LTerm → Lang
    | [] => fun w => w = []
    | t :: rest => fun w => ∃ u v, w = u ++ v ∧ denTerm t u ∧ denTerms rest v
  def denTerm : LTerm → Lang
    | .dot => fun _ => False
    | .lit c => fun w => w = [c]
    | .rng lo hi => fun w => ∃ c, w = [c] ∧ lo ≤ c ∧ c ≤ hi
    | .ref _ => fun _ => False
    | .opt p => fun w => w = [] ∨ denPat p w
    | .rep p => Star (denPat p)
    | .grp p => denPat p
end

theorem denPat_mk (alts : List LAlt) : denPat (.mk alts) = denAlts alts := by rw [denPat]
theorem denAlt_mk (ts : List LTerm) : denAlt (.mk ts) = denTerms ts := by rw [denAlt]
theorem denAlts_nil (w : List Int) : denAlts [] w ↔ False := by rw [denAlts]
theorem denAlts_cons (a : LAlt) (rest : List LAlt) (w : List Int) :
    denAlts (a :: rest) w ↔ (denAlt a w ∨ denAlts rest w) := by rw [denAlts]
theorem denTerms_nil (w : List Int) : denTerms [] w ↔ w = [] := by rw [denTerms]
theorem denTerms_cons (t : LTerm) (rest : List LTerm) (w : List Int) :
    denTerms (t :: rest) w ↔ ∃ u v, w = u ++ v ∧ denTerm t u ∧ denTerms rest v := by rw [denTerms]
theorem denTerm_lit (c : Int) (w : List Int) : denTerm (.lit c) w ↔ w = [c] := by rw [denTerm]
theorem denTerm_rng (lo hi : Int) (w : List Int) :
    denTerm (.rng lo hi) w ↔ ∃ c, w = [c] ∧ lo ≤ c ∧ c ≤ hi := by rw [denTerm]
theorem denTerm_opt (p : LPat) (w : List Int) : denTerm (.opt p) w ↔ (w = [] ∨ denPat p w) := by
  rw [denTerm]
theorem denTerm_rep (p : LPat) : denTerm (.rep p) = Star (denPat p) := by rw [denTerm]
theorem denTerm_grp (p : LPat) : denTerm (.grp p) = denPat p := by rw [denTerm]
theorem denTerm_dot (w : List Int) : denTerm .dot w ↔ False := by rw [denTerm]
theorem denTerm_ref (r : String) (w : List Int) : denTerm (.ref r) w ↔ False := by rw [denTerm]

/-- some alternative, by index -/
theorem denAlts_iff : ∀ (alts : List LAlt) (w : List Int),
    denAlts alts w ↔ ∃ (m : Nat) (a : LAlt), alts[m]? = some a ∧ denAlt a w
  | [], w => by simp [denAlts_nil]
  | a :: rest, w => by
    rw [denAlts_cons, denAlts_iff rest w]
    constructor
    · rintro (h | ⟨m, b, hm, hb⟩)
      · exact ⟨0, a, rfl, h⟩
      · exact ⟨m + 1, b, by simpa using hm, hb⟩
    · rintro ⟨m, b, hm, hb⟩
      cases m with
      | zero =>
        simp only [List.getElem?_cons_zero, Option.some.injEq] at hm
        subst hm; exact Or.inl hb
      | succ m => exact Or.inr ⟨m, b, by simpa using hm, hb⟩

theorem denPat_iff (p : LPat) (w : List Int) :
    denPat p w ↔ ∃ (m : Nat) (a : LAlt), p.alts[m]? = some a ∧ denTerms a.terms w := by
  cases p with
  | mk alts =>
    rw [denPat_mk, denAlts_iff]
    constructor
    · rintro ⟨m, a, hm, ha⟩
      cases a with
      | mk ts => exact ⟨m, .mk ts, hm, by simpa [denAlt_mk, LAlt.terms] using ha⟩
    · rintro ⟨m, a, hm, ha⟩
      cases a with
      | mk ts => exact ⟨m, .mk ts, hm, by simpa [denAlt_mk, LAlt.terms] using ha⟩

/-! ### the inductive semantics of Spec/RegexSem.lean is this function -/

theorem denAlts_of_mem {alts : List LAlt} {a : LAlt} {w : List Int} (hm : a ∈ alts)
    (h : denAlt a w) : denAlts alts w := by
  obtain ⟨m, hm⟩ := List.getElem?_of_mem hm
  exact (denAlts_iff alts w).2 ⟨m, a, hm, h⟩

mutual
  theorem den_of_matchPat : ∀ {p : LPat} {w : List Int}, MatchPat p w → denPat p w
    | _, _, .alt hm h => by rw [denPat_mk]; exact denAlts_of_mem hm (den_of_matchAlt h)
  theorem den_of_matchAlt : ∀ {a : LAlt} {w : List Int}, MatchAlt a w → denAlt a w
    | _, _, .mk h => by rw [denAlt_mk]; exact den_of_matchTerms h
  theorem den_of_matchTerms : ∀ {ts : List LTerm} {w : List Int}, MatchTerms ts w → denTerms ts w
    | _, _, .nil => by rw [denTerms_nil]
    | _, _, .cons h1 h2 => by
      rw [denTerms_cons]; exact ⟨_, _, rfl, den_of_matchTerm h1, den_of_matchTerms h2⟩
  theorem den_of_matchTerm : ∀ {t : LTerm} {w : List Int}, MatchTerm t w → denTerm t w
    | _, _, .lit c => by rw [denTerm_lit]
    | _, _, .rng lo hi c h1 h2 => by rw [denTerm_rng]; exact ⟨c, rfl, h1, h2⟩
    | _, _, .optNone p => by rw [denTerm_opt]; exact Or.inl rfl
    | _, _, .optSome h => by rw [denTerm_opt]; exact Or.inr (den_of_matchPat h)
    | _, _, .repNil p => by rw [denTerm_rep]; exact .nil
    | _, _, .repCons h1 h2 => by
      have i1 := den_of_matchPat h1
      have i2 := den_of_matchTerm h2
      rw [denTerm_rep] at i2 ⊢
      exact .cons i1 i2
    | _, _, .grp h => by rw [denTerm_grp]; exact den_of_matchPat h
end

mutual
  theorem matchPat_of_den : (p : LPat) → ∀ w, denPat p w → MatchPat p w
    | .mk alts, w, h => by
      rw [denPat_mk] at h
      obtain ⟨a, ha, hm⟩ := matchAlts_of_den alts w h
      exact .alt ha hm
  theorem matchAlts_of_den : (alts : List LAlt) → ∀ w, denAlts alts w → ∃ a ∈ alts, MatchAlt a w
    | [], w, h => by rw [denAlts_nil] at h; exact h.elim
    | a :: rest, w, h => by
      rw [denAlts_cons] at h
      rcases h with h | h
      · exact ⟨a, List.mem_cons_self, matchAlt_of_den a w h⟩
      · obtain ⟨b, hb, hm⟩ := matchAlts_of_den rest w h
        exact ⟨b, List.mem_cons_of_mem _ hb, hm⟩
  theorem matchAlt_of_den : (a : LAlt) → ∀ w, denAlt a w → MatchAlt a w
    | .mk ts, w, h => by rw [denAlt_mk] at h; exact .mk (matchTerms_of_den ts w h)
  theorem matchTerms_of_den : (ts : List LTerm) → ∀ w, denTerms ts w → MatchTerms ts w
    | [], w, h => by rw [denTerms_nil] at h; subst h; exact .nil
    | t :: rest, w, h => by
      rw [denTerms_cons] at h
      obtain ⟨u, v, rfl, h1, h2⟩ := h
      exact .cons (matchTerm_of_den t u h1) (matchTerms_of_den rest v h2)
  theorem matchTerm_of_den : (t : LTerm) → ∀ w, denTerm t w → MatchTerm t w
    | .dot, w, h => by rw [denTerm_dot] at h; exact h.elim
    | .ref r, w, h => by rw [denTerm_ref] at h; exact h.elim
    | .lit c, w, h => by rw [denTerm_lit] at h; subst h; exact .lit c
    | .rng lo hi, w, h => by
      rw [denTerm_rng] at h
      obtain ⟨c, rfl, h1, h2⟩ := h
      exact .rng lo hi c h1 h2
    | .opt p, w, h => by
      rw [denTerm_opt] at h
      rcases h with rfl | h
      · exact .optNone p
      · exact .optSome (matchPat_of_den p w h)
    | .rep p, w, h => by
      rw [denTerm_rep] at h
      have key : ∀ u, denPat p u → MatchPat p u := matchPat_of_den p
      induction h with
      | nil => exact .repNil p
      | cons h1 _ ih => exact .repCons (key _ h1) ih
    | .grp p, w, h => by rw [denTerm_grp] at h; exact .grp (matchPat_of_den p w h)
end

/-- the declarative semantics, as a function -/
theorem matchPat_iff_den (p : LPat) (w : List Int) : MatchPat p w ↔ denPat p w :=
  ⟨den_of_matchPat, matchPat_of_den p w⟩

/-! ### concatenation -/

def cat (L K : Lang) : Lang := fun w => ∃ u v, w = u ++ v ∧ L u ∧ K v
def eps : Lang := fun w => w = []

theorem cat_mono {L L' K K' : Lang} (h1 : ∀ w, L w → L' w) (h2 : ∀ w, K w → K' w) :
    ∀ w, cat L K w → cat L' K' w := by
  rintro w ⟨u, v, rfl, hu, hv⟩
  exact ⟨u, v, rfl, h1 u hu, h2 v hv⟩

theorem cat_eps_left {K : Lang} {w : List Int} : cat eps K w ↔ K w := by
  constructor
  · rintro ⟨u, v, rfl, hu, hv⟩
    rw [show u = [] from hu]; exact hv
  · intro h; exact ⟨[], w, rfl, rfl, h⟩

theorem cat_eps_right {L : Lang} {w : List Int} : cat L eps w ↔ L w := by
  constructor
  · rintro ⟨u, v, rfl, hu, hv⟩
    rw [show v = [] from hv, List.append_nil]; exact hu
  · intro h; exact ⟨w, [], by simp, h, rfl⟩

theorem cat_assoc {L K M : Lang} {w : List Int} : cat (cat L K) M w ↔ cat L (cat K M) w := by
  constructor
  · rintro ⟨_, z, rfl, ⟨x, y, rfl, hx, hy⟩, hz⟩
    exact ⟨x, y ++ z, by simp, hx, y, z, rfl, hy, hz⟩
  · rintro ⟨x, _, rfl, hx, y, z, rfl, hy, hz⟩
    exact ⟨x ++ y, z, by simp, ⟨x, y, rfl, hx, hy⟩, hz⟩

theorem denTerms_cons_cat (t : LTerm) (rest : List LTerm) (w : List Int) :
    denTerms (t :: rest) w ↔ cat (denTerm t) (denTerms rest) w := denTerms_cons t rest w

theorem denTerms_drop {ts : List LTerm} {j : Nat} {t : LTerm} (h : ts[j]? = some t) (w : List Int) :
    denTerms (ts.drop j) w ↔ cat (denTerm t) (denTerms (ts.drop (j + 1))) w := by
  have hj := (List.getElem?_eq_some_iff.1 h).1
  have ht := (List.getElem?_eq_some_iff.1 h).2
  rw [List.drop_eq_getElem_cons hj, ht]
  exact denTerms_cons_cat _ _ _

theorem denTerms_drop_ge {ts : List LTerm} {j : Nat} (h : ts.length ≤ j) (w : List Int) :
    denTerms (ts.drop j) w ↔ w = [] := by
  rw [List.drop_eq_nil_of_le h, denTerms_nil]

/-! ### `noDots` -/

def termND : LTerm → Bool
  | .dot => false
  | .opt p | .rep p | .grp p => p.noDots
  | _ => true

def nodeND : LNode → Bool
  | .pat p | .grp p | .opt p | .rep p => p.noDots
  | .alt a => LPat.noDots.ndTerms a.terms

theorem ndTerms_cons (t : LTerm) (rest : List LTerm) :
    LPat.noDots.ndTerms (t :: rest) = (termND t && LPat.noDots.ndTerms rest) := by
  cases t <;> rw [LPat.noDots.ndTerms] <;> first | rfl | (intro h; cases h; done) | (intro p h; cases h)

theorem ndAlts_get : ∀ (alts : List LAlt) (j : Nat) (a : LAlt), alts[j]? = some a →
    LPat.noDots.ndAlts alts = true → LPat.noDots.ndTerms a.terms = true
  | [], j, a, h, _ => by simp at h
  | (.mk ts) :: rest, 0, a, h, hn => by
    simp only [List.getElem?_cons_zero, Option.some.injEq] at h
    subst h
    simp only [LPat.noDots.ndAlts, Bool.and_eq_true] at hn
    exact hn.1
  | (.mk ts) :: rest, j + 1, a, h, hn => by
    simp only [List.getElem?_cons_succ] at h
    simp only [LPat.noDots.ndAlts, Bool.and_eq_true] at hn
    exact ndAlts_get rest j a h hn.2

theorem ndTerms_get : ∀ (ts : List LTerm) (j : Nat) (t : LTerm), ts[j]? = some t →
    LPat.noDots.ndTerms ts = true → termND t = true
  | [], j, a, h, _ => by simp at h
  | t0 :: rest, 0, a, h, hn => by
    simp only [List.getElem?_cons_zero, Option.some.injEq] at h
    subst h
    rw [ndTerms_cons, Bool.and_eq_true] at hn
    exact hn.1
  | t0 :: rest, j + 1, a, h, hn => by
    simp only [List.getElem?_cons_succ] at h
    rw [ndTerms_cons, Bool.and_eq_true] at hn
    exact ndTerms_get rest j a h hn.2

theorem noDots_mk (alts : List LAlt) : (LPat.mk alts).noDots = LPat.noDots.ndAlts alts := by
  rw [LPat.noDots]

theorem child_nodeND {n c : LNode} {j : Nat} (h : n.child j = some c) (hn : nodeND n = true) :
    nodeND c = true := by
  cases n with
  | alt a =>
    simp only [LNode.child] at h
    simp only [nodeND] at hn
    cases ht : a.terms[j]? with
    | none => rw [ht] at h; simp at h
    | some t =>
      rw [ht] at h
      have := ndTerms_get _ _ _ ht hn
      cases t <;> simp at h <;> subst h <;> simpa [nodeND, termND] using this
  | pat p | grp p | opt p | rep p =>
    cases p with
    | mk alts =>
      simp only [LNode.child, LPat.alts] at h
      simp only [nodeND, noDots_mk] at hn
      cases ht : alts[j]? with
      | none => rw [ht] at h; simp at h
      | some a =>
        rw [ht] at h
        simp only [Option.map_some, Option.some.injEq] at h
        subst h
        exact ndAlts_get _ _ _ ht hn

theorem node_nodeND : ∀ (q : List Nat) (r m : LNode), node r q = some m → nodeND r = true →
    nodeND m = true := by
  intro q
  induction q with
  | nil => intro r m h hr; simp only [node, Option.some.injEq] at h; subst h; exact hr
  | cons a q ih =>
    intro r m h hr
    simp only [node] at h
    cases hc : r.child a with
    | none => rw [hc] at h; simp at h
    | some c =>
      rw [hc] at h
      exact ih c m (by simpa using h) (child_nodeND hc hr)

theorem termAt_ne_dot {n : LNode} (hn : nodeND n = true) (pos : Nat) : n.termAt pos ≠ some .dot := by
  cases n with
  | alt a =>
    simp only [LNode.termAt]
    simp only [nodeND] at hn
    cases ht : a.terms[pos]? with
    | none => simp
    | some t =>
      have := ndTerms_get _ _ _ ht hn
      cases t <;> simp [termND] at this ⊢
  | pat p | grp p | opt p | rep p => simp [LNode.termAt]

/-- the context's patterns contain no `.` -/
def NoDotC (C : LexCtx) : Prop := ∀ (k : Nat) (P : LProd), C.prods[k]? = some P → P.pat.noDots = true

theorem noDotC_of_noDots {prods : List LProd} (h : noDots prods = true) :
    NoDotC { prods := prods.toArray } := by
  intro k P hP
  simp only [noDots, List.all_eq_true] at h
  have hmem : P ∈ prods := by
    have : prods[k]? = some P := by simpa using hP
    exact List.mem_of_getElem? this
  exact h P hmem

/-- without `.` no item expects `.` -/
theorem expected_ne_dot {C : LexCtx} (hC : NoDotC C) (i : LItem) : C.expected i ≠ some .dot := by
  unfold LexCtx.expected
  cases htop : C.top i with
  | none => simp
  | some np =>
    obtain ⟨n, pos⟩ := np
    dsimp only
    unfold LexCtx.top at htop
    cases hP : C.prods[i.prod]? with
    | none => rw [hP] at htop; simp at htop
    | some P =>
      rw [hP] at htop
      simp only [Option.bind_some] at htop
      obtain ⟨q, _, hq⟩ := walk_some htop
      exact termAt_ne_dot (node_nodeND q _ _ hq (by simpa [nodeND] using hC _ _ hP)) pos

end RegexS
end Gocc
