import Gocc.Model.FScan
/-
Proofs about the model of the hand-written front-end scanner (`Gocc/Model/FScan.lean`):
layout independence of the token stream (white space and comments between tokens), and the
position rule.  The statements for the property file are collected in `Gocc/Props/C13.lean`.
-/
namespace Gocc
namespace FScan

/-! ## `utf8.DecodeRune` facts -/

theorem decodeRune_width_le (x : List Nat) : (decodeRune x).2 ≤ x.length := by
  unfold decodeRune
  repeat' split
  all_goals (try simp_all)
  all_goals (repeat' split)
  all_goals (try simp_all)
  all_goals (try omega)

theorem decodeRune_width_le4 (x : List Nat) : (decodeRune x).2 ≤ 4 := by
  unfold decodeRune
  repeat' split
  all_goals (try simp_all)
  all_goals (repeat' split)
  all_goals (try simp_all)

theorem decodeRune_width_pos (b : Nat) (r : List Nat) : 1 ≤ (decodeRune (b :: r)).2 := by
  unfold decodeRune
  repeat' split
  all_goals (try simp_all)
  all_goals (repeat' split)
  all_goals (try simp_all)

/-- a non-ASCII byte never starts an ASCII rune -/
theorem decodeRune_ge (b : Nat) (r : List Nat) (h : 0x80 ≤ b) : 0x80 ≤ (decodeRune (b :: r)).1 := by
  unfold decodeRune
  repeat' split
  all_goals (try simp_all [runeError])
  all_goals (repeat' split)
  all_goals (try simp_all)
  all_goals (try omega)

/-- a rune never extends over a following ASCII byte -/
theorem decodeRune_width_prefix (b : Nat) (p : List Nat) (c : Nat) (q : List Nat) (hc : c < 0x80) :
    (decodeRune (b :: p ++ c :: q)).2 ≤ p.length + 1 := by
  have hcc : isCont c = false := by simp [isCont]; omega
  match p with
  | [] =>
    simp only [List.cons_append, List.nil_append, decodeRune]
    repeat' split
    all_goals (try simp_all)
    all_goals (repeat' split)
    all_goals (try simp_all)
    all_goals (try omega)
  | [b1] =>
    simp only [List.cons_append, List.nil_append, decodeRune]
    repeat' split
    all_goals (try simp_all)
    all_goals (repeat' split)
    all_goals (try simp_all)
    all_goals (try omega)
  | [b1, b2] =>
    simp only [List.cons_append, List.nil_append, decodeRune]
    repeat' split
    all_goals (try simp_all)
    all_goals (repeat' split)
    all_goals (try simp_all)
    all_goals (try omega)
  | b1 :: b2 :: b3 :: p' =>
    have := decodeRune_width_le4 (b :: (b1 :: b2 :: b3 :: p') ++ c :: q)
    simp only [List.length_cons]; omega

/-! ## the look-ahead of a state positioned at a suffix -/

theorem look_ascii {b : Nat} (r : List Nat) (h0 : 0 < b) (h1 : b < 0x80) :
    look (b :: r) = ((b : Int), 1) := by
  simp only [look, decodeRune]
  split
  · omega
  · split
    · simp
    · rfl

theorem look_width_le (x : List Nat) : (look x).2 ≤ x.length := by
  cases x with
  | nil => simp [look]
  | cons b r =>
    simp only [look]
    split
    · simp
    · split
      · exact decodeRune_width_le _
      · simp

theorem look_width_pos (b : Nat) (r : List Nat) : 1 ≤ (look (b :: r)).2 := by
  simp only [look]
  split
  · simp
  · split
    · exact decodeRune_width_pos _ _
    · simp

/-- the rune at the head is `< 0x80` only if it is the head byte -/
theorem look_fst_ascii {b : Nat} {r : List Nat} (h : (look (b :: r)).1 < 0x80) :
    look (b :: r) = ((b : Int), 1) ∧ b < 0x80 := by
  by_cases h0 : b = 0
  · subst h0; simp [look]
  · by_cases h1 : b < 0x80
    · exact ⟨look_ascii r (by omega) h1, h1⟩
    · exfalso
      have := decodeRune_ge b r (by omega)
      simp only [look, h0, if_false] at h
      rw [if_pos (by omega)] at h
      omega

theorem look_width_prefix (b : Nat) (p : List Nat) (c : Nat) (q : List Nat) (hc : c < 0x80) :
    (look (b :: p ++ c :: q)).2 ≤ p.length + 1 := by
  simp only [List.cons_append, look]
  split
  · simp
  · split
    · exact decodeRune_width_prefix b p c q hc
    · simp

/-- `s` is positioned at the suffix `x`: `x = src[pos.Offset:]`, `ch` is its first rune and
    `offset` is just behind it -/
structure At (x : List Nat) (s : FSt) : Prop where
  cur : s.cur = x
  ch : s.ch = (look x).1
  off : s.offset = s.pos + (look x).2

theorem next_at {x : List Nat} {s : FSt} (h : At x s) :
    At (x.drop (look x).2) (next s) ∧ (next s).pos = s.pos + (look x).2 := by
  have hd : s.cur.drop (s.offset - s.pos) = x.drop (look x).2 := by
    rw [h.cur, h.off]; congr 1; omega
  unfold next
  split
  next heq =>
    rw [hd] at heq
    have hl : x.length ≤ (look x).2 := by
      have := congrArg List.length heq
      simp at this; omega
    have hl2 := look_width_le x
    rw [heq]
    refine ⟨⟨rfl, rfl, ?_⟩, ?_⟩
    · show s.offset = s.pos + s.cur.length + 0
      rw [h.cur, h.off]; omega
    · simp only [h.cur]; omega
  next b rest heq =>
    rw [hd] at heq
    rw [heq]
    exact ⟨⟨rfl, rfl, rfl⟩, h.off⟩

/-! ## white space -/

/-- the four white-space bytes of `skipWhitespace` -/
def isWsByte (b : Nat) : Bool := b == 32 || b == 9 || b == 10 || b == 13

/-- a (possibly empty) run of white-space bytes -/
def WsRun (w : List Nat) : Prop := ∀ b ∈ w, isWsByte b = true

/-- `x` does not begin with a white-space byte (it may be empty) -/
def NoWsHead (x : List Nat) : Prop := ∀ b r, x = b :: r → isWsByte b = false

theorem isWsByte_cases {b : Nat} (h : isWsByte b = true) : b = 32 ∨ b = 9 ∨ b = 10 ∨ b = 13 := by
  simp [isWsByte] at h; omega

theorem look_ws {b : Nat} (r : List Nat) (h : isWsByte b = true) : look (b :: r) = ((b : Int), 1) := by
  rcases isWsByte_cases h with h | h | h | h <;> subst h <;> rfl

theorem isWs_ofNat (b : Nat) : isWs (b : Int) = isWsByte b := by
  rw [Bool.eq_iff_iff]
  simp [isWs, isWsByte]
  omega

theorem isWs_lt {c : Int} (h : isWs c = true) : 0 < c ∧ c < 0x80 := by
  simp [isWs] at h; omega

/-- the look-ahead rune of a suffix that does not begin with white space is not white space -/
theorem isWs_look {x : List Nat} (h : NoWsHead x) : isWs (look x).1 = false := by
  cases x with
  | nil => rfl
  | cons b r =>
    cases hw : isWs (look (b :: r)).1 with
    | false => rfl
    | true =>
      have h1 := isWs_lt hw
      have h2 := (look_fst_ascii (b := b) (r := r) (by omega)).1
      rw [h2] at hw
      rw [isWs_ofNat, h b r rfl] at hw
      cases hw

theorem wsLoop_at {w : List Nat} (hw : WsRun w) {x : List Nat} (hx : NoWsHead x) :
    ∀ (f : Nat) (s : FSt), w.length < f → At (w ++ x) s →
      At x (wsLoop f s) ∧ (wsLoop f s).pos = s.pos + w.length := by
  induction w with
  | nil =>
    intro f s hf h
    cases f with
    | zero => omega
    | succ f =>
      simp only [wsLoop, List.nil_append] at *
      rw [h.ch, isWs_look hx]
      exact ⟨h, rfl⟩
  | cons b w ih =>
    intro f s hf h
    cases f with
    | zero => omega
    | succ f =>
      have hb : isWsByte b = true := hw b (by simp)
      have hl := look_ws (w ++ x) hb
      simp only [wsLoop]
      rw [h.ch, List.cons_append, hl, isWs_ofNat, hb]
      simp only [if_true]
      have hn := next_at h
      simp only [List.cons_append, hl, List.drop_succ_cons, List.drop_zero] at hn
      have := ih (fun c hc => hw c (by simp [hc])) f (next s) (by simpa using hf) hn.1
      refine ⟨this.1, ?_⟩
      rw [this.2, hn.2]; simp; omega

theorem skipWhitespace_at {w x : List Nat} (hw : WsRun w) (hx : NoWsHead x) {s : FSt}
    (h : At (w ++ x) s) :
    At x (skipWhitespace s) ∧ (skipWhitespace s).pos = s.pos + w.length :=
  wsLoop_at hw hx _ s (by simp [fuel, h.cur]; omega) h

/-! ## end of input -/

theorem slice_self (p : FPos) (n : Nat) : slice p p.offset n = p.tail.take (n - p.offset) := by
  simp [slice]

theorem scanOnce_eof (u : UnicodeOracle) {s : FSt} (h : At [] s) :
    scanOnce u s = (some (mkTok tEOF (position s) (next s)), next s) ∧
      (mkTok tEOF (position s) (next s)).lit = [] ∧ At [] (next s) := by
  have hch : s.ch = -1 := h.ch
  refine ⟨?_, ?_, (next_at h).1⟩
  · simp only [scanOnce, hch]
    rw [if_neg (by simp [isLetter])]
    simp only [if_true]
  · simp [mkTok, slice, position, h.cur]

/-! ## comments -/

theorem look_fst_nonneg (b : Nat) (r : List Nat) : 0 ≤ (look (b :: r)).1 := by
  by_cases h : (look (b :: r)).1 < 0x80
  · rw [(look_fst_ascii h).1]; simp
  · omega

/-- `*/` does not occur in `body` -/
def NoStarSlash (body : List Nat) : Prop := ¬ [42, 47] <:+: body

theorem drop_append_cons {b : Nat} {p rest : List Nat} {w : Nat} (h : w ≤ p.length + 1) :
    (b :: (p ++ rest)).drop w = (b :: p).drop w ++ rest := by
  rw [← List.cons_append]
  exact List.drop_append_of_le_length (by simpa using h)

theorem blockCommentLoop_at (g : List Nat) :
    ∀ (n : Nat) (body : List Nat), body.length ≤ n → NoStarSlash body →
    ∀ (f : Nat) (s : FSt), body.length + 1 < f → At (body ++ 42 :: 47 :: g) s →
      ∃ s', blockCommentLoop f s = (true, s') ∧ At g s' := by
  intro n
  induction n with
  | zero =>
    intro body hn _ f s hf h
    have : body = [] := List.eq_nil_of_length_eq_zero (by omega)
    subst this
    cases f with
    | zero => omega
    | succ f =>
      simp only [List.nil_append] at h
      have h1 := next_at h
      rw [look_ascii _ (by omega) (by omega)] at h1
      simp only [List.drop_succ_cons, List.drop_zero] at h1
      have h2 := next_at h1.1
      rw [look_ascii _ (by omega) (by omega)] at h2
      simp only [List.drop_succ_cons, List.drop_zero] at h2
      refine ⟨next (next s), ?_, h2.1⟩
      have c0 : s.ch = 42 := by rw [h.ch, look_ascii _ (by omega) (by omega)]; rfl
      have c1 : (next s).ch = 47 := by rw [h1.1.ch, look_ascii _ (by omega) (by omega)]; rfl
      simp [blockCommentLoop, c0, c1]
  | succ n ih =>
    intro body hn hns f s hf h
    cases body with
    | nil => exact ih [] (by simp) hns f s hf h
    | cons b body' =>
      cases f with
      | zero => omega
      | succ f =>
        have hw1 := look_width_pos b (body' ++ 42 :: 47 :: g)
        have hw2 := look_width_prefix b body' 42 (47 :: g) (by omega)
        have h1 := next_at h
        simp only [List.cons_append] at h1 hw1 hw2
        rw [drop_append_cons hw2] at h1
        have hnn := look_fst_nonneg b (body' ++ 42 :: 47 :: g)
        have hcond : ¬ (s.ch = 42 ∧ (next s).ch = 47) := by
          rintro ⟨c0, c1⟩
          rw [h.ch] at c0
          have ha := look_fst_ascii (b := b) (r := body' ++ 42 :: 47 :: g) (by
            simp only [List.cons_append] at c0; omega)
          simp only [List.cons_append] at c0 ha
          rw [ha.1] at c0 hw1 hw2 h1
          have hb : b = 42 := by simp only [] at c0; omega
          subst hb
          simp only [List.drop_succ_cons, List.drop_zero] at h1
          rw [h1.1.ch] at c1
          cases body' with
          | nil =>
            simp only [List.nil_append] at c1
            rw [look_ascii _ (by omega) (by omega)] at c1
            simp at c1
          | cons b1 r =>
            have hb := look_fst_ascii (b := b1) (r := r ++ 42 :: 47 :: g) (by
              simp only [List.cons_append] at c1; omega)
            simp only [List.cons_append] at c1
            rw [hb.1] at c1
            have : b1 = 47 := by simp only [] at c1; omega
            subst this
            exact hns ⟨[], r, by simp⟩
        have hge : s.ch ≥ 0 := by rw [h.ch]; simpa using hnn
        simp only [blockCommentLoop, hge, if_true, hcond, if_false]
        have hlen : ((b :: body').drop (look (b :: (body' ++ 42 :: 47 :: g))).2).length ≤ n := by
          simp only [List.length_drop, List.length_cons] at *; omega
        refine ih _ hlen ?_ f (next s) ?_ h1.1
        · intro hin
          exact hns (List.IsInfix.trans hin (List.drop_suffix _ _).isInfix)
        · simp only [List.length_drop, List.length_cons] at *; omega

theorem lineDirective_at {x : List Nat} (p : FPos) {s : FSt} (h : At x s) :
    At x (lineDirective p s) := by
  simp only [lineDirective]
  repeat' split
  all_goals first | exact h | exact ⟨h.cur, h.ch, h.off⟩

/-- the `//` loop started anywhere inside the comment stops at the newline -/
theorem lineCommentLoop_at (p : FPos) (g : List Nat) :
    ∀ (n : Nat) (b : Nat) (y : List Nat), y.length ≤ n → (∀ c ∈ y, c ≠ 10) →
    ∀ (f : Nat) (s : FSt), y.length + 1 < f → At (b :: (y ++ 10 :: g)) s →
      At (10 :: g) (lineCommentLoop p f s) := by
  intro n
  induction n with
  | zero =>
    intro b y hn _ f s hf h
    have : y = [] := List.eq_nil_of_length_eq_zero (by omega)
    subst this
    cases f with
    | zero => omega
    | succ f =>
      have hw1 := look_width_pos b ([] ++ 10 :: g)
      have hw2 := look_width_prefix b [] 10 g (by omega)
      have h1 := next_at h
      simp only [List.cons_append, List.nil_append, List.length_nil] at h1 hw1 hw2
      have hw : (look (b :: 10 :: g)).2 = 1 := by omega
      rw [hw] at h1
      simp only [List.drop_succ_cons, List.drop_zero] at h1
      have hge : s.ch ≥ 0 := by rw [h.ch]; exact look_fst_nonneg _ _
      have c1 : (next s).ch = 10 := by rw [h1.1.ch, look_ascii _ (by omega) (by omega)]; rfl
      simp only [lineCommentLoop, hge, if_true, c1]
      exact lineDirective_at p h1.1
  | succ n ih =>
    intro b y hn hy f s hf h
    cases y with
    | nil => exact ih b [] (by simp) hy f s hf h
    | cons b1 y' =>
      cases f with
      | zero => omega
      | succ f =>
        have hw1 := look_width_pos b (b1 :: y' ++ 10 :: g)
        have hw2 := look_width_prefix b (b1 :: y') 10 g (by omega)
        have h1 := next_at h
        simp only [List.cons_append, List.length_cons] at h1 hw1 hw2
        have hge : s.ch ≥ 0 := by rw [h.ch]; exact look_fst_nonneg _ _
        simp only [lineCommentLoop, hge, if_true]
        -- what remains after the rune at `b`
        have hd0 : (b :: b1 :: (y' ++ 10 :: g)).drop (look (b :: b1 :: (y' ++ 10 :: g))).2
            = (b1 :: y').drop ((look (b :: b1 :: (y' ++ 10 :: g))).2 - 1) ++ 10 :: g := by
          obtain ⟨k, hk⟩ : ∃ k, (look (b :: b1 :: (y' ++ 10 :: g))).2 = k + 1 :=
            ⟨(look (b :: b1 :: (y' ++ 10 :: g))).2 - 1, by omega⟩
          rw [hk]
          simp only [List.drop_succ_cons, Nat.add_sub_cancel]
          rw [← List.cons_append]
          exact List.drop_append_of_le_length (by simp; omega)
        rw [hd0] at h1
        generalize hk : (look (b :: b1 :: (y' ++ 10 :: g))).2 - 1 = k at h1
        have hdl : ((b1 :: y').drop k).length ≤ y'.length + 1 := by simp
        have hdm : ∀ c ∈ (b1 :: y').drop k, c ≠ 10 := fun c hc => hy c (List.mem_of_mem_drop hc)
        generalize (b1 :: y').drop k = d at h1 hdl hdm
        cases d with
        | nil =>
          simp only [List.nil_append] at h1
          have c1 : (next s).ch = 10 := by rw [h1.1.ch, look_ascii _ (by omega) (by omega)]; rfl
          simp only [c1, if_true]
          exact lineDirective_at p h1.1
        | cons b2 y2 =>
          simp only [List.cons_append] at h1
          have c1 : (next s).ch ≠ 10 := by
            intro c1
            rw [h1.1.ch] at c1
            have ha := look_fst_ascii (b := b2) (r := y2 ++ 10 :: g) (by omega)
            rw [ha.1] at c1
            have : b2 = 10 := by simp only [] at c1; omega
            exact hdm b2 (by simp) this
          simp only [c1, if_false]
          simp only [List.length_cons] at hdl hn hf
          exact ih b2 y2 (by omega) (fun c hc => hdm c (by simp [hc])) f (next s) (by omega) h1.1

theorem next_at_ascii {b : Nat} {x : List Nat} {s : FSt} (h : At (b :: x) s)
    (h0 : 0 < b) (h1 : b < 0x80) :
    s.ch = (b : Int) ∧ At x (next s) ∧ (next s).pos = s.pos + 1 := by
  have hn := next_at h
  rw [look_ascii _ h0 h1] at hn
  refine ⟨by rw [h.ch, look_ascii _ h0 h1], hn.1, hn.2⟩

/-- `/* body */` is consumed by one pass of `Scan`, which then jumps to `scanAgain` -/
theorem scanOnce_block (u : UnicodeOracle) {body g : List Nat} (hb : NoStarSlash body) {s : FSt}
    (h : At (47 :: 42 :: (body ++ 42 :: 47 :: g)) s) :
    ∃ s', scanOnce u s = (none, s') ∧ At g s' := by
  obtain ⟨c0, h1, _⟩ := next_at_ascii h (by omega) (by omega)
  obtain ⟨c1, h2, _⟩ := next_at_ascii h1 (by omega) (by omega)
  obtain ⟨s', hs', hat⟩ := blockCommentLoop_at g _ body (Nat.le_refl _) hb (fuel (next (next s)))
    (next (next s)) (by simp [fuel, h2.cur]; omega) h2
  refine ⟨s', ?_, hat⟩
  simp [scanOnce, c0, c1, isLetter, scanComment, expect, hs']

/-- `// body` up to (not including) the newline is consumed by one pass of `Scan` -/
theorem scanOnce_line (u : UnicodeOracle) {body g : List Nat} (hb : ∀ c ∈ body, c ≠ 10) {s : FSt}
    (h : At (47 :: 47 :: (body ++ 10 :: g)) s) :
    ∃ s', scanOnce u s = (none, s') ∧ At (10 :: g) s' := by
  obtain ⟨c0, h1, _⟩ := next_at_ascii h (by omega) (by omega)
  obtain ⟨c1, _, _⟩ := next_at_ascii h1 (by omega) (by omega)
  have := lineCommentLoop_at (position s) g _ 47 body (Nat.le_refl _) hb (fuel (next s))
    (next s) (by simp [fuel, h1.cur]; omega) h1
  refine ⟨_, ?_, this⟩
  simp [scanOnce, c0, c1, isLetter, scanComment]

/-! ## gaps: white space and comments between tokens -/

/-- A gap: white-space runs and comments (`/* body */` with no `*/` in `body`, `// body` newline).
    The index counts the comments. -/
inductive Gap : Nat → List Nat → Prop
  | ws {w : List Nat} : WsRun w → Gap 0 w
  | block {w body : List Nat} {n : Nat} {g : List Nat} : WsRun w → NoStarSlash body → Gap n g →
      Gap (n + 1) (w ++ 47 :: 42 :: (body ++ 42 :: 47 :: g))
  | line {w body : List Nat} {n : Nat} {g : List Nat} : WsRun w → (∀ c ∈ body, c ≠ 10) →
      Gap n (10 :: g) → Gap (n + 1) (w ++ 47 :: 47 :: (body ++ 10 :: g))

theorem Gap.count_le {n : Nat} {g : List Nat} (h : Gap n g) : n ≤ g.length := by
  induction h with
  | ws _ => omega
  | block _ _ _ ih => simp; omega
  | line _ _ _ ih => simp at ih ⊢; omega

theorem noWsHead_cons {b : Nat} {r : List Nat} (h : isWsByte b = false) : NoWsHead (b :: r) := by
  intro b' r' he
  cases he; exact h

/-- one call of `Scan` positioned at a gap followed by `x` behaves like the body of `Scan`
    positioned at `x` -/
theorem scanLoop_gap (u : UnicodeOracle) {n : Nat} {g : List Nat} (hg : Gap n g) {x : List Nat}
    (hx : NoWsHead x) :
    ∀ (s : FSt), At (g ++ x) s → ∃ s1, At x s1 ∧ ∀ k, scanLoop u (n + k + 1) s =
      (match scanOnce u s1 with
       | (some t, s2) => (t, s2)
       | (none, s2) => scanLoop u k s2) := by
  induction hg with
  | ws hw =>
    intro s h
    refine ⟨skipWhitespace s, (skipWhitespace_at hw hx h).1, ?_⟩
    intro k
    rw [Nat.zero_add]; rfl
  | @block w body n g hw hb _ ih =>
    intro s h
    have e : w ++ 47 :: 42 :: (body ++ 42 :: 47 :: g) ++ x
        = w ++ 47 :: 42 :: (body ++ 42 :: 47 :: (g ++ x)) := by simp
    rw [e] at h
    have h0 := (skipWhitespace_at hw (noWsHead_cons (by decide)) h).1
    obtain ⟨s', hs', hat⟩ := scanOnce_block u hb h0
    obtain ⟨s1, h1, hk⟩ := ih s' hat
    refine ⟨s1, h1, ?_⟩
    intro k
    have : n + 1 + k + 1 = (n + k + 1) + 1 := by omega
    rw [this]
    simp only [scanLoop, hs']
    exact hk k
  | @line w body n g hw hb _ ih =>
    intro s h
    have e : w ++ 47 :: 47 :: (body ++ 10 :: g) ++ x
        = w ++ 47 :: 47 :: (body ++ 10 :: (g ++ x)) := by simp
    rw [e] at h
    have h0 := (skipWhitespace_at hw (noWsHead_cons (by decide)) h).1
    obtain ⟨s', hs', hat⟩ := scanOnce_line u hb h0
    obtain ⟨s1, h1, hk⟩ := ih s' hat
    refine ⟨s1, h1, ?_⟩
    intro k
    have : n + 1 + k + 1 = (n + k + 1) + 1 := by omega
    rw [this]
    simp only [scanLoop, hs']
    exact hk k

theorem wsRun_cons {b : Nat} {w : List Nat} (hb : isWsByte b = true) (hw : WsRun w) :
    WsRun (b :: w) := by
  intro c hc
  cases hc with
  | head => exact hb
  | tail _ h => exact hw c h

theorem wsRun_nil : WsRun [] := fun _ h => nomatch h

theorem wsRun_append {w1 w2 : List Nat} (h1 : WsRun w1) (h2 : WsRun w2) : WsRun (w1 ++ w2) := by
  intro c hc
  rcases List.mem_append.1 hc with h | h
  · exact h1 c h
  · exact h2 c h

/-- white space in front of a gap -/
theorem Gap.ws_append {w : List Nat} (hw : WsRun w) {n : Nat} {g : List Nat} (h : Gap n g) :
    Gap n (w ++ g) := by
  cases h with
  | ws h => exact .ws (wsRun_append hw h)
  | block h1 h2 h3 => rw [← List.append_assoc]; exact .block (wsRun_append hw h1) h2 h3
  | line h1 h2 h3 => rw [← List.append_assoc]; exact .line (wsRun_append hw h1) h2 h3

/-! ## token spellings and layouts -/

/-- `x` is empty or begins with a white-space byte -/
def FollowOK (x : List Nat) : Prop := x = [] ∨ ∃ b r, x = b :: r ∧ isWsByte b = true

/-- The spelling `t` is scanned as exactly one token of type `ty` by the body of `Scan` whenever
    it is followed by a white-space byte or by the end of the input, in any scanner state
    positioned at it. -/
def ScansAs (u : UnicodeOracle) (t : List Nat) (ty : Int) : Prop :=
  ty ≠ tEOF ∧ t ≠ [] ∧ NoWsHead t ∧
  ∀ (x : List Nat) (s : FSt), FollowOK x → At (t ++ x) s →
    ∃ tok s', scanOnce u s = (some tok, s') ∧ tok.type = ty ∧ tok.lit = t ∧ At x s'

/-- `Layout u ts y`: the text `y` is gap, token, gap, token, …, gap where the tokens are the
    spellings (with their types) `ts` and every token is followed by white space or the end -/
inductive Layout (u : UnicodeOracle) : List (List Nat × Int) → List Nat → Prop
  | nil {n : Nat} {g : List Nat} : Gap n g → Layout u [] g
  | cons {n : Nat} {g t : List Nat} {ty : Int} {x : List Nat} {ts : List (List Nat × Int)} :
      Gap n g → ScansAs u t ty → FollowOK x → Layout u ts x →
      Layout u ((t, ty) :: ts) (g ++ (t ++ x))

theorem Layout.length_le {u : UnicodeOracle} {ts : List (List Nat × Int)} {y : List Nat}
    (h : Layout u ts y) : ts.length ≤ y.length := by
  induction h with
  | nil _ => simp
  | @cons n g t ty x ts _ ht _ _ ih =>
    have : 0 < t.length := List.length_pos_iff.2 ht.2.1
    simp; omega

theorem noWsHead_append {t x : List Nat} (ht : t ≠ []) (h : NoWsHead t) : NoWsHead (t ++ x) := by
  cases t with
  | nil => exact absurd rfl ht
  | cons b r =>
    intro b' r' he
    simp only [List.cons_append, List.cons.injEq] at he
    exact h b' r (by rw [he.1])

theorem fscan_gap_token (u : UnicodeOracle) {n : Nat} {g t : List Nat} {ty : Int} {x : List Nat}
    (hg : Gap n g) (ht : ScansAs u t ty) (hx : FollowOK x) {s : FSt} (h : At (g ++ (t ++ x)) s) :
    ∃ tok s', fscan u s = (tok, s') ∧ tok.type = ty ∧ tok.lit = t ∧ At x s' := by
  obtain ⟨s1, h1, hk⟩ := scanLoop_gap u hg (noWsHead_append ht.2.1 ht.2.2.1) s h
  obtain ⟨tok, s', hs, h2, h3, h4⟩ := ht.2.2.2 x s1 hx h1
  refine ⟨tok, s', ?_, h2, h3, h4⟩
  have hn := hg.count_le
  have : fuel s = n + (fuel s - n - 1) + 1 := by
    simp only [fuel, h.cur, List.length_append]; omega
  rw [fscan, this, hk, hs]

theorem fscan_gap_eof (u : UnicodeOracle) {n : Nat} {g : List Nat} (hg : Gap n g) {s : FSt}
    (h : At g s) :
    ∃ tok s', fscan u s = (tok, s') ∧ tok.type = tEOF ∧ tok.lit = [] := by
  obtain ⟨s1, h1, hk⟩ := scanLoop_gap u hg (x := []) (fun _ _ he => nomatch he) s
    (by rw [List.append_nil]; exact h)
  obtain ⟨hs, h2, _⟩ := scanOnce_eof u h1
  refine ⟨mkTok tEOF (position s1) (next s1), next s1, ?_, rfl, h2⟩
  have hn := hg.count_le
  have : fuel s = n + (fuel s - n - 1) + 1 := by
    simp only [fuel, h.cur]; omega
  rw [fscan, this, hk, hs]

/-- type and literal bytes of a token -/
def key (t : FTok) : Int × List Nat := (t.type, t.lit)

/-- the stream of a layout is its list of tokens followed by the end-of-input token -/
theorem fscanN_layout (u : UnicodeOracle) {ts : List (List Nat × Int)} {y : List Nat}
    (hl : Layout u ts y) :
    ∀ (N : Nat) (s : FSt), ts.length < N → At y s →
      (fscanN u N s).1.map key = ts.map (fun p => (p.2, p.1)) ++ [(tEOF, [])] := by
  induction hl with
  | nil hg =>
    intro N s hN h
    cases N with
    | zero => omega
    | succ N =>
      obtain ⟨tok, s', hs, h1, h2⟩ := fscan_gap_eof u hg h
      simp [fscanN, hs, h1, key, h2]
  | @cons n g t ty x ts hg ht hx _ ih =>
    intro N s hN h
    cases N with
    | zero => omega
    | succ N =>
      obtain ⟨tok, s', hs, h1, h2, h3⟩ := fscan_gap_token u hg ht hx h
      have := ih N s' (by simpa using hN) h3
      simp [fscanN, hs, h1, ht.1, key, h2, this]

theorem init_at (src : List Nat) : At src (init src) := by
  cases src with
  | nil => exact ⟨rfl, rfl, rfl⟩
  | cons b r => exact ⟨rfl, rfl, rfl⟩

/-- the (type, literal) stream of `fscanAll` -/
def tokStream (u : UnicodeOracle) (src : List Nat) : List (Int × List Nat) :=
  (fscanAll u src).1.map key

theorem tokStream_layout (u : UnicodeOracle) {ts : List (List Nat × Int)} {y : List Nat}
    (hl : Layout u ts y) : tokStream u y = ts.map (fun p => (p.2, p.1)) ++ [(tEOF, [])] :=
  fscanN_layout u hl _ _ (by have := hl.length_le; omega) (init_at y)

/-! ## rendering token spellings with separators -/

/-- `t₁ s₁ t₂ s₂ … tₙ`: token spellings interleaved with separators (`seps.length = ts.length - 1`) -/
def render : List (List Nat) → List (List Nat) → List Nat
  | t :: ts, s :: seps => t ++ s ++ render ts seps
  | t :: _, [] => t
  | [], _ => []

/-- a gap (white space and comments) -/
def IsGap (g : List Nat) : Prop := ∃ n, Gap n g

/-- a separator between two tokens: a gap that begins with a white-space byte -/
def IsSep (g : List Nat) : Prop := IsGap g ∧ ∃ b r, g = b :: r ∧ isWsByte b = true

theorem Gap.append {n m : Nat} {g h : List Nat} (hg : Gap n g) (hh : Gap m h) :
    Gap (n + m) (g ++ h) := by
  induction hg with
  | ws hw => rw [Nat.zero_add]; exact hh.ws_append hw
  | @block w body n g hw hb _ ih =>
    have e : w ++ 47 :: 42 :: (body ++ 42 :: 47 :: g) ++ h
        = w ++ 47 :: 42 :: (body ++ 42 :: 47 :: (g ++ h)) := by simp
    have e2 : n + 1 + m = n + m + 1 := by omega
    rw [e, e2]; exact .block hw hb ih
  | @line w body n g hw hb _ ih =>
    have e : w ++ 47 :: 47 :: (body ++ 10 :: g) ++ h
        = w ++ 47 :: 47 :: (body ++ 10 :: (g ++ h)) := by simp
    have e2 : n + 1 + m = n + m + 1 := by omega
    rw [e, e2]; exact .line hw hb ih

theorem IsGap.append {g h : List Nat} (hg : IsGap g) (hh : IsGap h) : IsGap (g ++ h) :=
  let ⟨_, a⟩ := hg; let ⟨_, b⟩ := hh; ⟨_, a.append b⟩

theorem isGap_ws {w : List Nat} (h : WsRun w) : IsGap w := ⟨0, .ws h⟩

theorem isSep_ws {w : List Nat} (h : WsRun w) (hne : w ≠ []) : IsSep w := by
  refine ⟨isGap_ws h, ?_⟩
  cases w with
  | nil => exact absurd rfl hne
  | cons b r => exact ⟨b, r, rfl, h b (by simp)⟩

/-- `/* body */` -/
def blockComment (body : List Nat) : List Nat := 47 :: 42 :: (body ++ [42, 47])
/-- `// body` and the newline -/
def lineComment (body : List Nat) : List Nat := 47 :: 47 :: (body ++ [10])

theorem isGap_blockComment {body : List Nat} (h : NoStarSlash body) : IsGap (blockComment body) := by
  have := Gap.block (w := []) (g := []) wsRun_nil h (.ws wsRun_nil)
  exact ⟨_, this⟩

theorem isGap_lineComment {body : List Nat} (h : ∀ c ∈ body, c ≠ 10) : IsGap (lineComment body) := by
  have := Gap.line (w := []) (g := []) wsRun_nil h (.ws (wsRun_cons (by decide) wsRun_nil))
  exact ⟨_, this⟩

theorem IsSep.of_ws_append {w g : List Nat} (hw : WsRun w) (hne : w ≠ []) (hg : IsGap g) :
    IsSep (w ++ g) := by
  refine ⟨(isGap_ws hw).append hg, ?_⟩
  cases w with
  | nil => exact absurd rfl hne
  | cons b r => exact ⟨b, r ++ g, rfl, hw b (by simp)⟩

/-- `ws ++ /* body */ ++ ws'` is a separator -/
theorem isSep_block {w w' body : List Nat} (hw : WsRun w) (hne : w ≠ []) (hb : NoStarSlash body)
    (hw' : WsRun w') : IsSep (w ++ blockComment body ++ w') := by
  rw [List.append_assoc]
  exact .of_ws_append hw hne ((isGap_blockComment hb).append (isGap_ws hw'))

/-- `ws ++ // body ⏎ ++ ws'` is a separator -/
theorem isSep_line {w w' body : List Nat} (hw : WsRun w) (hne : w ≠ []) (hb : ∀ c ∈ body, c ≠ 10)
    (hw' : WsRun w') : IsSep (w ++ lineComment body ++ w') := by
  rw [List.append_assoc]
  exact .of_ws_append hw hne ((isGap_lineComment hb).append (isGap_ws hw'))

theorem IsSep.followOK {g : List Nat} (h : IsSep g) (x : List Nat) : FollowOK (g ++ x) := by
  obtain ⟨_, b, r, rfl, hb⟩ := h
  exact .inr ⟨b, r ++ x, rfl, hb⟩

theorem layout_render (u : UnicodeOracle) {trail : List Nat} (htg : IsGap trail)
    (htf : FollowOK trail) :
    ∀ (tts : List (List Nat × Int)) (seps : List (List Nat)) (lead : List Nat),
      (∀ p ∈ tts, ScansAs u p.1 p.2) → (∀ s ∈ seps, IsSep s) → seps.length = tts.length - 1 →
      IsGap lead → Layout u tts (lead ++ (render (tts.map (·.1)) seps ++ trail)) := by
  intro tts
  induction tts with
  | nil =>
    intro seps lead _ _ _ hl
    obtain ⟨_, h⟩ := hl.append htg
    simpa [render] using Layout.nil h
  | cons p tts ih =>
    intro seps lead hp hs hlen hl
    obtain ⟨n, hl⟩ := hl
    cases tts with
    | nil =>
      obtain ⟨m, htg⟩ := htg
      have : seps = [] := List.eq_nil_of_length_eq_zero (by simpa using hlen)
      subst this
      simpa [render] using Layout.cons hl (hp p (by simp)) htf (.nil htg)
    | cons p' tts =>
      cases seps with
      | nil => simp at hlen
      | cons s seps =>
        have hsep : IsSep s := hs s (by simp)
        have := ih seps s (fun q hq => hp q (by simp [hq])) (fun q hq => hs q (by simp [hq]))
          (by simpa using hlen) hsep.1
        have e : lead ++ (render ((p :: p' :: tts).map (·.1)) (s :: seps) ++ trail)
            = lead ++ (p.1 ++ (s ++ (render ((p' :: tts).map (·.1)) seps ++ trail))) := by
          simp [render]
        rw [e]
        exact Layout.cons hl (hp p (by simp)) (hsep.followOK _) this

/-- The stream of `lead t₁ s₁ t₂ … tₙ trail` is `t₁ … tₙ` with their types, then end of input. -/
theorem tokStream_render (u : UnicodeOracle) (tts : List (List Nat × Int)) (seps : List (List Nat))
    (lead trail : List Nat) (htts : ∀ p ∈ tts, ScansAs u p.1 p.2) (hseps : ∀ s ∈ seps, IsSep s)
    (hlen : seps.length = tts.length - 1) (hlead : IsGap lead) (htrail : IsGap trail)
    (htf : FollowOK trail) :
    tokStream u (lead ++ render (tts.map (·.1)) seps ++ trail)
      = tts.map (fun p => (p.2, p.1)) ++ [(tEOF, [])] := by
  rw [List.append_assoc]
  exact tokStream_layout u (layout_render u htrail htf tts seps lead htts hseps hlen hlead)

/-- `t` is scanned as exactly one token (of some type) when followed by white space or the end -/
def ScansAsOne (u : UnicodeOracle) (t : List Nat) : Prop := ∃ ty, ScansAs u t ty

theorem exists_types (u : UnicodeOracle) (ts : List (List Nat)) (h : ∀ t ∈ ts, ScansAsOne u t) :
    ∃ tts : List (List Nat × Int), tts.map (·.1) = ts ∧ ∀ p ∈ tts, ScansAs u p.1 p.2 := by
  induction ts with
  | nil => exact ⟨[], rfl, fun _ h => nomatch h⟩
  | cons t ts ih =>
    obtain ⟨tts, h1, h2⟩ := ih (fun t' ht' => h t' (by simp [ht']))
    obtain ⟨ty, hty⟩ := h t (by simp)
    refine ⟨(t, ty) :: tts, by simp [h1], ?_⟩
    intro p hp
    cases hp with
    | head => exact hty
    | tail _ hp => exact h2 p hp

/-- Layout independence: two renderings of the same token spellings with arbitrary gaps
    (white space and comments) have the same (type, literal) stream. -/
theorem tokStream_layout_invariant (u : UnicodeOracle) (ts : List (List Nat))
    (lead lead' trail trail' : List Nat) (seps seps' : List (List Nat))
    (hts : ∀ t ∈ ts, ScansAsOne u t)
    (hseps : ∀ s ∈ seps, IsSep s) (hseps' : ∀ s ∈ seps', IsSep s)
    (hlen : seps.length = ts.length - 1) (hlen' : seps'.length = ts.length - 1)
    (hlead : IsGap lead) (hlead' : IsGap lead')
    (htrail : IsGap trail ∧ FollowOK trail) (htrail' : IsGap trail' ∧ FollowOK trail') :
    tokStream u (lead ++ render ts seps ++ trail) = tokStream u (lead' ++ render ts seps' ++ trail') := by
  obtain ⟨tts, rfl, h⟩ := exists_types u ts hts
  rw [tokStream_render u tts seps lead trail h hseps (by simpa using hlen) hlead htrail.1 htrail.2,
    tokStream_render u tts seps' lead' trail' h hseps' (by simpa using hlen') hlead' htrail'.1 htrail'.2]

theorem followOK_ws {w : List Nat} (h : WsRun w) : FollowOK w := by
  cases w with
  | nil => exact .inl rfl
  | cons b r => exact .inr ⟨b, r, rfl, h b (by simp)⟩

/-! ## spellings that scan as one token -/

theorem mkTok_lit {t x : List Nat} {s s' : FSt} (h : At (t ++ x) s) (hp : s'.pos = s.pos + t.length)
    (ty : Int) : (mkTok ty (position s) s').lit = t := by
  simp [mkTok, slice, position, h.cur, hp]

/-- the look-ahead after a token that is followed by white space or the end of input -/
theorem followOK_ch {x : List Nat} (hx : FollowOK x) {s : FSt} (h : At x s) :
    s.ch = -1 ∨ s.ch = 32 ∨ s.ch = 9 ∨ s.ch = 10 ∨ s.ch = 13 := by
  rcases hx with rfl | ⟨b, r, rfl, hb⟩
  · exact .inl h.ch
  · have := h.ch
    rw [look_ws _ hb] at this
    rcases isWsByte_cases hb with rfl | rfl | rfl | rfl <;> simp [this]

/-- types of the one-byte tokens -/
def punctType : Nat → Option Int
  | 45 => some tMinus
  | 123 => some tLBrace
  | 125 => some tRBrace
  | 58 => some tColon
  | 59 => some tSemi
  | 44 => some tILLEGAL
  | 91 => some tLBrack
  | 93 => some tRBrack
  | 40 => some tLParen
  | 41 => some tRParen
  | 124 => some tBar
  | 46 => some tDot
  | 47 => some tILLEGAL
  | 60 => some tILLEGAL
  | _ => none

theorem scansAs_punct (u : UnicodeOracle) {c : Nat} {ty : Int} (hc : punctType c = some ty) :
    ScansAs u [c] ty := by
  have hcases : (c = 45 ∨ c = 123 ∨ c = 125 ∨ c = 58 ∨ c = 59 ∨ c = 44 ∨ c = 91 ∨ c = 93 ∨ c = 40 ∨
      c = 41 ∨ c = 124 ∨ c = 46 ∨ c = 47 ∨ c = 60) := by
    unfold punctType at hc
    split at hc <;> simp_all
  refine ⟨?_, by simp, ?_, ?_⟩
  · rcases hcases with h | h | h | h | h | h | h | h | h | h | h | h | h | h <;> subst h <;>
      cases hc <;> decide
  · rcases hcases with h | h | h | h | h | h | h | h | h | h | h | h | h | h <;> subst h <;>
      exact noWsHead_cons (by decide)
  · intro x s hx h
    have hlt : 0 < c ∧ c < 0x80 := by omega
    obtain ⟨c0, h1, hp⟩ := next_at_ascii h hlt.1 hlt.2
    have hlit := fun ty => mkTok_lit (t := [c]) h (s' := next s) (by simpa using hp) ty
    have hf := followOK_ch hx h1
    rcases hcases with h | h | h | h | h | h | h | h | h | h | h | h | h | h <;> subst h <;>
      cases hc <;>
      refine ⟨_, next s, ?_, rfl, hlit _, h1⟩ <;>
      simp [scanOnce, c0, isLetter] <;>
      rcases hf with hf | hf | hf | hf | hf <;> first | rfl | simp [hf, tILLEGAL]

/-- bytes of ASCII identifiers: letters, `_`, digits, `!` -/
def isIdentByte (b : Nat) : Bool :=
  (97 ≤ b && b ≤ 122) || (65 ≤ b && b ≤ 90) || b == 95 || (48 ≤ b && b ≤ 57) || b == 33

/-- first bytes of ASCII identifiers: letters, `_`, `!` -/
def isIdentStart (b : Nat) : Bool :=
  (97 ≤ b && b ≤ 122) || (65 ≤ b && b ≤ 90) || b == 95 || b == 33

/-- the token type `scanIdentifier` gives to the ASCII identifier `t` with first byte `b` -/
def identType (b : Nat) (t : List Nat) : Int :=
  if t = [105, 109, 112, 111, 114, 116] then tILLEGAL
  else if b = 33 then tIgnoredTokId
  else if b = 95 then tRegDefId
  else if 65 ≤ b ∧ b ≤ 90 then tProdId
  else tTokId

theorem identByte_cond (u : UnicodeOracle) {c : Nat} (h : isIdentByte c = true) :
    (isLetter u c || isDigit u c || (c : Int) == 33) = true ∧ 0 < c ∧ c < 0x80 := by
  have hc : (97 ≤ c ∧ c ≤ 122) ∨ (65 ≤ c ∧ c ≤ 90) ∨ c = 95 ∨ (48 ≤ c ∧ c ≤ 57) ∨ c = 33 := by
    simp [isIdentByte] at h; omega
  refine ⟨?_, by omega, by omega⟩
  simp only [isLetter, isDigit, Bool.or_eq_true, Bool.and_eq_true, decide_eq_true_eq, beq_iff_eq]
  omega

theorem follow_cond (u : UnicodeOracle) {c : Int}
    (h : c = -1 ∨ c = 32 ∨ c = 9 ∨ c = 10 ∨ c = 13) :
    (isLetter u c || isDigit u c || c == 33) = false := by
  rcases h with h | h | h | h | h <;> subst h <;> simp [isLetter, isDigit]

theorem identLoop_at (u : UnicodeOracle) {t : List Nat} (ht : ∀ c ∈ t, isIdentByte c = true)
    {x : List Nat} (hx : FollowOK x) :
    ∀ (f : Nat) (s : FSt), t.length < f → At (t ++ x) s →
      At x (identLoop u f s) ∧ (identLoop u f s).pos = s.pos + t.length := by
  induction t with
  | nil =>
    intro f s hf h
    cases f with
    | zero => omega
    | succ f =>
      simp only [identLoop, List.nil_append] at *
      rw [follow_cond u (followOK_ch hx h)]
      exact ⟨h, rfl⟩
  | cons b t ih =>
    intro f s hf h
    cases f with
    | zero => omega
    | succ f =>
      obtain ⟨hc, h0, h1⟩ := identByte_cond u (ht b (by simp))
      obtain ⟨c0, hn, hp⟩ := next_at_ascii h h0 h1
      simp only [identLoop]
      rw [c0, hc]
      simp only [if_true]
      have := ih (fun c hc => ht c (by simp [hc])) f (next s) (by simpa using hf) hn
      refine ⟨this.1, ?_⟩
      rw [this.2, hp]; simp; omega

/-- ASCII identifiers (`!x`, `_x`, `Abc`, `abc`, `import`) scan as one token -/
theorem scansAs_ident (u : UnicodeOracle) {b : Nat} {r : List Nat} (hb : isIdentStart b = true)
    (hr : ∀ c ∈ r, isIdentByte c = true) : ScansAs u (b :: r) (identType b (b :: r)) := by
  have hbc : (97 ≤ b ∧ b ≤ 122) ∨ (65 ≤ b ∧ b ≤ 90) ∨ b = 95 ∨ b = 33 := by
    simp [isIdentStart] at hb; omega
  have hall : ∀ c ∈ b :: r, isIdentByte c = true := by
    intro c hc
    cases hc with
    | head => simp [isIdentByte]; omega
    | tail _ h => exact hr c h
  refine ⟨?_, by simp, ?_, ?_⟩
  · simp only [identType]
    repeat' split
    all_goals decide
  · apply noWsHead_cons
    simp [isWsByte]; omega
  · intro x s hx h
    have hl := identLoop_at u hall hx (fuel s) s (by simp [fuel, h.cur]; omega) h
    have c0 : s.ch = (b : Int) := by
      rw [h.ch, List.cons_append, look_ascii _ (by omega) (by omega)]
    have hstart : (s.ch = 33 ∨ isLetter u s.ch = true) := by
      rw [c0]
      simp only [isLetter, Bool.or_eq_true, Bool.and_eq_true, decide_eq_true_eq, beq_iff_eq]
      omega
    have hup : isUpper u (b : Int) = decide (65 ≤ b ∧ b ≤ 90) := by
      have : (b : Int) < 128 := by omega
      simp only [isUpper, this, if_true]
      rw [Bool.eq_iff_iff]; simp; omega
    have hsl : slice (position s) (position s).offset (identLoop u (fuel s) s).pos = b :: r := by
      simp [slice, position, h.cur, hl.2]
    refine ⟨mkTok (scanIdentifier u (position s) s).1 (position s) (identLoop u (fuel s) s),
      identLoop u (fuel s) s, ?_, ?_, mkTok_lit h hl.2 _, hl.1⟩
    · simp only [scanOnce, hstart, if_true, scanIdentifier]
    · simp only [mkTok, scanIdentifier, hsl, identType, c0, hup]
      repeat' split
      all_goals first | rfl | (exfalso; simp_all <;> omega)

/-- `'c'` for a plain ASCII byte `c` (not NUL, newline, `'`, `\`) scans as a `char_lit` -/
theorem scansAs_charLit (u : UnicodeOracle) {c : Nat} (h0 : 0 < c) (h1 : c < 0x80)
    (hq : c ≠ 39) (hb : c ≠ 92) (hn : c ≠ 10) : ScansAs u [39, c, 39] tCharLit := by
  refine ⟨by decide, by simp, noWsHead_cons (by decide), ?_⟩
  intro x s hx h
  obtain ⟨c0, a1, p1⟩ := next_at_ascii h (by omega) (by omega)
  obtain ⟨c1, a2, p2⟩ := next_at_ascii a1 h0 h1
  obtain ⟨c2, a3, p3⟩ := next_at_ascii a2 (by omega) (by omega)
  have e1 : ¬ ((c : Int) = 39) := by omega
  have e2 : ¬ ((c : Int) = 10 ∨ (c : Int) < 0) := by omega
  have e3 : ¬ ((c : Int) = 92) := by omega
  have hloop : charLoop (fuel (next s)) 0 (next s) = (1, next (next s)) := by
    have : fuel (next s) = x.length + 2 + 1 + 1 := by simp [fuel, a1.cur]
    rw [this]
    simp [charLoop, c1, c2, e1, e2, e3]
  refine ⟨mkTok tCharLit (position s) (next (next (next s))), next (next (next s)), ?_, rfl,
    mkTok_lit h (by simp [p1, p2, p3]) _, a3⟩
  simp [scanOnce, c0, isLetter, scanChar, hloop]

theorem stringLoop_at {body : List Nat}
    (hb : ∀ c ∈ body, 0 < c ∧ c < 0x80 ∧ c ≠ 34 ∧ c ≠ 92 ∧ c ≠ 10) {x : List Nat} :
    ∀ (f : Nat) (s : FSt), body.length < f → At (body ++ 34 :: x) s →
      At (34 :: x) (stringLoop f s) ∧ (stringLoop f s).pos = s.pos + body.length := by
  induction body with
  | nil =>
    intro f s hf h
    cases f with
    | zero => omega
    | succ f =>
      have c0 : s.ch = 34 := by
        rw [h.ch, List.nil_append, look_ascii _ (by omega) (by omega)]; rfl
      simp only [stringLoop, c0]
      exact ⟨h, rfl⟩
  | cons c body ih =>
    intro f s hf h
    cases f with
    | zero => omega
    | succ f =>
      obtain ⟨h0, h1, hq, hbs, hn⟩ := hb c (by simp)
      obtain ⟨c0, a1, p1⟩ := next_at_ascii h h0 h1
      have e1 : (c : Int) ≠ 34 := by omega
      have e2 : ¬ ((c : Int) = 10 ∨ (c : Int) < 0) := by omega
      have e3 : ¬ ((c : Int) = 92) := by omega
      simp only [stringLoop, c0, e1, e2, e3, ne_eq, not_false_eq_true, if_true, if_false]
      have := ih (fun c hc => hb c (by simp [hc])) f (next s) (by simpa using hf) a1
      refine ⟨this.1, ?_⟩
      rw [this.2, p1]; simp; omega

/-- `"body"` with plain ASCII bytes (no NUL, newline, `"`, `\`) scans as a `string_lit` -/
theorem scansAs_stringLit (u : UnicodeOracle) {body : List Nat}
    (hb : ∀ c ∈ body, 0 < c ∧ c < 0x80 ∧ c ≠ 34 ∧ c ≠ 92 ∧ c ≠ 10) :
    ScansAs u (34 :: (body ++ [34])) tStringLit := by
  refine ⟨by decide, by simp, noWsHead_cons (by decide), ?_⟩
  intro x s hx h
  have e : 34 :: (body ++ [34]) ++ x = 34 :: (body ++ 34 :: x) := by simp
  rw [e] at h
  obtain ⟨c0, a1, p1⟩ := next_at_ascii h (by omega) (by omega)
  have hl := stringLoop_at hb (fuel (next s)) (next s) (by simp [fuel, a1.cur]; omega) a1
  obtain ⟨_, a3, p3⟩ := next_at_ascii hl.1 (by omega) (by omega)
  refine ⟨mkTok tStringLit (position s) (scanString (next s)), scanString (next s), ?_, rfl,
    ?_, a3⟩
  · simp [scanOnce, c0, isLetter]
  · rw [← e] at h
    exact mkTok_lit h (by simp only [scanString, p3, hl.2, p1]; simp; omega) _

theorem sdtLoop_at {body : List Nat} (hb : ∀ c ∈ body, 0 < c ∧ c < 0x80 ∧ c ≠ 62) {x : List Nat} :
    ∀ (f : Nat) (s : FSt), body.length < f → At (body ++ 62 :: 62 :: x) s →
      At (62 :: x) (sdtLoop f s) ∧ (sdtLoop f s).pos = s.pos + body.length + 1 := by
  induction body with
  | nil =>
    intro f s hf h
    cases f with
    | zero => omega
    | succ f =>
      obtain ⟨c0, a1, p1⟩ := next_at_ascii (b := 62) h (by omega) (by omega)
      obtain ⟨c1, _, _⟩ := next_at_ascii a1 (by omega) (by omega)
      simp [sdtLoop, c0, c1]
      exact ⟨a1, p1⟩
  | cons c body ih =>
    intro f s hf h
    cases f with
    | zero => omega
    | succ f =>
      obtain ⟨h0, h1, hq⟩ := hb c (by simp)
      obtain ⟨c0, a1, p1⟩ := next_at_ascii h h0 h1
      have e1 : ¬ ((c : Int) < 0) := by omega
      have e2 : ¬ ((c : Int) = 62) := by omega
      simp only [sdtLoop, c0, e1, e2, if_false]
      have := ih (fun c hc => hb c (by simp [hc])) f (next s) (by simpa using hf) a1
      refine ⟨this.1, ?_⟩
      rw [this.2, p1]; simp; omega

/-- `<< body >>` with plain ASCII bytes other than `>` scans as a `g_sdt_lit` -/
theorem scansAs_sdtLit (u : UnicodeOracle) {body : List Nat}
    (hb : ∀ c ∈ body, 0 < c ∧ c < 0x80 ∧ c ≠ 62) :
    ScansAs u (60 :: 60 :: (body ++ [62, 62])) tSdtLit := by
  refine ⟨by decide, by simp, noWsHead_cons (by decide), ?_⟩
  intro x s hx h
  have e : 60 :: 60 :: (body ++ [62, 62]) ++ x = 60 :: 60 :: (body ++ 62 :: 62 :: x) := by simp
  rw [e] at h
  obtain ⟨c0, a1, p1⟩ := next_at_ascii h (by omega) (by omega)
  obtain ⟨c1, a2, p2⟩ := next_at_ascii a1 (by omega) (by omega)
  have hl := sdtLoop_at hb (fuel (next (next s))) (next (next s))
    (by simp [fuel, a2.cur]; omega) a2
  obtain ⟨_, a3, p3⟩ := next_at_ascii hl.1 (by omega) (by omega)
  refine ⟨mkTok tSdtLit (position s) (scanSDTLit (next s)), scanSDTLit (next s), ?_, rfl,
    ?_, a3⟩
  · simp [scanOnce, c0, c1, isLetter]
  · rw [← e] at h
    exact mkTok_lit h (by simp only [scanSDTLit, p3, hl.2, p2, p1]; simp; omega) _

/-! ## invariants: predicates preserved by `next` and `error` are preserved by `Scan` -/

/-- a state predicate preserved by `next` and `error` -/
structure Closed (P : FSt → Prop) : Prop where
  next : ∀ s, P s → P (next s)
  error : ∀ s, P s → P (error s)

section closed
variable {P : FSt → Prop} (hc : Closed P)
include hc

omit hc in
theorem P_ite {c : Prop} [Decidable c] {a b : FSt} (ha : c → P a) (hb : ¬c → P b) :
    P (if c then a else b) := by
  split
  · exact ha ‹_›
  · exact hb ‹_›

theorem expect_closed (c : Int) {s : FSt} (h : P s) : P (expect c s) := by
  unfold expect; split
  · exact hc.next _ (hc.error _ h)
  · exact hc.next _ h

theorem lineCommentLoop_closed (p : FPos) (hl : ∀ s', P s' → P (lineDirective p s')) :
    ∀ (f : Nat) (s : FSt), P s → P (lineCommentLoop p f s) := by
  intro f; induction f with
  | zero => intro s h; exact h
  | succ f ih =>
    intro s h; simp only [lineCommentLoop]
    split
    · split
      · exact hl _ (hc.next _ h)
      · exact ih _ (hc.next _ h)
    · exact h

theorem blockCommentLoop_closed : ∀ (f : Nat) (s : FSt), P s → P (blockCommentLoop f s).2 := by
  intro f; induction f with
  | zero => intro s h; exact h
  | succ f ih =>
    intro s h; simp only [blockCommentLoop]
    split
    · split
      · exact hc.next _ (hc.next _ h)
      · exact ih _ (hc.next _ h)
    · exact h

theorem scanComment_closed (p : FPos) {s : FSt}
    (hl : s.ch = 47 → ∀ s', P s' → P (lineDirective p s')) (h : P s) : P (scanComment p s) := by
  unfold scanComment
  split
  next h47 => exact lineCommentLoop_closed hc p (hl h47) _ _ h
  next =>
    have := blockCommentLoop_closed hc (fuel (expect 42 s)) _ (expect_closed hc 42 h)
    simp only []
    split
    next heq => rw [heq] at this; exact this
    next heq => rw [heq] at this; exact hc.error _ this

theorem escDigits_closed (base : Nat) : ∀ (i x : Nat) (s : FSt), P s → P (escDigits base i x s).2 := by
  intro i; induction i with
  | zero => intro x s h; exact h
  | succ i ih =>
    intro x s h; simp only [escDigits]
    split
    · exact hc.error _ h
    · exact ih _ _ (hc.next _ h)

theorem escTail_closed (i base max : Nat) {s : FSt} (h : P s) : P (escTail i base max s) := by
  have := escDigits_closed hc base i 0 s h
  unfold escTail
  split
  next heq => rw [heq] at this; exact this
  next heq =>
    rw [heq] at this
    split
    · exact hc.error _ this
    · exact this

theorem scanEscape_closed {s : FSt} (h : P s) : P (scanEscape s) := by
  unfold scanEscape
  simp only []
  repeat' split
  all_goals first
    | exact hc.next _ h
    | exact escTail_closed hc _ _ _ h
    | exact escTail_closed hc _ _ _ (hc.next _ h)
    | exact hc.error _ (hc.next _ h)

theorem charLoop_closed : ∀ (f n : Nat) (s : FSt), P s → P (charLoop f n s).2 := by
  intro f; induction f with
  | zero => intro n s h; exact h
  | succ f ih =>
    intro n s h; simp only [charLoop]
    repeat' split
    · exact hc.error _ (hc.next _ h)
    · exact ih _ _ (scanEscape_closed hc (hc.next _ h))
    · exact ih _ _ (hc.next _ h)
    · exact h

theorem scanChar_closed {s : FSt} (h : P s) : P (scanChar s) := by
  unfold scanChar
  simp only []
  split
  · exact hc.error _ (hc.next _ (charLoop_closed hc _ _ _ h))
  · exact hc.next _ (charLoop_closed hc _ _ _ h)

theorem identLoop_closed (u : UnicodeOracle) : ∀ (f : Nat) (s : FSt), P s → P (identLoop u f s) := by
  intro f; induction f with
  | zero => intro s h; exact h
  | succ f ih =>
    intro s h; simp only [identLoop]
    split
    · exact ih _ (hc.next _ h)
    · exact h

theorem sdtLoop_closed : ∀ (f : Nat) (s : FSt), P s → P (sdtLoop f s) := by
  intro f; induction f with
  | zero => intro s h; exact h
  | succ f ih =>
    intro s h; simp only [sdtLoop]
    repeat' split
    · exact hc.error _ h
    · exact hc.next _ h
    · exact ih _ (hc.next _ (hc.next _ h))
    · exact ih _ (hc.next _ h)

theorem scanSDTLit_closed {s : FSt} (h : P s) : P (scanSDTLit s) :=
  hc.next _ (sdtLoop_closed hc _ _ (hc.next _ h))

theorem stringLoop_closed : ∀ (f : Nat) (s : FSt), P s → P (stringLoop f s) := by
  intro f; induction f with
  | zero => intro s h; exact h
  | succ f ih =>
    intro s h; simp only [stringLoop]
    repeat' split
    · exact hc.error _ (hc.next _ h)
    · exact ih _ (scanEscape_closed hc (hc.next _ h))
    · exact ih _ (hc.next _ h)
    · exact h

theorem scanString_closed {s : FSt} (h : P s) : P (scanString s) :=
  hc.next _ (stringLoop_closed hc _ _ h)

theorem rawLoop_closed : ∀ (f : Nat) (s : FSt), P s → P (rawLoop f s) := by
  intro f; induction f with
  | zero => intro s h; exact h
  | succ f ih =>
    intro s h; simp only [rawLoop]
    repeat' split
    · exact hc.error _ (hc.next _ h)
    · exact ih _ (hc.next _ h)
    · exact h

theorem scanRawString_closed {s : FSt} (h : P s) : P (scanRawString s) :=
  hc.next _ (rawLoop_closed hc _ _ h)

theorem wsLoop_closed : ∀ (f : Nat) (s : FSt), P s → P (wsLoop f s) := by
  intro f; induction f with
  | zero => intro s h; exact h
  | succ f ih =>
    intro s h; simp only [wsLoop]
    split
    · exact ih _ (hc.next _ h)
    · exact h

theorem skipWhitespace_closed {s : FSt} (h : P s) : P (skipWhitespace s) :=
  wsLoop_closed hc _ _ h

theorem scanOnce_closed (u : UnicodeOracle) {s : FSt}
    (hl : s.ch = 47 → (next s).ch = 47 → ∀ s', P s' → P (lineDirective (position s) s'))
    (h : P s) : P (scanOnce u s).2 := by
  unfold scanOnce
  simp only [apply_ite Prod.snd]
  repeat' (with_reducible apply P_ite <;> intro _)
  all_goals first
    | exact hc.next _ h
    | exact hc.next _ (hc.next _ h)
    | exact hc.error _ (hc.next _ h)
    | exact identLoop_closed hc u _ _ h
    | exact scanString_closed hc (hc.next _ h)
    | exact scanChar_closed hc (hc.next _ h)
    | exact scanRawString_closed hc (hc.next _ h)
    | exact scanSDTLit_closed hc (hc.next _ h)
    | skip
  rename_i h47 hcm
  exact scanComment_closed hc _ (fun h2 => hl h47 h2) (hc.next _ h)

/-- every token returned by the body of `Scan` is `NewToken(tok, src[pos.Offset:S.pos.Offset]), pos`
    for the position `pos` at which the body was entered -/
def TokShape (s : FSt) (r : Option FTok × FSt) : Prop :=
  ∀ tok, r.1 = some tok → ∃ ty, tok = mkTok ty (position s) r.2

omit hc in
theorem tokShape_ite {s : FSt} {c : Prop} [Decidable c] {a b : Option FTok × FSt}
    (ha : c → TokShape s a) (hb : ¬c → TokShape s b) : TokShape s (if c then a else b) := by
  split
  · exact ha ‹_›
  · exact hb ‹_›

omit hc in
theorem scanOnce_shape (u : UnicodeOracle) (s : FSt) : TokShape s (scanOnce u s) := by
  unfold scanOnce
  simp only []
  repeat' (with_reducible apply tokShape_ite <;> intro _)
  all_goals
    intro tok h
    first
      | exact ⟨_, (Option.some.inj h).symm⟩
      | cases h

theorem scanLoop_inv (u : UnicodeOracle)
    (hl : ∀ s0, P s0 → s0.ch = 47 → (next s0).ch = 47 →
      ∀ s', P s' → P (lineDirective (position s0) s')) :
    ∀ (f : Nat) (s : FSt), P s → P (scanLoop u f s).2 ∧
      ∃ s1 ty, P s1 ∧ (scanLoop u f s).1 = mkTok ty (position s1) (scanLoop u f s).2 := by
  intro f; induction f with
  | zero => intro s h; exact ⟨h, s, _, h, rfl⟩
  | succ f ih =>
    intro s h
    have h1 := skipWhitespace_closed hc h
    have h2 := scanOnce_closed hc u (hl _ h1) h1
    have h3 := scanOnce_shape u (skipWhitespace s)
    simp only [scanLoop]
    generalize scanOnce u (skipWhitespace s) = r at h2 h3
    obtain ⟨o, s2⟩ := r
    cases o with
    | none => exact ih s2 h2
    | some t =>
      obtain ⟨ty, hty⟩ := h3 t rfl
      exact ⟨h2, _, ty, h1, hty⟩

theorem fscanN_inv (u : UnicodeOracle)
    (hl : ∀ s0, P s0 → s0.ch = 47 → (next s0).ch = 47 →
      ∀ s', P s' → P (lineDirective (position s0) s')) :
    ∀ (n : Nat) (s : FSt), P s → ∀ tok ∈ (fscanN u n s).1,
      ∃ s1 ty s2, P s1 ∧ tok = mkTok ty (position s1) s2 := by
  intro n; induction n with
  | zero => intro s _ tok h; simp [fscanN] at h
  | succ n ih =>
    intro s h tok htok
    have hinv : P (fscan u s).2 ∧
        ∃ s1 ty, P s1 ∧ (fscan u s).1 = mkTok ty (position s1) (fscan u s).2 :=
      scanLoop_inv hc u hl (fuel s) s h
    obtain ⟨h1, s1, ty, h2, h3⟩ := hinv
    simp only [fscanN] at htok
    by_cases hE : (fscan u s).1.type = tEOF
    · rw [if_pos hE] at htok
      simp only [List.mem_singleton] at htok
      exact ⟨s1, ty, _, h2, htok ▸ h3⟩
    · rw [if_neg hE] at htok
      simp only [List.mem_cons] at htok
      rcases htok with htok | htok
      · exact ⟨s1, ty, _, h2, htok ▸ h3⟩
      · exact ih _ h1 tok htok

end closed
/-! ## the position rule -/

/-- line of the character that follows the runes `rs`: 1 + number of newlines -/
def lineOf (rs : List Int) : Nat := 1 + rs.count 10

/-- column of the character that follows the runes `rs`: 1 + number of runes since the last
    newline (every rune, tabs included, counts 1) -/
def colOf (rs : List Int) : Nat := 1 + (rs.reverse.takeWhile (· != 10)).length

/-- `Runes src o rs`: offset `o` is a rune boundary of `src` (decoding from the start with the
    rule of `next`) and `rs` are the runes of `src[0:o]` -/
inductive Runes (src : List Nat) : Nat → List Int → Prop
  | zero : Runes src 0 []
  | step {o : Nat} {rs : List Int} : Runes src o rs → src.drop o ≠ [] →
      Runes src (o + (look (src.drop o)).2) (rs ++ [(look (src.drop o)).1])

theorem lineOf_snoc (rs : List Int) (r : Int) :
    lineOf (rs ++ [r]) = if r = 10 then lineOf rs + 1 else lineOf rs := by
  simp only [lineOf, List.count_append, List.count_singleton]
  split <;> simp_all <;> omega

theorem colOf_snoc (rs : List Int) (r : Int) :
    colOf (rs ++ [r]) = if r = 10 then 1 else colOf rs + 1 := by
  simp only [colOf, List.reverse_append, List.reverse_cons, List.reverse_nil, List.nil_append,
    List.cons_append, List.takeWhile_cons]
  split <;> simp_all <;> omega

/-- The position invariant of scanner states over `src`.  With `wl` the line is tracked too
    (this needs the absence of `//line` directives); the column is tracked always. -/
structure PosInv (wl : Prop) (src : List Nat) (s : FSt) : Prop where
  cur : s.cur = src.drop s.pos
  at_ : At s.cur s
  rule : s.cur ≠ [] → ∃ rs, Runes src s.pos rs ∧ (wl → s.line = lineOf rs) ∧ s.col = colOf rs

theorem next_line_col {s : FSt} (h : (next s).cur ≠ []) :
    (next s).line = (if s.ch = 10 then s.line + 1 else s.line) ∧
    (next s).col = (if s.ch = 10 then 1 else s.col + 1) := by
  unfold next at h ⊢
  split
  · rename_i heq; rw [heq] at h; exact absurd rfl h
  · exact ⟨rfl, rfl⟩

theorem posInv_closed (wl : Prop) (src : List Nat) : Closed (PosInv wl src) := by
  refine ⟨?_, ?_⟩
  · intro s h
    obtain ⟨ha, hp⟩ := next_at h.at_
    have hcur : (next s).cur = src.drop (next s).pos := by
      rw [ha.cur, hp, h.cur, List.drop_drop]
    refine ⟨hcur, by rw [ha.cur]; exact ha, ?_⟩
    intro hne
    have hne0 : s.cur ≠ [] := by
      intro h0; rw [ha.cur, h0] at hne; simp at hne
    obtain ⟨rs, hr, hl, hcol⟩ := h.rule hne0
    have hstep := Runes.step hr (by rw [← h.cur]; exact hne0)
    rw [← h.cur] at hstep
    have hlc := next_line_col hne
    refine ⟨_, by rw [hp]; exact hstep, ?_, ?_⟩
    · intro w
      rw [hlc.1, lineOf_snoc, ← h.at_.ch, hl w]
    · rw [hlc.2, colOf_snoc, ← h.at_.ch, hcol]
  · intro s h
    exact ⟨h.cur, ⟨h.at_.cur, h.at_.ch, h.at_.off⟩, h.rule⟩

theorem posInv_init (wl : Prop) (src : List Nat) : PosInv wl src (init src) := by
  cases src with
  | nil => exact ⟨rfl, init_at [], fun h => absurd rfl h⟩
  | cons b r => exact ⟨rfl, init_at _, fun _ => ⟨[], .zero, fun _ => rfl, rfl⟩⟩

/-- `//line ` -/
def lineMarker : List Nat := [47, 47, 108, 105, 110, 101, 32]

theorem lineDirective_col (p : FPos) (s : FSt) :
    (lineDirective p s).cur = s.cur ∧ (lineDirective p s).ch = s.ch ∧
    (lineDirective p s).pos = s.pos ∧ (lineDirective p s).offset = s.offset ∧
    (lineDirective p s).col = s.col := by
  simp only [lineDirective]
  repeat' split
  all_goals exact ⟨rfl, rfl, rfl, rfl, rfl⟩

/-- without line tracking, the invariant survives the `//line` directive -/
theorem posInv_lineDirective_col (src : List Nat) (p : FPos) {s : FSt} (h : PosInv False src s) :
    PosInv False src (lineDirective p s) := by
  obtain ⟨e1, e2, e3, e4, e5⟩ := lineDirective_col p s
  refine ⟨by rw [e1, e3]; exact h.cur, ⟨by rw [e1], by rw [e1, e2]; exact h.at_.ch,
    by rw [e1, e3, e4]; exact h.at_.off⟩, ?_⟩
  intro hne
  rw [e1] at hne
  obtain ⟨rs, hr, _, hcol⟩ := h.rule hne
  exact ⟨rs, by rw [e3]; exact hr, fun f => f.elim, by rw [e5]; exact hcol⟩

/-- a text without `//line ` never triggers the directive -/
theorem lineDirective_noop {wl : Prop} {src : List Nat} (hm : ¬ lineMarker <:+: src) {s0 : FSt}
    (h0 : PosInv wl src s0) (c0 : s0.ch = 47) (c1 : (next s0).ch = 47) (s' : FSt) :
    lineDirective (position s0) s' = s' := by
  -- the text at `s0` begins with `//`
  have hcur : ∃ r, s0.cur = 47 :: 47 :: r := by
    have ha := h0.at_
    cases hc : s0.cur with
    | nil => rw [hc] at ha; have := ha.ch; rw [c0] at this; simp [look] at this
    | cons b r =>
      rw [hc] at ha
      have h1 := ha.ch
      rw [c0] at h1
      have hb := look_fst_ascii (b := b) (r := r) (by omega)
      rw [hb.1] at h1
      have hb47 : b = 47 := by simp only [] at h1; omega
      subst hb47
      obtain ⟨_, a1, _⟩ := next_at_ascii ha (by omega) (by omega)
      cases r with
      | nil => have := a1.ch; rw [c1] at this; simp [look] at this
      | cons b1 r1 =>
        have h2 := a1.ch
        rw [c1] at h2
        have hb1 := look_fst_ascii (b := b1) (r := r1) (by omega)
        rw [hb1.1] at h2
        have : b1 = 47 := by simp only [] at h2; omega
        subst this
        exact ⟨r1, rfl⟩
  obtain ⟨r, hr⟩ := hcur
  simp only [lineDirective]
  split
  · split
    · rename_i hp
      exfalso
      apply hm
      simp only [hasLinePrefix, slice, position, hr, beq_iff_eq] at hp
      have e : (47 :: 47 :: r).drop (s0.pos + 2 - s0.pos) = r := by
        have : s0.pos + 2 - s0.pos = 2 := by omega
        rw [this]; rfl
      rw [e, List.take_take] at hp
      obtain ⟨t, ht⟩ := List.take_prefix (min 5 (s'.pos - (s0.pos + 2))) r
      rw [hp] at ht
      refine ⟨src.take s0.pos, t, ?_⟩
      have hsrc : src = src.take s0.pos ++ src.drop s0.pos := (List.take_append_drop _ _).symm
      rw [← h0.cur, hr, ← ht] at hsrc
      generalize src.take s0.pos = pre at hsrc ⊢
      rw [hsrc]
      simp [lineMarker]
    · rfl
  · rfl

/-- what the invariant says about a token made at a state satisfying it -/
theorem posInv_tok {wl : Prop} {src : List Nat} {s1 : FSt} (h : PosInv wl src s1) (ty : Int)
    (s2 : FSt) :
    let tok := mkTok ty (position s1) s2
    tok.lit = (src.drop tok.start).take (tok.stop - tok.start) ∧
    (tok.start < src.length →
      ∃ rs, Runes src tok.start rs ∧ (wl → tok.line = lineOf rs) ∧ tok.col = colOf rs) := by
  refine ⟨?_, ?_⟩
  · simp [mkTok, slice, position, h.cur]
  · intro hlt
    have : s1.cur ≠ [] := by
      rw [h.cur]; intro h0
      have := List.drop_eq_nil_iff.1 h0
      simp only [mkTok, position] at hlt; omega
    exact h.rule this

/-- line tracking: all tokens of a text without `//line ` -/
theorem fscanAll_posInv_lines (u : UnicodeOracle) (src : List Nat) (hm : ¬ lineMarker <:+: src) :
    ∀ tok ∈ (fscanAll u src).1, ∃ s1 ty s2, PosInv True src s1 ∧ tok = mkTok ty (position s1) s2 :=
  fscanN_inv (posInv_closed True src) u
    (fun s0 h0 c0 c1 s' hs' => by rw [lineDirective_noop hm h0 c0 c1 s']; exact hs')
    _ _ (posInv_init True src)

/-- column tracking: all tokens of any text -/
theorem fscanAll_posInv_cols (u : UnicodeOracle) (src : List Nat) :
    ∀ tok ∈ (fscanAll u src).1, ∃ s1 ty s2, PosInv False src s1 ∧ tok = mkTok ty (position s1) s2 :=
  fscanN_inv (posInv_closed False src) u
    (fun _ _ _ _ _ hs' => posInv_lineDirective_col src _ hs')
    _ _ (posInv_init False src)

/-- the rune at the head contributes a newline byte exactly when it is the newline rune -/
theorem look_count10 (b : Nat) (r : List Nat) :
    ((b :: r).take (look (b :: r)).2).count 10 = if (look (b :: r)).1 = 10 then 1 else 0 := by
  by_cases hb : b < 0x80
  · have : look (b :: r) = ((b : Int), 1) := by
      by_cases h0 : b = 0
      · subst h0; rfl
      · exact look_ascii r (by omega) hb
    rw [this]
    simp only [List.take_succ_cons, List.take_zero, List.count_singleton]
    by_cases h10 : b = 10
    · subst h10; rfl
    · have : ¬ ((b : Int) = 10) := by omega
      simp [h10, this]
  · have hge : 0x80 ≤ (look (b :: r)).1 := by
      have := decodeRune_ge b r (by omega)
      simp only [look]
      rw [if_neg (by omega), if_pos (by omega)]
      exact this
    rw [if_neg (by omega)]
    apply List.count_eq_zero.2
    intro hmem
    obtain ⟨k, hk⟩ : ∃ k, (look (b :: r)).2 = k + 1 :=
      ⟨(look (b :: r)).2 - 1, by have := look_width_pos b r; omega⟩
    rw [hk, List.take_succ_cons] at hmem
    cases hmem with
    | head => omega
    | tail _ hm =>
      obtain ⟨p, q, hpq⟩ := List.append_of_mem hm
      have hlen : p.length + 1 ≤ k := by
        have := congrArg List.length hpq
        simp only [List.length_take, List.length_append, List.length_cons] at this
        omega
      have hr : r = p ++ 10 :: (q ++ r.drop k) := by
        have := (List.take_append_drop k r).symm
        rw [hpq] at this
        simpa using this
      have := look_width_prefix b p 10 (q ++ r.drop k) (by omega)
      have e : b :: p ++ 10 :: (q ++ r.drop k) = b :: r := by rw [List.cons_append, ← hr]
      rw [e] at this
      omega

/-- newline runes before a rune boundary = newline bytes before it -/
theorem Runes.count10 {src : List Nat} {o : Nat} {rs : List Int} (h : Runes src o rs) :
    rs.count 10 = (src.take o).count 10 := by
  induction h with
  | zero => simp
  | @step o rs _ hne ih =>
    rw [List.count_append, List.take_add, List.count_append, ih]
    congr 1
    cases hd : src.drop o with
    | nil => exact absurd hd hne
    | cons b r =>
      rw [look_count10, List.count_singleton]
      simp

/-- `lineOf` in terms of the bytes of the text -/
theorem Runes.lineOf_eq {src : List Nat} {o : Nat} {rs : List Int} (h : Runes src o rs) :
    lineOf rs = 1 + (src.take o).count 10 := by
  rw [lineOf, h.count10]

/-- `'\e'` for a simple escape `e` (one of `a b f n r t v \ ' "`) scans as a `char_lit` -/
theorem scansAs_charLit_esc (u : UnicodeOracle) {e : Nat}
    (he : e = 97 ∨ e = 98 ∨ e = 102 ∨ e = 110 ∨ e = 114 ∨ e = 116 ∨ e = 118 ∨ e = 92 ∨ e = 39 ∨
      e = 34) : ScansAs u [39, 92, e, 39] tCharLit := by
  refine ⟨by decide, by simp, noWsHead_cons (by decide), ?_⟩
  intro x s hx h
  obtain ⟨c0, a1, p1⟩ := next_at_ascii h (by omega) (by omega)
  obtain ⟨c1, a2, p2⟩ := next_at_ascii a1 (by omega) (by omega)
  obtain ⟨c2, a3, p3⟩ := next_at_ascii a2 (by omega) (by omega)
  obtain ⟨c3, a4, p4⟩ := next_at_ascii a3 (by omega) (by omega)
  have hesc : scanEscape (next (next s)) = next (next (next s)) := by
    unfold scanEscape
    simp only [c2]
    rw [if_pos (by omega)]
  have hloop : charLoop (fuel (next s)) 0 (next s) = (1, next (next (next s))) := by
    have : fuel (next s) = x.length + 3 + 1 + 1 := by simp [fuel, a1.cur]
    rw [this]
    simp [charLoop, c1, hesc, c3]
  refine ⟨mkTok tCharLit (position s) (next (next (next (next s)))), next (next (next (next s))),
    ?_, rfl, mkTok_lit h (by simp [p1, p2, p3, p4]) _, a4⟩
  simp [scanOnce, c0, isLetter, scanChar, hloop]

end FScan
end Gocc
