import Gocc.Proofs.ParseTermSim
import Gocc.Proofs.Recover
/-
Termination of `Parse` WITH error recovery.

  §1  invariant of the real run (`RInv`): the stack is a path of the automaton, the attribute stack
      is as high, the look-ahead is the last token scanned and scanning stopped at end of input;
      preserved by iterations without recovery (`steps_rinv`) and by `Error` (`recover_rinv`)
  §2  a PHASE — the run of the parser without recovery from a configuration whose top state has an
      action on the look-ahead — ends, and if it ends in a failed action lookup at least one token
      has been scanned since its start (`phase`).  Proof: the stack is reached by the parser
      without recovery on a virtual input `u0` (`VStk.rv`); on `u0 ++ rest of the real input` the
      parser without recovery terminates (`parseLoop_terminates`), and the real phase runs in
      lock-step with it (`sim_run`); the first token of the phase has an action, so `u0` followed
      by it is a viable prefix, and the failed lookup comes later (`stuck_ext`).
  §3  the phases: after a failed lookup `Error` gives up (Parse returns) or resumes in a
      configuration whose top state has an action on the look-ahead — the next phase.  The number
      of tokens scanned grows from phase to phase and is bounded by `|w| + 1` (`rec_from`).
  §4  the theorem (`rec_terminates`)

No hypothesis about `canRecover` or `errTerm` is needed (not even `RecWF`): whatever states are
flagged, and whatever terminal is shifted by `Error`, the new stack is a path of the automaton.
-/
namespace Gocc.ParseTerm
open Gocc

/-! ### §1 the invariant -/

def RInv (T : PTables) (w : List Nat) (ps : PState) : Prop :=
  (∃ γ, VStk T ps.states γ) ∧ ps.attrs.length = ps.states.length ∧ RecScanInv w ps

theorem doAct_cont_len {cfg : PCfg} {w : List Nat} {a : Act} {ps ps' : PState}
    (h : doAct cfg w a ps = .cont ps') (hl : ps.attrs.length = ps.states.length) :
    ps'.attrs.length = ps'.states.length := by
  cases a with
  | accept => simp only [doAct] at h; split at h <;> cases h
  | shift s => cases h; simp [hl]
  | reduce p =>
    simp only [doAct] at h
    split at h
    · cases h
    · rcases hres : reduceRes cfg p (List.take (cfg.T.prodLen[p]?.getD 0) ps.attrs).reverse ps with
        (_ | why') | ⟨b, ps2⟩
      · rw [hres] at h
        simp only at h
        split at h <;> cases h
      · rw [hres] at h; cases h
      · rw [hres] at h
        simp only at h
        split at h
        · split at h
          · cases h
          · cases h
            rename_i t' tl hd _
            have := congrArg List.length hd
            simp only [List.length_drop, List.length_cons] at this ⊢
            omega
        · cases h

theorem noShiftEOF_of_valid {G : NGrammar} {T : PTables} {c : CertLA} {fc : FirstCert}
    (VF : ValidFacts G T c fc) : NoShiftEOF T := by
  intro s s' ha
  obtain ⟨p, d, a, -, hX⟩ := VF.shiftJ s 1 s' ha
  have hmem : Sym.t 1 ∈ G.body p := List.mem_of_getElem? hX
  have hp : p < G.prods.size := by
    by_cases hp : p < G.prods.size
    · exact hp
    · have : G.prods[p]? = none := Array.getElem?_eq_none (by omega)
      simp [NGrammar.body, this] at hmem
  exact (VF.noTok p hp).2 hmem

theorem step_rinv {G : NGrammar} {T : PTables} {c : CertLA} {fc : FirstCert}
    (VF : ValidFacts G T c fc) (hr : ∀ s : Nat, T.canRecover[s]?.getD false = false)
    {cfg : PCfg} (hT : cfg.T = T) {w : List Nat} {ps ps1 : PState}
    (hs : step cfg w ps = .cont ps1) (hI : RInv T w ps) : RInv T w ps1 := by
  subst hT
  obtain ⟨⟨γ, hS⟩, hl, hsc⟩ := hI
  obtain ⟨top, rest, a, hst, hlt, ha, hdo⟩ := step_cont_inv hr hs
  refine ⟨?_, doAct_cont_len hdo hl, ?_⟩
  · rw [hst] at hS
    cases a with
    | accept => simp only [doAct] at hdo; split at hdo <;> cases hdo
    | shift s =>
      simp only [doAct, StepR.cont.injEq] at hdo
      subst hdo
      exact ⟨_, by simp only [hst]; exact .push (X := Sym.t ps.next.2) hS ha⟩
    | reduce p =>
      obtain ⟨hn, t', rest', g, hd, hg, hg0, hs1, -, -, -⟩ := doAct_reduce_inv hdo
      have hlen := hS.length
      have hk : cfg.T.prodLen[p]?.getD 0 ≤ γ.length := by
        have := congrArg List.length hd
        rw [hst] at this
        simp only [List.length_drop, List.length_cons] at this hlen
        omega
      have hS' := hS.drop _ hk
      rw [← hst, hd] at hS'
      exact ⟨_, by rw [hs1]; exact .push (X := Sym.nt (cfg.T.prodNT[p]?.getD 0)) hS' ⟨g, hg, hg0, rfl⟩⟩
  · have := step_scanInv (noShiftEOF_of_valid VF) w hsc (cfg := cfg)
    rw [hs] at this
    exact this

theorem steps_rinv {G : NGrammar} {T : PTables} {c : CertLA} {fc : FirstCert}
    (VF : ValidFacts G T c fc) (hr : ∀ s : Nat, T.canRecover[s]?.getD false = false)
    {cfg : PCfg} (hT : cfg.T = T) {w : List Nat} {a b : PState} (h : Steps cfg w a b) :
    RInv T w a → RInv T w b := by
  induction h with
  | refl => exact id
  | head hs _ ih => exact fun hI => ih (step_rinv VF hr hT hs hI)

/-- `Error` recovered: the new stack is a prefix of the old one plus the state entered on the
    error terminal — a path of the automaton again -/
theorem recover_rinv {T : PTables} {e : Nat} {w : List Nat} {ps ps1 : PState} {tok : Nat × Nat}
    (h : recover T e w ps = .ok (true, tok, ps1)) (hI : RInv T.noRecovery w ps) :
    RInv T.noRecovery w ps1 ∧ ps.ntok ≤ ps1.ntok ∧
      ∃ top rest a, ps1.states = top :: rest ∧ T.act top ps1.next.2 = some a := by
  obtain ⟨⟨γ, hS⟩, hl, hsc⟩ := hI
  obtain ⟨k, r, rest, s', j, -, hd, hact, hst1, hat1, -, hnt1, hsome, -, -, -⟩ := recover_true h
  have hlen := hS.length
  have hdl := congrArg List.length hd
  simp only [List.length_drop, List.length_cons] at hdl
  have hS' := hS.drop k (by omega)
  rw [hd] at hS'
  refine ⟨⟨⟨_, by rw [hst1]; exact .push (X := Sym.t e) hS' hact⟩, ?_, recover_scanInv h hsc⟩,
    by omega, ?_⟩
  · rw [hat1, hst1]
    simp only [List.length_cons, List.length_drop]
    omega
  · rcases ha : T.act s' ps1.next.2 with _ | a
    · rw [ha] at hsome; cases hsome
    · exact ⟨s', r :: rest, a, hst1, ha⟩

/-! ### §2 one phase -/

theorem scanTok_append_left (u x y : List Nat) {j : Nat} (hj : j < u.length) :
    scanTok (u ++ x) j = scanTok (u ++ y) j := by
  simp only [scanTok, List.getElem?_append_left hj]

theorem scanTok_append_right (u x : List Nat) (k : Nat) :
    (scanTok (u ++ x) (u.length + k)).2 = (scanTok x k).2 := by
  have : (u ++ x)[u.length + k]? = x[k]? := by
    rw [List.getElem?_append_right (by omega)]
    congr 1
    omega
  simp only [scanTok, this]
  rcases x[k]? with _ | t <;> rfl

theorem scanTok_drop (w : List Nat) (n k : Nat) :
    (scanTok (w.drop n) k).2 = (scanTok w (n + k)).2 := by
  simp only [scanTok, List.getElem?_drop]
  rcases w[n + k]? with _ | t <;> rfl

/-- (phase) from a configuration with a valid stack whose top state has an action on the
    look-ahead, the parser without recovery ends; if it ends in a failed lookup, it has scanned at
    least one more token -/
theorem phase {G : NGrammar} {T : PTables} {fc : FirstCert} {c : CertLA} {vc : VCert}
    (hf : firstOk G fc = true) (hc : complete G T fc c = true) (hv : validItems G T c vc = true)
    (hr : ∀ s : Nat, T.canRecover[s]?.getD false = false) {cfg : PCfg} (hA : ActsOk cfg)
    (hT : cfg.T = T) (w : List Nat) {cps : PState} (hI : RInv T w cps) {top : Nat}
    {rest : List Nat} {a0 : Act} (hst : cps.states = top :: rest)
    (ha : T.act top cps.next.2 = some a0) :
    ∃ b o ps', Steps cfg w cps b ∧ step cfg w b = .done o ps' ∧
      ((∃ i t e s, o = Outcome.synErr i t e s) → cps.ntok < b.ntok) := by
  have VF := validFacts_of hv
  have F := completeFacts_of hc
  have hr' : ∀ s : Nat, cfg.T.canRecover[s]?.getD false = false := by rw [hT]; exact hr
  obtain ⟨⟨γ, hS⟩, hat, hsc⟩ := hI
  -- an item that justifies the action; whatever it derives begins with the look-ahead
  obtain ⟨p, d, la, hm, hitem⟩ : ∃ p d la, (p, d, la) ∈ c[top]?.getD [] ∧
      ∀ y2 z, NDerives G ((G.body p).drop d) y2 → z.head?.getD 1 = la →
        (y2 ++ z).head?.getD 1 = cps.next.2 := by
    cases a0 with
    | shift s' =>
      obtain ⟨p, d, la, hm, hX⟩ := VF.shiftJ top _ s' ha
      refine ⟨p, d, la, hm, fun y2 z hy2 _ => ?_⟩
      rw [drop_of_getElem? hX] at hy2
      obtain ⟨w', rfl, -⟩ := NDerives.t_inv hy2
      rfl
    | reduce p =>
      refine ⟨p, _, _, VF.reduceJ top _ p ha, fun y2 z hy2 hz => ?_⟩
      rw [List.drop_length] at hy2
      rw [hy2.nil_inv]
      exact hz
    | accept =>
      obtain ⟨h1, hm⟩ := VF.acceptJ top _ ha
      refine ⟨0, _, 1, hm, fun y2 z hy2 hz => ?_⟩
      rw [List.drop_length] at hy2
      rw [hy2.nil_inv, h1]
      exact hz
  -- the stack is reached on a sentence `x0 y1 y2 z`
  obtain ⟨hp, δ, z, hγ, hdl, hz, ⟨x0, hx0⟩, hctx⟩ :=
    VStk.rv VF F hf hA hT hS p d la (by simpa [hst] using hm)
  obtain ⟨y1, hy1⟩ : ∃ y, NDerives G ((G.body p).take d) y :=
    productive_of_all fun X hXm => VF.prodB p hp X (List.mem_of_mem_take hXm)
  obtain ⟨y2, hy2⟩ : ∃ y, NDerives G ((G.body p).drop d) y :=
    productive_of_all fun X hXm => VF.prodB p hp X (List.mem_of_mem_drop hXm)
  obtain ⟨hsent, pv, hrunv, hstv, hntv, hnxv, hatv⟩ := hctx x0 y1 y2 hx0 hy1 hy2
  have htt := hitem y2 z hy2 hz
  have huv : x0 ++ y1 ++ y2 ++ z = (x0 ++ y1) ++ (y2 ++ z) := by simp
  rw [huv] at hsent hrunv hnxv
  generalize x0 ++ y1 = u0 at *
  have hsc' := hsc
  obtain ⟨hnx, hn1, hn2⟩ := hsc
  -- the virtual input: `u0`, then the real input from the look-ahead on
  have hty0 : (scanTok (u0 ++ w.drop (cps.ntok - 1)) u0.length).2 = cps.next.2 := by
    have := scanTok_append_right u0 (w.drop (cps.ntok - 1)) 0
    rw [Nat.add_zero] at this
    rw [this, scanTok_drop, Nat.add_zero, hnx]
  have hagree : ∀ j, j ≤ u0.length →
      scanTok (u0 ++ (y2 ++ z)) j = scanTok (u0 ++ w.drop (cps.ntok - 1)) j := by
    intro j hj
    by_cases hlt : j < u0.length
    · exact scanTok_append_left u0 _ _ hlt
    · have : j = u0.length := by omega
      subst this
      refine Prod.ext (by rw [scanTok_fst, scanTok_fst]) ?_
      rw [hty0]
      have := scanTok_append_right u0 (y2 ++ z) 0
      rw [Nat.add_zero] at this
      rw [this, scanTok_snd, List.drop_zero]
      exact htt
  have hinit : initPS (u0 ++ (y2 ++ z)) = initPS (u0 ++ w.drop (cps.ntok - 1)) := by
    unfold initPS
    rw [hagree 0 (Nat.zero_le _)]
  have hrunv' : Steps cfg (u0 ++ w.drop (cps.ntok - 1)) (initPS (u0 ++ w.drop (cps.ntok - 1))) pv := by
    rw [← hinit]
    exact hrunv.agree hr' fun j _ hj2 => hagree j (by omega)
  have hsim : Sim w (u0 ++ w.drop (cps.ntok - 1)) cps pv := by
    refine ⟨hstv.symm, ?_, hat, hatv, fun k => ?_⟩
    · rw [hnxv, hagree _ (Nat.le_refl _), hty0]
    · rw [hntv, show u0.length + 1 + k = u0.length + (1 + k) by omega, scanTok_append_right,
        scanTok_drop]
      congr 2
      omega
  -- the parser without recovery terminates on the virtual input
  obtain ⟨n, o, psf, hn, hV⟩ :=
    parseLoop_terminates hf hc hv hr hA hT (u0 ++ w.drop (cps.ntok - 1))
  obtain ⟨k, hk⟩ := hrunv'.parseLoop
  have hne : (parseLoop cfg (u0 ++ w.drop (cps.ntok - 1)) n pv).1 ≠ .outOfFuel := by
    rw [← hk n, hn (k + n) (by omega)]
    exact hV.ne_outOfFuel
  obtain ⟨b, bv, o', ps', q1, q2, q3, q4, q5, q6⟩ :=
    sim_run VF F hr hA hT n cps pv hsim hrunv' hne
  refine ⟨b, o', ps', q1, q5, fun hsyn => ?_⟩
  obtain ⟨topv, restv, hstb, hab⟩ := q6 hsyn
  have hrunb := hrunv'.trans q2
  obtain ⟨γb, m, -, -, hntb, hnxb, hleb, -⟩ := hrunb.vinv VF F hr hT (vinv_init VF _)
  have hmono := q2.ntok_le hr'
  by_cases hm : m = u0.length
  · exfalso
    subst hm
    rw [hT] at hab
    have hstuck := stuck_ext hf hc hr hA hT hrunb hstb hab hntb hnxb hleb (x := y2 ++ z)
      (by rw [hnxb, hty0]; exact htt)
    rw [List.take_left] at hstuck
    exact hstuck hsent
  · omega

/-! ### §3 the phases -/

theorem lookupAct_ne_oof (T : PTables) (e : Nat) (w : List Nat) (ps : PState) (top : Nat)
    (ps' : PState) : lookupAct T e w ps top ≠ .error (.outOfFuel, ps') := by
  unfold lookupAct
  repeat' split
  all_goals simp

theorem doAct_ne_oof (cfg : PCfg) (w : List Nat) (a : Act) (ps ps' : PState) :
    doAct cfg w a ps ≠ .done .outOfFuel ps' := by
  cases a with
  | accept => simp only [doAct]; split <;> simp
  | shift s' => simp [doAct]
  | reduce p =>
    simp only [doAct]
    repeat' split
    all_goals simp

theorem step_ne_oof (cfg : PCfg) (w : List Nat) (ps ps' : PState) :
    step cfg w ps ≠ .done .outOfFuel ps' := by
  unfold step
  split
  · simp
  · split
    · simp
    · rcases hl : lookupAct cfg.T cfg.errTerm w ps _ with ⟨o, ps1⟩ | ⟨a, ps1⟩
      · simp only []
        intro h
        simp only [StepR.done.injEq] at h
        obtain ⟨h1, h2⟩ := h
        apply lookupAct_ne_oof cfg.T cfg.errTerm w ps _ ps1
        rw [hl, ← h1]
      · exact doAct_ne_oof cfg w a ps1 ps'

/-- a run that ends gives an answer -/
theorem steps_done_ne {cfg : PCfg} {w : List Nat} {a b : PState} {o : Outcome} {ps' : PState}
    (h : Steps cfg w a b) (hd : step cfg w b = .done o ps') :
    ∃ n, (parseLoop cfg w n a).1 ≠ .outOfFuel := by
  obtain ⟨n, hn⟩ := steps_done h hd
  refine ⟨n, ?_⟩
  rw [hn n (Nat.le_refl _)]
  intro h'
  simp only at h'
  subst h'
  exact step_ne_oof cfg w b ps' hd

/-- iterations of the parser without recovery are iterations of the real parser -/
theorem steps_of_noRecovery {cfg : PCfg} {w : List Nat} {a b : PState}
    (h : Steps cfg.noRecovery w a b) : Steps cfg w a b := by
  induction h with
  | refl => exact .refl _
  | @head ps ps1 ps2 hs _ ih =>
    rcases step_noRecovery cfg w ps with heq | ⟨_, _, -, -, hsyn⟩
    · exact .head (by rw [heq]; exact hs) ih
    · rw [hsyn] at hs; cases hs

/-- the end of a phase: the parser without recovery stops in `b`.  The real parser stops there
    too, or `Error` resumes in a configuration `ps1` that starts the next phase; if the real
    parser terminates from every such `ps1`, it terminates from `b`. -/
theorem phase_end {cfg : PCfg} {w : List Nat} {b : PState} {o : Outcome} {ps' : PState}
    (hI : RInv cfg.T.noRecovery w b) (hd : step cfg.noRecovery w b = .done o ps')
    (hactlt : ∀ s t a, cfg.T.act s t = some a → t < cfg.T.numSymbols)
    (hnext : ∀ ps1, RInv cfg.T.noRecovery w ps1 → b.ntok ≤ ps1.ntok →
      (∃ top rest a, ps1.states = top :: rest ∧ cfg.T.act top ps1.next.2 = some a) →
      (∃ i t e s, o = Outcome.synErr i t e s) →
      ∃ n, (parseLoop cfg w n ps1).1 ≠ .outOfFuel) :
    ∃ n, (parseLoop cfg w n b).1 ≠ .outOfFuel := by
  rcases step_noRecovery cfg w b with heq | ⟨top, rest, hst, hnone, hsyn⟩
  · exact steps_done_ne (.refl b) (by rw [heq]; exact hd)
  · rw [hsyn] at hd
    simp only [StepR.done.injEq] at hd
    rcases step_decomp cfg w b with ⟨o2, ps2, hs2, -⟩ | ⟨a, ps1, top1, rest1, hs2, hst1, ha1, hor⟩
    · exact steps_done_ne (.refl b) hs2
    · rcases hor with ⟨rfl, ha⟩ | ⟨tok, hrec⟩
      · rw [hst] at hst1
        cases hst1
        rw [hnone] at ha
        cases ha
      · obtain ⟨hI1, hle, hstart⟩ := recover_rinv hrec hI
        obtain ⟨n1, hn1⟩ := hnext ps1 hI1 hle hstart ⟨_, _, _, _, hd.1.symm⟩
        cases n1 with
        | zero => exact absurd rfl hn1
        | succ n1 =>
          refine ⟨n1 + 1, ?_⟩
          rw [parseLoop_succ, hs2]
          rw [parseLoop_succ, step_act hst1 ha1 (hactlt _ _ _ ha1)] at hn1
          exact hn1

/-- from the start of a phase the real parser terminates (induction on the number of tokens
    that can still be scanned) -/
theorem rec_from {G : NGrammar} {T : PTables} {fc : FirstCert} {c : CertLA} {vc : VCert}
    (hf : firstOk G fc = true) (hc : complete G T.noRecovery fc c = true)
    (hv : validItems G T.noRecovery c vc = true) {cfg : PCfg} (hA : ActsOk cfg) (hT : cfg.T = T)
    (w : List Nat) :
    ∀ (μ : Nat) (cps : PState), RInv T.noRecovery w cps →
      (∃ top rest a0, cps.states = top :: rest ∧ T.act top cps.next.2 = some a0) →
      w.length + 1 - cps.ntok ≤ μ → ∃ n, (parseLoop cfg w n cps).1 ≠ .outOfFuel := by
  subst hT
  have hrN : ∀ s : Nat, cfg.T.noRecovery.canRecover[s]?.getD false = false := by
    intro s; simp [PTables.noRecovery]
  have hAN : ActsOk cfg.noRecovery := hA
  have F := completeFacts_of hc
  intro μ
  induction μ with
  | zero =>
    intro cps hI ⟨top, rest, a0, hst, ha⟩ hμ
    obtain ⟨b, o, ps', h1, h2, h3⟩ :=
      phase hf hc hv hrN hAN (cfg := cfg.noRecovery) rfl w hI hst ha
    have hIb := steps_rinv (validFacts_of hv) hrN (cfg := cfg.noRecovery) rfl h1 hI
    obtain ⟨n, hn⟩ := phase_end hIb h2 F.actLt (fun ps1 _ _ _ hsyn => by
      have := h3 hsyn
      have := hIb.2.2.2.2
      omega)
    obtain ⟨k, hk⟩ := (steps_of_noRecovery h1).parseLoop
    exact ⟨k + n, by rw [hk]; exact hn⟩
  | succ μ ih =>
    intro cps hI ⟨top, rest, a0, hst, ha⟩ hμ
    obtain ⟨b, o, ps', h1, h2, h3⟩ :=
      phase hf hc hv hrN hAN (cfg := cfg.noRecovery) rfl w hI hst ha
    have hIb := steps_rinv (validFacts_of hv) hrN (cfg := cfg.noRecovery) rfl h1 hI
    obtain ⟨n, hn⟩ := phase_end hIb h2 F.actLt (fun ps1 hI1 hle hstart hsyn => by
      have := h3 hsyn
      exact ih ps1 hI1 hstart (by omega))
    obtain ⟨k, hk⟩ := (steps_of_noRecovery h1).parseLoop
    exact ⟨k + n, by rw [hk]; exact hn⟩

/-! ### §4 the theorem -/

theorem rinv_init (T : PTables) (w : List Nat) : RInv T w (initPS w) :=
  ⟨⟨[], .base⟩, rfl, scanInv_init w⟩

/-- TERMINATION WITH RECOVERY: on every input the loop of `Parse` ends, whatever states are
    flagged as recovery states -/
theorem rec_terminates {G : NGrammar} {T : PTables} {fc : FirstCert} {c : CertLA} {vc : VCert}
    (hf : firstOk G fc = true) (hc : complete G T.noRecovery fc c = true)
    (hv : validItems G T.noRecovery c vc = true) {cfg : PCfg} (hA : ActsOk cfg) (hT : cfg.T = T)
    (w : List Nat) : ∃ n, (parseLoop cfg w n (initPS w)).1 ≠ .outOfFuel := by
  subst hT
  have hrN : ∀ s : Nat, cfg.T.noRecovery.canRecover[s]?.getD false = false := by
    intro s; simp [PTables.noRecovery]
  have hAN : ActsOk cfg.noRecovery := hA
  have F := completeFacts_of hc
  -- the first phase: the parser without recovery on the real input
  obtain ⟨n0, o0, ps0, hn0, hV⟩ :=
    parseLoop_terminates hf hc hv hrN hAN (cfg := cfg.noRecovery) rfl w
  obtain ⟨b, o, ps', h1, h2, -⟩ := parseLoop_done (cfg := cfg.noRecovery) n0 (initPS w)
    (by rw [hn0 n0 (Nat.le_refl _)]; exact hV.ne_outOfFuel)
  have hIb := steps_rinv (validFacts_of hv) hrN (cfg := cfg.noRecovery) rfl h1 (rinv_init _ w)
  obtain ⟨n, hn⟩ := phase_end hIb h2 F.actLt (fun ps1 hI1 _ hstart _ =>
    rec_from hf hc hv hA rfl w (w.length + 1) ps1 hI1 hstart (by omega))
  obtain ⟨k, hk⟩ := (steps_of_noRecovery h1).parseLoop
  exact ⟨k + n, by rw [hk]; exact hn⟩

end Gocc.ParseTerm
