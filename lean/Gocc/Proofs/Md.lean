import Gocc.Model.Md
/-
Helper lemmas for C19 (`loadMd`).

Part 1: a pointwise relation `MdRel` between input and output (same length; every output rune
is the input rune or a blank replacing a non-newline), proved for every state of `loadMdAux`.

Part 2: fence-by-fence evaluation lemmas for structured documents.
-/
namespace Gocc

/-! ### Part 1: pointwise relation -/

/-- each output rune is the input rune, or a blank (32) that replaces a non-newline -/
def MdRel : List Int → List Int → Prop
  | [], [] => True
  | a :: l, b :: o => (b = a ∨ (b = 32 ∧ a ≠ 10)) ∧ MdRel l o
  | _, _ => False

theorem mdKeep_rel (text : Bool) (c : Int) :
    mdKeep text c = c ∨ (mdKeep text c = 32 ∧ c ≠ 10) := by
  unfold mdKeep mdBlank
  cases text <;> simp
  by_cases h : c = 10 <;> simp [h]

/-- the runes still to be skipped (`k` of them) are never newlines in reachable states: they
    are the remaining back-quotes of a fence -/
theorem loadMdAux_rel (text : Bool) (k : Nat) (nc : Bool) (l : List Int)
    (h : ∀ x ∈ l.take k, x ≠ 10) : MdRel l (loadMdAux text k nc l) := by
  induction l generalizing text k nc with
  | nil => simp [loadMdAux, MdRel]
  | cons c rest ih =>
    cases k with
    | succ k =>
      simp only [loadMdAux, MdRel]
      simp only [List.take_succ_cons, List.mem_cons, forall_eq_or_imp] at h
      exact ⟨Or.inr ⟨trivial, h.1⟩, ih _ _ _ h.2⟩
    | zero =>
      simp only [loadMdAux]
      split
      · rename_i hf
        simp only [Bool.and_eq_true, List.take_succ_cons, beq_iff_eq, List.cons.injEq] at hf
        simp only [MdRel]
        refine ⟨Or.inr ⟨trivial, by omega⟩, ih _ _ _ ?_⟩
        rw [hf.2.2]; simp
      · simp only [MdRel]
        exact ⟨mdKeep_rel text c, ih _ _ _ (by simp)⟩

theorem loadMd_rel (l : List Int) : MdRel l (loadMd l) :=
  loadMdAux_rel true 0 false l (by simp)

theorem MdRel.length_eq : ∀ {l o : List Int}, MdRel l o → o.length = l.length
  | [], [], _ => rfl
  | _ :: _, _ :: _, h => by simp [MdRel.length_eq h.2]
  | [], _ :: _, h => by simp [MdRel] at h
  | _ :: _, [], h => by simp [MdRel] at h

theorem MdRel.get : ∀ {l o : List Int}, MdRel l o → ∀ i : Nat,
    (l[i]? = none ∧ o[i]? = none) ∨
    ∃ a b, l[i]? = some a ∧ o[i]? = some b ∧ (b = a ∨ (b = 32 ∧ a ≠ 10))
  | [], [], _, i => by simp
  | a :: l, b :: o, h, 0 => Or.inr ⟨a, b, by simp, by simp, h.1⟩
  | a :: l, b :: o, h, i + 1 => by simpa using MdRel.get h.2 i
  | [], _ :: _, h, _ => by simp [MdRel] at h
  | _ :: _, [], h, _ => by simp [MdRel] at h

/-! ### Part 2: structured documents -/

/-- three back-quotes -/
def mdFence : List Int := [96, 96, 96]

/-- some fence starts somewhere in the list -/
def hasFence : List Int → Bool
  | [] => false
  | c :: rest => (c :: rest).take 3 == [96, 96, 96] || hasFence rest

/-- a piece that starts at a position where fences are recognised and that is followed by a
    fence: no fence may start inside it, i.e. it contains no ``` and does not end in a
    back-quote (a trailing back-quote would be taken as the start of the following fence) -/
def startOk (q : List Int) : Bool := !hasFence q && q.getLast? != some 96

/-- a piece between two fences: non-empty (its first rune is not examined for a fence), and
    the remainder is `startOk` -/
def midOk (p : List Int) : Bool := !p.isEmpty && startOk p.tail

/-- the piece after the last fence: no fence from its second rune on (may be empty) -/
def lastOk (p : List Int) : Bool := !hasFence p.tail

/-- at a fence: three blanks, toggle, and the next rune is not examined for a fence -/
theorem loadMdAux_fence (text : Bool) (rest : List Int) :
    loadMdAux text 0 false (mdFence ++ rest) = [32, 32, 32] ++ loadMdAux (!text) 0 true rest := by
  simp [mdFence, loadMdAux]

theorem loadMdAux_start (text : Bool) (q rest : List Int) (h : startOk q = true) :
    loadMdAux text 0 false (q ++ (mdFence ++ rest)) =
      q.map (mdKeep text) ++ loadMdAux text 0 false (mdFence ++ rest) := by
  induction q with
  | nil => simp
  | cons c q ih =>
    have hq : startOk q = true := by
      simp only [startOk, hasFence, Bool.and_eq_true, Bool.not_eq_true', Bool.or_eq_false_iff,
        bne_iff_ne, ne_eq] at h ⊢
      refine ⟨h.1.2, ?_⟩
      cases q with
      | nil => simp
      | cons d q => simpa using h.2
    have hc : ((c :: (q ++ (mdFence ++ rest))).take 3 == [96, 96, 96]) = false := by
      simp only [startOk, hasFence, Bool.and_eq_true, Bool.not_eq_true', Bool.or_eq_false_iff,
        bne_iff_ne, ne_eq] at h
      match q, h with
      | [], h => simp [mdFence] at h ⊢; exact fun h' => absurd h' h.2
      | [d], h => simp [mdFence] at h ⊢; intro _ h'; exact absurd h' h.2
      | d :: e :: q, h => simpa using h.1.1
    simp only [List.cons_append, loadMdAux, hc, Bool.not_false, Bool.and_false, Bool.false_eq_true,
      if_false, List.map_cons]
    rw [ih hq]

theorem loadMdAux_mid (text : Bool) (p rest : List Int) (h : midOk p = true) :
    loadMdAux text 0 true (p ++ (mdFence ++ rest)) =
      p.map (mdKeep text) ++ loadMdAux text 0 false (mdFence ++ rest) := by
  cases p with
  | nil => simp [midOk] at h
  | cons c q =>
    have hq : startOk q = true := by simpa [midOk] using h
    simp [loadMdAux, loadMdAux_start text q rest hq]

theorem loadMdAux_noFence (text : Bool) (q : List Int) (h : hasFence q = false) :
    loadMdAux text 0 false q = q.map (mdKeep text) := by
  induction q with
  | nil => simp [loadMdAux]
  | cons c q ih =>
    simp only [hasFence, Bool.or_eq_false_iff] at h
    simp only [loadMdAux, h.1, Bool.and_false, Bool.false_eq_true, if_false, List.map_cons, ih h.2]

theorem loadMdAux_last (text : Bool) (p : List Int) (h : lastOk p = true) :
    loadMdAux text 0 true p = p.map (mdKeep text) := by
  cases p with
  | nil => simp [loadMdAux]
  | cons c q =>
    have hq : hasFence q = false := by simpa [lastOk] using h
    simp [loadMdAux, loadMdAux_noFence text q hq]

theorem map_mdKeep_false (p : List Int) : p.map (mdKeep false) = p := by
  induction p with
  | nil => rfl
  | cons c p ih => simp [mdKeep, ih]

theorem map_mdKeep_true (p : List Int) : p.map (mdKeep true) = p.map mdBlank :=
  List.map_congr_left (fun c _ => by simp [mdKeep])

end Gocc
