import Gocc.Spec.KindGrammar
import Gocc.Proofs.GenSafe
/-
When do the two readings of a syntax part coincide?

  `ngrammarSpec` (Spec/KindGrammar.lean)  symbols BY KIND   — what the author wrote
  `ngrammarOf`   (Model/Validate.lean)    symbols BY SPELLING — what gocc's generator computes with

`SpellingsOk syn tokIds` (decidable, three named clauses over the AUGMENTED grammar `augment syn`,
whose heads are `S'` and the heads of `syn`):

  prodIdDefined    every `.prodId` symbol of a body is spelled like a head;
                   [otherwise: by kind it is a non-terminal — one without productions and without
                    a number, `ngrammarSpec` falls back to 0 —, by spelling the TERMINAL of that
                    name — `S : B` with `B` undefined]
  terminalNotHead  no `.tokId` / `.strLit` symbol of a body is spelled like a head;
                   [otherwise: by kind a terminal, by spelling the NON-TERMINAL — `S : "A" ; A : b`,
                    which `newSymbols` does not even refuse, the literal comes before the head]
  emptyAlone       an alternative whose FIRST symbol is spelled `empty` is the keyword `empty`
                   standing alone: its body is `[⟨.tokId, "empty"⟩]`.
                   [otherwise: by spelling it is the empty alternative (`Item.Len` = 0), by kind it
                    is not — `S : "empty" a` (D16), `S : empty a`, `S : "empty"`; for production 0,
                    `S' : Start`, the clause says that the start symbol is not spelled `empty`]

Each clause is needed (`C02KindEx.clauses_needed`, Props/C02Kind.lean: for each clause a grammar
violating only this clause, generated without panic, on which the two readings differ).  Nothing is
required of
  * `tokIds` (the token ids of the lexical part only add terminals; both readings look a terminal up
    by spelling in the same list) — the parameter is kept so that `SpellingsOk` has the signature of
    `NamesOk`;
  * a symbol spelled `empty` that is NOT the first of its alternative (`S : a empty`): both readings
    take it for the terminal spelled `empty` (it is `CompleteNamesOk` that excludes it, for the
    generator's FIRST sets);
  * an alternative with an empty body (both readings: the empty alternative);
  * `error`: at the level of the numbered grammar it is a terminal like any other, for both readings
    (the `error` half of D16 concerns the recovery flags `canRecover`, not the grammar).

MAIN: `ngrammarSpec_eq_ngrammarOf`: for every successful `genParser syn tokIds = .ok r` with
`SpellingsOk syn tokIds`, the two numbered grammars over the tables' `terminals` / `nts` are EQUAL.
-/
namespace Gocc

namespace KindG

/-- every production id used in a body is spelled like a head -/
def ProdIdDefined (prods : List SProd) : Prop :=
  ∀ p ∈ prods, ∀ s ∈ p.body, s.kind = .prodId → s.name ∈ prods.map (·.head)

/-- no token id / string literal used in a body is spelled like a head -/
def TerminalNotHead (prods : List SProd) : Prop :=
  ∀ p ∈ prods, ∀ s ∈ p.body, s.kind ≠ .prodId → s.name ∉ prods.map (·.head)

/-- an alternative whose first symbol is spelled `empty` is the keyword `empty` standing alone -/
def EmptyAlone (prods : List SProd) : Prop :=
  ∀ p ∈ prods, ∀ s ∈ p.body.head?, s.name = "empty" → p.body = [⟨.tokId, "empty"⟩]

instance (prods : List SProd) : Decidable (ProdIdDefined prods) := by
  unfold ProdIdDefined; infer_instance
instance (prods : List SProd) : Decidable (TerminalNotHead prods) := by
  unfold TerminalNotHead; infer_instance
instance (prods : List SProd) : Decidable (EmptyAlone prods) := by
  unfold EmptyAlone; infer_instance

end KindG

/-- the spellings of a syntax part under which reading it by kind and reading it by spelling give
    the same grammar (clauses over `augment syn`, see the head of this file) -/
structure SpellingsOk (syn : List SProd) (tokIds : List String) : Prop where
  /-- every production id used in a body is spelled like a head (`S'` or a head of `syn`) -/
  prodIdDefined : KindG.ProdIdDefined (augment syn)
  /-- no token id / string literal used in a body is spelled like a head (`S'` or a head of `syn`) -/
  terminalNotHead : KindG.TerminalNotHead (augment syn)
  /-- a first symbol spelled `empty` is the keyword `empty` standing alone (for production 0: the
      start symbol is not spelled `empty`) -/
  emptyAlone : KindG.EmptyAlone (augment syn)

namespace KindG

theorem spellingsOk_iff (syn : List SProd) (tokIds : List String) :
    SpellingsOk syn tokIds ↔
      ProdIdDefined (augment syn) ∧ TerminalNotHead (augment syn) ∧ EmptyAlone (augment syn) :=
  ⟨fun h => ⟨h.1, h.2, h.3⟩, fun h => ⟨h.1, h.2.1, h.2.2⟩⟩

end KindG

instance (syn : List SProd) (tokIds : List String) : Decidable (SpellingsOk syn tokIds) :=
  decidable_of_iff _ (KindG.spellingsOk_iff syn tokIds).symm

namespace KindG

/-- `prodLen` by cases on the body -/
theorem prodLen_zero_iff (p : SProd) :
    prodLen p = 0 ↔ p.body = [] ∨ ∃ s rest, p.body = s :: rest ∧ s.name = "empty" := by
  unfold prodLen
  cases hb : p.body with
  | nil => simp
  | cons s rest =>
    simp only [reduceCtorEq, List.cons.injEq, false_or]
    by_cases hn : s.name = "empty"
    · simp only [hn, beq_self_eq_true, if_true, true_iff]
      exact ⟨s, rest, ⟨rfl, rfl⟩, hn⟩
    · have : (s.name == "empty") = false := by simpa using hn
      simp only [this, Bool.false_eq_true, if_false, List.length_cons]
      constructor
      · intro h; omega
      · rintro ⟨s', rest', ⟨rfl, rfl⟩, h⟩; exact absurd h hn

/-- a symbol read by kind = the symbol read by spelling, when kinds and spellings agree -/
theorem symSpec_eq_symOf {terms nts : List String} {s : SSym}
    (h1 : s.kind = .prodId → s.name ∈ nts) (h2 : s.kind ≠ .prodId → s.name ∉ nts) :
    symSpec terms nts s = symOf terms nts s.name := by
  unfold symSpec symOf
  cases hk : s.kind with
  | prodId =>
    rw [idxOf?_eq_idxOf (h1 hk)]
    rfl
  | tokId =>
    rw [List.idxOf?_eq_none_iff.2 (h2 (by rw [hk]; intro h; cases h))]
  | strLit =>
    rw [List.idxOf?_eq_none_iff.2 (h2 (by rw [hk]; intro h; cases h))]

/-- the two readings of one alternative -/
theorem body_eq {terms nts : List String} {p : SProd}
    (h1 : ∀ s ∈ p.body, s.kind = .prodId → s.name ∈ nts)
    (h2 : ∀ s ∈ p.body, s.kind ≠ .prodId → s.name ∉ nts)
    (h3 : ∀ s ∈ p.body.head?, s.name = "empty" → p.body = [⟨.tokId, "empty"⟩]) :
    (if isEmptyAlt p then [] else p.body.map (symSpec terms nts)) =
      (if prodLen p == 0 then [] else p.body.map fun s => symOf terms nts s.name) := by
  have hmap : p.body.map (symSpec terms nts) = p.body.map fun s => symOf terms nts s.name :=
    List.map_congr_left fun s hs => symSpec_eq_symOf (h1 s hs) (h2 s hs)
  by_cases he : isEmptyAlt p = true
  · have hb : p.body = [⟨.tokId, "empty"⟩] := by simpa [isEmptyAlt] using he
    have h0 : prodLen p = 0 := (prodLen_zero_iff p).2 (.inr ⟨_, _, hb, rfl⟩)
    simp [he, h0]
  · rw [if_neg he]
    by_cases h0 : prodLen p = 0
    · rcases (prodLen_zero_iff p).1 h0 with hb | ⟨s, rest, hb, hn⟩
      · simp [h0, hb]
      · exfalso
        apply he
        have := h3 s (by rw [hb]; rfl) hn
        simp [isEmptyAlt, this]
    · have : (prodLen p == 0) = false := by simpa using h0
      simp only [this, Bool.false_eq_true, if_false]
      exact hmap

/-- the two readings of a list of productions, over any numbering whose non-terminals are exactly
    the heads -/
theorem spec_eq_of {prods : List SProd} {terms nts : List String}
    (hnts : ∀ x, x ∈ nts ↔ x ∈ prods.map (·.head))
    (h1 : ProdIdDefined prods) (h2 : TerminalNotHead prods) (h3 : EmptyAlone prods) :
    ngrammarSpec prods terms nts = ngrammarOf prods terms nts := by
  unfold ngrammarSpec ngrammarOf
  congr 2
  apply List.map_congr_left
  intro p hp
  congr 1
  exact body_eq (fun s hs hk => (hnts _).2 (h1 p hp s hs hk))
    (fun s hs hk hm => h2 p hp s hs hk ((hnts _).1 hm)) (h3 p hp)

/-- the non-terminals of the generated tables are exactly the heads of the augmented grammar -/
theorem nts_iff_heads {syn : List SProd} {tokIds : List String} {r : LRResult}
    (h : genParser syn tokIds = .ok r) (x : String) :
    x ∈ r.tables.nts ↔ x ∈ (augment syn).map (·.head) := by
  obtain ⟨S0, hS0, hctx, -⟩ := genParser_shape h
  obtain ⟨rows, -, -, hnts, -⟩ := genParser_tables h
  have hnt : r.ctx.S.ntList = S0.ntList := by rw [hctx]; rfl
  rw [hnts, hnt]
  constructor
  · exact newSymbols_ntList_sub hS0 x
  · intro hx
    obtain ⟨p, hp, rfl⟩ := List.mem_map.1 hx
    exact (newSymbols_WFp hS0 p hp).1

end KindG

/-- MAIN: under `SpellingsOk`, for the tables of any successful generator run, the grammar read by
    kind IS the grammar the generator-level theorems talk about -/
theorem ngrammarSpec_eq_ngrammarOf {syn : List SProd} {tokIds : List String} {r : LRResult}
    (h : genParser syn tokIds = .ok r) (hs : SpellingsOk syn tokIds) :
    ngrammarSpec (augment syn) r.tables.terminals r.tables.nts =
      ngrammarOf (augment syn) r.tables.terminals r.tables.nts :=
  KindG.spec_eq_of (KindG.nts_iff_heads h) hs.1 hs.2 hs.3

end Gocc
