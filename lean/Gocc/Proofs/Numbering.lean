import Gocc.Model.LR1
/-
Helper lemmas for C10 (symbol / token numbering).

`symbols.NewSymbols` + `Add` build `typeMap` (the id ↔ name table) with `addNoDup`; the token
map of the generated `token` package is `ListTerminals()`, i.e. `typeMap` filtered by
`isTerminal`.  The generated `token.TokMap` has `Id(type) string` (index into the `typeMap`
slice, `"unknown"` out of range) and `Type(name) Type` (lookup in the `idMap` built from the
same slice, Go map miss = 0 = INVALID); they are modelled by `tokId` / `tokType`.
-/
namespace Gocc

/-- `TokenMap.Id` -/
def tokId (terms : List String) (i : Nat) : String := terms[i]?.getD "unknown"

/-- `TokenMap.Type` -/
def tokType (terms : List String) (s : String) : Nat := (terms.idxOf? s).getD 0

/-! ### `addNoDup` -/

theorem mem_addNoDup {l : List String} {s x : String} : x ∈ addNoDup l s ↔ x ∈ l ∨ x = s := by
  unfold addNoDup
  split
  · rename_i h
    rw [List.contains_iff_mem] at h
    constructor
    · exact Or.inl
    · rintro (h' | rfl)
      · exact h'
      · exact h
  · simp

theorem addNoDup_nodup {l : List String} {s : String} (h : l.Nodup) : (addNoDup l s).Nodup := by
  unfold addNoDup
  split
  · exact h
  · rename_i hc
    rw [List.contains_iff_mem] at hc
    rw [List.nodup_append]
    refine ⟨h, by simp, ?_⟩
    intro a ha b hb
    simp only [List.mem_singleton] at hb
    subst hb
    intro hab; subst hab; exact hc ha

theorem addNoDup_prefix (l : List String) (s : String) : l <+: addNoDup l s := by
  unfold addNoDup
  split
  · exact List.prefix_refl l
  · exact List.prefix_append l [s]

/-- the invariant of the id table: no name twice, ids 0 and 1 are INVALID and ␚ -/
def NumInv (tm : List String) : Prop := tm.Nodup ∧ ["INVALID", "␚"] <+: tm

theorem NumInv_addNoDup {tm : List String} (s : String) (h : NumInv tm) :
    NumInv (addNoDup tm s) :=
  ⟨addNoDup_nodup h.1, h.2.trans (addNoDup_prefix tm s)⟩

theorem NumInv_foldl_addNoDup (ids tm : List String) (h : NumInv tm) :
    NumInv (ids.foldl addNoDup tm) := by
  induction ids generalizing tm with
  | nil => exact h
  | cons a ids ih => exact ih _ (NumInv_addNoDup a h)

theorem mem_foldl_addNoDup (ids tm : List String) (x : String) :
    x ∈ ids.foldl addNoDup tm ↔ x ∈ tm ∨ x ∈ ids := by
  induction ids generalizing tm with
  | nil => simp
  | cons a ids ih =>
    simp only [List.foldl_cons, ih, mem_addNoDup, List.mem_cons]
    grind

theorem NumInv_get {tm : List String} (h : NumInv tm) :
    tm.Nodup ∧ tm[0]? = some "INVALID" ∧ tm[1]? = some "␚" := by
  obtain ⟨h1, t, rfl⟩ := h
  exact ⟨h1, by simp, by simp⟩

/-! ### `newSymbols` -/

/-- invariants of an `Except` fold -/
theorem foldlM_except_inv {σ α : Type} (P : σ → Prop) (f : σ → α → Except String σ)
    (hf : ∀ s x s', P s → f s x = .ok s' → P s') (l : List α) (init r : σ)
    (h0 : P init) (h : l.foldlM f init = .ok r) : P r := by
  induction l generalizing init with
  | nil =>
    simp only [List.foldlM_nil, pure, Except.pure, Except.ok.injEq] at h
    exact h ▸ h0
  | cons a l ih =>
    rw [List.foldlM_cons] at h
    cases hfa : f init a with
    | error e => simp [hfa, bind, Except.bind] at h
    | ok s1 =>
      simp only [hfa, bind, Except.bind] at h
      exact ih s1 (hf _ _ _ h0 hfa) h

theorem symAddSym_typeMap {s s' : PSymbols} {sym : SSym} (h : symAddSym s sym = .ok s') :
    s'.typeMap = addNoDup s.typeMap sym.name := by
  unfold symAddSym at h
  simp only at h
  split at h
  · split at h
    · cases h
    · cases h; rfl
  · cases h; rfl

theorem symAddSym_inv {s s' : PSymbols} {sym : SSym} (hs : NumInv s.typeMap)
    (h : symAddSym s sym = .ok s') : NumInv s'.typeMap := by
  rw [symAddSym_typeMap h]; exact NumInv_addNoDup _ hs

theorem symAddProd_inv {s s' : PSymbols} {p : SProd} (hs : NumInv s.typeMap)
    (h : symAddProd s p = .ok s') : NumInv s'.typeMap := by
  unfold symAddProd at h
  exact foldlM_except_inv (fun s => NumInv s.typeMap) symAddSym
    (fun _ _ _ h1 h2 => symAddSym_inv h1 h2) _ _ _ (NumInv_addNoDup _ hs) h

theorem newSymbols_inv {prods : List SProd} {S : PSymbols} (h : newSymbols prods = .ok S) :
    NumInv S.typeMap := by
  unfold newSymbols at h
  exact foldlM_except_inv (fun s => NumInv s.typeMap) symAddProd
    (fun _ _ _ h1 h2 => symAddProd_inv h1 h2) _ _ _
    ⟨by decide, List.prefix_refl _⟩ h

theorem addTokens_inv {S : PSymbols} (ids : List String) (h : NumInv S.typeMap) :
    NumInv (S.addTokens ids).typeMap :=
  NumInv_foldl_addNoDup ids _ h

/-! ### terminals -/

theorem terminals_numbering (S : PSymbols) (h : NumInv S.typeMap)
    (h0 : S.isTerminal "INVALID" = true) (h1 : S.isTerminal "␚" = true) :
    S.terminals[0]? = some "INVALID" ∧ S.terminals[1]? = some "␚" ∧ S.terminals.Nodup := by
  obtain ⟨hn, t, ht⟩ := h
  unfold PSymbols.terminals
  refine ⟨?_, ?_, hn.filter _⟩
  · rw [← ht]; simp [h0]
  · rw [← ht]; simp [h0, h1]

/-! ### `Id` and `Type` are inverse on a duplicate-free table -/

theorem idxOf?_getElem_of_nodup (terms : List String) (h : terms.Nodup) (i : Nat)
    (hi : i < terms.length) : terms.idxOf? terms[i] = some i := by
  rw [List.idxOf?_eq_some_iff]
  refine ⟨hi, rfl, ?_⟩
  intro j hj heq
  have := (List.getElem_inj h).mp heq
  omega

theorem tokType_tokId (terms : List String) (h : terms.Nodup) (i : Nat) (hi : i < terms.length) :
    tokType terms (tokId terms i) = i := by
  unfold tokType tokId
  rw [List.getElem?_eq_getElem hi, Option.getD_some, idxOf?_getElem_of_nodup terms h i hi,
    Option.getD_some]

theorem tokId_tokType (terms : List String) (s : String) (hs : s ∈ terms) :
    tokId terms (tokType terms s) = s := by
  unfold tokType tokId
  cases hidx : terms.idxOf? s with
  | none => rw [List.idxOf?_eq_none_iff] at hidx; exact absurd hs hidx
  | some i =>
    rw [List.idxOf?_eq_some_iff] at hidx
    obtain ⟨hi, heq, _⟩ := hidx
    rw [Option.getD_some, List.getElem?_eq_getElem hi, Option.getD_some, heq]

theorem tokType_unknown (terms : List String) (s : String) (hs : s ∉ terms) :
    tokType terms s = 0 := by
  unfold tokType
  rw [List.idxOf?_eq_none_iff.mpr hs]; rfl

theorem tokId_out_of_range (terms : List String) (i : Nat) (hi : terms.length ≤ i) :
    tokId terms i = "unknown" := by
  unfold tokId
  rw [List.getElem?_eq_none hi]; rfl

end Gocc
